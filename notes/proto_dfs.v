From Coq Require Import List Bool Arith Lia.
Import ListNotations.

Section DFS.
Variable V : Type.
Variable eqb : V -> V -> bool.
Hypothesis eqb_spec : forall a b, eqb a b = true <-> a = b.

Definition memb (x : V) (l : list V) : bool := existsb (eqb x) l.
Lemma memb_In x l : memb x l = true <-> In x l.
Proof. unfold memb. rewrite existsb_exists. split.
  - intros (y & Hy & E). apply eqb_spec in E. subst; auto.
  - intros H. exists x. split; auto. apply eqb_spec; auto. Qed.
Lemma memb_nIn x l : memb x l = false <-> ~ In x l.
Proof. rewrite <- memb_In. destruct (memb x l); split; congruence. Qed.

Variable E : list (V * V).
Definition succs (x : V) : list V := map snd (filter (fun e => eqb (fst e) x) E).
Lemma succs_In x y : In y (succs x) <-> In (x,y) E.
Proof. unfold succs. rewrite in_map_iff. split.
  - intros ((a,b) & Hb & Hin). simpl in Hb; subst. apply filter_In in Hin. destruct Hin as (Hin & Ha).
    simpl in Ha. apply eqb_spec in Ha. subst; auto.
  - intros H. exists (x,y). split; auto. apply filter_In. split; auto. simpl. apply eqb_spec; auto. Qed.

(* all simple paths from x to tgt avoiding visited; a path is the list of nodes including both ends *)
Fixpoint dfs (fuel : nat) (visited : list V) (x tgt : V) : list (list V) :=
  match fuel with
  | O => []
  | S f =>
     (if eqb x tgt then [[x]] else
       flat_map (fun y => if memb y (x :: visited) then [] else map (cons x) (dfs f (x :: visited) y tgt)) (succs x))
  end.
(* networkx: does not continue through the target; paths stop at first arrival at tgt *)

Inductive walk : V -> V -> list V -> Prop :=
| w_one x : walk x x [x]
| w_step x y t p : In (x,y) E -> x <> t -> walk y t p -> walk x t (x :: p).

Lemma dfs_sound fuel : forall visited x tgt p, In p (dfs fuel visited x tgt) ->
  walk x tgt p /\ NoDup p /\ (forall z, In z p -> ~ In z visited \/ z = x).
Proof.
  induction fuel as [|f IH]; intros visited x tgt p H; [destruct H|]. cbn [dfs] in H.
  destruct (eqb x tgt) eqn:Ex.
  - apply eqb_spec in Ex. subst. destruct H as [<-|[]]. repeat split; [constructor|repeat constructor; simpl; tauto|].
    intros z [<-|[]]; auto.
  - apply in_flat_map in H. destruct H as (y & Hy & Hp).
    destruct (memb y (x :: visited)) eqn:Em; [destruct Hp|].
    apply in_map_iff in Hp. destruct Hp as (q & <- & Hq).
    apply IH in Hq. destruct Hq as (Hw & Hnd & Hav).
    apply memb_nIn in Em.
    assert (x <> tgt) by (intro; subst; assert (eqb tgt tgt = true) by (apply eqb_spec; auto); congruence).
    repeat split.
    + econstructor; eauto. apply succs_In; auto.
    + constructor; auto. intro Hin. destruct (Hav _ Hin) as [Hn|Heq]; [apply Hn; left; auto| subst; apply Em; left; auto].
    + intros z [<-|Hz]; auto. destruct (Hav _ Hz) as [Hn|Heq].
      * left. intro. apply Hn. right; auto.
      * subst. left. intro. apply Em. right; auto.
Qed.

Lemma dfs_complete : forall p x tgt, walk x tgt p -> NoDup p -> forall visited fuel,
  (forall z, In z p -> ~ In z visited) -> length p <= fuel -> In p (dfs fuel visited x tgt).
Proof.
  induction 1 as [x | x y t p Hxy Hne Hw IH]; intros Hnd visited fuel Hav Hlen.
  - destruct fuel; [simpl in Hlen; lia|]. cbn [dfs]. assert (eqb x x = true) as -> by (apply eqb_spec; auto). left; auto.
  - destruct fuel; [simpl in Hlen; lia|]. cbn [dfs]. simpl in Hlen.
    destruct (eqb x t) eqn:Ex. { apply eqb_spec in Ex. contradiction. }
    apply in_flat_map. exists y. split; [apply succs_In; auto|].
    inversion Hnd as [|? ? Hnx Hndp]; subst.
    assert (In y p) by (inversion Hw; subst; left; auto).
    assert (memb y (x :: visited) = false) as ->.
    { apply memb_nIn. intros [Heq|Hv]; [subst; contradiction|]. apply (Hav y); [right; assumption|assumption]. }
    apply in_map. apply IH; auto; [|lia].
    intros z Hz [Heq|Hv]; [subst; contradiction|]. apply (Hav z); [right; assumption|assumption].
Qed.
End DFS.
Print Assumptions dfs_complete.
