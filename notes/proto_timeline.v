From Coq Require Import ZArith List Bool Lia ZifyBool.
Import ListNotations.
Open Scope Z_scope.

(* timeline stored newest-first *)
Definition itv := (Z * Z)%type.
Definition tl := list itv.

Definition in_itv (t : Z) (i : itv) : bool := (fst i <=? t) && (t <=? snd i).
Definition mem (t : Z) (l : tl) : bool := existsb (in_itv t) l.

(* canonical, newest first: each start<=end, and next older interval ends at least 2 before *)
Fixpoint canon (l : tl) : Prop :=
  match l with
  | [] => True
  | (a,b) :: r => a <= b /\ (match r with [] => True | (_,b') :: _ => b' + 1 < a end) /\ canon r
  end.

Inductive res := Ok (l : tl) | Reject.

(* fixed merge: span [s,e] with s<=e *)
Definition merge (l : tl) (s e : Z) : res :=
  match l with
  | [] => Ok [(s,e)]
  | (a,b) :: r =>
      if s <? a then Reject
      else if s <=? b + 1 then (if b <? e then Ok ((a,e)::r) else Ok l)
      else Ok ((s,e) :: l)
  end.

Lemma merge_canon l s e l' : s <= e -> canon l -> merge l s e = Ok l' -> canon l'.
Proof.
  intros Hse Hc. destruct l as [|[a b] r]; simpl.
  - intros H; inversion H; subst; simpl; lia.
  - simpl in Hc. destruct Hc as (Hab & Hr & Hc).
    destruct (s <? a) eqn:E1; [discriminate|].
    destruct (s <=? b+1) eqn:E2.
    + destruct (b <? e) eqn:E3; intros H; inversion H; subst; simpl.
      * destruct r as [|[a' b'] r']; simpl in *; intuition lia.
      * repeat split; auto.
    + intros H; inversion H; subst; simpl. repeat split; auto; lia.
Qed.

Lemma merge_mem l s e l' t : s <= e -> canon l -> merge l s e = Ok l' ->
  mem t l' = mem t l || ((s <=? t) && (t <=? e)).
Proof.
  intros Hse Hc. destruct l as [|[a b] r]; simpl.
  - intros H; inversion H; subst; simpl. unfold in_itv; simpl. lia.
  - simpl in Hc. destruct Hc as (Hab & Hr & Hc).
    destruct (s <? a) eqn:E1; [discriminate|].
    destruct (s <=? b+1) eqn:E2.
    + destruct (b <? e) eqn:E3; intros H; inversion H; subst; simpl; unfold in_itv; simpl;
      destruct (existsb (fun i => (fst i <=? t) && (t <=? snd i)) r); lia.
    + intros H; inversion H; subst; simpl; unfold in_itv; simpl. destruct (existsb (fun i => (fst i <=? t) && (t <=? snd i)) r); lia.
Qed.

(* envelope presence test as in code: first.start <= t <= last.end then scan *)
Definition lo (l : tl) : Z := fst (last l (0,0)).
Definition presence (l : tl) (t : Z) : bool :=
  match l with
  | [] => false
  | (_, bl) :: _ =>
      if (lo l <=? t) && (t <=? bl) then mem t l else false
  end.

Lemma lo_cons x y r : lo (x :: y :: r) = lo (y :: r).
Proof. reflexivity. Qed.

Lemma canon_lo_le l : canon l -> match l with [] => True | (a,_) :: _ => lo l <= a end.
Proof.
  induction l as [|[a b] r IH]; simpl; auto. intros (Hab & Hr & Hc).
  destruct r as [|[a' b'] r']; [unfold lo; simpl; lia|].
  rewrite lo_cons. specialize (IH Hc). simpl in IH. simpl in Hc. lia.
Qed.

Lemma canon_bounds l : canon l -> forall t, mem t l = true ->
  match l with [] => False | (_,bl)::_ => lo l <= t <= bl end.
Proof.
  induction l as [|[a b] r IH]; intros Hc t Hm; [discriminate|].
  pose proof (canon_lo_le _ Hc) as Hlo. simpl in Hlo.
  simpl in Hc. destruct Hc as (Hab & Hr & Hc).
  simpl in Hm. apply orb_true_iff in Hm. destruct Hm as [Hm|Hm].
  - unfold in_itv in Hm; simpl in Hm. lia.
  - destruct r as [|[a' b'] r']; [discriminate|].
    specialize (IH Hc t Hm). rewrite lo_cons. simpl in IH. lia.
Qed.

Lemma presence_mem l t : canon l -> presence l t = mem t l.
Proof.
  intros Hc. unfold presence. destruct l as [|[a b] r]; [reflexivity|].
  destruct (mem t _) eqn:Hm.
  - pose proof (canon_bounds _ Hc t Hm) as Hb. cbv beta iota in Hb.
    destruct (_ && _) eqn:E; [reflexivity|lia].
  - destruct (_ && _); reflexivity.
Qed.
Print Assumptions presence_mem.
