"""Scratch note (design round): pure-functional reference of the repaired add_interaction step exactly as
written in DESIGN §5.0, diffed against a scratch copy of dynetx patched with notes/draft_fixes.patch
(the sys.path entry below pointed at that copy). Not used by any check."""
import sys, itertools, random
sys.path.insert(0,'/tmp/scratch/rc2')
import dynetx as dn
def init(directed, removal): return dict(directed=directed, removal=removal, nodes=[], edges=[], events=[], snaps={})
def key_eq(st,k,u,v): return k==(u,v) or (not st['directed'] and k==(v,u))
def lookup(st,u,v):
    for i,(k,tl) in enumerate(st['edges']):
        if key_eq(st,k,u,v): return i
    return None
def add_event(st,t,u,v,op):
    for (tt,(a,b,o)) in st['events']:
        if tt==t and o==op and key_eq(st,(a,b),u,v): return
    st['events'].append((t,(u,v,op)))
def del_event(st,t,u,v,op):
    st['events']=[(tt,(a,b,o)) for (tt,(a,b,o)) in st['events'] if not (tt==t and o==op and key_eq(st,(a,b),u,v))]
def step(st,u,v,t,e):
    if t is None: return 'ENetworkX'
    s=t; f=(e-1) if (e is not None and st['removal']) else t
    i=lookup(st,u,v)
    if i is not None and s < st['edges'][i][1][-1][0]: return 'EValue'
    for n in (u,v):
        if n not in st['nodes']: st['nodes'].append(n)
    if f<s: return 'Done'
    closing = e is not None and st['removal']
    fresh=[]
    if i is None:
        st['edges'].append(((u,v),[[s,f]])); add_event(st,s,u,v,'+')
        if closing: add_event(st,e,u,v,'-')
        fresh=range(s,f+1)
    else:
        tl=st['edges'][i][1]; a,b=tl[-1]
        if s>b+1:
            tl.append([s,f])
            if st['removal']: add_event(st,s,u,v,'+')
            if closing: add_event(st,e,u,v,'-')
            fresh=range(s,f+1)
        elif f>b:
            single = (a==b and s==b+1 and e is None)
            del_event(st,b+1,u,v,'-'); tl[-1][1]=f
            if st['removal'] and not single: add_event(st,f+1,u,v,'-')
            fresh=range(b+1,f+1)
        elif closing and f==b:
            add_event(st,e,u,v,'-')
    if st['removal']:
        for x in fresh: st['snaps'][x]=st['snaps'].get(x,0)+2
    else:
        st['snaps'][s]=st['snaps'].get(s,0)+2
    return 'Done'
def obs_model(st):
    ev=sorted(st['events'],key=lambda x:x[0])  # stable
    return (list(st['nodes']), sorted((k,[tuple(x) for x in tl]) for k,tl in st['edges']), [(a,b,o,t) for (t,(a,b,o)) in ev], sorted(st['snaps'].items()))
def obs_impl(g,directed):
    edges=[]
    it = g.out_interactions() if directed else g.interactions()
    return (list(g.nodes()), None, list(g.stream_interactions()), sorted(g.snapshots.items()))
def tl_impl(g,st):
    out=[]
    for (k,_) in st['edges']:
        u,v=k
        out.append((k,[tuple(x) for x in (g._succ if st['directed'] else g._adj)[u][v]['t']]))
    return sorted(out)
def canon_stream(s,directed):
    # sort within instants, normalise orientation for undirected
    return sorted(((t,op)+((a,b) if directed else tuple(sorted((a,b)))) for (a,b,op,t) in s))
bad=0;n=0
rnd=random.Random(4)
for directed in (False,True):
  for removal in (True,False):
    cls=dn.DynDiGraph if directed else dn.DynGraph
    ops=[]
    for (u,v) in [(1,2),(2,1),(1,3),(1,1)]:
        for t in range(0,4):
            ops.append((u,v,t,None))
            for e in range(t-1,t+4): ops.append((u,v,t,e))
    ops.append((1,2,None,None))
    for L in (1,2,3,4,6):
        it = itertools.product(ops,repeat=L) if L<=2 else (tuple(rnd.choice(ops) for _ in range(L)) for _ in range(40000))
        for hist in it:
            n+=1
            g=cls(edge_removal=removal); st=init(directed,removal)
            for (u,v,t,e) in hist:
                try: g.add_interaction(u,v,t,e); oi='Done'
                except ValueError: oi='EValue'
                except Exception as x: oi={'NetworkXError':'ENetworkX'}.get(type(x).__name__,type(x).__name__)
                om=step(st,u,v,t,e)
                if oi!=om: bad+=1; print('OUTCOME',hist,oi,om); break
            else:
                M=obs_model(st); I=obs_impl(g,directed)
                if M[0]!=I[0] or M[1]!=tl_impl(g,st) or canon_stream(M[2],directed)!=canon_stream(I[2],directed) or M[3]!=I[3]:
                    bad+=1
                    if bad<6: print('DIFF',directed,removal,hist,'\n  M',M,'\n  I',I,tl_impl(g,st))
print('cases',n,'bad',bad)
