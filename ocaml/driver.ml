(* Dumb pipe around the extracted model: one operation per line (space separated integers), a line "." ends a
   case; output one line per operation result, then ".".  The command word on the first line of a case selects
   the entry point. *)
open Model

let rec pos_of_int (n : int) : positive =
  if n = 1 then XH else if n land 1 = 0 then XO (pos_of_int (n lsr 1)) else XI (pos_of_int (n lsr 1))
let z_of_int (n : int) : z = if n = 0 then Z0 else if n > 0 then Zpos (pos_of_int n) else Zneg (pos_of_int (-n))
let rec int_of_pos (p : positive) : int = match p with XH -> 1 | XO q -> 2 * int_of_pos q | XI q -> 2 * int_of_pos q + 1
let int_of_z (x : z) : int = match x with Z0 -> 0 | Zpos p -> int_of_pos p | Zneg p -> - (int_of_pos p)

let parse_line (s : string) : z list =
  String.split_on_char ' ' s |> List.filter (fun x -> x <> "") |> List.map (fun x -> z_of_int (int_of_string x))
let print_line (l : z list) =
  print_string (String.concat " " (List.map (fun x -> string_of_int (int_of_z x)) l)); print_newline ()

let () =
  let buf = ref [] in
  (try
    while true do
      let line = input_line stdin in
      if line = "." then begin
        let prog = List.rev !buf in
        buf := [];
        let res = run_prog prog in
        List.iter print_line res;
        print_string ".\n"
      end else buf := parse_line line :: !buf
    done
  with End_of_file -> ());
  flush stdout
