(* Dumb pipe around the extracted model: one operation per line (space separated integers), a line "." ends a
   case; output one line per operation result, then ".".  The command word on the first line of a case selects
   the entry point. *)
module BZ = Z   (* zarith: arbitrary-precision integers on the wire only (decimal text <-> the extracted inductive Z) *)
open Model

let rec pos_of_bz (n : BZ.t) : positive =
  if BZ.equal n BZ.one then XH
  else if BZ.testbit n 0 then XI (pos_of_bz (BZ.shift_right n 1)) else XO (pos_of_bz (BZ.shift_right n 1))
let z_of_bz (n : BZ.t) : z =
  if BZ.sign n = 0 then Z0 else if BZ.sign n > 0 then Zpos (pos_of_bz n) else Zneg (pos_of_bz (BZ.neg n))
let rec bz_of_pos (p : positive) : BZ.t =
  match p with XH -> BZ.one | XO q -> BZ.shift_left (bz_of_pos q) 1 | XI q -> BZ.succ (BZ.shift_left (bz_of_pos q) 1)
let bz_of_z (x : z) : BZ.t = match x with Z0 -> BZ.zero | Zpos p -> bz_of_pos p | Zneg p -> BZ.neg (bz_of_pos p)

let parse_line (s : string) : z list =
  String.split_on_char ' ' s |> List.filter (fun x -> x <> "") |> List.map (fun x -> z_of_bz (BZ.of_string x))
let print_line (l : z list) =
  print_string (String.concat " " (List.map (fun x -> BZ.to_string (bz_of_z x)) l)); print_newline ()

let () =
  let buf = ref [] in
  (try
    while true do
      let line = input_line stdin in
      if line = "." then begin
        let prog = List.rev !buf in
        buf := [];
        let res = run_prog prog in
        List.iter print_line res;
        print_string ".\n"
      end else buf := parse_line line :: !buf
    done
  with End_of_file -> ());
  flush stdout
