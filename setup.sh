#!/bin/sh
# Builds the Coq development (full .vo build), extracts the model and compiles the OCaml driver. Offline.
# Safe to run concurrently: a lock serialises builds, the binary is replaced atomically and only when stale.
set -e
cd "$(dirname "$0")"
V=$(pwd)
mkdir -p "$V/.work"
exec 9> "$V/.work/build.lock"
flock 9
cd "$V/coq"
if [ ! -f Makefile ] || [ _CoqProject -nt Makefile ]; then
  coq_makefile -f _CoqProject -o Makefile > /dev/null
fi
timeout 3000 make -j16 > "$V/coq/build.log" 2>&1 || { tail -40 "$V/coq/build.log"; echo "coq build failed"; exit 1; }
mkdir -p "$V/ocaml/gen" "$V/ocaml/_b" "$V/bin"
# extraction writes model.ml / model.mli into the directory coqc ran in
if [ -f "$V/coq/model.ml" ]; then mv -f "$V/coq/model.ml" "$V/coq/model.mli" "$V/ocaml/gen/"; fi
if [ ! -f "$V/ocaml/gen/model.ml" ]; then
  # extraction products missing although Extract.vo is up to date: force re-extraction
  rm -f "$V/coq/theories/Extract.vo"
  timeout 3000 make -j16 >> "$V/coq/build.log" 2>&1 || { tail -40 "$V/coq/build.log"; echo "coq build failed"; exit 1; }
  mv -f "$V/coq/model.ml" "$V/coq/model.mli" "$V/ocaml/gen/"
fi
if [ ! -x "$V/bin/dynmodel" ] || [ "$V/ocaml/gen/model.ml" -nt "$V/bin/dynmodel" ] || [ "$V/ocaml/driver.ml" -nt "$V/bin/dynmodel" ]; then
  cp "$V/ocaml/gen/model.ml" "$V/ocaml/gen/model.mli" "$V/ocaml/driver.ml" "$V/ocaml/_b/"
  cd "$V/ocaml/_b"
  ocamlfind ocamlopt -package zarith -linkpkg -O2 -w -a model.mli model.ml driver.ml -o "$V/bin/dynmodel.new" 2>/dev/null || ocamlfind ocamlopt -package zarith -linkpkg -w -a model.mli model.ml driver.ml -o "$V/bin/dynmodel.new"
  mv -f "$V/bin/dynmodel.new" "$V/bin/dynmodel"
fi
echo "setup ok"
