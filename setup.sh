#!/bin/sh
# Builds the Coq development (full .vo build), extracts the model and compiles the OCaml driver. Offline.
set -e
cd "$(dirname "$0")"
V=$(pwd)
cd "$V/coq"
coq_makefile -f _CoqProject -o Makefile > /dev/null
timeout 3000 make -j16 > "$V/coq/build.log" 2>&1 || { tail -40 "$V/coq/build.log"; echo "coq build failed"; exit 1; }
mkdir -p "$V/ocaml/gen" "$V/bin"
# extraction writes model.ml / model.mli into the directory coqc ran in
mv -f "$V/coq/model.ml" "$V/coq/model.mli" "$V/ocaml/gen/" 2>/dev/null || true
cd "$V/ocaml"
cp gen/model.ml gen/model.mli driver.ml "$V/ocaml/_b/" 2>/dev/null || { mkdir -p "$V/ocaml/_b"; cp gen/model.ml gen/model.mli driver.ml "$V/ocaml/_b/"; }
cd "$V/ocaml/_b"
ocamlfind ocamlopt -O2 -w -a model.mli model.ml driver.ml -o "$V/bin/dynmodel" 2>/dev/null || ocamlfind ocamlopt -w -a model.mli model.ml driver.ml -o "$V/bin/dynmodel"
echo "setup ok"
