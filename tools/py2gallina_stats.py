#!/usr/bin/env python3
"""py2gallina_stats: FAIL-CLOSED translator of the temporal-statistics methods of dynetx.DynGraph (and of
utils.transform.compact_timeslot) from their CURRENT Python source to Gallina definitions `py_<name>`.

usage:  python3 tools/py2gallina_stats.py <repo_root> <out.v>

The output follows the Python text statement by statement:
  * `for x in it: body`      -> `fold_left (fun <state> x => body; <state>) it <state>` where <state> is the tuple
                                of the variables assigned in the body (order of first assignment);
  * `x = e`, `x += e`, `x.append(e)`, `a, b = (e1, e2)`  -> `let`;
  * `if c: body` (no else)    -> `let <assigned> := if c then (body; <assigned>) else <assigned> in`;
  * `return e`                -> only as the last top-level statement;
  * `n / d`                   -> the pair (n, d) (type "ratio"); only as the returned value.
Library calls are mapped to MODEL primitives by a fixed table (see `Fn.call`, `Fn.iter_source`).
Every expression is typed (Z, bool, list Z, set, pair, list of pairs, ratio, dict); an ill-typed or unknown
construct makes THAT function untranslatable (it is reported in "failed" and is absent from the output).
Nothing is ever skipped silently, except a leading docstring and type annotations.

stdout: JSON {"translated": [...], "failed": [{"function", "error", "lineno"}, ...]}
exit 0 when the output file was written; exit 2 on I/O or syntax errors of the source files.
Only the stdlib `ast` module is used; the output is a deterministic function of the two source files.
"""
import ast
import json
import os
import sys

# ---------------------------------------------------------------------------------------------------------
# types of the translated fragment
Z, B = "Z", "bool"
LZ = "list Z"          # Python list of ints (insertion order matters)
SZ = "set"             # Python set of ints  = duplicate-free list Z
PZ = "pair"            # a 2-tuple of ints (an interval, an (index, value) pair, a node pair)
LP = "list pair"       # list of 2-tuples
RATIO = "ratio"        # the value of n / d, kept as (n, d)
DICT = "dict"          # {int: int} = association list
COQ_TYPE = {Z: "Z", B: "bool", LZ: "list Z", SZ: "list Z", PZ: "Z * Z", LP: "list (Z * Z)",
            RATIO: "Z * Z", DICT: "list (Z * Z)"}
ELEM = {LZ: Z, LP: PZ}  # element type when iterated (sets are NOT iterable here: their order is unspecified)

DYNGRAPH_FILE = os.path.join("dynetx", "classes", "dyngraph.py")
TRANSFORM_FILE = os.path.join("dynetx", "utils", "transform.py")

# name -> (file, class or None, parameter types after self)
TARGETS = {
    "temporal_snapshots_ids": (DYNGRAPH_FILE, "DynGraph", []),
    "node_presence": (DYNGRAPH_FILE, "DynGraph", [Z]),
    "avg_number_of_nodes": (DYNGRAPH_FILE, "DynGraph", []),
    "coverage": (DYNGRAPH_FILE, "DynGraph", []),
    "node_contribution": (DYNGRAPH_FILE, "DynGraph", [Z]),
    "edge_contribution": (DYNGRAPH_FILE, "DynGraph", [Z, Z]),
    "node_pair_uniformity": (DYNGRAPH_FILE, "DynGraph", [Z, Z]),
    "uniformity": (DYNGRAPH_FILE, "DynGraph", []),
    "density": (DYNGRAPH_FILE, "DynGraph", []),
    "pair_density": (DYNGRAPH_FILE, "DynGraph", [Z, Z]),
    "node_density": (DYNGRAPH_FILE, "DynGraph", [Z]),
    "compact_timeslot": (TRANSFORM_FILE, None, [LZ]),
}
ORDER = list(TARGETS)  # emission order, refined by the dependencies actually found

# methods of self translated to calls of other GENERATED definitions: name -> (arg types, result type)
GENERATED_CALLS = {"temporal_snapshots_ids": ([], LZ), "node_presence": ([Z], SZ)}

BUILTINS_USED = ("len", "set", "sorted", "sum", "enumerate")

RESERVED = set("""
fun let in if then else match with end forall exists exists2 fix cofix as return Type Prop Set SProp at using
where for IF mod struct _ g tl_ d_
fold_left map length fst snd app nil cons pair list option Some None nat Z true false negb andb orb bool
graph snap_keys g_snaps g_dir g_edges g_nodes number_of_nodes has_node has_interaction node_ids pairs_after
deg1 aget aset peqb nk tl_list dedupZ set_inter set_union sortZ sumZ enumerateZ dict_set combine zrange
O S I tt Z0 Zpos Zneg xH xO xI Eq Lt Gt left right inl inr exist conj eq_refl
Done EValue ENetworkX ENotImplemented EKey EFrozen mkG mkAnn
""".split())


class Unsupported(Exception):
    def __init__(self, msg, node=None):
        Exception.__init__(self, msg)
        self.lineno = getattr(node, "lineno", None)


def ind(lines, n=2):
    return [" " * n + s for s in lines]


def let_(pat, rhs):
    """`let pat := rhs in` with a possibly multi-line rhs"""
    if len(rhs) == 1:
        return ["let %s := %s in" % (pat, rhs[0])]
    return ["let %s :=" % pat] + ind(rhs[:-1]) + ind([rhs[-1] + " in"])


def tuple_expr(names):
    return names[0] if len(names) == 1 else "(" + ", ".join(names) + ")"


def tuple_pat(names):
    return names[0] if len(names) == 1 else "'(" + ", ".join(names) + ")"


def src(node):
    try:
        return ast.unparse(node)
    except Exception:  # pragma: no cover
        return type(node).__name__


# ---------------------------------------------------------------------------------------------------------
class Fn:
    """translation of one function"""

    def __init__(self, name, fdef, is_method, param_types, module_names, available):
        self.name = name
        self.fdef = fdef
        self.is_method = is_method
        self.param_types = param_types
        self.module_names = module_names      # name -> origin, for the names bound at module level
        self.available = available            # generated definitions that exist (dependencies)
        self.deps = []
        self.self_name = None
        self.ratio_var = None                  # the variable holding the n / d that must be returned
        self.loop_depth = 0
        self.iter_vars = []                    # variables read by the iterables of the enclosing loops

    # ---- identifiers ----
    def ident(self, name, node):
        if not name.isascii() or not name.isidentifier():
            raise Unsupported("identifier %r not representable" % name, node)
        if name in RESERVED or name.startswith("py_") or "__" in name or name.endswith("_"):
            raise Unsupported("identifier %r is reserved in the generated code" % name, node)
        if name in BUILTINS_USED or name == "combinations":
            raise Unsupported("identifier %r shadows a library name of the fixed table" % name, node)
        return name

    def builtin(self, name, node):
        if name in self.module_names:
            raise Unsupported("%s is rebound at module level (%s)" % (name, self.module_names[name]), node)

    # ---- expressions: return (code, type) ----
    def expr(self, e, env):
        m = getattr(self, "e_" + type(e).__name__, None)
        if m is None:
            raise Unsupported("unsupported expression %s: %s" % (type(e).__name__, src(e)), e)
        return m(e, env)

    def want(self, e, env, ty, what):
        c, t = self.expr(e, env)
        if t != ty:
            raise Unsupported("%s: expected %s, found %s in %s" % (what, ty, t, src(e)), e)
        return c

    def e_Constant(self, e, env):
        v = e.value
        if isinstance(v, bool):
            return ("true" if v else "false"), B
        if isinstance(v, int):
            return (str(v) if v >= 0 else "(%d)" % v), Z
        raise Unsupported("unsupported constant %r" % (v,), e)

    def e_Name(self, e, env):
        if not isinstance(e.ctx, ast.Load):
            raise Unsupported("unsupported name context", e)
        if e.id == self.self_name:
            raise Unsupported("bare use of %s" % e.id, e)
        if e.id not in env:
            raise Unsupported("unbound (or out of scope) variable %s" % e.id, e)
        return e.id, env[e.id]

    def e_UnaryOp(self, e, env):
        if isinstance(e.op, ast.Not):
            return "negb %s" % self.atom(self.want(e.operand, env, B, "not")), B
        if isinstance(e.op, ast.USub):
            return "(- %s)" % self.atom(self.want(e.operand, env, Z, "unary -")), Z
        raise Unsupported("unsupported unary operator %s" % type(e.op).__name__, e)

    @staticmethod
    def atom(c):
        """parenthesise unless obviously atomic"""
        if c.replace("_", "a").isalnum() or (c.startswith("(") and c.endswith(")") and Fn.balanced(c[1:-1])):
            return c
        return "(" + c + ")"

    @staticmethod
    def balanced(s):
        d = 0
        for ch in s:
            if ch == "(":
                d += 1
            elif ch == ")":
                d -= 1
                if d < 0:
                    return False
        return d == 0

    def e_BinOp(self, e, env):
        lc, lt = self.expr(e.left, env)
        rc, rt = self.expr(e.right, env)
        op = type(e.op)
        arith = {ast.Add: "+", ast.Sub: "-", ast.Mult: "*"}
        if op in arith:
            if lt != Z or rt != Z:
                raise Unsupported("arithmetic on %s, %s in %s" % (lt, rt, src(e)), e)
            return "(%s %s %s)" % (self.atom(lc), arith[op], self.atom(rc)), Z
        if op is ast.Div:
            if lt != Z or rt != Z:
                raise Unsupported("division on %s, %s in %s" % (lt, rt, src(e)), e)
            return "(%s, %s)" % (lc, rc), RATIO
        if op in (ast.BitAnd, ast.BitOr):
            if lt != SZ or rt != SZ:
                raise Unsupported("set operation on %s, %s in %s" % (lt, rt, src(e)), e)
            f = "set_inter" if op is ast.BitAnd else "set_union"
            return "%s %s %s" % (f, self.atom(lc), self.atom(rc)), SZ
        raise Unsupported("unsupported binary operator %s" % op.__name__, e)

    def e_BoolOp(self, e, env):
        sym = "&&" if isinstance(e.op, ast.And) else "||"
        cs = [self.atom(self.want(v, env, B, "and/or operand")) for v in e.values]
        return "(" + (" %s " % sym).join(cs) + ")", B

    def e_Compare(self, e, env):
        if len(e.ops) != 1:
            raise Unsupported("chained comparison", e)
        a = self.atom(self.want(e.left, env, Z, "comparison"))
        b = self.atom(self.want(e.comparators[0], env, Z, "comparison"))
        op = type(e.ops[0])
        if op is ast.Eq:
            return "(%s =? %s)" % (a, b), B
        if op is ast.NotEq:
            return "negb (%s =? %s)" % (a, b), B
        if op is ast.Lt:
            return "(%s <? %s)" % (a, b), B
        if op is ast.LtE:
            return "(%s <=? %s)" % (a, b), B
        if op is ast.Gt:
            return "(%s <? %s)" % (b, a), B
        if op is ast.GtE:
            return "(%s <=? %s)" % (b, a), B
        raise Unsupported("unsupported comparison %s" % op.__name__, e)

    def e_IfExp(self, e, env):
        c = self.want(e.test, env, B, "condition of a conditional expression")
        tc, tt = self.ratio_branch(e.body, env)
        fc, ft = self.ratio_branch(e.orelse, env)
        if tt == ft and tt in (Z, B):
            return "(if %s then %s else %s)" % (c, tc, fc), tt
        if RATIO in (tt, ft):
            # `k if c else n / d`: the integer constant k is the ratio (k, 1)
            if tt == "const":
                tc = "(%s, 1)" % tc
            elif tt != RATIO:
                raise Unsupported("branches of types %s / %s in %s" % (tt, ft, src(e)), e)
            if ft == "const":
                fc = "(%s, 1)" % fc
            elif ft != RATIO:
                raise Unsupported("branches of types %s / %s in %s" % (tt, ft, src(e)), e)
            return "(if %s then %s else %s)" % (c, tc, fc), RATIO
        if {tt, ft} <= {Z, "const"}:
            return "(if %s then %s else %s)" % (c, tc, fc), Z
        raise Unsupported("branches of types %s / %s in %s" % (tt, ft, src(e)), e)

    def ratio_branch(self, e, env):
        c, t = self.expr(e, env)
        if t == Z and isinstance(e, ast.Constant):
            return c, "const"
        return c, t

    def e_List(self, e, env):
        if e.elts:
            raise Unsupported("only the empty list literal is supported: %s" % src(e), e)
        return "(@nil Z)", LZ

    def is_self_attr(self, e, attr):
        return (isinstance(e, ast.Attribute) and isinstance(e.value, ast.Name) and e.value.id == self.self_name
                and self.self_name is not None and e.attr == attr and isinstance(e.ctx, ast.Load))

    def e_Subscript(self, e, env):
        if not isinstance(e.ctx, ast.Load):
            raise Unsupported("unsupported subscript context", e)
        # self.degree([u], t)[u]
        v = e.value
        if (isinstance(v, ast.Call) and isinstance(v.func, ast.Attribute) and self.is_self_attr(v.func, "degree")):
            if v.keywords or len(v.args) != 2:
                raise Unsupported("degree: expected self.degree([u], t)[u]", e)
            lst, t = v.args
            if not (isinstance(lst, ast.List) and len(lst.elts) == 1 and isinstance(lst.elts[0], ast.Name)
                    and isinstance(e.slice, ast.Name) and e.slice.id == lst.elts[0].id):
                raise Unsupported("degree: expected self.degree([u], t)[u] with the same u", e)
            u = self.want(lst.elts[0], env, Z, "degree node")
            tc = self.want(t, env, Z, "degree instant")
            return "deg1 g (Some %s) %s" % (self.atom(tc), self.atom(u)), Z
        c, t = self.expr(v, env)
        if t == PZ:
            k = e.slice
            if isinstance(k, ast.UnaryOp) and isinstance(k.op, ast.USub) and isinstance(k.operand, ast.Constant) \
                    and k.operand.value == 1 and not isinstance(k.operand.value, bool):
                return "snd %s" % self.atom(c), Z
            if isinstance(k, ast.Constant) and k.value == 0 and not isinstance(k.value, bool):
                return "fst %s" % self.atom(c), Z
            raise Unsupported("pair index must be 0 or -1: %s" % src(e), e)
        raise Unsupported("unsupported subscript %s" % src(e), e)

    def e_Attribute(self, e, env):
        raise Unsupported("unsupported attribute access %s" % src(e), e)

    def e_ListComp(self, e, env):
        if len(e.generators) != 1:
            raise Unsupported("comprehension with several generators", e)
        gen = e.generators[0]
        if gen.ifs or gen.is_async:
            raise Unsupported("comprehension with a filter", e)
        it, ety = self.iter_source(gen.iter, env)
        pat, env2 = self.bind_target(gen.target, ety, env, [])
        body = self.want(e.elt, env2, Z, "list comprehension element")
        return "map (fun %s => %s) %s" % (pat, body, self.atom(it)), LZ

    def e_DictComp(self, e, env):
        if len(e.generators) != 1:
            raise Unsupported("comprehension with several generators", e)
        gen = e.generators[0]
        if gen.ifs or gen.is_async:
            raise Unsupported("comprehension with a filter", e)
        it, ety = self.iter_source(gen.iter, env)
        pat, env2 = self.bind_target(gen.target, ety, env, [])
        k = self.want(e.key, env2, Z, "dict comprehension key")
        v = self.want(e.value, env2, Z, "dict comprehension value")
        return ("fold_left (fun d_ %s => dict_set d_ %s %s) %s (@nil (Z * Z))"
                % (pat, self.atom(k), self.atom(v), self.atom(it))), DICT

    def e_Call(self, e, env):
        if e.keywords:
            raise Unsupported("keyword arguments in %s" % src(e), e)
        f = e.func
        if isinstance(f, ast.Name):
            return self.call_function(f.id, e, env)
        if isinstance(f, ast.Attribute):
            # self.snapshots.keys()
            if f.attr == "keys" and self.is_self_attr(f.value, "snapshots"):
                if e.args:
                    raise Unsupported("keys() takes no argument", e)
                return "snap_keys g", LZ
            if isinstance(f.value, ast.Name) and f.value.id == self.self_name and self.self_name is not None:
                return self.call_method(f.attr, e, env)
        raise Unsupported("unsupported call %s" % src(e), e)

    def call_function(self, name, e, env):
        if name in env or name == self.self_name:
            raise Unsupported("call of a local variable %s" % name, e)
        args = e.args
        if name == "combinations":
            if self.module_names.get(name) != "itertools.combinations":
                raise Unsupported("combinations is not itertools.combinations here", e)
            if len(args) != 2 or not (isinstance(args[1], ast.Constant) and args[1].value == 2
                                      and not isinstance(args[1].value, bool)):
                raise Unsupported("only combinations(x, 2) is supported", e)
            return "pairs_after %s" % self.atom(self.want(args[0], env, LZ, "combinations")), LP
        if name not in BUILTINS_USED:
            raise Unsupported("unknown function %s" % name, e)
        self.builtin(name, e)
        if len(args) != 1:
            raise Unsupported("%s: exactly one argument expected" % name, e)
        a = args[0]
        if name == "len":
            if self.is_self_attr(a, "snapshots"):
                return "Z.of_nat (length (g_snaps g))", Z
            c, t = self.expr(a, env)
            if t not in (LZ, SZ, LP, DICT):
                raise Unsupported("len of %s" % t, e)
            return "Z.of_nat (length %s)" % self.atom(c), Z
        if name == "set":
            return "dedupZ %s" % self.atom(self.want(a, env, LZ, "set")), SZ
        if name == "sorted":
            return "sortZ %s" % self.atom(self.want(a, env, LZ, "sorted")), LZ
        if name == "sum":
            return "sumZ %s" % self.atom(self.want(a, env, LZ, "sum")), Z
        if name == "enumerate":
            return "enumerateZ %s" % self.atom(self.want(a, env, LZ, "enumerate")), LP
        raise Unsupported("unknown function %s" % name, e)  # pragma: no cover

    def call_method(self, name, e, env):
        args = e.args
        for a in args:
            if isinstance(a, ast.Starred):
                raise Unsupported("starred argument", e)

        def zargs(n):
            if len(args) != n:
                raise Unsupported("self.%s: %d argument(s) expected in %s" % (name, n, src(e)), e)
            return [self.atom(self.want(a, env, Z, "argument of self.%s" % name)) for a in args]

        if name == "number_of_nodes":
            if not args:
                return "number_of_nodes g None", Z
            return "number_of_nodes g (Some %s)" % zargs(1)[0], Z
        if name == "has_node":
            u, t = zargs(2)
            return "has_node g %s (Some %s)" % (u, t), B
        if name == "has_interaction":
            u, v, t = zargs(3)
            return "has_interaction g %s %s (Some %s)" % (u, v, t), B
        if name == "nodes":
            zargs(0)
            return "node_ids g", LZ
        if name in GENERATED_CALLS:
            if name == self.name:
                raise Unsupported("recursive call", e)
            if name not in self.available:
                raise Unsupported("self.%s is needed but could not be translated" % name, e)
            atys, rty = GENERATED_CALLS[name]
            cs = zargs(len(atys))
            if name not in self.deps:
                self.deps.append(name)
            return " ".join(["py_" + name, "g"] + cs), rty
        raise Unsupported("unknown method self.%s" % name, e)

    # ---- iteration ----
    def iter_source(self, e, env):
        """(code, element type) of an iterable"""
        if self.is_self_attr(e, "snapshots"):
            return "snap_keys g", Z
        c, t = self.expr(e, env)
        if t not in ELEM:
            raise Unsupported("iteration over %s (%s) is not supported" % (src(e), t), e)
        return c, ELEM[t]

    def bind_target(self, target, ety, env, forbidden):
        """pattern and extended environment for a loop / comprehension target"""
        env2 = dict(env)

        def fresh(n, node):
            self.ident(n, node)
            if n in env or n == self.self_name or n in forbidden:
                raise Unsupported("loop variable %s shadows another variable" % n, node)

        if isinstance(target, ast.Name):
            fresh(target.id, target)
            env2[target.id] = ety
            return target.id, env2
        if isinstance(target, ast.Tuple) and ety == PZ and len(target.elts) == 2 \
                and all(isinstance(x, ast.Name) for x in target.elts) \
                and target.elts[0].id != target.elts[1].id:
            for x in target.elts:
                fresh(x.id, x)
                env2[x.id] = Z
            return "'(%s, %s)" % (target.elts[0].id, target.elts[1].id), env2
        raise Unsupported("unsupported loop target %s for elements of type %s" % (src(target), ety), target)

    # ---- statements ----
    def assigned(self, stmts):
        """variables assigned by a block, in order of first assignment (only the supported forms)"""
        out = []

        def add(n):
            if n not in out:
                out.append(n)

        for s in stmts:
            if isinstance(s, ast.Assign) and len(s.targets) == 1:
                t = s.targets[0]
                if isinstance(t, ast.Name):
                    add(t.id)
                elif isinstance(t, ast.Tuple):
                    for x in t.elts:
                        if isinstance(x, ast.Name):
                            add(x.id)
            elif isinstance(s, ast.AugAssign) and isinstance(s.target, ast.Name):
                add(s.target.id)
            elif isinstance(s, ast.Expr) and isinstance(s.value, ast.Call) \
                    and isinstance(s.value.func, ast.Attribute) and isinstance(s.value.func.value, ast.Name) \
                    and s.value.func.attr == "append":
                add(s.value.func.value.id)
            elif isinstance(s, (ast.For, ast.If)):
                for n in self.assigned(s.body):
                    add(n)
        return out

    def names_read(self, e):
        return {n.id for n in ast.walk(e) if isinstance(n, ast.Name)}

    def check_target(self, name, node, env, ty, top):
        self.ident(name, node)
        if name == self.self_name:
            raise Unsupported("assignment to %s" % name, node)
        if name in self.iter_vars:
            raise Unsupported("%s is modified while a loop iterates over it" % name, node)
        if name == self.ratio_var:
            raise Unsupported("the ratio %s is reassigned" % name, node)
        if name in env:
            if env[name] != ty:
                raise Unsupported("%s changes type from %s to %s" % (name, env[name], ty), node)
        elif not top:
            raise Unsupported("%s is first assigned inside a loop or a conditional" % name, node)

    def block(self, stmts, env, top):
        """translate a list of statements (no return); returns (lines of `let ... in`, new env)"""
        lines = []
        env = dict(env)
        for s in stmts:
            m = getattr(self, "s_" + type(s).__name__, None)
            if m is None:
                raise Unsupported("unsupported statement %s: %s" % (type(s).__name__, src(s).split("\n")[0]), s)
            ls, env = m(s, env, top)
            lines += ls
        return lines, env

    def s_Assign(self, s, env, top):
        if len(s.targets) != 1 or s.type_comment:
            raise Unsupported("multiple assignment targets", s)
        t = s.targets[0]
        if isinstance(t, ast.Name):
            if isinstance(s.value, ast.Name):
                raise Unsupported("aliasing assignment %s" % src(s), s)
            c, ty = self.expr(s.value, env)
            if ty == RATIO:
                if not top or self.loop_depth or self.ratio_var is not None:
                    raise Unsupported("a division may only be assigned once, at top level: %s" % src(s), s)
                self.check_target(t.id, t, env, ty, top)
                if t.id in env:
                    raise Unsupported("the ratio %s overwrites a variable" % t.id, s)
                self.ratio_var = t.id
            else:
                self.check_target(t.id, t, env, ty, top)
            env = dict(env)
            env[t.id] = ty
            return let_(t.id, [c]), env
        if isinstance(t, ast.Tuple) and isinstance(s.value, ast.Tuple) and len(t.elts) == len(s.value.elts) \
                and len(t.elts) >= 2 and all(isinstance(x, ast.Name) for x in t.elts):
            names = [x.id for x in t.elts]
            if len(set(names)) != len(names):
                raise Unsupported("repeated target in %s" % src(s), s)
            cs = []
            tys = []
            for x, v in zip(t.elts, s.value.elts):
                c, ty = self.expr(v, env)
                if ty not in (Z, B):
                    raise Unsupported("tuple assignment of a %s" % ty, s)
                self.check_target(x.id, x, env, ty, top)
                cs.append(c)
                tys.append(ty)
            env = dict(env)
            for n, ty in zip(names, tys):
                env[n] = ty
            return let_(tuple_pat(names), ["(" + ", ".join(cs) + ")"]), env
        raise Unsupported("unsupported assignment %s" % src(s), s)

    def s_AugAssign(self, s, env, top):
        ops = {ast.Add: "+", ast.Sub: "-", ast.Mult: "*"}
        if type(s.op) not in ops or not isinstance(s.target, ast.Name):
            raise Unsupported("unsupported augmented assignment %s" % src(s), s)
        n = s.target.id
        if env.get(n) != Z:
            raise Unsupported("augmented assignment to %s of type %s" % (n, env.get(n, "unbound")), s)
        self.check_target(n, s.target, env, Z, top)
        c = self.want(s.value, env, Z, "augmented assignment")
        return let_(n, ["%s %s %s" % (n, ops[type(s.op)], self.atom(c))]), env

    def s_Expr(self, s, env, top):
        v = s.value
        if isinstance(v, ast.Call) and isinstance(v.func, ast.Attribute) and v.func.attr == "append" \
                and isinstance(v.func.value, ast.Name) and not v.keywords and len(v.args) == 1:
            n = v.func.value.id
            if env.get(n) != LZ:
                raise Unsupported("append to %s of type %s" % (n, env.get(n, "unbound")), s)
            self.check_target(n, v.func.value, env, LZ, top)
            c = self.want(v.args[0], env, Z, "appended element")
            return let_(n, ["%s ++ [%s]" % (n, c)]), env
        raise Unsupported("unsupported expression statement %s" % src(s).split("\n")[0], s)

    def s_If(self, s, env, top):
        if s.orelse:
            raise Unsupported("`else`/`elif` branch is not supported", s.orelse[0])
        c = self.want(s.test, env, B, "condition")
        vs = self.assigned(s.body)
        body, env2 = self.block(s.body, env, False)
        if not vs:
            raise Unsupported("conditional without effect", s)
        for n in vs:
            if n not in env or env2.get(n) != env[n]:
                raise Unsupported("%s is not a stable variable of the conditional" % n, s)
        tup = tuple_expr(vs)
        rhs = ["if %s then" % c] + ind(body + [tup]) + ["else %s" % tup]
        return let_(tuple_pat(vs), rhs), env

    def s_For(self, s, env, top):
        if s.orelse:
            raise Unsupported("for ... else is not supported", s)
        if s.type_comment:
            raise Unsupported("type comment", s)
        it, ety = self.iter_source(s.iter, env)
        vs = self.assigned(s.body)
        if not vs:
            raise Unsupported("loop without effect", s)
        for n in vs:
            if n not in env:
                raise Unsupported("%s is first assigned inside a loop" % n, s)
        pat, env2 = self.bind_target(s.target, ety, env, vs)
        saved = self.iter_vars
        self.iter_vars = saved + sorted(self.names_read(s.iter))
        self.loop_depth += 1
        body, env3 = self.block(s.body, env2, False)
        self.loop_depth -= 1
        self.iter_vars = saved
        for n in vs:
            if env3.get(n) != env[n]:
                raise Unsupported("%s is not a stable variable of the loop" % n, s)
        tup = tuple_expr(vs)
        rhs = (["fold_left (fun %s %s =>" % (tuple_pat(vs), pat)] + ind(body + [tup + ")"], 4)
               + ind(["%s %s" % (self.atom(it), tup)]))
        # the loop variable(s) leave the scope: a later use is reported as unbound
        return let_(tuple_pat(vs), rhs), env

    # ---- whole function ----
    def translate(self):
        f = self.fdef
        if f.decorator_list:
            raise Unsupported("decorated function", f)
        a = f.args
        if a.vararg or a.kwarg or a.kwonlyargs or a.defaults or a.kw_defaults or a.posonlyargs:
            raise Unsupported("only plain positional parameters without defaults are supported", f)
        params = [x.arg for x in a.args]
        if self.is_method:
            if not params:
                raise Unsupported("method without self", f)
            self.self_name = params[0]
            params = params[1:]
        if len(params) != len(self.param_types):
            raise Unsupported("%d parameter(s) expected, found %d" % (len(self.param_types), len(params)), f)
        if len(set(params)) != len(params) or self.self_name in params:
            raise Unsupported("repeated parameter", f)
        env = {}
        for p, ty in zip(params, self.param_types):
            self.ident(p, f)
            env[p] = ty
        body = list(f.body)
        if body and isinstance(body[0], ast.Expr) and isinstance(body[0].value, ast.Constant) \
                and isinstance(body[0].value.value, str):
            body = body[1:]          # docstring
        if not body or not isinstance(body[-1], ast.Return):
            raise Unsupported("the last top-level statement must be a return", body[-1] if body else f)
        ret = body[-1]
        body = body[:-1]
        for s in body:
            for n in ast.walk(s):
                if isinstance(n, ast.Return):
                    raise Unsupported("return before the end of the function", n)
        if ret.value is None:
            raise Unsupported("return without a value", ret)

        # first statement `x = self._adj[u][v]['t']`: KeyError -> None
        adj = None
        if body and isinstance(body[0], ast.Assign) and self.is_adj_read(body[0].value):
            s = body[0]
            if len(s.targets) != 1 or not isinstance(s.targets[0], ast.Name):
                raise Unsupported("unsupported assignment %s" % src(s), s)
            u, v = self.adj_nodes(s.value, env)
            x = s.targets[0].id
            self.check_target(x, s.targets[0], env, LP, True)
            env[x] = LP
            adj = (u, v, x)
            body = body[1:]
        lines, env = self.block(body, env, True)
        rc, rty = self.expr(ret.value, env)
        if self.ratio_var is not None and not (isinstance(ret.value, ast.Name) and ret.value.id == self.ratio_var):
            raise Unsupported("the division assigned to %s is not what is returned" % self.ratio_var, ret)
        if rty not in COQ_TYPE:
            raise Unsupported("unsupported result type %s" % rty, ret)  # pragma: no cover
        sig = "".join(" (%s : %s)" % (p, COQ_TYPE[t]) for p, t in zip(params, self.param_types))
        gsig = " (g : graph)" if self.is_method else ""
        cty = COQ_TYPE[rty]
        if adj:
            u, v, x = adj
            inner = let_(x, ["tl_list tl_"]) + lines + ["Some %s" % self.atom(rc)]
            out = (["Definition py_%s%s%s : option (%s) :=" % (self.name, gsig, sig, cty)]
                   + ind(["match aget peqb (nk (g_dir g) %s %s) (g_edges g) with" % (u, v),
                          "| None => None", "| Some tl_ =>"] + ind(inner) + ["end."]))
        else:
            out = ["Definition py_%s%s%s : %s :=" % (self.name, gsig, sig, cty)] + ind(lines + [rc + "."])
        return out

    def is_adj_read(self, e):
        return any(isinstance(n, ast.Attribute) and n.attr == "_adj" for n in ast.walk(e))

    def adj_nodes(self, e, env):
        """self._adj[u][v]['t'] exactly"""
        ok = (isinstance(e, ast.Subscript) and isinstance(e.slice, ast.Constant) and e.slice.value == "t"
              and isinstance(e.value, ast.Subscript) and isinstance(e.value.value, ast.Subscript)
              and self.is_self_attr(e.value.value.value, "_adj")
              and isinstance(e.value.slice, ast.Name) and isinstance(e.value.value.slice, ast.Name))
        if not ok:
            raise Unsupported("expected self._adj[u][v]['t'], found %s" % src(e), e)
        u = self.want(e.value.value.slice, env, Z, "node")
        v = self.want(e.value.slice, env, Z, "node")
        return u, v


# ---------------------------------------------------------------------------------------------------------
def module_bindings(tree):
    """names bound at module level -> description of their origin"""
    out = {}
    for s in tree.body:
        if isinstance(s, ast.ImportFrom):
            for al in s.names:
                out[al.asname or al.name] = "%s.%s" % (s.module, al.name)
        elif isinstance(s, ast.Import):
            for al in s.names:
                out[(al.asname or al.name).split(".")[0]] = al.name
        elif isinstance(s, (ast.FunctionDef, ast.ClassDef, ast.AsyncFunctionDef)):
            out[s.name] = "module-level definition"
        elif isinstance(s, (ast.Assign, ast.AugAssign, ast.AnnAssign)):
            for n in ast.walk(s):
                if isinstance(n, ast.Name) and isinstance(n.ctx, ast.Store):
                    out[n.id] = "module-level assignment"
        elif isinstance(s, ast.Expr) and isinstance(s.value, ast.Constant):
            pass
        else:
            for n in ast.walk(s):
                if isinstance(n, ast.Name) and isinstance(n.ctx, ast.Store):
                    out[n.id] = "module-level statement"
                elif isinstance(n, (ast.FunctionDef, ast.ClassDef)):
                    out[n.name] = "conditional definition"
                elif isinstance(n, ast.alias):
                    out[(n.asname or n.name).split(".")[0]] = "conditional import"
    return out


def find_def(tree, cls, name):
    """the unique FunctionDef `name` of class `cls` (or of the module); (fdef, error)"""
    scope = tree.body
    if cls is not None:
        cs = [c for c in tree.body if isinstance(c, ast.ClassDef) and c.name == cls]
        if len(cs) != 1:
            return None, ("class %s not found exactly once" % cls, None)
        scope = cs[0].body
    ds = [d for d in scope if isinstance(d, (ast.FunctionDef, ast.AsyncFunctionDef)) and d.name == name]
    if len(ds) != 1:
        return None, ("%d definitions of %s" % (len(ds), name), ds[-1].lineno if ds else None)
    if not isinstance(ds[0], ast.FunctionDef):
        return None, ("async function", ds[0].lineno)
    # the name must not be rebound otherwise in the same scope (assignment, nested class attribute, ...)
    for s in scope:
        if s is ds[0]:
            continue
        for n in ast.walk(s) if not isinstance(s, (ast.FunctionDef, ast.AsyncFunctionDef, ast.ClassDef)) else []:
            if isinstance(n, ast.Name) and isinstance(n.ctx, ast.Store) and n.id == name:
                return None, ("%s is rebound in its scope" % name, n.lineno)
    return ds[0], None


def main(argv):
    if len(argv) != 3:
        sys.stderr.write(__doc__)
        return 2
    root, out_path = argv[1], argv[2]
    trees = {}
    try:
        for rel in (DYNGRAPH_FILE, TRANSFORM_FILE):
            with open(os.path.join(root, rel), encoding="utf-8") as fh:
                trees[rel] = ast.parse(fh.read(), filename=rel)
    except (OSError, SyntaxError, ValueError) as ex:
        sys.stderr.write("py2gallina_stats: %s\n" % ex)
        return 2
    bindings = {rel: module_bindings(t) for rel, t in trees.items()}

    translated, failed, defs = [], [], {}
    deps = {}
    for name in ORDER:          # ORDER lists the callees (GENERATED_CALLS) first
        rel, cls, ptypes = TARGETS[name]
        fdef, err = find_def(trees[rel], cls, name)
        if err:
            failed.append({"function": name, "error": err[0], "lineno": err[1]})
            continue
        fn = Fn(name, fdef, cls is not None, ptypes, bindings[rel], set(defs))
        try:
            defs[name] = fn.translate()
            deps[name] = list(fn.deps)
            translated.append(name)
        except Unsupported as ex:
            failed.append({"function": name, "error": str(ex),
                           "lineno": ex.lineno if ex.lineno is not None else fdef.lineno})

    # dependency order: stable topological sort of ORDER
    emitted, order = set(), []

    def emit(n):
        if n in emitted:
            return
        for d in deps[n]:
            emit(d)
        emitted.add(n)
        order.append(n)

    for n in translated:
        emit(n)

    text = ["(* GENERATED by tools/py2gallina_stats.py from %s, %s; do not edit *)"
            % (DYNGRAPH_FILE.replace(os.sep, "/"), TRANSFORM_FILE.replace(os.sep, "/")),
            "From DynVerif Require Import Base Graph Derived Stats PySupportStats.", ""]
    for n in order:
        rel, cls, _ = TARGETS[n]
        text.append("(* %s%s, %s *)" % ((cls + ".") if cls else "", n, rel.replace(os.sep, "/")))
        text += defs[n]
        text.append("")
    try:
        with open(out_path, "w", encoding="utf-8", newline="\n") as fh:
            fh.write("\n".join(text))
    except OSError as ex:
        sys.stderr.write("py2gallina_stats: %s\n" % ex)
        return 2
    print(json.dumps({"translated": order, "failed": failed}, indent=1))
    return 0


if __name__ == "__main__":
    sys.exit(main(sys.argv))
