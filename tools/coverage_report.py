#!/usr/bin/env python3
"""Which lines of /repo/dynetx do the correspondence runs execute?  Runs, in one process and under coverage.py, the
implementation side of a sample of every property's quick cases (exhaustive + random), and prints per source file the
statements never executed.  A line listed here is code no check can say anything about.
   usage: /venv/bin/python tools/coverage_report.py [n_cases_per_property]      (from /verif; PYTHONPATH=/repo)"""
import sys, os, random, importlib, json
sys.path.insert(0, '/verif/harness')
os.environ.setdefault('TQDM_DISABLE', '1')
import coverage
N = int(sys.argv[1]) if len(sys.argv) > 1 else 250
repo = os.environ.get('DYNETX_REPO', '/repo')
cov = coverage.Coverage(source=[os.path.join(repo, 'dynetx')], omit=['*/test/*'], data_file=None)
cov.start()
from core import run_impl
for i in range(1, 21):
    P = importlib.import_module('props.c%02d' % i).PROP
    rnd = random.Random(7)
    exh = list(P.exhaustive_cases('quick'))
    random.Random(1).shuffle(exh)
    cases = exh[:N] + list(P.random_cases(rnd, N))
    for c in cases:
        p = P.program(c)
        if len(p) > 3000:
            continue
        ri = run_impl(p, family=c.get('family', 'int'), functional=c.get('functional', False))
        P.oracle(c, p, ri)
cov.stop()
tot = miss = 0
out = {}
for f in sorted(cov.get_data().measured_files()):
    _, stmts, _, missing, _ = cov.analysis2(f)
    tot += len(stmts); miss += len(missing)
    out[os.path.relpath(f, repo)] = dict(statements=len(stmts), missing=missing)
    print('%-55s %4d stmts  %3d never executed  %s' % (os.path.relpath(f, repo), len(stmts), len(missing), missing if missing else ''))
print('total: %d statements, %d never executed (%.1f%% executed)' % (tot, miss, 100.0 * (tot - miss) / max(tot, 1)))
json.dump(out, open('/verif/evidence/coverage.json', 'w'), indent=1)
