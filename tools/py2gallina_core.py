#!/usr/bin/env python3
"""py2gallina_core: FAIL-CLOSED translator of the PRESENCE TEST of both graph classes - the private method
`__presence_test(self, u, v, t)` and the public `has_interaction(self, u, v, t=None)` of dynetx.DynGraph and
dynetx.DynDiGraph - from their CURRENT Python source to Gallina definitions over the model's graph state (Graph.v)
and the primitives of PySupportCore.v.  Every other query of the library goes through these two functions.

usage:  python3 tools/py2gallina_core.py <repo_root> <out.v>

The translated fragment is "boolean functions made of assignments, if / for / return (early returns included) and one
try/except KeyError".  A statement list becomes a term of type [option bool]: [Some r] = the list has returned r,
[None] = control falls through to what follows:
  * `return e`                  -> `Some e`
  * `x = e ; rest`              -> `let x := e in rest`        (top level of a block only, never inside a loop)
  * `S ; rest`                  -> `ret_seq S rest`            (ret_seq a b = match a with Some r => Some r | None => b end)
  * `if c: A` [`else: B`]       -> `if c then A else B`        (B = None when there is no else)
  * `if t is None: A else: B`   -> `match t with None => A | Some t => B end`   (t : option Z; t is an integer inside B and unusable in A)
  * `for s in X: BODY`          -> `fold_left (fun acc_ s => ret_seq acc_ BODY) X None`   (X : list of spans; BODY may not assign)
  * `try: BODY except KeyError: return False` (no else / finally; BODY a single if/else of returns)
                                -> BODY, under the restriction that every return expression of BODY is either
                                   `v in self.<adj>[u]` or `v in self.<adj>[u] and self.__presence_test(u, v, t)`:
                                   the only KeyError such an expression can raise is `self.<adj>[u]` for an unknown u, and
                                   [in_adj g u v] is already false there (and makes the conjunction false).
  * the function's last statement must return on every path; the final term is `ret_val T` (ret_val (Some r) = r).
Expressions (typed Z | bool | span | list span | list Z | option Z):
  * parameters u, v : Z;  t : Z (`__presence_test`) or option Z (`has_interaction`, default None);
  * integer literals, `+`, `-`;  chains of `<= < >= > == !=` on Z;  `and` `or` `not`;
  * `self.edge_removal` -> `g_rem g`;
  * `self.<adj>[u][v]['t']` -> `adj_spans g u v` : list span, the stored list, oldest run first (KeyError when the entry is
    absent: outside the equalities, see PyGenCoreEq.v);  <adj> is `_adj` in DynGraph and `_succ` (or `_adj`) in DynDiGraph;
  * `v in self.<adj>[u]` -> `in_adj g u v`;   `v not in self.<adj>[u]` -> `negb (in_adj g u v)`;
  * `X[0]`, `X[-1]` (X : list span) -> `hd (0, 0) X`, `last X (0, 0)`;  `s[0]`, `s[1]` (s : span) -> `fst s`, `snd s`;
  * `x in range(a, b)` (all Z) -> `(a <=? x) && (x <? b)`;
  * `self.temporal_snapshots_ids()` -> `snapshot_ids g` : list Z;  `max(l)` (l : list Z) -> `max_of l`;
  * `self.__presence_test(u, v, t)` (exactly the parameters, t : Z) -> the GENERATED `py_presence_test_<class> g u v t`.
Anything else makes THAT function untranslatable: it is reported in "failed" and absent from the output (and so is a
function that calls it).  Nothing is skipped silently, except a leading docstring.

stdout: {"translated": [...], "failed": [{"function", "error", "lineno"}]};  exit 0 when the output was written, 2 on
I/O or syntax errors.  Only the stdlib `ast` module is used; the output is a deterministic function of the two source files.
"""
import ast
import json
import os
import sys

FILES = {"graph": ("dynetx/classes/dyngraph.py", "DynGraph", ("_adj",)),
         "digraph": ("dynetx/classes/dyndigraph.py", "DynDiGraph", ("_succ", "_adj"))}
Z, B, P, LP, LZ, OZ = "Z", "bool", "span", "list span", "list Z", "option Z"
CMP = {ast.LtE: "<=?", ast.Lt: "<?", ast.GtE: ">=?", ast.Gt: ">?", ast.Eq: "=?"}


class Unsupported(Exception):
    def __init__(self, msg, node=None):
        Exception.__init__(self, msg)
        self.lineno = getattr(node, "lineno", None)


def is_self_attr(n, names):
    return isinstance(n, ast.Attribute) and isinstance(n.value, ast.Name) and n.value.id == "self" and n.attr in names


class Fn:
    def __init__(self, cls_key, fdef, kind, have_presence):
        self.key, self.fdef, self.kind, self.have_presence = cls_key, fdef, kind, have_presence
        self.adj = FILES[cls_key][2]

    # ---- expressions -------------------------------------------------------------------------------------
    def param(self, n, env, want=None):
        if not isinstance(n, ast.Name) or n.id not in env:
            raise Unsupported("expected a variable", n)
        if want is not None and env[n.id] != want:
            raise Unsupported("variable %s has type %s, expected %s" % (n.id, env[n.id], want), n)
        return n.id

    def adj_of(self, n, env):
        """self.<adj>[u] -> u"""
        if isinstance(n, ast.Subscript) and is_self_attr(n.value, self.adj):
            return self.param(n.slice, env, Z)
        raise Unsupported("expected self.%s[<node>]" % self.adj[0], n)

    def expr(self, n, env):
        """-> (text, type)"""
        if isinstance(n, ast.Constant):
            if isinstance(n.value, bool):
                return ("true" if n.value else "false"), B
            if isinstance(n.value, int):
                return ("%d" % n.value if n.value >= 0 else "(%d)" % n.value), Z
            raise Unsupported("constant %r" % (n.value,), n)
        if isinstance(n, ast.Name):
            if n.id not in env:
                raise Unsupported("unknown variable %s" % n.id, n)
            if env[n.id] == "dead":
                raise Unsupported("%s is None here" % n.id, n)
            return n.id, env[n.id]
        if isinstance(n, ast.UnaryOp) and isinstance(n.op, ast.Not):
            a, ta = self.expr(n.operand, env)
            if ta != B:
                raise Unsupported("not on %s" % ta, n)
            return "(negb %s)" % a, B
        if isinstance(n, ast.UnaryOp) and isinstance(n.op, ast.USub) and isinstance(n.operand, ast.Constant) \
                and isinstance(n.operand.value, int) and not isinstance(n.operand.value, bool):
            return "(-%d)" % n.operand.value, Z
        if isinstance(n, ast.BinOp) and isinstance(n.op, (ast.Add, ast.Sub)):
            a, ta = self.expr(n.left, env)
            b, tb = self.expr(n.right, env)
            if ta != Z or tb != Z:
                raise Unsupported("arithmetic on %s, %s" % (ta, tb), n)
            return "(%s %s %s)" % (a, "+" if isinstance(n.op, ast.Add) else "-", b), Z
        if isinstance(n, ast.BoolOp):
            parts = []
            for v in n.values:
                a, ta = self.expr(v, env)
                if ta != B:
                    raise Unsupported("and/or on %s" % ta, n)
                parts.append(a)
            op = " && " if isinstance(n.op, ast.And) else " || "
            return "(" + op.join(parts) + ")", B
        if isinstance(n, ast.Compare):
            return self.compare(n, env)
        if isinstance(n, ast.Attribute):
            if is_self_attr(n, ("edge_removal",)):
                return "(g_rem g)", B
            raise Unsupported("attribute %s" % ast.dump(n)[:60], n)
        if isinstance(n, ast.Subscript):
            return self.subscript(n, env)
        if isinstance(n, ast.Call):
            return self.call(n, env)
        raise Unsupported("expression %s" % type(n).__name__, n)

    def compare(self, n, env):
        # membership tests
        if len(n.ops) == 1 and isinstance(n.ops[0], (ast.In, ast.NotIn)):
            neg = isinstance(n.ops[0], ast.NotIn)
            right = n.comparators[0]
            if isinstance(right, ast.Call) and isinstance(right.func, ast.Name) and right.func.id == "range" \
                    and len(right.args) == 2 and not right.keywords:
                x, tx = self.expr(n.left, env)
                a, ta = self.expr(right.args[0], env)
                b, tb = self.expr(right.args[1], env)
                if (tx, ta, tb) != (Z, Z, Z):
                    raise Unsupported("range membership on %s, %s, %s" % (tx, ta, tb), n)
                s = "((%s <=? %s) && (%s <? %s))" % (a, x, x, b)
                return ("(negb %s)" % s if neg else s), B
            u = self.adj_of(right, env)
            v = self.param(n.left, env, Z)
            s = "(in_adj g %s %s)" % (u, v)
            return ("(negb %s)" % s if neg else s), B
        terms = [n.left] + list(n.comparators)
        vals = []
        for t in terms:
            a, ta = self.expr(t, env)
            if ta != Z:
                raise Unsupported("comparison on %s" % ta, n)
            vals.append(a)
        parts = []
        for i, op in enumerate(n.ops):
            if type(op) is ast.NotEq:
                parts.append("(negb (%s =? %s))" % (vals[i], vals[i + 1]))
            elif type(op) in CMP:
                parts.append("(%s %s %s)" % (vals[i], CMP[type(op)], vals[i + 1]))
            else:
                raise Unsupported("comparison operator %s" % type(op).__name__, n)
        return ("(" + " && ".join(parts) + ")" if len(parts) > 1 else parts[0]), B

    def subscript(self, n, env):
        # self.<adj>[u][v]['t']
        if isinstance(n.slice, ast.Constant) and n.slice.value == "t":
            inner = n.value
            if isinstance(inner, ast.Subscript):
                u = self.adj_of(inner.value, env)
                v = self.param(inner.slice, env, Z)
                return "(adj_spans g %s %s)" % (u, v), LP
            raise Unsupported("['t'] on something else than self.%s[u][v]" % self.adj[0], n)
        idx = None
        if isinstance(n.slice, ast.Constant) and isinstance(n.slice.value, int) and not isinstance(n.slice.value, bool):
            idx = n.slice.value
        elif isinstance(n.slice, ast.UnaryOp) and isinstance(n.slice.op, ast.USub) and isinstance(n.slice.operand, ast.Constant) \
                and n.slice.operand.value == 1:
            idx = -1
        if idx is None:
            raise Unsupported("subscript", n)
        a, ta = self.expr(n.value, env)
        if ta == LP and idx == 0:
            return "(hd (0, 0) %s)" % a, P
        if ta == LP and idx == -1:
            return "(last %s (0, 0))" % a, P
        if ta == P and idx == 0:
            return "(fst %s)" % a, Z
        if ta == P and idx == 1:
            return "(snd %s)" % a, Z
        raise Unsupported("index %d on %s" % (idx, ta), n)

    def call(self, n, env):
        if n.keywords:
            raise Unsupported("keyword arguments", n)
        f = n.func
        if isinstance(f, ast.Name) and f.id == "max" and len(n.args) == 1:
            a, ta = self.expr(n.args[0], env)
            if ta != LZ:
                raise Unsupported("max on %s" % ta, n)
            return "(max_of %s)" % a, Z
        if is_self_attr(f, ("temporal_snapshots_ids",)) and not n.args:
            return "(snapshot_ids g)", LZ
        if is_self_attr(f, ("__presence_test",)) and len(n.args) == 3:
            if not self.have_presence:
                raise Unsupported("calls __presence_test, which is not translatable", n)
            u = self.param(n.args[0], env, Z)
            v = self.param(n.args[1], env, Z)
            t = self.param(n.args[2], env, Z)
            if (u, v, t) != ("u", "v", "t"):
                raise Unsupported("__presence_test called on other arguments than (u, v, t)", n)
            return "(py_presence_test_%s g u v t)" % self.key, B
        raise Unsupported("call %s" % ast.dump(f)[:60], n)

    # ---- statements ----------------------------------------------------------------------------------------
    def returns(self, stmts):
        """does every path through the list end in a return?"""
        if not stmts:
            return False
        s = stmts[-1]
        if isinstance(s, ast.Return):
            return True
        if isinstance(s, ast.If):
            return bool(s.orelse) and self.returns(s.body) and self.returns(s.orelse)
        if isinstance(s, ast.Try):
            return self.returns(s.body)
        return False

    def block(self, stmts, env, in_loop, ind):
        """-> lines of a term of type option bool"""
        pad = " " * ind
        if not stmts:
            return [pad + "None"]
        s, rest = stmts[0], stmts[1:]
        if isinstance(s, ast.Assign):
            if in_loop:
                raise Unsupported("assignment inside a loop", s)
            if len(s.targets) != 1 or not isinstance(s.targets[0], ast.Name):
                raise Unsupported("assignment target", s)
            x = s.targets[0].id
            if x in ("g", "self", "acc_") or x in env:
                raise Unsupported("re-assignment of %s" % x, s)
            a, ta = self.expr(s.value, env)
            env2 = dict(env)
            env2[x] = ta
            return [pad + "let %s := %s in" % (x, a)] + self.block(rest, env2, in_loop, ind)
        cur = self.stmt(s, env, in_loop, ind + (2 if rest else 0))
        if not rest:
            return cur
        return [pad + "ret_seq ("] + cur + [pad + ") ("] + self.block(rest, env, in_loop, ind + 2) + [pad + ")"]

    def stmt(self, s, env, in_loop, ind):
        pad = " " * ind
        if isinstance(s, ast.Return):
            if s.value is None:
                raise Unsupported("bare return", s)
            a, ta = self.expr(s.value, env)
            if ta != B:
                raise Unsupported("returns a %s" % ta, s)
            return [pad + "Some %s" % a]
        if isinstance(s, ast.If):
            t = s.test
            if isinstance(t, ast.Compare) and len(t.ops) == 1 and isinstance(t.ops[0], (ast.Is, ast.IsNot)) \
                    and isinstance(t.comparators[0], ast.Constant) and t.comparators[0].value is None:
                x = self.param(t.left, env, OZ)
                none_b, some_b = (s.body, s.orelse) if isinstance(t.ops[0], ast.Is) else (s.orelse, s.body)
                envN = dict(env); envN[x] = "dead"
                envS = dict(env); envS[x] = Z
                return ([pad + "match %s with" % x, pad + "| None =>"] + self.block(none_b, envN, in_loop, ind + 4) +
                        [pad + "| Some %s =>" % x] + self.block(some_b, envS, in_loop, ind + 4) + [pad + "end"])
            c, tc = self.expr(t, env)
            if tc != B:
                raise Unsupported("condition of type %s" % tc, s)
            return ([pad + "if %s then" % c] + self.block(s.body, env, in_loop, ind + 2) +
                    [pad + "else"] + self.block(s.orelse, env, in_loop, ind + 2))
        if isinstance(s, ast.For):
            if s.orelse or not isinstance(s.target, ast.Name):
                raise Unsupported("for/else or tuple target", s)
            it, ti = self.expr(s.iter, env)
            if ti != LP:
                raise Unsupported("iteration over %s" % ti, s)
            x = s.target.id
            if x in env or x in ("g", "acc_"):
                raise Unsupported("loop variable %s shadows" % x, s)
            env2 = dict(env); env2[x] = P
            return ([pad + "fold_left (fun acc_ %s => ret_seq acc_ (" % x] + self.block(s.body, env2, True, ind + 4) +
                    [pad + "  )) %s None" % it])
        if isinstance(s, ast.Try):
            return self.try_(s, env, in_loop, ind)
        raise Unsupported("statement %s" % type(s).__name__, s)

    def try_(self, s, env, in_loop, ind):
        if s.orelse or s.finalbody or len(s.handlers) != 1:
            raise Unsupported("try with else/finally/several handlers", s)
        h = s.handlers[0]
        if not (isinstance(h.type, ast.Name) and h.type.id == "KeyError" and h.name is None and len(h.body) == 1
                and isinstance(h.body[0], ast.Return) and isinstance(h.body[0].value, ast.Constant) and h.body[0].value.value is False):
            raise Unsupported("handler is not `except KeyError: return False`", h)
        # every return expression of the body: `v in self.<adj>[u]`  or  `v in self.<adj>[u] and self.__presence_test(u, v, t)`
        def ok_ret(e):
            def is_in(x):
                return isinstance(x, ast.Compare) and len(x.ops) == 1 and isinstance(x.ops[0], ast.In) \
                    and isinstance(x.left, ast.Name) and x.left.id == "v" and isinstance(x.comparators[0], ast.Subscript) \
                    and is_self_attr(x.comparators[0].value, self.adj) and isinstance(x.comparators[0].slice, ast.Name) \
                    and x.comparators[0].slice.id == "u"
            if is_in(e):
                return True
            return isinstance(e, ast.BoolOp) and isinstance(e.op, ast.And) and len(e.values) == 2 and is_in(e.values[0]) \
                and isinstance(e.values[1], ast.Call) and is_self_attr(e.values[1].func, ("__presence_test",))
        def walk(stmts):
            for st in stmts:
                if isinstance(st, ast.Return):
                    if st.value is None or not ok_ret(st.value):
                        raise Unsupported("return expression inside try is not of the two accepted shapes", st)
                elif isinstance(st, ast.If):
                    tt = st.test
                    if not (isinstance(tt, ast.Compare) and len(tt.ops) == 1 and isinstance(tt.ops[0], (ast.Is, ast.IsNot))
                            and isinstance(tt.left, ast.Name)):
                        raise Unsupported("condition inside try is not `<var> is None`", st)
                    walk(st.body); walk(st.orelse)
                else:
                    raise Unsupported("statement %s inside try" % type(st).__name__, st)
        walk(s.body)
        return self.block(s.body, env, in_loop, ind)

    def translate(self):
        f = self.fdef
        a = f.args
        if a.vararg or a.kwarg or a.kwonlyargs or a.posonlyargs or f.decorator_list:
            raise Unsupported("signature / decorators", f)
        names = [x.arg for x in a.args]
        if names != ["self", "u", "v", "t"]:
            raise Unsupported("parameters %s" % names, f)
        if self.kind == "presence":
            if a.defaults:
                raise Unsupported("defaults", f)
            tty, name = Z, "py_presence_test_%s" % self.key
        else:
            if len(a.defaults) != 1 or not (isinstance(a.defaults[0], ast.Constant) and a.defaults[0].value is None):
                raise Unsupported("default of t is not None", f)
            tty, name = OZ, "py_has_interaction_%s" % self.key
        body = list(f.body)
        if body and isinstance(body[0], ast.Expr) and isinstance(body[0].value, ast.Constant) and isinstance(body[0].value.value, str):
            body = body[1:]
        if not self.returns(body):
            raise Unsupported("some path does not end in a return", f)
        env = {"u": Z, "v": Z, "t": tty}
        lines = self.block(body, env, False, 4)
        return (["Definition %s (g : graph) (u v : Z) (t : %s) : bool :=" % (name, tty), "  ret_val ("] + lines + ["  )."])


def find_method(tree, cls, name):
    cs = [n for n in tree.body if isinstance(n, ast.ClassDef) and n.name == cls]
    if len(cs) != 1:
        return None, ("class %s defined %d times" % (cls, len(cs)), 0)
    ds = [n for n in cs[0].body if isinstance(n, (ast.FunctionDef, ast.AsyncFunctionDef)) and n.name == name]
    if len(ds) != 1 or not isinstance(ds[0], ast.FunctionDef):
        return None, ("%s.%s defined %d times" % (cls, name, len(ds)), cs[0].lineno)
    # the method must not be re-bound elsewhere in the class or module (setattr / assignment)
    for n in ast.walk(tree):
        if isinstance(n, ast.Assign):
            for t in n.targets:
                if (isinstance(t, ast.Name) and t.id == name) or (isinstance(t, ast.Attribute) and t.attr in (name, "_%s%s" % (cls, name))):
                    return None, ("%s is re-bound by an assignment" % name, n.lineno)
        if isinstance(n, ast.Call) and isinstance(n.func, ast.Name) and n.func.id == "setattr":
            return None, ("setattr in the module", n.lineno)
    return ds[0], None


def main(argv):
    if len(argv) != 3:
        sys.stderr.write(__doc__)
        return 2
    root, out_path = argv[1], argv[2]
    translated, failed, text = [], [], []
    text += ["(* GENERATED by tools/py2gallina_core.py from dynetx/classes/dyngraph.py and dyndigraph.py; do not edit *)",
             "From DynVerif Require Import Base Graph PySupportCore.", ""]
    for key in ("graph", "digraph"):
        rel, cls, _ = FILES[key]
        try:
            with open(os.path.join(root, rel), encoding="utf-8") as fh:
                tree = ast.parse(fh.read(), filename=rel)
        except (OSError, SyntaxError, ValueError) as ex:
            sys.stderr.write("py2gallina_core: %s\n" % ex)
            return 2
        have = False
        for kind, pyname in (("presence", "__presence_test"), ("has", "has_interaction")):
            fname = "%s_%s" % ("presence_test" if kind == "presence" else "has_interaction", key)
            fdef, err = find_method(tree, cls, pyname)
            if err:
                failed.append({"function": fname, "error": err[0], "lineno": err[1]})
                continue
            try:
                lines = Fn(key, fdef, kind, have).translate()
            except Unsupported as ex:
                failed.append({"function": fname, "error": str(ex), "lineno": ex.lineno if ex.lineno is not None else fdef.lineno})
                continue
            if kind == "presence":
                have = True
            translated.append(fname)
            text.append("(* %s.%s, %s *)" % (cls, pyname, rel))
            text += lines
            text.append("")
    try:
        with open(out_path, "w", encoding="utf-8", newline="\n") as fh:
            fh.write("\n".join(text))
    except OSError as ex:
        sys.stderr.write("py2gallina_core: %s\n" % ex)
        return 2
    print(json.dumps({"translated": translated, "failed": failed}, indent=1))
    return 0


if __name__ == "__main__":
    sys.exit(main(sys.argv))
