#!/usr/bin/env python3
"""Regenerates /verif/MANIFEST.json from the table below (kept valid at every commit)."""
import json, os
V = os.path.dirname(os.path.dirname(os.path.abspath(__file__)))
props = [json.loads(l) for l in open(os.path.join(V, 'properties.jsonl'))]

COMMON_NOTE = ("Trusted: Coq 8.16.1 kernel (vm_compute for witnesses; no native_compute); the hand-written Gallina model is tied to "
               "/repo by the correspondence run in this same check (extraction with ExtrOcamlBasic only + ocaml/driver.ml, which moves decimal text through zarith; exhaustive "
               "inside the stated scopes, random beyond) and, for the presence test / has_interaction of both classes, the statistics / snapshot ids / compact_timeslot and annotate_paths, by a source-to-Gallina translation re-proved equal to the model on every run (harness/sourcetie.py); the Python oracle is the executable reading of the property text. ")

def T(proved, partial=None, validated=None):
    t = "Machine-checked Coq theorems about the executable model (coq/theories/properties/%s.v): " + proved
    if partial:
        t += " PARTIAL / refuted facets (pinned defects recorded in known_findings.json): " + partial
    t += (" The model is tied to /repo on every run by differential execution (extracted OCaml model vs the working tree, exhaustive small "
          "scopes + seeded random) and an independent oracle written from the property text evaluates the implementation's answers.")
    if validated:
        t += " Validated only (no theorem): " + validated
    return t

TECH = "Coq proof (invariants over histories / refinement to a spec) + model-implementation correspondence (extraction, differential) + independent oracle"
CLAIMED = {
 'C01': dict(text=T("[source-level tie: has_interaction and __presence_test of BOTH classes are translated from the Python text on every run (tools/py2gallina_core.py) and proved equal to the model's has_interaction for every state, C01_source_text / C01_source_to_spec] presence = union of accepted spans for every call sequence and both classes (C01_presence, C01_flat), outcome rule Done/ValueError/NetworkXError (C01_outcome_*), monotonicity and frame (C01_monotone_frame)."), design="DESIGN.md 5 C01"),
 'C02': dict(text=T("[source-level tie: the private presence test every query filters with is translated from the Python text of both classes on every run and proved equal to the model's presence_test, C02_source_text] [over the HISTORY, both classes, every call sequence: has_interaction / has_node(t) / nodes(t) / number_of_nodes / neighbours / predecessors / degree / digraph size(t) equal definitions written with the accepted calls' spans only (C02_history, C02_history_size)] in every state reachable by add_interaction/add_node (C02_reach): neighbors/successors/predecessors, nodes(t)/has_node/number_of_nodes, in_/out_interactions (with nbunch), undirected interactions(), degree and degree dicts (nbunch), size/number_of_interactions(t) with the handshake lemma (C02_size), density on the flattened graph, degree_histogram, non_neighbors, non_interactions, get_node_snapshots, is_empty are exactly the projections of has_interaction, each interaction once (C02_neighbors, C02_nodes, C02_in_out_interactions, C02_interactions_undirected, C02_degree, C02_degree_dict, C02_size, C02_density_flat, C02_degree_histogram, C02_non_neighbors, C02_non_interactions, C02_node_snapshots, C02_is_empty, C02_number_of_interactions_pair).",
                     "digraph interactions() is only sound (C02_interactions_partial / C02_digraph_interactions_refuted); undirected self-loop arithmetic: C02_size needs no_selfloop on DynGraph (C02_selfloop_refuted); density(G,t)=0 (C02_density_t_refuted).",
                     "the _iter / dn.* forms (one-line delegations) and non_interactions on DynDiGraph (set-order dependent) are compared by the correspondence / soundness oracle only."), design="DESIGN.md 5 C02"),
 'C03': dict(text=T("timelines are canonical, their union is the presence, both directions of an undirected pair expose one timeline (C03_canon, C03_union, C03_symmetric); time_slice/to_directed/to_undirected results and every graph the readers return (read_snapshots, read_interactions, node_link_graph; row and text level) satisfy all invariants, hence are canonical (C03_derived_wf, C03_wf_canon, C03_readers_wf, C03_wfg_canon)."), design="DESIGN.md 5 C03"),
 'C04': dict(text=T("[over the HISTORY: ids enumerate exactly the instants covered by an accepted span, count(t) = number of distinct pairs of the history present at t (C04_history)] [source-level tie: temporal_snapshots_ids and avg_number_of_nodes are translated from the Python text on every run and proved equal to the model, C04_source_text] snapshot ids are strictly increasing and exactly the inhabited instants, per-snapshot counts equal the number of present pairs, dict form, avg_number_of_nodes (C04_ids, C04_count, C04_count_is_presence, C04_all, C04_avg).") , design="DESIGN.md 5 C04"),
 'C05': dict(text=T("stream sorted and duplicate-free, '+' iff appearance, '-' sound, runs of >= 3 instants closed (C05_sorted_nodup, C05_plus, C05_minus_sound, C05_closed_partial); replaying the stream reconstructs presence whenever all runs of >= 2 instants are closed (C05_replay_partial).",
                     "closure of 2-instant runs and replay in their presence: C05_closed_refuted, C05_replay_refuted (witness 18,19; K-C05-1)."), design="DESIGN.md 5 C05"),
 'C06': dict(text=T("window errors/default, class, presence = window AND source presence, nodes+attributes, the slice is Good, WF and WFG (all invariants behind C02-C05), slicing a slice = slicing by the intersection of the windows for presence, snapshot ids, per-snapshot counts, node set and node attributes, empty when the windows do not meet (C06_window, C06_presence, C06_nodes, C06_slice_good, C06_slice_wellformed, C06_compose, C06_compose_ids, C06_compose_counts, C06_compose_nodes, C06_compose_disjoint).",
                     None, "source unchanged (aliasing: purity stamp + re-observation) and the order of events inside one instant of a composed slice are checked by the oracle."), design="DESIGN.md 5 C06"),
 'C07': dict(text=T("a rejected add_interaction leaves the whole state record unchanged in both modes, continuation, bulk helpers stop exactly before the failing element (C07_atomic, C07_continuation, C07_bulk, C07_bulk_missing_t)."), design="DESIGN.md 5 C07"),
 'C08': dict(text=T("[source-level tie: the accumulative branch of the translated presence test = the model, C08_source_text] accumulative presence = first accepted add .. largest accepted instant, flattened, ids = accepted instants, stream = one '+' per pair and no '-' (C08_presence, C08_flat, C08_ids, C08_stream), query layer via C02's theorems (C08_queries).",
                     "query-layer findings shared with C02 (self-loop arithmetic, digraph interactions())."), design="DESIGN.md 5 C08"),
 'C09': dict(text=T("rows = one per interaction and present instant, no duplicates (C09_rows); reading the written rows back gives the same class and presence (C09_roundtrip); four-column rows (C09_four_columns); text level: render/parse of a row and of decimals are inverse (C09_text, C09_decimal).",
                     None, "open_file dispatch, gzip/bz2, file objects, byte encodings, string node ids; multi-megabyte files (450 000 rows and more) are checked on the implementation side only (row counts / read-back timelines), the list-based model cannot run them."), design="DESIGN.md 5 C09"),
 'C10': dict(text=T("rows = the stream in chronological order (C10_write), reader semantics of '+' and '-' (C10_read_plus, C10_read_minus, C10_minus_presence); reading back what was written never fails and yields THE SAME STREAM, event for event, for every reachable graph (C10_stream_roundtrip_all, C10_roundtrip_log, C10_reachable); it preserves class and presence for every reachable graph whose runs of >= 2 instants are closed (C10_roundtrip_partial, C10_stream_roundtrip).",
                     "round trip refuted for the unclosed two-instant run (C10_roundtrip_refuted, K-C10-1).",
                     "gzip/bz2/encodings/file objects; multi-megabyte interaction lists (320 000 events and more: implementation side only); reader = replay for arbitrary well-formed logs that no graph produced is proved per pair (C10_reader_per_pair) and checked globally by the oracle."), design="DESIGN.md 5 C10"),
 'C11': dict(text=T("content of node_link_data (C11_data, C11_links), node_link_graph(node_link_data g) has the same class, nodes, attributes and presence (C11_roundtrip), the directed argument is used only when the data does not say (C11_class).",
                     None, "json.dumps/loads, custom attrs['id']."), design="DESIGN.md 5 C11"),
 'C12': dict(text=T("every returned path is non-empty, leaves u, chains, has strictly increasing times inside the window, every hop present, ends in v (C12_sound), no immediate reversal (C12_no_pingpong), every intermediate node has an interaction at each window id between arrival and departure (C12_valid, C12_edges_alive), no duplicates (C12_nodup), improper window (C12_window_error).",
                     None, "tuple type and grouping under (first,last) keys; the '_' string encoding of occurrences."), design="DESIGN.md 5 C12"),
 'C13': dict(text=T("EXACT characterisation: a hop sequence whose first hop is not a root self-loop is returned iff it satisfies C12's conditions (C13_exact = soundness + C13_complete_partial; C13_dag_complete, C13_search_complete), absent root (C13_absent_root), all_time_respecting_paths = per-node queries (C13_all); sample<1: for ANY selection of source/target pairs the result is a duplicate-free sub-collection of the full result, errors unchanged, selecting all pairs = the unsampled function (C13_sample_subset, C13_sample_error, C13_sample_all).",
                     "first hop = self-loop of the root is missed (C13_complete_refuted, K-C13-1).", "which pairs numpy draws (the selection is a parameter of the model)."), design="DESIGN.md 5 C13"),
 'C14': dict(text=T("[source-level tie: path_length, path_duration and annotate_paths are translated from the Python text on every run (tools/py2gallina_paths.py) and proved equal to the model on every non-empty list, order and multiplicity included, C14_source_text / C14_source_to_spec] each class is exactly the set of minimisers (C14_primary, C14_secondary), subset of the input, non-empty, metrics (C14_subset, C14_nonempty, C14_metrics); in the model the primary classes keep the multiplicity of repeated input paths (C14_primary_filter) -- the property does not fix it, so the implementation is compared at the level of sets."), design="DESIGN.md 5 C14"),
 'C15': dict(text=T("edge soundness, exact sources, targets, window errors / empty DAG (C15_edge_sound, C15_sources, C15_targets, C15_window); the textual occurrence names \"<node>_<tid>\" are injective and both decoders invert them for arbitrary text ids, underscores included (C15_names_injective, C15_names_decode, C15_names_root, C15_names_first_underscore).",
                     "acyclicity holds without a root self-loop in the window (C15_acyclic_partial), refuted with one (C15_acyclic_refuted, K-C15-1)."), design="DESIGN.md 5 C15"),
 'C16': dict(text=T("to_undirected(): presence = OR of the two directions; reciprocal=True: AND (C16_undirected, C16_reciprocal); nodes/attributes kept; both conversions return graphs satisfying every invariant behind C02-C05 (C16_wellformed).",
                     "to_directed(): sound and complete up to orientation (C16_directed_partial), both orientations refuted (C16_directed_refuted, K-C16-1).",
                     "deepcopy isolation (attributes poked, runs of the result extended, source re-observed), source unchanged."), design="DESIGN.md 5 C16"),
 'C17': dict(text=T("AT THE LEVEL OF THE HISTORY: for every call sequence on a DynGraph, coverage, node_contribution, edge_contribution, node_pair_uniformity, uniformity, density, pair_density, node_presence, avg_number_of_nodes, node_density and (without self-loops) snapshot_density equal their stream-graph definitions written over the presence relation of the accepted calls only (StatsSpec.v sp_*: T_uv, T_u, T, V; C17_spec_sets, C17_spec_ratios, C17_spec_avg, C17_spec_node_density, C17_spec_snapshot_density); every ratio has 0 <= num <= den (C17_unit_interval), T_uv within T_u & T_v (C17_interaction_both), node_presence, edge_contribution = |T_uv|/|T| (C17_edge_contribution), inter-event histogram laws: mass = #events-1, weighted sum = last-first, counts (C17_iet). SOURCE-LEVEL TIE: the Python text of these methods is translated to Gallina on every run (tools/py2gallina_stats.py, fail-closed) and proved equal to the model functions (C17_source_text, C17_source_to_spec).",
                     None, "float rounding of the final division; the per-pair inter_event_time_distribution(u, v) (outside the property's text); the inter-event variants are tied by the correspondence only."), design="DESIGN.md 5 C17",
             technique="Coq proof (statistics = stream-graph definitions over the history's presence relation, for every call sequence) + source-to-Gallina translation of the statistics re-proved equal to the model on every run + model-implementation correspondence (extraction, differential) + independent oracle"),
 'C18': dict(text=T("[source-level tie: compact_timeslot is translated from the Python text on every run and proved equal to the model on duplicate-free lists, C18_source_text] comment/empty lines skipped and trailing comments ignored (C18_comments), short rows (C18_short_rows), readers = readers on the non-skipped rows (C18_noise), TypeError (C18_type_error), compact_timeslot is a strictly increasing bijection onto 0..k-1 (C18_compact), keys (C18_keys).",
                     None, "multi-character comment markers/delimiters, non-integer fields, Python's int() extras ('_' separators, non-ASCII digits)."), design="DESIGN.md 5 C18"),
 'C19': dict(text=T("blocked calls are no-ops raising NetworkXNotImplemented (C19_blocked_noop); no sequence over the API alphabet can break timelines/adjacency/stream/snapshot invariants (C19_wf_closed); frozen graphs (C19_frozen_partial, C19_is_frozen); a cleared graph is a fresh graph (C19_clear_fresh, C19_clear_then_calls, C19_clear_edges_fresh).",
                     "add_interaction succeeds on a frozen graph (C19_frozen_refuted, K-C19-1).",
                     "the classification of every inherited networkx callable into that alphabet is enumerated by reflection per run (exhaustive over the installed API), not proved."), design="DESIGN.md 5 C19"),
 'C20': dict(text=T("scores in [-1,1] (C20_bounded; for every score of the RESULT: C20_result_bounded, C20_result_sliding_bounded), result-level label renaming and single-label statements (C20_result_label_renaming, C20_result_label_renaming_total, C20_result_same_label: 1 exactly for the nodes one of whose time-respecting paths in the window ends elsewhere), domain = nodes present at start in the window and None for an empty window (C20_domain, C20_none), single shared label gives 1/0 (C20_same_label), invariance under injective renaming of label values (C20_label_renaming) and under EVERY injective renaming of node ids (C20_node_renaming for graphs built by the renamed calls, C20_node_renaming_state, C20_node_renaming_sliding, C20_renaming_builds: the whole pipeline is equivariant), sliding = pointwise (C20_sliding).",
                     None,
                     "float rounding (1e-9), non-integer alphas, hierarchies and dynamic attributes (out of the property's scope)."), design="DESIGN.md 5 C20"),
}
for k, v in CLAIMED.items():
    v['text'] = v['text'] % k
    v.setdefault('technique', TECH)
    v.setdefault('note', COMMON_NOTE + "Theorems quantify over integer node ids and unbounded integer instants; str/tuple ids are exercised by the correspondence only. Axioms: none (Print Assumptions: closed under the global context for every theorem).")

def main():
    checks = []
    for p in props:
        pid = p['id']
        if pid in CLAIMED:
            c = CLAIMED[pid]
            checks.append({
                "property_id": pid,
                "quick_cmd": "./check %s --tier quick" % pid,
                "thorough_cmd": "./check %s --tier thorough" % pid,
                "evidence_file": "/verif/evidence/%s.json" % pid,
                "replay_cmd_template": "./check %s --replay {path}" % pid,
                "engine": "coq-model+correspondence",
                "level_claimed": {"category": c.get('category', 'proof'), "text": c['text'], "design_ref": c['design']},
                "level_note": c['note'],
                "technique": c['technique'],
            })
    na = [{"property_id": p['id'], "reason": NA.get(p['id'], "check under construction in this round; will be claimed once its check runs")}
          for p in props if p['id'] not in CLAIMED]
    m = {"version": 1, "setup_cmd": "./setup.sh",
         "hooks": {"guard": "DYNETX_VERIF",
                   "enable": "no hook is needed: every check drives /repo's working tree through its public API (PYTHONPATH=/repo); the guard name is reserved and unused",
                   "baseline_off_cmd": "cd /repo && /venv/bin/python -m pytest -q -p no:cacheprovider --timeout=900",
                   "source_commits": [], "add_only": True},
         "engines": [{"name": "coq-model+correspondence", "path": "/verif/check",
                      "serves_properties": sorted(CLAIMED), "kind_free_text":
                      "Coq 8.16 development (coq/theories: executable model, spec, proofs, properties/Cxx.v) + extracted OCaml model + Python differential harness and oracles"}],
         "checks": checks, "not_applicable": na,
         "notes": "See DESIGN.md. fix: commits in /repo are listed in known_findings.json (status fixed); pinned defects are status finding."}
    json.dump(m, open(os.path.join(V, 'MANIFEST.json'), 'w'), indent=1)

NA = {}
if __name__ == '__main__':
    main()
