#!/usr/bin/env python3
"""Regenerates /verif/MANIFEST.json from the table below (kept valid at every commit)."""
import json, os
V = os.path.dirname(os.path.dirname(os.path.abspath(__file__)))
props = [json.loads(l) for l in open(os.path.join(V, 'properties.jsonl'))]

COMMON_NOTE = ("Trusted: Coq 8.16.1 kernel (vm_compute for witnesses; no native_compute); the hand-written Gallina model is tied to "
               "/repo by the correspondence run in this same check (extraction with ExtrOcamlBasic only + ocaml/driver.ml; exhaustive "
               "inside the stated scopes, random beyond); the Python oracle is the executable reading of the property text. ")

CLAIMED = {
 'C01': dict(
   text="Machine-checked proof (Coq) that in the model, for every finite call sequence on both classes, has_interaction equals the union "
        "of the accepted spans (C01_presence, C01_flat), that a call ends in Done/ValueError/NetworkXError exactly by the documented rule "
        "(C01_outcome_*), and monotonicity/frame (C01_monotone_frame); the model is checked against /repo on every run by differential "
        "execution of the same histories (exhaustive small scopes + seeded random) and an independent span-union oracle on the implementation.",
   design="DESIGN.md 5 C01", technique="Coq proof by invariant over histories + model/implementation correspondence (extracted OCaml, differential)",
   note=COMMON_NOTE + "Theorems quantify over integer node ids; str/tuple/mixed ids are exercised by the correspondence only."),
}

def main():
    checks = []
    for p in props:
        pid = p['id']
        if pid in CLAIMED:
            c = CLAIMED[pid]
            checks.append({
                "property_id": pid,
                "quick_cmd": "./check %s --tier quick" % pid,
                "thorough_cmd": "./check %s --tier thorough" % pid,
                "evidence_file": "/verif/evidence/%s.json" % pid,
                "replay_cmd_template": "./check %s --replay {path}" % pid,
                "engine": "coq-model+correspondence",
                "level_claimed": {"category": c.get('category', 'proof'), "text": c['text'], "design_ref": c['design']},
                "level_note": c['note'],
                "technique": c['technique'],
            })
    na = [{"property_id": p['id'], "reason": NA.get(p['id'], "check under construction in this round; will be claimed once its check runs")}
          for p in props if p['id'] not in CLAIMED]
    m = {"version": 1, "setup_cmd": "./setup.sh",
         "hooks": {"guard": "DYNETX_VERIF",
                   "enable": "no hook is needed: every check drives /repo's working tree through its public API (PYTHONPATH=/repo); the guard name is reserved and unused",
                   "baseline_off_cmd": "cd /repo && /venv/bin/python -m pytest -q -p no:cacheprovider --timeout=900",
                   "source_commits": [], "add_only": True},
         "engines": [{"name": "coq-model+correspondence", "path": "/verif/check",
                      "serves_properties": sorted(CLAIMED), "kind_free_text":
                      "Coq 8.16 development (coq/theories: executable model, spec, proofs, properties/Cxx.v) + extracted OCaml model + Python differential harness and oracles"}],
         "checks": checks, "not_applicable": na,
         "notes": "See DESIGN.md. fix: commits in /repo are listed in known_findings.json (status fixed); pinned defects are status finding."}
    json.dump(m, open(os.path.join(V, 'MANIFEST.json'), 'w'), indent=1)

NA = {}
if __name__ == '__main__':
    main()
