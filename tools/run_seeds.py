#!/usr/bin/env python3
"""Re-runs every kept seeded change against the current checks: git -C /repo apply <patch>; ./check <P> --tier quick;
git -C /repo checkout -- .   Prints one line per seed; exit 1 if a seed is not detected by the check of its property."""
import os, sys, json, subprocess, glob
V = '/verif'
def sh(c, cwd=None):
    r = subprocess.run(c, shell=True, cwd=cwd, capture_output=True, text=True)
    return r.returncode, r.stdout + r.stderr
missed = []
assert sh('git -C /repo status --porcelain')[1].strip() == '', '/repo not clean'
for d in sorted(glob.glob(os.path.join(V, 'seeded', '*'))):
    name = os.path.basename(d)
    if not name.startswith('C'):
        continue          # refactor-* are behaviour-preserving changes: tools/run_refactors.py
    prop = name.split('-')[0]
    rc, o = sh('git -C /repo apply %s/patch.diff' % d)
    if rc != 0:
        print(name, 'PATCH-DOES-NOT-APPLY'); missed.append(name); continue
    try:
        rc, o = sh('timeout 1800 ./check %s --tier quick' % prop, cwd=V)
        viol = [l for l in o.split('\n') if l.startswith('VIOLATION')]
        print(name, 'detected' if rc != 0 else 'MISSED', viol[0][:120] if viol else '')
        if rc == 0:
            missed.append(name)
    finally:
        sh('git -C /repo checkout -- .')
print('missed:', missed)
sys.exit(1 if missed else 0)
