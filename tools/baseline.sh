#!/bin/sh
# Runs the repository's own test-suite (guard off: no hook exists in the sources) and prints the summary.
cd /repo && exec /venv/bin/python -m pytest -q -p no:cacheprovider --timeout=900 "$@"
