#!/usr/bin/env python3
"""py2gallina_paths: FAIL-CLOSED translator of `annotate_paths`, `path_length`, `path_duration`
(dynetx/algorithms/paths.py) from their CURRENT Python source to Gallina definitions `py_<name>` over the types
of Annotate.v (hop, path = list hop) and the primitives of PySupportPaths.v.

usage:  python3 tools/py2gallina_paths.py <repo_root> <out.v>

The output follows the Python text statement by statement.  Every expression is typed:
    Z | bool | option Z | hop | path | list path | option (list path) | pdict ({tuple(path): int}) | list Z
and an ill-typed or unknown construct makes THAT function untranslatable (reported in "failed", absent from the
output; a function that calls an untranslatable one is untranslatable too).  Nothing is skipped silently, except a
leading docstring.

Typing rules that follow from the text alone
  * parameters: path_length(path), path_duration(path) : path;  annotate_paths(paths) : list path;
  * `x = None` declares `x : option Z`; a later `x = e` with `e : Z` stores `Some e`;
  * `D = {'k1': None, ..., 'kn': None}` (constant, distinct, identifier-like string keys; top level; once) becomes
    ONE VARIABLE PER KEY, `D_k1 ... D_kn : option (list path)`, all `None`.  `D['k']` reads `D_k`,
    `D['k'] = e` (e : list path, a fresh list) is `let D_k := Some e`, `D['k'].append(e)` (e : path) is
    `let D_k := opt_append D_k e`.  `D` itself may only be returned, and only when its keys are exactly
    shortest, fastest, foremost, fastest_shortest, shortest_fastest:  `return D` is
    `mkPyAnn D_shortest D_fastest D_foremost D_fastest_shortest D_shortest_fastest`;
  * a top-level `x = e` may give `x` a new type (a `let` that shadows); inside a loop or a conditional the type of
    a variable is stable.

Statements
  * `for p in <parameter of type list path>: body`
        -> `List.fold_left (fun <state> p => body; <state>) <parameter> <state>`; <state> = the variables assigned
           in the body that exist before the loop (order of first assignment).  A variable FIRST assigned at the top
           level of the body is local to the iteration (a `let`); using it after the loop is rejected;
  * `if X is None or <c>: A` [`elif <c'>: B`]   (X : option Z, NO `else`)
        -> `match X with None => A | Some X_ => if c then A else [if c' then B else] <assigned> end`
           where, in c, c' and the `Some` branch, X reads as the integer X_;
  * `x = e`, `D['k'] = e`, `D['k'].append(e)` -> `let`;
  * `return e` only as the last top-level statement.

Expressions
  * ints, `+ - *`, `< <= > >= == !=` on Z, `and`/`or`/`not` on bool;
  * `p[-1]`, `p[0]` (p : path) -> `List.last p (0, 0, 0)`, `List.hd (0, 0, 0) p` : hop;  `h[-1]` (h : hop) ->
    `hop_time h`;  so `path[-1][-1]` is (convertible to) `path_last path` and `path[0][-1]` to `path_first path`;
  * `[e1, ..., en]` (n >= 1, ei : path) : list path;
  * `copy.copy(e)` (e : path; `copy` must be the module imported by `import copy`), `tuple(e)`, `list(e)`
    (e : path or list path) -> e;
  * `len(e)` -> `Z.of_nat (Datatypes.length e)`;  `min(e)` (e : list Z) -> `minZ_of e`;
    `d.values()` (d : pdict) -> `pdict_values d`;  `d[k]` (d : pdict, k : path) -> `pdict_get d k`;
  * `path_length(e)`, `path_duration(e)` (e : path) -> the GENERATED `py_path_length e`, `py_path_duration e`;
  * `{k: v for p in it}` (k : path, v : Z, no filter)
        -> `List.fold_left (fun d_ p => pdict_set d_ k v) it pdict_empty`  (insertion order, first-occurrence
           position of a key, LAST value wins);
  * `[e for p in it]`, `[e for p in it if c]` (e : path) -> `List.map (fun p => e) (List.filter (fun p => c) it)`,
    the `map` being omitted when e is p itself (also under tuple/list/copy.copy) and the `filter` when there is no
    `if`;  `it` is a list path, a dict entry `D['k']` (-> `iter_opt D_k`) or a pdict (-> `pdict_keys d`).

stdout: JSON {"translated": [...], "failed": [{"function", "error", "lineno"}, ...]}
exit 0 when the output file was written; exit 2 on I/O or syntax errors of the source file.
Only the stdlib `ast` module is used; the output is a deterministic function of the source file.
"""
import ast
import json
import os
import re
import sys

# ---------------------------------------------------------------------------------------------------------
Z, B, OZ, HOP, PATH, LPATH, OLPATH, PDICT, LZ = \
    "Z", "bool", "option Z", "hop", "path", "list path", "option (list path)", "pdict", "list Z"
DICTVAR = "dict-literal"           # the name of the split dict literal (never a value)
ANN = "annotated"                  # the returned record
COQ_TYPE = {Z: "Z", PATH: "Annotate.path", LPATH: "list Annotate.path", ANN: "py_annotated"}

PATHS_FILE = os.path.join("dynetx", "algorithms", "paths.py")
# name -> (parameter types, result type); callees first
TARGETS = {
    "path_length": ([PATH], Z),
    "path_duration": ([PATH], Z),
    "annotate_paths": ([LPATH], ANN),
}
ORDER = list(TARGETS)
GENERATED_CALLS = {"path_length": ([PATH], Z), "path_duration": ([PATH], Z)}
RECORD_FIELDS = ["shortest", "fastest", "foremost", "fastest_shortest", "shortest_fastest"]
BUILTINS_USED = ("len", "min", "tuple", "list")

RESERVED = set("""
fun let in if then else match with end forall exists exists2 fix cofix as return Type Prop Set SProp at using
where for IF mod struct _ d_
Z nat bool list option Some None true false negb andb orb pair fst snd nil cons app
hop path hop_time path_first path_last path_length path_duration annotated annotate_paths
opt_append iter_opt pdict pdict_empty pdict_set pdict_keys pdict_values pdict_get minZ_of
py_annotated mkPyAnn mkAnn Annotate List Datatypes
O S I tt Z0 Zpos Zneg xH xO xI Eq Lt Gt eq_refl
""".split()) - {"path", "annotated"}
# `path` and `annotated` ARE identifiers of the Python text: the generated code never mentions the Coq constants
# of the same name unqualified (types are written Annotate.path, and only in binders / @None).


class Unsupported(Exception):
    def __init__(self, msg, node=None):
        Exception.__init__(self, msg)
        self.lineno = getattr(node, "lineno", None)


def ind(lines, n=2):
    return [" " * n + s for s in lines]


def let_(pat, rhs):
    if len(rhs) == 1:
        return ["let %s := %s in" % (pat, rhs[0])]
    return ["let %s :=" % pat] + ind(rhs[:-1]) + ind([rhs[-1] + " in"])


def tuple_expr(names):
    return names[0] if len(names) == 1 else "(" + ", ".join(names) + ")"


def tuple_pat(names):
    return names[0] if len(names) == 1 else "'(" + ", ".join(names) + ")"


def src(node):
    try:
        return ast.unparse(node)
    except Exception:  # pragma: no cover
        return type(node).__name__


def is_int(e, v):
    return isinstance(e, ast.Constant) and type(e.value) is int and e.value == v


def is_minus_one(e):
    return isinstance(e, ast.UnaryOp) and isinstance(e.op, ast.USub) and is_int(e.operand, 1)


def is_none(e):
    return isinstance(e, ast.Constant) and e.value is None


class Env:
    """vars: name -> storage type;  ref: name -> code of the unwrapped integer (inside `Some` branches)"""

    def __init__(self, vars_=None, ref=None):
        self.vars = dict(vars_ or {})
        self.ref = dict(ref or {})

    def copy(self):
        return Env(self.vars, self.ref)


# ---------------------------------------------------------------------------------------------------------
class Fn:
    """translation of one function"""

    def __init__(self, name, fdef, param_types, result_type, module_names, available):
        self.name = name
        self.fdef = fdef
        self.param_types = param_types
        self.result_type = result_type
        self.module_names = module_names
        self.available = available
        self.deps = []
        self.params = []
        self.dict_name = None
        self.dict_keys = []
        self.iter_vars = []

    # ---- identifiers ----
    def ident(self, name, node):
        if not name.isascii() or not name.isidentifier():
            raise Unsupported("identifier %r not representable" % name, node)
        if name in RESERVED or name.startswith("py_") or "__" in name or name.endswith("_"):
            raise Unsupported("identifier %r is reserved in the generated code" % name, node)
        if name in BUILTINS_USED or name in GENERATED_CALLS or name == "copy":
            raise Unsupported("identifier %r shadows a library name of the fixed table" % name, node)
        if self.dict_name is not None and name in [self.mangle(k) for k in self.dict_keys]:
            raise Unsupported("identifier %r collides with an entry of the dict %s" % (name, self.dict_name), node)
        return name

    def mangle(self, key):
        return "%s_%s" % (self.dict_name, key)

    def builtin(self, name, node, env):
        if name in self.module_names:
            raise Unsupported("%s is rebound at module level (%s)" % (name, self.module_names[name]), node)
        if name in env.vars:
            raise Unsupported("%s is a local variable here" % name, node)

    @staticmethod
    def atom(c):
        if c.replace("_", "a").replace(".", "a").isalnum() \
                or (c[0] in "([" and c[-1] in ")]" and Fn.balanced(c[1:-1])):
            return c
        return "(" + c + ")"

    @staticmethod
    def balanced(s):
        d = 0
        for ch in s:
            if ch in "([":
                d += 1
            elif ch in ")]":
                d -= 1
                if d < 0:
                    return False
        return d == 0

    # ---- the split dict ----
    def dict_entry(self, e):
        """key of `D['k']` when e is a subscript of the split dict, else None"""
        if isinstance(e, ast.Subscript) and isinstance(e.value, ast.Name) and self.dict_name is not None \
                and e.value.id == self.dict_name:
            k = e.slice
            if not (isinstance(k, ast.Constant) and isinstance(k.value, str)):
                raise Unsupported("the key of %s must be a constant string: %s" % (self.dict_name, src(e)), e)
            if k.value not in self.dict_keys:
                raise Unsupported("%r is not a key of the literal that defines %s" % (k.value, self.dict_name), e)
            return k.value
        return None

    # ---- expressions: return (code, type) ----
    def expr(self, e, env):
        m = getattr(self, "e_" + type(e).__name__, None)
        if m is None:
            raise Unsupported("unsupported expression %s: %s" % (type(e).__name__, src(e)), e)
        return m(e, env)

    def want(self, e, env, ty, what):
        c, t = self.expr(e, env)
        if t != ty:
            raise Unsupported("%s: expected %s, found %s in %s" % (what, ty, t, src(e)), e)
        return c

    def e_Constant(self, e, env):
        v = e.value
        if isinstance(v, bool):
            return ("true" if v else "false"), B
        if type(v) is int:
            return (str(v) if v >= 0 else "(%d)" % v), Z
        raise Unsupported("unsupported constant %r" % (v,), e)

    def e_Name(self, e, env):
        if not isinstance(e.ctx, ast.Load):
            raise Unsupported("unsupported name context", e)
        if e.id not in env.vars:
            raise Unsupported("unbound (or out of scope) variable %s" % e.id, e)
        if env.vars[e.id] == DICTVAR:
            raise Unsupported("the dict %s may only be subscripted by a constant key, or returned" % e.id, e)
        if e.id in env.ref:
            return env.ref[e.id], Z
        return e.id, env.vars[e.id]

    def e_UnaryOp(self, e, env):
        if isinstance(e.op, ast.Not):
            return "negb %s" % self.atom(self.want(e.operand, env, B, "not")), B
        if isinstance(e.op, ast.USub):
            return "(- %s)" % self.atom(self.want(e.operand, env, Z, "unary -")), Z
        raise Unsupported("unsupported unary operator %s" % type(e.op).__name__, e)

    def e_BinOp(self, e, env):
        arith = {ast.Add: "+", ast.Sub: "-", ast.Mult: "*"}
        if type(e.op) not in arith:
            raise Unsupported("unsupported binary operator %s" % type(e.op).__name__, e)
        lc, lt = self.expr(e.left, env)
        rc, rt = self.expr(e.right, env)
        if lt != Z or rt != Z:
            raise Unsupported("arithmetic on %s, %s in %s" % (lt, rt, src(e)), e)
        return "(%s %s %s)" % (self.atom(lc), arith[type(e.op)], self.atom(rc)), Z

    def e_BoolOp(self, e, env):
        sym = "&&" if isinstance(e.op, ast.And) else "||"
        cs = [self.atom(self.want(v, env, B, "and/or operand")) for v in e.values]
        return "(" + (" %s " % sym).join(cs) + ")", B

    def e_Compare(self, e, env):
        if len(e.ops) != 1:
            raise Unsupported("chained comparison", e)
        op = type(e.ops[0])
        if op in (ast.Is, ast.IsNot):
            raise Unsupported("`is` is only supported as `X is None or ...` at the head of an `if`: %s" % src(e), e)
        a = self.atom(self.want(e.left, env, Z, "comparison"))
        b = self.atom(self.want(e.comparators[0], env, Z, "comparison"))
        if op is ast.Eq:
            return "(%s =? %s)" % (a, b), B
        if op is ast.NotEq:
            return "negb (%s =? %s)" % (a, b), B
        if op is ast.Lt:
            return "(%s <? %s)" % (a, b), B
        if op is ast.LtE:
            return "(%s <=? %s)" % (a, b), B
        if op is ast.Gt:
            return "(%s <? %s)" % (b, a), B
        if op is ast.GtE:
            return "(%s <=? %s)" % (b, a), B
        raise Unsupported("unsupported comparison %s" % op.__name__, e)

    def e_List(self, e, env):
        if not e.elts:
            raise Unsupported("the empty list literal has no type here", e)
        cs = [self.want(x, env, PATH, "element of a list literal") for x in e.elts]
        return "[" + "; ".join(cs) + "]", LPATH

    def e_Subscript(self, e, env):
        if not isinstance(e.ctx, ast.Load):
            raise Unsupported("unsupported subscript context", e)
        key = self.dict_entry(e)
        if key is not None:
            return self.mangle(key), OLPATH
        c, t = self.expr(e.value, env)
        k = e.slice
        if t == PATH:
            if is_minus_one(k):
                return "List.last %s (0, 0, 0)" % self.atom(c), HOP
            if is_int(k, 0):
                return "List.hd (0, 0, 0) %s" % self.atom(c), HOP
            raise Unsupported("a path may only be indexed by 0 or -1: %s" % src(e), e)
        if t == HOP:
            if is_minus_one(k):
                return "hop_time %s" % self.atom(c), Z
            raise Unsupported("a hop may only be indexed by -1: %s" % src(e), e)
        if t == PDICT:
            if not isinstance(e.value, ast.Name):
                raise Unsupported("unsupported subscript %s" % src(e), e)
            kc = self.want(k, env, PATH, "key of a {tuple(path): int} dict")
            return "pdict_get %s %s" % (self.atom(c), self.atom(kc)), Z
        raise Unsupported("unsupported subscript %s (of a %s)" % (src(e), t), e)

    def e_Attribute(self, e, env):
        raise Unsupported("unsupported attribute access %s" % src(e), e)

    def e_Call(self, e, env):
        if e.keywords:
            raise Unsupported("keyword arguments in %s" % src(e), e)
        for a in e.args:
            if isinstance(a, ast.Starred):
                raise Unsupported("starred argument", e)
        f = e.func
        if isinstance(f, ast.Name):
            return self.call_function(f.id, e, env)
        if isinstance(f, ast.Attribute) and isinstance(f.value, ast.Name):
            # copy.copy(x)
            if f.value.id == "copy" and f.attr == "copy":
                if self.module_names.get("copy") != "copy" or "copy" in env.vars:
                    raise Unsupported("copy is not the module imported by `import copy` here", e)
                if len(e.args) != 1:
                    raise Unsupported("copy.copy: exactly one argument expected", e)
                return self.want(e.args[0], env, PATH, "copy.copy"), PATH
            # d.values()
            if f.attr == "values" and env.vars.get(f.value.id) == PDICT:
                if e.args:
                    raise Unsupported("values() takes no argument", e)
                return "pdict_values %s" % f.value.id, LZ
        raise Unsupported("unsupported call %s" % src(e), e)

    def call_function(self, name, e, env):
        args = e.args
        if name in GENERATED_CALLS:
            if self.module_names.get(name) != "module-level definition":
                raise Unsupported("%s is not the module-level function here" % name, e)
            if name in env.vars:
                raise Unsupported("%s is a local variable here" % name, e)
            if name == self.name:
                raise Unsupported("recursive call", e)
            if name not in self.available:
                raise Unsupported("%s is needed but could not be translated" % name, e)
            atys, rty = GENERATED_CALLS[name]
            if len(args) != len(atys):
                raise Unsupported("%s: %d argument(s) expected" % (name, len(atys)), e)
            cs = [self.atom(self.want(a, env, t, "argument of %s" % name)) for a, t in zip(args, atys)]
            if name not in self.deps:
                self.deps.append(name)
            return " ".join(["py_" + name] + cs), rty
        if name not in BUILTINS_USED:
            raise Unsupported("unknown function %s" % name, e)
        self.builtin(name, e, env)
        if len(args) != 1:
            raise Unsupported("%s: exactly one argument expected" % name, e)
        c, t = self.expr(args[0], env)
        if name == "len":
            if t not in (PATH, LPATH, PDICT, LZ):
                raise Unsupported("len of %s" % t, e)
            return "Z.of_nat (Datatypes.length %s)" % self.atom(c), Z
        if name == "min":
            if t != LZ:
                raise Unsupported("min of %s (only min(d.values()) is supported)" % t, e)
            return "minZ_of %s" % self.atom(c), Z
        if name in ("tuple", "list"):
            if t not in (PATH, LPATH):
                raise Unsupported("%s of %s" % (name, t), e)
            return c, t
        raise Unsupported("unknown function %s" % name, e)  # pragma: no cover

    # ---- comprehensions ----
    def comp_source(self, e, env):
        """iterable of a comprehension: (code, element type)"""
        c, t = self.expr(e, env)
        if t == LPATH:
            return c, PATH
        if t == OLPATH:
            return "iter_opt %s" % self.atom(c), PATH
        if t == PDICT and isinstance(e, ast.Name):
            return "pdict_keys %s" % c, PATH
        raise Unsupported("iteration over %s (%s) is not supported" % (src(e), t), e)

    def comp_head(self, e, env):
        if len(e.generators) != 1:
            raise Unsupported("comprehension with several generators", e)
        gen = e.generators[0]
        if gen.is_async:
            raise Unsupported("async comprehension", e)
        it, ety = self.comp_source(gen.iter, env)
        if not isinstance(gen.target, ast.Name):
            raise Unsupported("unsupported comprehension target %s" % src(gen.target), gen.target)
        v = self.ident(gen.target.id, gen.target)
        if v in env.vars:
            raise Unsupported("comprehension variable %s shadows another variable" % v, gen.target)
        env2 = env.copy()
        env2.vars[v] = ety
        return gen, it, v, env2

    def e_ListComp(self, e, env):
        gen, it, v, env2 = self.comp_head(e, env)
        if len(gen.ifs) > 1:
            raise Unsupported("comprehension with several filters", e)
        code = self.atom(it)
        if gen.ifs:
            c = self.want(gen.ifs[0], env2, B, "filter of a comprehension")
            code = "List.filter (fun %s => %s) %s" % (v, c, code)
        body = self.want(e.elt, env2, PATH, "list comprehension element")
        if body != v:
            code = "List.map (fun %s => %s) %s" % (v, body, self.atom(code))
        return code, LPATH

    def e_DictComp(self, e, env):
        gen, it, v, env2 = self.comp_head(e, env)
        if gen.ifs:
            raise Unsupported("dict comprehension with a filter", e)
        k = self.want(e.key, env2, PATH, "dict comprehension key")
        val = self.want(e.value, env2, Z, "dict comprehension value")
        return ("List.fold_left (fun d_ %s => pdict_set d_ %s %s) %s pdict_empty"
                % (v, self.atom(k), self.atom(val), self.atom(it))), PDICT

    # ---- statements ----
    def assigned(self, stmts):
        """variables assigned by a block, in order of first assignment (only the supported forms)"""
        out = []

        def add(n):
            if n not in out:
                out.append(n)

        for s in stmts:
            if isinstance(s, ast.Assign) and len(s.targets) == 1:
                t = s.targets[0]
                if isinstance(t, ast.Name):
                    add(t.id)
                else:
                    k = self.dict_entry(t)
                    if k is not None:
                        add(self.mangle(k))
            elif isinstance(s, ast.Expr) and isinstance(s.value, ast.Call) \
                    and isinstance(s.value.func, ast.Attribute) and s.value.func.attr == "append":
                k = self.dict_entry(s.value.func.value)
                if k is not None:
                    add(self.mangle(k))
            elif isinstance(s, ast.For):
                for n in self.assigned(s.body):
                    add(n)
            elif isinstance(s, ast.If):
                for n in self.assigned(s.body) + self.assigned(s.orelse):
                    add(n)
        return out

    def check_target(self, name, node):
        self.ident(name, node)
        if name in self.iter_vars or name in self.params:
            raise Unsupported("assignment to the parameter / iterated variable %s" % name, node)

    def block(self, stmts, env, ctx):
        """ctx: 'top' (function level), 'loop' (top level of a loop body), 'cond' (inside a conditional).
        Returns (lines of `let ... in`, new env)."""
        lines = []
        env = env.copy()
        for s in stmts:
            m = getattr(self, "s_" + type(s).__name__, None)
            if m is None:
                raise Unsupported("unsupported statement %s: %s" % (type(s).__name__, src(s).split("\n")[0]), s)
            ls, env = m(s, env, ctx)
            lines += ls
        return lines, env

    def bind(self, name, node, env, ty, ctx):
        """storage rule for `name = <value of type ty>`; returns (wrap_in_Some, new env)"""
        self.check_target(name, node)
        env = env.copy()
        env.ref.pop(name, None)
        if name in env.vars:
            st = env.vars[name]
            if st == DICTVAR:
                raise Unsupported("the dict %s is reassigned" % name, node)
            if st == OZ and ty == Z:
                return True, env
            if st == ty:
                return False, env
            if ctx != "top":
                raise Unsupported("%s changes type from %s to %s inside a loop or a conditional" % (name, st, ty),
                                  node)
            env.vars[name] = ty
            return False, env
        if ctx == "cond":
            raise Unsupported("%s is first assigned inside a conditional" % name, node)
        env.vars[name] = ty          # 'top': a new variable;  'loop': local to the iteration
        return False, env

    def s_Assign(self, s, env, ctx):
        if len(s.targets) != 1 or s.type_comment:
            raise Unsupported("multiple assignment targets", s)
        t, v = s.targets[0], s.value
        if isinstance(t, ast.Name):
            if isinstance(v, ast.Dict):
                return self.dict_literal(t, v, env, ctx)
            if is_none(v):
                wrap, env = self.bind(t.id, t, env, OZ, ctx)
                return let_(t.id, ["(@None Z)"]), env
            c, ty = self.expr(v, env)
            if ty in (LPATH, OLPATH, PDICT, LZ) and (isinstance(v, ast.Name) or self.dict_entry(v) is not None):
                raise Unsupported("aliasing assignment %s" % src(s), s)
            if ty in (HOP, B):
                raise Unsupported("a variable of type %s is not supported: %s" % (ty, src(s)), s)
            wrap, env = self.bind(t.id, t, env, ty, ctx)
            return let_(t.id, ["Some %s" % self.atom(c) if wrap else c]), env
        key = self.dict_entry(t) if isinstance(t, ast.Subscript) else None
        if key is not None:
            if not isinstance(t.ctx, ast.Store):
                raise Unsupported("unsupported assignment %s" % src(s), s)  # pragma: no cover
            if isinstance(v, ast.Name) or self.dict_entry(v) is not None:
                raise Unsupported("aliasing assignment %s" % src(s), s)
            c = self.want(v, env, LPATH, "value stored in %s[%r]" % (self.dict_name, key))
            return let_(self.mangle(key), ["Some %s" % self.atom(c)]), env
        raise Unsupported("unsupported assignment %s" % src(s), s)

    def dict_literal(self, t, v, env, ctx):
        if ctx != "top" or self.dict_name is not None:
            raise Unsupported("a dict literal is supported once, at the top level of the function", v)
        keys = []
        for k, val in zip(v.keys, v.values):
            if not (isinstance(k, ast.Constant) and isinstance(k.value, str)
                    and re.fullmatch(r"[A-Za-z][A-Za-z0-9_]*", k.value) and not k.value.endswith("_")
                    and "__" not in k.value):
                raise Unsupported("dict literal: the keys must be constant identifier-like strings: %s" % src(v), v)
            if k.value in keys:
                raise Unsupported("dict literal: repeated key %r" % k.value, v)
            if not is_none(val):
                raise Unsupported("dict literal: every value must be None: %s" % src(v), v)
            keys.append(k.value)
        if not keys:
            raise Unsupported("empty dict literal", v)
        self.check_target(t.id, t)
        if t.id in env.vars:
            raise Unsupported("the dict literal overwrites the variable %s" % t.id, t)
        names = ["%s_%s" % (t.id, k) for k in keys]
        for n in names:
            if n in env.vars or n in RESERVED or n.startswith("py_"):
                raise Unsupported("the entry name %s collides with another name" % n, v)
        self.dict_name, self.dict_keys = t.id, keys
        env = env.copy()
        env.vars[t.id] = DICTVAR
        lines = []
        for n in names:
            env.vars[n] = OLPATH
            lines += let_(n, ["(@None (list Annotate.path))"])
        return lines, env

    def s_Expr(self, s, env, ctx):
        v = s.value
        if isinstance(v, ast.Call) and isinstance(v.func, ast.Attribute) and v.func.attr == "append" \
                and not v.keywords and len(v.args) == 1 and not isinstance(v.args[0], ast.Starred):
            key = self.dict_entry(v.func.value)
            if key is not None:
                c = self.want(v.args[0], env, PATH, "appended element")
                n = self.mangle(key)
                return let_(n, ["opt_append %s %s" % (n, self.atom(c))]), env
        raise Unsupported("unsupported expression statement %s" % src(s).split("\n")[0], s)

    def s_If(self, s, env, ctx):
        """if X is None or c: A  [elif c': B]     with X : option Z, no else"""
        t = s.test
        ok = (isinstance(t, ast.BoolOp) and isinstance(t.op, ast.Or) and len(t.values) == 2
              and isinstance(t.values[0], ast.Compare) and len(t.values[0].ops) == 1
              and isinstance(t.values[0].ops[0], ast.Is) and isinstance(t.values[0].left, ast.Name)
              and is_none(t.values[0].comparators[0]))
        if not ok:
            raise Unsupported("the only supported conditional is `if X is None or <c>: ... [elif <c'>: ...]`: %s"
                              % src(t), s)
        x = t.values[0].left.id
        if env.vars.get(x) != OZ or x in env.ref:
            raise Unsupported("`%s is None`: %s is not a variable initialised to None" % (x, x), s)
        elif_ = None
        if s.orelse:
            if len(s.orelse) != 1 or not isinstance(s.orelse[0], ast.If):
                raise Unsupported("`else` branch where none is expected", s.orelse[0])
            elif_ = s.orelse[0]
            if elif_.orelse:
                raise Unsupported("`else` / second `elif` branch where none is expected", elif_.orelse[0])
        vs = self.assigned(s.body) + [n for n in (self.assigned(elif_.body) if elif_ else [])
                                      if n not in self.assigned(s.body)]
        if not vs:
            raise Unsupported("conditional without effect", s)
        for n in vs:
            if n not in env.vars:
                raise Unsupported("%s is first assigned inside a conditional" % n, s)
        tup = tuple_expr(vs)
        xv = x + "_"
        renv = env.copy()
        renv.ref[x] = xv

        def branch(body, e0):
            lines, e1 = self.block(body, e0, "cond")
            for n in vs:
                if e1.vars.get(n) != env.vars[n]:
                    raise Unsupported("%s is not a stable variable of the conditional" % n, s)  # pragma: no cover
            return lines + [tup]

        c = self.want(t.values[1], renv, B, "condition")
        none_branch = branch(s.body, env)
        then_branch = branch(s.body, renv)
        some = ["if %s then" % c] + ind(then_branch)
        if elif_ is not None:
            c2 = self.want(elif_.test, renv, B, "condition")
            some += ["else if %s then" % c2] + ind(branch(elif_.body, renv))
        some += ["else %s" % tup]
        rhs = (["match %s with" % x, "| None =>"] + ind(none_branch, 4)
               + ["| Some %s =>" % xv] + ind(some, 4) + ["end"])
        return let_(tuple_pat(vs), rhs), env

    def s_For(self, s, env, ctx):
        if s.orelse:
            raise Unsupported("for ... else is not supported", s)
        if s.type_comment:
            raise Unsupported("type comment", s)
        if ctx != "top":
            raise Unsupported("nested loop", s)
        if not (isinstance(s.iter, ast.Name) and s.iter.id in self.params and env.vars.get(s.iter.id) == LPATH):
            raise Unsupported("only `for p in <parameter of type list path>` is supported: %s" % src(s.iter), s)
        if not isinstance(s.target, ast.Name):
            raise Unsupported("unsupported loop target %s" % src(s.target), s.target)
        p = self.ident(s.target.id, s.target)
        vs = [n for n in self.assigned(s.body) if n in env.vars]
        if not vs:
            raise Unsupported("loop without effect", s)
        if p in env.vars or p in self.assigned(s.body):
            raise Unsupported("loop variable %s shadows another variable" % p, s.target)
        env2 = env.copy()
        env2.vars[p] = PATH
        saved = self.iter_vars
        self.iter_vars = saved + [s.iter.id, p]
        body, env3 = self.block(s.body, env2, "loop")
        self.iter_vars = saved
        for n in vs:
            if env3.vars.get(n) != env.vars[n]:
                raise Unsupported("%s is not a stable variable of the loop" % n, s)
        tup = tuple_expr(vs)
        rhs = (["List.fold_left (fun %s %s =>" % (tuple_pat(vs), p)] + ind(body + [tup + ")"], 4)
               + ind(["%s %s" % (s.iter.id, tup)]))
        # the loop variable and the variables local to the iteration leave the scope
        return let_(tuple_pat(vs), rhs), env

    # ---- whole function ----
    def translate(self):
        f = self.fdef
        if f.decorator_list:
            raise Unsupported("decorated function", f)
        a = f.args
        if a.vararg or a.kwarg or a.kwonlyargs or a.defaults or a.kw_defaults or a.posonlyargs:
            raise Unsupported("only plain positional parameters without defaults are supported", f)
        params = [x.arg for x in a.args]
        if len(params) != len(self.param_types):
            raise Unsupported("%d parameter(s) expected, found %d" % (len(self.param_types), len(params)), f)
        if len(set(params)) != len(params):
            raise Unsupported("repeated parameter", f)
        env = Env()
        for p, ty in zip(params, self.param_types):
            self.ident(p, f)
            env.vars[p] = ty
        self.params = params
        body = list(f.body)
        if body and isinstance(body[0], ast.Expr) and isinstance(body[0].value, ast.Constant) \
                and isinstance(body[0].value.value, str):
            body = body[1:]          # docstring
        if not body or not isinstance(body[-1], ast.Return):
            raise Unsupported("the last top-level statement must be a return", body[-1] if body else f)
        ret = body[-1]
        body = body[:-1]
        for s in body:
            for n in ast.walk(s):
                if isinstance(n, ast.Return):
                    raise Unsupported("return before the end of the function", n)
                if isinstance(n, (ast.Yield, ast.YieldFrom, ast.Await, ast.Lambda, ast.NamedExpr)):
                    raise Unsupported("unsupported construct %s" % type(n).__name__, n)
        if ret.value is None:
            raise Unsupported("return without a value", ret)
        lines, env = self.block(body, env, "top")
        if self.result_type == ANN:
            if not (isinstance(ret.value, ast.Name) and self.dict_name is not None
                    and ret.value.id == self.dict_name):
                raise Unsupported("the returned value must be the dict built from the literal: %s" % src(ret), ret)
            if sorted(self.dict_keys) != sorted(RECORD_FIELDS):
                raise Unsupported("the keys of %s are not exactly %s" % (self.dict_name, sorted(RECORD_FIELDS)), ret)
            rc = " ".join(["mkPyAnn"] + [self.mangle(k) for k in RECORD_FIELDS])
        else:
            rc = self.want(ret.value, env, self.result_type, "returned value")
        sig = "".join(" (%s : %s)" % (p, COQ_TYPE[t]) for p, t in zip(params, self.param_types))
        return (["Definition py_%s%s : %s :=" % (self.name, sig, COQ_TYPE[self.result_type])]
                + ind(lines + [rc + "."]))


# ---------------------------------------------------------------------------------------------------------
def module_bindings(tree):
    """names bound at module level -> description of their origin"""
    out = {}
    for s in tree.body:
        if isinstance(s, ast.ImportFrom):
            for al in s.names:
                out[al.asname or al.name] = "%s.%s" % (s.module, al.name)
        elif isinstance(s, ast.Import):
            for al in s.names:
                out[al.asname or al.name.split(".")[0]] = al.name     # `import copy` -> {"copy": "copy"}
        elif isinstance(s, (ast.FunctionDef, ast.ClassDef, ast.AsyncFunctionDef)):
            out[s.name] = "module-level definition"
        elif isinstance(s, (ast.Assign, ast.AugAssign, ast.AnnAssign)):
            for n in ast.walk(s):
                if isinstance(n, ast.Name) and isinstance(n.ctx, ast.Store):
                    out[n.id] = "module-level assignment"
        elif isinstance(s, ast.Expr) and isinstance(s.value, ast.Constant):
            pass
        else:
            for n in ast.walk(s):
                if isinstance(n, ast.Name) and isinstance(n.ctx, ast.Store):
                    out[n.id] = "module-level statement"
                elif isinstance(n, (ast.FunctionDef, ast.ClassDef)):
                    out[n.name] = "conditional definition"
                elif isinstance(n, ast.alias):
                    out[(n.asname or n.name).split(".")[0]] = "conditional import"
    return out


def find_def(tree, name):
    """the unique module-level FunctionDef `name`; (fdef, error)"""
    ds = [d for d in tree.body if isinstance(d, (ast.FunctionDef, ast.AsyncFunctionDef, ast.ClassDef))
          and d.name == name]
    if len(ds) != 1:
        return None, ("%d definitions of %s" % (len(ds), name), ds[-1].lineno if ds else None)
    if not isinstance(ds[0], ast.FunctionDef):
        return None, ("%s is not a plain function" % name, ds[0].lineno)
    for s in tree.body:
        if s is ds[0] or isinstance(s, (ast.FunctionDef, ast.AsyncFunctionDef, ast.ClassDef)):
            continue
        for n in ast.walk(s):
            if isinstance(n, ast.Name) and isinstance(n.ctx, ast.Store) and n.id == name:
                return None, ("%s is rebound at module level" % name, n.lineno)
            if isinstance(n, ast.alias) and (n.asname or n.name).split(".")[0] == name:
                return None, ("%s is rebound by an import" % name, s.lineno)
            if isinstance(n, (ast.FunctionDef, ast.AsyncFunctionDef, ast.ClassDef)) and n.name == name:
                return None, ("%s is conditionally redefined" % name, n.lineno)
    return ds[0], None


def main(argv):
    if len(argv) != 3:
        sys.stderr.write(__doc__)
        return 2
    root, out_path = argv[1], argv[2]
    try:
        with open(os.path.join(root, PATHS_FILE), encoding="utf-8") as fh:
            tree = ast.parse(fh.read(), filename=PATHS_FILE)
    except (OSError, SyntaxError, ValueError) as ex:
        sys.stderr.write("py2gallina_paths: %s\n" % ex)
        return 2
    bindings = module_bindings(tree)

    translated, failed, defs = [], [], {}
    for name in ORDER:          # ORDER lists the callees first
        ptypes, rty = TARGETS[name]
        fdef, err = find_def(tree, name)
        if err:
            failed.append({"function": name, "error": err[0], "lineno": err[1]})
            continue
        fn = Fn(name, fdef, ptypes, rty, bindings, set(defs))
        try:
            defs[name] = fn.translate()
            translated.append(name)
        except Unsupported as ex:
            failed.append({"function": name, "error": str(ex),
                           "lineno": ex.lineno if ex.lineno is not None else fdef.lineno})

    rel = PATHS_FILE.replace(os.sep, "/")
    text = ["(* GENERATED by tools/py2gallina_paths.py from %s; do not edit *)" % rel,
            "From DynVerif Require Import Base Annotate PySupportPaths.", ""]
    for n in translated:
        text.append("(* %s, %s *)" % (n, rel))
        text += defs[n]
        text.append("")
    try:
        with open(out_path, "w", encoding="utf-8", newline="\n") as fh:
            fh.write("\n".join(text))
    except OSError as ex:
        sys.stderr.write("py2gallina_paths: %s\n" % ex)
        return 2
    print(json.dumps({"translated": translated, "failed": failed}, indent=1))
    return 0


if __name__ == "__main__":
    sys.exit(main(sys.argv))
