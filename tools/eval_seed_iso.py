#!/usr/bin/env python3
"""Confirms a seeded change (from a scratch worktree under /tmp) and runs the checks against it WITHOUT touching /repo's
   working tree or /verif's build: the check runs from a copy of /verif (VCOPY, default /var/tmp/vreg10/verif, made by the caller with
   rsync -a --exclude .git --exclude .work --exclude replays /verif/ <copy>/) with DYNETX_REPO=<worktree> (patch applied there).
   usage: eval_seed_iso.py <worktree> <property> <name> [--all]
   1. in the worktree: patch applies cleanly on HEAD, test-suite passes WITH it, demo fails WITH and passes WITHOUT it;
   2. copy patch.diff / demo.py / meta.json to /verif/seeded/<name>/;
   3. git -C /repo apply patch; run ./check <property> (quick) [and all others with --all]; git -C /repo checkout -- .
"""
import sys, os, json, subprocess, shutil, re
V = '/verif'
VC = os.environ.get('VCOPY', '/var/tmp/vreg10/verif')

def sh(cmd, cwd=None, timeout=3000):
    r = subprocess.run(cmd, shell=True, cwd=cwd, capture_output=True, text=True, timeout=timeout)
    return r.returncode, (r.stdout + r.stderr)

def main():
    wt, prop, name = sys.argv[1:4]
    allp = '--all' in sys.argv
    out = dict(property=prop, worktree=wt)
    patch = os.path.join(wt, 'patch.diff')
    # 1. confirmation in the scratch worktree
    sh('git checkout -- dynetx', cwd=wt)
    rc, o = sh('git apply --check patch.diff', cwd=wt); out['applies'] = (rc == 0)
    rc0, o0 = sh('/venv/bin/python demo.py', cwd=wt); out['demo_without'] = rc0
    sh('git apply patch.diff', cwd=wt)
    rc1, o1 = sh('/venv/bin/python demo.py', cwd=wt); out['demo_with'] = rc1
    out['demo_with_output'] = o1[-600:]
    rct, ot = sh('/venv/bin/python -m pytest -q -p no:cacheprovider dynetx/test 2>&1 | tail -3', cwd=wt); out['tests_with'] = ot.strip().split('\n')[-1]
    confirmed = out['applies'] and rc0 == 0 and rc1 != 0 and ' failed' not in out['tests_with'] and 'passed' in out['tests_with']
    out['confirmed'] = confirmed
    dst = os.path.join(V, 'seeded', name)
    os.makedirs(dst, exist_ok=True)
    for f in ('patch.diff', 'demo.py'):
        shutil.copy(os.path.join(wt, f), os.path.join(dst, f))
    agent_meta = {}
    try:
        agent_meta = json.load(open(os.path.join(wt, 'meta.json')))
    except Exception:
        pass
    # 3. run the checks against /repo with the change applied
    results = {}
    if confirmed:
        try:
            props = [prop] + ([l.split('"')[3] for l in open(os.path.join(V, 'properties.jsonl')) if l.split('"')[3] != prop] if allp else [])
            for p in props:
                rc, o = sh('DYNETX_REPO=%s timeout 1800 ./check %s --tier quick' % (wt, p), cwd=VC)
                viol = [l for l in o.split('\n') if l.startswith('VIOLATION')]
                results[p] = dict(exit=rc, violation=viol[0] if viol else None)
                if viol:
                    m = re.search(r'replay=(\S+)', viol[0])
                    if m and os.path.exists(m.group(1)):
                        rp = json.load(open(m.group(1)))
                        results[p]['replay_kind'] = rp.get('kind')
                        results[p]['replay_case'] = rp.get('case')
                        results[p]['replay_failures'] = (rp.get('failures') or rp.get('what'))[:2] if (rp.get('failures') or rp.get('what')) else None
        finally:
            pass
    out['checks'] = results
    out['detected_by'] = [p for p, r in results.items() if r['exit'] != 0]
    meta = dict(property=prop, name=name, agent_meta=agent_meta, confirmation=dict((k, out[k]) for k in ('applies', 'demo_without', 'demo_with', 'demo_with_output', 'tests_with', 'confirmed')),
                what_was_run=['git apply --check; demo.py without / with the patch; pytest with the patch (in the scratch worktree)',
                              'DYNETX_REPO=<scratch worktree with the patch applied> <copy of /verif>/check <P> --tier quick'],
                checks=results, detected_by=out['detected_by'])
    json.dump(meta, open(os.path.join(dst, 'meta.json'), 'w'), indent=1)
    print(json.dumps(dict(name=name, confirmed=confirmed, detected_by=out['detected_by'],
                          target=results.get(prop)), indent=1)[:1500])

main()
