#!/usr/bin/env python3
"""Parallel regression of the whole seeded/ collection WITHOUT touching /repo's working tree or /verif's evidence:
   a copy of /verif (build products included) under /var/tmp/vreg and K scratch worktrees of /repo's HEAD; every job applies
   one patch in a worktree and runs `DYNETX_REPO=<worktree> <copy>/check <P> --tier quick`.
     seeds  (seeded/C*)                 : the check of the seed's property must exit 1
     refactors / tolerant (seeded/[rt]*): all 20 checks must exit 0
   Properties are partitioned over the workers (two checks of one property never run at the same time).
   usage: regress_parallel.py [workers=8] [seeds|refactors|all]      result: seeded/regression_parallel.json
   Everything under /var/tmp/vreg is removed at the end."""
import os, sys, json, glob, subprocess, shutil, time, threading

V = '/verif'
ROOT = '/var/tmp/vreg'
K = int(sys.argv[1]) if len(sys.argv) > 1 else 8
WHAT = sys.argv[2] if len(sys.argv) > 2 else 'all'


def sh(c, cwd=None, env=None, timeout=None):
    try:
        r = subprocess.run(c, shell=True, cwd=cwd, env=env, capture_output=True, text=True, timeout=timeout)
        return r.returncode, r.stdout + r.stderr
    except subprocess.TimeoutExpired:
        return 124, 'TIMEOUT'


def main():
    t0 = time.time()
    shutil.rmtree(ROOT, ignore_errors=True)
    os.makedirs(ROOT)
    V2 = os.path.join(ROOT, 'verif')
    rc, o = sh('rsync -a --exclude .git --exclude .work --exclude replays %s/ %s/' % (V, V2))
    assert rc == 0, o
    props = ['C%02d' % i for i in range(1, 21)]
    seeds = sorted(d for d in glob.glob(os.path.join(V, 'seeded', 'C*')) if os.path.isdir(d))
    refs = sorted(d for d in glob.glob(os.path.join(V, 'seeded', '*')) if os.path.isdir(d) and os.path.basename(d)[0] in 'rt')
    jobs = {p: [] for p in props}
    if WHAT in ('seeds', 'all'):
        for d in seeds:
            jobs[os.path.basename(d).split('-')[0]].append((d, 1))
    if WHAT in ('refactors', 'all'):
        for d in refs:
            for p in props:
                jobs[p].append((d, 0))
    # longest first, greedy partition
    order = sorted(props, key=lambda p: -len(jobs[p]))
    parts = [[] for _ in range(K)]
    load = [0] * K
    for p in order:
        i = load.index(min(load))
        parts[i].append(p)
        load[i] += len(jobs[p]) * (3 if p in ('C03', 'C06', 'C02') else 1)
    results, lock = [], threading.Lock()

    def worker(k):
        wt = os.path.join(ROOT, 'repo_%d' % k)
        rc, o = sh('git -C /repo worktree add --detach %s HEAD' % wt)
        env = dict(os.environ, DYNETX_REPO=wt)
        for p in parts[k]:
            for d, want in jobs[p]:
                name = os.path.basename(d)
                sh('git checkout -- . && git clean -fdq dynetx', cwd=wt)
                rc, o = sh('git apply %s/patch.diff' % d, cwd=wt)
                if rc != 0:
                    with lock:
                        results.append(dict(patch=name, property=p, want=want, got='PATCH-DOES-NOT-APPLY', ok=False))
                    continue
                t1 = time.time()
                rc, o = sh('./check %s --tier quick' % p, cwd=V2, env=env, timeout=2400)
                viol = [l for l in o.split('\n') if l.startswith('VIOLATION')]
                ok = (rc == 1 and bool(viol)) if want == 1 else (rc == 0 and not viol)
                with lock:
                    results.append(dict(patch=name, property=p, want=want, got=rc, ok=ok, violation=(viol[0][:160] if viol else None),
                                        tail=(None if ok else o[-400:]), wall=round(time.time() - t1, 1)))
                    print(('ok   ' if ok else 'BAD  ') + name, p, 'exit', rc, (viol[0][:100] if viol else ''), flush=True)
        sh('git checkout -- .', cwd=wt)
        sh('git -C /repo worktree remove --force %s' % wt)

    th = [threading.Thread(target=worker, args=(k,)) for k in range(K)]
    for t in th:
        t.start()
    for t in th:
        t.join()
    sh('git -C /repo worktree prune')
    bad = [r for r in results if not r['ok']]
    summ = dict(at=time.strftime('%Y-%m-%d %H:%M:%S'), repo_head=sh('git -C /repo rev-parse --short HEAD')[1].strip(),
                verif_head=sh('git -C /verif rev-parse --short HEAD')[1].strip(), workers=K, what=WHAT,
                seeds_run=sum(1 for r in results if r['want'] == 1), seeds_detected=sum(1 for r in results if r['want'] == 1 and r['ok']),
                refactor_runs=sum(1 for r in results if r['want'] == 0), refactor_runs_quiet=sum(1 for r in results if r['want'] == 0 and r['ok']),
                not_ok=bad, wall_s=round(time.time() - t0))
    json.dump(summ, open(os.path.join(V, 'seeded', 'regression_parallel.json'), 'w'), indent=1)
    print(json.dumps({k: v for k, v in summ.items() if k != 'not_ok'}))
    print('NOT OK:', [(r['patch'], r['property'], r['got']) for r in bad])
    shutil.rmtree(ROOT, ignore_errors=True)
    sys.exit(1 if bad else 0)


main()
