#!/usr/bin/env python3
"""Keeps the minimised failing input of every seeded change as a regression case: for each seeded/<P>-<n>/patch.diff,
applies it to /repo, runs ./check <P> (quick), copies the 'case' of the replay file to corpus/<P>/<seed>.json and
reverts.  The corpus runs first in every check (harness/engine.py), so what once revealed a defect keeps being tried
whatever the random generators draw.  usage: tools/build_corpus.py [seed-name ...]"""
import os, sys, json, subprocess, glob, re
V = '/verif'
def sh(c, cwd=None):
    r = subprocess.run(c, shell=True, cwd=cwd, capture_output=True, text=True)
    return r.returncode, r.stdout + r.stderr
names = sys.argv[1:] or [os.path.basename(d) for d in sorted(glob.glob(os.path.join(V, 'seeded', 'C*')))]
for name in names:
    d = os.path.join(V, 'seeded', name)
    prop = name.split('-')[0]
    out = os.path.join(V, 'corpus', prop, name + '.json')
    if os.path.exists(out) and '--force' not in sys.argv:
        print(name, 'kept'); continue
    assert sh('git -C /repo status --porcelain')[1].strip() == '', '/repo not clean'
    if sh('git -C /repo apply %s/patch.diff' % d)[0] != 0:
        print(name, 'PATCH-DOES-NOT-APPLY'); continue
    try:
        rc, o = sh('timeout 1800 ./check %s --tier quick' % prop, cwd=V)
        m = re.search(r'VIOLATION property=\S+ replay=(\S+)', o)
        if not m:
            print(name, 'no violation'); continue
        rp = json.load(open(m.group(1)))
        if rp.get('case') is None:
            print(name, 'no failing input in the replay'); continue
        os.makedirs(os.path.dirname(out), exist_ok=True)
        json.dump(dict(case=rp['case'], origin='minimised failing input of seeded change %s' % name,
                       failures=rp.get('failures', [])[:2]), open(out, 'w'), indent=1)
        print(name, 'saved', flush=True)
    finally:
        sh('git -C /repo checkout -- .')
