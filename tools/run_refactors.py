#!/usr/bin/env python3
"""False-alarm test: applies a behaviour-preserving refactoring (seeded/refactor-*/patch.diff) to /repo, runs ALL 20 quick
checks, reverts. A VIOLATION here is either a false alarm of the machinery or a real behaviour change of the refactoring."""
import os, sys, json, subprocess, glob
V = '/verif'
def sh(c, cwd=None):
    r = subprocess.run(c, shell=True, cwd=cwd, capture_output=True, text=True)
    return r.returncode, r.stdout + r.stderr
props = [json.loads(l)['id'] for l in open(os.path.join(V, 'properties.jsonl'))]
dirs = sys.argv[1:] or sorted(glob.glob(os.path.join(V, 'seeded', 'refactor-*')) + glob.glob(os.path.join(V, 'seeded', 'tolerant-*')))
bad = []
for d in dirs:
    assert sh('git -C /repo status --porcelain')[1].strip() == '', '/repo not clean'
    rc, o = sh('git -C /repo apply %s/patch.diff' % d)
    if rc != 0:
        print(d, 'PATCH-DOES-NOT-APPLY', o[:200]); bad.append(d); continue
    res = {}
    try:
        rc, o = sh('/venv/bin/python -m pytest -q -p no:cacheprovider dynetx/test 2>&1 | tail -1', cwd='/repo')
        res['tests'] = o.strip()
        for p in props:
            rc, o = sh('timeout 1800 ./check %s --tier quick' % p, cwd=V)
            viol = [l for l in o.split('\n') if l.startswith('VIOLATION')]
            res[p] = viol[0] if viol else 'ok'
    finally:
        sh('git -C /repo checkout -- .')
    alarms = {k: v for k, v in res.items() if k != 'tests' and v != 'ok'}
    print(os.path.basename(d), res['tests'], 'ALARMS:' if alarms else 'no alarm', json.dumps(alarms)[:600])
    json.dump(res, open(os.path.join(d, 'check_results.json'), 'w'), indent=1)
    if alarms:
        bad.append(d)
sys.exit(1 if bad else 0)
