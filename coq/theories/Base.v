(** Base: shared header, association lists keyed by Z or by pairs of Z, small list helpers.
    Stdlib only. *)
From Coq Require Export ZArith List Bool Lia ZifyBool.
Export ListNotations.
#[global] Open Scope Z_scope.

Ltac Zify.zify_post_hook ::= Z.to_euclidean_division_equations.

(** Pairs of node ids (nodes are integers in the model; the code only hashes and compares them). *)
Definition peqb (p q : Z * Z) : bool := (fst p =? fst q) && (snd p =? snd q).

Lemma peqb_eq p q : peqb p q = true <-> p = q.
Proof. destruct p, q; unfold peqb; simpl. split; [intros H; f_equal; lia | intros H; inversion H; lia]. Qed.

Lemma peqb_refl p : peqb p p = true.
Proof. apply peqb_eq; reflexivity. Qed.

Lemma peqb_neq p q : peqb p q = false <-> p <> q.
Proof. rewrite <- peqb_eq. destruct (peqb p q); split; congruence. Qed.

Lemma peqb_sym p q : peqb p q = peqb q p.
Proof. destruct p, q; unfold peqb; simpl. lia. Qed.

(** Association lists in insertion order (Python dicts).  [aset] updates in place or appends. *)
Section AList.
  Context {K V : Type} (keqb : K -> K -> bool).

  Fixpoint aget (k : K) (l : list (K * V)) : option V :=
    match l with
    | [] => None
    | (k', v) :: r => if keqb k k' then Some v else aget k r
    end.

  Fixpoint aset (k : K) (v : V) (l : list (K * V)) : list (K * V) :=
    match l with
    | [] => [(k, v)]
    | (k', v') :: r => if keqb k k' then (k', v) :: r else (k', v') :: aset k v r
    end.

  Definition akeys (l : list (K * V)) : list K := map fst l.
  Definition amem (k : K) (l : list (K * V)) : bool :=
    match aget k l with Some _ => true | None => false end.
End AList.

Definition memZ (x : Z) (l : list Z) : bool := existsb (Z.eqb x) l.

Lemma memZ_In x l : memZ x l = true <-> In x l.
Proof.
  unfold memZ. rewrite existsb_exists. split.
  - intros (y & Hy & E). assert (x = y) by lia. subst; auto.
  - intros H. exists x. split; auto. lia.
Qed.

(** Insertion sort on Z (Python's [sorted] on ints; stability is irrelevant for plain ints). *)
Fixpoint insZ (x : Z) (l : list Z) : list Z :=
  match l with
  | [] => [x]
  | y :: r => if x <=? y then x :: l else y :: insZ x r
  end.
Definition sortZ (l : list Z) : list Z := fold_right insZ [] l.

Fixpoint maxZ (d : Z) (l : list Z) : Z :=
  match l with [] => d | x :: r => Z.max x (maxZ d r) end.

(** [zrange a n] = [a; a+1; ...; a+n-1]  (Python's range) *)
Fixpoint zrange (a : Z) (n : nat) : list Z :=
  match n with O => [] | S m => a :: zrange (a + 1) m end.
Definition zrange_incl (a b : Z) : list Z := zrange a (Z.to_nat (b - a + 1)).

Fixpoint index_of (x : Z) (l : list Z) : option nat :=
  match l with
  | [] => None
  | y :: r => if x =? y then Some O else option_map S (index_of x r)
  end.
