(** Annotate: executable model of dynetx.algorithms.paths.annotate_paths / path_length / path_duration and of
    dynetx.utils.transform.compact_timeslot.  Mirrors the code: one pass with three running minima and tie
    lists, then the two dictionary-based secondary selections (which collapse duplicates, first occurrence
    order). *)
From DynVerif Require Import Base.

Definition hop := (Z * Z * Z)%type.          (* (u, v, t) *)
Definition path := list hop.
Definition hop_time (h : hop) : Z := snd h.

Definition path_length (p : path) : Z := Z.of_nat (length p).
(** path[-1][-1] - path[0][-1]; Python raises IndexError on an empty path, the model answers 0 - 0 *)
Definition path_first (p : path) : Z := hop_time (hd (0, 0, 0) p).
Definition path_last (p : path) : Z := hop_time (last p (0, 0, 0)).
Definition path_duration (p : path) : Z := path_last p - path_first p.

(** one running minimum with its tie list *)
Definition sel_step (m : path -> Z) (st : option Z * list path) (p : path) : option Z * list path :=
  match fst st with
  | None => (Some (m p), [p])
  | Some b =>
      if m p <? b then (Some (m p), [p])
      else if m p =? b then (Some b, snd st ++ [p])
      else st
  end.
Definition select (m : path -> Z) (l : list path) : list path := snd (fold_left (sel_step m) l (None, [])).

Definition hop_eqb (a b : hop) : bool :=
  (fst (fst a) =? fst (fst b)) && (snd (fst a) =? snd (fst b)) && (snd a =? snd b).
Fixpoint path_eqb (p q : path) : bool :=
  match p, q with
  | [], [] => true
  | a :: p', b :: q' => hop_eqb a b && path_eqb p' q'
  | _, _ => false
  end.

(** keys of {tuple(path): metric for path in l}: first occurrences, in order *)
Fixpoint dedup (l : list path) (seen : list path) : list path :=
  match l with
  | [] => []
  | p :: r => if existsb (path_eqb p) seen then dedup r seen else p :: dedup r (p :: seen)
  end.
Fixpoint minZ_list (d : Z) (l : list Z) : Z :=
  match l with [] => d | x :: r => Z.min x (minZ_list x r) end.
Definition min_among (m : path -> Z) (l : list path) : list path :=
  let ks := dedup l [] in
  match ks with
  | [] => []
  | p0 :: _ => let mv := minZ_list (m p0) (map m ks) in filter (fun p => m p =? mv) ks
  end.

Record annotated := mkAnn {
  a_shortest : list path; a_fastest : list path; a_foremost : list path;
  a_fastest_shortest : list path; a_shortest_fastest : list path }.

Definition annotate_paths (l : list path) : annotated :=
  let sh := select path_length l in
  let fa := select path_duration l in
  let fo := select path_last l in
  mkAnn sh fa fo (min_among path_duration sh) (min_among path_length fa).

(** compact_timeslot: {val: idx for idx, val in enumerate(sorted(l))} as an association list *)
Definition compact_timeslot (l : list Z) : list (Z * Z) :=
  combine (sortZ l) (zrange 0 (length l)).
Definition rank_of (l : list Z) (x : Z) : option Z := aget Z.eqb x (compact_timeslot l).
