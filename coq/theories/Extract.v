(** Extraction of the executable model to OCaml. ExtrOcamlBasic only: bool/option/list/prod/unit/sumbool
    map to the OCaml types; Z, positive, N, nat stay the extracted inductive types. *)
From Coq Require Extraction ExtrOcamlBasic.
From DynVerif Require Import Base Graph Derived Encode.
Extraction Language OCaml.
Extraction "model.ml" run_prog.
