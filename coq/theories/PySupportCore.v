(** PySupportCore: the few primitives the GENERATED file gen/PyGenCore.v (output of tools/py2gallina_core.py: the presence
    test and has_interaction of both classes) needs besides the vocabulary of Graph.v.  Definitions only: every fact about
    them is proved in proofs/PyGenCoreEq.v.

    Conventions of the translation (see the header of the tool):
      * the adjacency dict-of-dicts is the model's association list of pair keys: [self._adj[u][v]] (DynGraph: one dict
        shared by both directions) and [self._succ[u][v]] (DynDiGraph) are the entry under [nk (g_dir g) u v];
      * [self._adj[u][v]['t']] is the stored list of [start, end] pairs, oldest run first ([tl_chrono]);
      * a block of statements is a term of type [option bool]: [Some r] = it has returned r, [None] = it falls through.
    Where Python raises, the primitives answer a default; every such place is OUTSIDE the equalities of PyGenCoreEq.v:
      * [adj_spans g u v] on an absent entry: KeyError; answers [[]] (then [hd]/[last] answer (0, 0): IndexError in Python);
      * [max_of []]: ValueError; answers 0 (an adjacency entry never exists without a snapshot id). *)
From DynVerif Require Import Base Graph.

Definition span := (Z * Z)%type.
Definition adj_entry (g : graph) (u v : Z) : option tline := aget peqb (nk (g_dir g) u v) (g_edges g).
(** v in self._adj[u]  (False / KeyError -> False when u is unknown) *)
Definition in_adj (g : graph) (u v : Z) : bool := match adj_entry g u v with Some _ => true | None => false end.
Definition adj_spans (g : graph) (u v : Z) : list (Z * Z) :=
  match adj_entry g u v with Some tl => tl_chrono tl | None => [] end.
(** max(l) on a list of ints *)
Definition max_of (l : list Z) : Z := match l with [] => 0 | x :: r => fold_left Z.max r x end.
(** sequencing of two blocks, and the value of a function body every path of which returns *)
Definition ret_seq (a b : option bool) : option bool := match a with Some r => Some r | None => b end.
Definition ret_val (a : option bool) : bool := match a with Some r => r | None => false end.
