(** IO: executable model of dynetx.readwrite (edge lists: snapshot and interaction formats; JSON node-link
    data) at row level and, for the readers, at text level (comment cutting, stripping, splitting, field count,
    decimal conversion) for single-character comment markers / delimiters and integer fields. *)
From DynVerif Require Import Base Graph Derived Annotate.

(** * Row level *)
Definition srow := (Z * Z * Z * option Z)%type.        (* u v t [e] *)
Definition irow := (Z * Z * bool * Z)%type.            (* u v op t   (op: true = '+') *)

(** generate_snapshots: one row per pair and per instant of each run *)
Definition gen_snapshots (g : graph) : list (Z * Z * Z) :=
  flat_map (fun pr => let '((u, v), tl) := pr in
              flat_map (fun r => map (fun t => (u, v, t)) (zrange_incl (fst r) (snd r))) tl)
           (flat_interactions g).

Inductive rd := RdOk (g : graph) | RdErr (o : outcome).

Fixpoint parse_snapshots_from (g : graph) (rows : list srow) : rd :=
  match rows with
  | [] => RdOk g
  | (u, v, t, e) :: r =>
      match add_interaction g u v (Some t) e with
      | (g', Done) => parse_snapshots_from g' r
      | (_, o) => RdErr o
      end
  end.
Definition parse_snapshots (dir : bool) (rows : list srow) : rd := parse_snapshots_from (empty_graph dir true) rows.

(** generate_interactions: the stream, in order *)
Definition gen_interactions (g : graph) : list irow :=
  map (fun e => match e with (t, (u, v), op) => (u, v, op, t) end) (stream g).

(** parse_interactions: '+' -> point add; anything else at s -> the pair stays present from the start of its
    latest run through s-1 (one interval add); a '-' for a pair without adjacency entry is a KeyError *)
Fixpoint parse_interactions_from (g : graph) (rows : list irow) : rd :=
  match rows with
  | [] => RdOk g
  | (u, v, op, s) :: r =>
      if op then
        match add_interaction g u v (Some s) None with
        | (g', Done) => parse_interactions_from g' r
        | (_, o) => RdErr o
        end
      else
        match aget peqb (nk (g_dir g) u v) (g_edges g) with
        | None => RdErr EKey
        | Some ((a, b), _) =>
            if b <? s then
              match add_interaction g u v (Some a) (Some s) with
              | (g', Done) => parse_interactions_from g' r
              | (_, o) => RdErr o
              end
            else parse_interactions_from g r
        end
  end.
Definition parse_interactions (dir : bool) (rows : list irow) : rd := parse_interactions_from (empty_graph dir true) rows.

(** * JSON node-link data *)
Record nldata := mkNL {
  nl_directed : option bool;          (* the 'directed' entry, if the data says *)
  nl_graph : Z;
  nl_nodes : list (Z * Z);
  nl_links : list (Z * Z * Z)
}.
Definition node_link_data (g : graph) : nldata :=
  mkNL (Some (g_dir g)) (g_attr g) (g_nodes g) (gen_snapshots g).

Fixpoint add_links (g : graph) (l : list (Z * Z * Z)) : rd :=
  match l with
  | [] => RdOk g
  | (u, v, t) :: r =>
      match add_interaction g u v (Some t) None with
      | (g', Done) => add_links g' r
      | (_, o) => RdErr o
      end
  end.
Definition node_link_graph (d : nldata) (directed_arg : bool) : rd :=
  let dir := match nl_directed d with Some b => b | None => directed_arg end in
  let g0 := with_attr (empty_graph dir true) (nl_graph d) in
  let g1 := fold_left (fun g na => add_node g (fst na) (snd na)) (nl_nodes d) g0 in
  add_links g1 (nl_links d).

(** * Text level (readers) *)
Definition line := list Z.       (* character codes *)
Definition is_ws (c : Z) : bool := (c =? 32) || ((9 <=? c) && (c <=? 13)) || ((28 <=? c) && (c <=? 31)).

(** line[:line.find(marker)] *)
Fixpoint cut_comment (m : Z) (l : line) : line :=
  match l with [] => [] | c :: r => if c =? m then [] else c :: cut_comment m r end.
Fixpoint lstrip (l : line) : line := match l with c :: r => if is_ws c then lstrip r else l | [] => [] end.
Definition strip (l : line) : line := rev (lstrip (rev (lstrip l))).

(** str.split(d) for a one-character d: fields between delimiters, empty fields kept *)
Fixpoint split_on (d : Z) (l : line) (cur : line) : list line :=
  match l with
  | [] => [rev cur]
  | c :: r => if c =? d then rev cur :: split_on d r [] else split_on d r (c :: cur)
  end.
(** str.split(): maximal runs of non-whitespace *)
Fixpoint split_ws (l : line) (cur : line) : list line :=
  match l with
  | [] => match cur with [] => [] | _ => [rev cur] end
  | c :: r => if is_ws c then (match cur with [] => split_ws r [] | _ => rev cur :: split_ws r [] end)
              else split_ws r (c :: cur)
  end.
Definition split (d : option Z) (l : line) : list line :=
  match d with None => split_ws l [] | Some c => split_on c l [] end.

(** int(field): optional sign, at least one digit, surrounding whitespace allowed; anything else: TypeError
    (Python also accepts '_' between digits and non-ASCII digits: outside the model, the generators avoid them) *)
Definition is_digit (c : Z) : bool := (48 <=? c) && (c <=? 57).
Fixpoint digits_val (l : line) (acc : Z) : option Z :=
  match l with
  | [] => Some acc
  | c :: r => if is_digit c then digits_val r (10 * acc + (c - 48)) else None
  end.
Definition parse_int (f : line) : option Z :=
  match strip f with
  | [] => None
  | 45 :: r => match r with [] => None | _ => option_map Z.opp (digits_val r 0) end
  | 43 :: r => match r with [] => None | _ => digits_val r 0 end
  | l => digits_val l 0
  end.

Inductive lres (A : Type) := LSkip | LRow (x : A) | LTypeError.
Arguments LSkip {A}. Arguments LRow {A} _. Arguments LTypeError {A}.

Definition fields (m : Z) (d : option Z) (l : line) : option (list line) :=
  let l1 := cut_comment m l in
  match l1 with [] => None | _ => Some (split d (strip l1)) end.

(** one line of a snapshot file (nodetype = timestamptype = int) *)
Definition snap_line (m : Z) (d : option Z) (l : line) : lres srow :=
  match fields m d l with
  | None => LSkip
  | Some (fu :: fv :: ft :: rest) =>
      match parse_int fu, parse_int fv with
      | Some u, Some v =>
          match parse_int ft with
          | None => LTypeError
          | Some t =>
              match rest with
              | [] => LRow (u, v, t, None)
              | fe :: _ => match parse_int fe with Some e => LRow (u, v, t, Some e) | None => LTypeError end
              end
          end
      | _, _ => LTypeError
      end
  | Some _ => LSkip
  end.

(** one line of an interaction file: exactly four fields; op is '+' iff the field is the single character '+' *)
Definition int_line (m : Z) (d : option Z) (l : line) : lres irow :=
  match fields m d l with
  | None => LSkip
  | Some [fu; fv; fo; ft] =>
      match parse_int fu, parse_int fv with
      | Some u, Some v =>
          match parse_int ft with
          | None => LTypeError
          | Some t => LRow (u, v, (match fo with [43] => true | _ => false end), t)
          end
      | _, _ => LTypeError
      end
  | Some _ => LSkip
  end.

Inductive txt := TxOk (g : graph) | TxTypeError | TxErr (o : outcome).

(** the readers process the lines lazily: rows before a failing line have already been applied, but the
    exception discards the graph, so only the outcome is observable *)
Fixpoint read_snap_lines (m : Z) (d : option Z) (keys : option (list Z)) (g : graph) (ls : list line) : txt :=
  match ls with
  | [] => TxOk g
  | l :: r =>
      match snap_line m d l with
      | LSkip => read_snap_lines m d keys g r
      | LTypeError => TxTypeError
      | LRow (u, v, t, e) =>
          let conv := fun x => match keys with None => Some x | Some ks => rank_of ks x end in
          match conv t, (match e with None => Some None | Some e' => option_map Some (conv e') end) with
          | Some t', Some e' =>
              match add_interaction g u v (Some t') e' with
              | (g', Done) => read_snap_lines m d keys g' r
              | (_, o) => TxErr o
              end
          | _, _ => TxErr EKey
          end
      end
  end.

Fixpoint read_int_lines (m : Z) (d : option Z) (keys : option (list Z)) (g : graph) (ls : list line) : txt :=
  match ls with
  | [] => TxOk g
  | l :: r =>
      match int_line m d l with
      | LSkip => read_int_lines m d keys g r
      | LTypeError => TxTypeError
      | LRow (u, v, op, s0) =>
          match (match keys with None => Some s0 | Some ks => rank_of ks s0 end) with
          | None => TxErr EKey
          | Some s =>
              match parse_interactions_from g [(u, v, op, s)] with
              | RdOk g' => read_int_lines m d keys g' r
              | RdErr o => TxErr o
              end
          end
      end
  end.

(** read_ids: the timestamps the parser will look up (valid rows only) *)
Definition snap_stamps (m : Z) (d : option Z) (ls : list line) : list Z :=
  flat_map (fun l => match snap_line m d l with
                     | LRow (_, _, t, e) => t :: match e with Some e' => [e'] | None => [] end
                     | _ => [] end) ls.
Definition int_stamps (m : Z) (d : option Z) (ls : list line) : list Z :=
  flat_map (fun l => match int_line m d l with LRow (_, _, _, t) => [t] | _ => [] end) ls.
Fixpoint nodupZ (l : list Z) : list Z :=
  match l with [] => [] | x :: r => if memZ x r then nodupZ r else x :: nodupZ r end.

(** read_ids converts the timestamp fields of every row up front: an unconvertible one raises TypeError
    before any row is applied *)
Definition bad_snap_stamp (m : Z) (d : option Z) (l : line) : bool :=
  match fields m d l with
  | Some (_ :: _ :: ft :: rest) =>
      match parse_int ft with
      | None => true
      | Some _ => match rest with [] => false | fe :: _ => match parse_int fe with None => true | Some _ => false end end
      end
  | _ => false
  end.
Definition bad_int_stamp (m : Z) (d : option Z) (l : line) : bool :=
  match fields m d l with
  | Some [_; _; _; ft] => match parse_int ft with None => true | Some _ => false end
  | _ => false
  end.

Definition read_snapshots_text (dir : bool) (m : Z) (d : option Z) (keys : bool) (ls : list line) : txt :=
  if keys && existsb (bad_snap_stamp m d) ls then TxTypeError else
  read_snap_lines m d (if keys then Some (nodupZ (snap_stamps m d ls)) else None) (empty_graph dir true) ls.
Definition read_interactions_text (dir : bool) (m : Z) (d : option Z) (keys : bool) (ls : list line) : txt :=
  if keys && existsb (bad_int_stamp m d) ls then TxTypeError else
  read_int_lines m d (if keys then Some (nodupZ (int_stamps m d ls)) else None) (empty_graph dir true) ls.

(** rendering (writers): decimal digits of a Z *)
Fixpoint pos_digits (fuel : nat) (n : Z) (acc : line) : line :=
  match fuel with
  | O => acc
  | S f => if n <? 10 then (48 + n) :: acc else pos_digits f (n / 10) ((48 + n mod 10) :: acc)
  end.
Definition render_int (z : Z) : line :=
  if z <? 0 then 45 :: pos_digits (S (Z.to_nat (Z.log2 (- z)))) (- z) [] else pos_digits (S (Z.to_nat (Z.log2 z))) z [].
Fixpoint join (d : Z) (fs : list line) : line :=
  match fs with [] => [] | [f] => f | f :: r => f ++ d :: join d r end.
Definition render_snap_row (d : Z) (r : Z * Z * Z) : line :=
  join d [render_int (fst (fst r)); render_int (snd (fst r)); render_int (snd r)].
Definition render_int_row (d : Z) (r : irow) : line :=
  match r with (u, v, op, t) => join d [render_int u; render_int v; [if op then 43 else 45]; render_int t] end.
