(** Encode: the line protocol shared by the extracted OCaml driver, the vm_compute cross-check and the
    Python harness.  A case is a program: a list of operations over graph registers, each operation a
    [list Z]; running it yields one [list Z] per operation.  All decoding/encoding is done here, in
    Gallina, so the OCaml driver is a dumb pipe. *)
From Coq Require Import QArith.
From DynVerif Require Import Base Graph Derived Annotate Paths IO Stats Conformity Names.
#[local] Open Scope Z_scope.

Definition oz (has x : Z) : option Z := if has =? 0 then None else Some x.
Definition zb (b : bool) : Z := if b then 1 else 0.
Definition bz (x : Z) : bool := negb (x =? 0).

Definition out_code (o : outcome) : Z :=
  match o with Done => 0 | EValue => 1 | ENetworkX => 2 | ENotImplemented => 3 | EKey => 4 | EFrozen => 5 end.

Fixpoint pairs_of (l : list Z) : list (Z * Z) :=
  match l with a :: b :: r => (a, b) :: pairs_of r | _ => [] end.
Definition flat_pairs (l : list (Z * Z)) : list Z := flat_map (fun p => [fst p; snd p]) l.
Definition enc_opt_list (o : option (list Z)) : list Z :=
  match o with None => [-1] | Some l => 0 :: l end.
(** nbunch: [] after flag 0 = None; flag 1 = the listed nodes *)
Definition dec_nb (flag : Z) (l : list Z) : option (list Z) := if flag =? 0 then None else Some l.

(** (u, v, timeline) triples: u v n s1 e1 ... sn en *)
Definition enc_inter (g : graph) (withtl : bool) (l : list (Z * Z)) : list Z :=
  flat_map (fun p =>
     if withtl then
       let tl := timeline_of g (fst p) (snd p) in
       fst p :: snd p :: Z.of_nat (length tl) :: flat_pairs tl
     else [fst p; snd p]) l.

Definition enc_event (e : event) : list Z :=
  match e with (t, (u, v), op) => [u; v; zb op; t] end.

Fixpoint sorted_evs (l : list event) : bool :=
  match l with
  | x :: ((y :: _) as r) => (ev_time x <=? ev_time y) && sorted_evs r
  | _ => true
  end.
Fixpoint nodup_evs (l : list event) : bool :=
  match l with
  | [] => true
  | (t, k, op) :: r => negb (has_event t k op r) && nodup_evs r
  end.

(** paths: n, then per path: len, (u v t)* *)
Definition enc_path (p : path) : list Z :=
  Z.of_nat (length p) :: flat_map (fun h => [fst (fst h); snd (fst h); snd h]) p.
Definition enc_paths (l : list path) : list Z := Z.of_nat (length l) :: flat_map enc_path l.
Definition enc_occ (root : Z) (o : occ) : list Z :=
  match o with Root => [root; -1000000] | Occ n t => [n; t] end.
Definition enc_dag (root : Z) (d : dag) : list Z :=
  0 :: Z.of_nat (length (d_edges d)) :: flat_map (fun e => enc_occ root (fst e) ++ enc_occ root (snd e)) (d_edges d)
  ++ Z.of_nat (length (d_sources d)) :: flat_map (enc_occ root) (d_sources d)
  ++ Z.of_nat (length (d_targets d)) :: flat_map (enc_occ root) (d_targets d).
Fixpoint take_hops (n : nat) (l : list Z) : path * list Z :=
  match n with
  | O => ([], l)
  | S m => match l with
           | a :: b :: t :: r => let '(p, rest) := take_hops m r in ((a, b, t) :: p, rest)
           | _ => ([], [])
           end
  end.
(** list of paths: (len, hops...)* ; fuel bounds the number of paths *)
Fixpoint dec_paths (fuel : nat) (l : list Z) : list path :=
  match fuel with
  | O => []
  | S f => match l with
           | [] => []
           | n :: r => let '(p, rest) := take_hops (Z.to_nat n) r in p :: dec_paths f rest
           end
  end.
Definition enc_annotated (a : annotated) : list Z :=
  enc_paths (a_shortest a) ++ enc_paths (a_fastest a) ++ enc_paths (a_foremost a)
  ++ enc_paths (a_fastest_shortest a) ++ enc_paths (a_shortest_fastest a).

Fixpoint triples_of (l : list Z) : list (Z * Z * Z) :=
  match l with a :: b :: c :: r => (a, b, c) :: triples_of r | _ => [] end.
(** snapshot rows: u v t he e *)
Fixpoint dec_srows (fuel : nat) (l : list Z) : list srow :=
  match fuel with
  | O => []
  | S f => match l with
           | u :: v :: t :: he :: e :: r => (u, v, t, oz he e) :: dec_srows f r
           | _ => []
           end
  end.
Fixpoint dec_irows (l : list Z) : list irow :=
  match l with u :: v :: op :: t :: r => (u, v, bz op, t) :: dec_irows r | _ => [] end.
(** lines: (len, codes...)* *)
Fixpoint dec_lines (fuel : nat) (l : list Z) : list line :=
  match fuel with
  | O => []
  | S f => match l with
           | [] => []
           | n :: r => firstn (Z.to_nat n) r :: dec_lines f (skipn (Z.to_nat n) r)
           end
  end.

(** label tables: a sequence of [len; node; value; node; value; ...] blocks *)
Fixpoint dec_tabs (fuel : nat) (l : list Z) : list labtab :=
  match fuel with
  | O => []
  | S f => match l with
           | [] => []
           | n :: r => pairs_of (firstn (2 * Z.to_nat n) r) :: dec_tabs f (skipn (2 * Z.to_nat n) r)
           end
  end.
(** conformity result: -2 None, -1 ValueError, else a sequence of [stamp; alpha; profile_index; node; num; den] *)
Definition enc_conf (stamp : Z) (c : conf_res) : list Z :=
  match c with
  | ConfNone => [-2]
  | ConfValueError => [-1]
  | ConfOk l =>
      flat_map (fun ap => let '(alpha, profs) := ap in
         concat (map (fun ip => let '(i, nodes) := ip in
                   flat_map (fun nq => [stamp; alpha; i; fst nq; Qnum (snd nq); Zpos (Qden (snd nq))]) nodes)
                 (combine (zrange 0 (length profs)) profs))) l
  end.

Definition regs := list graph.
Definition getr (rs : regs) (r : Z) : graph := nth (Z.to_nat r) rs (empty_graph false true).
Fixpoint setr_nat (rs : regs) (n : nat) (g : graph) : regs :=
  match n, rs with
  | O, [] => [g]
  | O, _ :: t => g :: t
  | S m, [] => empty_graph false true :: setr_nat [] m g
  | S m, h :: t => h :: setr_nat t m g
  end.
Definition setr (rs : regs) (r : Z) (g : graph) : regs := setr_nat rs (Z.to_nat r) g.

Definition set_opt (rs : regs) (r : Z) (og : option graph) : regs :=
  match og with Some g => setr rs r g | None => rs end.

(** one operation *)
Definition step_op (rs : regs) (op : list Z) : regs * list Z :=
  match op with
  (* --- construction / mutation --- *)
  | 0 :: r :: dir :: rem :: _ => (setr rs r (empty_graph (bz dir) (bz rem)), [])
  | 1 :: r :: u :: v :: ht :: t :: he :: e :: _ =>
      let '(g', o) := add_interaction (getr rs r) u v (oz ht t) (oz he e) in (setr rs r g', [out_code o])
  | 2 :: r :: n :: a :: _ =>
      let g := getr rs r in
      if g_frozen g then (rs, [out_code EFrozen]) else (setr rs r (add_node g n a), [0])
  | 3 :: r :: kind :: ht :: t :: he :: e :: l =>
      let g := getr rs r in
      (* kinds 5, 6, 7: the module-level helpers dn.add_path / add_star / add_cycle, which pass a vanishing time on *)
      let es := if kind =? 0 then pairs_of l else if (kind =? 1) || (kind =? 5) then path_pairs l
                else if (kind =? 2) || (kind =? 6) then star_pairs l else cycle_pairs l in
      let '(g', o) := add_interactions_from g es (oz ht t) (if (kind =? 0) || (5 <=? kind) then oz he e else None) in
      (setr rs r g', [out_code o])
  | 4 :: r :: kind :: _ =>
      let g := getr rs r in
      if g_frozen g then (rs, [out_code EFrozen])
      else (setr rs r (if kind =? 0 then clear g else clear_edges g), [0])
  | 41 :: r :: _ => (setr rs r (with_frozen (getr rs r) true), [])
  (* an inherited networkx callable: blocked ones raise NetworkXNotImplemented, the others are queries, views or
     factories; neither changes the graph (the harness maps add_node / clear / ... to their own operations) *)
  | 42 :: r :: blocked :: _ => (rs, [if blocked =? 0 then 0 else if blocked =? 2 then out_code EFrozen else out_code ENotImplemented])
  | 5 :: r :: n :: _ =>
      (* poke: mutate (in place) the attribute values of node n and of the graph in register r *)
      let g := getr rs r in
      let g1 := if amem Z.eqb n (g_nodes g) then with_nodes g (aset Z.eqb n 777 (g_nodes g)) else g in
      (setr rs r (with_attr g1 777), [])
  | 6 :: r :: a :: _ => (setr rs r (with_attr (getr rs r) a), [])
  (* --- queries --- *)
  | 10 :: r :: u :: v :: ht :: t :: _ => (rs, [zb (has_interaction (getr rs r) u v (oz ht t))])
  | 11 :: r :: kind :: n :: ht :: t :: _ =>
      let g := getr rs r in
      let res := if kind =? 0 then neighbors g n (oz ht t)
                 else if kind =? 1 then predecessors g n (oz ht t)
                 else if kind =? 2 then all_neighbors g n (oz ht t)
                 else non_neighbors g n (oz ht t) in
      (rs, enc_opt_list res)
  | 12 :: r :: kind :: ht :: t :: nbf :: nb =>
      (rs, flat_pairs (degree_dict (getr rs r) kind (dec_nb nbf nb) (oz ht t)))
  | 13 :: r :: kind :: ht :: t :: nbf :: nb =>
      let g := getr rs r in
      let l := if kind =? 0 then interactions g (dec_nb nbf nb) (oz ht t)
               else if kind =? 1 then in_interactions g (dec_nb nbf nb) (oz ht t)
               else out_interactions g (dec_nb nbf nb) (oz ht t) in
      (rs, enc_inter g (ht =? 0) l)
  | 14 :: r :: ht :: t :: _ =>
      let g := getr rs r in
      (rs, match oz ht t with
           | None => flat_pairs (g_nodes g)
           | Some x => flat_map (fun n => [n; match aget Z.eqb n (g_nodes g) with Some a => a | None => 0 end]) (nodes_at g x)
           end)
  | 15 :: r :: n :: ht :: t :: _ => (rs, [zb (has_node (getr rs r) n (oz ht t))])
  | 16 :: r :: ht :: t :: _ => (rs, [number_of_nodes (getr rs r) (oz ht t)])
  | 17 :: r :: huv :: u :: v :: ht :: t :: _ =>
      (rs, match number_of_interactions (getr rs r) (if huv =? 0 then None else Some (u, v)) (oz ht t) with
           | Some x => [x] | None => [-1] end)
  | 18 :: r :: ht :: t :: _ => (rs, [size (getr rs r) (oz ht t)])
  | 19 :: r :: _ => (rs, snapshot_ids (getr rs r))
  | 20 :: r :: ht :: t :: _ =>
      let g := getr rs r in
      (rs, match oz ht t with
           | Some x => [fst (interactions_per_snapshot g x)]
           | None => flat_pairs (g_snaps g)
           end)
  | 21 :: r :: _ => (rs, flat_map enc_event (stream (getr rs r)))
  | 22 :: r :: n :: _ => (rs, node_snapshots (getr rs r) n)
  | 23 :: r :: ht :: t :: _ => let d := density (getr rs r) (oz ht t) in (rs, [fst d; snd d])
  | 24 :: r :: ht :: t :: _ => (rs, degree_histogram (getr rs r) (oz ht t))
  | 25 :: r :: _ => (rs, [zb (is_empty (getr rs r))])
  | 26 :: r :: ht :: t :: _ => (rs, flat_pairs (non_interactions (getr rs r) (oz ht t)))
  | 27 :: r :: _ => let d := avg_number_of_nodes (getr rs r) in (rs, [fst d; snd d])
  | 29 :: r :: _ =>
      let st := stream (getr rs r) in
      (rs, [zb (sorted_evs st); zb (nodup_evs st)])
  | 28 :: r :: _ => let g := getr rs r in (rs, [zb (g_dir g); zb (g_rem g); g_attr g; zb (g_frozen g)])
  (* --- derived graphs --- *)
  | 30 :: src :: dst :: a :: hb :: b :: _ =>
      let '(og, o) := time_slice (getr rs src) a (oz hb b) in (set_opt rs dst og, [out_code o])
  | 31 :: src :: dst :: _ =>
      let '(og, o) := to_directed (getr rs src) in (set_opt rs dst og, [out_code o])
  | 32 :: src :: dst :: recip :: _ =>
      let '(og, o) := to_undirected (getr rs src) (bz recip) in (set_opt rs dst og, [out_code o])
  (* --- paths --- *)
  | 60 :: r :: u :: hv :: v :: hs :: s :: he :: e :: _ =>
      (rs, match temporal_dag (getr rs r) u (oz hv v) (oz hs s) (oz he e) with
           | DagValueError => [-1]
           | DagOk d => enc_dag u d
           end)
  | 61 :: r :: u :: hv :: v :: hs :: s :: he :: e :: _ =>
      (rs, match time_respecting_paths (getr rs r) u (oz hv v) (oz hs s) (oz he e) with
           | PathsValueError => [-1]
           | PathsOk l => enc_paths l
           end)
  | 62 :: r :: hs :: s :: he :: e :: hm :: m :: _ =>
      (rs, match all_time_respecting_paths (getr rs r) (oz hs s) (oz he e) (oz hm m) with
           | None => [-1]
           | Some l => enc_paths (flat_map snd l)
           end)
  (* sample < 1 draws source/target pairs at random (numpy): not modelled; the implementation side checks the subset relation *)
  | 65 :: _ => (rs, [1])
  (* multi-megabyte file round trips: checked on the implementation side only (sizes no list-based model can run) *)
  | 67 :: _ => (rs, [1])
  | 63 :: l => (rs, enc_annotated (annotate_paths (dec_paths (S (length l)) l)))
  | 64 :: l => (rs, flat_pairs (compact_timeslot l))
  (* occurrence names: [66; t; |u|; u...; v...] -> name of (u,t), name of (v,t), node decoded from the first,
     (node, time) decoded from the second; each text as length :: codes *)
  | 66 :: t :: nu :: l =>
      let u := firstn (Z.to_nat nu) l in
      let v := skipn (Z.to_nat nu) l in
      let enc := fun (x : line) => Z.of_nat (length x) :: x in
      (rs, enc (occ_name u t) ++ enc (occ_name v t) ++
           (match decode_name (occ_name u t) with Some (n, _) => 1 :: enc n | None => [0] end) ++
           (match decode_name (occ_name v t) with Some (n, t') => 1 :: t' :: enc n | None => [0] end) ++
           (match name_node (occ_name v t) with Some n => 1 :: enc n | None => [0] end))
  (* --- readers / writers --- *)
  | 70 :: r :: _ => (rs, flat_map (fun x => [fst (fst x); snd (fst x); snd x]) (gen_snapshots (getr rs r)))
  | 71 :: dst :: dir :: l =>
      (match parse_snapshots (bz dir) (dec_srows (S (length l)) l) with
       | RdOk g => (setr rs dst g, [0])
       | RdErr o => (rs, [out_code o])
       end)
  | 72 :: r :: _ => (rs, flat_map (fun x => match x with (u, v, op, t) => [u; v; zb op; t] end) (gen_interactions (getr rs r)))
  | 73 :: dst :: dir :: l =>
      (match parse_interactions (bz dir) (dec_irows l) with
       | RdOk g => (setr rs dst g, [0])
       | RdErr o => (rs, [out_code o])
       end)
  | 74 :: r :: _ =>
      let d := node_link_data (getr rs r) in
      (rs, zb (match nl_directed d with Some b => b | None => false end) :: nl_graph d :: Z.of_nat (length (nl_nodes d))
           :: flat_pairs (nl_nodes d) ++ flat_map (fun x => [fst (fst x); snd (fst x); snd x]) (nl_links d))
  | 75 :: dst :: hasdir :: dirflag :: dirarg :: ga :: nn :: l =>
      let nodes := pairs_of (firstn (2 * Z.to_nat nn) l) in
      let links := triples_of (skipn (2 * Z.to_nat nn) l) in
      (match node_link_graph (mkNL (if bz hasdir then Some (bz dirflag) else None) ga nodes links) (bz dirarg) with
       | RdOk g => (setr rs dst g, [0])
       | RdErr o => (rs, [out_code o])
       end)
  | 76 :: dst :: kind :: dir :: m :: hd :: d :: keys :: l =>
      let ls := dec_lines (S (length l)) l in
      (match (if kind =? 0 then read_snapshots_text (bz dir) m (oz hd d) (bz keys) ls
              else read_interactions_text (bz dir) m (oz hd d) (bz keys) ls) with
       | TxOk g => (setr rs dst g, [0])
       | TxTypeError => (rs, [6])
       | TxErr o => (rs, [out_code o])
       end)
  | 77 :: kind :: d :: l =>
      (* render rows as text: kind 0 snapshot rows (u v t)*, kind 1 interaction rows (u v op t)* *)
      (rs, if kind =? 0 then flat_map (fun x => let ln := render_snap_row d x in Z.of_nat (length ln) :: ln) (triples_of l)
           else flat_map (fun x => let ln := render_int_row d x in Z.of_nat (length ln) :: ln) (dec_irows l))
  | 80 :: src :: dst :: _ =>
      let g := getr rs src in
      (match parse_snapshots (g_dir g) (map (fun x => (fst (fst x), snd (fst x), snd x, None)) (gen_snapshots g)) with
       | RdOk h => (setr rs dst h, [0]) | RdErr o => (rs, [out_code o]) end)
  | 81 :: src :: dst :: _ =>
      let g := getr rs src in
      (match parse_interactions (g_dir g) (gen_interactions g) with
       | RdOk h => (setr rs dst h, [0]) | RdErr o => (rs, [out_code o]) end)
  | 82 :: src :: dst :: dirarg :: _ =>
      (match node_link_graph (node_link_data (getr rs src)) (bz dirarg) with
       | RdOk h => (setr rs dst h, [0]) | RdErr o => (rs, [out_code o]) end)
  (* --- statistics: ratios as [num; den]; [-1] = KeyError / no slice --- *)
  | 90 :: r :: which :: u :: v :: _ =>
      let g := getr rs r in
      let pr := fun (x : Z * Z) => [fst x; snd x] in
      (rs, if which =? 0 then pr (coverage g)
           else if which =? 1 then pr (node_contribution g u)
           else if which =? 2 then match edge_contribution g u v with Some x => pr x | None => [-1] end
           else if which =? 3 then pr (node_pair_uniformity g u v)
           else if which =? 4 then pr (uniformity g)
           else if which =? 5 then pr (st_density g)
           else if which =? 6 then pr (pair_density g u v)
           else if which =? 7 then pr (node_density g u)
           else if which =? 8 then match snapshot_density g u with Some x => pr x | None => [-1] end
           else node_presence g u)
  | 91 :: r :: sel :: u :: _ => (rs, flat_pairs (inter_event_time_distribution (getr rs r) sel u))
  (* --- conformity --- *)
  | 95 :: r :: sliding :: start :: delta :: ptype :: psize :: na :: l =>
      let alphas := firstn (Z.to_nat na) l in
      let tabs := dec_tabs (S (length l)) (skipn (Z.to_nat na) l) in
      let g := getr rs r in
      (rs, if sliding =? 0 then enc_conf 0 (delta_conformity g start delta alphas tabs (Z.to_nat psize) ptype)
           else flat_map (fun sc => match snd sc with ConfNone => [] | c => enc_conf (fst sc) c end)
                         (sliding_delta_conformity g delta alphas tabs (Z.to_nat psize) ptype))
  | 78 :: r :: d :: _ =>
      (rs, flat_map (fun x => let ln := render_snap_row d x in Z.of_nat (length ln) :: ln) (gen_snapshots (getr rs r)))
  | 79 :: r :: d :: _ =>
      (rs, flat_map (fun x => let ln := render_int_row d x in Z.of_nat (length ln) :: ln) (gen_interactions (getr rs r)))
  | _ => (rs, [-999])
  end.

Fixpoint run_prog_from (rs : regs) (prog : list (list Z)) : list (list Z) :=
  match prog with
  | [] => []
  | op :: r => let '(rs', out) := step_op rs op in out :: run_prog_from rs' r
  end.
Definition run_prog (prog : list (list Z)) : list (list Z) := run_prog_from [] prog.
