(** Paths: executable model of dynetx.algorithms.paths.temporal_dag, time_respecting_paths and
    all_time_respecting_paths (after the fix: commits).  The "node_time" strings of the code are modelled as
    pairs (node, time); the raw root is a separate constructor.  nx.all_simple_paths is modelled by a fuelled
    DFS (single target: yields on arrival, does not continue through the target; source = target yields the
    trivial path). *)
From DynVerif Require Import Base Graph Annotate.

Inductive occ := Root | Occ (n t : Z).
Definition occ_eqb (a b : occ) : bool :=
  match a, b with
  | Root, Root => true
  | Occ n t, Occ n' t' => (n =? n') && (t =? t')
  | _, _ => false
  end.
Definition omemb (x : occ) (l : list occ) : bool := existsb (occ_eqb x) l.
Definition oadd (x : occ) (l : list occ) : list occ := if omemb x l then l else l ++ [x].   (* dict[x] = None *)

Definition occ_node (root : Z) (o : occ) : Z := match o with Root => root | Occ n _ => n end.

Record dag := mkDag {
  d_edges : list (occ * occ);
  d_sources : list occ;
  d_targets : list occ
}.

Definition edge_eqb (a b : occ * occ) : bool := occ_eqb (fst a) (fst b) && occ_eqb (snd a) (snd b).
Definition eadd (e : occ * occ) (l : list (occ * occ)) : list (occ * occ) :=
  if existsb (edge_eqb e) l then l else l ++ [e].

(** G.neighbors(n, t) as used by temporal_dag: successors on the digraph; an unknown node gives [] on
    DynGraph (with t) -- the frontier only ever holds nodes of the graph *)
Definition nbrs_t (g : graph) (n t : Z) : list Z := nbrs_at g n (Some t).

(** the body of the loop over active occurrences, for one instant *)
Record loopst := mkLoop {
  l_edges : list (occ * occ); l_sources : list occ; l_targets : list occ;
  l_add : list occ; l_remove : list occ }.

Definition visit (g : graph) (root : Z) (v : option Z) (tid : Z) (st : loopst) (an : occ) : loopst :=
  let nbrs := map (fun n => Occ n tid) (nbrs_t g (occ_node root an) tid) in
  let tg := match v with
            | Some v' => if omemb (Occ v' tid) nbrs then oadd (Occ v' tid) (l_targets st) else l_targets st
            | None => fold_left (fun acc k => oadd k acc) nbrs (l_targets st)
            end in
  let rm := match nbrs, an with
            | [], Occ _ _ => l_remove st ++ [an]
            | _, _ => l_remove st
            end in
  match nbrs with
  | [] => mkLoop (l_edges st) (l_sources st) tg (l_add st) rm
  | _ :: _ =>
      (* the raw root is renamed to its occurrence at this instant and becomes a source *)
      let an' := match an with Root => Occ root tid | _ => an end in
      let src := match an with Root => oadd an' (l_sources st) | _ => l_sources st end in
      mkLoop (fold_left (fun acc n => eadd (an', n) acc) nbrs (l_edges st)) src tg (l_add st ++ nbrs) rm
  end.

Definition dag_step (g : graph) (root : Z) (v : option Z) (st : dag * list occ) (tid : Z) : dag * list occ :=
  let '(d, active) := st in
  let l := fold_left (visit g root v tid) active (mkLoop (d_edges d) (d_sources d) (d_targets d) [] []) in
  let active1 := fold_left (fun acc n => oadd n acc) (l_add l) active in
  let active2 := filter (fun a => negb (omemb a (l_remove l))) active1 in
  (mkDag (l_edges l) (l_sources l) (l_targets l), active2).

Inductive dag_res := DagOk (d : dag) | DagValueError.

Definition window_ids (g : graph) (start end_ : option Z) : option (list Z) :=
  let ids := snapshot_ids g in
  match ids with
  | [] => Some []
  | i0 :: _ =>
      let lo := i0 in
      let hi := last ids i0 in
      let e := match end_ with Some x => x | None => hi end in
      let s := match start with Some x => x | None => lo end in
      if (s <? lo) || (e <? s) || (hi <? e) || (hi <? s) then None
      else Some (filter (fun i => (s <=? i) && (i <=? e)) ids)
  end.

Definition temporal_dag (g : graph) (u : Z) (v : option Z) (start end_ : option Z) : dag_res :=
  match window_ids g start end_ with
  | None => DagValueError
  | Some ids => DagOk (fst (fold_left (dag_step g u v) ids (mkDag [] [] [], [Root])))
  end.

(** ** all simple paths in the DAG (fuelled DFS over occurrences) *)
Definition osuccs (E : list (occ * occ)) (x : occ) : list occ :=
  map snd (filter (fun e => occ_eqb (fst e) x) E).

Fixpoint dfs (E : list (occ * occ)) (fuel : nat) (visited : list occ) (x tgt : occ) : list (list occ) :=
  match fuel with
  | O => []
  | S f =>
      if occ_eqb x tgt then [[x]]
      else flat_map (fun y => if omemb y (x :: visited) then [] else map (cons x) (dfs E f (x :: visited) y tgt))
                    (osuccs E x)
  end.

Definition dag_nodes (E : list (occ * occ)) : list occ :=
  fold_left (fun acc e => oadd (snd e) (oadd (fst e) acc)) E [].

(** decoding a node path into hops: (node(first), node(second), time(second)) *)
Fixpoint hops_of (root : Z) (p : list occ) : path :=
  match p with
  | a :: ((b :: _) as r) =>
      (occ_node root a, occ_node root b, match b with Occ _ t => t | Root => 0 end) :: hops_of root r
  | _ => []
  end.

(** the ping-pong / same-instant filter, with its stale [s] on failure (flag stays false) *)
Fixpoint pp_ok (s : hop) (rest : path) : bool :=
  match rest with
  | [] => true
  | l :: r =>
      let '(su, sv, st) := s in
      let '(lu, lv, lt) := l in
      if ((lu =? sv) && (lv =? su)) || (lt =? st) then false else pp_ok l r
  end.
Definition keep_path (pt : path) : bool :=
  match pt with [] => false | s :: r => pp_ok s r end.

Definition all_paths_dag (root : Z) (d : dag) : list path :=
  let E := d_edges d in
  let fuel := S (length (dag_nodes E)) in
  let raw := flat_map (fun x => flat_map (fun y => map (hops_of root) (dfs E fuel [] x y)) (d_targets d)) (d_sources d) in
  dedup (filter keep_path raw) [].

(** sample < 1: numpy draws a sub-collection of the (source, target) pairs.  The draw is outside the model: it is an
    arbitrary selection [sel] on the list of pairs (a parameter of the definition, no assumption here; the theorems
    about it assume only [incl (sel l) l]). *)
Definition dag_pairs (d : dag) : list (occ * occ) :=
  flat_map (fun x => map (fun y => (x, y)) (d_targets d)) (d_sources d).
Definition all_paths_dag_sel (sel : list (occ * occ) -> list (occ * occ)) (root : Z) (d : dag) : list path :=
  let E := d_edges d in
  let fuel := S (length (dag_nodes E)) in
  let raw := flat_map (fun xy => map (hops_of root) (dfs E fuel [] (fst xy) (snd xy))) (sel (dag_pairs d)) in
  dedup (filter keep_path raw) [].

Inductive paths_res := PathsOk (l : list path) | PathsValueError.

Definition time_respecting_paths (g : graph) (u : Z) (v : option Z) (start end_ : option Z) : paths_res :=
  if negb (has_node g u start) then PathsOk []
  else match temporal_dag g u v start end_ with
       | DagValueError => PathsValueError
       | DagOk d => PathsOk (all_paths_dag u d)
       end.

Definition time_respecting_paths_sel (sel : list (occ * occ) -> list (occ * occ))
                                     (g : graph) (u : Z) (v : option Z) (start end_ : option Z) : paths_res :=
  if negb (has_node g u start) then PathsOk []
  else match temporal_dag g u v start end_ with
       | DagValueError => PathsValueError
       | DagOk d => PathsOk (all_paths_dag_sel sel u d)
       end.

(** all_time_respecting_paths: one query per node present at min_t; keyed (u, last node) -- the list of
    all (u, paths) in node order *)
Fixpoint all_trp (g : graph) (start end_ : option Z) (us : list Z) : option (list (Z * list path)) :=
  match us with
  | [] => Some []
  | u :: r =>
      match time_respecting_paths g u None start end_ with
      | PathsValueError => None
      | PathsOk l => match all_trp g start end_ r with None => None | Some rest => Some ((u, l) :: rest) end
      end
  end.
Definition all_time_respecting_paths (g : graph) (start end_ min_t : option Z) : option (list (Z * list path)) :=
  all_trp g start end_ (match min_t with None => node_ids g | Some t => nodes_at g t end).
