(** Derived graphs: time_slice, to_directed, to_undirected (mirrors the code after the fix: commits). *)
From DynVerif Require Import Base Graph.

(** interactions_iter() / out_interactions_iter() with t=None, with the timelines (chronological) *)
Definition flat_interactions (g : graph) : list ((Z * Z) * list (Z * Z)) :=
  map (fun p => (p, timeline_of g (fst p) (snd p)))
      (if g_dir g then out_interactions g None None else interactions g None None).

(** clipping one run [a,b] to the window [f,t]: the code's four-way if/elif *)
Definition clip (f t : Z) (ab : Z * Z) : option (Z * Z) :=
  let '(a, b) := ab in
  if (t <? a) || (b <? f) then None
  else if (a <=? f) && (t <=? b) then Some (f, t)
  else if (f <=? a) && (t <=? b) then Some (a, t)
  else if (a <=? f) && (b <=? t) then Some (f, b)
  else if (f <=? a) && (b <=? t) then Some (a, b)
  else None.

(** a fold of add_interaction that stops at the first exception (it propagates out of the caller) *)
Fixpoint add_runs (h : graph) (u v : Z) (runs : list (Z * Z)) : graph * outcome :=
  match runs with
  | [] => (h, Done)
  | (s, f) :: r =>
      match add_interaction h u v (Some s) (Some (f + 1)) with
      | (h', Done) => add_runs h' u v r
      | (h', o) => (h', o)
      end
  end.

Fixpoint filter_map {A B} (f : A -> option B) (l : list A) : list B :=
  match l with [] => [] | x :: r => match f x with Some y => y :: filter_map f r | None => filter_map f r end end.

Fixpoint add_all_runs (h : graph) (l : list ((Z * Z) * list (Z * Z))) : graph * outcome :=
  match l with
  | [] => (h, Done)
  | ((u, v), runs) :: r =>
      match add_runs h u v runs with
      | (h', Done) => add_all_runs h' r
      | (h', o) => (h', o)
      end
  end.

(** copy the source's attribute token onto every node of the slice *)
Definition copy_attrs (src : graph) (h : graph) : graph :=
  with_nodes h (map (fun na => (fst na, match aget Z.eqb (fst na) (g_nodes src) with Some a => a | None => 0 end))
                    (g_nodes h)).

Definition time_slice (g : graph) (t_from : Z) (t_to : option Z) : option graph * outcome :=
  let t_to' := match t_to with Some x => x | None => t_from end in
  if t_to' <? t_from then (None, EValue) else
  let h0 := empty_graph (g_dir g) true in
  match add_all_runs h0 (map (fun pr => (fst pr, filter_map (clip t_from t_to') (snd pr))) (flat_interactions g)) with
  | (h, Done) => (Some (copy_attrs g h), Done)
  | (h, o) => (None, o)
  end.

(** to_directed (DynGraph): nodes first, then every run of every pair under ONE orientation --
    the one interactions_iter yields (pinned by test_conversion); attributes deep-copied *)
Definition with_all_nodes (h : graph) (src : graph) : graph :=
  with_attr (with_nodes h (g_nodes src)) (g_attr src).

Definition to_directed (g : graph) : option graph * outcome :=
  let h0 := with_nodes (empty_graph true true) (map (fun na => (fst na, 0)) (g_nodes g)) in
  match add_all_runs h0 (flat_interactions g) with
  | (h, Done) => (Some (with_all_nodes h g), Done)
  | (h, o) => (None, o)
  end.

(** lexicographic insertion sort on runs (Python's sorted on [s, e] lists) *)
Definition run_le (x y : Z * Z) : bool := (fst x <? fst y) || ((fst x =? fst y) && (snd x <=? snd y)).
Fixpoint ins_run (x : Z * Z) (l : list (Z * Z)) : list (Z * Z) :=
  match l with [] => [x] | y :: r => if run_le x y then x :: l else y :: ins_run x r end.
Definition sort_runs (l : list (Z * Z)) : list (Z * Z) := fold_right ins_run [] l.

(** spans dict of to_undirected: key (v,u) if already present else (u,v) *)
Fixpoint collect_spans (l : list ((Z * Z) * list (Z * Z))) (acc : list ((Z * Z) * list (Z * Z)))
  : list ((Z * Z) * list (Z * Z)) :=
  match l with
  | [] => acc
  | ((u, v), runs) :: r =>
      let k := if amem peqb (v, u) acc then (v, u) else (u, v) in
      let old := match aget peqb k acc with Some x => x | None => [] end in
      collect_spans r (aset peqb k (old ++ runs) acc)
  end.

(** common instants of two runs *)
Definition inter_run (o i : Z * Z) : option (Z * Z) :=
  let lo := Z.max (fst o) (fst i) in
  let hi := Z.min (snd o) (snd i) in
  if lo <=? hi then Some (lo, hi) else None.

(** reciprocal branch: for u >= v with both u->v and v->u, add every non-empty intersection, in the
    nested-loop order; an exception inside the try block abandons the rest of that (u, v) only *)
Definition recip_pair (h : graph) (g : graph) (u v : Z) : graph :=
  match aget peqb (u, v) (g_edges g), aget peqb (v, u) (g_edges g) with
  | Some o, Some i =>
      fst (add_runs h u v (flat_map (fun oi => filter_map (fun ii => inter_run oi ii) (tl_chrono i)) (tl_chrono o)))
  | _, _ => h
  end.

Definition to_undirected (g : graph) (reciprocal : bool) : option graph * outcome :=
  let h0 := with_nodes (empty_graph false true) (map (fun na => (fst na, 0)) (g_nodes g)) in
  if reciprocal then
    let ids := node_ids g in
    let h := fold_left (fun h u => fold_left (fun h v => if v <=? u then recip_pair h g u v else h) ids h) ids h0 in
    (Some (with_all_nodes h g), Done)
  else
    match add_all_runs h0 (map (fun kr => (fst kr, sort_runs (snd kr))) (collect_spans (flat_interactions g) [])) with
    | (h, Done) => (Some (with_all_nodes h g), Done)
    | (h, o) => (None, o)
    end.
