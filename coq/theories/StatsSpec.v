(** StatsSpec: the stream-graph definitions of the temporal statistics, written over the HISTORY of accepted calls
    only (the presence relation [pres] of Spec.v) -- nothing here looks at the graph state.  T and V are passed as
    lists: the theorems of C17 instantiate them with duplicate-free enumerations of the inhabited instants and of
    the nodes, and prove that these are what [snap_keys g] / [node_ids g] are. *)
From DynVerif Require Import Base Graph Derived Spec Stats.

(** pair {u,v} present at t (undirected, removal-enabled): T_uv *)
Definition sp_pair (h : list call) (u v t : Z) : bool := pres false true h (nk false u v) t.
(** node u present at t: u is an endpoint of an interaction present at t: T_u *)
Definition sp_node (h : list call) (u t : Z) : bool :=
  existsb (fun c => ((c_u c =? u) || (c_v c =? u)) && in_span true t c) h.
(** the instant is inhabited: T *)
Definition sp_inhabited (h : list call) (t : Z) : bool := existsb (in_span true t) h.
(** u is a node of the graph: V (an accepted call names it, even with an empty span) *)
Definition sp_is_node (h : list call) (u : Z) : Prop := exists c, In c h /\ (c_u c = u \/ c_v c = u).

Definition enumerates {A} (l : list A) (P : A -> Prop) : Prop := NoDup l /\ forall x, In x l <-> P x.

Definition card (f : Z -> bool) (l : list Z) : Z := Z.of_nat (length (filter f l)).
Definition sp_both (h : list call) (u v t : Z) : bool := sp_node h u t && sp_node h v t.
Definition sp_either (h : list call) (u v t : Z) : bool := sp_node h u t || sp_node h v t.

(** coverage = sum_t |V_t| / (|T| |V|) *)
Definition sp_coverage (h : list call) (T V : list Z) : Z * Z :=
  (sumZ (map (fun t => card (fun u => sp_node h u t) V) T), Z.of_nat (length T) * Z.of_nat (length V)).
(** node_contribution u = |T_u| / |T| *)
Definition sp_node_contribution (h : list call) (T : list Z) (u : Z) : Z * Z :=
  (card (sp_node h u) T, Z.of_nat (length T)).
(** edge_contribution u v = |T_uv| / |T| *)
Definition sp_edge_contribution (h : list call) (T : list Z) (u v : Z) : Z * Z :=
  (card (sp_pair h u v) T, Z.of_nat (length T)).
(** node_pair_uniformity u v = |T_u & T_v| / |T_u u T_v| *)
Definition sp_node_pair_uniformity (h : list call) (T : list Z) (u v : Z) : Z * Z :=
  (card (sp_both h u v) T, card (sp_either h u v) T).
(** uniformity = sum_{u<v} |T_u & T_v| / sum_{u<v} |T_u u T_v|   (unordered pairs of distinct nodes) *)
Definition sp_uniformity (h : list call) (T V : list Z) : Z * Z :=
  (sumZ (map (fun p => card (sp_both h (fst p) (snd p)) T) (pairs_after V)),
   sumZ (map (fun p => card (sp_either h (fst p) (snd p)) T) (pairs_after V))).
(** density = sum_{u<v} |T_uv| / sum_{u<v} |T_u & T_v| *)
Definition sp_density (h : list call) (T V : list Z) : Z * Z :=
  (sumZ (map (fun p => card (sp_pair h (fst p) (snd p)) T) (pairs_after V)),
   sumZ (map (fun p => card (sp_both h (fst p) (snd p)) T) (pairs_after V))).
(** pair_density u v = |T_uv| / |T_u & T_v|  (0 when the denominator is 0) *)
Definition sp_pair_density (h : list call) (T : list Z) (u v : Z) : Z * Z :=
  if card (sp_both h u v) T =? 0 then (0, 1) else (card (sp_pair h u v) T, card (sp_both h u v) T).
(** node_presence u = T_u, in the order of T *)
Definition sp_node_presence (h : list call) (T : list Z) (u : Z) : list Z := filter (sp_node h u) T.
(** avg_number_of_nodes = sum_t |V_t| / |T| *)
Definition sp_avg_number_of_nodes (h : list call) (T V : list Z) : Z * Z :=
  (sumZ (map (fun t => card (fun u => sp_node h u t) V) T), Z.of_nat (length T)).
(** node_density u, as the code computes it (the sum over v ranges over ALL nodes, v = u included -- pinned by the
    baseline test_density): sum_{t in T_u} deg_t(u) / sum_{v in V} |T_u & T_v| *)
Definition sp_degree (h : list call) (V : list Z) (u t : Z) : Z := card (fun v => sp_pair h u v t) V.
Definition sp_node_density (h : list call) (T V : list Z) (u : Z) : Z * Z :=
  let num := sumZ (map (fun t => if sp_node h u t then sp_degree h V u t else 0) T) in
  let den := sumZ (map (fun v => card (sp_both h u v) T) V) in
  if den =? 0 then (0, 1) else (num, den).
(** snapshot_density t = 2 m_t / (n_t (n_t - 1)): m_t pairs present at t, n_t nodes present at t *)
Definition sp_snapshot_density (h : list call) (V : list Z) (t : Z) : Z * Z :=
  let n := card (fun u => sp_node h u t) V in
  let m := Z.of_nat (length (filter (fun p => sp_pair h (fst p) (snd p) t) (pairs_after V))) in
  if (m =? 0) || (n <=? 1) then (0, 1) else (2 * m, n * (n - 1)).
