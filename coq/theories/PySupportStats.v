(** PySupportStats: the few primitives the GENERATED file gen/PyGenStats.v (output of tools/py2gallina_stats.py)
    needs besides the model's own vocabulary.  Python sets of ints are duplicate-free lists in first-occurrence
    order; a Python dict {int: int} is an association list in insertion order ([aset]: update in place or
    append).  Definitions only: every fact about them is proved in proofs/PyGenStatsEq.v. *)
From DynVerif Require Import Base Graph Derived Stats.

(** set(l): first occurrences, in order *)
Fixpoint dedup_from (seen l : list Z) : list Z :=
  match l with
  | [] => []
  | x :: r => if memZ x seen then dedup_from seen r else x :: dedup_from (x :: seen) r
  end.
Definition dedupZ (l : list Z) : list Z := dedup_from [] l.

(** A & B, A | B on duplicate-free lists *)
Definition set_inter (a b : list Z) : list Z := filter (fun x => memZ x b) a.
Definition set_union (a b : list Z) : list Z := a ++ filter (fun x => negb (memZ x a)) b.

(** enumerate(l): (index, value) pairs, index from 0 *)
Definition enumerateZ (l : list Z) : list (Z * Z) := combine (zrange 0 (length l)) l.

(** d[k] = v on a dict {int: int} *)
Definition dict_set (d : list (Z * Z)) (k v : Z) : list (Z * Z) := aset Z.eqb k v d.
