(** Api: the operation alphabet of a dynetx graph as seen through the inherited networkx API.  Every public
    callable inherited from networkx is, on the Python side, classified by the C19 check (per run, by reflection)
    as one of: a blocked mutator / blocked view ([OpBlocked]: raises NetworkXNotImplemented), a query, view or
    factory ([OpQuery]: no effect), or one of the state-changing operations below. *)
From DynVerif Require Import Base Graph.

Inductive api_op :=
| OpAdd (u v : Z) (t e : option Z)     (* add_interaction and, element-wise, its bulk helpers *)
| OpAddNode (n a : Z)                  (* add_node / add_nodes_from / update(nodes=...) *)
| OpClear | OpClearEdges
| OpBlocked                            (* add_edge, add_edges_from, add_weighted_edges_from, update(edges), remove_*, edges_iter, in/out_edges[_iter], set/get_edge_attributes *)
| OpQuery
| OpFreeze.

Definition api_step (g : graph) (o : api_op) : graph * outcome :=
  match o with
  | OpAdd u v t e => add_interaction g u v t e      (* freeze does not block it: pinned by test_functions_directed *)
  | OpAddNode n a => if g_frozen g then (g, EFrozen) else (add_node g n a, Done)
  | OpClear => if g_frozen g then (g, EFrozen) else (clear g, Done)
  | OpClearEdges => if g_frozen g then (g, EFrozen) else (clear_edges g, Done)
  | OpBlocked => (g, ENotImplemented)
  | OpQuery => (g, Done)
  | OpFreeze => (with_frozen g true, Done)
  end.

Definition run_api (g : graph) (ops : list api_op) : graph := fold_left (fun g o => fst (api_step g o)) ops g.
