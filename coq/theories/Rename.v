(** Rename: renaming of node ids along a map [f], on graphs, paths, label tables and conformity results.
    Definitions only; the commutation facts (for strictly increasing [f]) are in proofs/Rename*.v. *)
From Coq Require Import QArith.
From DynVerif Require Import Base Graph Derived Annotate Paths Conformity.

Definition mono (f : Z -> Z) : Prop := forall x y, x < y -> f x < f y.

Definition rp (f : Z -> Z) (k : Z * Z) : Z * Z := (f (fst k), f (snd k)).
Definition ren_event (f : Z -> Z) (e : event) : event := match e with (t, k, op) => (t, rp f k, op) end.
Definition ren (f : Z -> Z) (g : graph) : graph :=
  mkG (g_dir g) (g_rem g)
      (map (fun na => (f (fst na), snd na)) (g_nodes g))
      (map (fun kt => (rp f (fst kt), snd kt)) (g_edges g))
      (map (ren_event f) (g_events g))
      (g_snaps g) (g_attr g) (g_frozen g).

Definition ren_hop (f : Z -> Z) (h : hop) : hop := match h with (a, b, t) => (f a, f b, t) end.
Definition ren_path (f : Z -> Z) (p : path) : path := map (ren_hop f) p.
Definition ren_tab (f : Z -> Z) (t : labtab) : labtab := map (fun nv => (f (fst nv), snd nv)) t.

Definition ren_paths_res (f : Z -> Z) (r : paths_res) : paths_res :=
  match r with PathsOk l => PathsOk (map (ren_path f) l) | PathsValueError => PathsValueError end.

Definition ren_conf (f : Z -> Z) (r : conf_res) : conf_res :=
  match r with
  | ConfOk l => ConfOk (map (fun ap => (fst ap, map (map (fun ns => (f (fst ns), snd ns))) (snd ap))) l)
  | other => other
  end.

(** ** Renaming along an arbitrary injective map.  An undirected pair is stored under (min, max), so after renaming
    the endpoints the key has to be re-normalised ([rk]); on the digraph [rk] is [rp].  For strictly increasing [f]
    and normalised keys, [renI] is [ren]. *)
Definition inj (f : Z -> Z) : Prop := forall x y, f x = f y -> x = y.
Definition rk (d : bool) (f : Z -> Z) (k : Z * Z) : Z * Z := nk d (f (fst k)) (f (snd k)).
Definition renI_event (d : bool) (f : Z -> Z) (e : event) : event := match e with (t, k, op) => (t, rk d f k, op) end.
Definition renI (f : Z -> Z) (g : graph) : graph :=
  mkG (g_dir g) (g_rem g)
      (map (fun na => (f (fst na), snd na)) (g_nodes g))
      (map (fun kt => (rk (g_dir g) f (fst kt), snd kt)) (g_edges g))
      (map (renI_event (g_dir g) f) (g_events g))
      (g_snaps g) (g_attr g) (g_frozen g).
(** every stored key (adjacency and event log) is in normal form: true of the empty graph and kept by every operation *)
Definition keys_norm (g : graph) : Prop :=
  (forall k tl, In (k, tl) (g_edges g) -> nk (g_dir g) (fst k) (snd k) = k) /\
  (forall t k op, In (t, k, op) (g_events g) -> nk (g_dir g) (fst k) (snd k) = k).
