(** Conformity: executable model of dynetx.algorithms.assortativity.delta_conformity / sliding_delta_conformity
    for static categorical labels without hierarchies, over exact rationals.  [alpha] is a positive integer
    exponent (the weight of rank d is 1 / d^alpha); labels are passed as tables node -> value, one per label. *)
From Coq Require Import QArith.
From DynVerif Require Import Base Graph Derived Annotate Paths.

Definition labtab := list (Z * Z).                       (* node -> label value *)
Definition lab (t : labtab) (n : Z) : Z := match aget Z.eqb n t with Some x => x | None => 0 end.

(** itertools.combinations(range(n), k), in lexicographic order *)
Fixpoint combos {A} (k : nat) (l : list A) : list (list A) :=
  match k with
  | O => [[]]
  | S k' => match l with
            | [] => []
            | x :: r => map (cons x) (combos k' r) ++ combos k r
            end
  end.
Definition profiles {A} (labels : list A) (profile_size : nat) : list (list A) :=
  flat_map (fun i => combos i labels) (seq 1 profile_size).

(** paths of u grouped by their last node (the keys (u, w) of the result dict), in order of first appearance *)
Definition last_node (p : path) : Z := snd (fst (last p (0, 0, 0))).
Fixpoint group_by_last (ps : list path) (acc : list (Z * list path)) : list (Z * list path) :=
  match ps with
  | [] => acc
  | p :: r =>
      let w := last_node p in
      let old := match aget Z.eqb w acc with Some l => l | None => [] end in
      group_by_last r (aset Z.eqb w (old ++ [p]) acc)
  end.

Definition pick (path_type : Z) (a : annotated) : list path :=
  if path_type =? 0 then a_shortest a else if path_type =? 1 then a_fastest a else if path_type =? 2 then a_foremost a
  else if path_type =? 3 then a_fastest_shortest a else a_shortest_fastest a.

(** t_distances[u]: node w <> u  ->  min hop count among the annotated paths of the chosen type *)
Definition t_distances (path_type : Z) (u : Z) (ps : list path) : list (Z * Z) :=
  flat_map (fun wl => let '(w, l) := wl in
              if w =? u then [] else
              match map path_length (pick path_type (annotate_paths l)) with
              | [] => []
              | x :: r => [(w, minZ_list x (x :: r))]
              end) (group_by_last ps []).

(** __remap_path_distances: value -> 1 + position among the sorted distinct values *)
Fixpoint dedupZ (l : list Z) : list Z :=
  match l with [] => [] | x :: r => if memZ x r then dedupZ r else x :: dedupZ r end.
Definition remap (td : list (Z * Z)) : list (Z * Z) :=
  let tids := sortZ (dedupZ (map snd td)) in
  map (fun kv => (fst kv, match index_of (snd kv) tids with Some i => Z.of_nat (S i) | None => 0 end)) td.

(** nodes at each rank, in insertion order *)
Fixpoint by_rank (sp : list (Z * Z)) (acc : list (Z * list Z)) : list (Z * list Z) :=
  match sp with
  | [] => acc
  | (n, d) :: r =>
      let old := match aget Z.eqb d acc with Some l => l | None => [] end in
      by_rank r (aset Z.eqb d (old ++ [n]) acc)
  end.

(** __label_frequency for one label *)
Definition label_factor (g : graph) (tab : labtab) (u : Z) (nodes : list Z) (tdist : list (Z * Z)) : Q :=
  let a_u := lab tab u in
  let term := fun v =>
    let a_v := lab tab v in
    let sgn := if a_u =? a_v then 1 else (-1) in
    (* the code asks for v's neighbours at the instant numbered by v's HOP COUNT (t_dist[v]) *)
    let nb := match neighbors g v (Some (match aget Z.eqb v tdist with Some x => x | None => 0 end)) with Some l => l | None => [] end in
    let same := Z.of_nat (length (filter (fun x => lab tab x =? a_v) nb)) in
    let f := if (same =? 0) then 1%Q else (same # Z.to_pos (Z.of_nat (length nb))) in
    (inject_Z sgn * f)%Q in
  (fold_left Qplus (map term nodes) 0%Q / inject_Z (Z.of_nat (length nodes)))%Q.

Definition label_frequency (g : graph) (tabs : list labtab) (u : Z) (nodes : list Z) (tdist : list (Z * Z)) : Q :=
  fold_left (fun s tab => (s * label_factor g tab u nodes tdist)%Q) tabs 1%Q.

Definition weight (alpha d : Z) : Q := (1 # Z.to_pos (Z.pow d alpha)).

(** score of node u for one profile and one alpha *)
Definition node_score (g : graph) (tabs : list labtab) (alpha : Z) (u : Z) (tdist : list (Z * Z)) : Q :=
  let sp := remap tdist in
  let ranks := by_rank sp [] in
  let raw := fold_left (fun acc dn => let '(d, nodes) := dn in
                          if d =? 0 then acc else (acc + label_frequency g tabs u nodes tdist * weight alpha d)%Q) ranks 0%Q in
  match ranks with
  | [] => raw
  | _ => let mx := maxZ 0 (map fst ranks) in
         (raw / fold_left Qplus (map (weight alpha) (zrange 1 (Z.to_nat mx))) 0%Q)%Q
  end.

Inductive conf_res := ConfNone | ConfValueError | ConfOk (l : list (Z * list (list (Z * Q)))).
(** result: per alpha, per profile (in combinations order), per node present at start: the score *)
Definition delta_conformity (dg : graph) (start delta : Z) (alphas : list Z) (tabs : list labtab)
                            (profile_size : nat) (path_type : Z) : conf_res :=
  if (length tabs <? profile_size)%nat || (length alphas =? 0)%nat || (length tabs =? 0)%nat then ConfValueError else
  let end_ := start + delta in
  match time_slice dg start (Some end_) with
  | (Some g, _) =>
      match snapshot_ids g with
      | [] => ConfNone
      | i0 :: _ =>
          let ids := snapshot_ids g in
          let mid := last ids i0 in
          match all_time_respecting_paths g (Some (Z.max start i0)) (Some (Z.min mid end_)) None with
          | None => ConfValueError
          | Some sp =>
              let us := nodes_at g start in
              let profs := profiles tabs profile_size in
              ConfOk (map (fun alpha =>
                        (alpha, map (fun prof =>
                                   map (fun u =>
                                      let ps := match aget Z.eqb u sp with Some l => l | None => [] end in
                                      (u, Qred (node_score g prof alpha u (t_distances path_type u ps)))) us) profs)) alphas)
          end
      end
  | (None, _) => ConfValueError
  end.

(** sliding_delta_conformity: for every snapshot id t with t + delta < last id, delta_conformity at t (None skipped) *)
Definition sliding_delta_conformity (dg : graph) (delta : Z) (alphas : list Z) (tabs : list labtab)
                                    (profile_size : nat) (path_type : Z) : list (Z * conf_res) :=
  let ids := snapshot_ids dg in
  let lastid := last ids 0 in
  flat_map (fun t => if t + delta <? lastid
                     then [(t + delta, delta_conformity dg t delta alphas tabs profile_size path_type)] else []) ids.
