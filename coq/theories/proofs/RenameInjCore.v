(** RenameInjCore: the graph operations and the queries of Graph.v (and Derived.time_slice) commute with the
    renaming [renI f] of node ids along an ARBITRARY INJECTIVE map [f], on graphs whose stored keys are in
    normal form ([keys_norm]).  Lifts RenameCore (strictly increasing maps). *)
From DynVerif Require Import Base Graph Derived Paths Spec Rename.
From DynVerif.proofs Require Import C01Facts RenameCore.

(** * Generic list helpers, relativised to the elements of the list *)
Section ListHelpersIn.
  Context {A B C D : Type}.

  Lemma filter_map_comm_in (h : A -> B) (p : A -> bool) (p' : B -> bool) (l : list A) :
    (forall x, In x l -> p' (h x) = p x) -> filter p' (map h l) = map h (filter p l).
  Proof.
    induction l as [|x r IH]; intros Hp; simpl; [reflexivity|].
    rewrite (Hp x) by (left; reflexivity).
    rewrite IH by (intros y Hy; apply Hp; right; assumption).
    destruct (p x); reflexivity.
  Qed.

  Lemma existsb_map_comm_in (h : A -> B) (p : A -> bool) (p' : B -> bool) (l : list A) :
    (forall x, In x l -> p' (h x) = p x) -> existsb p' (map h l) = existsb p l.
  Proof.
    induction l as [|x r IH]; intros Hp; simpl; [reflexivity|].
    rewrite (Hp x) by (left; reflexivity).
    rewrite IH by (intros y Hy; apply Hp; right; assumption).
    reflexivity.
  Qed.

  Lemma flat_map_map_comm_in (h : A -> B) (h' : C -> D) (q : A -> list C) (q' : B -> list D) (l : list A) :
    (forall x, In x l -> q' (h x) = map h' (q x)) -> flat_map q' (map h l) = map h' (flat_map q l).
  Proof.
    induction l as [|x r IH]; intros Hq; simpl; [reflexivity|].
    rewrite (Hq x) by (left; reflexivity).
    rewrite IH by (intros y Hy; apply Hq; right; assumption).
    rewrite map_app. reflexivity.
  Qed.
End ListHelpersIn.

(** * Association lists under a key map that reflects the key equality on a class [P] of keys *)
Section KeyMapRel.
  Context {K K' V : Type} (eqk : K -> K -> bool) (eqk' : K' -> K' -> bool) (h : K -> K') (P : K -> Prop).
  Context (Heq : forall a b, P a -> P b -> eqk' (h a) (h b) = eqk a b).

  Lemma aget_kmap_rel (k : K) (l : list (K * V)) :
    P k -> (forall k0 v0, In (k0, v0) l -> P k0) ->
    aget eqk' (h k) (map (fun kv => (h (fst kv), snd kv)) l) = aget eqk k l.
  Proof.
    intros Hk. induction l as [|[k0 v0] r IH]; intros Hl; simpl; [reflexivity|].
    rewrite Heq by (try assumption; apply (Hl k0 v0); left; reflexivity).
    rewrite IH by (intros k1 v1 H1; apply (Hl k1 v1); right; assumption).
    reflexivity.
  Qed.

  Lemma amem_kmap_rel (k : K) (l : list (K * V)) :
    P k -> (forall k0 v0, In (k0, v0) l -> P k0) ->
    amem eqk' (h k) (map (fun kv => (h (fst kv), snd kv)) l) = amem eqk k l.
  Proof. intros Hk Hl. unfold amem. rewrite aget_kmap_rel by assumption. reflexivity. Qed.

  Lemma aset_kmap_rel (k : K) (v : V) (l : list (K * V)) :
    P k -> (forall k0 v0, In (k0, v0) l -> P k0) ->
    aset eqk' (h k) v (map (fun kv => (h (fst kv), snd kv)) l)
    = map (fun kv => (h (fst kv), snd kv)) (aset eqk k v l).
  Proof.
    intros Hk. induction l as [|[k0 v0] r IH]; intros Hl; simpl; [reflexivity|].
    rewrite Heq by (try assumption; apply (Hl k0 v0); left; reflexivity).
    destruct (eqk k k0); simpl; [reflexivity|].
    rewrite IH by (intros k1 v1 H1; apply (Hl k1 v1); right; assumption).
    reflexivity.
  Qed.
End KeyMapRel.

(** * Normal form of keys *)
Definition knorm (d : bool) (k : Z * Z) : Prop := nk d (fst k) (snd k) = k.
Definition en {V : Type} (d : bool) (l : list ((Z * Z) * V)) : Prop := forall k tl, In (k, tl) l -> knorm d k.
Definition evn (d : bool) (evs : list event) : Prop := forall t k op, In (t, k, op) evs -> knorm d k.

Lemma keys_norm_iff g : keys_norm g <-> en (g_dir g) (g_edges g) /\ evn (g_dir g) (g_events g).
Proof. reflexivity. Qed.

Lemma nk_knorm d u v : knorm d (nk d u v).
Proof.
  unfold knorm, nk. destruct d; simpl; [reflexivity|].
  destruct (u <=? v) eqn:E; simpl.
  - rewrite E. reflexivity.
  - destruct (v <=? u) eqn:E2; [reflexivity|lia].
Qed.

Lemma knorm_false_le x y : knorm false (x, y) -> x <= y.
Proof.
  unfold knorm, nk. simpl. destruct (x <=? y) eqn:E; intros H; [lia|].
  injection H as H1 H2. lia.
Qed.

Lemma en_nil {V : Type} d : en d (@nil ((Z * Z) * V)).
Proof. intros k tl []. Qed.

Lemma evn_nil d : evn d [].
Proof. intros t k op []. Qed.

Lemma en_app_one {V : Type} d (l : list ((Z * Z) * V)) k v : en d l -> knorm d k -> en d (l ++ [(k, v)]).
Proof.
  intros Hl Hk k' v' Hin. apply in_app_or in Hin. destruct Hin as [Hin|[Hin|[]]].
  - apply (Hl k' v'). assumption.
  - inversion Hin; subst. assumption.
Qed.

Lemma en_aset {V : Type} d (l : list ((Z * Z) * V)) k v : en d l -> knorm d k -> en d (aset peqb k v l).
Proof.
  induction l as [|[k0 v0] r IH]; intros Hl Hk k' v' Hin; simpl in Hin.
  - destruct Hin as [Hin|[]]. inversion Hin; subst. assumption.
  - destruct (peqb k k0).
    + destruct Hin as [Hin|Hin].
      * inversion Hin; subst. apply (Hl k' v0). left. reflexivity.
      * apply (Hl k' v'). right. assumption.
    + destruct Hin as [Hin|Hin].
      * inversion Hin; subst. apply (Hl k' v'). left. reflexivity.
      * apply (IH (fun a b H => Hl a b (or_intror H)) Hk k' v' Hin).
Qed.

Lemma evn_add_event d t k op evs : evn d evs -> knorm d k -> evn d (add_event t k op evs).
Proof.
  intros Hl Hk. unfold add_event. destruct (existsb (ev_same t k op) evs); [assumption|].
  intros t' k' op' Hin. apply in_app_or in Hin. destruct Hin as [Hin|[Hin|[]]].
  - apply (Hl t' k' op'). assumption.
  - inversion Hin; subst. assumption.
Qed.

Lemma evn_del_event d t k op evs : evn d evs -> evn d (del_event t k op evs).
Proof.
  intros Hl t' k' op' Hin. unfold del_event in Hin. apply filter_In in Hin.
  apply (Hl t' k' op'). apply Hin.
Qed.

(** * 0. [keys_norm] is an invariant *)
Lemma keys_norm_empty d r : keys_norm (empty_graph d r).
Proof. split; [intros k tl []|intros t k op []]. Qed.

Lemma keys_norm_mk3 g X E S :
  en (g_dir g) X -> evn (g_dir g) E -> keys_norm (with_snaps (with_events (with_edges g X) E) S).
Proof. intros HX HE. split; assumption. Qed.

Lemma keys_norm_mk2 g E S :
  keys_norm g -> evn (g_dir g) E -> keys_norm (with_snaps (with_events g E) S).
Proof. intros [HX _] HE. split; assumption. Qed.

Lemma keys_norm_with_nodes g x : keys_norm g -> keys_norm (with_nodes g x).
Proof. intros H. exact H. Qed.

Lemma keys_norm_ensure_ends g u v : keys_norm g -> keys_norm (ensure_ends g u v).
Proof. intros H. exact H. Qed.

Lemma keys_norm_add g u v t e : keys_norm g -> keys_norm (fst (add_interaction g u v t e)).
Proof.
  intros Hn. unfold add_interaction. destruct t as [s|]; [|exact Hn].
  cbv zeta.
  pose proof (nk_knorm (g_dir g) u v) as Hk.
  set (k := nk (g_dir g) u v) in *.
  pose proof (keys_norm_ensure_ends g u v Hn) as Hn1.
  set (g1 := ensure_ends g u v) in *.
  assert (He1 : en (g_dir g1) (g_edges g1)) by exact (proj1 Hn1).
  assert (Hv1 : evn (g_dir g1) (g_events g1)) by exact (proj2 Hn1).
  assert (Hk1 : knorm (g_dir g1) k) by exact Hk.
  set (ff := match e with Some e' => if g_rem g then e' - 1 else s | None => s end).
  set (closing := match e with Some _ => g_rem g | None => false end).
  destruct (aget peqb k (g_edges g)) as [[[a b] older]|].
  - destruct (s <? a); [exact Hn|].
    destruct (ff <? s); [exact Hn1|].
    destruct (b + 1 <? s).
    { cbn [fst]. apply keys_norm_mk3; [apply en_aset; assumption|].
      destruct (g_rem g); destruct closing; auto using evn_add_event. }
    destruct (b <? ff).
    { cbn [fst]. apply keys_norm_mk3; [apply en_aset; assumption|].
      destruct (g_rem g && negb _); auto using evn_add_event, evn_del_event. }
    cbn [fst]. apply keys_norm_mk2; [assumption|].
    destruct (closing && (ff =? b)); auto using evn_add_event.
  - destruct (ff <? s); [exact Hn1|].
    cbn [fst]. apply keys_norm_mk3; [apply en_app_one; assumption|].
    destruct closing; auto using evn_add_event.
Qed.

Lemma keys_norm_add_node g n a : keys_norm g -> keys_norm (add_node g n a).
Proof.
  intros Hn. unfold add_node. destruct (amem Z.eqb n (g_nodes g)); [destruct (a =? 0)|]; exact Hn.
Qed.

Lemma keys_norm_add_from es : forall g t e, keys_norm g -> keys_norm (fst (add_from g es t e)).
Proof.
  induction es as [|[u v] r IH]; intros g t e Hn; simpl; [exact Hn|].
  pose proof (keys_norm_add g u v t e Hn) as H1.
  destruct (add_interaction g u v t e) as [g' o]. cbn [fst] in H1.
  destruct o; try exact H1. apply IH. exact H1.
Qed.

Lemma keys_norm_add_interactions_from g es t e :
  keys_norm g -> keys_norm (fst (add_interactions_from g es t e)).
Proof. intros Hn. unfold add_interactions_from. destruct t; [apply keys_norm_add_from|]; exact Hn. Qed.

Lemma keys_norm_run cs : forall g, keys_norm g -> keys_norm (run_calls g cs).
Proof.
  induction cs as [|c r IH]; intros g Hn; simpl; [exact Hn|].
  apply IH. unfold do_call. apply keys_norm_add. exact Hn.
Qed.

Lemma keys_norm_reach dir cs : keys_norm (run_calls (G0 dir) cs).
Proof. apply keys_norm_run. apply keys_norm_empty. Qed.

Lemma keys_norm_add_runs runs : forall h u v, keys_norm h -> keys_norm (fst (add_runs h u v runs)).
Proof.
  induction runs as [|[s e] r IH]; intros h u v Hn; simpl; [exact Hn|].
  pose proof (keys_norm_add h u v (Some s) (Some (e + 1)) Hn) as H1.
  destruct (add_interaction h u v (Some s) (Some (e + 1))) as [h' o]. cbn [fst] in H1.
  destruct o; try exact H1. apply IH. exact H1.
Qed.

Lemma keys_norm_add_all_runs l : forall h, keys_norm h -> keys_norm (fst (add_all_runs h l)).
Proof.
  induction l as [|[[u v] runs] r IH]; intros h Hn; simpl; [exact Hn|].
  pose proof (keys_norm_add_runs runs h u v Hn) as H1.
  destruct (add_runs h u v runs) as [h' o]. cbn [fst] in H1.
  destruct o; try exact H1. apply IH. exact H1.
Qed.

Lemma keys_norm_copy_attrs src h : keys_norm h -> keys_norm (copy_attrs src h).
Proof. intros H. exact H. Qed.

Lemma keys_norm_time_slice g a b H o : time_slice g a b = (Some H, o) -> keys_norm H.
Proof.
  unfold time_slice. cbv zeta.
  set (tt := match b with Some x => x | None => a end).
  destruct (tt <? a); [discriminate|].
  set (h0 := empty_graph (g_dir g) true).
  set (l := map _ (flat_interactions g)).
  pose proof (keys_norm_add_all_runs l h0 (keys_norm_empty _ _)) as H1.
  destruct (add_all_runs h0 l) as [h o']. cbn [fst] in H1.
  destruct o'; intros E; try discriminate.
  injection E as E1 E2. subst H. apply keys_norm_copy_attrs. exact H1.
Qed.

Section RenameInj.
  Variable f : Z -> Z.
  Context (Hf : inj f).

  (** * basic facts *)
  Lemma inj_eqb x y : (f x =? f y) = (x =? y).
  Proof.
    destruct (Z.eqb_spec x y) as [H|H]; destruct (Z.eqb_spec (f x) (f y)) as [H'|H']; try reflexivity; exfalso.
    - subst. congruence.
    - apply Hf in H'. congruence.
  Qed.

  (** holds for ANY [f] *)
  Lemma nk_rk d u v : nk d (f u) (f v) = rk d f (nk d u v).
  Proof.
    unfold rk, nk. destruct d; simpl; [reflexivity|].
    destruct (u <=? v); simpl; [reflexivity|].
    destruct (f u <=? f v) eqn:E1; destruct (f v <=? f u) eqn:E2; try reflexivity.
    - assert (E : f u = f v) by lia. rewrite E. reflexivity.
    - lia.
  Qed.

  Lemma rk_knorm d k : knorm d (rk d f k).
  Proof. unfold rk. apply nk_knorm. Qed.

  Lemma rk_true k : rk true f k = rp f k.
  Proof. reflexivity. Qed.

  Lemma rk_inj d a b : knorm d a -> knorm d b -> rk d f a = rk d f b -> a = b.
  Proof.
    destruct a as [a1 a2], b as [b1 b2]. destruct d.
    - intros _ _ E. unfold rk, nk in E. cbn [fst snd] in E.
      injection E as E1 E2. apply Hf in E1. apply Hf in E2. subst. reflexivity.
    - intros Ha Hb E. apply knorm_false_le in Ha. apply knorm_false_le in Hb.
      unfold rk, nk in E. cbn [fst snd] in E.
      destruct (f a1 <=? f a2); destruct (f b1 <=? f b2);
        injection E as E1 E2; apply Hf in E1; apply Hf in E2; f_equal; lia.
  Qed.

  Lemma peqb_rk d a b : knorm d a -> knorm d b -> peqb (rk d f a) (rk d f b) = peqb a b.
  Proof.
    intros Ha Hb. destruct (peqb a b) eqn:E.
    - apply peqb_eq in E. subst. apply peqb_refl.
    - apply peqb_neq. apply peqb_neq in E. intros H. apply E. apply (rk_inj d); assumption.
  Qed.

  Lemma memZ_map_inj x l : memZ (f x) (map f l) = memZ x l.
  Proof. unfold memZ. apply existsb_map_comm. intros y. apply inj_eqb. Qed.

  (** * association lists *)
  Lemma zgetI {V : Type} (n : Z) (l : list (Z * V)) :
    aget Z.eqb (f n) (map (fun na => (f (fst na), snd na)) l) = aget Z.eqb n l.
  Proof. apply (aget_kmap Z.eqb Z.eqb f inj_eqb). Qed.

  Lemma zmemI {V : Type} (n : Z) (l : list (Z * V)) :
    amem Z.eqb (f n) (map (fun na => (f (fst na), snd na)) l) = amem Z.eqb n l.
  Proof. apply (amem_kmap Z.eqb Z.eqb f inj_eqb). Qed.

  Lemma zsetI {V : Type} (n : Z) (a : V) (l : list (Z * V)) :
    aset Z.eqb (f n) a (map (fun na => (f (fst na), snd na)) l)
    = map (fun na => (f (fst na), snd na)) (aset Z.eqb n a l).
  Proof. apply (aset_kmap Z.eqb Z.eqb f inj_eqb). Qed.

  Lemma pgetI {V : Type} d (k : Z * Z) (l : list ((Z * Z) * V)) :
    knorm d k -> en d l ->
    aget peqb (rk d f k) (map (fun kt => (rk d f (fst kt), snd kt)) l) = aget peqb k l.
  Proof. apply (aget_kmap_rel peqb peqb (rk d f) (knorm d) (peqb_rk d)). Qed.

  Lemma pmemI {V : Type} d (k : Z * Z) (l : list ((Z * Z) * V)) :
    knorm d k -> en d l ->
    amem peqb (rk d f k) (map (fun kt => (rk d f (fst kt), snd kt)) l) = amem peqb k l.
  Proof. apply (amem_kmap_rel peqb peqb (rk d f) (knorm d) (peqb_rk d)). Qed.

  Lemma psetI {V : Type} d (k : Z * Z) (a : V) (l : list ((Z * Z) * V)) :
    knorm d k -> en d l ->
    aset peqb (rk d f k) a (map (fun kt => (rk d f (fst kt), snd kt)) l)
    = map (fun kt => (rk d f (fst kt), snd kt)) (aset peqb k a l).
  Proof. apply (aset_kmap_rel peqb peqb (rk d f) (knorm d) (peqb_rk d)). Qed.

  (** * projections of a renamed graph (all by computation) *)
  Lemma renI_g_dir g : g_dir (renI f g) = g_dir g. Proof. reflexivity. Qed.
  Lemma renI_g_rem g : g_rem (renI f g) = g_rem g. Proof. reflexivity. Qed.
  Lemma renI_g_nodes g : g_nodes (renI f g) = map (fun na => (f (fst na), snd na)) (g_nodes g). Proof. reflexivity. Qed.
  Lemma renI_g_edges g :
    g_edges (renI f g) = map (fun kt => (rk (g_dir g) f (fst kt), snd kt)) (g_edges g).
  Proof. reflexivity. Qed.
  Lemma renI_g_events g : g_events (renI f g) = map (renI_event (g_dir g) f) (g_events g). Proof. reflexivity. Qed.
  Lemma renI_g_snaps g : g_snaps (renI f g) = g_snaps g. Proof. reflexivity. Qed.
  Lemma renI_g_attr g : g_attr (renI f g) = g_attr g. Proof. reflexivity. Qed.
  Lemma renI_g_frozen g : g_frozen (renI f g) = g_frozen g. Proof. reflexivity. Qed.

  Lemma renI_with_nodes g x :
    renI f (with_nodes g x) = with_nodes (renI f g) (map (fun na => (f (fst na), snd na)) x).
  Proof. reflexivity. Qed.
  Lemma renI_with_edges g x :
    renI f (with_edges g x) = with_edges (renI f g) (map (fun kt => (rk (g_dir g) f (fst kt), snd kt)) x).
  Proof. reflexivity. Qed.
  Lemma renI_with_events g x :
    renI f (with_events g x) = with_events (renI f g) (map (renI_event (g_dir g) f) x).
  Proof. reflexivity. Qed.
  Lemma renI_with_snaps g x : renI f (with_snaps g x) = with_snaps (renI f g) x.
  Proof. reflexivity. Qed.
  Lemma renI_with_attr g x : renI f (with_attr g x) = with_attr (renI f g) x.
  Proof. reflexivity. Qed.
  Lemma renI_with_frozen g x : renI f (with_frozen g x) = with_frozen (renI f g) x.
  Proof. reflexivity. Qed.
  Lemma renI_mk3 g X E S :
    renI f (with_snaps (with_events (with_edges g X) E) S)
    = with_snaps (with_events (with_edges (renI f g) (map (fun kt => (rk (g_dir g) f (fst kt), snd kt)) X))
                              (map (renI_event (g_dir g) f) E)) S.
  Proof. reflexivity. Qed.
  Lemma renI_mk2 g E S :
    renI f (with_snaps (with_events g E) S)
    = with_snaps (with_events (renI f g) (map (renI_event (g_dir g) f) E)) S.
  Proof. reflexivity. Qed.

  (** * the event log *)
  Lemma renI_ev_same d t k op e :
    knorm d k -> knorm d (snd (fst e)) ->
    ev_same t (rk d f k) op (renI_event d f e) = ev_same t k op e.
  Proof. destruct e as [[t' k'] op']. simpl. intros Hk Hk'. rewrite peqb_rk by assumption. reflexivity. Qed.

  Lemma renI_has_event d t k op evs :
    knorm d k -> evn d evs ->
    has_event t (rk d f k) op (map (renI_event d f) evs) = has_event t k op evs.
  Proof.
    intros Hk Hev. unfold has_event. apply existsb_map_comm_in.
    intros [[t' k'] op'] Hin. apply renI_ev_same; [assumption|]. apply (Hev t' k' op'). assumption.
  Qed.

  Lemma renI_add_event d t k op evs :
    knorm d k -> evn d evs ->
    add_event t (rk d f k) op (map (renI_event d f) evs) = map (renI_event d f) (add_event t k op evs).
  Proof.
    intros Hk Hev. unfold add_event.
    fold (has_event t (rk d f k) op (map (renI_event d f) evs)). fold (has_event t k op evs).
    rewrite renI_has_event by assumption. destruct (has_event t k op evs); [reflexivity|].
    rewrite map_app. reflexivity.
  Qed.

  Lemma renI_del_event d t k op evs :
    knorm d k -> evn d evs ->
    del_event t (rk d f k) op (map (renI_event d f) evs) = map (renI_event d f) (del_event t k op evs).
  Proof.
    intros Hk Hev. unfold del_event. apply filter_map_comm_in.
    intros [[t' k'] op'] Hin. rewrite renI_ev_same; [reflexivity|assumption|].
    apply (Hev t' k' op'). assumption.
  Qed.

  Lemma renI_ev_time d e : ev_time (renI_event d f e) = ev_time e.
  Proof. destruct e as [[t k] op]. reflexivity. Qed.

  (** * nodes *)
  Lemma renI_ensure_node n l :
    ensure_node (f n) (map (fun na => (f (fst na), snd na)) l)
    = map (fun na => (f (fst na), snd na)) (ensure_node n l).
  Proof.
    unfold ensure_node. rewrite zmemI. destruct (amem Z.eqb n l); [reflexivity|].
    rewrite map_app. reflexivity.
  Qed.

  Lemma renI_ensure_ends g u v : ensure_ends (renI f g) (f u) (f v) = renI f (ensure_ends g u v).
  Proof.
    unfold ensure_ends. rewrite renI_with_nodes, <- !renI_ensure_node. reflexivity.
  Qed.

  (** * 1. add_interaction *)
  Lemma renI_add_interaction g u v t e :
    keys_norm g ->
    add_interaction (renI f g) (f u) (f v) t e
    = (renI f (fst (add_interaction g u v t e)), snd (add_interaction g u v t e)).
  Proof.
    intros Hn. unfold add_interaction. destruct t as [s|]; [|reflexivity].
    cbv zeta.
    rewrite renI_g_rem, renI_g_dir, nk_rk, renI_g_edges, renI_ensure_ends.
    pose proof (nk_knorm (g_dir g) u v) as Hk.
    set (k := nk (g_dir g) u v) in *.
    rewrite (pgetI (g_dir g) k (g_edges g) Hk (proj1 Hn)).
    set (g1 := ensure_ends g u v).
    assert (Hd1 : g_dir g1 = g_dir g) by reflexivity.
    assert (He1 : en (g_dir g) (g_edges g1)) by exact (proj1 Hn).
    assert (Hv1 : evn (g_dir g) (g_events g1)) by exact (proj2 Hn).
    set (ff := match e with Some e' => if g_rem g then e' - 1 else s | None => s end).
    set (closing := match e with Some _ => g_rem g | None => false end).
    destruct (aget peqb k (g_edges g)) as [[[a b] older]|].
    - destruct (s <? a); [reflexivity|].
      destruct (ff <? s); [reflexivity|].
      destruct (b + 1 <? s).
      { cbn [fst snd]. f_equal.
        rewrite renI_mk3, renI_g_snaps, renI_g_events, renI_g_edges, Hd1.
        rewrite psetI by assumption. f_equal. f_equal.
        destruct (g_rem g); destruct closing;
          repeat (rewrite renI_add_event by auto using evn_add_event); reflexivity. }
      destruct (b <? ff).
      { cbn [fst snd]. f_equal.
        rewrite renI_mk3, renI_g_snaps, renI_g_events, renI_g_edges, Hd1.
        rewrite psetI by assumption. rewrite renI_has_event by assumption. f_equal. f_equal.
        rewrite renI_del_event by assumption.
        destruct (g_rem g && negb _);
          repeat (rewrite renI_add_event by auto using evn_add_event, evn_del_event); reflexivity. }
      cbn [fst snd]. f_equal.
      rewrite renI_mk2, renI_g_snaps, renI_g_events, Hd1.
      f_equal. f_equal.
      destruct (closing && (ff =? b));
        repeat (rewrite renI_add_event by auto using evn_add_event); reflexivity.
    - destruct (ff <? s); [reflexivity|].
      cbn [fst snd]. f_equal.
      rewrite renI_mk3, renI_g_snaps, renI_g_events, renI_g_edges, Hd1.
      rewrite map_app. f_equal. f_equal.
      destruct closing;
        repeat (rewrite renI_add_event by auto using evn_add_event); reflexivity.
  Qed.

  (** * 2. add_node, empty_graph *)
  Lemma renI_add_node g n a : add_node (renI f g) (f n) a = renI f (add_node g n a).
  Proof.
    unfold add_node. rewrite renI_g_nodes, zmemI.
    destruct (amem Z.eqb n (g_nodes g)).
    - destruct (a =? 0); [reflexivity|]. rewrite renI_with_nodes, zsetI. reflexivity.
    - rewrite renI_with_nodes, map_app. reflexivity.
  Qed.

  Lemma renI_empty d r : renI f (empty_graph d r) = empty_graph d r.
  Proof. reflexivity. Qed.

  Lemma keys_norm_renI g : keys_norm g -> keys_norm (renI f g).
  Proof.
    intros _. split.
    - intros k tl Hin. rewrite renI_g_edges in Hin. apply in_map_iff in Hin.
      destruct Hin as ([k0 tl0] & E & _). inversion E; subst. apply rk_knorm.
    - intros t k op Hin. rewrite renI_g_events in Hin. apply in_map_iff in Hin.
      destruct Hin as ([[t0 k0] op0] & E & _). inversion E; subst. apply rk_knorm.
  Qed.

  (** bulk helpers *)
  Lemma renI_add_from es : forall g t e,
    keys_norm g ->
    add_from (renI f g) (map (rp f) es) t e
    = (renI f (fst (add_from g es t e)), snd (add_from g es t e)).
  Proof.
    induction es as [|[u v] r IH]; intros g t e Hn; simpl; [reflexivity|].
    rewrite renI_add_interaction by assumption.
    pose proof (keys_norm_add g u v t e Hn) as H1.
    destruct (add_interaction g u v t e) as [g' o]. cbn [fst snd] in *.
    destruct o; try reflexivity. apply IH. exact H1.
  Qed.

  Lemma renI_add_interactions_from g es t e :
    keys_norm g ->
    add_interactions_from (renI f g) (map (rp f) es) t e
    = (renI f (fst (add_interactions_from g es t e)), snd (add_interactions_from g es t e)).
  Proof. intros Hn. unfold add_interactions_from. destruct t; [apply renI_add_from; exact Hn|reflexivity]. Qed.

  (** * 3. queries *)
  Lemma renI_has_node_flat g n : keys_norm g -> has_node_flat (renI f g) (f n) = has_node_flat g n.
  Proof. intros _. unfold has_node_flat. rewrite renI_g_nodes. apply zmemI. Qed.

  Lemma renI_node_ids g : keys_norm g -> node_ids (renI f g) = map f (node_ids g).
  Proof. intros _. unfold node_ids. rewrite renI_g_nodes, !map_map. reflexivity. Qed.

  Lemma renI_node_attr g n : keys_norm g -> aget Z.eqb (f n) (g_nodes (renI f g)) = aget Z.eqb n (g_nodes g).
  Proof. intros _. rewrite renI_g_nodes. apply zgetI. Qed.

  Lemma renI_snapshot_ids g : keys_norm g -> snapshot_ids (renI f g) = snapshot_ids g.
  Proof. reflexivity. Qed.

  Lemma renI_max_id g : keys_norm g -> max_id (renI f g) = max_id g.
  Proof. reflexivity. Qed.

  Lemma renI_presence_test g tl t : keys_norm g -> presence_test (renI f g) tl t = presence_test g tl t.
  Proof. reflexivity. Qed.

  Lemma renI_window_ids g s e : keys_norm g -> window_ids (renI f g) s e = window_ids g s e.
  Proof. reflexivity. Qed.

  Lemma renI_edge_get g k :
    keys_norm g -> knorm (g_dir g) k ->
    aget peqb (rk (g_dir g) f k) (g_edges (renI f g)) = aget peqb k (g_edges g).
  Proof. intros Hn Hk. rewrite renI_g_edges. apply pgetI; [assumption|exact (proj1 Hn)]. Qed.

  Lemma renI_key_present g k t :
    keys_norm g -> knorm (g_dir g) k ->
    key_present (renI f g) (rk (g_dir g) f k) t = key_present g k t.
  Proof.
    intros Hn Hk. unfold key_present. rewrite renI_edge_get by assumption.
    destruct (aget peqb k (g_edges g)) as [tl|]; [|reflexivity].
    destruct t; reflexivity.
  Qed.

  Lemma renI_has_interaction g u v t :
    keys_norm g -> has_interaction (renI f g) (f u) (f v) t = has_interaction g u v t.
  Proof.
    intros Hn. unfold has_interaction. rewrite renI_g_dir, nk_rk.
    apply renI_key_present; [assumption|apply nk_knorm].
  Qed.

  Lemma renI_timeline_of g u v : keys_norm g -> timeline_of (renI f g) (f u) (f v) = timeline_of g u v.
  Proof.
    intros Hn. unfold timeline_of. rewrite renI_g_dir, nk_rk.
    rewrite renI_edge_get by (try assumption; apply nk_knorm). reflexivity.
  Qed.

  (** the adjacency views do not depend on the orientation of an undirected key *)
  Lemma renI_out_nbrs g n : keys_norm g -> out_nbrs (renI f g) (f n) = map f (out_nbrs g n).
  Proof.
    intros _. unfold out_nbrs. rewrite renI_g_dir, renI_g_edges.
    apply flat_map_map_comm. intros [[a b] tl]. unfold rk, nk. cbn [fst snd].
    destruct (g_dir g).
    - rewrite !inj_eqb. destruct (a =? n); reflexivity.
    - destruct (f a <=? f b); rewrite !inj_eqb;
        destruct (a =? n) eqn:Ea; destruct (b =? n) eqn:Eb; try reflexivity.
      assert (E : a = b) by lia. subst. reflexivity.
  Qed.

  Lemma renI_in_nbrs g n : keys_norm g -> in_nbrs (renI f g) (f n) = map f (in_nbrs g n).
  Proof.
    intros _. unfold in_nbrs. rewrite renI_g_dir, renI_g_edges.
    apply flat_map_map_comm. intros [[a b] tl]. unfold rk, nk. cbn [fst snd].
    destruct (g_dir g).
    - rewrite !inj_eqb. destruct (b =? n); reflexivity.
    - destruct (f a <=? f b); rewrite !inj_eqb;
        destruct (a =? n) eqn:Ea; destruct (b =? n) eqn:Eb; try reflexivity.
      assert (E : a = b) by lia. subst. reflexivity.
  Qed.

  Lemma renI_nbrs_at g n t : keys_norm g -> nbrs_at (renI f g) (f n) t = map f (nbrs_at g n t).
  Proof.
    intros Hn. unfold nbrs_at. rewrite renI_out_nbrs by assumption. apply filter_map_comm.
    intros v. apply renI_has_interaction. assumption.
  Qed.

  Lemma renI_nbrs_t g n t : keys_norm g -> nbrs_t (renI f g) (f n) t = map f (nbrs_t g n t).
  Proof. intros Hn. unfold nbrs_t. apply renI_nbrs_at. assumption. Qed.

  Lemma renI_preds_at g n t : keys_norm g -> preds_at (renI f g) (f n) t = map f (preds_at g n t).
  Proof.
    intros Hn. unfold preds_at. rewrite renI_in_nbrs by assumption. apply filter_map_comm.
    intros v. apply renI_has_interaction. assumption.
  Qed.

  Lemma renI_neighbors g n t :
    keys_norm g -> neighbors (renI f g) (f n) t = option_map (map f) (neighbors g n t).
  Proof.
    intros Hn. unfold neighbors.
    rewrite renI_has_node_flat, renI_g_dir, renI_nbrs_at by assumption.
    destruct (has_node_flat g n); [reflexivity|].
    destruct (g_dir g); [reflexivity|]. destruct t; reflexivity.
  Qed.

  Lemma renI_predecessors g n t :
    keys_norm g -> predecessors (renI f g) (f n) t = option_map (map f) (predecessors g n t).
  Proof.
    intros Hn. unfold predecessors. rewrite renI_has_node_flat, renI_preds_at by assumption.
    destruct (has_node_flat g n); reflexivity.
  Qed.

  Lemma renI_deg1 g t n : keys_norm g -> deg1 (renI f g) t (f n) = deg1 g t n.
  Proof.
    intros Hn. unfold deg1. rewrite renI_g_dir, renI_nbrs_at, renI_preds_at by assumption.
    rewrite !map_length. reflexivity.
  Qed.

  Lemma renI_in_deg1 g t n : keys_norm g -> in_deg1 (renI f g) t (f n) = in_deg1 g t n.
  Proof. intros Hn. unfold in_deg1. rewrite renI_preds_at by assumption. rewrite map_length. reflexivity. Qed.

  Lemma renI_out_deg1 g t n : keys_norm g -> out_deg1 (renI f g) t (f n) = out_deg1 g t n.
  Proof. intros Hn. unfold out_deg1. rewrite renI_nbrs_at by assumption. rewrite map_length. reflexivity. Qed.

  Lemma renI_nbunch_nodes g nb :
    keys_norm g -> nbunch_nodes (renI f g) (option_map (map f) nb) = map f (nbunch_nodes g nb).
  Proof.
    intros Hn. destruct nb as [l|]; simpl.
    - apply filter_map_comm. intros n. apply renI_has_node_flat. assumption.
    - apply renI_node_ids. assumption.
  Qed.

  Lemma renI_degree_dict g kind nb t :
    keys_norm g ->
    degree_dict (renI f g) kind (option_map (map f) nb) t
    = map (fun nd => (f (fst nd), snd nd)) (degree_dict g kind nb t).
  Proof.
    intros Hn. unfold degree_dict. rewrite renI_nbunch_nodes by assumption. rewrite !map_map. apply map_ext.
    intros n. cbn [fst snd]. rewrite renI_deg1, renI_in_deg1, renI_out_deg1 by assumption. reflexivity.
  Qed.

  Lemma renI_degree_dict_all g kind t :
    keys_norm g ->
    degree_dict (renI f g) kind None t = map (fun nd => (f (fst nd), snd nd)) (degree_dict g kind None t).
  Proof. apply (renI_degree_dict g kind None t). Qed.

  Lemma renI_size g t : keys_norm g -> size (renI f g) t = size g t.
  Proof. intros Hn. unfold size. rewrite renI_degree_dict_all by assumption. rewrite map_map. reflexivity. Qed.

  Lemma renI_nodes_at g t : keys_norm g -> nodes_at (renI f g) t = map f (nodes_at g t).
  Proof.
    intros Hn. unfold nodes_at. rewrite renI_degree_dict_all by assumption.
    rewrite (filter_map_comm (fun nd : Z * Z => (f (fst nd), snd nd)) (fun nd => 0 <? snd nd)) by reflexivity.
    rewrite !map_map. reflexivity.
  Qed.

  Lemma renI_number_of_nodes g t : keys_norm g -> number_of_nodes (renI f g) t = number_of_nodes g t.
  Proof.
    intros Hn. unfold number_of_nodes. destruct t as [x|].
    - rewrite renI_nodes_at by assumption. rewrite map_length. reflexivity.
    - rewrite renI_g_nodes, map_length. reflexivity.
  Qed.

  Lemma renI_has_node g n t : keys_norm g -> has_node (renI f g) (f n) t = has_node g n t.
  Proof.
    intros Hn. unfold has_node. rewrite renI_has_node_flat by assumption. destruct t as [x|]; [|reflexivity].
    rewrite renI_deg1 by assumption. reflexivity.
  Qed.

  Lemma renI_node_snapshots g n : keys_norm g -> node_snapshots (renI f g) (f n) = node_snapshots g n.
  Proof.
    intros Hn. unfold node_snapshots. rewrite renI_snapshot_ids by assumption. apply filter_ext.
    intros t. apply renI_has_node. assumption.
  Qed.

  (** interactions: (node, neighbour) in iteration order, mapped by [rp f] (no re-normalisation) *)
  Lemma renI_inter_loop g t todo : keys_norm g -> forall seen,
    inter_loop (renI f g) t (map f todo) (map f seen) = map (rp f) (inter_loop g t todo seen).
  Proof.
    intros Hn. induction todo as [|n r IH]; intros seen; simpl; [reflexivity|].
    rewrite map_app. f_equal.
    - rewrite renI_nbrs_at by assumption.
      rewrite (filter_map_comm f (fun v => negb (memZ v seen))) by (intros v; rewrite memZ_map_inj; reflexivity).
      rewrite !map_map. reflexivity.
    - apply (IH (n :: seen)).
  Qed.

  Lemma renI_interactions g nb t :
    keys_norm g -> interactions (renI f g) (option_map (map f) nb) t = map (rp f) (interactions g nb t).
  Proof.
    intros Hn. unfold interactions. rewrite renI_nbunch_nodes by assumption.
    apply (renI_inter_loop g t _ Hn []).
  Qed.

  Lemma renI_interactions_all g t :
    keys_norm g -> interactions (renI f g) None t = map (rp f) (interactions g None t).
  Proof. apply (renI_interactions g None t). Qed.

  Lemma renI_out_interactions g nb t :
    keys_norm g -> out_interactions (renI f g) (option_map (map f) nb) t = map (rp f) (out_interactions g nb t).
  Proof.
    intros Hn. unfold out_interactions. rewrite renI_nbunch_nodes by assumption. apply flat_map_map_comm.
    intros n. rewrite renI_nbrs_at by assumption. rewrite !map_map. reflexivity.
  Qed.

  Lemma renI_out_interactions_all g t :
    keys_norm g -> out_interactions (renI f g) None t = map (rp f) (out_interactions g None t).
  Proof. apply (renI_out_interactions g None t). Qed.

  Lemma renI_in_interactions g nb t :
    keys_norm g -> in_interactions (renI f g) (option_map (map f) nb) t = map (rp f) (in_interactions g nb t).
  Proof.
    intros Hn. unfold in_interactions. rewrite renI_nbunch_nodes by assumption. apply flat_map_map_comm.
    intros n. rewrite renI_preds_at by assumption. rewrite !map_map. reflexivity.
  Qed.

  Lemma renI_in_interactions_all g t :
    keys_norm g -> in_interactions (renI f g) None t = map (rp f) (in_interactions g None t).
  Proof. apply (renI_in_interactions g None t). Qed.

  Lemma renI_flat_interactions g :
    keys_norm g ->
    flat_interactions (renI f g) = map (fun pr => (rp f (fst pr), snd pr)) (flat_interactions g).
  Proof.
    intros Hn. unfold flat_interactions. rewrite renI_g_dir.
    destruct (g_dir g) eqn:Ed.
    - rewrite renI_out_interactions_all by assumption. rewrite !map_map. apply map_ext.
      intros [u v]. cbn [fst snd rp]. rewrite renI_timeline_of by assumption. reflexivity.
    - rewrite renI_interactions_all by assumption. rewrite !map_map. apply map_ext.
      intros [u v]. cbn [fst snd rp]. rewrite renI_timeline_of by assumption. reflexivity.
  Qed.

  (** stream: the events carry the stored (re-normalised) keys *)
  Lemma renI_ins_ev d e l :
    ins_ev (renI_event d f e) (map (renI_event d f) l) = map (renI_event d f) (ins_ev e l).
  Proof.
    induction l as [|y r IH]; simpl; [reflexivity|].
    rewrite !renI_ev_time. destruct (ev_time e <? ev_time y); simpl; [reflexivity|].
    rewrite IH. reflexivity.
  Qed.

  Lemma renI_stream_fold d l : forall acc,
    fold_left (fun acc e => ins_ev e acc) (map (renI_event d f) l) (map (renI_event d f) acc)
    = map (renI_event d f) (fold_left (fun acc e => ins_ev e acc) l acc).
  Proof.
    induction l as [|e r IH]; intros acc; simpl; [reflexivity|].
    rewrite renI_ins_ev. apply IH.
  Qed.

  Lemma renI_stream g : keys_norm g -> stream (renI f g) = map (renI_event (g_dir g) f) (stream g).
  Proof.
    intros _. unfold stream. rewrite renI_g_events. apply (renI_stream_fold (g_dir g) (g_events g) []).
  Qed.

  Lemma renI_interactions_per_snapshot g t :
    keys_norm g -> interactions_per_snapshot (renI f g) t = interactions_per_snapshot g t.
  Proof. reflexivity. Qed.

  (** the remaining queries of Graph.v *)
  Lemma renI_number_of_interactions g uv t :
    keys_norm g -> number_of_interactions (renI f g) (option_map (rp f) uv) t = number_of_interactions g uv t.
  Proof.
    intros Hn. unfold number_of_interactions. destruct uv as [[u v]|]; simpl.
    - rewrite renI_has_interaction by assumption. reflexivity.
    - rewrite renI_size by assumption. reflexivity.
  Qed.

  Lemma renI_density g t : keys_norm g -> density (renI f g) t = density g t.
  Proof.
    intros Hn. unfold density. destruct t; [reflexivity|].
    rewrite renI_number_of_nodes, renI_size, renI_g_dir by assumption. reflexivity.
  Qed.

  Lemma renI_degree_histogram g t : keys_norm g -> degree_histogram (renI f g) t = degree_histogram g t.
  Proof.
    intros Hn. unfold degree_histogram. rewrite renI_degree_dict_all by assumption.
    rewrite map_map. reflexivity.
  Qed.

  Lemma renI_is_empty g : keys_norm g -> is_empty (renI f g) = is_empty g.
  Proof. intros _. unfold is_empty. rewrite renI_g_edges. destruct (g_edges g); reflexivity. Qed.

  Lemma renI_all_neighbors g n t :
    keys_norm g -> all_neighbors (renI f g) (f n) t = option_map (map f) (all_neighbors g n t).
  Proof.
    intros Hn. unfold all_neighbors.
    rewrite renI_has_node_flat, renI_g_dir, renI_nbrs_at, renI_preds_at by assumption.
    destruct (has_node_flat g n).
    - destruct (g_dir g); simpl; [rewrite map_app|]; reflexivity.
    - destruct (g_dir g); [reflexivity|]. destruct t; reflexivity.
  Qed.

  Lemma renI_non_neighbors g n t :
    keys_norm g -> non_neighbors (renI f g) (f n) t = option_map (map f) (non_neighbors g n t).
  Proof.
    intros Hn. unfold non_neighbors. rewrite renI_all_neighbors by assumption.
    destruct (all_neighbors g n t) as [nb|]; cbn [option_map]; [|reflexivity].
    rewrite renI_node_ids by assumption. f_equal.
    apply filter_map_comm. intros x. change (f n :: map f nb) with (map f (n :: nb)).
    rewrite memZ_map_inj. reflexivity.
  Qed.

  Lemma renI_pairs_after l : pairs_after (map f l) = map (rp f) (pairs_after l).
  Proof.
    induction l as [|x r IH]; simpl; [reflexivity|].
    rewrite map_app, IH, !map_map. reflexivity.
  Qed.

  Lemma renI_non_interactions g t :
    keys_norm g -> non_interactions (renI f g) t = map (rp f) (non_interactions g t).
  Proof.
    intros Hn. unfold non_interactions. rewrite renI_node_ids by assumption. rewrite renI_pairs_after.
    apply filter_map_comm. intros [u v]. cbn [fst snd rp]. rewrite renI_has_interaction by assumption.
    reflexivity.
  Qed.

  Lemma renI_avg_number_of_nodes g : keys_norm g -> avg_number_of_nodes (renI f g) = avg_number_of_nodes g.
  Proof.
    intros Hn. unfold avg_number_of_nodes. rewrite renI_snapshot_ids by assumption. rewrite renI_g_snaps.
    f_equal. f_equal. apply map_ext. intros t. apply renI_number_of_nodes. assumption.
  Qed.

  Lemma renI_clear g : clear (renI f g) = renI f (clear g).
  Proof. reflexivity. Qed.

  Lemma renI_clear_edges g : clear_edges (renI f g) = renI f (clear_edges g).
  Proof. reflexivity. Qed.

  (** * Derived.time_slice *)
  Lemma renI_add_runs runs : forall h u v,
    keys_norm h ->
    add_runs (renI f h) (f u) (f v) runs = (renI f (fst (add_runs h u v runs)), snd (add_runs h u v runs)).
  Proof.
    induction runs as [|[s e] r IH]; intros h u v Hn; simpl; [reflexivity|].
    rewrite renI_add_interaction by assumption.
    pose proof (keys_norm_add h u v (Some s) (Some (e + 1)) Hn) as H1.
    destruct (add_interaction h u v (Some s) (Some (e + 1))) as [h' o]. cbn [fst snd] in *.
    destruct o; try reflexivity. apply IH. exact H1.
  Qed.

  Lemma renI_add_all_runs l : forall h,
    keys_norm h ->
    add_all_runs (renI f h) (map (fun pr => (rp f (fst pr), snd pr)) l)
    = (renI f (fst (add_all_runs h l)), snd (add_all_runs h l)).
  Proof.
    induction l as [|[[u v] runs] r IH]; intros h Hn; simpl; [reflexivity|].
    rewrite renI_add_runs by assumption.
    pose proof (keys_norm_add_runs runs h u v Hn) as H1.
    destruct (add_runs h u v runs) as [h' o]. cbn [fst snd] in *.
    destruct o; try reflexivity. apply IH. exact H1.
  Qed.

  Lemma renI_copy_attrs src h : copy_attrs (renI f src) (renI f h) = renI f (copy_attrs src h).
  Proof.
    unfold copy_attrs. rewrite renI_with_nodes. f_equal.
    rewrite (renI_g_nodes h), !map_map. apply map_ext.
    intros [n a]. cbn [fst snd]. rewrite renI_g_nodes, zgetI. reflexivity.
  Qed.

  Lemma renI_time_slice g a b :
    keys_norm g ->
    time_slice (renI f g) a b = (option_map (renI f) (fst (time_slice g a b)), snd (time_slice g a b)).
  Proof.
    intros Hn. unfold time_slice. cbv zeta.
    set (tt := match b with Some x => x | None => a end).
    destruct (tt <? a); [reflexivity|].
    rewrite renI_flat_interactions by assumption. rewrite renI_g_dir, map_map.
    rewrite <- (renI_empty (g_dir g) true) at 1.
    set (h0 := empty_graph (g_dir g) true).
    set (l := map (fun pr : (Z * Z) * list (Z * Z) => (fst pr, filter_map (clip a tt) (snd pr))) (flat_interactions g)).
    replace (map (fun x : (Z * Z) * list (Z * Z) =>
                    (fst (rp f (fst x), snd x), filter_map (clip a tt) (snd (rp f (fst x), snd x))))
                 (flat_interactions g))
      with (map (fun pr : (Z * Z) * list (Z * Z) => (rp f (fst pr), snd pr)) l)
      by (unfold l; rewrite map_map; reflexivity).
    rewrite renI_add_all_runs by apply keys_norm_empty.
    destruct (add_all_runs h0 l) as [h o]. cbn [fst snd].
    destruct o; try reflexivity.
    cbn [fst snd option_map]. rewrite renI_copy_attrs. reflexivity.
  Qed.

  (** * 4. the two renamings agree for strictly increasing maps *)
  Lemma rk_rp_mono d k : mono f -> knorm d k -> rk d f k = rp f k.
  Proof.
    intros Hm Hk. unfold rk. rewrite (rp_nk f Hm). rewrite Hk. reflexivity.
  Qed.

  Lemma renI_ren g : mono f -> keys_norm g -> renI f g = ren f g.
  Proof.
    intros Hm [He Hv]. unfold renI, ren. f_equal.
    - apply map_ext_in. intros [k tl] Hin. cbn [fst snd]. f_equal.
      apply rk_rp_mono; [assumption|]. apply (He k tl). assumption.
    - apply map_ext_in. intros [[t k] op] Hin. unfold renI_event, ren_event. f_equal. f_equal.
      apply rk_rp_mono; [assumption|]. apply (Hv t k op). assumption.
  Qed.
End RenameInj.

(** a strictly increasing map is injective, so RenameCore is the special case *)
Lemma mono_is_inj f : mono f -> inj f.
Proof. intros Hm x y. apply (mono_inj f Hm). Qed.

(** * Sanity examples with the injective, non-monotone map x |-> -x on an undirected graph *)
Definition negf (x : Z) : Z := - x.
Lemma negf_inj : inj negf.
Proof. intros x y. unfold negf. lia. Qed.

Definition ex_g : graph := fst (add_interaction (empty_graph false true) 1 2 (Some 0) None).

(** the plain renaming [ren] loses the edge (the key is stored under the wrong orientation) ... *)
Example ren_not_enough :
  has_interaction ex_g 1 2 None = true /\ has_interaction (ren negf ex_g) (negf 1) (negf 2) None = false.
Proof. vm_compute. split; reflexivity. Qed.

(** ... [renI] keeps it, and reports the neighbours and the (re-normalised) stream *)
Example renI_enough :
  has_interaction (renI negf ex_g) (negf 1) (negf 2) None = true
  /\ neighbors (renI negf ex_g) (negf 1) (Some 0) = Some [negf 2]
  /\ interactions (renI negf ex_g) None None = [(negf 1, negf 2)]
  /\ stream (renI negf ex_g) = [(0, (negf 2, negf 1), true)].
Proof. vm_compute. repeat split; reflexivity. Qed.

(** [keys_norm] cannot be dropped: with a key stored un-normalised the lookup lemmas fail *)
Definition ex_bad : graph := mkG false true [(1, 0); (2, 0)] [((2, 1), ((0, 0), []))] [] [(0, 2)] 0 false.
Example keys_norm_needed :
  has_interaction ex_bad 2 1 None = false /\ has_interaction (renI negf ex_bad) (negf 2) (negf 1) None = true.
Proof. vm_compute. split; reflexivity. Qed.

Print Assumptions keys_norm_empty.
Print Assumptions keys_norm_add.
Print Assumptions keys_norm_add_node.
Print Assumptions keys_norm_renI.
Print Assumptions keys_norm_reach.
Print Assumptions keys_norm_time_slice.
Print Assumptions renI_add_interaction.
Print Assumptions renI_add_node.
Print Assumptions renI_empty.
Print Assumptions renI_add_interactions_from.
Print Assumptions renI_has_node_flat.
Print Assumptions renI_has_node.
Print Assumptions renI_node_ids.
Print Assumptions renI_node_attr.
Print Assumptions renI_snapshot_ids.
Print Assumptions renI_window_ids.
Print Assumptions renI_key_present.
Print Assumptions renI_has_interaction.
Print Assumptions renI_timeline_of.
Print Assumptions renI_nbrs_at.
Print Assumptions renI_nbrs_t.
Print Assumptions renI_preds_at.
Print Assumptions renI_neighbors.
Print Assumptions renI_predecessors.
Print Assumptions renI_degree_dict.
Print Assumptions renI_nodes_at.
Print Assumptions renI_number_of_nodes.
Print Assumptions renI_node_snapshots.
Print Assumptions renI_interactions.
Print Assumptions renI_out_interactions.
Print Assumptions renI_in_interactions.
Print Assumptions renI_flat_interactions.
Print Assumptions renI_stream.
Print Assumptions renI_number_of_interactions.
Print Assumptions renI_density.
Print Assumptions renI_degree_histogram.
Print Assumptions renI_all_neighbors.
Print Assumptions renI_non_neighbors.
Print Assumptions renI_non_interactions.
Print Assumptions renI_avg_number_of_nodes.
Print Assumptions renI_add_runs.
Print Assumptions renI_add_all_runs.
Print Assumptions renI_copy_attrs.
Print Assumptions renI_time_slice.
Print Assumptions renI_ren.
