(** PathComplete: completeness of the temporal DAG built by [temporal_dag] (every genuine hop is an edge, every
    reached occurrence is a target) and of the path enumeration [all_paths_dag] (every genuine time-respecting
    hop sequence that survives the ping-pong filter is returned), for a strictly increasing window.
    C12, completeness part. *)
From DynVerif Require Import Base Graph Annotate Paths.
From DynVerif.proofs Require Import AnnotateFacts SnapInv PathFacts.
From Coq Require Import Sorting.Sorted Sorting.Permutation.

(** * specification side *)

(** x, reached at instant s (an occurrence Occ x s), is still waiting at instant t: it had a neighbour at
    every id strictly between *)
Definition alive (g : graph) (ids : list Z) (x s t : Z) : Prop :=
  forall i, In i ids -> s < i < t -> nbrs_t g x i <> [].

(** a genuine hop sequence continuing from node a, reached at instant ta *)
Fixpoint valid_from (g : graph) (ids : list Z) (a ta : Z) (p : path) : Prop :=
  match p with
  | [] => True
  | (x, y, t) :: r =>
      x = a /\ ta < t /\ In t ids /\ In y (nbrs_t g x t) /\ alive g ids a ta t /\ valid_from g ids y t r
  end.

Definition valid_path (g : graph) (ids : list Z) (u : Z) (p : path) : Prop :=
  match p with
  | [] => False
  | (x, y, t) :: r => x = u /\ In t ids /\ In y (nbrs_t g u t) /\ valid_from g ids y t r
  end.

Definition dag_of' (g : graph) (u : Z) (v : option Z) (ids : list Z) : dag :=
  fst (fold_left (dag_step g u v) ids (mkDag [] [] [], [Root])).

(** * one instant: what the loop over the active occurrences produces, exactly *)

Section OneInstantC.
Variables (g : graph) (u : Z) (v : option Z) (tid : Z).

(** [o] is a neighbour occurrence produced by visiting one of [done] *)
Definition fresh (done : list occ) (an : occ) (n : Z) : Prop :=
  In an done /\ In n (nbrs_t g (occ_node u an) tid).

Definition LC (E0 : list (occ * occ)) (T0 : list occ) (done : list occ) (st : loopst) : Prop :=
  (forall e, In e (l_edges st) <->
             In e E0 \/ exists an n, fresh done an n /\ e = (ren u tid an, Occ n tid)) /\
  (forall o, In o (l_add st) <-> exists an n, fresh done an n /\ o = Occ n tid) /\
  (forall o, In o (l_remove st) -> In o done /\ exists x s, o = Occ x s /\ nbrs_t g x tid = []) /\
  (forall o, In o T0 -> In o (l_targets st)) /\
  (forall an n, fresh done an n -> (forall v', v = Some v' -> n = v') -> In (Occ n tid) (l_targets st)).

Lemma fresh_snoc_nil done an : nbrs_t g (occ_node u an) tid = [] ->
  forall a n, fresh (done ++ [an]) a n <-> fresh done a n.
Proof.
  intros HN a n. unfold fresh. rewrite in_app_iff. simpl. split.
  - intros [[H|[<-|[]]] Hn]; [auto|]. rewrite HN in Hn. destruct Hn.
  - intros [H Hn]. auto.
Qed.

Lemma fresh_snoc done an a n :
  fresh (done ++ [an]) a n <-> fresh done a n \/ (a = an /\ In n (nbrs_t g (occ_node u an) tid)).
Proof.
  unfold fresh. rewrite in_app_iff. simpl. split.
  - intros [[H|[<-|[]]] Hn]; auto.
  - intros [[H Hn]|[-> Hn]]; auto.
Qed.

Lemma visit_LC E0 T0 done st an : LC E0 T0 done st -> LC E0 T0 (done ++ [an]) (visit g u v tid st an).
Proof.
  intros (He & Ha & Hr & Ht0 & Ht).
  destruct (nbrs_t g (occ_node u an) tid) as [|n0 r0] eqn:EN.
  - pose proof (fresh_snoc_nil done an EN) as Hf.
    rewrite visit_nil by exact EN. unfold LC; cbn [l_edges l_sources l_targets l_add l_remove].
    split; [|split; [|split; [|split]]].
    + intros e. rewrite He. split; (intros [H|(a & n & H1 & H2)]; [left; exact H|]);
        right; exists a, n; (split; [apply Hf; exact H1|exact H2]).
    + intros o. rewrite Ha. split; intros (a & n & H1 & H2); exists a, n; (split; [apply Hf; exact H1|exact H2]).
    + intros o Ho. assert (Hold : In o (l_remove st) -> In o (done ++ [an]) /\
                                   exists x s, o = Occ x s /\ nbrs_t g x tid = []).
      { intros H. destruct (Hr o H) as (H1 & H2). split; [apply in_or_app; left; exact H1|exact H2]. }
      destruct an as [|x s]; [exact (Hold Ho)|].
      apply in_app_or in Ho. destruct Ho as [Ho|[<-|[]]]; [exact (Hold Ho)|].
      split; [apply in_or_app; right; left; reflexivity|]. exists x, s. split; [reflexivity|exact EN].
    + exact Ht0.
    + intros a n Hfr Hv. apply (proj1 (Hf a n)) in Hfr. apply (Ht a n); assumption.
  - assert (HN : nbrs_t g (occ_node u an) tid <> []) by (rewrite EN; discriminate).
    rewrite visit_cons by exact HN. unfold LC; cbn [l_edges l_sources l_targets l_add l_remove].
    assert (Htm : forall o, In o (l_targets st) ->
      In o (match v with
            | Some v' => if omemb (Occ v' tid) (nb g u tid an) then oadd (Occ v' tid) (l_targets st)
                         else l_targets st
            | None => fold_left (fun acc k => oadd k acc) (nb g u tid an) (l_targets st)
            end)).
    { intros o Ho. destruct v as [v'|].
      - destruct (omemb (Occ v' tid) (nb g u tid an)); [apply oadd_In; right; exact Ho|exact Ho].
      - apply fold_oadd_In. right. exact Ho. }
    split; [|split; [|split; [|split]]].
    + intros e. rewrite fold_eadd_In, He. split.
      * intros [(o & Ho & ->)|[H|(a & n & H1 & H2)]].
        -- apply in_nb in Ho. destruct Ho as (n & -> & Hn). right. exists an, n.
           split; [apply fresh_snoc; right; auto|reflexivity].
        -- left. exact H.
        -- right. exists a, n. split; [apply fresh_snoc; left; exact H1|exact H2].
      * intros [H|(a & n & H1 & H2)]; [right; left; exact H|].
        apply fresh_snoc in H1. destruct H1 as [H1|[-> Hn]].
        -- right. right. exists a, n. auto.
        -- left. exists (Occ n tid). split; [apply in_nb; exists n; auto|exact H2].
    + intros o. rewrite in_app_iff, Ha, in_nb. split.
      * intros [(a & n & H1 & H2)|(n & -> & Hn)].
        -- exists a, n. split; [apply fresh_snoc; left; exact H1|exact H2].
        -- exists an, n. split; [apply fresh_snoc; right; auto|reflexivity].
      * intros (a & n & H1 & H2). apply fresh_snoc in H1. destruct H1 as [H1|[-> Hn]].
        -- left. exists a, n. auto.
        -- right. exists n. auto.
    + intros o Ho. destruct (Hr o Ho) as (H1 & H2). split; [apply in_or_app; left; exact H1|exact H2].
    + intros o Ho. apply Htm. apply Ht0. exact Ho.
    + intros a n Hfr Hv. apply fresh_snoc in Hfr. destruct Hfr as [Hfr|[-> Hn]].
      * apply Htm. apply (Ht a n); assumption.
      * assert (Hin : In (Occ n tid) (nb g u tid an)) by (apply in_nb; exists n; auto).
        destruct v as [v'|].
        -- rewrite (Hv v' eq_refl) in *. apply omemb_In in Hin. rewrite Hin. apply oadd_In. left. reflexivity.
        -- apply fold_oadd_In. left. exact Hin.
Qed.

Lemma visit_fold_LC E0 T0 act : forall done st, LC E0 T0 done st ->
  LC E0 T0 (done ++ act) (fold_left (visit g u v tid) act st).
Proof.
  induction act as [|a act IH]; intros done st H; cbn [fold_left].
  - rewrite app_nil_r. exact H.
  - replace (done ++ a :: act) with ((done ++ [a]) ++ act) by (rewrite <- app_assoc; reflexivity).
    apply IH. apply visit_LC. exact H.
Qed.

Lemma LC_init E0 S0 T0 : LC E0 T0 [] (mkLoop E0 S0 T0 [] []).
Proof.
  unfold LC, fresh; cbn [l_edges l_sources l_targets l_add l_remove]. split; [|split; [|split; [|split]]].
  - intros e. split; [auto|]. intros [H|(a & n & [[] _] & _)]. exact H.
  - intros o. split; [intros []|]. intros (a & n & [[] _] & _).
  - intros o [].
  - auto.
  - intros a n [[] _].
Qed.

End OneInstantC.

(** * the completeness invariant after the instants [P] have been processed *)

Section Complete.
Variables (g : graph) (u : Z) (v : option Z).

Definition J (P : list Z) (d : dag) (active : list occ) : Prop :=
  In Root active /\
  (forall w x s, In (w, Occ x s) (d_edges d) ->
     (forall i, In i P -> s < i -> nbrs_t g x i <> []) -> In (Occ x s) active) /\
  (forall t y, In t P -> In y (nbrs_t g u t) -> In (Occ u t, Occ y t) (d_edges d)) /\
  (forall w x s y t, In (w, Occ x s) (d_edges d) -> In t P -> s < t -> alive g P x s t ->
     In y (nbrs_t g x t) -> In (Occ x s, Occ y t) (d_edges d)) /\
  (forall w y t, In (w, Occ y t) (d_edges d) -> (forall v', v = Some v' -> y = v') ->
     In (Occ y t) (d_targets d)).

Lemma J_init : J [] (mkDag [] [] []) [Root].
Proof.
  unfold J; simpl. split; [auto|]. split; [intros ? ? ? []|]. split; [intros ? ? []|].
  split; [intros ? ? ? ? ? []|intros ? ? ? []].
Qed.

Lemma dag_step_J P d active tid :
  Inv g u Z.lt v P d active -> J P d active -> (forall s, In s P -> s < tid) ->
  J (P ++ [tid]) (fst (dag_step g u v (d, active) tid)) (snd (dag_step g u v (d, active) tid)).
Proof.
  intros (Ia & _ & _ & Id & _) (Ja & Jb & Jc1 & Jc2 & Jd) HP.
  assert (Hhead : forall w x s, In (w, Occ x s) (d_edges d) -> In s P).
  { intros w x s H. apply Ia in H. destruct w; simpl in H; tauto. }
  set (st0 := mkLoop (d_edges d) (d_sources d) (d_targets d) [] []).
  pose proof (visit_fold_LC g u v tid (d_edges d) (d_targets d) active [] st0
                (LC_init g u v tid _ _ _)) as HL.
  cbn [app] in HL.
  set (l := fold_left (visit g u v tid) active st0) in *.
  change (dag_step g u v (d, active) tid) with
    (mkDag (l_edges l) (l_sources l) (l_targets l),
     filter (fun a => negb (omemb a (l_remove l))) (fold_left (fun acc n => oadd n acc) (l_add l) active)).
  cbn [fst snd]. destruct HL as (Le & La & Lr & Lt0 & Lt).
  (* membership in the new active list *)
  assert (Hact : forall o, In o (filter (fun a => negb (omemb a (l_remove l)))
                                  (fold_left (fun acc n => oadd n acc) (l_add l) active)) <->
                           (In o (l_add l) \/ In o active) /\ ~ In o (l_remove l)).
  { intros o. rewrite filter_In, fold_oadd_In, negb_true_iff, omemb_nIn. tauto. }
  (* an edge of the new DAG is old, or has its head at tid and that head is queued *)
  assert (Hsplit : forall w x s, In (w, Occ x s) (l_edges l) ->
            In (w, Occ x s) (d_edges d) \/ (s = tid /\ In (Occ x s) (l_add l))).
  { intros w x s H. apply Le in H. destruct H as [H|(a & n & Hf & Heq)]; [left; exact H|].
    right. inversion Heq; subst. split; [reflexivity|]. apply La. exists a, n. auto. }
  assert (Hold : forall e, In e (d_edges d) -> In e (l_edges l)).
  { intros e H. apply Le. left. exact H. }
  (* an active occurrence with a neighbour at tid gets its edges *)
  assert (Hnew : forall an n, In an active -> In n (nbrs_t g (occ_node u an) tid) ->
            In (ren u tid an, Occ n tid) (l_edges l)).
  { intros an n H1 H2. apply Le. right. exists an, n. split; [split; assumption|reflexivity]. }
  assert (Hrm : forall x s, In (Occ x s) (l_remove l) -> In s P /\ nbrs_t g x tid = []).
  { intros x s H. destruct (Lr _ H) as (H1 & x' & s' & Heq & Hn). inversion Heq; subst x' s'.
    split; [|exact Hn]. destruct (Id _ H1) as [Hr|(x' & s' & Heq' & Hs)]; [discriminate|].
    inversion Heq'; subst. exact Hs. }
  unfold J; cbn [d_edges d_sources d_targets].
  split; [|split; [|split; [|split]]].
  - apply Hact. split; [right; exact Ja|]. intros H. destruct (Lr _ H) as (_ & x & s & Heq & _). discriminate.
  - intros w x s He Hal. apply Hact. destruct (Hsplit _ _ _ He) as [Ho|[-> Hq]].
    + pose proof (Hhead _ _ _ Ho) as Hs. split.
      * right. apply (Jb w); [exact Ho|]. intros i Hi. apply Hal. apply in_or_app. left. exact Hi.
      * intros Hr. apply Hrm in Hr. destruct Hr as [_ Hr].
        apply (Hal tid); [apply in_or_app; right; left; reflexivity|apply HP; exact Hs|exact Hr].
    + split; [left; exact Hq|]. intros Hr. apply Hrm in Hr. destruct Hr as [Hr _]. apply HP in Hr. lia.
  - intros t y Ht Hy. apply in_app_or in Ht. destruct Ht as [Ht|[<-|[]]].
    + apply Hold. apply Jc1; assumption.
    + apply (Hnew Root y); [exact Ja|exact Hy].
  - intros w x s y t He Ht Hlt Hal Hy.
    assert (Hal' : alive g P x s t).
    { intros i Hi. apply Hal. apply in_or_app. left. exact Hi. }
    destruct (Hsplit _ _ _ He) as [Ho|[-> Hq]].
    + apply in_app_or in Ht. destruct Ht as [Ht|[<-|[]]].
      * apply Hold. apply (Jc2 w); assumption.
      * apply (Hnew (Occ x s) y); [|exact Hy]. apply (Jb w); [exact Ho|].
        intros i Hi Hsi. apply Hal; [apply in_or_app; left; exact Hi|]. split; [exact Hsi|apply HP; exact Hi].
    + apply in_app_or in Ht. destruct Ht as [Ht|[<-|[]]]; [apply HP in Ht|]; lia.
  - intros w y t He Hv. apply Le in He. destruct He as [He|(a & n & Hf & Heq)].
    + apply Lt0. apply (Jd w); assumption.
    + inversion Heq; subst. eapply Lt; [exact Hf|exact Hv].
Qed.

Lemma ssorted_snoc (P : list Z) tid : StronglySorted Z.lt (P ++ [tid]) ->
  StronglySorted Z.lt P /\ forall s, In s P -> s < tid.
Proof.
  induction P as [|a P IH]; simpl; intros H.
  - split; [constructor|intros s []].
  - inversion H as [|? ? Hs Hall]; subst. destruct (IH Hs) as [H1 H2]. split.
    + constructor; [exact H1|]. rewrite Forall_forall in *. intros x Hx. apply Hall. apply in_or_app. auto.
    + intros s [<-|Hs']; [|auto]. rewrite Forall_forall in Hall. apply Hall. apply in_or_app. right. left. reflexivity.
Qed.

Lemma dag_fold_J : forall ids, StronglySorted Z.lt ids ->
  J ids (fst (fold_left (dag_step g u v) ids (mkDag [] [] [], [Root])))
        (snd (fold_left (dag_step g u v) ids (mkDag [] [] [], [Root]))).
Proof.
  induction ids as [|tid P IH] using rev_ind; intros Hs.
  - simpl. apply J_init.
  - apply ssorted_snoc in Hs. destruct Hs as [Hs HP].
    rewrite fold_left_app. cbn [fold_left].
    destruct (fold_left (dag_step g u v) P (mkDag [] [] [], [Root])) as [d active] eqn:Hf.
    apply dag_step_J; [|exact (IH Hs)|exact HP].
    apply dag_Inv_lt; assumption.
Qed.

End Complete.

(** * T1 - T3: completeness of the DAG *)

Theorem dag_source_edges g u v ids : StronglySorted Z.lt ids ->
  forall t y, In t ids -> In y (nbrs_t g u t) -> In (Occ u t, Occ y t) (d_edges (dag_of' g u v ids)).
Proof. intros Hs. destruct (dag_fold_J g u v ids Hs) as (_ & _ & H & _). exact H. Qed.

Theorem dag_inner_edges g u v ids : StronglySorted Z.lt ids ->
  forall w x s y t, In (w, Occ x s) (d_edges (dag_of' g u v ids)) -> In t ids -> s < t -> alive g ids x s t ->
    In y (nbrs_t g x t) -> In (Occ x s, Occ y t) (d_edges (dag_of' g u v ids)).
Proof. intros Hs. destruct (dag_fold_J g u v ids Hs) as (_ & _ & _ & H & _). exact H. Qed.

Theorem dag_targets_complete g u v ids : StronglySorted Z.lt ids ->
  forall w y t, In (w, Occ y t) (d_edges (dag_of' g u v ids)) -> (forall v', v = Some v' -> y = v') ->
    In (Occ y t) (d_targets (dag_of' g u v ids)).
Proof. intros Hs. destruct (dag_fold_J g u v ids Hs) as (_ & _ & _ & _ & H). exact H. Qed.

(** the frontier, exactly: a reached occurrence that has had a neighbour at every later instant is still active *)
Theorem dag_active_complete g u v ids : StronglySorted Z.lt ids ->
  forall w x s, In (w, Occ x s) (d_edges (dag_of' g u v ids)) ->
    (forall i, In i ids -> s < i -> nbrs_t g x i <> []) ->
    In (Occ x s) (snd (fold_left (dag_step g u v) ids (mkDag [] [] [], [Root]))).
Proof. intros Hs. destruct (dag_fold_J g u v ids Hs) as (_ & H & _). exact H. Qed.

(** * node paths *)

Definition head_occ (h : hop) : occ := Occ (snd (fst h)) (snd h).
Definition heads (p : path) : list occ := map head_occ p.

(** a duplicate-free list of consecutive edges is a walk to its last element *)
Lemma epath_walk E : forall q x, epath E (x :: q) -> NoDup (x :: q) -> walk E x (last (x :: q) Root) (x :: q).
Proof.
  induction q as [|y q IH]; intros x Hep Hnd.
  - simpl. constructor.
  - rewrite epath_cons2 in Hep. destruct Hep as [Hxy Hep]. inversion Hnd as [|? ? Hnx Hnd']; subst.
    rewrite last_cons2. econstructor; [exact Hxy| |apply IH; assumption].
    intros Heq. apply Hnx. rewrite Heq. clear. generalize y. induction q as [|z q IHq]; intros y0.
    + left. reflexivity.
    + rewrite last_cons2. right. apply IHq.
Qed.

Lemma epath_last_head E : forall q x, epath E (x :: q) -> q <> [] -> exists w, In (w, last q Root) E.
Proof.
  induction q as [|y q IH]; intros x Hep Hne; [congruence|].
  rewrite epath_cons2 in Hep. destruct Hep as [Hxy Hep].
  destruct q as [|z q]; [exists x; exact Hxy|].
  rewrite last_cons2. apply (IH y); [exact Hep|discriminate].
Qed.

Lemma epath_nodes E : forall q x, epath E (x :: q) -> q <> [] ->
  forall o, In o (x :: q) -> exists e, In e E /\ (o = fst e \/ o = snd e).
Proof.
  induction q as [|y q IH]; intros x Hep Hne o Ho; [congruence|].
  rewrite epath_cons2 in Hep. destruct Hep as [Hxy Hep].
  destruct Ho as [<-|Ho]; [exists (x, y); auto|].
  destruct q as [|z q].
  - destruct Ho as [<-|[]]. exists (x, y); auto.
  - apply (IH y); [exact Hep|discriminate|exact Ho].
Qed.

Lemma dag_nodes_In_gen E : forall acc o,
  In o (fold_left (fun acc e => oadd (snd e) (oadd (fst e) acc)) E acc) <->
  In o acc \/ exists e, In e E /\ (o = fst e \/ o = snd e).
Proof.
  induction E as [|e E IH]; intros acc o; cbn [fold_left].
  - split; [auto|]. intros [H|(e & [] & _)]. exact H.
  - rewrite IH, !oadd_In. split.
    + intros [[H|[H|H]]|(e' & He' & H)].
      * right. exists e. split; [left; reflexivity|auto].
      * right. exists e. split; [left; reflexivity|auto].
      * left. exact H.
      * right. exists e'. split; [right; exact He'|exact H].
    + intros [H|(e' & [<-|He'] & H)].
      * left. auto.
      * left. destruct H as [H|H]; auto.
      * right. exists e'. auto.
Qed.

Lemma dag_nodes_In E o : In o (dag_nodes E) <-> exists e, In e E /\ (o = fst e \/ o = snd e).
Proof. unfold dag_nodes. rewrite dag_nodes_In_gen. simpl. tauto. Qed.

Section ValidWalk.
Variables (g : graph) (u : Z) (v : option Z) (ids : list Z).
Hypothesis Hs : StronglySorted Z.lt ids.
Let E := d_edges (dag_of' g u v ids).

Lemma valid_from_times : forall r a ta, valid_from g ids a ta r -> Forall (fun o => ta < otime o) (heads r).
Proof.
  induction r as [|[[x y] t] r IH]; intros a ta H; simpl; [constructor|].
  destruct H as (_ & Hlt & _ & _ & _ & Hr). constructor; [simpl; exact Hlt|].
  apply IH in Hr. rewrite Forall_forall in *. intros o Ho. apply Hr in Ho. lia.
Qed.

Lemma valid_from_nodup : forall r a ta, valid_from g ids a ta r -> NoDup (Occ a ta :: heads r).
Proof.
  induction r as [|[[x y] t] r IH]; intros a ta H.
  - simpl. constructor; [simpl; tauto|constructor].
  - pose proof (valid_from_times _ _ _ H) as Ht. destruct H as (_ & _ & _ & _ & _ & Hr).
    constructor; [|exact (IH _ _ Hr)].
    intros Hin. rewrite Forall_forall in Ht. apply Ht in Hin. simpl in Hin. lia.
Qed.

Lemma valid_from_epath : forall r a ta w, In (w, Occ a ta) E -> valid_from g ids a ta r ->
  epath E (Occ a ta :: heads r).
Proof.
  induction r as [|[[x y] t] r IH]; intros a ta w Hw H; [simpl; exact I|].
  destruct H as (-> & Hlt & Ht & Hy & Hal & Hr).
  change (heads ((a, y, t) :: r)) with (Occ y t :: heads r). rewrite epath_cons2.
  assert (He : In (Occ a ta, Occ y t) E) by (eapply dag_inner_edges; eauto).
  split; [exact He|]. apply (IH y t (Occ a ta)); assumption.
Qed.

Lemma valid_from_hops : forall r a ta, valid_from g ids a ta r -> hops_of u (Occ a ta :: heads r) = r.
Proof.
  induction r as [|[[x y] t] r IH]; intros a ta H; [reflexivity|].
  destruct H as (-> & _ & _ & _ & _ & Hr).
  change (heads ((a, y, t) :: r)) with (Occ y t :: heads r). rewrite hops_of_cons2.
  rewrite (IH _ _ Hr). reflexivity.
Qed.

Lemma heads_last : forall (p : path) d, p <> [] -> last (heads p) d = head_occ (last p (0, 0, 0)).
Proof.
  induction p as [|h p IH]; intros d Hne; [congruence|].
  destruct p as [|h' p]; [reflexivity|].
  change (heads (h :: h' :: p)) with (head_occ h :: head_occ h' :: heads p).
  rewrite !last_cons2. apply (IH d). discriminate.
Qed.

(** the node path of a valid hop sequence *)
Definition nodes_of (p : path) : list occ :=
  match p with
  | [] => []
  | (_, _, t) :: _ => Occ u t :: heads p
  end.

(** T4 *)
Theorem valid_path_walk p : valid_path g ids u p ->
  (match p with (_, y, _) :: _ => y <> u | [] => True end) ->
  (forall v', v = Some v' -> exists a t, last p (0,0,0) = (a, v', t)) ->
  exists src tgt, In src (d_sources (dag_of' g u v ids)) /\ In tgt (d_targets (dag_of' g u v ids)) /\
    walk E src tgt (nodes_of p) /\ NoDup (nodes_of p) /\ hops_of u (nodes_of p) = p /\
    (length (nodes_of p) <= S (length (dag_nodes E)))%nat.
Proof.
  destruct p as [|[[x y1] t1] r]; [intros []|]. intros (-> & Ht1 & Hy1 & Hr) Hne Hv.
  cbn [nodes_of]. change (heads ((u, y1, t1) :: r)) with (Occ y1 t1 :: heads r).
  set (p := (u, y1, t1) :: r) in *.
  assert (He1 : In (Occ u t1, Occ y1 t1) E) by (apply dag_source_edges; assumption).
  assert (Hep : epath E (Occ u t1 :: Occ y1 t1 :: heads r)).
  { rewrite epath_cons2. split; [exact He1|]. eapply valid_from_epath; eauto. }
  assert (Hnd : NoDup (Occ u t1 :: Occ y1 t1 :: heads r)).
  { constructor; [|apply valid_from_nodup; exact Hr]. intros [Heq|Hin].
    - inversion Heq. congruence.
    - pose proof (valid_from_times _ _ _ Hr) as Ht. rewrite Forall_forall in Ht. apply Ht in Hin.
      simpl in Hin. lia. }
  exists (Occ u t1), (last (Occ u t1 :: Occ y1 t1 :: heads r) Root).
  split; [|split; [|split; [|split; [|split]]]].
  - destruct (fold_left (dag_step g u v) ids (mkDag [] [] [], [Root])) as [d active] eqn:Hf.
    unfold dag_of'. rewrite Hf. cbn [fst].
    apply (dag_sources_exact g u v ids d active Hs Hf). exists t1. split; [reflexivity|]. split; [exact Ht1|].
    intros H0. rewrite H0 in Hy1. destruct Hy1.
  - rewrite last_cons2.
    destruct (epath_last_head E (Occ y1 t1 :: heads r) (Occ u t1) Hep) as (w & Hw); [discriminate|].
    change (Occ y1 t1 :: heads r) with (heads p) in *.
    rewrite (heads_last p Root) in * by discriminate.
    unfold head_occ in *.
    apply (dag_targets_complete g u v ids Hs w); [exact Hw|].
    intros v' Ev. destruct (Hv v' Ev) as (a' & t' & H). exact (f_equal (fun h : hop => snd (fst h)) H).
  - apply epath_walk; assumption.
  - exact Hnd.
  - rewrite hops_of_cons2. cbn [occ_node otime]. rewrite (valid_from_hops _ _ _ Hr). reflexivity.
  - apply le_S. apply NoDup_incl_length; [exact Hnd|].
    intros o Ho. apply dag_nodes_In. eapply epath_nodes; [exact Hep|discriminate|exact Ho].
Qed.

End ValidWalk.

(** * T5: every genuine time-respecting hop sequence that survives the filter is returned *)

Theorem paths_complete g u v ids p : StronglySorted Z.lt ids ->
  valid_path g ids u p -> keep_path p = true ->
  (match p with (_, y, _) :: _ => y <> u | [] => True end) ->          (* known defect: a first hop (u,u,t) is missed *)
  (forall v', v = Some v' -> exists a t, last p (0,0,0) = (a, v', t)) ->
  In p (all_paths_dag u (dag_of' g u v ids)).
Proof.
  intros Hs Hvp Hk Hne Hv.
  destruct (valid_path_walk g u v ids Hs p Hvp Hne Hv) as (src & tgt & Hsrc & Htgt & Hw & Hnd & Hh & Hlen).
  unfold all_paths_dag. apply dedup_In. split; [|intros []].
  apply filter_In. split; [|exact Hk].
  apply in_flat_map. exists src. split; [exact Hsrc|].
  apply in_flat_map. exists tgt. split; [exact Htgt|].
  apply in_map_iff. exists (nodes_of u p). split; [exact Hh|].
  apply dfs_complete; [exact Hw|exact Hnd|intros z _ []|exact Hlen].
Qed.
