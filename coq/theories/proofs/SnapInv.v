(** SnapInv: the snapshot-counter invariant (I-snap of DESIGN 5.0) and the facts behind properties/C04.v.

    TO BE PROVED (no Admitted may remain).  Definitions below are fixed; helper lemmas are free. *)
From DynVerif Require Import Base Graph Spec.
From DynVerif.proofs Require Import AListFacts CoreInv.
From Coq Require Import Sorting.Sorted Sorting.Permutation.

Definition snap_get (g : graph) (t : Z) : Z :=
  match aget Z.eqb t (g_snaps g) with Some c => c | None => 0 end.

(** number of pairs (adjacency entries) present at t *)
Definition count_present (g : graph) (t : Z) : Z :=
  Z.of_nat (length (filter (fun e => mem t (tl_list (snd e))) (g_edges g))).

Definition all_canon (g : graph) : Prop := forall k, ocanon (aget peqb k (g_edges g)).

Definition InvSnap (g : graph) : Prop :=
  NoDup (akeys (g_edges g)) /\
  NoDup (map fst (g_snaps g)) /\
  (forall t, snap_get g t = 2 * count_present g t) /\
  (forall t c, In (t, c) (g_snaps g) -> 0 < c).
