(** SnapInv: the snapshot-counter invariant (I-snap of DESIGN 5.0) and the facts behind properties/C04.v. *)
From DynVerif Require Import Base Graph Spec.
From DynVerif.proofs Require Import AListFacts CoreInv.
From Coq Require Import Sorting.Sorted Sorting.Permutation.

Definition snap_get (g : graph) (t : Z) : Z :=
  match aget Z.eqb t (g_snaps g) with Some c => c | None => 0 end.

(** number of pairs (adjacency entries) present at t *)
Definition count_present (g : graph) (t : Z) : Z :=
  Z.of_nat (length (filter (fun e => mem t (tl_list (snd e))) (g_edges g))).

Definition all_canon (g : graph) : Prop := forall k, ocanon (aget peqb k (g_edges g)).

Definition InvSnap (g : graph) : Prop :=
  NoDup (akeys (g_edges g)) /\
  NoDup (map fst (g_snaps g)) /\
  (forall t, snap_get g t = 2 * count_present g t) /\
  (forall t c, In (t, c) (g_snaps g) -> 0 < c).

(** * generic list helpers *)
Lemma NoDup_snoc {A} (l : list A) x : NoDup l -> ~ In x l -> NoDup (l ++ [x]).
Proof.
  induction l as [|y r IH]; intros Hnd Hni; simpl.
  - constructor; [intros []|constructor].
  - inversion Hnd as [|? ? Hy Hr]; subst. constructor.
    + rewrite in_app_iff. intros [H|[H|[]]]; [auto|]. subst. apply Hni. left; reflexivity.
    + apply IH; auto. intros H; apply Hni; right; assumption.
Qed.

Lemma zaget_in (t : Z) (l : list (Z * Z)) : In t (map fst l) -> exists c, aget Z.eqb t l = Some c /\ In (t, c) l.
Proof.
  induction l as [|[k c] r IH]; simpl; [tauto|]. intros [H|H].
  - subst. rewrite Z.eqb_refl. eauto.
  - destruct (t =? k) eqn:E.
    + assert (t = k) by lia. subst. eauto.
    + destruct (IH H) as (c' & H1 & H2). eauto.
Qed.

Lemma zaget_Some_in (t c : Z) (l : list (Z * Z)) : aget Z.eqb t l = Some c -> In (t, c) l.
Proof.
  induction l as [|[k c'] r IH]; simpl; [discriminate|].
  destruct (t =? k) eqn:E.
  - intros H; inversion H; subst. assert (t = k) by lia. subst. auto.
  - auto.
Qed.

(** * counters: [bump], [bump_range], [bump_incl] *)
Definition zget (l : list (Z * Z)) (t : Z) : Z :=
  match aget Z.eqb t l with Some c => c | None => 0 end.

Lemma zget_bump t d l t' : zget (bump t d l) t' = zget l t' + (if t =? t' then d else 0).
Proof.
  unfold zget. induction l as [|[k c] r IH]; simpl.
  - destruct (t' =? t) eqn:E1; destruct (t =? t') eqn:E2; lia.
  - destruct (t =? k) eqn:E1; simpl.
    + destruct (t' =? k) eqn:E2; destruct (t =? t') eqn:E3; lia.
    + destruct (t' =? k) eqn:E2; [destruct (t =? t') eqn:E3; lia|]. apply IH.
Qed.

Lemma bump_keys t d l :
  map fst (bump t d l) = if memZ t (map fst l) then map fst l else map fst l ++ [t].
Proof.
  unfold memZ. induction l as [|[k c] r IH]; simpl; [reflexivity|].
  destruct (t =? k) eqn:E; simpl; [reflexivity|].
  rewrite IH. destruct (existsb (Z.eqb t) (map fst r)); reflexivity.
Qed.

Lemma bump_nodup t d l : NoDup (map fst l) -> NoDup (map fst (bump t d l)).
Proof.
  intros H. rewrite bump_keys. destruct (memZ t (map fst l)) eqn:E; [assumption|].
  apply NoDup_snoc; [assumption|]. intros Hin. apply memZ_In in Hin. congruence.
Qed.

Lemma bump_pos t d l : 0 < d -> (forall k c, In (k, c) l -> 0 < c) ->
  forall k c, In (k, c) (bump t d l) -> 0 < c.
Proof.
  intros Hd. induction l as [|[k0 c0] r IH]; simpl; intros Hp k c Hin.
  - destruct Hin as [Hin|[]]. inversion Hin; subst. assumption.
  - destruct (t =? k0) eqn:E.
    + destruct Hin as [Hin|Hin].
      * inversion Hin; subst. specialize (Hp k c0 (or_introl eq_refl)). lia.
      * apply (Hp k c). right. assumption.
    + destruct Hin as [Hin|Hin].
      * apply (Hp k c). left. assumption.
      * apply (IH (fun k' c' H' => Hp k' c' (or_intror H')) k c Hin).
Qed.

Lemma zget_bump_range n : forall a l t,
  zget (bump_range a n l) t = zget l t + (if (a <=? t) && (t <? a + Z.of_nat n) then 2 else 0).
Proof.
  induction n as [|n IH]; intros a l t; cbn [bump_range].
  - destruct ((a <=? t) && (t <? a + Z.of_nat 0)) eqn:E; lia.
  - rewrite IH, zget_bump.
    destruct (a =? t) eqn:E1;
    destruct ((a + 1 <=? t) && (t <? a + 1 + Z.of_nat n)) eqn:E2;
    destruct ((a <=? t) && (t <? a + Z.of_nat (S n))) eqn:E3; lia.
Qed.

Lemma bump_range_nodup n : forall a l, NoDup (map fst l) -> NoDup (map fst (bump_range a n l)).
Proof. induction n as [|n IH]; intros a l H; cbn [bump_range]; [assumption|]. apply IH. apply bump_nodup. assumption. Qed.

Lemma bump_range_pos n : forall a l, (forall k c, In (k, c) l -> 0 < c) ->
  forall k c, In (k, c) (bump_range a n l) -> 0 < c.
Proof.
  induction n as [|n IH]; intros a l H; cbn [bump_range]; [assumption|].
  apply IH. apply bump_pos; [lia|assumption].
Qed.

Lemma zget_bump_incl a b l t :
  zget (bump_incl a b l) t = zget l t + (if (a <=? t) && (t <=? b) then 2 else 0).
Proof.
  unfold bump_incl. rewrite zget_bump_range.
  destruct ((a <=? t) && (t <? a + Z.of_nat (Z.to_nat (b - a + 1)))) eqn:E1;
  destruct ((a <=? t) && (t <=? b)) eqn:E2; lia.
Qed.

(** * counting present pairs *)
Definition b2z (b : bool) : Z := if b then 1 else 0.
Definition cnt (t : Z) (ed : list ((Z * Z) * tline)) : Z :=
  Z.of_nat (length (filter (fun e => mem t (tl_list (snd e))) ed)).
Arguments cnt : simpl never.

Lemma cnt_nil t : cnt t [] = 0.
Proof. reflexivity. Qed.

Lemma cnt_cons t x ed : cnt t (x :: ed) = b2z (mem t (tl_list (snd x))) + cnt t ed.
Proof.
  unfold cnt. cbn [filter]. destruct (mem t (tl_list (snd x))); cbn [length]; unfold b2z; lia.
Qed.

Lemma cnt_app t ed x : cnt t (ed ++ [x]) = cnt t ed + b2z (mem t (tl_list (snd x))).
Proof.
  induction ed as [|y r IH].
  - change ([] ++ [x]) with [x]. rewrite cnt_cons, cnt_nil. lia.
  - rewrite <- app_comm_cons, !cnt_cons, IH. lia.
Qed.

Lemma cnt_aset t k old new ed : aget peqb k ed = Some old ->
  cnt t (aset peqb k new ed) = cnt t ed + b2z (mem t (tl_list new)) - b2z (mem t (tl_list old)).
Proof.
  induction ed as [|[k' v'] r IH]; cbn [aget aset]; [discriminate|].
  destruct (peqb k k') eqn:E; intros H.
  - inversion H; subst. rewrite !cnt_cons. cbn [snd]. lia.
  - rewrite !cnt_cons, IH by assumption. lia.
Qed.

(** * the invariant on raw lists *)
Definition IS (ed : list ((Z * Z) * tline)) (sn : list (Z * Z)) : Prop :=
  NoDup (akeys ed) /\ NoDup (map fst sn) /\
  (forall t, zget sn t = 2 * cnt t ed) /\
  (forall t c, In (t, c) sn -> 0 < c).

Lemma InvSnap_IS g : InvSnap g <-> IS (g_edges g) (g_snaps g).
Proof. unfold InvSnap, IS, snap_get, count_present, zget, cnt. tauto. Qed.

Lemma IS_app ed sn k s f : IS ed sn -> aget peqb k ed = None ->
  IS (ed ++ [(k, ((s, f), []))]) (bump_incl s f sn).
Proof.
  intros (Hk & Hs & Hz & Hp) Hget. split; [|split; [|split]].
  - unfold akeys. rewrite map_app. apply NoDup_snoc; [assumption|]. apply aget_None_notin. assumption.
  - apply bump_range_nodup. assumption.
  - intros t. rewrite zget_bump_incl, cnt_app, Hz. cbn [snd].
    change (mem t (tl_list ((s, f), []))) with ((s <=? t) && (t <=? f) || false).
    rewrite orb_false_r. unfold b2z. destruct ((s <=? t) && (t <=? f)); lia.
  - apply bump_range_pos. assumption.
Qed.

Lemma IS_aset ed sn k old new lo hi :
  IS ed sn -> aget peqb k ed = Some old ->
  (forall t, b2z (mem t (tl_list new)) - b2z (mem t (tl_list old)) = b2z ((lo <=? t) && (t <=? hi))) ->
  IS (aset peqb k new ed) (bump_incl lo hi sn).
Proof.
  intros (Hk & Hs & Hz & Hp) Hget Hd. split; [|split; [|split]].
  - rewrite akeys_aset_in; [assumption|congruence].
  - apply bump_range_nodup. assumption.
  - intros t. rewrite zget_bump_incl, (cnt_aset t k old new ed Hget), Hz. specialize (Hd t).
    destruct ((lo <=? t) && (t <=? hi)); unfold b2z in Hd at 3; lia.
  - apply bump_range_pos. assumption.
Qed.

(** * the step *)
Lemma all_canon_of_Inv g h : Inv g h -> all_canon g.
Proof. intros H k. apply (H k). Qed.

Lemma InvSnap_init dir rem : InvSnap (empty_graph dir rem).
Proof.
  unfold InvSnap, snap_get, count_present. simpl. repeat split; try constructor; intros; tauto.
Qed.

Lemma gap_diff a b older s f : canon ((a, b) :: older) -> b + 1 < s ->
  forall t, b2z (mem t (tl_list ((s, f), (a, b) :: older))) - b2z (mem t (tl_list ((a, b), older)))
            = b2z ((s <=? t) && (t <=? f)).
Proof.
  intros Hc Hlt t. unfold tl_list. cbn [fst snd].
  change (mem t ((s, f) :: (a, b) :: older)) with (in_itv t (s, f) || mem t ((a, b) :: older)).
  unfold in_itv at 1. cbn [fst snd].
  destruct (mem t ((a, b) :: older)) eqn:Hm.
  - pose proof (mem_ge_first _ _ _ _ Hc Hm) as Hb. rewrite orb_true_r.
    destruct (s <=? t) eqn:E1; destruct (t <=? f) eqn:E2; unfold b2z; simpl; lia.
  - rewrite orb_false_r. destruct ((s <=? t) && (t <=? f)); unfold b2z; lia.
Qed.

Lemma ext_diff a b older s f : canon ((a, b) :: older) -> a <= s -> s <= b + 1 -> b < f ->
  forall t, b2z (mem t (tl_list ((a, f), older))) - b2z (mem t (tl_list ((a, b), older)))
            = b2z ((b + 1 <=? t) && (t <=? f)).
Proof.
  intros Hc Has Hsb Hbf t. unfold tl_list. cbn [fst snd].
  change (mem t ((a, f) :: older)) with (in_itv t (a, f) || mem t older).
  change (mem t ((a, b) :: older)) with (in_itv t (a, b) || mem t older).
  unfold in_itv. cbn [fst snd].
  assert (Hab : a <= b) by (simpl in Hc; tauto).
  destruct (mem t older) eqn:Hm.
  - pose proof (canon_older_below _ _ _ Hc t Hm) as Hb. rewrite !orb_true_r.
    destruct (b + 1 <=? t) eqn:E1; destruct (t <=? f) eqn:E2; unfold b2z; simpl; lia.
  - rewrite !orb_false_r.
    destruct (a <=? t) eqn:E0; destruct (t <=? b) eqn:E3;
    destruct (b + 1 <=? t) eqn:E1; destruct (t <=? f) eqn:E2; unfold b2z; simpl; lia.
Qed.

Lemma InvSnap_step g u v t e g' o :
  g_rem g = true -> all_canon g -> InvSnap g -> add_interaction g u v t e = (g', o) -> InvSnap g'.
Proof.
  intros Hrem Hcan HI. unfold add_interaction.
  destruct t as [s|]; [|intros H; inversion H; subst; exact HI].
  cbv zeta.
  set (k := nk (g_dir g) u v).
  set (f := match e with Some e' => if g_rem g then e' - 1 else s | None => s end).
  rewrite Hrem.
  pose proof (Hcan k) as Hck.
  pose proof (proj1 (InvSnap_IS g) HI) as HIS.
  destruct (aget peqb k (g_edges g)) as [[[a b] older]|] eqn:Hget.
  - simpl in Hck.
    destruct (s <? a) eqn:E1; [intros H; inversion H; subst; exact HI|].
    destruct (f <? s) eqn:E2; [intros H; inversion H; subst; exact HI|].
    destruct (b + 1 <? s) eqn:E3.
    { intros H; inversion H; subst. apply InvSnap_IS.
      change (IS (aset peqb k ((s, f), (a, b) :: older) (g_edges g)) (bump_incl s f (g_snaps g))).
      apply (IS_aset _ _ k ((a, b), older)); auto.
      apply gap_diff; [exact Hck|lia]. }
    destruct (b <? f) eqn:E4.
    { intros H; inversion H; subst. apply InvSnap_IS.
      change (IS (aset peqb k ((a, f), older) (g_edges g)) (bump_incl (b + 1) f (g_snaps g))).
      apply (IS_aset _ _ k ((a, b), older)); auto.
      apply (ext_diff a b older s f); [exact Hck|lia|lia|lia]. }
    intros H; inversion H; subst; exact HI.
  - destruct (f <? s) eqn:E2; [intros H; inversion H; subst; exact HI|].
    intros H; inversion H; subst. apply InvSnap_IS.
    change (IS (g_edges g ++ [(k, ((s, f), []))]) (bump_incl s f (g_snaps g))).
    apply IS_app; assumption.
Qed.

Theorem InvSnap_run cs : forall g h, g_rem g = true -> Inv g h -> InvSnap g -> InvSnap (run_calls g cs).
Proof.
  induction cs as [|c r IH]; intros g h Hrem HI HS; simpl; [assumption|].
  destruct (do_call g c) as [g' o] eqn:Hd. simpl.
  pose proof (Inv_step' _ _ _ _ _ HI Hd) as (H1 & H2).
  unfold do_call in Hd.
  assert (HS' : InvSnap g') by (eapply InvSnap_step; eauto using all_canon_of_Inv).
  assert (Hrem' : g_rem g' = true).
  { pose proof (step_edges _ _ _ _ _ _ _ Hd) as Hst. cbv zeta in Hst. destruct Hst as (_ & Hr & _). congruence. }
  destruct o; [apply (IH g' (h ++ [c])); auto|..];
    (assert (g' = g) by (apply H2; discriminate); subst g'; apply (IH g h); auto).
Qed.

(** * sorting facts about [sortZ] *)
Lemma insZ_perm x l : Permutation (insZ x l) (x :: l).
Proof.
  induction l as [|y r IH]; simpl; [apply Permutation_refl|].
  destruct (x <=? y); [apply Permutation_refl|].
  apply perm_trans with (y :: x :: r); [apply perm_skip; assumption|apply perm_swap].
Qed.

Lemma sortZ_perm l : Permutation (sortZ l) l.
Proof.
  induction l as [|x r IH]; simpl; [constructor|].
  apply perm_trans with (x :: sortZ r); [apply insZ_perm|apply perm_skip; assumption].
Qed.

Lemma insZ_hd y x r : HdRel Z.le y r -> y <= x -> HdRel Z.le y (insZ x r).
Proof.
  intros H Hyx. destruct r as [|z r']; simpl; [constructor; assumption|].
  destruct (x <=? z); constructor; [assumption|]. inversion H; assumption.
Qed.

Lemma insZ_sorted x l : Sorted Z.le l -> Sorted Z.le (insZ x l).
Proof.
  induction l as [|y r IH]; simpl; intros H.
  - constructor; constructor.
  - destruct (x <=? y) eqn:E.
    + constructor; [assumption|constructor; lia].
    + inversion H as [|? ? Hs Hh]; subst. constructor; [apply IH; assumption|].
      apply insZ_hd; [assumption|lia].
Qed.

Lemma sortZ_sorted l : Sorted Z.le (sortZ l).
Proof. induction l as [|x r IH]; simpl; [constructor|apply insZ_sorted; assumption]. Qed.

Lemma sortZ_In x l : In x (sortZ l) <-> In x l.
Proof.
  split; apply Permutation_in; [apply sortZ_perm|apply Permutation_sym, sortZ_perm].
Qed.

Lemma sortZ_length l : length (sortZ l) = length l.
Proof. apply Permutation_length, sortZ_perm. Qed.

Lemma le_nodup_strict l : StronglySorted Z.le l -> NoDup l -> StronglySorted Z.lt l.
Proof.
  induction l as [|x r IH]; intros Hs Hn; [constructor|].
  inversion Hs as [|? ? Hs' Hf]; subst. inversion Hn as [|? ? Hni Hn']; subst.
  constructor; [auto|]. rewrite Forall_forall in *. intros y Hy.
  specialize (Hf y Hy). assert (x <> y) by (intros ->; auto). lia.
Qed.

Lemma sortZ_strict l : NoDup l -> StronglySorted Z.lt (sortZ l).
Proof.
  intros H. apply le_nodup_strict.
  - apply Sorted_StronglySorted; [intros a b c; apply Z.le_trans|apply sortZ_sorted].
  - apply (Permutation_NoDup (Permutation_sym (sortZ_perm l)) H).
Qed.

(** * consequences used by properties/C04.v *)
Lemma ids_spec g : InvSnap g -> forall t, In t (snapshot_ids g) <-> 0 < count_present g t.
Proof.
  intros (_ & Hnd & Hz & Hp) t. unfold snapshot_ids. rewrite sortZ_In.
  specialize (Hz t). unfold snap_get in Hz. split.
  - intros Hin. destruct (zaget_in _ _ Hin) as (c & Hg & Hc). rewrite Hg in Hz.
    specialize (Hp t c Hc). lia.
  - intros Hc. destruct (aget Z.eqb t (g_snaps g)) as [c|] eqn:E; [|lia].
    apply zaget_Some_in in E. apply in_map_iff. exists (t, c). auto.
Qed.

Lemma ids_sorted g : InvSnap g -> StronglySorted Z.lt (snapshot_ids g).
Proof. intros (_ & Hnd & _). apply sortZ_strict. assumption. Qed.

Lemma ips_spec g : InvSnap g -> forall t,
  fst (interactions_per_snapshot g t) = 2 * count_present g t /\ snd (interactions_per_snapshot g t) = 2.
Proof.
  intros (_ & _ & Hz & _) t. unfold interactions_per_snapshot. simpl. split; [|reflexivity]. apply Hz.
Qed.

Lemma count_sub g t (l : list ((Z * Z) * tline)) :
  g_rem g = true -> all_canon g ->
  (forall k v, In (k, v) l -> aget peqb k (g_edges g) = Some v) ->
  length (filter (fun e => mem t (tl_list (snd e))) l)
  = length (filter (fun k => key_present g k (Some t)) (map fst l)).
Proof.
  intros Hrem Hcan. induction l as [|[k v] r IH]; intros Hl; [reflexivity|].
  cbn [map filter fst snd].
  assert (Hg : aget peqb k (g_edges g) = Some v) by (apply Hl; left; reflexivity).
  assert (Hkp : key_present g k (Some t) = mem t (tl_list v)).
  { unfold key_present. rewrite Hg. unfold presence_test. rewrite Hrem. apply presence_mem.
    pose proof (Hcan k) as Hc. rewrite Hg in Hc. exact Hc. }
  rewrite Hkp. assert (IH' := IH (fun k' v' H' => Hl k' v' (or_intror H'))).
  destruct (mem t (tl_list v)); cbn [length]; congruence.
Qed.

Lemma count_present_spec g t : NoDup (akeys (g_edges g)) -> g_rem g = true -> all_canon g ->
  count_present g t = Z.of_nat (length (filter (fun k => key_present g k (Some t)) (akeys (g_edges g)))).
Proof.
  intros Hnd Hrem Hcan. unfold count_present, akeys. f_equal.
  apply count_sub; auto. intros k v Hin. apply in_aget_nodup; assumption.
Qed.
