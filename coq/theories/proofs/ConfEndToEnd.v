(** ConfEndToEnd: the per-score facts of ConfFacts lifted to the RESULT of delta_conformity /
    sliding_delta_conformity (property C20 speaks about the result).

    In the result [ConfOk l], l : list (alpha * list (list (node * Q))): per alpha, per profile, per node present at
    [start] in the slice, the score [Qred (node_score g prof alpha u (t_distances ptype u ps))], with g the slice,
    ps the paths of u in the result of all_time_respecting_paths.  [conformity_ok_inv] names g and that result
    ([conf_setup]) and gives the table ([conf_table]); every theorem below goes through it. *)
From Coq Require Import QArith Lqa Lia ZifyBool.
From DynVerif Require Import Base Graph Derived Annotate Paths Conformity.
From DynVerif.proofs Require Import AnnotateFacts SnapInv QueryFacts ApiFacts DerivedFacts PathFacts ConfFacts RenameConf.
#[local] Open Scope Z_scope.

(** * 0. the shape of a successful result *)

Definition paths_of (u : Z) (sp : list (Z * list path)) : list path :=
  match aget Z.eqb u sp with Some l => l | None => [] end.

Definition conf_score (g : graph) (sp : list (Z * list path)) (ptype : Z) (prof : list labtab) (alpha u : Z) : Q :=
  Qred (node_score g prof alpha u (t_distances ptype u (paths_of u sp))).

Definition conf_table (g : graph) (sp : list (Z * list path)) (start : Z) (alphas : list Z) (tabs : list labtab)
                      (psize : nat) (ptype : Z) : list (Z * list (list (Z * Q))) :=
  map (fun alpha =>
         (alpha, map (fun prof => map (fun u => (u, conf_score g sp ptype prof alpha u)) (nodes_at g start))
                     (profiles tabs psize))) alphas.

(** g is the slice [start, start + delta]; sp the time respecting paths of g between its first and last snapshot
    ids, clipped to the window -- exactly the two objects delta_conformity computes with *)
Definition conf_setup (dg : graph) (start delta : Z) (g : graph) (sp : list (Z * list path)) : Prop :=
  fst (time_slice dg start (Some (start + delta))) = Some g /\
  exists i0 rest, snapshot_ids g = i0 :: rest /\
    all_time_respecting_paths g (Some (Z.max start i0))
                                (Some (Z.min (last (snapshot_ids g) i0) (start + delta))) None = Some sp.

Lemma conformity_ok_inv dg start delta alphas tabs psize ptype l :
  delta_conformity dg start delta alphas tabs psize ptype = ConfOk l ->
  exists g sp, conf_setup dg start delta g sp /\ l = conf_table g sp start alphas tabs psize ptype.
Proof.
  unfold delta_conformity.
  destruct ((length tabs <? psize)%nat || (length alphas =? 0)%nat || (length tabs =? 0)%nat); [discriminate|].
  destruct (time_slice dg start (Some (start + delta))) as [[g|] o] eqn:Ets; [|discriminate].
  destruct (snapshot_ids g) as [|i0 ids] eqn:Eids; [discriminate|].
  destruct (all_time_respecting_paths g _ _ None) as [sp|] eqn:Ea; [|discriminate].
  intros H. inversion H; subst l; clear H.
  exists g, sp. split; [|reflexivity].
  split; [rewrite Ets; reflexivity|]. exists i0, ids. rewrite Eids. split; [reflexivity|exact Ea].
Qed.

(** and conversely: the setup determines the result *)
Lemma conformity_ok_intro dg start delta alphas tabs psize ptype g sp :
  (length tabs <? psize)%nat || (length alphas =? 0)%nat || (length tabs =? 0)%nat = false ->
  conf_setup dg start delta g sp ->
  delta_conformity dg start delta alphas tabs psize ptype = ConfOk (conf_table g sp start alphas tabs psize ptype).
Proof.
  intros Hc (Hts & i0 & ids & Eids & Ea). unfold delta_conformity. rewrite Hc.
  destruct (time_slice dg start (Some (start + delta))) as [og o]. simpl in Hts. subst og.
  rewrite Eids in *. rewrite Ea. reflexivity.
Qed.

Lemma conf_table_entry g sp start alphas tabs psize ptype alpha profs scores n q :
  In (alpha, profs) (conf_table g sp start alphas tabs psize ptype) -> In scores profs -> In (n, q) scores ->
  In alpha alphas /\ In n (nodes_at g start) /\
  exists prof, In prof (profiles tabs psize) /\ q = conf_score g sp ptype prof alpha n.
Proof.
  intros Hl Hp Hs. unfold conf_table in Hl.
  apply in_map_iff in Hl. destruct Hl as (a & Ea & Ha). inversion Ea; subst a profs; clear Ea.
  apply in_map_iff in Hp. destruct Hp as (prof & <- & Hprof).
  apply in_map_iff in Hs. destruct Hs as (u & Eu & Hu). inversion Eu; subst u q; clear Eu.
  split; [exact Ha|]. split; [exact Hu|]. exists prof. split; [exact Hprof|reflexivity].
Qed.

(** every profile is made of tables of [tabs] *)
Lemma combos_incl {A} (l : list A) : forall k c, In c (combos k l) -> incl c l.
Proof.
  induction l as [|x r IH]; intros k c Hc.
  - destruct k; simpl in Hc.
    + destruct Hc as [<-|[]]. intros y [].
    + destruct Hc.
  - destruct k as [|k']; cbn [combos] in Hc.
    + destruct Hc as [<-|[]]. intros y [].
    + apply in_app_or in Hc. destruct Hc as [Hc|Hc].
      * apply in_map_iff in Hc. destruct Hc as (c' & <- & Hc').
        intros y [<-|Hy]; [left; reflexivity|right; exact (IH k' c' Hc' y Hy)].
      * intros y Hy. right. exact (IH (S k') c Hc y Hy).
Qed.

Lemma profiles_incl {A} (l : list A) (n : nat) (c : list A) : In c (profiles l n) -> incl c l.
Proof.
  unfold profiles. intros H. apply in_flat_map in H. destruct H as (i & _ & Hc).
  exact (combos_incl l i c Hc).
Qed.

(** * 1. every score of the result lies in [-1, 1] *)

Lemma conf_score_bounded g sp ptype prof alpha u : 0 <= alpha -> (-1 <= conf_score g sp ptype prof alpha u <= 1)%Q.
Proof.
  intros Ha. unfold conf_score. rewrite Qred_correct. apply node_score_bounded. exact Ha.
Qed.

Theorem conformity_bounded : forall dg start delta alphas tabs psize ptype l,
  (forall a, In a alphas -> 0 <= a) ->
  delta_conformity dg start delta alphas tabs psize ptype = ConfOk l ->
  forall alpha profs scores n q, In (alpha, profs) l -> In scores profs -> In (n, q) scores -> (-1 <= q <= 1)%Q.
Proof.
  intros dg start delta alphas tabs psize ptype l Hal Hok alpha profs scores n q Hl Hp Hs.
  destruct (conformity_ok_inv _ _ _ _ _ _ _ _ Hok) as (g & sp & _ & ->).
  destruct (conf_table_entry _ _ _ _ _ _ _ _ _ _ _ _ Hl Hp Hs) as (Ha & _ & prof & _ & ->).
  apply conf_score_bounded. apply Hal. exact Ha.
Qed.

(** * 2. renaming the label VALUES along an injective map *)

Lemma fold_left_ext_in {A B} (f f' : A -> B -> A) (l : list B) :
  (forall a b, In b l -> f' a b = f a b) -> forall a, fold_left f' l a = fold_left f l a.
Proof.
  induction l as [|b r IH]; intros H a; simpl; [reflexivity|].
  rewrite (H a b) by (left; reflexivity). apply IH. intros a' b' Hb'. apply H. right. exact Hb'.
Qed.

(** the score depends on the tables only through the label frequencies of the ranks of its table *)
Lemma node_score_ext g tabs tabs' alpha u tdist :
  (forall r nodes, In (r, nodes) (by_rank (remap tdist) []) ->
     label_frequency g tabs' u nodes tdist = label_frequency g tabs u nodes tdist) ->
  node_score g tabs' alpha u tdist = node_score g tabs alpha u tdist.
Proof.
  intros H. rewrite !node_score_unfold. cbv zeta.
  assert (E : fold_left (raw_step g tabs' alpha u tdist) (by_rank (remap tdist) []) 0%Q
            = fold_left (raw_step g tabs alpha u tdist) (by_rank (remap tdist) []) 0%Q).
  { apply fold_left_ext_in. intros acc [d nodes] Hin. unfold raw_step.
    rewrite (H d nodes Hin). reflexivity. }
  rewrite E. reflexivity.
Qed.

Lemma label_frequency_map_ext g (k : labtab -> labtab) prof u nodes tdist :
  (forall tab, In tab prof -> label_factor g (k tab) u nodes tdist = label_factor g tab u nodes tdist) ->
  label_frequency g (map k prof) u nodes tdist = label_frequency g prof u nodes tdist.
Proof.
  unfold label_frequency. generalize 1%Q.
  induction prof as [|tab r IH]; intros acc H; simpl; [reflexivity|].
  rewrite (H tab) by (left; reflexivity). apply IH. intros tab' Hin. apply H. right. exact Hin.
Qed.

Lemma node_score_label_renaming g (h : Z -> Z) prof alpha u tdist :
  (forall a b, h a = h b -> a = b) -> h 0 = 0 ->
  node_score g (map (fun tab => map (fun nv => (fst nv, h (snd nv))) tab) prof) alpha u tdist
  = node_score g prof alpha u tdist.
Proof.
  intros Hinj H0. apply node_score_ext. intros r nodes _.
  apply (label_frequency_map_ext g (fun tab => map (fun nv => (fst nv, h (snd nv))) tab)).
  intros tab _. apply label_factor_renaming_alt; assumption.
Qed.

Theorem conformity_label_renaming : forall (h : Z -> Z) dg start delta alphas tabs psize ptype,
  (forall a b, h a = h b -> a = b) -> h 0 = 0 ->
  delta_conformity dg start delta alphas (map (fun tab => map (fun nv => (fst nv, h (snd nv))) tab) tabs) psize ptype
  = delta_conformity dg start delta alphas tabs psize ptype.
Proof.
  intros h dg start delta alphas tabs psize ptype Hinj H0.
  unfold delta_conformity. rewrite map_length. unfold labtab.
  destruct ((length tabs <? psize)%nat || (length alphas =? 0)%nat || (length tabs =? 0)%nat); [reflexivity|].
  destruct (time_slice dg start (Some (start + delta))) as [[g|] o]; [|reflexivity].
  destruct (snapshot_ids g) as [|i0 ids]; [reflexivity|].
  destruct (all_time_respecting_paths g _ _ None) as [sp|]; [|reflexivity].
  f_equal. apply map_ext. intros alpha. f_equal.
  rewrite profiles_map, map_map. apply map_ext. intros prof. apply map_ext. intros u.
  f_equal. f_equal. apply node_score_label_renaming; assumption.
Qed.

(** * 3. one shared label value: every score is 0 or 1, and which *)

Lemma conf_score_same_label g sp ptype prof alpha u : 0 <= alpha ->
  (forall tab n, In tab prof -> lab tab n = lab tab u) ->
  (conf_score g sp ptype prof alpha u ==
   (if match t_distances ptype u (paths_of u sp) with [] => true | _ => false end then 0 else 1))%Q.
Proof.
  intros Ha H. unfold conf_score. rewrite Qred_correct. apply node_score_same_label; assumption.
Qed.

Theorem conformity_same_label : forall dg start delta alphas tabs psize ptype l,
  (forall a, In a alphas -> 0 <= a) ->
  (forall tab n m, In tab tabs -> lab tab n = lab tab m) ->
  delta_conformity dg start delta alphas tabs psize ptype = ConfOk l ->
  forall alpha profs scores n q, In (alpha, profs) l -> In scores profs -> In (n, q) scores -> (q == 0 \/ q == 1)%Q.
Proof.
  intros dg start delta alphas tabs psize ptype l Hal Hsame Hok alpha profs scores n q Hl Hp Hs.
  destruct (conformity_ok_inv _ _ _ _ _ _ _ _ Hok) as (g & sp & _ & ->).
  destruct (conf_table_entry _ _ _ _ _ _ _ _ _ _ _ _ Hl Hp Hs) as (Ha & _ & prof & Hprof & ->).
  assert (E := conf_score_same_label g sp ptype prof alpha n (Hal alpha Ha)
                 (fun tab m Hin => Hsame tab m n (profiles_incl tabs psize prof Hprof tab Hin))).
  destruct (t_distances ptype n (paths_of n sp)); [left|right]; exact E.
Qed.

(** ** the table of reached nodes is non-empty iff some path ends in another node *)

Lemma aget_In {V} (k : Z) (v : V) (l : list (Z * V)) : aget Z.eqb k l = Some v -> In (k, v) l.
Proof.
  induction l as [|[k' v'] r IH]; simpl; [discriminate|].
  destruct (k =? k') eqn:E.
  - intros H. inversion H; subst v'. assert (Ek : k = k') by lia. subst k'. left. reflexivity.
  - intros H. right. apply IH. exact H.
Qed.

Lemma gbl_sound (Q : path -> Prop) (ps : list path) : forall acc,
  (forall w l, In (w, l) acc -> l <> [] /\ forall p, In p l -> last_node p = w /\ Q p) ->
  (forall p, In p ps -> Q p) ->
  forall w l, In (w, l) (group_by_last ps acc) -> l <> [] /\ forall p, In p l -> last_node p = w /\ Q p.
Proof.
  induction ps as [|p0 r IH]; intros acc Hacc Hps; simpl; [exact Hacc|].
  apply IH.
  - intros w l Hin. apply aset_in in Hin. destruct Hin as [[-> ->]|Hin]; [|apply Hacc; exact Hin].
    split.
    + intros E. apply app_eq_nil in E. destruct E as [_ E]. discriminate E.
    + intros p Hp. apply in_app_or in Hp. destruct Hp as [Hp|[<-|[]]].
      * destruct (aget Z.eqb (last_node p0) acc) as [old|] eqn:Eg; [|destruct Hp].
        apply aget_In in Eg. destruct (Hacc _ _ Eg) as [_ Hold]. apply Hold. exact Hp.
      * split; [reflexivity|]. apply Hps. left. reflexivity.
  - intros p Hp. apply Hps. right. exact Hp.
Qed.

Lemma gbl_keys (ps : list path) : forall acc w,
  In w (map fst (group_by_last ps acc)) <-> In w (map fst acc) \/ In w (map last_node ps).
Proof.
  induction ps as [|p0 r IH]; intros acc w; simpl.
  - tauto.
  - rewrite IH, aset_keys. destruct (memZ (last_node p0) (map fst acc)) eqn:E.
    + apply memZ_In in E. split; [tauto|]. intros [H|[<-|H]]; auto.
    + rewrite in_app_iff. simpl. tauto.
Qed.

Lemma gbl_spec (ps : list path) :
  (forall w l, In (w, l) (group_by_last ps []) -> l <> [] /\ forall p, In p l -> last_node p = w /\ In p ps) /\
  (forall p, In p ps -> exists l, In (last_node p, l) (group_by_last ps [])).
Proof.
  split.
  - apply (gbl_sound (fun p => In p ps)).
    + intros w l [].
    + intros p Hp. exact Hp.
  - intros p Hp.
    assert (Hk : In (last_node p) (map fst (group_by_last ps []))).
    { apply gbl_keys. right. apply in_map. exact Hp. }
    apply in_map_iff in Hk. destruct Hk as ([w l] & Ew & Hin). simpl in Ew. subst w. exists l. exact Hin.
Qed.

Lemma min_among_nonempty (m : path -> Z) (l : list path) : l <> [] -> min_among m l <> [].
Proof.
  intros Hne Hnil. assert (Hs := select_nonempty m l Hne).
  destruct (select m l) as [|x r] eqn:E; [congruence|].
  assert (Hx : In x (select m l)) by (rewrite E; left; reflexivity).
  apply select_spec in Hx. apply min_among_spec in Hx. rewrite Hnil in Hx. destruct Hx.
Qed.

Lemma pick_nonempty (ptype : Z) (l : list path) : l <> [] -> pick ptype (annotate_paths l) <> [].
Proof.
  intros Hne. unfold pick, annotate_paths. cbv zeta.
  destruct (ptype =? 0); [simpl; apply select_nonempty; exact Hne|].
  destruct (ptype =? 1); [simpl; apply select_nonempty; exact Hne|].
  destruct (ptype =? 2); [simpl; apply select_nonempty; exact Hne|].
  destruct (ptype =? 3); simpl; apply min_among_nonempty, select_nonempty; exact Hne.
Qed.

Theorem t_distances_nonempty (ptype u : Z) (ps : list path) :
  t_distances ptype u ps <> [] <-> exists p, In p ps /\ last_node p <> u.
Proof.
  destruct (gbl_spec ps) as [G1 G2]. unfold t_distances. split.
  - intros H.
    destruct (flat_map _ (group_by_last ps [])) as [|e rest] eqn:E; [congruence|]. clear H.
    assert (He : In e (e :: rest)) by (left; reflexivity).
    rewrite <- E in He. apply in_flat_map in He. destruct He as ([w l] & Hin & Hx).
    destruct (w =? u) eqn:Ew; [destruct Hx|].
    destruct (G1 w l Hin) as [Hne Hl].
    destruct l as [|p l']; [congruence|].
    destruct (Hl p (or_introl eq_refl)) as [Hw Hp].
    exists p. split; [exact Hp|]. lia.
  - intros (p & Hp & Hne).
    destruct (G2 p Hp) as (l & Hin).
    destruct (G1 _ l Hin) as [Hl _].
    assert (Hpk := pick_nonempty ptype l Hl).
    destruct (pick ptype (annotate_paths l)) as [|x r] eqn:Epk; [congruence|].
    intros Enil.
    assert (Hmem : In (last_node p, minZ_list (path_length x) (map path_length (x :: r)))
                      (flat_map (fun wl : Z * list path => let '(w, l) := wl in
                         if w =? u then [] else
                         match map path_length (pick ptype (annotate_paths l)) with
                         | [] => []
                         | x :: r => [(w, minZ_list x (x :: r))]
                         end) (group_by_last ps []))).
    { apply in_flat_map. exists (last_node p, l). split; [exact Hin|].
      destruct (last_node p =? u) eqn:Ew; [lia|]. rewrite Epk. left. reflexivity. }
    rewrite Enil in Hmem. destruct Hmem.
Qed.

(** ** the paths of a node present at [start] are its time respecting paths *)

Lemma nodes_at_node_ids g t n : In n (nodes_at g t) -> In n (node_ids g).
Proof.
  unfold nodes_at, degree_dict. intros H.
  apply in_map_iff in H. destruct H as ([n' d] & En & H). simpl in En. subst n'.
  apply filter_In in H. destruct H as [H _].
  apply in_map_iff in H. destruct H as (m & Em & H). inversion Em; subst m. exact H.
Qed.

Lemma all_trp_aget g s e us : forall sp u, all_trp g s e us = Some sp -> In u us ->
  exists l, aget Z.eqb u sp = Some l /\ time_respecting_paths g u None s e = PathsOk l.
Proof.
  induction us as [|u0 r IH]; intros sp u; cbn [all_trp]; [intros _ []|].
  destruct (time_respecting_paths g u0 None s e) as [l0|] eqn:Et; [|discriminate].
  destruct (all_trp g s e r) as [rest|] eqn:Er; [|discriminate].
  intros E Hin. inversion E; subst sp; clear E. simpl.
  destruct (u =? u0) eqn:Eu.
  - assert (u = u0) by lia. subst u0. exists l0. split; [reflexivity|exact Et].
  - destruct Hin as [->|Hin]; [lia|]. apply (IH rest u eq_refl Hin).
Qed.

Lemma paths_of_trp g s e sp u : all_time_respecting_paths g s e None = Some sp -> In u (node_ids g) ->
  time_respecting_paths g u None s e = PathsOk (paths_of u sp).
Proof.
  unfold all_time_respecting_paths. intros Ha Hu.
  destruct (all_trp_aget g s e (node_ids g) sp u Ha Hu) as (l & Eg & Et).
  unfold paths_of. rewrite Eg. exact Et.
Qed.

(** WHICH of the two values: with g the slice and sp the paths used by delta_conformity ([conf_setup]), the score
    of n is 1 iff n's table of reached nodes is non-empty, iff one of n's time respecting paths in the window
    ends in a node other than n; it is 0 otherwise. *)
Theorem conformity_same_label_which : forall dg start delta alphas tabs psize ptype l,
  (forall a, In a alphas -> 0 <= a) ->
  (forall tab n m, In tab tabs -> lab tab n = lab tab m) ->
  delta_conformity dg start delta alphas tabs psize ptype = ConfOk l ->
  exists g sp, conf_setup dg start delta g sp /\
    forall alpha profs scores n q, In (alpha, profs) l -> In scores profs -> In (n, q) scores ->
      ((q == 1)%Q <-> t_distances ptype n (paths_of n sp) <> []) /\
      ((q == 0)%Q <-> t_distances ptype n (paths_of n sp) = []) /\
      (t_distances ptype n (paths_of n sp) <> [] <-> exists p, In p (paths_of n sp) /\ last_node p <> n) /\
      (forall s e, all_time_respecting_paths g s e None = Some sp ->
                   time_respecting_paths g n None s e = PathsOk (paths_of n sp)).
Proof.
  intros dg start delta alphas tabs psize ptype l Hal Hsame Hok.
  destruct (conformity_ok_inv _ _ _ _ _ _ _ _ Hok) as (g & sp & Hset & ->).
  exists g, sp. split; [exact Hset|].
  intros alpha profs scores n q Hl Hp Hs.
  destruct (conf_table_entry _ _ _ _ _ _ _ _ _ _ _ _ Hl Hp Hs) as (Ha & Hn & prof & Hprof & ->).
  assert (E := conf_score_same_label g sp ptype prof alpha n (Hal alpha Ha)
                 (fun tab m Hin => Hsame tab m n (profiles_incl tabs psize prof Hprof tab Hin))).
  split; [|split; [|split]].
  - destruct (t_distances ptype n (paths_of n sp)) as [|x r].
    + split; [|congruence]. intros E1. rewrite E in E1. discriminate E1.
    + split; [discriminate|]. intros _. exact E.
  - destruct (t_distances ptype n (paths_of n sp)) as [|x r].
    + split; [reflexivity|]. intros _. exact E.
    + split; [|discriminate]. intros E0. rewrite E in E0. discriminate E0.
  - apply t_distances_nonempty.
  - intros s e Ha'. apply paths_of_trp; [exact Ha'|]. apply (nodes_at_node_ids g start). exact Hn.
Qed.

(** * 4. sliding windows *)

Lemma sliding_entry dg delta alphas tabs psize ptype t r :
  In (t, r) (sliding_delta_conformity dg delta alphas tabs psize ptype) ->
  exists t0, In t0 (snapshot_ids dg) /\ t = t0 + delta /\ t < last (snapshot_ids dg) 0 /\
             r = delta_conformity dg t0 delta alphas tabs psize ptype.
Proof.
  rewrite sliding_pointwise. intros H. apply in_flat_map in H. destruct H as (t0 & Ht0 & H).
  destruct (t0 + delta <? last (snapshot_ids dg) 0) eqn:E; [|destruct H].
  destruct H as [H|[]]. inversion H; subst t r; clear H.
  exists t0. split; [exact Ht0|]. split; [reflexivity|]. split; [lia|reflexivity].
Qed.

Theorem conformity_sliding_bounded : forall dg delta alphas tabs psize ptype,
  (forall a, In a alphas -> 0 <= a) ->
  forall t l, In (t, ConfOk l) (sliding_delta_conformity dg delta alphas tabs psize ptype) ->
  forall alpha profs scores n q, In (alpha, profs) l -> In scores profs -> In (n, q) scores -> (-1 <= q <= 1)%Q.
Proof.
  intros dg delta alphas tabs psize ptype Hal t l Hin.
  destruct (sliding_entry _ _ _ _ _ _ _ _ Hin) as (t0 & _ & _ & _ & E).
  apply (conformity_bounded dg t0 delta alphas tabs psize ptype l Hal). symmetry. exact E.
Qed.

Theorem conformity_sliding_same_label : forall dg delta alphas tabs psize ptype,
  (forall a, In a alphas -> 0 <= a) ->
  (forall tab n m, In tab tabs -> lab tab n = lab tab m) ->
  forall t l, In (t, ConfOk l) (sliding_delta_conformity dg delta alphas tabs psize ptype) ->
  forall alpha profs scores n q, In (alpha, profs) l -> In scores profs -> In (n, q) scores -> (q == 0 \/ q == 1)%Q.
Proof.
  intros dg delta alphas tabs psize ptype Hal Hsame t l Hin.
  destruct (sliding_entry _ _ _ _ _ _ _ _ Hin) as (t0 & _ & _ & _ & E).
  apply (conformity_same_label dg t0 delta alphas tabs psize ptype l Hal Hsame). symmetry. exact E.
Qed.

Theorem conformity_sliding_label_renaming : forall (h : Z -> Z) dg delta alphas tabs psize ptype,
  (forall a b, h a = h b -> a = b) -> h 0 = 0 ->
  sliding_delta_conformity dg delta alphas (map (fun tab => map (fun nv => (fst nv, h (snd nv))) tab) tabs) psize ptype
  = sliding_delta_conformity dg delta alphas tabs psize ptype.
Proof.
  intros h dg delta alphas tabs psize ptype Hinj H0. rewrite !sliding_pointwise.
  apply flat_map_ext. intros t. rewrite (conformity_label_renaming h dg t delta alphas tabs psize ptype Hinj H0).
  reflexivity.
Qed.

(** * 5. renaming the label values along ANY injective map, when the tables cover the nodes of the slice

    No [h 0 = 0]: instead every node of the slice carries every label.  The nodes a score looks at -- the node
    itself, the nodes it reaches (last nodes of its time respecting paths), their neighbours -- are all nodes of
    the slice, because a slice is a well formed graph ([WFG_time_slice]). *)

Lemma by_rank_members sp : forall acc r ns n, In (r, ns) (by_rank sp acc) -> In n ns ->
  (exists r' ns', In (r', ns') acc /\ In n ns') \/ In n (map fst sp).
Proof.
  induction sp as [|[m d] sp IH]; intros acc r ns n Hin Hn; simpl in *.
  - left. exists r, ns. split; assumption.
  - destruct (IH _ _ _ _ Hin Hn) as [(r' & ns' & Ha & Hn')|H]; [|right; right; exact H].
    apply aset_in in Ha. destruct Ha as [[Er Ens]|Ha]; [|left; exists r', ns'; split; assumption].
    subst r' ns'. apply in_app_or in Hn'. destruct Hn' as [Hn'|[<-|[]]]; [|right; left; reflexivity].
    destruct (aget Z.eqb d acc) as [old|] eqn:Eg; [|destruct Hn'].
    apply aget_In in Eg. left. exists d, old. split; assumption.
Qed.

Lemma remap_fst td : map fst (remap td) = map fst td.
Proof. unfold remap. rewrite map_map. reflexivity. Qed.

Lemma t_distances_keys ptype u ps w :
  In w (map fst (t_distances ptype u ps)) -> exists p, In p ps /\ last_node p = w.
Proof.
  destruct (gbl_spec ps) as [G1 _]. unfold t_distances. intros H.
  apply in_map_iff in H. destruct H as ([w' d] & Ew & H). simpl in Ew. subst w'.
  apply in_flat_map in H. destruct H as ([w0 l] & Hin & Hx).
  destruct (G1 w0 l Hin) as [Hne Hl].
  destruct (w0 =? u); [destruct Hx|].
  destruct (map path_length (pick ptype (annotate_paths l))) as [|x r]; [destruct Hx|].
  destruct Hx as [Hx|[]]. inversion Hx; subst w0 d; clear Hx.
  destruct l as [|p l']; [congruence|].
  destruct (Hl p (or_introl eq_refl)) as [Hw Hp]. exists p. split; assumption.
Qed.

Lemma last_node_in (p : path) : p <> [] -> exists a t, In (a, last_node p, t) p.
Proof.
  intros Hne. destruct (exists_last Hne) as (l' & [[a b] t] & ->).
  unfold last_node. rewrite last_last. simpl. exists a, t. apply in_or_app. right. left. reflexivity.
Qed.

Lemma nbrs_at_nodes g a t b : InvAdj g -> In b (nbrs_at g a t) -> In b (node_ids g).
Proof.
  intros HI H. unfold nbrs_at in H. apply filter_In in H. destruct H as [_ H].
  apply (has_interaction_nodes g a b t HI H).
Qed.

Lemma nbr_of_nodes g td v x : InvAdj g -> In x (nbr_of g td v) -> In x (node_ids g).
Proof.
  intros HI. unfold nbr_of, neighbors.
  destruct (has_node_flat g v); [apply nbrs_at_nodes; exact HI|].
  destruct (g_dir g); intros [].
Qed.

Lemma trp_last_node g u s e l p : InvAdj g -> NoDup (map fst (g_snaps g)) ->
  time_respecting_paths g u None s e = PathsOk l -> In p l -> In (last_node p) (node_ids g).
Proof.
  intros HI Hnd Ht Hp.
  destruct (paths_sound g u None s e l p Hnd Ht Hp) as (Hne & _ & _ & Hhops & _).
  destruct (last_node_in p Hne) as (a & t & Hin).
  destruct (Hhops a (last_node p) t Hin) as [Hnb _].
  apply (nbrs_at_nodes g a (Some t) _ HI Hnb).
Qed.

Lemma node_score_label_renaming_total g (h : Z -> Z) prof alpha u s e sp ptype :
  (forall a b, h a = h b -> a = b) -> InvAdj g -> NoDup (map fst (g_snaps g)) ->
  all_time_respecting_paths g s e None = Some sp -> In u (node_ids g) ->
  (forall tab n, In tab prof -> In n (node_ids g) -> In n (map fst tab)) ->
  node_score g (map (fun tab => map (fun nv => (fst nv, h (snd nv))) tab) prof) alpha u
             (t_distances ptype u (paths_of u sp))
  = node_score g prof alpha u (t_distances ptype u (paths_of u sp)).
Proof.
  intros Hinj HI Hnd Ha Hu Hcov. apply node_score_ext. intros r nodes Hr.
  apply (label_frequency_map_ext g (fun tab => map (fun nv => (fst nv, h (snd nv))) tab)).
  intros tab Htab. apply label_factor_renaming_alt2; [exact Hinj|].
  intros n Hn. apply (Hcov tab n Htab).
  destruct Hn as [<-|Hn]; [exact Hu|].
  apply in_app_or in Hn. destruct Hn as [Hn|Hn].
  - destruct (by_rank_members _ _ _ _ _ Hr Hn) as [(r' & ns' & [] & _)|Hk].
    rewrite remap_fst in Hk. apply t_distances_keys in Hk. destruct Hk as (p & Hp & <-).
    apply (trp_last_node g u s e (paths_of u sp) p HI Hnd); [|exact Hp].
    apply paths_of_trp; assumption.
  - apply in_flat_map in Hn. destruct Hn as (v & _ & Hx). apply (nbr_of_nodes g _ v n HI Hx).
Qed.

(** a slice removes its edges' ends ([g_rem] = true), so it carries the snapshot invariant *)
Lemma add_runs_rem u v runs : forall h, g_rem (fst (add_runs h u v runs)) = g_rem h.
Proof.
  induction runs as [|[s f] r IH]; intros h; simpl; [reflexivity|].
  pose proof (flags_add h u v (Some s) (Some (f + 1))) as Hf.
  destruct (add_interaction h u v (Some s) (Some (f + 1))) as [h' o]. simpl in Hf.
  destruct o; simpl; try exact Hf. rewrite IH. exact Hf.
Qed.

Lemma add_all_runs_rem l : forall h, g_rem (fst (add_all_runs h l)) = g_rem h.
Proof.
  induction l as [|[[u v] runs] r IH]; intros h; simpl; [reflexivity|].
  pose proof (add_runs_rem u v runs h) as Hf.
  destruct (add_runs h u v runs) as [h' o]. simpl in Hf.
  destruct o; simpl; try exact Hf. rewrite IH. exact Hf.
Qed.

Lemma time_slice_rem g a b H o : time_slice g a b = (Some H, o) -> g_rem H = true.
Proof.
  unfold time_slice. destruct (_ <? a); [discriminate|].
  match goal with |- context [add_all_runs ?g0 ?l] => pose proof (add_all_runs_rem l g0) as Hr;
    destruct (add_all_runs g0 l) as [h' o'] end.
  simpl in Hr. destruct o'; intros E; inversion E; subst. exact Hr.
Qed.

Lemma time_slice_wf g a b H o : time_slice g a b = (Some H, o) -> InvAdj H /\ NoDup (map fst (g_snaps H)).
Proof.
  intros E. destruct (WFG_time_slice g a b H o E) as (_ & HI & Hrem). split; [exact HI|].
  destruct (Hrem (time_slice_rem g a b H o E)) as (_ & _ & Hnd & _). exact Hnd.
Qed.

Theorem conformity_label_renaming_total : forall (h : Z -> Z) dg start delta alphas tabs psize ptype,
  (forall a b, h a = h b -> a = b) ->
  (forall g, fst (time_slice dg start (Some (start + delta))) = Some g ->
     forall tab n, In tab tabs -> In n (node_ids g) -> In n (map fst tab)) ->
  delta_conformity dg start delta alphas (map (fun tab => map (fun nv => (fst nv, h (snd nv))) tab) tabs) psize ptype
  = delta_conformity dg start delta alphas tabs psize ptype.
Proof.
  intros h dg start delta alphas tabs psize ptype Hinj Hcov.
  unfold delta_conformity. rewrite map_length. unfold labtab.
  destruct ((length tabs <? psize)%nat || (length alphas =? 0)%nat || (length tabs =? 0)%nat); [reflexivity|].
  destruct (time_slice dg start (Some (start + delta))) as [[g|] o] eqn:Ets; [|reflexivity].
  destruct (time_slice_wf _ _ _ _ _ Ets) as [HI Hnd].
  specialize (Hcov g eq_refl).
  destruct (snapshot_ids g) as [|i0 ids]; [reflexivity|].
  destruct (all_time_respecting_paths g _ _ None) as [sp|] eqn:Ea; [|reflexivity].
  f_equal. apply map_ext. intros alpha. f_equal.
  rewrite profiles_map, map_map. apply map_ext_in. intros prof Hprof. apply map_ext_in. intros u Hu.
  f_equal. f_equal.
  apply (node_score_label_renaming_total g h prof alpha u _ _ sp ptype Hinj HI Hnd Ea).
  - apply (nodes_at_node_ids g start). exact Hu.
  - intros tab n Htab Hn. apply (Hcov tab n); [|exact Hn]. exact (profiles_incl tabs psize prof Hprof tab Htab).
Qed.

(** the same with the condition stated on the source graph: "every node of dg is in every table" *)
Theorem conformity_label_renaming_total_source : forall (h : Z -> Z) dg start delta alphas tabs psize ptype,
  (forall a b, h a = h b -> a = b) -> Good dg ->
  (forall tab n, In tab tabs -> In n (node_ids dg) -> In n (map fst tab)) ->
  delta_conformity dg start delta alphas (map (fun tab => map (fun nv => (fst nv, h (snd nv))) tab) tabs) psize ptype
  = delta_conformity dg start delta alphas tabs psize ptype.
Proof.
  intros h dg start delta alphas tabs psize ptype Hinj HG Hcov.
  apply conformity_label_renaming_total; [exact Hinj|].
  intros g Hg tab n Htab Hn. apply (Hcov tab n Htab).
  destruct (time_slice dg start (Some (start + delta))) as [og o] eqn:Ets. simpl in Hg. subst og.
  assert (Hab : start <= start + delta).
  { unfold time_slice in Ets. destruct (start + delta <? start) eqn:E; [discriminate|lia]. }
  assert (Ho : o = Done).
  { unfold time_slice in Ets. destruct (start + delta <? start); [discriminate|].
    destruct (add_all_runs _ _) as [h' o']. destruct o'; inversion Ets; reflexivity. }
  subst o.
  destruct (slice_nodes dg start (start + delta) g n HG Hab Ets) as [Hiff _].
  apply Hiff in Hn. destruct Hn as (v & tau & _ & Hh).
  destruct HG as (_ & _ & HIdg).
  destruct Hh as [Hh|Hh]; apply (has_interaction_nodes _ _ _ _ HIdg) in Hh; tauto.
Qed.

(** * 6. the side conditions are needed at the level of the result, and the theorems are not vacuous

    1 - 2 at instant 0, 2 - 3 at instant 1; window [0, 2].  Node 3 carries no label: [lab] answers the default 0 for
    it, which the injective renaming x |-> x + 7 does not fix, and the whole result changes. *)
Definition ex_graph : graph :=
  fst (add_interaction (fst (add_interaction (empty_graph false true) 1 2 (Some 0) None)) 2 3 (Some 1) None).

Example conformity_label_renaming_counterexample :
  let h := fun x => x + 7 in
  (forall a b, h a = h b -> a = b) /\
  delta_conformity ex_graph 0 2 [1] [[(1, 0); (2, 0)]] 1 0 = ConfOk [(1, [[(1, 1%Q); (2, 1%Q)]])] /\
  delta_conformity ex_graph 0 2 [1] (map (fun tab => map (fun nv => (fst nv, h (snd nv))) tab) [[(1, 0); (2, 0)]]) 1 0
  = ConfOk [(1, [[(1, 1 # 3); (2, 0%Q)]])].
Proof. split; [intros a b; lia|split; vm_compute; reflexivity]. Qed.

(** with node 3 in the table the same renaming changes nothing (conformity_label_renaming_total) *)
Example conformity_label_renaming_total_example :
  let h := fun x => x + 7 in
  delta_conformity ex_graph 0 2 [1] (map (fun tab => map (fun nv => (fst nv, h (snd nv))) tab) [[(1, 0); (2, 0); (3, 1)]]) 1 0
  = delta_conformity ex_graph 0 2 [1] [[(1, 0); (2, 0); (3, 1)]] 1 0 /\
  delta_conformity ex_graph 0 2 [1] [[(1, 0); (2, 0); (3, 1)]] 1 0 = ConfOk [(1, [[(1, 1 # 3); (2, 0%Q)]])].
Proof. split; vm_compute; reflexivity. Qed.

(** one shared value: both nodes present at 0 reach another node, both scores are 1 *)
Example conformity_same_label_example :
  delta_conformity ex_graph 0 2 [1] [[(1, 5); (2, 5); (3, 5)]] 1 0 = ConfOk [(1, [[(1, 1%Q); (2, 1%Q)]])] /\
  sliding_delta_conformity ex_graph 0 [1] [[(1, 5); (2, 5); (3, 5)]] 1 0 = [(0, ConfOk [(1, [[(1, 1%Q); (2, 1%Q)]])])].
Proof. split; vm_compute; reflexivity. Qed.

Print Assumptions conformity_bounded.
Print Assumptions conformity_label_renaming.
Print Assumptions conformity_label_renaming_total.
Print Assumptions conformity_label_renaming_total_source.
Print Assumptions conformity_same_label.
Print Assumptions conformity_same_label_which.
Print Assumptions conformity_sliding_bounded.
Print Assumptions conformity_sliding_same_label.
Print Assumptions conformity_sliding_label_renaming.
