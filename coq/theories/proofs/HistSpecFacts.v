(** HistSpecFacts: the snapshot and flattened queries of a reachable removal-enabled graph, of BOTH classes
    (DynGraph: dir = false, DynDiGraph: dir = true), stated directly over the history of accepted calls.
    Generalises theories/proofs/StatsSpecFacts.v (undirected only).  Nothing on the right-hand sides looks at the
    graph state, except that the finite universe of nodes is [node_ids g], itself characterised by [hist_nodes]. *)
From DynVerif Require Import Base Graph Derived Spec Stats StatsSpec.
From DynVerif.proofs Require Import AListFacts CoreInv C01Facts QueryFacts QueryFacts2 SnapInv DerivedFacts StatsSpecFacts.
From Coq Require Import Sorting.Sorted Sorting.Permutation.

(** * history-level definitions (no graph state) *)
Definition hs_pair (dir : bool) (h : list call) (u v t : Z) : bool := pres dir true h (nk dir u v) t.          (* u->v (or {u,v}) present at t *)
Definition hs_node (h : list call) (u t : Z) : bool := existsb (fun c => ((c_u c =? u) || (c_v c =? u)) && in_span true t c) h.
Definition hs_inhabited (h : list call) (t : Z) : bool := existsb (in_span true t) h.
Definition hs_is_node (h : list call) (u : Z) : Prop := exists c, In c h /\ (c_u c = u \/ c_v c = u).
Definition hs_named (dir : bool) (h : list call) (u v : Z) : bool := named dir true h (nk dir u v).

(** * sanity tests: every statement below, evaluated on concrete call lists, both classes.
    The lists contain a reciprocal directed pair, self-loops, empty-span calls (e <= t), rejected calls
    (start before the latest run), a second run after a gap, and key lists [ks] with extra (absent / non-normalised) keys. *)
Module Sanity.
Definition is_node_b (h : list call) (u : Z) : bool := existsb (fun c => (c_u c =? u) || (c_v c =? u)) h.
Fixpoint nodupb (l : list Z) : bool := match l with [] => true | x :: r => negb (memZ x r) && nodupb r end.
Definition same_set (l : list Z) (p : Z -> bool) (rng : list Z) : bool :=
  nodupb l && forallb p l && forallb (fun x => Bool.eqb (memZ x l) (p x)) rng.
Fixpoint sortedb (l : list Z) : bool := match l with a :: ((b :: _) as r) => (a <? b) && sortedb r | _ => true end.
Definition pmem (k : Z * Z) (l : list (Z * Z)) := existsb (peqb k) l.
Fixpoint dedupk (l : list (Z * Z)) : list (Z * Z) := match l with [] => [] | k :: r => if pmem k r then dedupk r else k :: dedupk r end.
Fixpoint nodupk (l : list (Z * Z)) : bool := match l with [] => true | k :: r => negb (pmem k r) && nodupk r end.

Definition N := zrange (-1) 9.     (* node range -1..7 *)
Definition T := zrange (-7) 20.    (* instants -7..12 *)

(* one boolean per lemma, in the order of the lemmas; the last one is hist_size on whatever class is run *)
Definition check (dir : bool) (cs : list call) (extra : list (Z * Z)) : list bool :=
  let g := run_calls (G0 dir) cs in
  let h := accepted (G0 dir) cs in
  let ks := dedupk (map (ckey dir) h) ++ extra in
  let V := node_ids g in
  [ nodupk ks;
    (* hist_pair *) forallb (fun u => forallb (fun v => forallb (fun t => Bool.eqb (has_interaction g u v (Some t)) (hs_pair dir h u v t)) T) N) N;
    (* hist_pair_flat *) forallb (fun u => forallb (fun v => Bool.eqb (has_interaction g u v None) (hs_named dir h u v)) N) N;
    (* hist_node *) forallb (fun u => forallb (fun t => Bool.eqb (has_node g u (Some t)) (hs_node h u t)) T) N;
    (* hist_nodes *) same_set V (is_node_b h) N;
    (* hist_nodes_at *) forallb (fun t => same_set (nodes_at g t) (fun u => hs_node h u t) N) T;
    (* hist_number_of_nodes *) forallb (fun t => number_of_nodes g (Some t) =? card (fun u => hs_node h u t) V) T
                                && (number_of_nodes g None =? Z.of_nat (length V));
    (* hist_neighbors *) forallb (fun u => forallb (fun t => same_set (nbrs_at g u (Some t)) (fun v => hs_pair dir h u v t) N
                                                          && same_set (preds_at g u (Some t)) (fun v => hs_pair dir h v u t) N) T) N;
    (* hist_degree *) forallb (fun u => forallb (fun t => deg1 g (Some t) u =?
                          (if dir then card (fun v => hs_pair dir h u v t) V + card (fun v => hs_pair dir h v u t) V
                           else card (fun v => hs_pair dir h u v t) V)) T) N;
    (* hist_ids *) same_set (snapshot_ids g) (hs_inhabited h) T && sortedb (snapshot_ids g);
    (* hist_count *) forallb (fun t => let '(a, b) := interactions_per_snapshot g t in
                          (a =? 2 * Z.of_nat (length (filter (fun k => pres dir true h k t) ks))) && (b =? 2)) T;
    (* hist_size *) forallb (fun t => size g (Some t) =? Z.of_nat (length (filter (fun k => pres dir true h k t) ks))) T ].

Definition cs1 := [mkCall 1 2 0 (Some 3); mkCall 2 1 2 (Some 5); mkCall 3 3 1 None; mkCall 4 5 3 (Some 3);
                   mkCall 1 2 (-5) None; mkCall 2 3 1 (Some 4); mkCall 1 2 7 (Some 9); mkCall 6 6 2 (Some 1)].
Definition cs2 := [mkCall 5 1 4 (Some 8); mkCall 1 5 4 (Some 6); mkCall 1 1 5 (Some 7); mkCall 5 1 3 None; mkCall 1 5 10 (Some 2);
                   mkCall 0 1 6 None; mkCall 1 0 6 None; mkCall 7 0 0 (Some 0)].
Definition cs3 : list call := [].
Definition cs4 := [mkCall 2 2 0 (Some 2); mkCall 2 3 1 (Some 3); mkCall 3 2 1 (Some 2); mkCall 2 2 (-1) None; mkCall 2 2 4 None; mkCall 3 4 2 (Some 2)].

Definition all_true (l : list bool) := forallb (fun b => b) l.
(* every statement holds on the digraph, hist_size included *)
Eval vm_compute in (check true cs1 [], check true cs2 [(9, 9); (5, 9)], check true cs3 [], check true cs4 []).
Example sanity_directed :
  all_true (check true cs1 [] ++ check true cs2 [(9, 9); (5, 9)] ++ check true cs3 [] ++ check true cs4 []) = true.
Proof. vm_compute. reflexivity. Qed.
(* on the undirected graph every statement holds except hist_size (last component: the undirected degree counts a
   self-loop once, so the degree sum is not twice the number of pairs) -- which is why hist_size is stated for
   dir = true only *)
Eval vm_compute in (check false cs1 [], check false cs2 [(5, 1); (9, 9)], check false cs3 [(1, 2)], check false cs4 [(3, 2)]).
Example sanity_undirected :
  all_true (removelast (check false cs1 []) ++ removelast (check false cs2 [(5, 1); (9, 9)]) ++
            removelast (check false cs3 [(1, 2)]) ++ removelast (check false cs4 [(3, 2)])) = true.
Proof. vm_compute. reflexivity. Qed.
Example sanity_size_undirected_fails : last (check false cs1 []) true = false.
Proof. vm_compute. reflexivity. Qed.
(* the hypothesis [NoDup ks] of hist_count is needed: a key listed twice is counted twice *)
Example sanity_count_needs_nodup : nth 10 (check true cs2 [(1, 5)]) true = false.
Proof. vm_compute. reflexivity. Qed.
End Sanity.

(** * auxiliary facts, not tied to a run *)
Lemma nk_inj dir a b u v : nk dir a b = nk dir u v -> (a, b) = (u, v) \/ (a, b) = (v, u).
Proof. destruct dir; [unfold nk; intros H; left; exact H|apply nk_false_inj]. Qed.

(** presence of an arbitrary key (not necessarily of the form [nk dir u v]) is the presence relation *)
Lemma key_present_pres g h k t : Inv g h -> g_rem g = true ->
  key_present g k (Some t) = pres (g_dir g) true h k t.
Proof.
  intros HI Hr. unfold key_present. destruct (HI k) as (Hc & Hm & _).
  rewrite Hr in Hm. rewrite <- Hm.
  destruct (aget peqb k (g_edges g)) as [tl|]; simpl; [|reflexivity].
  unfold presence_test. rewrite Hr. apply presence_mem. exact Hc.
Qed.

Lemma pres_ckey dir rem h k t : pres dir rem h k t = true -> exists c, In c h /\ ckey dir c = k /\ in_span rem t c = true.
Proof.
  unfold pres. intros H. apply existsb_exists in H. destruct H as (c & Hc & Hb).
  apply andb_true_iff in Hb. destruct Hb as (Hk & Hs). apply peqb_eq in Hk. exists c. auto.
Qed.

Lemma pres_intro dir rem h c t : In c h -> in_span rem t c = true -> pres dir rem h (ckey dir c) t = true.
Proof.
  intros Hc Hs. unfold pres. apply existsb_exists. exists c. split; [exact Hc|]. rewrite peqb_refl, Hs. reflexivity.
Qed.

Lemma sorted_lt_NoDup l : StronglySorted Z.lt l -> NoDup l.
Proof.
  induction l as [|x r IH]; intros Hs; [constructor|].
  inversion Hs as [|? ? Hs' Hf]; subst. constructor; [|apply IH; exact Hs'].
  intros Hin. rewrite Forall_forall in Hf. specialize (Hf x Hin). lia.
Qed.

Section Reach.
Variable dir : bool.
Variable cs : list call.
Let g := run_calls (G0 dir) cs.
Let h := accepted (G0 dir) cs.

Lemma hr_good : Good g.
Proof. apply Good_reach. Qed.
Lemma hr_adj : InvAdj g.
Proof. apply hr_good. Qed.
Lemma hr_dir : g_dir g = dir.
Proof. apply (reach_flags dir cs). Qed.
Lemma hr_rem : g_rem g = true.
Proof. apply (reach_flags dir cs). Qed.
Lemma hr_inv : Inv g h.
Proof. apply Inv_reach. Qed.
Lemma hr_snap : InvSnap g.
Proof. apply (InvSnap_run cs (G0 dir) []); [reflexivity|apply Inv_init|apply InvSnap_init]. Qed.

(** ** pairs *)
Lemma hist_pair : forall u v t, has_interaction g u v (Some t) = hs_pair dir h u v t.
Proof. intros u v t. apply (presence_thm dir cs u v t). Qed.

Lemma hist_pair_flat : forall u v, has_interaction g u v None = hs_named dir h u v.
Proof. intros u v. apply (flat_thm dir cs u v). Qed.

Lemma hist_key : forall k t, key_present g k (Some t) = pres dir true h k t.
Proof. intros k t. rewrite (key_present_pres g h k t hr_inv hr_rem), hr_dir. reflexivity. Qed.

(** a call whose span contains t makes its own pair present at t *)
Lemma hs_pair_call c t : In c h -> in_span true t c = true -> hs_pair dir h (c_u c) (c_v c) t = true.
Proof. intros Hc Hs. unfold hs_pair. apply (pres_intro dir true h c t Hc Hs). Qed.

(** a present pair comes from a call on that pair *)
Lemma hs_pair_inv u v t : hs_pair dir h u v t = true ->
  exists c, In c h /\ in_span true t c = true /\ ((c_u c, c_v c) = (u, v) \/ (c_u c, c_v c) = (v, u)).
Proof.
  intros Hp. unfold hs_pair in Hp. apply pres_ckey in Hp. destruct Hp as (c & Hc & Hk & Hs).
  exists c. split; [exact Hc|]. split; [exact Hs|]. unfold ckey in Hk. apply nk_inj in Hk. exact Hk.
Qed.

(** ** nodes *)
Lemma hist_node : forall u t, has_node g u (Some t) = hs_node h u t.
Proof.
  intros u t. apply Bool.eq_true_iff_eq.
  rewrite (has_node_spec g u t hr_adj), (nodes_at_spec g u t hr_adj).
  unfold hs_node. rewrite existsb_exists. split.
  - intros (v & Hv).
    assert (Hex : exists c, In c h /\ in_span true t c = true /\ (c_u c = u \/ c_v c = u)).
    { destruct Hv as [Hv|Hv]; rewrite hist_pair in Hv; apply hs_pair_inv in Hv;
        destruct Hv as (c & Hc & Hs & [E|E]); inversion E; exists c; auto. }
    destruct Hex as (c & Hc & Hs & He). exists c. split; [exact Hc|]. rewrite Hs, andb_true_r.
    destruct He as [He|He]; lia.
  - intros (c & Hc & Hb). apply andb_true_iff in Hb. destruct Hb as (Hk & Hs).
    pose proof (hs_pair_call c t Hc Hs) as Hp. rewrite <- hist_pair in Hp.
    apply orb_true_iff in Hk. destruct Hk as [Hk|Hk].
    + assert (E : c_u c = u) by lia. exists (c_v c). left. rewrite <- E. exact Hp.
    + assert (E : c_v c = u) by lia. exists (c_u c). right. rewrite <- E. exact Hp.
Qed.

Lemma hist_nodes : enumerates (node_ids g) (hs_is_node h).
Proof.
  split; [apply hr_adj|]. intros x. unfold g. rewrite run_nodes. unfold hs_is_node. fold h.
  split; [intros [[]|H]; exact H|intros H; right; exact H].
Qed.

Lemma hist_nodes_at : forall t, enumerates (nodes_at g t) (fun u => hs_node h u t = true).
Proof.
  intros t. split; [apply nodes_at_NoDup, hr_adj|].
  intros u. rewrite <- (has_node_spec g u t hr_adj), hist_node. reflexivity.
Qed.

Lemma hist_number_of_nodes : forall t,
  number_of_nodes g (Some t) = card (fun u => hs_node h u t) (node_ids g)
  /\ number_of_nodes g None = Z.of_nat (length (node_ids g)).
Proof.
  intros t. split.
  - unfold number_of_nodes, card. rewrite nodes_at_filter. do 2 f_equal.
    apply filter_ext_in. intros n Hn. rewrite <- hist_node. unfold has_node.
    apply has_node_flat_In in Hn. rewrite Hn. reflexivity.
  - unfold number_of_nodes, node_ids. rewrite map_length. reflexivity.
Qed.

(** ** neighbours, predecessors, degree *)
Lemma hist_neighbors : forall u t,
  enumerates (nbrs_at g u (Some t)) (fun v => hs_pair dir h u v t = true)
  /\ enumerates (preds_at g u (Some t)) (fun v => hs_pair dir h v u t = true).
Proof.
  intros u t. split; split.
  - apply nbrs_at_NoDup, hr_adj.
  - intros v. rewrite (nbrs_at_spec g u v (Some t) hr_adj), hist_pair. reflexivity.
  - apply preds_at_NoDup, hr_adj.
  - intros v. rewrite (preds_at_spec g u v (Some t) hr_adj), hist_pair. reflexivity.
Qed.

Lemma nbrs_card u t : Z.of_nat (length (nbrs_at g u (Some t))) = card (fun v => hs_pair dir h u v t) (node_ids g).
Proof.
  unfold card. f_equal. apply Permutation_length, NoDup_Permutation.
  - apply nbrs_at_NoDup, hr_adj.
  - apply NoDup_filter. apply hr_adj.
  - intros v. rewrite (nbrs_at_spec g u v (Some t) hr_adj), filter_In, <- hist_pair.
    split; [|tauto]. intros H. split; [|exact H]. apply (has_interaction_nodes g u v _ hr_adj H).
Qed.

Lemma preds_card u t : Z.of_nat (length (preds_at g u (Some t))) = card (fun v => hs_pair dir h v u t) (node_ids g).
Proof.
  unfold card. f_equal. apply Permutation_length, NoDup_Permutation.
  - apply preds_at_NoDup, hr_adj.
  - apply NoDup_filter. apply hr_adj.
  - intros v. rewrite (preds_at_spec g u v (Some t) hr_adj), filter_In, <- hist_pair.
    split; [|tauto]. intros H. split; [|exact H]. apply (has_interaction_nodes g v u _ hr_adj H).
Qed.

(** the undirected degree counts a self-loop once (v = u is one element of the node list), the directed degree
    counts it twice (once as successor, once as predecessor): exactly what the two cards say *)
Lemma hist_degree : forall u t, deg1 g (Some t) u =
  if dir then card (fun v => hs_pair dir h u v t) (node_ids g) + card (fun v => hs_pair dir h v u t) (node_ids g)
  else card (fun v => hs_pair dir h u v t) (node_ids g).
Proof.
  intros u t. unfold deg1. rewrite hr_dir, nbrs_card, preds_card. reflexivity.
Qed.

(** ** snapshot ids *)
Lemma hist_ids : enumerates (snapshot_ids g) (fun t => hs_inhabited h t = true) /\ StronglySorted Z.lt (snapshot_ids g).
Proof.
  pose proof hr_snap as HS. pose proof hr_inv as HI.
  pose proof (ids_sorted g HS) as Hsorted.
  split; [|exact Hsorted]. split; [apply sorted_lt_NoDup; exact Hsorted|].
  intros t. rewrite (ids_spec g HS t).
  unfold count_present. rewrite length_pos_ex. unfold hs_inhabited. rewrite existsb_exists. split.
  - intros ([k tl] & Hin). apply filter_In in Hin. destruct Hin as (Hin & Hm). cbn [snd] in Hm.
    apply in_aget_nodup in Hin; [|apply HS].
    destruct (HI k) as (_ & Hmem & _). specialize (Hmem t). rewrite Hin in Hmem. cbn [omem] in Hmem.
    rewrite Hm in Hmem. symmetry in Hmem. apply pres_ckey in Hmem.
    destruct Hmem as (c & Hc & _ & Hs). exists c. split; [exact Hc|]. rewrite hr_rem in Hs. exact Hs.
  - intros (c & Hc & Hs). set (k := ckey dir c).
    destruct (HI k) as (_ & Hmem & _). specialize (Hmem t).
    assert (Hp : pres (g_dir g) (g_rem g) h k t = true).
    { rewrite hr_dir, hr_rem. unfold k. apply (pres_intro dir true h c t Hc Hs). }
    rewrite Hp in Hmem. destruct (aget peqb k (g_edges g)) as [tl|] eqn:Hg; [|discriminate].
    cbn [omem] in Hmem. exists (k, tl). apply filter_In. split; [apply aget_Some_in; exact Hg|exact Hmem].
Qed.

(** ** counting the pairs present at t *)
(** the adjacency keys present at t and the present keys of ANY duplicate-free list covering the history
    are the same set *)
Lemma present_keys_length t ks : NoDup ks -> (forall c, In c h -> In (ckey dir c) ks) ->
  length (filter (fun k => key_present g k (Some t)) (akeys (g_edges g)))
  = length (filter (fun k => pres dir true h k t) ks).
Proof.
  intros Hnd Hcov. apply Permutation_length, NoDup_Permutation.
  - apply NoDup_filter. apply hr_adj.
  - apply NoDup_filter. exact Hnd.
  - intros k. rewrite !filter_In, hist_key. split.
    + intros (_ & Hp). split; [|exact Hp]. apply pres_ckey in Hp. destruct Hp as (c & Hc & Hk & _).
      rewrite <- Hk. apply Hcov. exact Hc.
    + intros (_ & Hp). split; [|exact Hp]. apply (key_present_key g k (Some t)). rewrite hist_key. exact Hp.
Qed.

Lemma hist_count : forall t ks, NoDup ks -> (forall c, In c h -> In (ckey dir c) ks) ->
  interactions_per_snapshot g t = (2 * Z.of_nat (length (filter (fun k => pres dir true h k t) ks)), 2).
Proof.
  intros t ks Hnd Hcov. pose proof hr_snap as HS.
  destruct (ips_spec g HS t) as (H1 & H2).
  destruct (interactions_per_snapshot g t) as [a b]. cbn [fst snd] in H1, H2. subst a b. f_equal.
  rewrite (count_present_spec g t (proj1 HS) hr_rem (all_canon_of_Inv g h hr_inv)).
  rewrite (present_keys_length t ks Hnd Hcov). reflexivity.
Qed.

Lemma hist_size_directed : dir = true -> forall t ks, NoDup ks -> (forall c, In c h -> In (ckey dir c) ks) ->
  size g (Some t) = Z.of_nat (length (filter (fun k => pres dir true h k t) ks)).
Proof.
  intros Hd t ks Hnd Hcov.
  assert (Hgd : g_dir g = true) by (rewrite hr_dir; exact Hd).
  rewrite (size_directed g (Some t) hr_adj Hgd). unfold static_edges.
  rewrite (present_keys_length t ks Hnd Hcov). reflexivity.
Qed.
End Reach.

Check hist_pair : forall dir cs u v t,
  has_interaction (run_calls (G0 dir) cs) u v (Some t) = hs_pair dir (accepted (G0 dir) cs) u v t.
Print Assumptions hist_pair.
Print Assumptions hist_pair_flat.
Print Assumptions hist_node.
Print Assumptions hist_nodes.
Print Assumptions hist_nodes_at.
Print Assumptions hist_number_of_nodes.
Print Assumptions hist_neighbors.
Print Assumptions hist_degree.
Print Assumptions hist_ids.
Print Assumptions hist_count.
Print Assumptions hist_size_directed.
