(** RenameInjPaths: the path algorithms of Paths.v and the path annotation of Annotate.v commute with the renaming
    of node ids along an arbitrary injective map [f] ([renI f g], for graphs whose stored keys are normalised).
    The renamings of occurrences, DAG records, loop states and annotation records are those of RenamePaths.v;
    the facts of RenamePaths.v that do not depend on [f] being increasing (ren_occ_node, ren_dag_pairs,
    ren_path_length, ren_hop_time, ren_path_first, ren_last_time, ren_path_last, ren_path_duration) are used as is. *)
From DynVerif Require Import Base Graph Derived Annotate Paths Rename.
From DynVerif.proofs Require Import RenameCore RenameInjCore RenamePaths.

Section RenameInjPaths.
  Variable f : Z -> Z.
  Context (Hf : inj f).

  (** * 1. occurrences *)
  Lemma renI_occ_eqb a b : occ_eqb (ren_occ f a) (ren_occ f b) = occ_eqb a b.
  Proof.
    destruct a as [|n t], b as [|n' t']; simpl; try reflexivity.
    rewrite (inj_eqb f Hf). reflexivity.
  Qed.

  Lemma renI_omemb x l : omemb (ren_occ f x) (map (ren_occ f) l) = omemb x l.
  Proof. unfold omemb. apply existsb_map_comm. intros y. apply renI_occ_eqb. Qed.

  Lemma renI_oadd x l : oadd (ren_occ f x) (map (ren_occ f) l) = map (ren_occ f) (oadd x l).
  Proof.
    unfold oadd. rewrite renI_omemb. destruct (omemb x l); [reflexivity|].
    rewrite map_app. reflexivity.
  Qed.

  Lemma renI_edge_eqb a b : edge_eqb (ren_oedge f a) (ren_oedge f b) = edge_eqb a b.
  Proof. unfold edge_eqb, ren_oedge. simpl. rewrite !renI_occ_eqb. reflexivity. Qed.

  Lemma renI_eadd e l : eadd (ren_oedge f e) (map (ren_oedge f) l) = map (ren_oedge f) (eadd e l).
  Proof.
    unfold eadd.
    rewrite (existsb_map_comm (ren_oedge f) (edge_eqb e) (edge_eqb (ren_oedge f e)))
      by (intros y; apply renI_edge_eqb).
    destruct (existsb (edge_eqb e) l); [reflexivity|]. rewrite map_app. reflexivity.
  Qed.

  Lemma renI_fold_oadd l acc :
    fold_left (fun a k => oadd k a) (map (ren_occ f) l) (map (ren_occ f) acc)
    = map (ren_occ f) (fold_left (fun a k => oadd k a) l acc).
  Proof.
    apply (fold_left_map_comm (map (ren_occ f)) (ren_occ f) (fun a k => oadd k a) (fun a k => oadd k a)).
    intros a x. apply renI_oadd.
  Qed.

  Lemma renI_fold_eadd an l acc :
    fold_left (fun a n => eadd (ren_occ f an, n) a) (map (ren_occ f) l) (map (ren_oedge f) acc)
    = map (ren_oedge f) (fold_left (fun a n => eadd (an, n) a) l acc).
  Proof.
    apply (fold_left_map_comm (map (ren_oedge f)) (ren_occ f)
             (fun a n => eadd (an, n) a) (fun a n => eadd (ren_occ f an, n) a)).
    intros a x. apply (renI_eadd (an, x)).
  Qed.

  (** the occurrences of the neighbours at an instant *)
  Lemma renI_nbr_occs g root an tid (Hg : keys_norm g) :
    map (fun n => Occ n tid) (nbrs_t (renI f g) (occ_node (f root) (ren_occ f an)) tid)
    = map (ren_occ f) (map (fun n => Occ n tid) (nbrs_t g (occ_node root an) tid)).
  Proof. rewrite ren_occ_node, (renI_nbrs_t f Hf) by exact Hg. rewrite !map_map. reflexivity. Qed.

  (** * 2. the loop body, one instant, the whole DAG *)
  Lemma renI_visit g root v tid st an (Hg : keys_norm g) :
    visit (renI f g) (f root) (option_map f v) tid (ren_loop f st) (ren_occ f an)
    = ren_loop f (visit g root v tid st an).
  Proof.
    unfold visit. rewrite renI_nbr_occs by exact Hg.
    generalize (map (fun n => Occ n tid) (nbrs_t g (occ_node root an) tid)). intros nbrs.
    assert (Htg :
      match option_map f v with
      | Some v' => if omemb (Occ v' tid) (map (ren_occ f) nbrs)
                   then oadd (Occ v' tid) (l_targets (ren_loop f st)) else l_targets (ren_loop f st)
      | None => fold_left (fun acc k => oadd k acc) (map (ren_occ f) nbrs) (l_targets (ren_loop f st))
      end
      = map (ren_occ f)
          match v with
          | Some v' => if omemb (Occ v' tid) nbrs then oadd (Occ v' tid) (l_targets st) else l_targets st
          | None => fold_left (fun acc k => oadd k acc) nbrs (l_targets st)
          end).
    { destruct v as [v'|]; simpl.
      - change (Occ (f v') tid) with (ren_occ f (Occ v' tid)).
        rewrite renI_omemb. destruct (omemb (Occ v' tid) nbrs); [|reflexivity]. apply renI_oadd.
      - apply renI_fold_oadd. }
    rewrite Htg. clear Htg.
    destruct nbrs as [|n0 nr].
    - destruct an as [|an_n an_t]; simpl; unfold ren_loop; simpl; [reflexivity|].
      rewrite map_app. reflexivity.
    - destruct an as [|an_n an_t]; unfold ren_loop; cbn [map l_edges l_sources l_targets l_add l_remove ren_occ].
      + f_equal.
        * change (Occ (f root) tid) with (ren_occ f (Occ root tid)).
          change (ren_occ f n0 :: map (ren_occ f) nr) with (map (ren_occ f) (n0 :: nr)).
          apply renI_fold_eadd.
        * change (Occ (f root) tid) with (ren_occ f (Occ root tid)). apply renI_oadd.
        * rewrite map_app. reflexivity.
      + f_equal.
        * change (Occ (f an_n) an_t) with (ren_occ f (Occ an_n an_t)).
          change (ren_occ f n0 :: map (ren_occ f) nr) with (map (ren_occ f) (n0 :: nr)).
          apply renI_fold_eadd.
        * rewrite map_app. reflexivity.
  Qed.

  Lemma renI_visit_fold g root v tid active st (Hg : keys_norm g) :
    fold_left (visit (renI f g) (f root) (option_map f v) tid) (map (ren_occ f) active) (ren_loop f st)
    = ren_loop f (fold_left (visit g root v tid) active st).
  Proof.
    apply (fold_left_map_comm (ren_loop f) (ren_occ f)).
    intros acc x. apply renI_visit. exact Hg.
  Qed.

  Lemma renI_dag_step g root v st tid (Hg : keys_norm g) :
    dag_step (renI f g) (f root) (option_map f v) (ren_dagst f st) tid = ren_dagst f (dag_step g root v st tid).
  Proof.
    destruct st as [d active]. unfold ren_dagst, dag_step. cbn [fst snd].
    change (mkLoop (d_edges (ren_dag f d)) (d_sources (ren_dag f d)) (d_targets (ren_dag f d)) [] [])
      with (ren_loop f (mkLoop (d_edges d) (d_sources d) (d_targets d) [] [])).
    rewrite renI_visit_fold by exact Hg.
    set (l := fold_left (visit g root v tid) active (mkLoop (d_edges d) (d_sources d) (d_targets d) [] [])).
    f_equal.
    cbn [ren_loop l_add l_remove].
    rewrite (fold_left_map_comm (map (ren_occ f)) (ren_occ f) (fun acc n => oadd n acc) (fun acc n => oadd n acc))
      by (intros acc x; apply renI_oadd).
    apply filter_map_comm. intros x. rewrite renI_omemb. reflexivity.
  Qed.

  Lemma renI_dag_fold g root v ids st (Hg : keys_norm g) :
    fold_left (dag_step (renI f g) (f root) (option_map f v)) ids (ren_dagst f st)
    = ren_dagst f (fold_left (dag_step g root v) ids st).
  Proof.
    revert st. induction ids as [|i r IH]; intros st; cbn [fold_left]; [reflexivity|].
    rewrite renI_dag_step by exact Hg. apply IH.
  Qed.

  Theorem renI_temporal_dag g u v s e (Hg : keys_norm g) :
    temporal_dag (renI f g) (f u) (option_map f v) s e = ren_dag_res f (temporal_dag g u v s e).
  Proof.
    unfold temporal_dag. rewrite renI_window_ids by exact Hg.
    destruct (window_ids g s e) as [ids|]; [|reflexivity].
    simpl. f_equal.
    change (mkDag [] [] [], [Root]) with (ren_dagst f (mkDag [] [] [], [Root])).
    rewrite renI_dag_fold by exact Hg. reflexivity.
  Qed.

  (** * 3. the DFS over occurrences and the decoding of node paths *)
  Lemma renI_osuccs E x : osuccs (map (ren_oedge f) E) (ren_occ f x) = map (ren_occ f) (osuccs E x).
  Proof.
    unfold osuccs.
    rewrite (filter_map_comm (ren_oedge f) (fun e => occ_eqb (fst e) x))
      by (intros e; apply renI_occ_eqb).
    rewrite !map_map. reflexivity.
  Qed.

  Lemma renI_dfs E fuel visited x tgt :
    dfs (map (ren_oedge f) E) fuel (map (ren_occ f) visited) (ren_occ f x) (ren_occ f tgt)
    = map (map (ren_occ f)) (dfs E fuel visited x tgt).
  Proof.
    revert visited x. induction fuel as [|fu IH]; intros visited x; cbn [dfs]; [reflexivity|].
    rewrite renI_occ_eqb. destruct (occ_eqb x tgt); [reflexivity|].
    rewrite renI_osuccs.
    apply flat_map_map_comm. intros y.
    change (ren_occ f x :: map (ren_occ f) visited) with (map (ren_occ f) (x :: visited)).
    rewrite renI_omemb. destruct (omemb y (x :: visited)); [reflexivity|].
    rewrite IH, !map_map. reflexivity.
  Qed.

  Lemma renI_dag_nodes E : dag_nodes (map (ren_oedge f) E) = map (ren_occ f) (dag_nodes E).
  Proof.
    unfold dag_nodes.
    apply (fold_left_map_comm (map (ren_occ f)) (ren_oedge f)
             (fun acc e => oadd (snd e) (oadd (fst e) acc)) (fun acc e => oadd (snd e) (oadd (fst e) acc)) E []).
    intros acc e. unfold ren_oedge. cbn [fst snd]. rewrite !renI_oadd. reflexivity.
  Qed.

  Lemma renI_hops_of root p : hops_of (f root) (map (ren_occ f) p) = ren_path f (hops_of root p).
  Proof.
    induction p as [|a r IH]; [reflexivity|].
    destruct r as [|b r']; [reflexivity|].
    change (map (ren_occ f) (a :: b :: r')) with (ren_occ f a :: map (ren_occ f) (b :: r')).
    change (hops_of root (a :: b :: r'))
      with ((occ_node root a, occ_node root b, match b with Occ _ t => t | Root => 0 end) :: hops_of root (b :: r')).
    change (ren_path f ((occ_node root a, occ_node root b, match b with Occ _ t => t | Root => 0 end)
                          :: hops_of root (b :: r')))
      with ((f (occ_node root a), f (occ_node root b), match b with Occ _ t => t | Root => 0 end)
              :: ren_path f (hops_of root (b :: r'))).
    rewrite <- IH. cbn [map hops_of]. rewrite !ren_occ_node.
    destruct b; reflexivity.
  Qed.

  Lemma renI_pp_ok s rest : pp_ok (ren_hop f s) (ren_path f rest) = pp_ok s rest.
  Proof.
    revert s. induction rest as [|l r IH]; intros s; [reflexivity|].
    destruct s as [[su sv] st]. destruct l as [[lu lv] lt].
    cbn [ren_path map ren_hop pp_ok]. rewrite !(inj_eqb f Hf).
    destruct (((lu =? sv) && (lv =? su)) || (lt =? st)); [reflexivity|].
    apply (IH (lu, lv, lt)).
  Qed.

  Lemma renI_keep_path pt : keep_path (ren_path f pt) = keep_path pt.
  Proof. destruct pt as [|s r]; [reflexivity|]. apply renI_pp_ok. Qed.

  Lemma renI_hop_eqb a b : hop_eqb (ren_hop f a) (ren_hop f b) = hop_eqb a b.
  Proof.
    destruct a as [[a1 a2] a3], b as [[b1 b2] b3]. unfold hop_eqb. simpl.
    rewrite !(inj_eqb f Hf). reflexivity.
  Qed.

  Lemma renI_path_eqb p q : path_eqb (ren_path f p) (ren_path f q) = path_eqb p q.
  Proof.
    revert q. induction p as [|a p' IH]; intros [|b q']; try reflexivity.
    cbn [ren_path map path_eqb]. rewrite renI_hop_eqb. f_equal. apply IH.
  Qed.

  Lemma renI_hop_inj a b : ren_hop f a = ren_hop f b -> a = b.
  Proof.
    destruct a as [[a1 a2] a3], b as [[b1 b2] b3]. simpl. intros E. inversion E as [[E1 E2 E3]].
    apply Hf in E1. apply Hf in E2. subst. reflexivity.
  Qed.

  Lemma renI_path_inj p q : ren_path f p = ren_path f q -> p = q.
  Proof.
    revert q. induction p as [|a p' IH]; intros [|b q'] E; try reflexivity; try discriminate E.
    cbn [ren_path map] in E. inversion E as [[E1 E2]].
    apply renI_hop_inj in E1. apply IH in E2. subst. reflexivity.
  Qed.

  Lemma renI_dedup l seen :
    dedup (map (ren_path f) l) (map (ren_path f) seen) = map (ren_path f) (dedup l seen).
  Proof.
    revert seen. induction l as [|p r IH]; intros seen; [reflexivity|].
    cbn [map dedup].
    rewrite (existsb_map_comm (ren_path f) (path_eqb p) (path_eqb (ren_path f p)))
      by (intros q; apply renI_path_eqb).
    destruct (existsb (path_eqb p) seen); [apply IH|].
    cbn [map]. f_equal. apply (IH (p :: seen)).
  Qed.

  Lemma renI_dedup_nil l : dedup (map (ren_path f) l) [] = map (ren_path f) (dedup l []).
  Proof. apply (renI_dedup l []). Qed.

  Lemma renI_filter_keep l :
    filter keep_path (map (ren_path f) l) = map (ren_path f) (filter keep_path l).
  Proof. apply filter_map_comm. intros p. apply renI_keep_path. Qed.

  Lemma renI_dfs_hops E fuel root x y :
    map (hops_of (f root)) (dfs (map (ren_oedge f) E) fuel [] (ren_occ f x) (ren_occ f y))
    = map (ren_path f) (map (hops_of root) (dfs E fuel [] x y)).
  Proof.
    change (@nil occ) with (map (ren_occ f) []) at 1.
    rewrite renI_dfs, !map_map. apply map_ext. intros p. apply renI_hops_of.
  Qed.

  Theorem renI_all_paths_dag u d :
    all_paths_dag (f u) (ren_dag f d) = map (ren_path f) (all_paths_dag u d).
  Proof.
    unfold all_paths_dag. cbn [ren_dag d_edges d_sources d_targets].
    rewrite renI_dag_nodes, map_length.
    rewrite <- renI_dedup_nil, <- renI_filter_keep. do 2 f_equal.
    apply flat_map_map_comm. intros x.
    apply flat_map_map_comm. intros y.
    apply renI_dfs_hops.
  Qed.

  (** the sampled variant: the selection must itself commute with the renaming of the pairs *)
  Theorem renI_all_paths_dag_sel sel sel' u d :
    (forall l, sel' (map (ren_oedge f) l) = map (ren_oedge f) (sel l)) ->
    all_paths_dag_sel sel' (f u) (ren_dag f d) = map (ren_path f) (all_paths_dag_sel sel u d).
  Proof.
    intros Hsel. unfold all_paths_dag_sel. rewrite ren_dag_pairs, Hsel.
    cbn [ren_dag d_edges].
    rewrite renI_dag_nodes, map_length.
    rewrite <- renI_dedup_nil, <- renI_filter_keep. do 2 f_equal.
    apply flat_map_map_comm. intros xy. apply renI_dfs_hops.
  Qed.

  (** * 4. time_respecting_paths and all_time_respecting_paths *)
  Theorem renI_time_respecting_paths g u v s e (Hg : keys_norm g) :
    time_respecting_paths (renI f g) (f u) (option_map f v) s e
    = ren_paths_res f (time_respecting_paths g u v s e).
  Proof.
    unfold time_respecting_paths. rewrite (renI_has_node f Hf), renI_temporal_dag by exact Hg.
    destruct (negb (has_node g u s)); [reflexivity|].
    destruct (temporal_dag g u v s e) as [d|]; [|reflexivity].
    simpl. rewrite renI_all_paths_dag. reflexivity.
  Qed.

  Theorem renI_time_respecting_paths_sel sel sel' g u v s e (Hg : keys_norm g) :
    (forall l, sel' (map (ren_oedge f) l) = map (ren_oedge f) (sel l)) ->
    time_respecting_paths_sel sel' (renI f g) (f u) (option_map f v) s e
    = ren_paths_res f (time_respecting_paths_sel sel g u v s e).
  Proof.
    intros Hsel. unfold time_respecting_paths_sel. rewrite (renI_has_node f Hf), renI_temporal_dag by exact Hg.
    destruct (negb (has_node g u s)); [reflexivity|].
    destruct (temporal_dag g u v s e) as [d|]; [|reflexivity].
    simpl. rewrite (renI_all_paths_dag_sel sel sel' u d Hsel). reflexivity.
  Qed.

  Theorem renI_all_trp g s e us (Hg : keys_norm g) :
    all_trp (renI f g) s e (map f us)
    = option_map (map (fun ul => (f (fst ul), map (ren_path f) (snd ul)))) (all_trp g s e us).
  Proof.
    induction us as [|u r IH]; [reflexivity|].
    cbn [map all_trp].
    pose proof (renI_time_respecting_paths g u None s e Hg) as Ht. cbn [option_map] in Ht.
    rewrite Ht. clear Ht.
    destruct (time_respecting_paths g u None s e) as [l|]; [|reflexivity].
    cbn [ren_paths_res]. rewrite IH.
    destruct (all_trp g s e r) as [rest|]; reflexivity.
  Qed.

  Theorem renI_all_time_respecting_paths g s e m (Hg : keys_norm g) :
    all_time_respecting_paths (renI f g) s e m
    = option_map (map (fun ul => (f (fst ul), map (ren_path f) (snd ul)))) (all_time_respecting_paths g s e m).
  Proof.
    unfold all_time_respecting_paths.
    destruct m as [t|].
    - rewrite (renI_nodes_at f Hf) by exact Hg. apply renI_all_trp. exact Hg.
    - rewrite renI_node_ids by exact Hg. apply renI_all_trp. exact Hg.
  Qed.

  (** * 5. the path annotation *)
  Definition renI_selst (st : option Z * list path) : option Z * list path :=
    (fst st, map (ren_path f) (snd st)).

  Lemma renI_sel_step m m' st p :
    (forall q, m' (ren_path f q) = m q) ->
    sel_step m' (renI_selst st) (ren_path f p) = renI_selst (sel_step m st p).
  Proof.
    intros Hm. destruct st as [[b|] l]; unfold sel_step, renI_selst; cbn [fst snd]; rewrite Hm.
    - destruct (m p <? b); [reflexivity|].
      destruct (m p =? b); [|reflexivity].
      cbn [fst snd]. rewrite map_app. reflexivity.
    - reflexivity.
  Qed.

  Theorem renI_select m m' l :
    (forall p, m' (ren_path f p) = m p) ->
    select m' (map (ren_path f) l) = map (ren_path f) (select m l).
  Proof.
    intros Hm. unfold select.
    change (@None Z, @nil path) with (renI_selst (None, [])).
    rewrite (fold_left_map_comm renI_selst (ren_path f) (sel_step m) (sel_step m'))
      by (intros acc x; apply renI_sel_step; exact Hm).
    reflexivity.
  Qed.

  Theorem renI_min_among m m' l :
    (forall p, m' (ren_path f p) = m p) ->
    min_among m' (map (ren_path f) l) = map (ren_path f) (min_among m l).
  Proof.
    intros Hm. unfold min_among. rewrite renI_dedup_nil.
    destruct (dedup l []) as [|p0 ks]; [reflexivity|].
    set (kl := p0 :: ks).
    change (map (ren_path f) kl) with (ren_path f p0 :: map (ren_path f) ks) at 1.
    cbv iota. rewrite Hm.
    assert (Hmap : map m' (map (ren_path f) kl) = map m kl).
    { rewrite map_map. apply map_ext. exact Hm. }
    rewrite Hmap.
    apply filter_map_comm. intros p. rewrite Hm. reflexivity.
  Qed.

  Theorem renI_annotate_paths l :
    annotate_paths (map (ren_path f) l) = ren_annotated f (annotate_paths l).
  Proof.
    unfold annotate_paths, ren_annotated. cbn [a_shortest a_fastest a_foremost a_fastest_shortest a_shortest_fastest].
    rewrite (renI_select path_length path_length l (ren_path_length f)).
    rewrite (renI_select path_duration path_duration l (ren_path_duration f)).
    rewrite (renI_select path_last path_last l (ren_path_last f)).
    rewrite (renI_min_among path_duration path_duration _ (ren_path_duration f)).
    rewrite (renI_min_among path_length path_length _ (ren_path_length f)).
    reflexivity.
  Qed.

End RenameInjPaths.

(** the metric facts need nothing of [f]; aliases of the lemmas of RenamePaths.v, for uniform naming *)
Lemma renI_path_length f p : path_length (ren_path f p) = path_length p.
Proof. apply ren_path_length. Qed.
Lemma renI_path_last f p : path_last (ren_path f p) = path_last p.
Proof. apply ren_path_last. Qed.
Lemma renI_path_duration f p : path_duration (ren_path f p) = path_duration p.
Proof. apply ren_path_duration. Qed.

Print Assumptions renI_temporal_dag.
Print Assumptions renI_all_paths_dag.
Print Assumptions renI_all_paths_dag_sel.
Print Assumptions renI_time_respecting_paths.
Print Assumptions renI_time_respecting_paths_sel.
Print Assumptions renI_all_trp.
Print Assumptions renI_all_time_respecting_paths.
Print Assumptions renI_path_inj.
Print Assumptions renI_select.
Print Assumptions renI_min_among.
Print Assumptions renI_annotate_paths.
Print Assumptions renI_path_length.
Print Assumptions renI_path_duration.
