(** Lemmas behind properties/C07.v: rejected updates and bulk helpers *)
From DynVerif Require Import Base Graph Spec.
From DynVerif.proofs Require Import AListFacts CoreInv C03Facts.

(** raw calls: t may be missing *)
Definition rawcall := (Z * Z * option Z * option Z)%type.
Definition do_raw (g : graph) (c : rawcall) : graph * outcome :=
  let '(u, v, t, e) := c in add_interaction g u v t e.
Definition run_raw (g : graph) (l : list rawcall) : graph := fold_left (fun g c => fst (do_raw g c)) l g.

Lemma raw_reject g c : snd (do_raw g c) <> Done -> fst (do_raw g c) = g.
Proof.
  destruct c as [[[u v] t] e]. unfold do_raw. destruct (add_interaction g u v t e) as [g' o] eqn:Hs. simpl.
  intros Ho. eapply add_reject; eauto.
Qed.

Lemma continuation g l1 bad l2 :
  snd (do_raw (run_raw g l1) bad) <> Done -> run_raw g (l1 ++ bad :: l2) = run_raw g (l1 ++ l2).
Proof.
  intros Hb. unfold run_raw in *. rewrite !fold_left_app. simpl. rewrite (raw_reject _ _ Hb). reflexivity.
Qed.

Definition elems (es : list (Z * Z)) (t e : option Z) : list rawcall := map (fun p => (fst p, snd p, t, e)) es.

Lemma add_from_spec t e es : forall g g' o, add_from g es t e = (g', o) ->
  (o = Done /\ g' = run_raw g (elems es t e)) \/
  (o <> Done /\ exists pre bad post, es = pre ++ bad :: post /\ g' = run_raw g (elems pre t e) /\
                  snd (add_interaction g' (fst bad) (snd bad) t e) = o).
Proof.
  induction es as [|[u v] r IH]; intros g g' o; cbn [add_from].
  - intros H; inversion H; subst. left. split; reflexivity.
  - destruct (add_interaction g u v t e) as [g1 o1] eqn:Hs.
    destruct o1.
    + intros H. apply IH in H. destruct H as [(-> & ->)|(Ho & pre & bad & post & -> & -> & Hb)].
      * left. split; auto. unfold run_raw, elems. simpl. rewrite Hs. reflexivity.
      * right. split; auto. exists ((u, v) :: pre), bad, post. split; [reflexivity|].
        unfold run_raw, elems in *. simpl. rewrite Hs. simpl. split; [reflexivity|exact Hb].
    + intros H; inversion H; subst. right. split; [discriminate|]. exists [], (u, v), r.
      assert (g' = g) by (eapply add_reject; eauto; discriminate). subst. simpl. rewrite Hs. auto.
    + intros H; inversion H; subst. right. split; [discriminate|]. exists [], (u, v), r.
      assert (g' = g) by (eapply add_reject; eauto; discriminate). subst. simpl. rewrite Hs. auto.
    + intros H; inversion H; subst. right. split; [discriminate|]. exists [], (u, v), r.
      assert (g' = g) by (eapply add_reject; eauto; discriminate). subst. simpl. rewrite Hs. auto.
    + intros H; inversion H; subst. right. split; [discriminate|]. exists [], (u, v), r.
      assert (g' = g) by (eapply add_reject; eauto; discriminate). subst. simpl. rewrite Hs. auto.
    + intros H; inversion H; subst. right. split; [discriminate|]. exists [], (u, v), r.
      assert (g' = g) by (eapply add_reject; eauto; discriminate). subst. simpl. rewrite Hs. auto.
Qed.
