(** AccFacts: accumulative mode ([edge_removal=False]).  The vanishing time is ignored, a pair gets exactly one
    '+' (at its first accepted instant) and never a '-', every accepted call bumps the counter of its instant,
    and presence is "from the first accepted add of the pair to the largest accepted instant of the graph". *)
From DynVerif Require Import Base Graph Spec.
From DynVerif.proofs Require Import AListFacts CoreInv SnapInv LogInv.
From Coq Require Import Sorting.Sorted Sorting.Permutation.

(* instant of the first accepted call on pair k *)
Definition first_add (dir : bool) (h : list call) (k : Z * Z) : option Z :=
  match filter (fun c => peqb (ckey dir c) k) h with [] => None | c :: _ => Some (c_t c) end.
(* largest instant of an accepted call (0 for the empty history) *)
Definition max_t (h : list call) : Z := match map c_t h with [] => 0 | x :: r => fold_left Z.max r x end.
Definition GA (dir : bool) := empty_graph dir false.

(** * the maximum of a list, as computed by [max_id] / [max_t] *)
Definition lmax (l : list Z) : Z := match l with [] => 0 | x :: r => fold_left Z.max r x end.

Lemma max_id_lmax g : max_id g = lmax (map fst (g_snaps g)).
Proof. reflexivity. Qed.

Lemma max_t_lmax h : max_t h = lmax (map c_t h).
Proof. reflexivity. Qed.

Lemma fold_max_spec r : forall x,
  (fold_left Z.max r x = x \/ In (fold_left Z.max r x) r) /\
  x <= fold_left Z.max r x /\ forall y, In y r -> y <= fold_left Z.max r x.
Proof.
  induction r as [|z r IH]; intros x; simpl.
  - split; [left; reflexivity|]. split; [lia|]. intros y [].
  - destruct (IH (Z.max x z)) as (Hm & Hle & Hub). split; [|split].
    + destruct Hm as [Hm|Hm]; [|right; right; assumption].
      rewrite Hm. destruct (Z.max_spec x z) as [[_ ->]|[_ ->]]; auto.
    + lia.
    + intros y [<-|Hy]; [lia|auto].
Qed.

Lemma lmax_spec l : l <> [] -> In (lmax l) l /\ forall y, In y l -> y <= lmax l.
Proof.
  destruct l as [|x r]; [congruence|]. intros _. unfold lmax.
  destruct (fold_max_spec r x) as (Hm & Hle & Hub). split.
  - destruct Hm as [->|Hm]; [left; reflexivity|right; assumption].
  - intros y [<-|Hy]; auto.
Qed.

(** the maximum only depends on the set of members *)
Lemma lmax_ext l l' : (forall t, In t l <-> In t l') -> lmax l = lmax l'.
Proof.
  intros H. destruct l as [|x r].
  - destruct l' as [|x' r']; [reflexivity|]. exfalso. apply (proj2 (H x')). left; reflexivity.
  - destruct l' as [|x' r']; [exfalso; apply (proj1 (H x)); left; reflexivity|].
    destruct (lmax_spec (x :: r)) as (Hi & Hu); [discriminate|].
    destruct (lmax_spec (x' :: r')) as (Hi' & Hu'); [discriminate|].
    apply Z.le_antisymm; [apply Hu', H, Hi|apply Hu, H, Hi'].
Qed.

(** * the spec side: [first_add] over a growing history *)
Lemma first_add_snoc dir h c k :
  first_add dir (h ++ [c]) k =
  match first_add dir h k with
  | Some t => Some t
  | None => if peqb (ckey dir c) k then Some (c_t c) else None
  end.
Proof.
  unfold first_add. rewrite filter_app. cbn [filter].
  destruct (filter (fun c0 => peqb (ckey dir c0) k) h) as [|c1 r]; simpl; [|reflexivity].
  destruct (peqb (ckey dir c) k); reflexivity.
Qed.

Lemma first_add_snoc_other dir h c k : peqb (ckey dir c) k = false ->
  first_add dir (h ++ [c]) k = first_add dir h k.
Proof. intros E. rewrite first_add_snoc, E. destruct (first_add dir h k); reflexivity. Qed.

Lemma first_add_snoc_old dir h c : first_add dir h (ckey dir c) <> None ->
  forall k, first_add dir (h ++ [c]) k = first_add dir h k.
Proof.
  intros Hn k. rewrite first_add_snoc. destruct (first_add dir h k) eqn:E; [reflexivity|].
  destruct (peqb (ckey dir c) k) eqn:Ek; [|reflexivity].
  apply peqb_eq in Ek. subst k. congruence.
Qed.

(** * the model side *)
Lemma In_bump_keys t s d l : In t (map fst (bump s d l)) <-> In t (map fst l) \/ t = s.
Proof.
  rewrite bump_keys. destruct (memZ s (map fst l)) eqn:E.
  - apply memZ_In in E. split; [auto|]. intros [H| ->]; assumption.
  - rewrite in_app_iff. simpl. intuition congruence.
Qed.

(** the oldest run's start survives every merge *)
Lemma merge_first_start tl s new : merge_tl (Some tl) s s = Some new ->
  exists tl', new = Some tl' /\ first_start tl' = first_start tl.
Proof.
  destruct tl as [[a b] older]. unfold merge_tl.
  destruct (s <? a); [discriminate|]. rewrite Z.ltb_irrefl.
  destruct (b + 1 <? s).
  { intros H; inversion H; subst. eexists; split; [reflexivity|]. unfold first_start; cbn [fst snd].
    rewrite (last_cons_ne (a, b) older (s, s) (s, s)). reflexivity. }
  destruct (b <? s).
  { intros H; inversion H; subst. eexists; split; [reflexivity|]. unfold first_start; cbn [fst snd].
    destruct older as [|x r]; [reflexivity|]. f_equal. apply last_change_default. discriminate. }
  intros H; inversion H; subst. eexists; split; reflexivity.
Qed.

(** what an accumulative call does to the event log and the snapshot counters *)
Lemma acc_step g u v s e g' o : g_rem g = false -> add_interaction g u v (Some s) e = (g', o) ->
  match aget peqb (nk (g_dir g) u v) (g_edges g) with
  | None => o = Done /\ g_events g' = add_event s (nk (g_dir g) u v) true (g_events g) /\
            g_snaps g' = bump s 2 (g_snaps g)
  | Some ((a, b), older) =>
      if s <? a then o = EValue /\ g' = g
      else o = Done /\
           (g_events g' = g_events g \/ g_events g' = del_event (b + 1) (nk (g_dir g) u v) false (g_events g)) /\
           g_snaps g' = bump s 2 (g_snaps g)
  end.
Proof.
  intros Hrem. unfold add_interaction. cbv zeta. rewrite Hrem.
  set (k := nk (g_dir g) u v).
  assert (Hf : match e with Some e' => if false then e' - 1 else s | None => s end = s) by (destruct e; reflexivity).
  rewrite Hf.
  assert (Hc : match e with Some _ => false | None => false end = false) by (destruct e; reflexivity).
  rewrite Hc. rewrite Z.ltb_irrefl.
  destruct (aget peqb k (g_edges g)) as [[[a b] older]|] eqn:Hget.
  - destruct (s <? a) eqn:E1; [intros H; inversion H; subst; auto|].
    destruct (b + 1 <? s) eqn:E3.
    { intros H; inversion H; subst; simpl. auto. }
    destruct (b <? s) eqn:E4.
    { intros H; inversion H; subst; simpl. auto. }
    intros H; inversion H; subst; simpl. auto.
  - intros H; inversion H; subst; simpl. auto.
Qed.

(** * the invariant *)
Definition InvAcc (dir : bool) (g : graph) (h : list call) : Prop :=
  g_rem g = false /\ g_dir g = dir /\
  (forall k, match aget peqb k (g_edges g) with
             | None => first_add dir h k = None
             | Some tl => first_add dir h k = Some (first_start tl)
             end) /\
  (forall t, In t (map fst (g_snaps g)) <-> In t (map c_t h)) /\
  NoDup (map fst (g_snaps g)) /\
  (forall t k op, In (t, k, op) (g_events g) <-> op = true /\ first_add dir h k = Some t) /\
  NoDup (g_events g).

Lemma InvAcc_init dir : InvAcc dir (GA dir) [].
Proof.
  unfold InvAcc, GA; simpl. repeat split; try constructor; try tauto; try (intros (_ & H); discriminate).
Qed.

Lemma InvAcc_step dir g h c g' o : InvAcc dir g h -> do_call g c = (g', o) ->
  (o = Done -> InvAcc dir g' (h ++ [c])) /\ (o <> Done -> g' = g).
Proof.
  intros (Hrem & Hdir & Hed & Hsn & Hsnd & Hev & Hevd). unfold do_call. intros Hs.
  pose proof (step_edges _ _ _ _ _ _ _ Hs) as Hst. cbv zeta in Hst. destruct Hst as (Hd' & Hr' & Hst).
  pose proof (acc_step _ _ _ _ _ _ _ Hrem Hs) as Hac.
  assert (Hend : call_end (g_rem g) (c_t c) (c_e c) = c_t c)
    by (unfold call_end; rewrite Hrem; destruct (c_e c); reflexivity).
  rewrite Hend in Hst. clear Hend.
  rewrite Hdir in Hst, Hac. change (nk dir (c_u c) (c_v c)) with (ckey dir c) in Hst, Hac.
  set (k0 := ckey dir c) in *. set (s := c_t c) in *.
  pose proof (Hed k0) as Hk0.
  assert (Hsnap : g_snaps g' = bump s 2 (g_snaps g) ->
     (forall t, In t (map fst (g_snaps g')) <-> In t (map c_t (h ++ [c]))) /\ NoDup (map fst (g_snaps g'))).
  { intros ->. split; [|apply bump_nodup; assumption].
    intros t. rewrite In_bump_keys, map_app, in_app_iff, Hsn. simpl. fold s. intuition congruence. }
  destruct (aget peqb k0 (g_edges g)) as [[[a b] older]|] eqn:Hget.
  - destruct (s <? a) eqn:E1.
    { destruct Hac as (-> & ->). split; [discriminate|reflexivity]. }
    destruct Hac as (-> & Hev' & Hsn'). split; [intros _|congruence].
    assert (Hold : forall k, first_add dir (h ++ [c]) k = first_add dir h k).
    { apply first_add_snoc_old. fold k0. congruence. }
    match type of Hst with match ?m with _ => _ end => destruct m as [new|] eqn:Hm end;
      [|unfold merge_tl in Hm; rewrite E1, Z.ltb_irrefl in Hm;
        destruct (b + 1 <? s); [discriminate|]; destruct (b <? s); discriminate].
    destruct (merge_first_start _ _ _ Hm) as (tl' & -> & Hfs).
    destruct Hst as (_ & Hget').
    destruct (Hsnap Hsn') as (Hs1 & Hs2).
    split; [congruence|]. split; [congruence|]. split; [|split; [|split; [|split]]]; auto.
    + intros k. rewrite Hget', Hold. destruct (peqb k k0) eqn:Ek.
      * apply peqb_eq in Ek. subst k. rewrite Hfs. exact Hk0.
      * apply Hed.
    + intros t k op. rewrite Hold, <- Hev. destruct Hev' as [->| ->]; [tauto|].
      rewrite In_del_event. split; [tauto|]. intros Hin. split; [assumption|].
      apply Hev in Hin. destruct Hin as (-> & _). congruence.
    + destruct Hev' as [->| ->]; [assumption|apply NoDup_del_event; assumption].
  - destruct Hac as (-> & Hev' & Hsn'). split; [intros _|congruence].
    unfold merge_tl in Hst. rewrite Z.ltb_irrefl in Hst. destruct Hst as (_ & Hget').
    destruct (Hsnap Hsn') as (Hs1 & Hs2).
    split; [congruence|]. split; [congruence|]. split; [|split; [|split; [|split]]]; auto.
    + intros k. rewrite Hget'. destruct (peqb k k0) eqn:Ek.
      * apply peqb_eq in Ek. subst k. rewrite first_add_snoc, Hk0. fold k0. rewrite peqb_refl. reflexivity.
      * rewrite first_add_snoc_other by (fold k0; rewrite peqb_sym; assumption). apply Hed.
    + intros t k op. rewrite Hev', In_add_event, Hev, first_add_snoc. fold k0. split.
      * intros [(-> & ->)|Heq]; [auto|]. inversion Heq; subst. rewrite Hk0, peqb_refl. auto.
      * intros (-> & Hf). destruct (first_add dir h k) eqn:Ef; [left; auto|].
        destruct (peqb k0 k) eqn:Ek; [|discriminate]. apply peqb_eq in Ek. subst k.
        right. inversion Hf. reflexivity.
    + rewrite Hev'. apply NoDup_add_event. assumption.
Qed.

Theorem InvAcc_run dir cs : forall g h, InvAcc dir g h -> InvAcc dir (run_calls g cs) (h ++ accepted g cs).
Proof.
  induction cs as [|c r IH]; intros g h HI; simpl.
  - rewrite app_nil_r. assumption.
  - destruct (do_call g c) as [g' o] eqn:Hd. simpl.
    destruct (InvAcc_step _ _ _ _ _ _ HI Hd) as (Hdone & Hrej).
    destruct o; try (assert (g' = g) as -> by (apply Hrej; discriminate); apply IH; assumption).
    replace (h ++ c :: accepted g' r) with ((h ++ [c]) ++ accepted g' r) by (rewrite <- app_assoc; reflexivity).
    apply IH. auto.
Qed.

Lemma InvAcc_GA dir cs : InvAcc dir (run_calls (GA dir) cs) (accepted (GA dir) cs).
Proof. apply (InvAcc_run dir cs (GA dir) []). apply InvAcc_init. Qed.

Lemma InvAcc_max dir g h : InvAcc dir g h -> max_id g = max_t h.
Proof. intros (_ & _ & _ & Hsn & _). rewrite max_id_lmax, max_t_lmax. apply lmax_ext. exact Hsn. Qed.

(** * the theorems *)
(* presence: from the first accepted add of the pair to the largest accepted instant of the whole graph *)
Theorem acc_presence (dir : bool) (cs : list call) (u v tau : Z) :
  let g := run_calls (GA dir) cs in let h := accepted (GA dir) cs in
  has_interaction g u v (Some tau) =
  match first_add dir h (nk dir u v) with None => false | Some t0 => (t0 <=? tau) && (tau <=? max_t h) end.
Proof.
  intros g h. pose proof (InvAcc_GA dir cs) as HI. fold g h in HI.
  pose proof (InvAcc_max _ _ _ HI) as Hmax.
  destruct HI as (Hrem & Hdir & Hed & _).
  unfold has_interaction, key_present. rewrite Hdir. specialize (Hed (nk dir u v)).
  destruct (aget peqb (nk dir u v) (g_edges g)) as [tl|]; rewrite Hed; [|reflexivity].
  unfold presence_test. rewrite Hrem, Hmax. reflexivity.
Qed.

Theorem acc_flat (dir : bool) (cs : list call) (u v : Z) :
  let g := run_calls (GA dir) cs in let h := accepted (GA dir) cs in
  has_interaction g u v None = match first_add dir h (nk dir u v) with None => false | Some _ => true end.
Proof.
  intros g h. pose proof (InvAcc_GA dir cs) as HI. fold g h in HI.
  destruct HI as (Hrem & Hdir & Hed & _).
  unfold has_interaction, key_present. rewrite Hdir. specialize (Hed (nk dir u v)).
  destruct (aget peqb (nk dir u v) (g_edges g)) as [tl|]; rewrite Hed; reflexivity.
Qed.

(* snapshot ids: exactly the instants of accepted calls, strictly increasing *)
Theorem acc_ids (dir : bool) (cs : list call) :
  let g := run_calls (GA dir) cs in let h := accepted (GA dir) cs in
  StronglySorted Z.lt (snapshot_ids g) /\ forall t, In t (snapshot_ids g) <-> In t (map c_t h).
Proof.
  intros g h. pose proof (InvAcc_GA dir cs) as HI. fold g h in HI.
  destruct HI as (_ & _ & _ & Hsn & Hnd & _). unfold snapshot_ids. split.
  - apply sortZ_strict. assumption.
  - intros t. rewrite sortZ_In. apply Hsn.
Qed.

(* stream: exactly one '+' per pair, at its first accepted instant; no '-'; chronological; no repeats *)
Theorem acc_stream (dir : bool) (cs : list call) :
  let g := run_calls (GA dir) cs in let h := accepted (GA dir) cs in
  (forall t k op, In (t, k, op) (stream g) <-> op = true /\ first_add dir h k = Some t) /\
  NoDup (stream g) /\ Sorted (fun x y => ev_time x <= ev_time y) (stream g).
Proof.
  intros g h. pose proof (InvAcc_GA dir cs) as HI. fold g h in HI.
  destruct HI as (_ & _ & _ & _ & _ & Hev & Hnd). split; [|split].
  - intros t k op. rewrite stream_In. apply Hev.
  - apply stream_NoDup. assumption.
  - apply stream_sorted.
Qed.

(** corollaries that make the headline readable *)
Corollary acc_no_minus dir cs t k : ~ In (t, k, false) (stream (run_calls (GA dir) cs)).
Proof. intros H. apply (proj1 (acc_stream dir cs)) in H. destruct H; discriminate. Qed.

Corollary acc_max_t_snoc h c : max_t (h ++ [c]) = match h with [] => c_t c | _ => Z.max (max_t h) (c_t c) end.
Proof.
  destruct h as [|c0 r]; [reflexivity|].
  rewrite !max_t_lmax.
  destruct (lmax_spec (map c_t ((c0 :: r) ++ [c]))) as (Hi & Hu); [discriminate|].
  destruct (lmax_spec (map c_t (c0 :: r))) as (Hi' & Hu'); [discriminate|].
  rewrite map_app in *. simpl map in *.
  apply Z.le_antisymm.
  - apply in_app_iff in Hi. destruct Hi as [Hi|[<-|[]]]; [apply Hu' in Hi|]; lia.
  - apply Z.max_lub.
    + apply Hu. apply in_app_iff. left. exact Hi'.
    + apply Hu. apply in_app_iff. right. left. reflexivity.
Qed.
