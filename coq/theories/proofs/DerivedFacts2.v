(** DerivedFacts2: the conversions return graphs on which every invariant holds, and
    to_undirected(reciprocal=True) keeps exactly the instants at which both orientations are present. *)
From DynVerif Require Import Base Graph Derived Spec Api.
From DynVerif.proofs Require Import AListFacts CoreInv C01Facts C03Facts QueryFacts SnapInv LogInv SliceFacts DerivedFacts ApiFacts.
From Coq Require Import Sorting.Sorted Sorting.Permutation.

(** * PART 1. every invariant holds on the converted graphs *)

(** ** 1.1 adding interactions between existing nodes leaves the node table alone *)
Lemma ensure_node_present n l : In n (map fst l) -> ensure_node n l = l.
Proof. intros H. apply zamem_In in H. unfold ensure_node. rewrite H. reflexivity. Qed.

Lemma step_nodes_same g u v t e : In u (node_ids g) -> In v (node_ids g) ->
  g_nodes (fst (add_interaction g u v t e)) = g_nodes g.
Proof.
  intros Hu Hv. destruct (add_interaction g u v t e) as [g' o] eqn:Hs. simpl.
  apply step_shape in Hs. destruct Hs as (_ & [->|(Hn & _)]); [reflexivity|].
  rewrite Hn. unfold node_ids in Hu, Hv.
  rewrite (ensure_node_present u) by assumption. apply ensure_node_present. assumption.
Qed.

Lemma add_runs_nodes_same runs : forall h u v, In u (node_ids h) -> In v (node_ids h) ->
  g_nodes (fst (add_runs h u v runs)) = g_nodes h.
Proof.
  induction runs as [|[s f] r IH]; intros h u v Hu Hv; cbn [add_runs]; [reflexivity|].
  pose proof (step_nodes_same h u v (Some s) (Some (f + 1)) Hu Hv) as Hn.
  destruct (add_interaction h u v (Some s) (Some (f + 1))) as [h1 o]. simpl in Hn.
  destruct o; simpl; try exact Hn.
  rewrite IH; [exact Hn| |]; unfold node_ids; rewrite Hn; assumption.
Qed.

Lemma add_all_nodes_same l : forall h,
  (forall e, In e l -> In (fst (fst e)) (node_ids h) /\ In (snd (fst e)) (node_ids h)) ->
  g_nodes (fst (add_all_runs h l)) = g_nodes h.
Proof.
  induction l as [|[[u v] runs] rest IH]; intros h Hin; cbn [add_all_runs]; [reflexivity|].
  destruct (Hin ((u, v), runs) (or_introl eq_refl)) as (Hu & Hv). simpl in Hu, Hv.
  pose proof (add_runs_nodes_same runs h u v Hu Hv) as Hn.
  destruct (add_runs h u v runs) as [h1 o]. simpl in Hn.
  destruct o; simpl; try exact Hn.
  rewrite IH; [exact Hn|]. intros e He. unfold node_ids. rewrite Hn. apply Hin. right; assumption.
Qed.

(** ** 1.2 the starting graph and the final node copy *)
Lemma h0_ids dir g : node_ids (h0_of dir g) = node_ids g.
Proof. unfold node_ids, h0_of. simpl. rewrite map_map. reflexivity. Qed.

Lemma WFG_h0 dir g : NoDup (node_ids g) -> WFG (h0_of dir g).
Proof.
  intros Hnd. destruct (WFG_empty dir true) as (Hw & _ & Hr). split; [|split].
  - apply WF_with_nodes. exact Hw.
  - unfold InvAdj. rewrite h0_ids. simpl. split; [constructor|]. split; [exact Hnd|].
    split; [intros a b []|intros _ a b []].
  - intros _. destruct (Hr eq_refl) as (Hl & Hs). split; [apply InvLog_nodes; exact Hl|apply InvSnap_nodes; exact Hs].
Qed.

Lemma WFG_with_all_nodes h g : WFG h -> node_ids h = node_ids g -> WFG (with_all_nodes h g).
Proof.
  intros Hw Hids. unfold with_all_nodes. apply WFG_with_attr. apply WFG_with_nodes_same; [exact Hw|].
  symmetry. exact Hids.
Qed.

Lemma ids_of_nodes h h' : g_nodes h = g_nodes h' -> node_ids h = node_ids h'.
Proof. unfold node_ids. intros ->. reflexivity. Qed.

(** the common ending of to_directed and of the non-reciprocal to_undirected *)
Lemma WFG_convert dir g l h o : InvAdj g ->
  (forall e, In e l -> In (fst (fst e)) (node_ids g) /\ In (snd (fst e)) (node_ids g)) ->
  add_all_runs (h0_of dir g) l = (h, o) -> WFG (with_all_nodes h g).
Proof.
  intros HI Hl Hall. pose proof HI as (_ & Hnd & _).
  pose proof (WFG_add_all l (h0_of dir g) (WFG_h0 dir g Hnd)) as Hw.
  pose proof (add_all_nodes_same l (h0_of dir g)) as Hn. rewrite Hall in Hw, Hn. cbn [fst] in Hw, Hn.
  apply WFG_with_all_nodes; [exact Hw|].
  assert (Hn' : g_nodes h = g_nodes (h0_of dir g)) by (apply Hn; rewrite h0_ids; exact Hl).
  rewrite (ids_of_nodes _ _ Hn'). apply h0_ids.
Qed.

Lemma flat_nodes g e : InvAdj g -> In e (flat_interactions g) ->
  In (fst (fst e)) (node_ids g) /\ In (snd (fst e)) (node_ids g).
Proof.
  intros HI He. rewrite flat_epairs in He. apply in_map_iff in He. destruct He as (p & <- & Hp). simpl.
  apply (has_interaction_nodes g (fst p) (snd p) None HI). apply epairs_sound; assumption.
Qed.

Theorem WFG_to_directed g H o : InvAdj g -> to_directed g = (Some H, o) -> WFG H.
Proof.
  intros HI. unfold to_directed. fold (h0_of true g).
  destruct (add_all_runs (h0_of true g) (flat_interactions g)) as [h o'] eqn:Hall.
  destruct o'; intros E; inversion E; subst.
  eapply WFG_convert; [exact HI| |exact Hall]. intros e He. apply flat_nodes; assumption.
Qed.

(** ** 1.3 the span dictionary only holds pairs it was given, possibly reversed *)
Lemma collect_keys l : forall acc k, In k (akeys (collect_spans l acc)) ->
  In k (akeys acc) \/ exists e, In e l /\ (k = fst e \/ k = (snd (fst e), fst (fst e))).
Proof.
  induction l as [|[[u v] runs] rest IH]; intros acc k Hk; cbn [collect_spans] in Hk; [auto|].
  apply IH in Hk. destruct Hk as [Hk|(e & He & Hk)].
  - set (k0 := if amem peqb (v, u) acc then (v, u) else (u, v)) in *.
    assert (Hk0 : k0 = (u, v) \/ k0 = (v, u)) by (unfold k0; destruct (amem peqb (v, u) acc); auto).
    unfold akeys in Hk. apply in_map_iff in Hk. destruct Hk as (x & <- & Hx).
    destruct (aget peqb k0 acc) as [old|] eqn:Hg.
    + left. rewrite <- (akeys_aset_in k0 (old ++ runs) acc) by congruence.
      unfold akeys. apply in_map. exact Hx.
    + rewrite aset_absent in Hx by assumption. apply in_app_or in Hx. destruct Hx as [Hx|[<-|[]]].
      * left. unfold akeys. apply in_map. exact Hx.
      * right. exists ((u, v), runs). split; [left; reflexivity|]. simpl. tauto.
  - right. exists e. split; [right; assumption|assumption].
Qed.

(** ** 1.4 the reciprocal double loop *)
Lemma fold_left_inv {A B} (P : A -> Prop) (f : A -> B -> A) l :
  (forall a b, In b l -> P a -> P (f a b)) -> forall a, P a -> P (fold_left f l a).
Proof.
  induction l as [|b r IH]; intros Hf a Ha; simpl; [assumption|].
  apply IH; [intros a' b' Hb'; apply Hf; right; assumption|]. apply Hf; [left; reflexivity|assumption].
Qed.

Lemma recip_pair_keeps h g u v : In u (node_ids h) -> In v (node_ids h) -> WFG h ->
  WFG (recip_pair h g u v) /\ g_nodes (recip_pair h g u v) = g_nodes h.
Proof.
  intros Hu Hv Hw. unfold recip_pair.
  destruct (aget peqb (u, v) (g_edges g)); [|auto]. destruct (aget peqb (v, u) (g_edges g)); [|auto].
  split; [apply WFG_add_runs; assumption|apply add_runs_nodes_same; assumption].
Qed.

Theorem WFG_to_undirected g r H o : InvAdj g -> to_undirected g r = (Some H, o) -> WFG H.
Proof.
  intros HI. pose proof HI as (_ & Hnd & _). unfold to_undirected. fold (h0_of false g). destruct r.
  - intros E. inversion E; subst. clear E.
    set (P := fun h => WFG h /\ g_nodes h = g_nodes (h0_of false g)).
    assert (HP : P (fold_left (fun h u => fold_left (fun h v => if v <=? u then recip_pair h g u v else h)
                                           (node_ids g) h) (node_ids g) (h0_of false g))).
    { apply (fold_left_inv P); [|split; [apply WFG_h0; exact Hnd|reflexivity]].
      intros h u Hu Hh. apply (fold_left_inv P); [|exact Hh].
      intros h' v Hv (Hw' & Hn'). destruct (v <=? u); [|split; assumption].
      assert (Hids : node_ids h' = node_ids g) by (rewrite (ids_of_nodes _ _ Hn'); apply h0_ids).
      destruct (recip_pair_keeps h' g u v) as (Hw'' & Hn''); try assumption; try (rewrite Hids; assumption).
      split; [exact Hw''|congruence]. }
    destruct HP as (Hw & Hn). apply WFG_with_all_nodes; [exact Hw|].
    rewrite (ids_of_nodes _ _ Hn). apply h0_ids.
  - match goal with |- context [add_all_runs ?h0 ?l] => destruct (add_all_runs h0 l) as [h o'] eqn:Hall end.
    destruct o'; intros E; inversion E; subst.
    eapply WFG_convert; [exact HI| |exact Hall].
    intros e He. apply in_map_iff in He. destruct He as (kr & <- & Hkr). cbn [fst snd].
    assert (Hk : In (fst kr) (akeys (collect_spans (flat_interactions g) []))) by (unfold akeys; apply in_map; exact Hkr).
    apply collect_keys in Hk. destruct Hk as [[]|(e & He & Hk)].
    destruct (flat_nodes g e HI He) as (H1 & H2). destruct Hk as [-> | ->]; simpl; auto.
Qed.

(** * PART 2. to_undirected(reciprocal=True) *)

(** ** 2.1 intersection of two timelines, in the nested-loop order of the code *)
Definition inter_runs (o i : list (Z * Z)) : list (Z * Z) :=
  flat_map (fun oi => filter_map (fun ii => inter_run oi ii) i) o.

Lemma inter_run_mem oi ii tau :
  (match inter_run oi ii with Some y => in_itv tau y | None => false end) = in_itv tau oi && in_itv tau ii.
Proof.
  unfold inter_run. destruct (Z.max (fst oi) (fst ii) <=? Z.min (snd oi) (snd ii)) eqn:E;
    unfold in_itv; simpl; lia.
Qed.

Lemma inter_inner_mem oi i tau : mem tau (filter_map (fun ii => inter_run oi ii) i) = in_itv tau oi && mem tau i.
Proof.
  induction i as [|ii r IH].
  - simpl. rewrite andb_false_r. reflexivity.
  - rewrite mem_filter_map_cons, inter_run_mem, IH.
    change (mem tau (ii :: r)) with (in_itv tau ii || mem tau r).
    destruct (in_itv tau oi), (in_itv tau ii), (mem tau r); reflexivity.
Qed.

Lemma inter_runs_cons oi o i : inter_runs (oi :: o) i = filter_map (fun ii => inter_run oi ii) i ++ inter_runs o i.
Proof. reflexivity. Qed.

Lemma inter_runs_mem o i tau : mem tau (inter_runs o i) = mem tau o && mem tau i.
Proof.
  induction o as [|oi r IH]; [reflexivity|].
  rewrite inter_runs_cons, mem_app, inter_inner_mem, IH.
  change (mem tau (oi :: r)) with (in_itv tau oi || mem tau r).
  destruct (in_itv tau oi), (mem tau r), (mem tau i); reflexivity.
Qed.

Lemma inter_runs_nil_r o : inter_runs o [] = [].
Proof. induction o as [|oi r IH]; [reflexivity|]. rewrite inter_runs_cons, IH. reflexivity. Qed.

(** every run of the inner list is the non-empty intersection of [oi] with a run of [i] *)
Lemma inter_inner_in oi i x : In x (filter_map (fun ii => inter_run oi ii) i) ->
  exists ii, In ii i /\ fst x = Z.max (fst oi) (fst ii) /\ snd x = Z.min (snd oi) (snd ii) /\ fst x <= snd x.
Proof.
  induction i as [|ii r IH]; cbn [filter_map]; intros Hx; [destruct Hx|].
  unfold inter_run in Hx at 1.
  destruct (Z.max (fst oi) (fst ii) <=? Z.min (snd oi) (snd ii)) eqn:E.
  - destruct Hx as [<-|Hx].
    + exists ii. simpl. split; [auto|]. lia.
    + destruct (IH Hx) as (y & Hy & H). exists y. split; [right; assumption|assumption].
  - destruct (IH Hx) as (y & Hy & H). exists y. split; [right; assumption|assumption].
Qed.

Lemma inter_inner_canon oi i : canon_chrono i -> canon_chrono (filter_map (fun ii => inter_run oi ii) i).
Proof.
  induction i as [|[a b] r IH]; intros Hc; [exact I|].
  assert (Hr : canon_chrono r) by (eapply cc_tail; eassumption).
  cbn [filter_map]. unfold inter_run at 1. cbn [fst snd].
  destruct (Z.max (fst oi) a <=? Z.min (snd oi) b) eqn:E; [|apply IH; assumption].
  apply cc_cons; [lia|apply IH; assumption|].
  intros x Hx. destruct (inter_inner_in oi r x Hx) as (y & Hy & H1 & _).
  pose proof (cc_all_gt a b r Hc y Hy). lia.
Qed.

Lemma inter_runs_in o i x : In x (inter_runs o i) ->
  exists oi, In oi o /\ fst oi <= fst x /\ fst x <= snd x /\ snd x <= snd oi.
Proof.
  unfold inter_runs. intros Hx. apply in_flat_map in Hx. destruct Hx as (oi & Ho & Hx).
  destruct (inter_inner_in oi i x Hx) as (ii & _ & H1 & H2 & H3). exists oi. split; [assumption|]. lia.
Qed.

Lemma cc_app p : forall q, canon_chrono p -> canon_chrono q ->
  (forall x y, In x p -> In y q -> snd x + 1 < fst y) -> canon_chrono (p ++ q).
Proof.
  induction p as [|[a b] r IH]; intros q Hp Hq Hlt; [exact Hq|].
  simpl app. apply cc_cons.
  - simpl in Hp. tauto.
  - apply IH; [eapply cc_tail; eassumption|assumption|]. intros x y Hx Hy. apply Hlt; [right; assumption|assumption].
  - intros x Hx. apply in_app_or in Hx. destruct Hx as [Hx|Hx].
    + apply (cc_all_gt a b r Hp x Hx).
    + apply (Hlt (a, b) x); [left; reflexivity|assumption].
Qed.

Lemma inter_runs_canon o i : canon_chrono o -> canon_chrono i -> canon_chrono (inter_runs o i).
Proof.
  intros Ho Hi. induction o as [|[a b] r IH]; [exact I|].
  rewrite inter_runs_cons. apply cc_app.
  - apply inter_inner_canon. assumption.
  - apply IH. eapply cc_tail; eassumption.
  - intros x y Hx Hy. destruct (inter_inner_in (a, b) i x Hx) as (ii & _ & _ & H2 & _).
    destruct (inter_runs_in r i y Hy) as (oi & Hoi & H3 & _).
    pose proof (cc_all_gt a b r Ho oi Hoi). simpl in H2. lia.
Qed.

(** ** 2.2 the double loop is one pass over the ordered pairs (u, v) with v <= u *)
Lemma fold_inner_flat {A} (F : A -> Z -> Z -> A) (c : Z -> Z -> bool) u l : forall h,
  fold_left (fun h v => if c u v then F h u v else h) l h =
  fold_left (fun h p => F h (fst p) (snd p)) (filter (fun p => c (fst p) (snd p)) (map (fun y => (u, y)) l)) h.
Proof.
  induction l as [|v r IH]; intros h; simpl; [reflexivity|].
  destruct (c u v); simpl; apply IH.
Qed.

Lemma fold_nested_flat {A} (F : A -> Z -> Z -> A) (c : Z -> Z -> bool) l2 : forall l1 h,
  fold_left (fun h u => fold_left (fun h v => if c u v then F h u v else h) l2 h) l1 h =
  fold_left (fun h p => F h (fst p) (snd p)) (filter (fun p => c (fst p) (snd p)) (list_prod l1 l2)) h.
Proof.
  induction l1 as [|u r IH]; intros h; simpl; [reflexivity|].
  rewrite filter_app, fold_left_app, <- fold_inner_flat. apply IH.
Qed.

Lemma NoDup_list_prod {A B} (l1 : list A) (l2 : list B) : NoDup l1 -> NoDup l2 -> NoDup (list_prod l1 l2).
Proof.
  intros H1 H2. induction l1 as [|a r IH]; simpl; [constructor|].
  inversion H1 as [|? ? Hni Hr]; subst. apply NoDup_app_intro.
  - apply NoDup_map_inj; [intros x y E; inversion E; reflexivity|assumption].
  - apply IH. assumption.
  - intros [x y] Hx Hy. apply in_map_iff in Hx. destruct Hx as (z & E & _). inversion E; subst.
    apply in_prod_iff in Hy. tauto.
Qed.

(** the pairs the loop visits, and what it adds for each of them *)
Definition rpairs (g : graph) : list (Z * Z) :=
  filter (fun p => snd p <=? fst p) (list_prod (node_ids g) (node_ids g)).
Definition rruns (g : graph) (p : Z * Z) : list (Z * Z) :=
  inter_runs (timeline_of g (fst p) (snd p)) (timeline_of g (snd p) (fst p)).

Lemma rpairs_In g u v : In (u, v) (rpairs g) <-> In u (node_ids g) /\ In v (node_ids g) /\ v <= u.
Proof.
  unfold rpairs. rewrite filter_In, in_prod_iff. simpl. rewrite Z.leb_le. tauto.
Qed.

Lemma rpairs_keys_NoDup g : NoDup (node_ids g) -> NoDup (map (fun p => nk false (fst p) (snd p)) (rpairs g)).
Proof.
  intros Hnd. apply NoDup_map_inj_in.
  - intros [x y] [x' y'] Hx Hy E. apply rpairs_In in Hx. apply rpairs_In in Hy. simpl in E.
    apply nk_false_inj in E. destruct E as [E|E]; [assumption|]. inversion E; subst. f_equal; lia.
  - unfold rpairs. apply NoDup_filter. apply NoDup_list_prod; assumption.
Qed.

Lemma recip_pair_eq h g u v : g_dir g = true ->
  recip_pair h g u v = fst (add_runs h u v (rruns g (u, v))).
Proof.
  intros Hd. unfold recip_pair, rruns, timeline_of. rewrite Hd. cbn [nk fst snd].
  destruct (aget peqb (u, v) (g_edges g)) as [o|]; [|reflexivity].
  destruct (aget peqb (v, u) (g_edges g)) as [i|]; [reflexivity|].
  rewrite inter_runs_nil_r. reflexivity.
Qed.

Lemma fold_add_all (R : Z * Z -> list (Z * Z)) l : forall h h',
  add_all_runs h (map (fun p => (p, R p)) l) = (h', Done) ->
  fold_left (fun h p => fst (add_runs h (fst p) (snd p) (R p))) l h = h'.
Proof.
  induction l as [|[u v] r IH]; intros h h' Hall; cbn [map add_all_runs] in Hall.
  - inversion Hall. reflexivity.
  - simpl. destruct (add_runs h u v (R (u, v))) as [h1 o]. destruct o; try discriminate.
    simpl. apply IH. exact Hall.
Qed.

Lemma recip_fold_eq g : g_dir g = true ->
  fold_left (fun h u => fold_left (fun h v => if v <=? u then recip_pair h g u v else h) (node_ids g) h)
            (node_ids g) (h0_of false g)
  = fold_left (fun h p => fst (add_runs h (fst p) (snd p) (rruns g p))) (rpairs g) (h0_of false g).
Proof.
  intros Hd.
  pose proof (fold_nested_flat (fun h u v => recip_pair h g u v) (fun u v => v <=? u)
                (node_ids g) (node_ids g) (h0_of false g)) as E.
  cbv beta in E. rewrite E. unfold rpairs.
  generalize (filter (fun p : Z * Z => snd p <=? fst p) (list_prod (node_ids g) (node_ids g))) (h0_of false g).
  intros l. induction l as [|[u v] r IH]; intros h; simpl; [reflexivity|].
  rewrite recip_pair_eq by assumption. apply IH.
Qed.

Lemma rruns_cc g p : Good g -> canon_chrono (rruns g p).
Proof. intros HG. unfold rruns. apply inter_runs_canon; apply good_cc; assumption. Qed.

Lemma rruns_mem g u v tau : Good g ->
  mem tau (rruns g (u, v)) = has_interaction g u v (Some tau) && has_interaction g v u (Some tau).
Proof. intros HG. unfold rruns. cbn [fst snd]. rewrite inter_runs_mem, <- !good_hi by assumption. reflexivity. Qed.

Lemma reciprocal_core g : Good g -> g_dir g = true ->
  exists h,
    fold_left (fun h u => fold_left (fun h v => if v <=? u then recip_pair h g u v else h) (node_ids g) h)
              (node_ids g) (h0_of false g) = h /\
    g_dir h = false /\ g_rem h = true /\
    (forall k, ocanon (aget peqb k (g_edges h))) /\
    (forall u v tau, omem tau (aget peqb (nk false u v) (g_edges h)) =
       has_interaction g u v (Some tau) && has_interaction g v u (Some tau)).
Proof.
  intros HG Hdir. pose proof HG as (Hr & Hc & HI). pose proof HI as (_ & Hnd & _).
  destruct (add_all_runs_fresh (map (fun p => (p, rruns g p)) (rpairs g)) (h0_of false g))
    as (h & Hall & Hd & Hrem & Hcan & Hmem).
  - reflexivity.
  - rewrite map_map. apply rpairs_keys_NoDup. exact Hnd.
  - intros e He. apply in_map_iff in He. destruct He as (p & <- & _). simpl.
    apply canon_chrono_sorted. apply rruns_cc. assumption.
  - intros e _. reflexivity.
  - exists h. split; [rewrite recip_fold_eq by assumption; apply fold_add_all; exact Hall|].
    split; [exact Hd|]. split; [exact Hrem|]. split.
    + intros k. apply Hcan. exact I.
    + intros u v tau. rewrite Hmem.
      change (omem tau (aget peqb (nk false u v) (g_edges (h0_of false g)))) with false.
      change (g_dir (h0_of false g)) with false.
      rewrite (find_map _ (fun p => peqb (nk false (fst p) (snd p)) (nk false u v))) by reflexivity.
      destruct (find _ (rpairs g)) as [[x y]|] eqn:Hf; simpl.
      * apply find_some in Hf. destruct Hf as (_ & Hk). apply peqb_eq in Hk. simpl in Hk.
        rewrite rruns_mem by assumption.
        apply nk_false_inj in Hk. destruct Hk as [Hk|Hk]; inversion Hk; subst; [reflexivity|apply andb_comm].
      * destruct (has_interaction g u v (Some tau)) eqn:H1; [|reflexivity].
        destruct (has_interaction g v u (Some tau)) eqn:H2; [|reflexivity]. exfalso.
        destruct (has_interaction_nodes _ _ _ _ HI H1) as (Hu & Hv).
        destruct (Z.le_ge_cases v u) as [Hle|Hle].
        -- assert (Hin : In (u, v) (rpairs g)) by (apply rpairs_In; auto).
           apply (find_none _ _ Hf) in Hin. cbn beta iota delta [fst snd] in Hin. rewrite peqb_refl in Hin. discriminate.
        -- assert (Hin : In (v, u) (rpairs g)) by (apply rpairs_In; auto).
           apply (find_none _ _ Hf) in Hin. cbn beta iota delta [fst snd] in Hin. rewrite (nk_sym v u), peqb_refl in Hin. discriminate.
Qed.

Theorem reciprocal_ok g : Good g -> g_dir g = true -> exists H, to_undirected g true = (Some H, Done).
Proof. intros _ _. unfold to_undirected. eexists. reflexivity. Qed.

Theorem reciprocal_presence g H u v tau : Good g -> g_dir g = true -> to_undirected g true = (Some H, Done) ->
  g_dir H = false /\ g_nodes H = g_nodes g /\ g_attr H = g_attr g /\
  has_interaction H u v (Some tau) = has_interaction g u v (Some tau) && has_interaction g v u (Some tau).
Proof.
  intros HG Hdir E. destruct (reciprocal_core g HG Hdir) as (h & Hfold & Hd & Hr & Hc & Hm).
  unfold to_undirected in E. fold (h0_of false g) in E. rewrite Hfold in E. inversion E; subst H. clear E.
  split; [exact Hd|]. split; [reflexivity|]. split; [reflexivity|].
  rewrite hi_omem; [|exact Hr|apply Hc].
  change (g_dir (with_all_nodes h g)) with (g_dir h). change (g_edges (with_all_nodes h g)) with (g_edges h).
  rewrite Hd. apply Hm.
Qed.

(** the reciprocal conversion of a good graph is again good *)
Theorem reciprocal_good g H : Good g -> g_dir g = true -> to_undirected g true = (Some H, Done) -> Good H.
Proof.
  intros HG Hdir E. pose proof HG as (_ & _ & HI).
  destruct (reciprocal_core g HG Hdir) as (h & Hfold & Hd & Hr & Hc & Hm).
  destruct (WFG_to_undirected g true H Done HI E) as (_ & HA & _).
  unfold to_undirected in E. fold (h0_of false g) in E. rewrite Hfold in E. inversion E; subst H. clear E.
  split; [exact Hr|]. split; [exact Hc|exact HA].
Qed.
