(** SliceFacts: per-pair lemmas behind the derived graphs (time_slice, to_directed, to_undirected):
    clipping is intersection, [add_runs] on a fresh pair stores exactly the union, the sort used by
    to_undirected, and the lift to many pairs ([add_all_runs]).  Removal mode only. *)
From DynVerif Require Import Base Graph Derived Spec.
From DynVerif.proofs Require Import AListFacts CoreInv C03Facts.
From Coq Require Import Sorting.Sorted Sorting.Permutation.

(** * 1. clipping one run *)
Lemma clip_spec f t a b : f <= t -> a <= b ->
  clip f t (a, b) = (if (Z.max a f <=? Z.min b t) then Some (Z.max a f, Z.min b t) else None).
Proof.
  intros Hft Hab. unfold clip.
  destruct (t <? a) eqn:E1, (b <? f) eqn:E2, (a <=? f) eqn:E3, (t <=? b) eqn:E4,
           (f <=? a) eqn:E5, (b <=? t) eqn:E6, (Z.max a f <=? Z.min b t) eqn:E7;
    simpl; try reflexivity; try (exfalso; lia); f_equal; f_equal; lia.
Qed.

Lemma clip_mem f t a b tau : f <= t -> a <= b ->
  (match clip f t (a, b) with Some r => in_itv tau r | None => false end)
  = (f <=? tau) && (tau <=? t) && in_itv tau (a, b).
Proof.
  intros Hft Hab. rewrite clip_spec by assumption.
  destruct (Z.max a f <=? Z.min b t) eqn:E; unfold in_itv; simpl; lia.
Qed.

(** * 2. clipping a canonical chronological timeline *)
Lemma cc_all_gt a b r : canon_chrono ((a, b) :: r) -> forall y, In y r -> b + 1 < fst y.
Proof.
  revert a b. induction r as [|[a' b'] r IH]; intros a b Hc y Hy; [destruct Hy|].
  simpl in Hc. destruct Hc as (Hab & Hlt & Hab' & Hn & Hr).
  destruct Hy as [<-|Hy]; [simpl; lia|].
  assert (b' + 1 < fst y) by (apply (IH a' b'); [simpl; auto|assumption]). lia.
Qed.

Lemma cc_cons a b r : a <= b -> canon_chrono r -> (forall x, In x r -> b + 1 < fst x) -> canon_chrono ((a, b) :: r).
Proof.
  intros Hab Hc Hlt. simpl. split; [assumption|]. split; [|assumption].
  destruct r as [|[a' b'] r']; [exact I|]. apply (Hlt (a', b')). left; reflexivity.
Qed.

Lemma cc_tail x r : canon_chrono (x :: r) -> canon_chrono r.
Proof. destruct x as [a b]. simpl. tauto. Qed.

Lemma cc_nonempty l : canon_chrono l -> forall r, In r l -> fst r <= snd r.
Proof.
  induction l as [|[a b] r IH]; intros Hc x Hx; [destruct Hx|].
  destruct Hx as [<-|Hx]; [simpl in *; tauto|]. apply IH; [eapply cc_tail; eassumption|assumption].
Qed.

Lemma cc_app_r p q : canon_chrono (p ++ q) -> canon_chrono q.
Proof.
  induction p as [|x p IH]; intros H; [exact H|]. apply IH. simpl in H. eapply cc_tail; eassumption.
Qed.

Lemma mem_filter_map_cons {A} (g : A -> option (Z * Z)) x r tau :
  mem tau (filter_map g (x :: r)) =
  (match g x with Some y => in_itv tau y | None => false end) || mem tau (filter_map g r).
Proof. simpl. destruct (g x); reflexivity. Qed.

Lemma clip_list_mem f t l tau : f <= t -> canon_chrono l ->
  mem tau (filter_map (clip f t) l) = (f <=? tau) && (tau <=? t) && mem tau l.
Proof.
  intros Hft. induction l as [|[a b] r IH]; intros Hc.
  - simpl. rewrite andb_false_r. reflexivity.
  - rewrite mem_filter_map_cons. rewrite clip_mem; [|assumption|simpl in Hc; tauto].
    rewrite IH by (eapply cc_tail; eassumption).
    change (mem tau ((a, b) :: r)) with (in_itv tau (a, b) || mem tau r).
    destruct (f <=? tau), (tau <=? t), (in_itv tau (a, b)), (mem tau r); reflexivity.
Qed.

Lemma clip_in f t l x : f <= t -> (forall r, In r l -> fst r <= snd r) ->
  In x (filter_map (clip f t) l) ->
  exists y, In y l /\ fst y <= fst x /\ fst x <= snd x /\ snd x <= snd y.
Proof.
  intros Hft. induction l as [|[a b] r IH]; intros Hne Hx; [destruct Hx|].
  assert (Hab : a <= b) by (apply (Hne (a, b)); left; reflexivity).
  assert (Hne' : forall r0, In r0 r -> fst r0 <= snd r0) by (intros r0 H0; apply Hne; right; assumption).
  cbn [filter_map] in Hx. rewrite clip_spec in Hx by assumption.
  destruct (Z.max a f <=? Z.min b t) eqn:E.
  - destruct Hx as [<-|Hx].
    + exists (a, b). split; [left; reflexivity|]. simpl. lia.
    + destruct (IH Hne' Hx) as (y & Hy & H). exists y. split; [right; assumption|assumption].
  - destruct (IH Hne' Hx) as (y & Hy & H). exists y. split; [right; assumption|assumption].
Qed.

Lemma clip_list_canon f t l : f <= t -> canon_chrono l -> canon_chrono (filter_map (clip f t) l).
Proof.
  intros Hft. induction l as [|[a b] r IH]; intros Hc; [exact I|].
  assert (Hab : a <= b) by (simpl in Hc; tauto).
  assert (Hr : canon_chrono r) by (eapply cc_tail; eassumption).
  cbn [filter_map]. rewrite clip_spec by assumption.
  destruct (Z.max a f <=? Z.min b t) eqn:E; [|apply IH; assumption].
  apply cc_cons; [lia|apply IH; assumption|].
  intros x Hx. destruct (clip_in f t r x Hft (cc_nonempty r Hr) Hx) as (y & Hy & H1 & _).
  pose proof (cc_all_gt a b r Hc y Hy). lia.
Qed.

(** * 3. adding runs sorted by start to one pair *)
Definition starts_sorted (l : list (Z * Z)) : Prop := StronglySorted (fun x y => fst x <= fst y) l.

(** one step of the fold, in removal mode: the span added is [s, f] *)
Lemma add_step h u v s f h1 o : g_rem h = true ->
  add_interaction h u v (Some s) (Some (f + 1)) = (h1, o) ->
  g_dir h1 = g_dir h /\ g_rem h1 = true /\
  match merge_tl (aget peqb (nk (g_dir h) u v) (g_edges h)) s f with
  | None => o = EValue /\ h1 = h
  | Some new => o = Done /\ forall k', aget peqb k' (g_edges h1) =
                                 if peqb k' (nk (g_dir h) u v) then new else aget peqb k' (g_edges h)
  end.
Proof.
  intros Hrem Hs. pose proof (step_edges _ _ _ _ _ _ _ Hs) as H. cbv zeta in H.
  unfold call_end in H. rewrite Hrem in H. replace (f + 1 - 1) with f in H by lia.
  destruct H as (A & B & C). split; [exact A|]. split; [exact B|exact C].
Qed.

(** the start of the latest run of the entry is at or before every remaining start *)
Definition latest_ok (o : option tline) (runs : list (Z * Z)) : Prop :=
  match o with
  | None => True
  | Some tl => forall r, In r runs -> fst (fst tl) <= fst r
  end.

Lemma merge_ok old s f r : s <= f -> latest_ok old ((s, f) :: r) -> (forall x, In x r -> s <= fst x) ->
  exists new, merge_tl old s f = Some (Some new) /\ latest_ok (Some new) r.
Proof.
  intros Hsf Hl Hs. unfold merge_tl. destruct old as [[[a b] older]|]; simpl in *.
  - assert (Ha : a <= s) by (apply (Hl (s, f)); left; reflexivity).
    assert (Hr : forall x, In x r -> a <= fst x) by (intros x Hx; apply Hl; right; assumption).
    destruct (s <? a) eqn:E1; [lia|]. destruct (f <? s) eqn:E2; [lia|].
    destruct (b + 1 <? s) eqn:E3; [eexists; split; [reflexivity|]; simpl; assumption|].
    destruct (b <? f) eqn:E4; eexists; (split; [reflexivity|]); simpl; assumption.
  - destruct (f <? s) eqn:E2; [lia|]. eexists; split; [reflexivity|]. simpl. assumption.
Qed.

Lemma add_runs_gen runs : forall h u v,
  g_rem h = true ->
  ocanon (aget peqb (nk (g_dir h) u v) (g_edges h)) ->
  latest_ok (aget peqb (nk (g_dir h) u v) (g_edges h)) runs ->
  starts_sorted runs -> (forall r, In r runs -> fst r <= snd r) ->
  exists h', add_runs h u v runs = (h', Done) /\ g_dir h' = g_dir h /\ g_rem h' = true /\
    ocanon (aget peqb (nk (g_dir h) u v) (g_edges h')) /\
    (forall tau, omem tau (aget peqb (nk (g_dir h) u v) (g_edges h')) =
                 omem tau (aget peqb (nk (g_dir h) u v) (g_edges h)) || mem tau runs) /\
    (runs <> [] -> aget peqb (nk (g_dir h) u v) (g_edges h') <> None) /\
    (aget peqb (nk (g_dir h) u v) (g_edges h) <> None -> aget peqb (nk (g_dir h) u v) (g_edges h') <> None) /\
    (runs = [] -> h' = h) /\
    (forall k', peqb k' (nk (g_dir h) u v) = false -> aget peqb k' (g_edges h') = aget peqb k' (g_edges h)).
Proof.
  induction runs as [|[s f] r IH]; intros h u v Hrem Hc Hl Hss Hne.
  - exists h. cbn [add_runs]. repeat split; auto. intros tau. simpl. rewrite orb_false_r. reflexivity.
  - cbn [add_runs].
    destruct (add_interaction h u v (Some s) (Some (f + 1))) as [h1 o] eqn:Hs.
    destruct (add_step _ _ _ _ _ _ _ Hrem Hs) as (Hd1 & Hr1 & Hst).
    set (k := nk (g_dir h) u v) in *.
    assert (Hsf : s <= f) by (apply (Hne (s, f)); left; reflexivity).
    apply StronglySorted_inv in Hss. destruct Hss as (Hss' & Hall).
    rewrite Forall_forall in Hall. simpl in Hall.
    destruct (merge_ok _ s f r Hsf Hl Hall) as (new & Hm & Hl').
    rewrite Hm in Hst. destruct Hst as (-> & Hget).
    assert (Hk1 : aget peqb k (g_edges h1) = Some new) by (rewrite Hget, peqb_refl; reflexivity).
    assert (Hc1 : ocanon (Some new)) by (eapply merge_canon; eassumption).
    destruct (IH h1 u v Hr1) as (h' & Hrun & Hd' & Hr' & Hc' & Hm' & _ & Hnn' & _ & Hfr');
      try (rewrite Hd1; fold k; rewrite Hk1; assumption); try assumption.
    { intros x Hx. apply Hne. right; assumption. }
    rewrite Hd1 in Hc', Hm', Hnn', Hfr'. fold k in Hc', Hm', Hnn', Hfr'.
    exists h'. split; [exact Hrun|]. split; [congruence|]. split; [exact Hr'|].
    split; [exact Hc'|]. split.
    { intros tau. rewrite Hm', Hk1. rewrite (merge_mem _ _ _ _ tau Hc Hm).
      change (mem tau ((s, f) :: r)) with (in_itv tau (s, f) || mem tau r).
      unfold in_itv; simpl. rewrite orb_assoc. reflexivity. }
    assert (Hnone : aget peqb k (g_edges h') <> None) by (apply Hnn'; rewrite Hk1; discriminate).
    split; [intros _; exact Hnone|]. split; [intros _; exact Hnone|].
    split; [discriminate|].
    intros k' Hk'. rewrite Hfr' by assumption. rewrite Hget, Hk'. reflexivity.
Qed.

Lemma add_runs_fresh runs : forall h u v,
  g_rem h = true -> starts_sorted runs -> (forall r, In r runs -> fst r <= snd r) ->
  aget peqb (nk (g_dir h) u v) (g_edges h) = None ->
  exists h', add_runs h u v runs = (h', Done) /\ g_dir h' = g_dir h /\ g_rem h' = true /\
    ocanon (aget peqb (nk (g_dir h) u v) (g_edges h')) /\
    (forall tau, omem tau (aget peqb (nk (g_dir h) u v) (g_edges h')) = mem tau runs) /\
    (runs <> [] -> aget peqb (nk (g_dir h) u v) (g_edges h') <> None) /\
    (runs = [] -> h' = h) /\
    (forall k', peqb k' (nk (g_dir h) u v) = false -> aget peqb k' (g_edges h') = aget peqb k' (g_edges h)).
Proof.
  intros h u v Hrem Hss Hne Hnone.
  destruct (add_runs_gen runs h u v Hrem) as (h' & Hrun & Hd & Hr & Hc & Hm & Hnn & _ & Hnil & Hfr);
    try assumption; try (rewrite Hnone; exact I).
  exists h'. repeat split; auto. intros tau. rewrite Hm, Hnone. reflexivity.
Qed.

Lemma canon_chrono_sorted l : canon_chrono l -> starts_sorted l /\ (forall r, In r l -> fst r <= snd r).
Proof.
  intros Hc. split; [|apply cc_nonempty; assumption].
  induction l as [|[a b] r IH]; [constructor|].
  constructor; [apply IH; eapply cc_tail; eassumption|].
  apply Forall_forall. intros y Hy. pose proof (cc_all_gt a b r Hc y Hy). simpl in Hc. simpl. lia.
Qed.

Lemma add_runs_exact_gen runs : forall h u v tl,
  g_rem h = true -> aget peqb (nk (g_dir h) u v) (g_edges h) = Some tl ->
  canon_chrono (tl_chrono tl ++ runs) ->
  exists h' tl', add_runs h u v runs = (h', Done) /\
    aget peqb (nk (g_dir h) u v) (g_edges h') = Some tl' /\ tl_chrono tl' = tl_chrono tl ++ runs.
Proof.
  induction runs as [|[s f] r IH]; intros h u v tl Hrem Hget Hc.
  - exists h, tl. cbn [add_runs]. rewrite app_nil_r. auto.
  - cbn [add_runs].
    destruct (add_interaction h u v (Some s) (Some (f + 1))) as [h1 o] eqn:Hs.
    destruct (add_step _ _ _ _ _ _ _ Hrem Hs) as (Hd1 & Hr1 & Hst).
    set (k := nk (g_dir h) u v) in *.
    destruct tl as [[a b] older].
    assert (Hloc : a <= b /\ b + 1 < s /\ s <= f).
    { unfold tl_chrono, tl_list in Hc. simpl in Hc. rewrite <- app_assoc in Hc.
      apply cc_app_r in Hc. simpl in Hc. lia. }
    rewrite Hget in Hst. unfold merge_tl in Hst.
    destruct (s <? a) eqn:E1; [lia|]. destruct (f <? s) eqn:E2; [lia|].
    destruct (b + 1 <? s) eqn:E3; [|lia].
    destruct Hst as (-> & Hg1).
    set (tl1 := ((s, f), (a, b) :: older) : tline).
    assert (Hk1 : aget peqb k (g_edges h1) = Some tl1) by (rewrite Hg1, peqb_refl; reflexivity).
    assert (Hch : tl_chrono tl1 = tl_chrono ((a, b), older) ++ [(s, f)]) by reflexivity.
    destruct (IH h1 u v tl1 Hr1) as (h' & tl' & Hrun & Hget' & Hchr').
    { rewrite Hd1. exact Hk1. }
    { rewrite Hch, <- app_assoc. exact Hc. }
    exists h', tl'. split; [exact Hrun|]. split; [rewrite Hd1 in Hget'; exact Hget'|].
    rewrite Hchr', Hch, <- app_assoc. reflexivity.
Qed.

Lemma add_runs_fresh_exact runs : forall h u v,
  g_rem h = true -> canon_chrono runs -> runs <> [] ->
  aget peqb (nk (g_dir h) u v) (g_edges h) = None ->
  exists h' tl, add_runs h u v runs = (h', Done) /\
    aget peqb (nk (g_dir h) u v) (g_edges h') = Some tl /\ tl_chrono tl = runs.
Proof.
  intros h u v Hrem Hc Hne Hnone. destruct runs as [|[s f] r]; [congruence|].
  cbn [add_runs].
  destruct (add_interaction h u v (Some s) (Some (f + 1))) as [h1 o] eqn:Hs.
  destruct (add_step _ _ _ _ _ _ _ Hrem Hs) as (Hd1 & Hr1 & Hst).
  set (k := nk (g_dir h) u v) in *.
  assert (Hsf : s <= f) by (simpl in Hc; tauto).
  rewrite Hnone in Hst. unfold merge_tl in Hst. destruct (f <? s) eqn:E; [lia|].
  destruct Hst as (-> & Hg1).
  set (tl1 := ((s, f), []) : tline).
  assert (Hk1 : aget peqb k (g_edges h1) = Some tl1) by (rewrite Hg1, peqb_refl; reflexivity).
  destruct (add_runs_exact_gen r h1 u v tl1 Hr1) as (h' & tl' & Hrun & Hget' & Hchr').
  { rewrite Hd1. exact Hk1. }
  { exact Hc. }
  exists h', tl'. split; [exact Hrun|]. split; [rewrite Hd1 in Hget'; exact Hget'|exact Hchr'].
Qed.

(** * 4. the sort used by to_undirected *)
Lemma ins_run_perm x l : Permutation (ins_run x l) (x :: l).
Proof.
  induction l as [|y r IH]; simpl; [reflexivity|].
  destruct (run_le x y); [reflexivity|].
  eapply perm_trans; [apply perm_skip; exact IH|apply perm_swap].
Qed.

Lemma sort_runs_perm l : Permutation (sort_runs l) l.
Proof.
  induction l as [|x r IH]; simpl; [constructor|].
  eapply perm_trans; [apply ins_run_perm|apply perm_skip; exact IH].
Qed.

Lemma ins_run_sorted x l : starts_sorted l -> starts_sorted (ins_run x l).
Proof.
  unfold starts_sorted. induction l as [|y r IH]; intros Hs; simpl.
  - constructor; constructor.
  - apply StronglySorted_inv in Hs. destruct Hs as (Hr & Hall). rewrite Forall_forall in Hall.
    destruct (run_le x y) eqn:E; unfold run_le in E.
    + constructor; [constructor; [assumption|apply Forall_forall; assumption]|].
      apply Forall_forall. intros z [<-|Hz]; [lia|]. specialize (Hall z Hz). lia.
    + constructor; [apply IH; assumption|].
      apply Forall_forall. intros z Hz.
      apply (Permutation_in _ (ins_run_perm x r)) in Hz. destruct Hz as [<-|Hz]; [lia|apply Hall; assumption].
Qed.

Lemma sort_runs_sorted l : starts_sorted (sort_runs l).
Proof.
  induction l as [|x r IH]; simpl; [constructor|]. apply ins_run_sorted. exact IH.
Qed.

Lemma mem_perm tau l l' : Permutation l l' -> mem tau l = mem tau l'.
Proof.
  unfold mem. induction 1; simpl.
  - reflexivity.
  - rewrite IHPermutation. reflexivity.
  - destruct (in_itv tau x), (in_itv tau y); reflexivity.
  - congruence.
Qed.

(** * 5. many pairs *)
Lemma find_key_none {A} (key : A -> Z * Z) k (l : list A) :
  ~ In k (map key l) -> find (fun e => peqb (key e) k) l = None.
Proof.
  induction l as [|e r IH]; simpl; intros H; [reflexivity|].
  destruct (peqb (key e) k) eqn:E.
  - apply peqb_eq in E. exfalso. apply H. left; assumption.
  - apply IH. intros Hin. apply H. right; assumption.
Qed.

Lemma add_all_runs_fresh l : forall h,
  g_rem h = true ->
  NoDup (map (fun e => nk (g_dir h) (fst (fst e)) (snd (fst e))) l) ->
  (forall e, In e l -> starts_sorted (snd e) /\ (forall r, In r (snd e) -> fst r <= snd r)) ->
  (forall e, In e l -> aget peqb (nk (g_dir h) (fst (fst e)) (snd (fst e))) (g_edges h) = None) ->
  exists h', add_all_runs h l = (h', Done) /\ g_dir h' = g_dir h /\ g_rem h' = true /\
    (forall k, ocanon (aget peqb k (g_edges h)) -> ocanon (aget peqb k (g_edges h'))) /\
    (forall k tau, omem tau (aget peqb k (g_edges h')) =
       match find (fun e => peqb (nk (g_dir h) (fst (fst e)) (snd (fst e))) k) l with
       | Some e => mem tau (snd e)
       | None => omem tau (aget peqb k (g_edges h))
       end).
Proof.
  induction l as [|[[u v] runs] rest IH]; intros h Hrem Hnd Hok Hnone.
  - exists h. cbn [add_all_runs]. repeat split; auto.
  - cbn [add_all_runs].
    destruct (Hok ((u, v), runs) (or_introl eq_refl)) as (Hss & Hne). simpl in Hss, Hne.
    pose proof (Hnone ((u, v), runs) (or_introl eq_refl)) as Hn0. simpl in Hn0.
    destruct (add_runs_fresh runs h u v Hrem Hss Hne Hn0)
      as (h1 & Hrun & Hd1 & Hr1 & Hc1 & Hm1 & _ & _ & Hfr1).
    rewrite Hrun.
    set (k0 := nk (g_dir h) u v) in *.
    simpl in Hnd. fold k0 in Hnd. apply NoDup_cons_iff in Hnd. destruct Hnd as (Hni & Hnd').
    assert (Hneq : forall e, In e rest -> peqb (nk (g_dir h) (fst (fst e)) (snd (fst e))) k0 = false).
    { intros e He. apply peqb_neq. intros Heq. apply Hni. apply in_map_iff. exists e. split; assumption. }
    destruct (IH h1 Hr1) as (h' & Hall & Hd' & Hr' & Hc' & Hm').
    { rewrite Hd1. exact Hnd'. }
    { intros e He. apply Hok. right; assumption. }
    { intros e He. rewrite Hd1. rewrite Hfr1 by (apply Hneq; assumption). apply Hnone. right; assumption. }
    exists h'. split; [exact Hall|]. split; [congruence|]. split; [exact Hr'|]. split.
    + intros k Hk. apply Hc'. destruct (peqb k k0) eqn:Ek.
      * apply peqb_eq in Ek. subst k. exact Hc1.
      * rewrite Hfr1 by assumption. exact Hk.
    + intros k tau. rewrite Hm'. rewrite Hd1. simpl. fold k0.
      destruct (peqb k0 k) eqn:Ek.
      * apply peqb_eq in Ek. subst k.
        rewrite (find_key_none (fun e => nk (g_dir h) (fst (fst e)) (snd (fst e))) k0 rest Hni).
        apply Hm1.
      * rewrite Hfr1 by (rewrite peqb_sym; assumption). reflexivity.
Qed.
