(** ConfFacts: bounds and structure of the delta_conformity model (Conformity.v). *)
From Coq Require Import QArith Lqa.
From DynVerif Require Import Base Graph Derived Annotate Paths Conformity.
From DynVerif.proofs Require Import AnnotateFacts.
From Coq Require Import Sorting.Sorted Sorting.Permutation.
#[local] Open Scope Z_scope.

(** * sums of rationals *)

Fixpoint qsum (l : list Q) : Q := match l with [] => 0%Q | x :: r => (x + qsum r)%Q end.

Lemma fold_qplus (l : list Q) : forall acc, (fold_left Qplus l acc == acc + qsum l)%Q.
Proof.
  induction l as [|x r IH]; intros acc; simpl.
  - ring.
  - rewrite IH. ring.
Qed.

Lemma qsum_app (a b : list Q) : (qsum (a ++ b) == qsum a + qsum b)%Q.
Proof. induction a as [|x r IH]; simpl; [ring|rewrite IH; ring]. Qed.

Lemma qsum_perm (a b : list Q) : Permutation a b -> (qsum a == qsum b)%Q.
Proof.
  induction 1; simpl.
  - reflexivity.
  - rewrite IHPermutation. reflexivity.
  - ring.
  - etransitivity; eauto.
Qed.

Definition qlen {A} (l : list A) : Q := inject_Z (Z.of_nat (length l)).

Lemma qlen_cons {A} (x : A) (l : list A) : (qlen (x :: l) == 1 + qlen l)%Q.
Proof.
  unfold qlen. simpl length. rewrite Nat2Z.inj_succ. unfold Z.succ.
  rewrite inject_Z_plus. ring.
Qed.

Lemma qlen_nonneg {A} (l : list A) : (0 <= qlen l)%Q.
Proof. unfold qlen. change 0%Q with (inject_Z 0). rewrite <- Zle_Qle. lia. Qed.

Lemma qlen_pos {A} (l : list A) : l <> [] -> (0 < qlen l)%Q.
Proof.
  intros H. unfold qlen. change 0%Q with (inject_Z 0). rewrite <- Zlt_Qlt.
  destruct l; [congruence|simpl; lia].
Qed.

Lemma qsum_bounded (l : list Q) :
  (forall x, In x l -> (-1 <= x <= 1)%Q) -> (- qlen l <= qsum l <= qlen l)%Q.
Proof.
  induction l as [|x r IH]; intros H.
  - unfold qlen; simpl. split; apply Qle_refl.
  - rewrite qlen_cons. simpl qsum.
    assert (Hx := H x (or_introl eq_refl)).
    assert (Hr : (- qlen r <= qsum r <= qlen r)%Q) by (apply IH; intros; apply H; right; auto).
    lra.
Qed.

Lemma qsum_ones (l : list Q) :
  (forall x, In x l -> (x == 1)%Q) -> (qsum l == qlen l)%Q.
Proof.
  induction l as [|x r IH]; intros H.
  - reflexivity.
  - rewrite qlen_cons. simpl qsum. rewrite (H x (or_introl eq_refl)), IH; [ring|].
    intros; apply H; right; auto.
Qed.

Lemma qdiv_bounded (x n : Q) : (0 <= n)%Q -> (- n <= x <= n)%Q -> (-1 <= x / n <= 1)%Q.
Proof.
  intros Hn [H1 H2].
  destruct (Qlt_le_dec 0 n) as [Hp|Hz].
  - split.
    + apply Qle_shift_div_l; [exact Hp|lra].
    + apply Qle_shift_div_r; [exact Hp|lra].
  - assert (E : (n == 0)%Q) by lra.
    assert (E2 : (x / n == 0)%Q).
    { rewrite E. unfold Qdiv. change (/ 0)%Q with 0%Q. ring. }
    rewrite E2. lra.
Qed.

Lemma qmul_bounded (a b : Q) : (-1 <= a <= 1)%Q -> (-1 <= b <= 1)%Q -> (-1 <= a * b <= 1)%Q.
Proof.
  intros [A1 A2] [B1 B2].
  assert (H1 : (0 <= (1 - a) * (1 + b))%Q) by (apply Qmult_le_0_compat; lra).
  assert (H2 : (0 <= (1 + a) * (1 - b))%Q) by (apply Qmult_le_0_compat; lra).
  assert (H3 : (0 <= (1 - a) * (1 - b))%Q) by (apply Qmult_le_0_compat; lra).
  assert (H4 : (0 <= (1 + a) * (1 + b))%Q) by (apply Qmult_le_0_compat; lra).
  split; lra.
Qed.

(** * 1. label factors *)

Definition nbr_of (g : graph) (tdist : list (Z * Z)) (v : Z) : list Z :=
  match neighbors g v (Some (match aget Z.eqb v tdist with Some x => x | None => 0 end)) with
  | Some l => l | None => [] end.

Definition lf_term (g : graph) (tab : labtab) (u : Z) (tdist : list (Z * Z)) (v : Z) : Q :=
  let a_u := lab tab u in
  let a_v := lab tab v in
  let sgn := if a_u =? a_v then 1 else (-1) in
  let nb := nbr_of g tdist v in
  let same := Z.of_nat (length (filter (fun x => lab tab x =? a_v) nb)) in
  let f := if (same =? 0) then 1%Q else (same # Z.to_pos (Z.of_nat (length nb))) in
  (inject_Z sgn * f)%Q.

Lemma label_factor_unfold g tab u nodes tdist :
  label_factor g tab u nodes tdist =
  (fold_left Qplus (map (lf_term g tab u tdist) nodes) 0%Q / qlen nodes)%Q.
Proof. reflexivity. Qed.

Lemma filter_length_le {A} (p : A -> bool) (l : list A) : (length (filter p l) <= length l)%nat.
Proof. induction l as [|x r IH]; simpl; [lia|]. destruct (p x); simpl; lia. Qed.

Lemma frac_bounds (s n : Z) : 1 <= s <= n -> (0 < s # Z.to_pos n)%Q /\ (s # Z.to_pos n <= 1)%Q.
Proof.
  intros H. unfold Qlt, Qle; simpl. rewrite Z2Pos.id by lia. lia.
Qed.

Lemma lf_term_bounded g tab u tdist v : (-1 <= lf_term g tab u tdist v <= 1)%Q.
Proof.
  unfold lf_term.
  set (nb := nbr_of g tdist v).
  set (flt := filter _ nb).
  assert (Hle : (length flt <= length nb)%nat) by apply filter_length_le.
  assert (Hf : (0 < (if Z.of_nat (length flt) =? 0 then 1%Q
                     else Z.of_nat (length flt) # Z.to_pos (Z.of_nat (length nb))) <= 1)%Q).
  { destruct (Z.of_nat (length flt) =? 0) eqn:E.
    - lra.
    - apply frac_bounds. lia. }
  destruct Hf as [Hf1 Hf2].
  destruct (lab tab u =? lab tab v).
  - change (inject_Z 1) with 1%Q. lra.
  - change (inject_Z (-1)) with (-1)%Q. lra.
Qed.

Lemma label_factor_bounded g tab u nodes tdist : (-1 <= label_factor g tab u nodes tdist <= 1)%Q.
Proof.
  rewrite label_factor_unfold, fold_qplus.
  apply qdiv_bounded; [apply qlen_nonneg|].
  assert (H : (- qlen (map (lf_term g tab u tdist) nodes) <= qsum (map (lf_term g tab u tdist) nodes)
               <= qlen (map (lf_term g tab u tdist) nodes))%Q).
  { apply qsum_bounded. intros x Hx. apply in_map_iff in Hx. destruct Hx as (v & <- & _).
    apply lf_term_bounded. }
  unfold qlen in *. rewrite map_length in H. lra.
Qed.

Lemma label_frequency_bounded g tabs u nodes tdist : (-1 <= label_frequency g tabs u nodes tdist <= 1)%Q.
Proof.
  unfold label_frequency.
  assert (G : forall acc, (-1 <= acc <= 1)%Q ->
    (-1 <= fold_left (fun s tab => (s * label_factor g tab u nodes tdist)%Q) tabs acc <= 1)%Q).
  { induction tabs as [|t r IH]; intros acc Ha; simpl; auto.
    apply IH. apply qmul_bounded; auto. apply label_factor_bounded. }
  apply G. lra.
Qed.

(** * 2. ranks *)

Lemma dedupZ_In (l : list Z) (x : Z) : In x (dedupZ l) <-> In x l.
Proof.
  induction l as [|y r IH]; simpl; [tauto|].
  destruct (memZ y r) eqn:E.
  - rewrite IH. apply memZ_In in E. split; [auto|]. intros [->|H]; auto.
  - simpl. rewrite IH. tauto.
Qed.

Lemma dedupZ_NoDup (l : list Z) : NoDup (dedupZ l).
Proof.
  induction l as [|y r IH]; simpl; [constructor|].
  destruct (memZ y r) eqn:E; auto.
  constructor; auto. rewrite dedupZ_In, <- memZ_In. congruence.
Qed.

Definition tids_of (td : list (Z * Z)) : list Z := sortZ (dedupZ (map snd td)).
Definition rank_in (tids : list Z) (x : Z) : Z :=
  match index_of x tids with Some i => Z.of_nat (S i) | None => 0 end.

Lemma remap_unfold td : remap td = map (fun kv => (fst kv, rank_in (tids_of td) (snd kv))) td.
Proof. reflexivity. Qed.

Lemma tids_In td x : In x (tids_of td) <-> In x (map snd td).
Proof. unfold tids_of. rewrite sortZ_In, dedupZ_In. tauto. Qed.

Lemma tids_length td : length (tids_of td) = length (dedupZ (map snd td)).
Proof. apply sortZ_length. Qed.

Lemma tids_NoDup td : NoDup (tids_of td).
Proof. apply sortZ_NoDup, dedupZ_NoDup. Qed.

Lemma rank_in_range tids x : In x tids -> 1 <= rank_in tids x <= Z.of_nat (length tids).
Proof.
  intros H. unfold rank_in. destruct (index_of x tids) as [i|] eqn:E.
  - apply index_of_lt in E. lia.
  - apply index_of_In in H. congruence.
Qed.

Lemma remap_ranks td : let k := Z.of_nat (length (dedupZ (map snd td))) in
  (forall n r, In (n, r) (remap td) -> 1 <= r <= k) /\ (forall r, 1 <= r <= k -> exists n, In (n, r) (remap td)).
Proof.
  intros k. unfold k. rewrite <- tids_length, remap_unfold. split.
  - intros n r H. apply in_map_iff in H. destruct H as ([n' d] & E & Hin). simpl in E.
    inversion E; subst. apply rank_in_range. apply tids_In. apply in_map_iff. exists (n, d); auto.
  - intros r Hr. set (i := Z.to_nat (r - 1)).
    assert (Hi : (i < length (tids_of td))%nat) by lia.
    assert (Hx : In (nth i (tids_of td) 0) (tids_of td)) by (apply nth_In; exact Hi).
    apply tids_In in Hx. apply in_map_iff in Hx. destruct Hx as ([n d] & Ed & Hin). simpl in Ed.
    exists n. apply in_map_iff. exists (n, d). split; auto. simpl. f_equal.
    unfold rank_in. rewrite Ed, index_of_nth by (auto using tids_NoDup). lia.
Qed.

(** association-list facts for Z keys *)
Lemma aset_keys {V} (k : Z) (v : V) (l : list (Z * V)) :
  map fst (aset Z.eqb k v l) = if memZ k (map fst l) then map fst l else map fst l ++ [k].
Proof.
  induction l as [|[k' v'] r IH]; simpl; auto.
  destruct (k =? k') eqn:E; simpl; auto.
  rewrite IH. destruct (memZ k (map fst r)); reflexivity.
Qed.

Lemma aset_in {V} (k : Z) (v : V) (l : list (Z * V)) k0 v0 :
  In (k0, v0) (aset Z.eqb k v l) -> (k0 = k /\ v0 = v) \/ In (k0, v0) l.
Proof.
  induction l as [|[k' v'] r IH]; simpl.
  - intros [H|[]]. inversion H; auto.
  - destruct (k =? k') eqn:E; simpl.
    + intros [H|H]; auto. inversion H; subst. left; split; auto; lia.
    + intros [H|H]; auto. apply IH in H. tauto.
Qed.

Lemma NoDup_snoc_Z (l : list Z) x : NoDup l -> ~ In x l -> NoDup (l ++ [x]).
Proof.
  intros Hl Hx. apply (Permutation_NoDup (l := x :: l)).
  - apply Permutation_cons_append.
  - constructor; auto.
Qed.

Lemma by_rank_inv sp : forall acc,
  NoDup (map fst acc) -> (forall r ns, In (r, ns) acc -> ns <> []) ->
  NoDup (map fst (by_rank sp acc)) /\
  (forall r, In r (map fst (by_rank sp acc)) <-> In r (map fst acc) \/ In r (map snd sp)) /\
  (forall r ns, In (r, ns) (by_rank sp acc) -> ns <> []).
Proof.
  induction sp as [|[n d] sp IH]; intros acc Hn Hne; simpl.
  - split; auto. split; auto. intros r; tauto.
  - set (old := match aget Z.eqb d acc with Some l => l | None => [] end).
    destruct (IH (aset Z.eqb d (old ++ [n]) acc)) as (I1 & I2 & I3).
    + rewrite aset_keys. destruct (memZ d (map fst acc)) eqn:E; auto.
      apply NoDup_snoc_Z; auto. rewrite <- memZ_In. congruence.
    + intros r ns H. apply aset_in in H. destruct H as [[_ ->]|H]; eauto.
      destruct old; discriminate.
    + split; auto. split; auto. intros r. rewrite I2, aset_keys.
      destruct (memZ d (map fst acc)) eqn:E.
      * apply memZ_In in E. split; [tauto|]. intros [H|[<-|H]]; auto.
      * rewrite in_app_iff. simpl. tauto.
Qed.

Lemma by_rank_keys sp : NoDup (map fst (by_rank sp [])) /\ (forall r, In r (map fst (by_rank sp [])) <-> In r (map snd sp)) /\
  (forall r ns, In (r, ns) (by_rank sp []) -> ns <> []).
Proof.
  destruct (by_rank_inv sp []) as (I1 & I2 & I3); simpl; [constructor|tauto|].
  split; auto. split; auto. intros r. rewrite I2. simpl. tauto.
Qed.

(** * 6. structure of the result *)

Theorem conformity_domain dg start delta alphas tabs psize ptype l :
  delta_conformity dg start delta alphas tabs psize ptype = ConfOk l ->
  exists g, fst (time_slice dg start (Some (start + delta))) = Some g /\ map fst l = alphas /\
    forall alpha profs, In (alpha, profs) l ->
      length profs = length (profiles tabs psize) /\ forall scores, In scores profs -> map fst scores = nodes_at g start.
Proof.
  unfold delta_conformity.
  destruct ((length tabs <? psize)%nat || (length alphas =? 0)%nat || (length tabs =? 0)%nat); [discriminate|].
  destruct (time_slice dg start (Some (start + delta))) as [[g|] o]; [|discriminate].
  destruct (snapshot_ids g) as [|i0 ids] eqn:Eids; [discriminate|].
  destruct (all_time_respecting_paths g _ _ None) as [sp|]; [|discriminate].
  intros H. inversion H; subst l; clear H.
  exists g. split; [reflexivity|]. split.
  - rewrite map_map. simpl. apply map_id.
  - intros alpha profs Hin. apply in_map_iff in Hin. destruct Hin as (a & E & _).
    inversion E; subst. split.
    + apply map_length.
    + intros scores Hs. apply in_map_iff in Hs. destruct Hs as (prof & <- & _).
      rewrite map_map. simpl. apply map_id.
Qed.

Theorem conformity_none dg start delta alphas tabs psize ptype g :
  (length tabs <? psize)%nat || (length alphas =? 0)%nat || (length tabs =? 0)%nat = false ->
  fst (time_slice dg start (Some (start + delta))) = Some g -> snapshot_ids g = [] ->
  delta_conformity dg start delta alphas tabs psize ptype = ConfNone.
Proof.
  intros H1 H2 H3. unfold delta_conformity. rewrite H1.
  destruct (time_slice dg start (Some (start + delta))) as [og o]. simpl in H2. subst og.
  rewrite H3. reflexivity.
Qed.

Theorem sliding_pointwise dg delta alphas tabs psize ptype :
  sliding_delta_conformity dg delta alphas tabs psize ptype =
  flat_map (fun t => if t + delta <? last (snapshot_ids dg) 0
                     then [(t + delta, delta_conformity dg t delta alphas tabs psize ptype)] else []) (snapshot_ids dg).
Proof. reflexivity. Qed.

(** * 3. the bound on the scores *)

Lemma weight_pos alpha d : (0 < weight alpha d)%Q.
Proof. reflexivity. Qed.

Lemma qsum_nonneg (l : list Q) : (forall x, In x l -> (0 < x)%Q) -> (0 <= qsum l)%Q.
Proof.
  induction l as [|x r IH]; intros H; simpl; [lra|].
  assert (0 < x)%Q by (apply H; left; auto).
  assert (0 <= qsum r)%Q by (apply IH; intros; apply H; right; auto). lra.
Qed.

Lemma qsum_pos (l : list Q) : (forall x, In x l -> (0 < x)%Q) -> l <> [] -> (0 < qsum l)%Q.
Proof.
  destruct l as [|x r]; intros H Hn; [congruence|]. simpl.
  assert (0 < x)%Q by (apply H; left; auto).
  assert (0 <= qsum r)%Q by (apply qsum_nonneg; intros; apply H; right; auto). lra.
Qed.

Definition wsum (alpha : Z) (keys : list Z) : Q := qsum (map (weight alpha) keys).

Lemma wsum_nonneg alpha keys : (0 <= wsum alpha keys)%Q.
Proof.
  apply qsum_nonneg. intros x H. apply in_map_iff in H. destruct H as (d & <- & _). apply weight_pos.
Qed.

Lemma wsum_pos alpha keys : keys <> [] -> (0 < wsum alpha keys)%Q.
Proof.
  intros Hn. apply qsum_pos.
  - intros x H. apply in_map_iff in H. destruct H as (d & <- & _). apply weight_pos.
  - destruct keys; [congruence|discriminate].
Qed.

Lemma wsum_perm alpha a b : Permutation a b -> (wsum alpha a == wsum alpha b)%Q.
Proof. intros H. apply qsum_perm, Permutation_map, H. Qed.

Definition raw_step (g : graph) (tabs : list labtab) (alpha u : Z) (tdist : list (Z * Z)) :=
  fun (acc : Q) (dn : Z * list Z) => let '(d, nodes) := dn in
     if d =? 0 then acc else (acc + label_frequency g tabs u nodes tdist * weight alpha d)%Q.

Lemma node_score_unfold g tabs alpha u tdist :
  node_score g tabs alpha u tdist =
  let ranks := by_rank (remap tdist) [] in
  let raw := fold_left (raw_step g tabs alpha u tdist) ranks 0%Q in
  match ranks with
  | [] => raw
  | _ => (raw / fold_left Qplus (map (weight alpha) (zrange 1 (Z.to_nat (maxZ 0 (map fst ranks))))) 0%Q)%Q
  end.
Proof. reflexivity. Qed.

Lemma raw_bounded g tabs alpha u tdist ranks : forall acc,
  (acc - wsum alpha (map fst ranks) <= fold_left (raw_step g tabs alpha u tdist) ranks acc
   <= acc + wsum alpha (map fst ranks))%Q.
Proof.
  induction ranks as [|[d nodes] r IH]; intros acc; simpl.
  - unfold wsum; simpl. lra.
  - unfold wsum in *. simpl map. simpl qsum.
    assert (Hw := weight_pos alpha d).
    destruct (d =? 0).
    + specialize (IH acc). lra.
    + assert (Hb := label_frequency_bounded g tabs u nodes tdist).
      set (lf := label_frequency g tabs u nodes tdist) in *.
      set (w := weight alpha d) in *.
      specialize (IH (acc + lf * w)%Q).
      assert (- w <= lf * w <= w)%Q.
      { assert (H1 : (0 <= (1 - lf) * w)%Q) by (apply Qmult_le_0_compat; lra).
        assert (H2 : (0 <= (1 + lf) * w)%Q) by (apply Qmult_le_0_compat; lra).
        split; lra. }
      lra.
Qed.

Lemma zrange_In a n x : In x (zrange a n) <-> a <= x < a + Z.of_nat n.
Proof.
  revert a. induction n as [|n IH]; intros a; simpl zrange.
  - simpl. lia.
  - simpl In. rewrite IH. lia.
Qed.

Lemma zrange_NoDup a n : NoDup (zrange a n).
Proof.
  revert a. induction n as [|n IH]; intros a; simpl; constructor; auto.
  rewrite zrange_In. lia.
Qed.

Lemma maxZ_ub d l : d <= maxZ d l /\ forall x, In x l -> x <= maxZ d l.
Proof.
  induction l as [|y r [IH1 IH2]]; simpl; [split; [lia|tauto]|].
  split; [lia|]. intros x [->|H]; [lia|]. specialize (IH2 x H). lia.
Qed.

Lemma maxZ_in d l : maxZ d l = d \/ In (maxZ d l) l.
Proof.
  induction l as [|y r IH]; simpl; auto.
  destruct (Z.max_spec y (maxZ d r)) as [[_ ->]|[_ ->]]; tauto.
Qed.

(** everything we need about the rank table of [tdist] *)
Lemma ranks_facts td :
  let ranks := by_rank (remap td) [] in
  let k := Z.of_nat (length (dedupZ (map snd td))) in
  NoDup (map fst ranks) /\ (forall r, In r (map fst ranks) <-> 1 <= r <= k) /\
  (forall r ns, In (r, ns) ranks -> ns <> []) /\
  Permutation (map fst ranks) (zrange 1 (Z.to_nat k)) /\
  (ranks <> [] -> maxZ 0 (map fst ranks) = k).
Proof.
  intros ranks k.
  destruct (by_rank_keys (remap td)) as (K1 & K2 & K3). fold ranks in K1, K2, K3.
  destruct (remap_ranks td) as [R1 R2]. fold k in R1, R2.
  assert (KR : forall r, In r (map fst ranks) <-> 1 <= r <= k).
  { intros r. rewrite K2. split.
    - intros H. apply in_map_iff in H. destruct H as ([n r'] & E & H). simpl in E; subst r'. eauto.
    - intros H. destruct (R2 r H) as (n & Hn). apply in_map_iff. exists (n, r); auto. }
  split; auto. split; auto. split; auto. split.
  - apply NoDup_Permutation; auto using zrange_NoDup.
    intros x. rewrite KR, zrange_In. lia.
  - intros Hne.
    assert (Hk : 1 <= k).
    { destruct ranks as [|[r ns] rest]; [congruence|].
      assert (H : In r (map fst ((r, ns) :: rest))) by (left; auto). apply KR in H. lia. }
    destruct (maxZ_ub 0 (map fst ranks)) as [U1 U2].
    assert (k <= maxZ 0 (map fst ranks)) by (apply U2, KR; lia).
    destruct (maxZ_in 0 (map fst ranks)) as [E|H0]; [lia|]. apply KR in H0. lia.
Qed.

Theorem node_score_bounded g tabs alpha u tdist : 0 <= alpha -> (-1 <= node_score g tabs alpha u tdist <= 1)%Q.
Proof.
  intros _. rewrite node_score_unfold. cbv zeta.
  destruct (ranks_facts tdist) as (K1 & K2 & K3 & KP & KM). cbv zeta in *.
  set (ranks := by_rank (remap tdist) []) in *.
  assert (HB := raw_bounded g tabs alpha u tdist ranks 0%Q).
  set (raw := fold_left (raw_step g tabs alpha u tdist) ranks 0%Q) in *.
  destruct ranks as [|p rest] eqn:E.
  - unfold raw. simpl. lra.
  - rewrite KM by discriminate. rewrite fold_qplus.
    fold (wsum alpha (zrange 1 (Z.to_nat (Z.of_nat (length (dedupZ (map snd tdist))))))).
    rewrite <- (wsum_perm alpha _ _ KP).
    assert (Hn := wsum_nonneg alpha (map fst (p :: rest))).
    apply qdiv_bounded; lra.
Qed.

(** * 4. one shared label value *)

Lemma filter_all {A} (p : A -> bool) (l : list A) : (forall x, p x = true) -> filter p l = l.
Proof. intros H. induction l as [|x r IH]; simpl; auto. rewrite H, IH. reflexivity. Qed.

Lemma lf_term_same g tab u tdist v :
  (forall n, lab tab n = lab tab u) -> (lf_term g tab u tdist v == 1)%Q.
Proof.
  intros H. unfold lf_term. rewrite (H v), Z.eqb_refl.
  rewrite filter_all by (intros x; rewrite (H x); apply Z.eqb_refl).
  change (inject_Z 1) with 1%Q.
  destruct (Z.of_nat (length (nbr_of g tdist v)) =? 0) eqn:E; [ring|].
  rewrite Qmult_1_l. unfold Qeq. simpl. rewrite Z2Pos.id by lia. lia.
Qed.

Lemma label_factor_same g tab u nodes tdist :
  (forall n, lab tab n = lab tab u) -> nodes <> [] -> (label_factor g tab u nodes tdist == 1)%Q.
Proof.
  intros H Hn. rewrite label_factor_unfold, fold_qplus.
  rewrite qsum_ones.
  - unfold qlen at 1. rewrite map_length. fold (qlen nodes).
    assert (Hp := qlen_pos nodes Hn). field. lra.
  - intros x Hx. apply in_map_iff in Hx. destruct Hx as (v & <- & _). apply lf_term_same, H.
Qed.

Lemma label_frequency_same g tabs u nodes tdist :
  (forall tab n, In tab tabs -> lab tab n = lab tab u) -> nodes <> [] ->
  (label_frequency g tabs u nodes tdist == 1)%Q.
Proof.
  intros H Hn. unfold label_frequency.
  assert (G : forall acc, (acc == 1)%Q ->
    (fold_left (fun s tab => (s * label_factor g tab u nodes tdist)%Q) tabs acc == 1)%Q).
  { induction tabs as [|t r IH]; intros acc Ha; simpl; auto.
    apply IH.
    - intros tab n Hin. apply H. right; auto.
    - rewrite Ha, label_factor_same; auto; [ring|]. intros n. apply H. left; auto. }
  apply G. reflexivity.
Qed.

Lemma raw_same g tabs alpha u tdist ranks :
  (forall tab n, In tab tabs -> lab tab n = lab tab u) ->
  (forall r ns, In (r, ns) ranks -> r <> 0 /\ ns <> []) ->
  forall acc, (fold_left (raw_step g tabs alpha u tdist) ranks acc == acc + wsum alpha (map fst ranks))%Q.
Proof.
  intros H. induction ranks as [|[d nodes] r IH]; intros Hr acc; simpl.
  - unfold wsum; simpl. ring.
  - destruct (Hr d nodes (or_introl eq_refl)) as [Hd Hn].
    destruct (d =? 0) eqn:E; [lia|].
    rewrite IH by (intros; apply Hr; right; auto).
    rewrite label_frequency_same by auto. unfold wsum. simpl. ring.
Qed.

Theorem node_score_same_label g tabs alpha u tdist : 0 <= alpha ->
  (forall tab n, In tab tabs -> lab tab n = lab tab u) ->
  (node_score g tabs alpha u tdist == (if match tdist with [] => true | _ => false end then 0 else 1))%Q.
Proof.
  intros _ H. destruct tdist as [|p0 td0]; [reflexivity|].
  set (tdist := p0 :: td0).
  rewrite node_score_unfold. cbv zeta.
  destruct (ranks_facts tdist) as (K1 & K2 & K3 & KP & KM). cbv zeta in *.
  set (ranks := by_rank (remap tdist) []) in *.
  assert (HR : (fold_left (raw_step g tabs alpha u tdist) ranks 0 == 0 + wsum alpha (map fst ranks))%Q).
  { apply raw_same; auto. intros r ns Hin. split; [|eauto].
    assert (In r (map fst ranks)) by (apply in_map_iff; exists (r, ns); auto).
    apply K2 in H0. lia. }
  assert (Hne : ranks <> []).
  { destruct (by_rank_keys (remap tdist)) as (_ & B2 & _). fold ranks in B2.
    intros E. rewrite E in B2. destruct p0 as [n0 d0].
    apply (proj2 (B2 (rank_in (tids_of tdist) d0))). rewrite remap_unfold. left. reflexivity. }
  destruct ranks as [|p rest] eqn:E; [congruence|].
  rewrite KM by discriminate. rewrite fold_qplus.
  fold (wsum alpha (zrange 1 (Z.to_nat (Z.of_nat (length (dedupZ (map snd tdist))))))).
  rewrite <- (wsum_perm alpha _ _ KP). rewrite HR.
  assert (Hp := wsum_pos alpha (map fst (p :: rest))).
  field. assert (0 < wsum alpha (map fst (p :: rest)))%Q by (apply Hp; discriminate). lra.
Qed.

(** * 5. only equality of label values matters *)

(** the factor depends on the table only through the comparisons it performs *)
Lemma label_factor_ext g tab tab' u nodes tdist :
  (forall v, In v nodes ->
     (lab tab' u =? lab tab' v) = (lab tab u =? lab tab v) /\
     forall x, In x (nbr_of g tdist v) -> (lab tab' x =? lab tab' v) = (lab tab x =? lab tab v)) ->
  label_factor g tab' u nodes tdist = label_factor g tab u nodes tdist.
Proof.
  intros H. rewrite !label_factor_unfold. f_equal. f_equal.
  apply map_ext_in. intros v Hv. destruct (H v Hv) as [E1 E2].
  unfold lf_term. rewrite E1.
  rewrite (filter_ext_in (fun x => lab tab' x =? lab tab' v) (fun x => lab tab x =? lab tab v) _ E2).
  reflexivity.
Qed.

Definition rename (f : Z -> Z) (tab : labtab) : labtab := map (fun nv => (fst nv, f (snd nv))) tab.

Lemma aget_rename f tab n : aget Z.eqb n (rename f tab) = option_map f (aget Z.eqb n tab).
Proof.
  induction tab as [|[k v] r IH]; simpl; auto. destruct (n =? k); auto.
Qed.

Lemma aget_in_keys {V} (n : Z) (l : list (Z * V)) : In n (map fst l) -> aget Z.eqb n l <> None.
Proof.
  induction l as [|[k v] r IH]; simpl; [tauto|].
  intros [->|H]; [rewrite Z.eqb_refl; discriminate|]. destruct (n =? k); [discriminate|auto].
Qed.

Lemma lab_rename_in f tab n : In n (map fst tab) -> lab (rename f tab) n = f (lab tab n).
Proof.
  intros H. apply aget_in_keys in H. unfold lab. rewrite aget_rename.
  destruct (aget Z.eqb n tab); simpl; congruence.
Qed.

Lemma lab_rename_zero f tab n : f 0 = 0 -> lab (rename f tab) n = f (lab tab n).
Proof.
  intros H. unfold lab. rewrite aget_rename. destruct (aget Z.eqb n tab); simpl; congruence.
Qed.

Lemma inj_eqb (f : Z -> Z) a b : (forall a b, f a = f b -> a = b) -> (f a =? f b) = (a =? b).
Proof.
  intros Hf. destruct (a =? b) eqn:E.
  - assert (a = b) by lia. subst. apply Z.eqb_refl.
  - destruct (f a =? f b) eqn:E2; auto. assert (f a = f b) by lia. apply Hf in H. lia.
Qed.

(** The statement as given is FALSE: [lab] answers 0 for a node absent from the table, and that 0 is not renamed.
    Node 2 is absent, node 1 carries the value 0, and [f x = x + 1] is injective. *)
Example label_factor_renaming_counterexample :
  let f := fun x => x + 1 in
  (forall a b, f a = f b -> a = b) /\
  label_factor (empty_graph false true) (map (fun nv => (fst nv, f (snd nv))) [(1, 0)]) 2 [1] [] = (-1)%Q /\
  label_factor (empty_graph false true) [(1, 0)] 2 [1] [] = 1%Q.
Proof. split; [intros; lia|split; vm_compute; reflexivity]. Qed.

(** closest true statements: either the renaming fixes the default value 0 ... *)
Theorem label_factor_renaming_alt g tab (f : Z -> Z) u nodes tdist :
  (forall a b, f a = f b -> a = b) -> f 0 = 0 ->
  label_factor g (map (fun nv => (fst nv, f (snd nv))) tab) u nodes tdist = label_factor g tab u nodes tdist.
Proof.
  intros Hf H0. fold (rename f tab). apply label_factor_ext. intros v _.
  split; [|intros x _]; rewrite !lab_rename_zero by auto; apply inj_eqb, Hf.
Qed.

(** ... or every node the factor looks at (u, the nodes of the rank, their neighbours) is in the table *)
Theorem label_factor_renaming_alt2 g tab (f : Z -> Z) u nodes tdist :
  (forall a b, f a = f b -> a = b) ->
  (forall n, In n (u :: nodes ++ flat_map (nbr_of g tdist) nodes) -> In n (map fst tab)) ->
  label_factor g (map (fun nv => (fst nv, f (snd nv))) tab) u nodes tdist = label_factor g tab u nodes tdist.
Proof.
  intros Hf Hin. fold (rename f tab). apply label_factor_ext. intros v Hv.
  assert (Hu : In u (map fst tab)) by (apply Hin; left; auto).
  assert (Hv' : In v (map fst tab)) by (apply Hin; right; apply in_or_app; left; auto).
  split.
  - rewrite !lab_rename_in by auto. apply inj_eqb, Hf.
  - intros x Hx.
    assert (Hx' : In x (map fst tab)).
    { apply Hin; right; apply in_or_app; right. apply in_flat_map. exists v; auto. }
    rewrite !lab_rename_in by auto. apply inj_eqb, Hf.
Qed.
