(** Lemmas behind properties/C19.v *)
From DynVerif Require Import Base Graph Spec Api.
From DynVerif.proofs Require Import AListFacts CoreInv C03Facts QueryFacts SnapInv LogInv.

(** the well-formedness every reachable state enjoys: canonical non-empty timelines for exactly the entries of the
    adjacency (a timeline-less entry is unrepresentable in the model: [tline] has a first run by construction),
    well-formed adjacency, and -- on removal-enabled graphs -- stream and snapshot counters in step with presence *)
Definition WFG (g : graph) : Prop :=
  WF g /\ InvAdj g /\ (g_rem g = true -> InvLog g /\ InvSnap g).

Lemma flags_add g u v t e : g_rem (fst (add_interaction g u v t e)) = g_rem g.
Proof.
  destruct t as [s|]; [|reflexivity]. destruct (add_interaction g u v (Some s) e) as [g' o] eqn:Hs.
  pose proof (step_edges _ _ _ _ _ _ _ Hs) as H. cbv zeta in H. simpl. tauto.
Qed.

Lemma all_canon_WF g : WF g -> forall k, ocanon (aget peqb k (g_edges g)).
Proof. intros (h & HI) k. apply (HI k). Qed.

Lemma WFG_add g u v t e : WFG g -> WFG (fst (add_interaction g u v t e)).
Proof.
  intros (Hw & Ha & Hr). destruct (add_interaction g u v t e) as [g' o] eqn:Hs. simpl.
  assert (Hrem : g_rem g' = g_rem g) by (pose proof (flags_add g u v t e) as H; rewrite Hs in H; exact H).
  split; [pose proof (WF_add g u v t e Hw) as H; rewrite Hs in H; exact H|].
  split; [eapply InvAdj_step; eauto|].
  rewrite Hrem. intros Hre. destruct (Hr Hre) as (Hl & Hsn). split.
  - eapply InvLog_step; eauto. apply all_canon_WF; assumption.
  - eapply InvSnap_step; eauto. intros k. apply all_canon_WF; assumption.
Qed.

Lemma InvLog_nodes g n : InvLog g -> InvLog (with_nodes g n).
Proof. intros H. exact H. Qed.
Lemma InvSnap_nodes g n : InvSnap g -> InvSnap (with_nodes g n).
Proof. intros H. exact H. Qed.

Lemma WFG_add_node g n a : WFG g -> WFG (add_node g n a).
Proof.
  intros (Hw & Ha & Hr). split; [|split].
  - unfold add_node. destruct (amem Z.eqb n (g_nodes g)); [destruct (a =? 0)|]; auto using WF_with_nodes.
  - apply InvAdj_add_node; assumption.
  - unfold add_node. destruct (amem Z.eqb n (g_nodes g)); [destruct (a =? 0)|]; auto.
Qed.

Lemma WFG_empty dir rem : WFG (empty_graph dir rem).
Proof.
  split; [apply WF_empty|]. split; [apply InvAdj_init|]. intros _. split; [apply InvLog_init|apply InvSnap_init].
Qed.

Lemma WFG_clear g : WFG (clear g).
Proof.
  split; [exists []; intros k; simpl; split; [exact I|split; [reflexivity|split; [intros H; congruence|discriminate]]]|].
  split; [apply (InvAdj_init (g_dir g) (g_rem g))|]. intros _.
  split; [apply (InvLog_init (g_dir g) (g_rem g))|apply (InvSnap_init (g_dir g) (g_rem g))].
Qed.

Lemma WFG_clear_edges g : WFG g -> WFG (clear_edges g).
Proof.
  intros (Hw & (Hk & Hn & He & Ho) & Hr).
  split; [exists []; intros k; simpl; split; [exact I|split; [reflexivity|split; [intros H; congruence|discriminate]]]|].
  split.
  - split; [constructor|]. split; [exact Hn|]. split; [intros a b []|intros _ a b []].
  - intros _. split; [apply (InvLog_init (g_dir g) (g_rem g))|apply (InvSnap_init (g_dir g) (g_rem g))].
Qed.

Lemma WFG_frozen g b : WFG g -> WFG (with_frozen g b).
Proof. intros H. exact H. Qed.

Lemma WFG_step g o : WFG g -> WFG (fst (api_step g o)).
Proof.
  intros H. destruct o; simpl; auto using WFG_add, WFG_frozen.
  - destruct (g_frozen g); simpl; auto using WFG_add_node.
  - destruct (g_frozen g); simpl; auto using WFG_clear.
  - destruct (g_frozen g); simpl; auto using WFG_clear_edges.
Qed.

Theorem WFG_run ops : forall g, WFG g -> WFG (run_api g ops).
Proof. induction ops as [|o r IH]; intros g H; simpl; auto. apply IH, WFG_step, H. Qed.

(** ** derived graphs are WFG: every invariant behind C02-C05 holds on slices and conversions *)
From DynVerif Require Import Derived.

Lemma WFG_add_runs runs : forall g u v, WFG g -> WFG (fst (add_runs g u v runs)).
Proof.
  induction runs as [|[s f] r IH]; intros g u v Hw; cbn [add_runs]; [assumption|].
  pose proof (WFG_add g u v (Some s) (Some (f + 1)) Hw) as Hw'.
  destruct (add_interaction g u v (Some s) (Some (f + 1))) as [g' o]. simpl in Hw'.
  destruct o; simpl; auto.
Qed.

Lemma WFG_add_all l : forall g, WFG g -> WFG (fst (add_all_runs g l)).
Proof.
  induction l as [|[[u v] runs] r IH]; intros g Hw; cbn [add_all_runs]; [assumption|].
  pose proof (WFG_add_runs runs g u v Hw) as Hw'.
  destruct (add_runs g u v runs) as [g' o]. simpl in Hw'. destruct o; simpl; auto.
Qed.

Lemma InvAdj_with_nodes_same g n : InvAdj g -> map fst n = node_ids g -> InvAdj (with_nodes g n).
Proof.
  intros (Hk & Hn & He & Ho) Hm. unfold InvAdj. unfold node_ids in *. cbn [with_nodes g_nodes g_edges g_dir].
  rewrite Hm. split; [exact Hk|]. split; [exact Hn|]. split; [exact He|exact Ho].
Qed.

Lemma WFG_with_nodes_same g n : WFG g -> map fst n = node_ids g -> WFG (with_nodes g n).
Proof.
  intros (Hw & Ha & Hr) Hm. split; [apply WF_with_nodes; assumption|]. split; [apply InvAdj_with_nodes_same; assumption|exact Hr].
Qed.

Lemma WFG_with_attr g a : WFG g -> WFG (with_attr g a).
Proof. intros H. exact H. Qed.

Lemma WFG_time_slice g a b H o : time_slice g a b = (Some H, o) -> WFG H.
Proof.
  unfold time_slice. destruct (_ <? a); [discriminate|].
  match goal with |- context [add_all_runs ?g0 ?l] => pose proof (WFG_add_all l g0 (WFG_empty _ _)) as Hw;
    destruct (add_all_runs g0 l) as [h' o'] end.
  simpl in Hw. destruct o'; intros E; inversion E; subst. unfold copy_attrs.
  apply WFG_with_nodes_same; [exact Hw|]. unfold node_ids. rewrite map_map. reflexivity.
Qed.
