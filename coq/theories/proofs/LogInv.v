(** LogInv: the event-log invariant (I-log of DESIGN 5.0) and the facts behind properties/C05.v.

    TO BE PROVED (no Admitted may remain).  Definitions below are fixed; helper lemmas are free. *)
From DynVerif Require Import Base Graph Spec.
From DynVerif.proofs Require Import AListFacts CoreInv.
From Coq Require Import Sorting.Sorted Sorting.Permutation.

(** runs of the pair's entry (none when the pair has no entry) *)
Definition runs_of (g : graph) (k : Z * Z) : list (Z * Z) :=
  match aget peqb k (g_edges g) with None => [] | Some tl => tl_list tl end.

Definition is_start (t : Z) (l : list (Z * Z)) : bool := existsb (fun r => fst r =? t) l.
Definition is_end (t : Z) (l : list (Z * Z)) : bool := existsb (fun r => snd r =? t) l.

(** removal mode: '+' exactly at run starts; every '-' sits right after a run end; runs of >= 3 instants are
    closed; no event is repeated *)
Definition InvLog (g : graph) : Prop :=
  (forall k t, has_event t k true (g_events g) = is_start t (runs_of g k)) /\
  (forall k t, has_event t k false (g_events g) = true -> is_end (t - 1) (runs_of g k) = true) /\
  (forall k a b, In (a, b) (runs_of g k) -> a + 1 < b -> has_event (b + 1) k false (g_events g) = true) /\
  NoDup (g_events g).
