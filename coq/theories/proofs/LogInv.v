(** LogInv: the event-log invariant (I-log of DESIGN 5.0) and the facts behind properties/C05.v. *)
From DynVerif Require Import Base Graph Spec.
From DynVerif.proofs Require Import AListFacts CoreInv.
From Coq Require Import Sorting.Sorted Sorting.Permutation.

(** runs of the pair's entry (none when the pair has no entry) *)
Definition runs_of (g : graph) (k : Z * Z) : list (Z * Z) :=
  match aget peqb k (g_edges g) with None => [] | Some tl => tl_list tl end.

Definition is_start (t : Z) (l : list (Z * Z)) : bool := existsb (fun r => fst r =? t) l.
Definition is_end (t : Z) (l : list (Z * Z)) : bool := existsb (fun r => snd r =? t) l.

(** removal mode: '+' exactly at run starts; every '-' sits right after a run end; runs of >= 3 instants are
    closed; no event is repeated *)
Definition InvLog (g : graph) : Prop :=
  (forall k t, has_event t k true (g_events g) = is_start t (runs_of g k)) /\
  (forall k t, has_event t k false (g_events g) = true -> is_end (t - 1) (runs_of g k) = true) /\
  (forall k a b, In (a, b) (runs_of g k) -> a + 1 < b -> has_event (b + 1) k false (g_events g) = true) /\
  NoDup (g_events g).

(** ** the event list: membership, frame lemmas, NoDup *)
Lemma ev_same_eq t k op x : ev_same t k op x = true <-> x = (t, k, op).
Proof.
  destruct x as [[t' k'] op']. unfold ev_same.
  rewrite !andb_true_iff, peqb_eq, eqb_true_iff, Z.eqb_eq.
  split; [intros ((-> & ->) & ->); reflexivity | intros H; inversion H; auto].
Qed.

Lemma has_event_In t k op evs : has_event t k op evs = true <-> In (t, k, op) evs.
Proof.
  unfold has_event. rewrite existsb_exists. split.
  - intros (x & Hin & Hx). apply ev_same_eq in Hx. subst. assumption.
  - intros Hin. exists (t, k, op). split; [assumption|]. apply ev_same_eq. reflexivity.
Qed.

Lemma In_add_event x t k op evs : In x (add_event t k op evs) <-> In x evs \/ x = (t, k, op).
Proof.
  unfold add_event. destruct (existsb (ev_same t k op) evs) eqn:E.
  - split; [auto|]. intros [H| ->]; [assumption|]. apply has_event_In. exact E.
  - rewrite in_app_iff. simpl. intuition congruence.
Qed.

Lemma In_del_event x t k op evs : In x (del_event t k op evs) <-> In x evs /\ x <> (t, k, op).
Proof.
  unfold del_event. rewrite filter_In, negb_true_iff, <- not_true_iff_false, ev_same_eq. tauto.
Qed.

Lemma has_event_add t k op t' k' op' evs :
  has_event t k op (add_event t' k' op' evs) = has_event t k op evs || ((t =? t') && peqb k k' && eqb op op').
Proof.
  apply eq_iff_eq_true. change ((t =? t') && peqb k k' && eqb op op') with (ev_same t k op (t', k', op')).
  rewrite orb_true_iff, !has_event_In, ev_same_eq, In_add_event. intuition congruence.
Qed.

Lemma has_event_del t k op t' k' op' evs :
  has_event t k op (del_event t' k' op' evs) = has_event t k op evs && negb ((t =? t') && peqb k k' && eqb op op').
Proof.
  apply eq_iff_eq_true. change ((t =? t') && peqb k k' && eqb op op') with (ev_same t k op (t', k', op')).
  rewrite andb_true_iff, negb_true_iff, <- not_true_iff_false, !has_event_In, ev_same_eq, In_del_event.
  intuition congruence.
Qed.

Lemma NoDup_add_event t k op evs : NoDup evs -> NoDup (add_event t k op evs).
Proof.
  intros Hnd. unfold add_event. destruct (existsb (ev_same t k op) evs) eqn:E; [assumption|].
  apply (Permutation_NoDup (Permutation_cons_append evs (t, k, op))). constructor; [|assumption].
  intros Hin. apply has_event_In in Hin. unfold has_event in Hin. congruence.
Qed.

Lemma NoDup_del_event t k op evs : NoDup evs -> NoDup (del_event t k op evs).
Proof. apply NoDup_filter. Qed.

(** ** the stream *)
Lemma ins_ev_perm x l : Permutation (ins_ev x l) (x :: l).
Proof.
  induction l as [|y r IH]; simpl; [reflexivity|].
  destruct (ev_time x <? ev_time y); [reflexivity|].
  rewrite IH. apply perm_swap.
Qed.

Lemma fold_ins_perm evs : forall acc, Permutation (fold_left (fun acc e => ins_ev e acc) evs acc) (acc ++ evs).
Proof.
  induction evs as [|e r IH]; intros acc; simpl.
  - rewrite app_nil_r. reflexivity.
  - rewrite IH. rewrite (ins_ev_perm e acc). simpl. apply Permutation_middle.
Qed.

Lemma stream_perm g : Permutation (stream g) (g_events g).
Proof. unfold stream. apply (fold_ins_perm (g_events g) []). Qed.

Lemma ins_ev_sorted x l : Sorted (fun x y => ev_time x <= ev_time y) l -> Sorted (fun x y => ev_time x <= ev_time y) (ins_ev x l).
Proof.
  induction l as [|y r IH]; simpl; intros Hs.
  - constructor; constructor.
  - destruct (ev_time x <? ev_time y) eqn:E.
    + constructor; [assumption|]. constructor. lia.
    + inversion Hs as [|? ? Hr Hhd]; subst. constructor; [auto|].
      destruct r as [|z r']; simpl; [constructor; lia|].
      destruct (ev_time x <? ev_time z); constructor; [lia|]. inversion Hhd; assumption.
Qed.

Lemma fold_ins_sorted evs : forall acc, Sorted (fun x y => ev_time x <= ev_time y) acc ->
  Sorted (fun x y => ev_time x <= ev_time y) (fold_left (fun acc e => ins_ev e acc) evs acc).
Proof.
  induction evs as [|e r IH]; intros acc Hs; simpl; [assumption|]. apply IH. apply ins_ev_sorted. assumption.
Qed.

Lemma stream_sorted g : Sorted (fun x y => ev_time x <= ev_time y) (stream g).
Proof. unfold stream. apply fold_ins_sorted. constructor. Qed.

Lemma stream_In g x : In x (stream g) <-> In x (g_events g).
Proof.
  split; apply Permutation_in; [apply stream_perm | apply Permutation_sym, stream_perm].
Qed.

Lemma stream_NoDup g : NoDup (g_events g) -> NoDup (stream g).
Proof. apply Permutation_NoDup. apply Permutation_sym, stream_perm. Qed.

(** ** run starts / ends *)
Lemma is_start_cons t a b l : is_start t ((a, b) :: l) = (a =? t) || is_start t l.
Proof. reflexivity. Qed.
Lemma is_end_cons t a b l : is_end t ((a, b) :: l) = (b =? t) || is_end t l.
Proof. reflexivity. Qed.

Lemma is_start_mem l t : canon l -> is_start t l = mem t l && negb (mem (t - 1) l).
Proof.
  induction l as [|[a b] r IH]; intros Hc; [reflexivity|].
  rewrite is_start_cons, (IH (canon_tail _ _ _ Hc)).
  pose proof (canon_older_below _ _ _ Hc) as Hb.
  assert (a <= b) by (simpl in Hc; tauto).
  change (mem t ((a, b) :: r)) with (in_itv t (a, b) || mem t r).
  change (mem (t - 1) ((a, b) :: r)) with (in_itv (t - 1) (a, b) || mem (t - 1) r).
  unfold in_itv; simpl fst; simpl snd.
  destruct (mem t r) eqn:M1; [pose proof (Hb _ M1)|];
    (destruct (mem (t - 1) r) eqn:M2; [pose proof (Hb _ M2)|]); lia.
Qed.

Lemma is_end_mem l t : canon l -> is_end t l = mem t l && negb (mem (t + 1) l).
Proof.
  induction l as [|[a b] r IH]; intros Hc; [reflexivity|].
  rewrite is_end_cons, (IH (canon_tail _ _ _ Hc)).
  pose proof (canon_older_below _ _ _ Hc) as Hb.
  assert (a <= b) by (simpl in Hc; tauto).
  change (mem t ((a, b) :: r)) with (in_itv t (a, b) || mem t r).
  change (mem (t + 1) ((a, b) :: r)) with (in_itv (t + 1) (a, b) || mem (t + 1) r).
  unfold in_itv; simpl fst; simpl snd.
  destruct (mem t r) eqn:M1; [pose proof (Hb _ M1)|];
    (destruct (mem (t + 1) r) eqn:M2; [pose proof (Hb _ M2)|]); lia.
Qed.

Lemma InvLog_init dir rem : InvLog (empty_graph dir rem).
Proof.
  unfold InvLog, runs_of; simpl. repeat split; try discriminate; try tauto. constructor.
Qed.

Lemma InvLog_same g g' : g_edges g' = g_edges g -> g_events g' = g_events g -> InvLog g -> InvLog g'.
Proof. unfold InvLog, runs_of. intros -> ->. tauto. Qed.

Lemma InvLog_frame g g' k0 l' :
  InvLog g ->
  (forall k, runs_of g' k = if peqb k k0 then l' else runs_of g k) ->
  (forall k t op, peqb k k0 = false -> has_event t k op (g_events g') = has_event t k op (g_events g)) ->
  NoDup (g_events g') ->
  (forall t, has_event t k0 true (g_events g') = is_start t l') ->
  (forall t, has_event t k0 false (g_events g') = true -> is_end (t - 1) l' = true) ->
  (forall a b, In (a, b) l' -> a + 1 < b -> has_event (b + 1) k0 false (g_events g') = true) ->
  InvLog g'.
Proof.
  intros (H1 & H2 & H3 & H4) Hr Hf Hnd P1 P2 P3. split; [|split; [|split]]; auto.
  - intros k t. rewrite Hr. destruct (peqb k k0) eqn:E; [apply peqb_eq in E; subst; auto | rewrite Hf; auto].
  - intros k t. rewrite Hr. destruct (peqb k k0) eqn:E; [apply peqb_eq in E; subst; auto | rewrite Hf; auto].
  - intros k a b. rewrite Hr. destruct (peqb k k0) eqn:E; [apply peqb_eq in E; subst; eauto | rewrite Hf; eauto].
Qed.

Lemma runs_of_step g g' k0 new :
  (forall k', aget peqb k' (g_edges g') = if peqb k' k0 then Some new else aget peqb k' (g_edges g)) ->
  forall k, runs_of g' k = if peqb k k0 then tl_list new else runs_of g k.
Proof. intros H k. unfold runs_of. rewrite H. destruct (peqb k k0); reflexivity. Qed.

Ltac bclean := rewrite ?andb_false_r, ?andb_true_r, ?orb_false_r; cbn [andb orb negb eqb]; rewrite ?andb_false_r, ?andb_true_r, ?orb_false_r.

Lemma InvLog_step g u v t e g' o :
  g_rem g = true -> (forall k, ocanon (aget peqb k (g_edges g))) -> InvLog g ->
  add_interaction g u v t e = (g', o) -> InvLog g'.
Proof.
  intros Hrem Hcan HI Hs.
  destruct t as [s|]; [| unfold add_interaction in Hs; inversion Hs; subst; auto].
  pose proof (step_edges _ _ _ _ _ _ _ Hs) as Hst. cbv zeta in Hst. destruct Hst as (_ & _ & Hst).
  unfold call_end in Hst. revert Hst Hs. unfold add_interaction. rewrite Hrem. cbv beta iota zeta.
  change (g_events (ensure_ends g u v)) with (g_events g).
  change (g_edges (ensure_ends g u v)) with (g_edges g).
  set (k := nk (g_dir g) u v).
  assert (Hx : exists f closing, (closing = false -> f = s) /\
     match e with Some e' => e' - 1 | None => s end = f /\
     match e with Some _ => true | None => false end = closing /\
     match e with Some _ => false | None => true end = negb closing).
  { destruct e as [e'|]; [exists (e' - 1), true | exists s, false]; repeat split; congruence. }
  destruct Hx as (f & closing & Hfs & -> & -> & ->).
  pose proof (Hcan k) as Hc. pose proof HI as (H1 & H2 & H3 & H4).
  specialize (H1 k). specialize (H2 k). specialize (H3 k). unfold runs_of in H1, H2, H3.
  revert Hc H1 H2 H3.
  destruct (aget peqb k (g_edges g)) as [[[a b] older]|] eqn:Hget; unfold merge_tl, ocanon, tl_list; cbn [fst snd];
    intros Hc H1 H2 H3.
  - assert (Hab : a <= b) by (simpl in Hc; tauto).
    destruct (s <? a) eqn:E1; [intros (_ & ->) _; assumption|].
    destruct (f <? s) eqn:E2.
    { intros _ H; inversion H; subst. apply (InvLog_same g); auto. }
    destruct (b + 1 <? s) eqn:E3.
    { (* gap *)
      intros (_ & Hget') H. injection H as Hg' _.
      match type of Hg' with with_snaps (with_events _ ?ev) _ = _ => assert (Hev : g_events g' = ev) by (rewrite <- Hg'; reflexivity) end.
      clear Hg'.
      apply (InvLog_frame g g' k _ HI (runs_of_step _ _ _ _ Hget')); rewrite ?Hev; unfold tl_list; cbn [fst snd].
      - intros k' t op Hk. destruct closing; rewrite ?has_event_add, Hk; bclean; reflexivity.
      - destruct closing; repeat apply NoDup_add_event; exact H4.
      - intros t. destruct closing; rewrite ?has_event_add, peqb_refl, H1; bclean; rewrite !is_start_cons;
          destruct (is_start t older); lia.
      - intros t. pose proof (H2 t) as Ht. rewrite !is_end_cons in *.
        destruct closing; rewrite ?has_event_add, peqb_refl; bclean;
        (destruct (has_event t k false (g_events g)); [specialize (Ht eq_refl)|]); destruct (is_end (t - 1) older); lia.
      - intros x y [Heq|Hin] Hxy.
        + inversion Heq; subst x y. destruct closing; [|specialize (Hfs eq_refl); lia].
          rewrite has_event_add, peqb_refl, Z.eqb_refl. bclean. apply orb_true_r.
        + pose proof (H3 x y Hin Hxy) as Hh. destruct closing; rewrite ?has_event_add, Hh; reflexivity. }
    destruct (b <? f) eqn:E4.
    { (* extend *)
      intros (_ & Hget') H. injection H as Hg' _.
      match type of Hg' with with_snaps (with_events _ ?ev) _ = _ => assert (Hev : g_events g' = ev) by (rewrite <- Hg'; reflexivity) end.
      clear Hg'. revert Hev.
      set (single := (a =? b) && (s =? b + 1) && negb closing && negb (has_event (b + 1) k false (g_events g))).
      intros Hev.
      apply (InvLog_frame g g' k _ HI (runs_of_step _ _ _ _ Hget')); rewrite ?Hev; unfold tl_list; cbn [fst snd].
      - intros k' t op Hk. destruct single; cbn [andb negb]; rewrite ?has_event_add, ?has_event_del, Hk; bclean; reflexivity.
      - destruct single; cbn [andb negb]; repeat apply NoDup_add_event; apply NoDup_del_event; exact H4.
      - intros t. destruct single; cbn [andb negb]; rewrite ?has_event_add, ?has_event_del, peqb_refl, H1; bclean;
          rewrite !is_start_cons; reflexivity.
      - intros t. pose proof (H2 t) as Ht. rewrite !is_end_cons in *.
        destruct single; cbn [andb negb]; rewrite ?has_event_add, ?has_event_del, peqb_refl; bclean;
        (destruct (has_event t k false (g_events g)); [specialize (Ht eq_refl)|]); destruct (is_end (t - 1) older); lia.
      - intros x y [Heq|Hin] Hxy.
        + inversion Heq; subst x y. destruct single eqn:Es; cbn [andb negb].
          * exfalso. unfold single in Es. destruct closing; [cbn [negb] in Es; lia | specialize (Hfs eq_refl); lia].
          * rewrite has_event_add, peqb_refl, Z.eqb_refl. bclean. apply orb_true_r.
        + pose proof (H3 x y (or_intror Hin) Hxy) as Hh.
          pose proof (canon_in_lt _ _ _ Hc _ Hin) as Hlt. cbn [fst snd] in Hlt.
          destruct single; cbn [andb negb]; rewrite ?has_event_add, ?has_event_del, Hh, peqb_refl; bclean; lia. }
    { (* contained *)
      intros (_ & Hget') H. injection H as Hg' _.
      match type of Hg' with with_snaps (with_events _ ?ev) _ = _ => assert (Hev : g_events g' = ev) by (rewrite <- Hg'; reflexivity) end.
      clear Hg'.
      apply (InvLog_frame g g' k _ HI (runs_of_step _ _ _ _ Hget')); rewrite ?Hev; unfold tl_list; cbn [fst snd].
      - intros k' t op Hk. destruct (closing && (f =? b)); rewrite ?has_event_add, ?Hk; bclean; reflexivity.
      - destruct (closing && (f =? b)); repeat apply NoDup_add_event; exact H4.
      - intros t. destruct (closing && (f =? b)); rewrite ?has_event_add, ?peqb_refl, H1; bclean; reflexivity.
      - intros t. pose proof (H2 t) as Ht. rewrite !is_end_cons in *.
        destruct (closing && (f =? b)) eqn:Ec; rewrite ?has_event_add, ?peqb_refl; bclean;
        (destruct (has_event t k false (g_events g)); [specialize (Ht eq_refl)|]); destruct (is_end (t - 1) older); lia.
      - intros x y Hin Hxy. pose proof (H3 x y Hin Hxy) as Hh.
        destruct (closing && (f =? b)); rewrite ?has_event_add, Hh; reflexivity. }
  - destruct (f <? s) eqn:E2.
    { intros _ H; inversion H; subst. apply (InvLog_same g); auto. }
    intros (_ & Hget') H. injection H as Hg' _.
    match type of Hg' with with_snaps (with_events _ ?ev) _ = _ => assert (Hev : g_events g' = ev) by (rewrite <- Hg'; reflexivity) end.
    clear Hg'.
    apply (InvLog_frame g g' k _ HI (runs_of_step _ _ _ _ Hget')); rewrite ?Hev; unfold tl_list; cbn [fst snd].
    + intros k' t op Hk. destruct closing; rewrite ?has_event_add, Hk; bclean; reflexivity.
    + destruct closing; repeat apply NoDup_add_event; exact H4.
    + intros t. destruct closing; rewrite ?has_event_add, peqb_refl, H1; bclean; rewrite !is_start_cons;
        cbn [is_start existsb]; lia.
    + intros t. pose proof (H2 t) as Ht. rewrite !is_end_cons. cbn [is_end existsb] in *.
      destruct closing; rewrite ?has_event_add, peqb_refl; bclean;
      (destruct (has_event t k false (g_events g)); [discriminate (Ht eq_refl)|]); lia.
    + intros x y [Heq|[]] Hxy.
      inversion Heq; subst x y. destruct closing; [|specialize (Hfs eq_refl); lia].
      rewrite has_event_add, peqb_refl, Z.eqb_refl. bclean. apply orb_true_r.
Qed.

Theorem InvLog_run cs : forall g h, g_rem g = true -> Inv g h -> InvLog g -> InvLog (run_calls g cs).
Proof.
  induction cs as [|c r IH]; intros g h Hrem HI HL; simpl; [assumption|].
  destruct (do_call g c) as [g' o] eqn:Hd. simpl.
  assert (HL' : InvLog g').
  { unfold do_call in Hd. eapply InvLog_step; eauto. intros k. apply (HI k). }
  assert (Hrem' : g_rem g' = true).
  { unfold do_call in Hd. pose proof (step_edges _ _ _ _ _ _ _ Hd) as Hst. cbv zeta in Hst.
    destruct Hst as (_ & Hr & _). congruence. }
  destruct (Inv_step' _ _ _ _ _ HI Hd) as (Hdone & Hrej).
  destruct o; try (apply (IH g' (h ++ [c])); auto; fail);
    (assert (g' = g) as -> by (apply Hrej; discriminate); apply (IH g h); auto).
Qed.
