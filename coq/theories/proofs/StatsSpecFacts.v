(** StatsSpecFacts: every statistic of Stats.v, evaluated on a reachable removal-enabled DynGraph without
    self-loops, equals its stream-graph definition over the history of accepted calls (StatsSpec.v). *)
From DynVerif Require Import Base Graph Derived Spec Stats StatsSpec.
From DynVerif.proofs Require Import AListFacts CoreInv C01Facts QueryFacts QueryFacts2 SnapInv SliceFacts DerivedFacts StatsFacts.
From DynVerif.proofs Require Import C03Facts.
From Coq Require Import Sorting.Permutation.

Definition no_loops (cs : list call) : Prop := forall c, In c cs -> c_u c <> c_v c.

(** * auxiliary facts *)
Lemma card_count_if (f : Z -> bool) l : count_if f l = card f l.
Proof. apply count_if_length. Qed.

Lemma card_ext (f f' : Z -> bool) l : (forall x, In x l -> f x = f' x) -> card f l = card f' l.
Proof. intros H. unfold card. rewrite (filter_ext_in f f' l H). reflexivity. Qed.

Lemma sumZ_map_ext_in {A} (F G : A -> Z) l : (forall x, In x l -> F x = G x) -> sumZ (map F l) = sumZ (map G l).
Proof. intros H. rewrite (map_ext_in F G l H). reflexivity. Qed.

Lemma filter_filter_andb {A} (f f' : A -> bool) l : filter f (filter f' l) = filter (fun x => f' x && f x) l.
Proof.
  induction l as [|a r IH]; [reflexivity|]. cbn [filter].
  destruct (f' a) eqn:E1; cbn [filter andb]; [destruct (f a); rewrite IH; reflexivity|exact IH].
Qed.

Lemma memZ_filter (p : Z -> bool) T t : In t T -> memZ t (filter p T) = p t.
Proof. intros Hin. apply Bool.eq_true_iff_eq. rewrite memZ_In, filter_In. tauto. Qed.

Lemma pairs_after_asym l : NoDup l -> forall a b, In (a, b) (pairs_after l) -> In (b, a) (pairs_after l) -> False.
Proof.
  induction l as [|x r IH]; intros Hnd a b; simpl; [tauto|].
  inversion Hnd as [|? ? Hni Hr]; subst. rewrite !in_app_iff, !in_map_iff.
  intros [(y & E & Hy)|H1] [(z & E' & Hz)|H2].
  - inversion E; inversion E'; subst. contradiction.
  - inversion E; subst. apply pairs_after_In in H2. tauto.
  - inversion E'; subst. apply pairs_after_In in H1. tauto.
  - apply (IH Hr a b); assumption.
Qed.

Lemma accepted_incl cs : forall g c, In c (accepted g cs) -> In c cs.
Proof.
  induction cs as [|c0 r IH]; intros g c; simpl; [tauto|].
  destruct (do_call g c0) as [g' o]. destruct o; simpl; intros H; try (right; eapply IH; eassumption).
  destruct H as [H|H]; [left; assumption|right; eapply IH; eassumption].
Qed.

(** the node table after a run: the initial nodes and the endpoints of the accepted calls *)
Lemma run_nodes cs x : forall g0,
  In x (node_ids (run_calls g0 cs)) <->
  In x (node_ids g0) \/ exists c, In c (accepted g0 cs) /\ (c_u c = x \/ c_v c = x).
Proof.
  induction cs as [|c r IH]; intros g0; simpl.
  - split; [auto|]. intros [H|(c & [] & _)]; assumption.
  - destruct (do_call g0 c) as [g' o] eqn:Hd. simpl. rewrite IH. unfold do_call in Hd.
    destruct o;
      try (apply add_reject in Hd; [|discriminate]; subst g'; reflexivity).
    apply step_nodes in Hd. unfold node_ids at 1. rewrite Hd. rewrite !ensure_node_In_iff. fold (node_ids g0).
    split.
    + intros [[[H|H]|H]|(c' & Hc & Hx)].
      * left; assumption.
      * right. exists c. split; [left; reflexivity|left; congruence].
      * right. exists c. split; [left; reflexivity|right; congruence].
      * right. exists c'. split; [right; assumption|assumption].
    + intros [H|(c' & [Hc|Hc] & Hx)].
      * left; left; left; assumption.
      * subst c'. destruct Hx as [Hx|Hx]; [left; left; right; congruence|left; right; congruence].
      * right. exists c'. split; assumption.
Qed.

Section Reach.
Variable cs : list call.
Let g := run_calls (G0 false) cs.
Let h := accepted (G0 false) cs.

Lemma reach_good : Good g.
Proof. apply Good_reach. Qed.
Lemma reach_adj : InvAdj g.
Proof. apply reach_good. Qed.
Lemma reach_dir : g_dir g = false.
Proof. apply (reach_flags false cs). Qed.
Lemma reach_rem : g_rem g = true.
Proof. apply (reach_flags false cs). Qed.
Lemma reach_inv : Inv g h.
Proof. apply Inv_reach. Qed.
Lemma reach_snap : InvSnap g.
Proof. apply (InvSnap_run cs (G0 false) []); [reflexivity|apply Inv_init|apply InvSnap_init]. Qed.

(** the three sets of the definitions *)
Lemma spec_pair : forall u v t, has_interaction g u v (Some t) = sp_pair h u v t.
Proof. intros u v t. apply (presence_thm false cs u v t). Qed.

Lemma sp_pair_sym u v t : sp_pair h u v t = sp_pair h v u t.
Proof. unfold sp_pair. rewrite (QueryFacts.nk_sym u v). reflexivity. Qed.

Lemma spec_node : forall u t, has_node g u (Some t) = sp_node h u t.
Proof.
  intros u t. apply Bool.eq_true_iff_eq.
  rewrite (has_node_spec g u t reach_adj), (nodes_at_spec g u t reach_adj).
  unfold sp_node. rewrite existsb_exists. split.
  - intros (v & Hv). assert (Hp : sp_pair h u v t = true).
    { destruct Hv as [Hv|Hv]; [rewrite <- spec_pair; exact Hv|].
      rewrite sp_pair_sym, <- spec_pair. exact Hv. }
    unfold sp_pair, pres in Hp. apply existsb_exists in Hp. destruct Hp as (c & Hc & Hb).
    apply andb_true_iff in Hb. destruct Hb as (Hk & Hs). apply peqb_eq in Hk. unfold ckey in Hk.
    apply nk_false_inj in Hk. exists c. split; [exact Hc|]. rewrite Hs, andb_true_r.
    destruct Hk as [E|E]; inversion E; subst; lia.
  - intros (c & Hc & Hb). apply andb_true_iff in Hb. destruct Hb as (Hk & Hs).
    apply orb_true_iff in Hk. destruct Hk as [Hk|Hk].
    + exists (c_v c). left. rewrite spec_pair. unfold sp_pair, pres. apply existsb_exists. exists c.
      split; [exact Hc|]. rewrite Hs, andb_true_r. apply peqb_eq. unfold ckey. f_equal. lia.
    + exists (c_u c). left. rewrite spec_pair. unfold sp_pair, pres. apply existsb_exists. exists c.
      split; [exact Hc|]. rewrite Hs, andb_true_r. apply peqb_eq. unfold ckey.
      assert (E : c_v c = u) by lia. rewrite E. apply QueryFacts.nk_sym.
Qed.

Lemma spec_T : enumerates (snap_keys g) (fun t => sp_inhabited h t = true).
Proof.
  pose proof reach_snap as HS. pose proof reach_inv as HI.
  split; [apply HS|]. intros t. unfold snap_keys.
  rewrite <- (sortZ_In t (map fst (g_snaps g))). fold (snapshot_ids g). rewrite (ids_spec g HS t).
  unfold count_present. rewrite length_pos_ex. unfold sp_inhabited. rewrite existsb_exists. split.
  - intros ([k tl] & Hin). apply filter_In in Hin. destruct Hin as (Hin & Hm). cbn [snd] in Hm.
    apply in_aget_nodup in Hin; [|apply HS].
    destruct (HI k) as (_ & Hmem & _). specialize (Hmem t). rewrite Hin in Hmem. cbn [omem] in Hmem.
    rewrite Hm in Hmem. symmetry in Hmem. unfold pres in Hmem. apply existsb_exists in Hmem.
    destruct Hmem as (c & Hc & Hb). apply andb_true_iff in Hb. exists c. split; [exact Hc|].
    fold h in Hc. rewrite reach_rem in Hb. tauto.
  - intros (c & Hc & Hs). set (k := ckey false c).
    destruct (HI k) as (_ & Hmem & _). specialize (Hmem t).
    assert (Hp : pres (g_dir g) (g_rem g) h k t = true).
    { rewrite reach_dir, reach_rem. unfold pres. apply existsb_exists. exists c. split; [exact Hc|].
      unfold k. rewrite peqb_refl, Hs. reflexivity. }
    rewrite Hp in Hmem. destruct (aget peqb k (g_edges g)) as [tl|] eqn:Hg; [|discriminate].
    cbn [omem] in Hmem. exists (k, tl). apply filter_In. split; [apply aget_Some_in; exact Hg|exact Hmem].
Qed.

Lemma spec_V : enumerates (node_ids g) (sp_is_node h).
Proof.
  split; [apply reach_adj|]. intros x. unfold g. rewrite run_nodes. unfold sp_is_node. fold h.
  split; [intros [[]|H]; exact H|intros H; right; exact H].
Qed.

(** the statistics *)
Lemma both_at_spec u v t : both_at g u v t = sp_both h u v t.
Proof. unfold both_at, sp_both. rewrite !spec_node. reflexivity. Qed.
Lemma either_at_spec u v t : either_at g u v t = sp_either h u v t.
Proof. unfold either_at, sp_either. rewrite !spec_node. reflexivity. Qed.

Lemma number_of_nodes_card t : number_of_nodes g (Some t) = card (fun u => sp_node h u t) (node_ids g).
Proof.
  unfold number_of_nodes, card. rewrite nodes_at_filter. do 2 f_equal.
  apply filter_ext_in. intros n Hn. rewrite <- spec_node. unfold has_node.
  apply has_node_flat_In in Hn. rewrite Hn. reflexivity.
Qed.

Lemma node_ids_length : Z.of_nat (length (g_nodes g)) = Z.of_nat (length (node_ids g)).
Proof. unfold node_ids. rewrite map_length. reflexivity. Qed.

Lemma spec_coverage : coverage g = sp_coverage h (snap_keys g) (node_ids g).
Proof.
  unfold coverage, sp_coverage. f_equal.
  - apply sumZ_map_ext_in. intros t _. apply number_of_nodes_card.
  - rewrite snap_keys_length. cbn [number_of_nodes]. rewrite node_ids_length. reflexivity.
Qed.

Lemma spec_node_contribution : forall u, node_contribution g u = sp_node_contribution h (snap_keys g) u.
Proof.
  intros u. unfold node_contribution, sp_node_contribution. rewrite snap_keys_length, card_count_if. f_equal.
  apply card_ext. intros t _. apply spec_node.
Qed.

Lemma spec_edge_contribution : forall u v,
  match edge_contribution g u v with
  | Some r => r = sp_edge_contribution h (snap_keys g) u v
  | None => forall t, sp_pair h u v t = false          (* KeyError: the pair never interacted *)
  end.
Proof.
  intros u v. pose proof (edge_contribution_spec g u v reach_good reach_snap) as H.
  destruct (edge_contribution g u v) as [[n d]|].
  - destruct H as (-> & ->). unfold sp_edge_contribution. rewrite snap_keys_length, card_count_if. f_equal.
    apply card_ext. intros t _. apply spec_pair.
  - intros t. rewrite <- spec_pair. destruct (has_interaction g u v (Some t)) eqn:E; [|reflexivity].
    apply hi_some_none in E. congruence.
Qed.

Lemma spec_node_pair_uniformity : forall u v, node_pair_uniformity g u v = sp_node_pair_uniformity h (snap_keys g) u v.
Proof.
  intros u v. unfold node_pair_uniformity, sp_node_pair_uniformity. rewrite !card_count_if. f_equal.
  - apply card_ext. intros t _. apply both_at_spec.
  - apply card_ext. intros t _. apply either_at_spec.
Qed.

Lemma spec_uniformity : uniformity g = sp_uniformity h (snap_keys g) (node_ids g).
Proof.
  unfold uniformity, sp_uniformity, node_pairs. f_equal; apply sumZ_map_ext_in; intros p _; rewrite card_count_if;
    apply card_ext; intros t _; [apply both_at_spec|apply either_at_spec].
Qed.

Lemma spec_density : st_density g = sp_density h (snap_keys g) (node_ids g).
Proof.
  unfold st_density, sp_density, node_pairs. f_equal; apply sumZ_map_ext_in; intros p _; rewrite card_count_if;
    apply card_ext; intros t _; [apply spec_pair|apply both_at_spec].
Qed.

Lemma spec_pair_density : forall u v, pair_density g u v = sp_pair_density h (snap_keys g) u v.
Proof.
  intros u v. unfold pair_density, sp_pair_density. cbv zeta. rewrite !card_count_if.
  rewrite (card_ext (both_at g u v) (sp_both h u v)) by (intros t _; apply both_at_spec).
  rewrite (card_ext (fun t => has_interaction g u v (Some t)) (sp_pair h u v)) by (intros t _; apply spec_pair).
  reflexivity.
Qed.

Lemma spec_node_presence : forall u, node_presence g u = sp_node_presence h (snap_keys g) u.
Proof.
  intros u. unfold node_presence, sp_node_presence. apply filter_ext_in. intros t _. apply spec_node.
Qed.

Lemma spec_avg_number_of_nodes :
  fst (avg_number_of_nodes g) = fst (sp_avg_number_of_nodes h (snapshot_ids g) (node_ids g)) /\
  snd (avg_number_of_nodes g) = snd (sp_avg_number_of_nodes h (snapshot_ids g) (node_ids g)) /\
  enumerates (snapshot_ids g) (fun t => sp_inhabited h t = true).
Proof.
  unfold avg_number_of_nodes, sp_avg_number_of_nodes. cbn [fst snd]. split; [|split].
  - apply sumZ_map_ext_in. intros t _. apply number_of_nodes_card.
  - unfold snapshot_ids. rewrite sortZ_length, map_length. reflexivity.
  - destruct spec_T as (Hnd & Hin). split.
    + unfold snapshot_ids. apply (Permutation_NoDup (Permutation_sym (sortZ_perm _))). exact Hnd.
    + intros t. unfold snapshot_ids. rewrite sortZ_In. apply Hin.
Qed.

Lemma degree_card u t : deg1 g (Some t) u = sp_degree h (node_ids g) u t.
Proof.
  rewrite deg_undirected by exact reach_dir. unfold sp_degree, card. f_equal.
  apply Permutation_length, NoDup_Permutation.
  - apply nbrs_at_NoDup, reach_adj.
  - apply NoDup_filter. apply reach_adj.
  - intros v. rewrite (nbrs_at_spec g u v (Some t) reach_adj), filter_In, <- spec_pair.
    split; [|tauto]. intros H. split; [|exact H]. apply (has_interaction_nodes g u v _ reach_adj H).
Qed.

Lemma spec_node_density : no_loops cs -> forall u, node_density g u = sp_node_density h (snap_keys g) (node_ids g) u.
Proof.
  intros _ u. unfold node_density, sp_node_density. cbv zeta.
  assert (Hnum : sumZ (map (fun t => if has_node g u (Some t) then deg1 g (Some t) u else 0) (snap_keys g))
               = sumZ (map (fun t => if sp_node h u t then sp_degree h (node_ids g) u t else 0) (snap_keys g))).
  { apply sumZ_map_ext_in. intros t _. rewrite spec_node, degree_card. reflexivity. }
  assert (Hden : sumZ (map (fun v => Z.of_nat (length (filter (fun t => memZ t (node_presence g u)) (node_presence g v)))) (node_ids g))
               = sumZ (map (fun v => card (sp_both h u v) (snap_keys g)) (node_ids g))).
  { apply sumZ_map_ext_in. intros v _. unfold card. do 2 f_equal. unfold node_presence at 2.
    rewrite filter_filter_andb. apply filter_ext_in. intros t Ht. unfold node_presence.
    rewrite (memZ_filter _ _ _ Ht). unfold sp_both. rewrite !spec_node. apply andb_comm. }
  rewrite Hnum, Hden. reflexivity.
Qed.

Lemma no_loops_pair : no_loops cs -> forall n t, has_interaction g n n (Some t) = false.
Proof.
  intros Hnl n t. rewrite spec_pair. unfold sp_pair, pres.
  destruct (existsb _ h) eqn:E; [|reflexivity]. exfalso.
  apply existsb_exists in E. destruct E as (c & Hc & Hb). apply andb_true_iff in Hb. destruct Hb as (Hk & _).
  apply peqb_eq in Hk. unfold ckey in Hk. apply nk_false_inj in Hk.
  apply (Hnl c); [apply (accepted_incl cs (G0 false) c Hc)|]. destruct Hk as [E|E]; inversion E; congruence.
Qed.

Lemma spec_snapshot_density : no_loops cs -> forall t,
  snapshot_density g t = Some (sp_snapshot_density h (node_ids g) t).
Proof.
  intros Hnl t. pose proof reach_good as HG. pose proof reach_adj as HA. pose proof reach_dir as Hd.
  unfold snapshot_density. rewrite slice_default.
  destruct (slice_ok g t t HG (Z.le_refl t)) as (H & E). rewrite E.
  pose proof (slice_good g t t H HG (Z.le_refl t) E) as HGH.
  destruct HGH as (HrH & HcH & HAH).
  assert (HdH : g_dir H = false).
  { destruct (slice_presence g t t H 0 0 0 HG (Z.le_refl t) E) as (HdH & _). congruence. }
  assert (Hpres : forall u v tau, has_interaction H u v (Some tau) = (t <=? tau) && (tau <=? t) && has_interaction g u v (Some tau)).
  { intros u v tau. apply (slice_presence g t t H u v tau HG (Z.le_refl t) E). }
  (* keys of the slice *)
  assert (Hkey : forall a b, In (a, b) (akeys (g_edges H)) -> a <= b /\ has_interaction g a b (Some t) = true).
  { intros a b Hin. assert (Hab : a <= b) by (apply HAH; assumption). split; [exact Hab|].
    destruct (aget peqb (a, b) (g_edges H)) as [[[s f] older]|] eqn:Hg.
    - pose proof (HcH (a, b)) as Hc. rewrite Hg in Hc. cbn in Hc. destruct Hc as (Hsf & _).
      assert (Hh : has_interaction H a b (Some s) = true).
      { rewrite hi_omem; [|exact HrH|apply HcH]. rewrite HdH.
        assert (Enk : nk false a b = (a, b)) by (unfold nk; replace (a <=? b) with true by lia; reflexivity).
        rewrite Enk, Hg. cbn. unfold in_itv. cbn. lia. }
      rewrite Hpres in Hh. assert (s = t) by lia. subst s. apply andb_true_iff in Hh. apply Hh.
    - apply aget_None_notin in Hg. contradiction. }
  assert (Hns : no_selfloop H None).
  { intros n. destruct (has_interaction H n n None) eqn:Eh; [|reflexivity]. exfalso.
    apply has_interaction_key in Eh. rewrite HdH in Eh. unfold nk in Eh. rewrite Z.leb_refl in Eh.
    apply Hkey in Eh. destruct Eh as (_ & Eh). rewrite (no_loops_pair Hnl) in Eh. discriminate. }
  assert (Hn : number_of_nodes H None = card (fun u => sp_node h u t) (node_ids g)).
  { cbn [number_of_nodes]. unfold card. replace (length (g_nodes H)) with (length (node_ids H)) by (unfold node_ids; apply map_length).
    f_equal. apply Permutation_length, NoDup_Permutation.
    - apply HAH.
    - apply NoDup_filter, HA.
    - intros n. rewrite (proj1 (slice_nodes g t t H n HG (Z.le_refl t) E)), filter_In, <- spec_node.
      rewrite (has_node_spec g n t HA), (nodes_at_spec g n t HA). split.
      + intros (v & tau & Ht & Hv). assert (tau = t) by lia. subst tau. split; [|exists v; exact Hv].
        destruct Hv as [Hv|Hv]; apply (has_interaction_nodes _ _ _ _ HA) in Hv; tauto.
      + intros (_ & v & Hv). exists v, t. split; [lia|exact Hv]. }
  assert (Hm : size H None = Z.of_nat (length (filter (fun p => sp_pair h (fst p) (snd p) t) (pairs_after (node_ids g))))).
  { rewrite (size_undirected H None HAH HdH Hns). f_equal.
    rewrite <- (map_length (fun p => nk false (fst p) (snd p)) (filter _ _)).
    apply Permutation_length, NoDup_Permutation.
    - apply static_edges_NoDup, HAH.
    - apply NoDup_map_inj_in.
      + intros [x y] [x' y'] Hx Hy Ek. cbn [fst snd] in Ek. apply nk_false_inj in Ek.
        destruct Ek as [Ek|Ek]; [exact Ek|]. exfalso. inversion Ek; subst.
        apply filter_In in Hx. apply filter_In in Hy.
        apply (pairs_after_asym (node_ids g) (proj1 (proj2 HA)) y' x'); tauto.
      + apply NoDup_filter, pairs_after_NoDup, HA.
    - intros [a b]. rewrite in_map_iff. split.
      + intros Hin. apply filter_In in Hin. destruct Hin as (Hin & _). apply Hkey in Hin. destruct Hin as (Hab & Hh).
        assert (Hne : a <> b) by (intros ->; rewrite (no_loops_pair Hnl) in Hh; discriminate).
        destruct (has_interaction_nodes g a b _ HA Hh) as (Ha & Hb).
        destruct (pairs_after_complete _ _ _ Ha Hb Hne) as [Hp|Hp].
        * exists (a, b). cbn [fst snd]. split; [unfold nk; replace (a <=? b) with true by lia; reflexivity|].
          apply filter_In. split; [exact Hp|]. cbn [fst snd]. rewrite <- spec_pair. exact Hh.
        * exists (b, a). cbn [fst snd]. split; [unfold nk; replace (b <=? a) with false by lia; reflexivity|].
          apply filter_In. split; [exact Hp|]. cbn [fst snd]. rewrite sp_pair_sym, <- spec_pair. exact Hh.
      + intros ([x y] & Ek & Hin). cbn [fst snd] in Ek. apply filter_In in Hin. destruct Hin as (_ & Hp).
        cbn [fst snd] in Hp. rewrite <- spec_pair in Hp.
        assert (Hh : has_interaction H x y (Some t) = true) by (rewrite Hpres, Hp; lia).
        apply hi_some_none in Hh. apply static_edges_spec in Hh. rewrite HdH, Ek in Hh. exact Hh. }
  f_equal. unfold sp_snapshot_density. cbv zeta. rewrite Hn, Hm, HdH. reflexivity.
Qed.
End Reach.
