(** Lemmas behind properties/C01.v *)
From DynVerif Require Import Base Graph Spec.
From DynVerif.proofs Require Import AListFacts CoreInv.

Definition G0 (dir : bool) := empty_graph dir true.

Lemma Inv_reach dir cs : Inv (run_calls (G0 dir) cs) (accepted (G0 dir) cs).
Proof. apply (Inv_run cs (G0 dir) []). apply Inv_init. Qed.

Lemma reach_flags dir cs : g_dir (run_calls (G0 dir) cs) = dir /\ g_rem (run_calls (G0 dir) cs) = true.
Proof. apply (run_calls_flags cs (G0 dir)). Qed.

Lemma has_interaction_pres g h u v t : Inv g h -> g_rem g = true ->
  has_interaction g u v (Some t) = pres (g_dir g) true h (nk (g_dir g) u v) t.
Proof.
  intros HI Hr. unfold has_interaction, key_present. destruct (HI (nk (g_dir g) u v)) as (Hc & Hm & _).
  rewrite Hr in Hm. rewrite <- Hm.
  destruct (aget peqb (nk (g_dir g) u v) (g_edges g)) as [tl|]; simpl; [|reflexivity].
  unfold presence_test. rewrite Hr. apply presence_mem. exact Hc.
Qed.

Lemma has_interaction_flat g h u v : Inv g h ->
  has_interaction g u v None = named (g_dir g) (g_rem g) h (nk (g_dir g) u v).
Proof.
  intros HI. unfold has_interaction, key_present. destruct (HI (nk (g_dir g) u v)) as (_ & _ & Hn).
  destruct (aget peqb (nk (g_dir g) u v) (g_edges g)) as [tl|].
  - symmetry. apply Hn. discriminate.
  - destruct (named _ _ h _) eqn:E; auto. exfalso. apply (proj2 Hn eq_refl). reflexivity.
Qed.

(** the latest run of a presence predicate: the last maximal block of present instants *)
Definition latest_run (P : Z -> bool) (a b : Z) : Prop :=
  a <= b /\ (forall t, a <= t <= b -> P t = true) /\ P (a - 1) = false /\ (forall t, b < t -> P t = false).

Lemma canon_latest a b older : canon ((a, b) :: older) -> latest_run (fun t => mem t ((a, b) :: older)) a b.
Proof.
  intros Hc. pose proof (canon_older_below _ _ _ Hc) as Hold. simpl in Hc. destruct Hc as (Hab & _ & _).
  unfold latest_run. repeat split; auto.
  - intros t Ht. simpl. unfold in_itv; simpl. destruct (mem t older); lia.
  - simpl. unfold in_itv; simpl. destruct (mem (a - 1) older) eqn:E; [apply Hold in E; lia|lia].
  - intros t Ht. simpl. unfold in_itv; simpl. destruct (mem t older) eqn:E; [apply Hold in E; lia|lia].
Qed.

Lemma latest_run_unique P a b a' b' : latest_run P a b -> latest_run P a' b' -> a = a' /\ b = b'.
Proof.
  intros (Hab & Hin & Hlo & Hhi) (Hab' & Hin' & Hlo' & Hhi').
  assert (b = b').
  { destruct (Z.lt_trichotomy b b') as [H|[H|H]]; auto.
    - specialize (Hhi b' H). rewrite Hin' in Hhi by lia. discriminate.
    - specialize (Hhi' b H). rewrite Hin in Hhi' by lia. discriminate. }
  subst b'. split; auto.
  destruct (Z.lt_trichotomy a a') as [H|[H|H]]; auto.
  - rewrite Hin in Hlo' by lia. discriminate.
  - rewrite Hin' in Hlo by lia. discriminate.
Qed.

Lemma outcome_rule g h c : Inv g h ->
  snd (do_call g c) = EValue <->
  exists a b, latest_run (pres (g_dir g) (g_rem g) h (ckey (g_dir g) c)) a b /\ c_t c < a.
Proof.
  intros HI. unfold do_call.
  destruct (add_interaction g (c_u c) (c_v c) (Some (c_t c)) (c_e c)) as [g' o] eqn:Hs.
  pose proof (step_edges _ _ _ _ _ _ _ Hs) as Hst. cbv zeta in Hst. destruct Hst as (_ & _ & Hst).
  unfold ckey. set (k := nk (g_dir g) (c_u c) (c_v c)) in *.
  destruct (HI k) as (Hc & Hm & _). simpl snd.
  unfold merge_tl in Hst. destruct (aget peqb k (g_edges g)) as [[[a b] older]|] eqn:Hg.
  - unfold ocanon, omem in Hc, Hm. cbn [tl_list fst snd] in Hc, Hm. pose proof (canon_latest _ _ _ Hc) as Hl.
    assert (Hl' : latest_run (pres (g_dir g) (g_rem g) h k) a b).
    { destruct Hl as (H1 & H2 & H3 & H4). repeat split; auto; intros; rewrite <- Hm; auto. }
    destruct (c_t c <? a) eqn:E1.
    + destruct Hst as (-> & _). split; auto. intros _. exists a, b. split; auto. lia.
    + assert (o = Done) as -> by (destruct (_ <? c_t c); [tauto|]; destruct (b + 1 <? c_t c); [tauto|]; destruct (b <? _); tauto).
      split; [discriminate|]. intros (a' & b' & Hl2 & Hlt).
      destruct (latest_run_unique _ _ _ _ _ Hl' Hl2). subst. lia.
  - assert (o = Done) as -> by (destruct (_ <? c_t c); tauto).
    split; [discriminate|]. intros (a' & b' & (Hab & Hin & _) & _).
    specialize (Hin a'). rewrite <- Hm in Hin. simpl in Hin. assert (a' <= a' <= b') as Hx by lia. specialize (Hin Hx). discriminate.
Qed.

Theorem presence_thm (dir : bool) (cs : list call) (u v tau : Z) :
  has_interaction (run_calls (G0 dir) cs) u v (Some tau)
  = pres dir true (accepted (G0 dir) cs) (nk dir u v) tau.
Proof.
  destruct (reach_flags dir cs) as (Hd & Hr).
  rewrite (has_interaction_pres _ _ u v tau (Inv_reach dir cs) Hr). rewrite Hd. reflexivity.
Qed.

Theorem flat_thm (dir : bool) (cs : list call) (u v : Z) :
  has_interaction (run_calls (G0 dir) cs) u v None = named dir true (accepted (G0 dir) cs) (nk dir u v).
Proof.
  destruct (reach_flags dir cs) as (Hd & Hr).
  rewrite (has_interaction_flat _ _ u v (Inv_reach dir cs)). rewrite Hd, Hr. reflexivity.
Qed.

Theorem outcome_thm (dir : bool) (cs : list call) (c : call) :
  let g := run_calls (G0 dir) cs in
  let h := accepted (G0 dir) cs in
  (snd (do_call g c) = Done \/ snd (do_call g c) = EValue) /\
  (snd (do_call g c) = EValue <->
   exists a b, latest_run (pres dir true h (ckey dir c)) a b /\ c_t c < a).
Proof.
  cbv zeta. split; [apply do_call_outcome|].
  destruct (reach_flags dir cs) as (Hd & Hr).
  pose proof (outcome_rule _ _ c (Inv_reach dir cs)) as H. rewrite Hd, Hr in H. exact H.
Qed.
