(** Lemmas behind properties/C03.v and C07.v: chronological canonical form, derived graphs, rejection. *)
From DynVerif Require Import Base Graph Derived Spec.
From DynVerif.proofs Require Import AListFacts CoreInv C01Facts.

(** canonical form as the code stores it (oldest run first) *)
Fixpoint canon_chrono (l : list (Z * Z)) : Prop :=
  match l with
  | [] => True
  | (a, b) :: r => a <= b /\ (match r with [] => True | (a', _) :: _ => b + 1 < a' end) /\ canon_chrono r
  end.

Lemma canon_chrono_snoc l a b :
  canon_chrono l -> a <= b -> (forall x, In x l -> snd x + 1 < a) -> canon_chrono (l ++ [(a, b)]).
Proof.
  induction l as [|[a0 b0] r IH]; intros Hc Hab Hlt; simpl; [auto|].
  simpl in Hc. destruct Hc as (H0 & Hn & Hr). split; [assumption|]. split.
  - destruct r as [|[a1 b1] r']; simpl; [specialize (Hlt (a0, b0) (or_introl eq_refl)); simpl in Hlt; lia|assumption].
  - apply IH; auto. intros x Hx. apply Hlt. right; assumption.
Qed.

Lemma canon_rev l : canon l -> canon_chrono (rev l).
Proof.
  induction l as [|[a b] r IH]; intros Hc; simpl; [exact I|].
  pose proof (canon_in_lt _ _ _ Hc) as Hlt. simpl in Hc. destruct Hc as (Hab & _ & Hr).
  apply canon_chrono_snoc; auto. intros x Hx. apply in_rev in Hx. apply Hlt in Hx. lia.
Qed.

Lemma mem_rev t l : mem t (rev l) = mem t l.
Proof.
  unfold mem. induction l as [|x r IH]; simpl; [reflexivity|].
  rewrite existsb_app. simpl. rewrite IH. rewrite orb_false_r. apply orb_comm.
Qed.

Lemma timeline_canon g h u v : Inv g h -> canon_chrono (timeline_of g u v).
Proof.
  intros HI. unfold timeline_of. destruct (HI (nk (g_dir g) u v)) as (Hc & _ & _).
  destruct (aget peqb (nk (g_dir g) u v) (g_edges g)) as [tl|]; simpl; [|exact I].
  unfold tl_chrono. apply canon_rev. exact Hc.
Qed.

Lemma timeline_union g h u v t : Inv g h ->
  mem t (timeline_of g u v) = pres (g_dir g) (g_rem g) h (nk (g_dir g) u v) t.
Proof.
  intros HI. unfold timeline_of. destruct (HI (nk (g_dir g) u v)) as (_ & Hm & _). rewrite <- Hm.
  destruct (aget peqb (nk (g_dir g) u v) (g_edges g)) as [tl|]; simpl; [|reflexivity].
  unfold tl_chrono. apply mem_rev.
Qed.

Lemma nk_sym u v : nk false u v = nk false v u.
Proof. unfold nk. destruct (u <=? v) eqn:E1, (v <=? u) eqn:E2; try reflexivity; f_equal; lia. Qed.

Lemma timeline_sym g u v : g_dir g = false -> timeline_of g u v = timeline_of g v u.
Proof. intros Hd. unfold timeline_of. rewrite Hd, nk_sym. reflexivity. Qed.

(** ** every graph the library builds through add_interaction satisfies the invariant for SOME history *)
Definition WF (g : graph) : Prop := exists h, Inv g h.

Lemma Inv_nodes_irrel g h n : Inv g h -> Inv (with_nodes g n) h.
Proof. intros HI k. exact (HI k). Qed.
Lemma Inv_attr_irrel g h a : Inv g h -> Inv (with_attr g a) h.
Proof. intros HI k. exact (HI k). Qed.

Lemma WF_add g u v t e : WF g -> WF (fst (add_interaction g u v t e)).
Proof.
  intros (h & HI). destruct t as [s|]; [|exists h; exact HI].
  destruct (add_interaction g u v (Some s) e) as [g' o] eqn:Hs.
  destruct (Inv_step' g h (mkCall u v s e) g' o HI Hs) as (H1 & H2). simpl.
  destruct o; try (rewrite H2 by discriminate; exists h; assumption).
  eexists. apply H1. reflexivity.
Qed.

Lemma WF_add_runs runs : forall g u v, WF g -> WF (fst (add_runs g u v runs)).
Proof.
  induction runs as [|[s f] r IH]; intros g u v Hw; simpl; [assumption|].
  pose proof (WF_add g u v (Some s) (Some (f + 1)) Hw) as Hw'.
  destruct (add_interaction g u v (Some s) (Some (f + 1))) as [g' o]. simpl in Hw'.
  destruct o; simpl; auto.
Qed.

Lemma WF_add_all l : forall g, WF g -> WF (fst (add_all_runs g l)).
Proof.
  induction l as [|[[u v] runs] r IH]; intros g Hw; simpl; [assumption|].
  pose proof (WF_add_runs runs g u v Hw) as Hw'.
  destruct (add_runs g u v runs) as [g' o]. simpl in Hw'. destruct o; simpl; auto.
Qed.

Lemma WF_empty dir rem : WF (empty_graph dir rem).
Proof. exists []. apply Inv_init. Qed.

Lemma WF_with_nodes g n : WF g -> WF (with_nodes g n).
Proof. intros (h & HI). exists h. apply Inv_nodes_irrel. exact HI. Qed.
Lemma WF_with_attr g a : WF g -> WF (with_attr g a).
Proof. intros (h & HI). exists h. apply Inv_attr_irrel. exact HI. Qed.

Lemma WF_time_slice g a b H o : time_slice g a b = (Some H, o) -> WF H.
Proof.
  unfold time_slice. destruct (_ <? a); [discriminate|].
  match goal with |- context [add_all_runs ?g0 ?l] => pose proof (WF_add_all l g0 (WF_empty _ _)) as Hw;
    destruct (add_all_runs g0 l) as [h' o'] end.
  simpl in Hw. destruct o'; intros E; inversion E; subst. unfold copy_attrs. apply WF_with_nodes. exact Hw.
Qed.

Lemma WF_to_directed g H o : to_directed g = (Some H, o) -> WF H.
Proof.
  unfold to_directed.
  match goal with |- context [add_all_runs ?g0 ?l] =>
    assert (Hw : WF (fst (add_all_runs g0 l))) by (apply WF_add_all, WF_with_nodes, WF_empty);
    destruct (add_all_runs g0 l) as [h' o'] end.
  simpl in Hw. destruct o'; intros E; inversion E; subst. unfold with_all_nodes. apply WF_with_attr, WF_with_nodes. exact Hw.
Qed.

Lemma WF_recip_pair h g u v : WF h -> WF (recip_pair h g u v).
Proof.
  intros Hw. unfold recip_pair. destruct (aget peqb (u, v) (g_edges g)); [|assumption].
  destruct (aget peqb (v, u) (g_edges g)); [|assumption]. apply WF_add_runs. assumption.
Qed.

Lemma WF_fold_inner g u ids : forall h, WF h ->
  WF (fold_left (fun h v => if v <=? u then recip_pair h g u v else h) ids h).
Proof.
  induction ids as [|v r IH]; intros h Hw; simpl; [assumption|].
  apply IH. destruct (v <=? u); [apply WF_recip_pair|]; assumption.
Qed.

Lemma WF_fold_outer g ids0 ids : forall h, WF h ->
  WF (fold_left (fun h u => fold_left (fun h v => if v <=? u then recip_pair h g u v else h) ids0 h) ids h).
Proof.
  induction ids as [|u r IH]; intros h Hw; simpl; [assumption|]. apply IH. apply WF_fold_inner. assumption.
Qed.

Lemma WF_to_undirected g recip H o : to_undirected g recip = (Some H, o) -> WF H.
Proof.
  unfold to_undirected. destruct recip.
  - intros E; inversion E; subst. unfold with_all_nodes. apply WF_with_attr, WF_with_nodes.
    apply WF_fold_outer. apply WF_with_nodes, WF_empty.
  - match goal with |- context [add_all_runs ?g0 ?l] =>
      assert (Hw : WF (fst (add_all_runs g0 l))) by (apply WF_add_all, WF_with_nodes, WF_empty);
      destruct (add_all_runs g0 l) as [h' o'] end.
    simpl in Hw. destruct o'; intros E; inversion E; subst. unfold with_all_nodes. apply WF_with_attr, WF_with_nodes. exact Hw.
Qed.

(** ** rejection leaves the state untouched (C07) *)
Lemma add_reject g u v t e g' o : add_interaction g u v t e = (g', o) -> o <> Done -> g' = g.
Proof.
  destruct t as [s|]; [|simpl; intros H; inversion H; auto].
  intros Hs Ho. pose proof (step_edges _ _ _ _ _ _ _ Hs) as Hst. cbv zeta in Hst. destruct Hst as (_ & _ & Hst).
  destruct (merge_tl _ _ _); [destruct Hst; congruence|tauto].
Qed.
