(** ReplayFacts: replaying the event stream of a pair reconstructs its presence (C05), and the
    interaction-format write / read round trip preserves presence on graphs whose runs are all closed (C10). *)
From DynVerif Require Import Base Graph Derived Spec Annotate IO.
From DynVerif.proofs Require Import AListFacts CoreInv C01Facts C03Facts QueryFacts SliceFacts LogInv IOFacts.
From Coq Require Import Sorting.Sorted Sorting.Permutation.

(* the events of one pair, in stream order, as (instant, is_plus) *)
Definition pair_events (g : graph) (k : Z * Z) : list (Z * bool) :=
  map (fun e => (ev_time e, snd e)) (filter (fun e => peqb (snd (fst e)) k) (stream g)).
(* replaying them: '+' = the pair appears; the following '-' = it vanishes (present from the appearance through t-1);
   a '+' that is not closed before the next '+' (or the end) = that single instant *)
Fixpoint replay (evs : list (Z * bool)) (cur : option Z) (tau : Z) : bool :=
  match evs with
  | [] => match cur with Some a => tau =? a | None => false end
  | (t, true) :: r => (match cur with Some a => tau =? a | None => false end) || replay r (Some t) tau
  | (t, false) :: r => match cur with
                       | Some a => ((a <=? tau) && (tau <? t)) || replay r None tau
                       | None => replay r None tau
                       end
  end.
(* every run of two or more instants is closed by a '-' (false exactly for the known "unclosed two-instant run") *)
Definition all_closed (g : graph) : Prop :=
  forall k a b, In (a, b) (runs_of g k) -> a < b -> has_event (b + 1) k false (g_events g) = true.

(** * 0. small list facts *)
Lemma existsb_rev {A} (f : A -> bool) l : existsb f (rev l) = existsb f l.
Proof.
  induction l as [|x r IH]; simpl; [reflexivity|].
  rewrite existsb_app. simpl. rewrite IH, orb_false_r. apply orb_comm.
Qed.

Lemma is_start_In t l : is_start t l = true <-> exists b, In (t, b) l.
Proof.
  unfold is_start. rewrite existsb_exists. split.
  - intros ([a b] & Hin & E). simpl in E. exists b. assert (a = t) by lia. subst. assumption.
  - intros (b & Hin). exists (t, b). split; [assumption|]. simpl. lia.
Qed.

Lemma is_end_In t l : is_end t l = true <-> exists a, In (a, t) l.
Proof.
  unfold is_end. rewrite existsb_exists. split.
  - intros ([a b] & Hin & E). simpl in E. exists a. assert (b = t) by lia. subst. assumption.
  - intros (a & Hin). exists (a, t). split; [assumption|]. simpl. lia.
Qed.

Lemma SS_filter {A} (R : A -> A -> Prop) f l : StronglySorted R l -> StronglySorted R (filter f l).
Proof.
  induction 1 as [|a l Hs IH Ha]; simpl; [constructor|].
  destruct (f a); [|exact IH]. constructor; [exact IH|].
  rewrite Forall_forall in *. intros y Hy. apply filter_In in Hy. apply Ha. tauto.
Qed.

(** sorted by instant, no repetition, no instant carrying both a '+' and a '-': strictly sorted *)
Lemma SS_strict (l : list (Z * bool)) :
  StronglySorted (fun x y => fst x <= fst y) l -> NoDup l ->
  (forall t, In (t, true) l -> In (t, false) l -> False) ->
  StronglySorted (fun x y => fst x < fst y) l.
Proof.
  induction 1 as [|x l Hs IH Ha]; intros Hnd Hcl; [constructor|].
  inversion Hnd as [|? ? Hni Hnd']; subst. constructor.
  - apply IH; [exact Hnd'|]. intros t H1 H2. apply (Hcl t); right; assumption.
  - rewrite Forall_forall in *. intros y Hy. pose proof (Ha y Hy) as Hle.
    destruct (Z.eq_dec (fst x) (fst y)) as [E|E]; [|lia]. exfalso.
    destruct x as [t o1], y as [t' o2]. simpl in E. subst t'.
    destruct o1, o2.
    + apply Hni; exact Hy.
    + apply (Hcl t); [left; reflexivity|right; exact Hy].
    + apply (Hcl t); [right; exact Hy|left; reflexivity].
    + apply Hni; exact Hy.
Qed.

(** * 1. the shape of a pair's event list *)
(** chronological runs vs. chronological events: each run contributes its '+', and its '-' when it is closed
    (always when it spans two or more instants) *)
Inductive Shape : list (Z * Z) -> list (Z * bool) -> Prop :=
| Sh_nil : Shape [] []
| Sh_closed a b R evs : Shape R evs -> Shape ((a, b) :: R) ((a, true) :: (b + 1, false) :: evs)
| Sh_open a R evs : Shape R evs -> Shape ((a, a) :: R) ((a, true) :: evs).

Definition cur_pt (cur : option Z) (tau : Z) : bool := match cur with Some a => tau =? a | None => false end.

Lemma replay_shape R evs tau : Shape R evs -> (forall r, In r R -> fst r <= snd r) ->
  forall cur, replay evs cur tau = cur_pt cur tau || mem tau R.
Proof.
  induction 1 as [|a b R evs Hsh IH|a R evs Hsh IH]; intros Hne cur.
  - simpl. unfold cur_pt. rewrite orb_false_r. reflexivity.
  - assert (Hab : a <= b) by (apply (Hne (a, b)); left; reflexivity).
    cbn [replay]. fold (cur_pt cur tau). rewrite IH by (intros r Hr; apply Hne; right; exact Hr).
    change (mem tau ((a, b) :: R)) with (in_itv tau (a, b) || mem tau R).
    unfold in_itv, cur_pt at 2. simpl fst; simpl snd.
    destruct (cur_pt cur tau), (mem tau R); lia.
  - cbn [replay]. fold (cur_pt cur tau). rewrite IH by (intros r Hr; apply Hne; right; exact Hr).
    change (mem tau ((a, a) :: R)) with (in_itv tau (a, a) || mem tau R).
    unfold in_itv, cur_pt at 2. simpl fst; simpl snd.
    destruct (cur_pt cur tau), (mem tau R); lia.
Qed.

(** what the log invariant says about one pair's events, against the chronological runs *)
Definition EvOK (R : list (Z * Z)) (evs : list (Z * bool)) : Prop :=
  StronglySorted (fun x y => fst x < fst y) evs /\
  (forall t, In (t, true) evs <-> is_start t R = true) /\
  (forall t, In (t, false) evs -> is_end (t - 1) R = true) /\
  (forall a b, In (a, b) R -> a < b -> In (b + 1, false) evs).

Lemma shape_of R : canon_chrono R -> forall evs, EvOK R evs -> Shape R evs.
Proof.
  induction R as [|[a b] R' IH]; intros Hc evs (Hs & Hp & Hm1 & Hm2).
  - destruct evs as [|[t [|]] r]; [constructor| |].
    + exfalso. assert (H : is_start t [] = true) by (apply Hp; left; reflexivity). discriminate.
    + exfalso. assert (H : is_end (t - 1) [] = true) by (apply Hm1; left; reflexivity). discriminate.
  - assert (Hab : a <= b) by (simpl in Hc; tauto).
    pose proof (cc_all_gt _ _ _ Hc) as Hgt.
    pose proof (cc_tail _ _ Hc) as Hc'.
    pose proof (cc_nonempty _ Hc') as Hne'.
    assert (HstR : forall t, is_start t R' = true -> b + 1 < t).
    { intros t Ht. apply is_start_In in Ht. destruct Ht as (y & Hy). apply Hgt in Hy. simpl in Hy. exact Hy. }
    assert (HenR : forall t, is_end t R' = true -> b + 1 < t).
    { intros t Ht. apply is_end_In in Ht. destruct Ht as (x & Hx).
      pose proof (Hgt _ Hx) as G1. pose proof (Hne' _ Hx) as G2. simpl in G1, G2. lia. }
    assert (Hina : In (a, true) evs) by (apply Hp; rewrite is_start_cons, Z.eqb_refl; reflexivity).
    destruct evs as [|h evs1]; [destruct Hina|].
    apply StronglySorted_inv in Hs. destruct Hs as (Hs1 & Hall1). rewrite Forall_forall in Hall1.
    assert (Hh : h = (a, true)).
    { destruct Hina as [E|Hin]; [exact E|]. exfalso. specialize (Hall1 _ Hin). simpl in Hall1.
      destruct h as [t [|]]; simpl in Hall1.
      - assert (Hst : is_start t ((a, b) :: R') = true) by (apply Hp; left; reflexivity).
        rewrite is_start_cons in Hst. apply orb_true_iff in Hst. destruct Hst as [Hst|Hst]; [lia|].
        apply HstR in Hst. lia.
      - assert (Hen : is_end (t - 1) ((a, b) :: R') = true) by (apply Hm1; left; reflexivity).
        rewrite is_end_cons in Hen. apply orb_true_iff in Hen. destruct Hen as [Hen|Hen]; [lia|].
        apply HenR in Hen. lia. }
    subst h. simpl in Hall1.
    assert (Hdec : {In (b + 1, false) evs1} + {~ In (b + 1, false) evs1}).
    { apply in_dec. intros x y. decide equality; [apply bool_dec | apply Z.eq_dec]. }
    destruct Hdec as [Hinb|Hnin].
    + destruct evs1 as [|h2 evs2]; [destruct Hinb|].
      apply StronglySorted_inv in Hs1. destruct Hs1 as (Hs2 & Hall2). rewrite Forall_forall in Hall2.
      assert (Hh2 : h2 = (b + 1, false)).
      { destruct Hinb as [E|Hin]; [exact E|]. exfalso. specialize (Hall2 _ Hin). simpl in Hall2.
        assert (Ha2 : a < fst h2) by (apply (Hall1 h2); left; reflexivity).
        destruct h2 as [t [|]]; simpl in Hall2, Ha2.
        - assert (Hst : is_start t ((a, b) :: R') = true) by (apply Hp; right; left; reflexivity).
          rewrite is_start_cons in Hst. apply orb_true_iff in Hst. destruct Hst as [Hst|Hst]; [lia|].
          apply HstR in Hst. lia.
        - assert (Hen : is_end (t - 1) ((a, b) :: R') = true) by (apply Hm1; right; left; reflexivity).
          rewrite is_end_cons in Hen. apply orb_true_iff in Hen. destruct Hen as [Hen|Hen]; [lia|].
          apply HenR in Hen. lia. }
      subst h2. simpl in Hall2. apply Sh_closed. apply IH; [exact Hc'|].
      split; [exact Hs2|]. split; [|split].
      * intros t. split.
        -- intros Hin. pose proof (Hall2 _ Hin) as Hlt. simpl in Hlt.
           assert (Hst : is_start t ((a, b) :: R') = true) by (apply Hp; right; right; exact Hin).
           rewrite is_start_cons in Hst. apply orb_true_iff in Hst. destruct Hst as [Hst|Hst]; [lia|exact Hst].
        -- intros Hst. pose proof (HstR _ Hst) as Hlt.
           assert (Hin : In (t, true) ((a, true) :: (b + 1, false) :: evs2))
             by (apply Hp; rewrite is_start_cons, Hst; apply orb_true_r).
           destruct Hin as [E|[E|Hin]]; [inversion E; lia | discriminate E | exact Hin].
      * intros t Hin. pose proof (Hall2 _ Hin) as Hlt. simpl in Hlt.
        assert (Hen : is_end (t - 1) ((a, b) :: R') = true) by (apply Hm1; right; right; exact Hin).
        rewrite is_end_cons in Hen. apply orb_true_iff in Hen. destruct Hen as [Hen|Hen]; [lia|exact Hen].
      * intros a' b' Hin' Hlt'. pose proof (Hgt _ Hin') as Hg'. simpl in Hg'.
        assert (Hin : In (b' + 1, false) ((a, true) :: (b + 1, false) :: evs2))
          by (apply (Hm2 a' b'); [right; exact Hin'|exact Hlt']).
        destruct Hin as [E|[E|Hin]]; [discriminate E | inversion E; lia | exact Hin].
    + assert (Heq : a = b).
      { destruct (Z.eq_dec a b) as [E|E]; [exact E|]. exfalso.
        assert (Hin : In (b + 1, false) ((a, true) :: evs1)) by (apply (Hm2 a b); [left; reflexivity|lia]).
        destruct Hin as [E'|Hin]; [discriminate E'|auto]. }
      subst b. apply Sh_open. apply IH; [exact Hc'|].
      split; [exact Hs1|]. split; [|split].
      * intros t. split.
        -- intros Hin. pose proof (Hall1 _ Hin) as Hlt. simpl in Hlt.
           assert (Hst : is_start t ((a, a) :: R') = true) by (apply Hp; right; exact Hin).
           rewrite is_start_cons in Hst. apply orb_true_iff in Hst. destruct Hst as [Hst|Hst]; [lia|exact Hst].
        -- intros Hst. pose proof (HstR _ Hst) as Hlt.
           assert (Hin : In (t, true) ((a, true) :: evs1))
             by (apply Hp; rewrite is_start_cons, Hst; apply orb_true_r).
           destruct Hin as [E|Hin]; [inversion E; lia | exact Hin].
      * intros t Hin. pose proof (Hall1 _ Hin) as Hlt. simpl in Hlt.
        assert (Hen : is_end (t - 1) ((a, a) :: R') = true) by (apply Hm1; right; exact Hin).
        rewrite is_end_cons in Hen. apply orb_true_iff in Hen. destruct Hen as [Hen|Hen]; [|exact Hen].
        exfalso. apply Hnin. replace (a + 1) with t by lia. exact Hin.
      * intros a' b' Hin' Hlt'.
        assert (Hin : In (b' + 1, false) ((a, true) :: evs1))
          by (apply (Hm2 a' b'); [right; exact Hin'|exact Hlt']).
        destruct Hin as [E|Hin]; [discriminate E | exact Hin].
Qed.

(** * 2. the pair's events satisfy the description *)
Lemma In_pair_events g k t op : In (t, op) (pair_events g k) <-> In (t, k, op) (g_events g).
Proof.
  unfold pair_events. rewrite in_map_iff. split.
  - intros ([[t' k'] op'] & E & Hin). apply filter_In in Hin. destruct Hin as (Hin & Hk).
    simpl in Hk. apply peqb_eq in Hk. subst k'. unfold ev_time in E. simpl in E. inversion E; subst.
    apply stream_In. exact Hin.
  - intros Hin. exists (t, k, op). split; [reflexivity|]. apply filter_In.
    split; [apply stream_In; exact Hin | simpl; apply peqb_refl].
Qed.

Lemma pair_events_sorted g k : StronglySorted (fun x y : Z * bool => fst x <= fst y) (pair_events g k).
Proof.
  unfold pair_events. apply (SS_map (fun x y : event => ev_time x <= ev_time y)).
  - intros x y Hxy. simpl. exact Hxy.
  - apply SS_filter. apply Sorted_StronglySorted; [|apply stream_sorted].
    unfold Relations_1.Transitive. intros x y z. lia.
Qed.

Lemma pair_events_NoDup g k : NoDup (g_events g) -> NoDup (pair_events g k).
Proof.
  intros Hnd. unfold pair_events. apply io_NoDup_map_inj_in; [|apply NoDup_filter, stream_NoDup; exact Hnd].
  intros [[t1 k1] o1] [[t2 k2] o2] H1 H2 E. apply filter_In in H1. apply filter_In in H2.
  destruct H1 as (_ & H1). destruct H2 as (_ & H2). simpl in H1, H2.
  apply peqb_eq in H1. apply peqb_eq in H2. unfold ev_time in E. simpl in E. inversion E. subst. reflexivity.
Qed.

Lemma runs_of_canon g k : ocanon (aget peqb k (g_edges g)) -> canon (runs_of g k).
Proof. unfold runs_of. destruct (aget peqb k (g_edges g)); simpl; auto. Qed.

Lemma pair_events_ok g k : ocanon (aget peqb k (g_edges g)) -> InvLog g -> all_closed g ->
  EvOK (rev (runs_of g k)) (pair_events g k).
Proof.
  intros Hoc (H1 & H2 & _ & Hnd) Hcl. pose proof (runs_of_canon g k Hoc) as Hc.
  split; [|split; [|split]].
  - apply SS_strict; [apply pair_events_sorted | apply pair_events_NoDup; exact Hnd |].
    intros t Hp Hm. apply In_pair_events in Hp. apply In_pair_events in Hm.
    apply has_event_In in Hp. apply has_event_In in Hm.
    rewrite H1 in Hp. apply H2 in Hm.
    rewrite is_start_mem in Hp by exact Hc. rewrite is_end_mem in Hm by exact Hc.
    replace (t - 1 + 1) with t in Hm by lia.
    destruct (mem t (runs_of g k)), (mem (t - 1) (runs_of g k)); discriminate.
  - intros t. rewrite In_pair_events, <- has_event_In, H1. unfold is_start. rewrite existsb_rev. tauto.
  - intros t Hin. apply In_pair_events in Hin. apply has_event_In in Hin. apply H2 in Hin.
    unfold is_end. rewrite existsb_rev. exact Hin.
  - intros a b Hin Hlt. apply in_rev in Hin. apply In_pair_events. apply has_event_In.
    apply (Hcl k a b); assumption.
Qed.

Lemma pair_events_shape g k : ocanon (aget peqb k (g_edges g)) -> InvLog g -> all_closed g ->
  Shape (rev (runs_of g k)) (pair_events g k).
Proof.
  intros Hoc HL Hcl. apply shape_of; [|apply pair_events_ok; assumption].
  apply canon_rev. apply runs_of_canon. exact Hoc.
Qed.

(** * PART 1 (C05): replaying the stream reconstructs presence *)
Theorem replay_presence g k tau : g_rem g = true -> (forall k', ocanon (aget peqb k' (g_edges g))) -> InvLog g -> all_closed g ->
  replay (pair_events g k) None tau = mem tau (runs_of g k).
Proof.
  intros _ Hcan HL Hcl.
  pose proof (pair_events_shape g k (Hcan k) HL Hcl) as Hsh.
  rewrite (replay_shape _ _ tau Hsh).
  - simpl. apply mem_rev.
  - apply cc_nonempty. apply canon_rev. apply runs_of_canon. apply Hcan.
Qed.

(** * PART 2 (C10): the interaction-format round trip *)

(** ** 2a. the reader at timeline level: what one pair's rows do to that pair's entry *)
Fixpoint fold_step (old : option tline) (evs : list (Z * bool)) : option (option tline) :=
  match evs with
  | [] => Some old
  | (s, true) :: r => match merge_tl old s s with None => None | Some new => fold_step new r end
  | (s, false) :: r =>
      match old with
      | None => None
      | Some ((a, b), _) =>
          if b <? s then match merge_tl old a (s - 1) with None => None | Some new => fold_step new r end
          else fold_step old r
      end
  end.

Definition olist (o : option tline) : list (Z * Z) := match o with None => [] | Some tl => tl_list tl end.

Lemma omem_olist tau o : omem tau o = mem tau (olist o).
Proof. destruct o; reflexivity. Qed.

Definition below (old : option tline) (a : Z) : Prop :=
  match old with Some ((_, b0), _) => b0 + 1 < a | None => True end.

(** a '+' beyond the latest run (or on a fresh pair) opens a one-instant run *)
Lemma merge_plus_gap old a : ocanon old -> below old a ->
  merge_tl old a a = Some (Some ((a, a), olist old)).
Proof.
  destruct old as [[[a0 b0] older]|]; simpl; intros Hc Hlt.
  - destruct Hc as (H0 & _). unfold merge_tl.
    destruct (a <? a0) eqn:E1; [lia|]. destruct (a <? a) eqn:E2; [lia|].
    destruct (b0 + 1 <? a) eqn:E3; [reflexivity|lia].
  - unfold merge_tl. destruct (a <? a) eqn:E; [lia|reflexivity].
Qed.

(** the '-' right after the run (a, a) became (a, b): the run is extended through b *)
Lemma merge_close a b l : a <= b -> merge_tl (Some ((a, a), l)) a (b + 1 - 1) = Some (Some ((a, b), l)).
Proof.
  intros Hab. replace (b + 1 - 1) with b by lia. unfold merge_tl.
  destruct (a <? a) eqn:E1; [lia|]. destruct (b <? a) eqn:E2; [lia|].
  destruct (a + 1 <? a) eqn:E3; [lia|]. destruct (a <? b) eqn:E4; [reflexivity|].
  assert (a = b) by lia. subst. reflexivity.
Qed.

Lemma fold_shape R evs : Shape R evs -> canon_chrono R -> forall old, ocanon old ->
  (forall x, In x R -> below old (fst x)) ->
  exists T, fold_step old evs = Some T /\ ocanon T /\ forall tau, omem tau T = omem tau old || mem tau R.
Proof.
  induction 1 as [|a b R evs Hsh IH|a R evs Hsh IH]; intros Hc old Hoc Hlt.
  - exists old. split; [reflexivity|]. split; [exact Hoc|]. intros tau. simpl. rewrite orb_false_r. reflexivity.
  - assert (Hab : a <= b) by (simpl in Hc; tauto).
    pose proof (Hlt (a, b) (or_introl eq_refl)) as Hb. simpl in Hb.
    assert (Hoc' : ocanon (Some ((a, b), olist old))).
    { destruct old as [[[a0 b0] older]|]; simpl in *; tauto. }
    destruct (IH (cc_tail _ _ Hc) (Some ((a, b), olist old)) Hoc') as (T & HT & HcT & HmT).
    { intros x Hx. simpl. apply (cc_all_gt _ _ _ Hc). exact Hx. }
    exists T. split; [|split; [exact HcT|]].
    + cbn [fold_step]. rewrite (merge_plus_gap old a Hoc Hb).
      assert (E : a <? b + 1 = true) by lia. rewrite E.
      rewrite (merge_close a b _ Hab). exact HT.
    + intros tau. rewrite HmT. rewrite (omem_olist tau old).
      change (omem tau (Some ((a, b), olist old))) with (in_itv tau (a, b) || mem tau (olist old)).
      change (mem tau ((a, b) :: R)) with (in_itv tau (a, b) || mem tau R).
      destruct (in_itv tau (a, b)), (mem tau (olist old)), (mem tau R); reflexivity.
  - pose proof (Hlt (a, a) (or_introl eq_refl)) as Hb. simpl in Hb.
    assert (Hoc' : ocanon (Some ((a, a), olist old))).
    { destruct old as [[[a0 b0] older]|]; simpl in *; try tauto; repeat split; try lia; tauto. }
    destruct (IH (cc_tail _ _ Hc) (Some ((a, a), olist old)) Hoc') as (T & HT & HcT & HmT).
    { intros x Hx. simpl. apply (cc_all_gt _ _ _ Hc). exact Hx. }
    exists T. split; [|split; [exact HcT|]].
    + cbn [fold_step]. rewrite (merge_plus_gap old a Hoc Hb). exact HT.
    + intros tau. rewrite HmT. rewrite (omem_olist tau old).
      change (omem tau (Some ((a, a), olist old))) with (in_itv tau (a, a) || mem tau (olist old)).
      change (mem tau ((a, a) :: R)) with (in_itv tau (a, a) || mem tau R).
      destruct (in_itv tau (a, a)), (mem tau (olist old)), (mem tau R); reflexivity.
Qed.

(** ** 2b. the reader at graph level: each row only touches its own pair's entry, as [fold_step] says *)
Definition pe (S : list event) (k : Z * Z) : list (Z * bool) :=
  map (fun e => (ev_time e, snd e)) (filter (fun e => peqb (snd (fst e)) k) S).
Definition rows (S : list event) : list irow :=
  map (fun e => match e with (t, (u, v), op) => (u, v, op, t) end) S.

Lemma pe_cons t u v op S k :
  pe ((t, (u, v), op) :: S) k = if peqb (u, v) k then (t, op) :: pe S k else pe S k.
Proof. unfold pe. simpl. destruct (peqb (u, v) k); reflexivity. Qed.

(** one accepted add on the pair (u, v): the other pairs' folds are untouched *)
Lemma read_events S : forall H,
  g_rem H = true ->
  (forall e, In e S -> nk (g_dir H) (fst (snd (fst e))) (snd (snd (fst e))) = snd (fst e)) ->
  (forall k, fold_step (aget peqb k (g_edges H)) (pe S k) <> None) ->
  exists H', parse_interactions_from H (rows S) = RdOk H' /\ g_dir H' = g_dir H /\ g_rem H' = true /\
             forall k, fold_step (aget peqb k (g_edges H)) (pe S k) = Some (aget peqb k (g_edges H')).
Proof.
  induction S as [|[[t [u v]] op] S' IH]; intros H Hrem Hnk Hok.
  - exists H. simpl. auto.
  - assert (Hk0 : nk (g_dir H) u v = (u, v)) by (apply (Hnk (t, (u, v), op)); left; reflexivity).
    change (rows ((t, (u, v), op) :: S')) with ((u, v, op, t) :: rows S').
    pose proof (Hok (u, v)) as Hok0. rewrite pe_cons, peqb_refl in Hok0.
    (* the common continuation after an accepted add that rewrites the entry of (u, v) to [new] *)
    assert (Hcont : forall H1 new,
      g_dir H1 = g_dir H -> g_rem H1 = true ->
      (forall k', aget peqb k' (g_edges H1) = if peqb k' (u, v) then new else aget peqb k' (g_edges H)) ->
      fold_step new (pe S' (u, v)) <> None ->
      exists H', parse_interactions_from H1 (rows S') = RdOk H' /\ g_dir H' = g_dir H /\ g_rem H' = true /\
        (forall k, (if peqb (u, v) k then fold_step new (pe S' k) else fold_step (aget peqb k (g_edges H)) (pe S' k))
                   = Some (aget peqb k (g_edges H')))).
    { intros H1 new Hd Hr Hget Hnew.
      destruct (IH H1) as (H' & Hrun & HdH & HrH & Hall).
      - exact Hr.
      - intros e He. rewrite Hd. apply Hnk. right; exact He.
      - intros k. rewrite Hget. rewrite (peqb_sym k (u, v)). destruct (peqb (u, v) k) eqn:Ek.
        + apply peqb_eq in Ek. subst k. exact Hnew.
        + specialize (Hok k). rewrite pe_cons, Ek in Hok. exact Hok.
      - exists H'. split; [exact Hrun|]. split; [congruence|]. split; [exact HrH|].
        intros k. specialize (Hall k). rewrite Hget in Hall. rewrite (peqb_sym k (u, v)) in Hall.
        destruct (peqb (u, v) k); exact Hall. }
    cbn [parse_interactions_from]. destruct op.
    + (* '+' : a point add *)
      cbn [fold_step] in Hok0.
      destruct (add_interaction H u v (Some t) None) as [H1 o] eqn:Hs.
      pose proof (step_edges _ _ _ _ _ _ _ Hs) as Hst. cbv zeta in Hst. destruct Hst as (Hd & Hr & Hst).
      rewrite Hk0 in Hst. unfold call_end in Hst.
      destruct (merge_tl (aget peqb (u, v) (g_edges H)) t t) as [new|] eqn:Hm; [|congruence].
      destruct Hst as (-> & Hget).
      destruct (Hcont H1 new Hd (eq_trans Hr Hrem) Hget Hok0) as (H' & Hrun & HdH & HrH & Hall).
      exists H'. split; [exact Hrun|]. split; [exact HdH|]. split; [exact HrH|].
      intros k. specialize (Hall k). rewrite pe_cons. destruct (peqb (u, v) k) eqn:Ek; [|exact Hall].
      apply peqb_eq in Ek. subst k. cbn [fold_step]. rewrite Hm. exact Hall.
    + (* '-' : an interval add from the start of the latest run, when it reaches beyond that run *)
      rewrite Hk0.
      destruct (aget peqb (u, v) (g_edges H)) as [[[a b] older]|] eqn:Hg; [|cbn [fold_step] in Hok0; congruence].
      cbn [fold_step] in Hok0.
      destruct (b <? t) eqn:Eb.
      * destruct (add_interaction H u v (Some a) (Some t)) as [H1 o] eqn:Hs.
        pose proof (step_edges _ _ _ _ _ _ _ Hs) as Hst. cbv zeta in Hst. destruct Hst as (Hd & Hr & Hst).
        rewrite Hk0, Hg, Hrem in Hst. unfold call_end in Hst.
        revert Hst Hok0. destruct (merge_tl _ a (t - 1)) as [new|] eqn:Hm; intros Hst Hok0; [|congruence].
        destruct Hst as (-> & Hget).
        destruct (Hcont H1 new Hd (eq_trans Hr Hrem) Hget Hok0) as (H' & Hrun & HdH & HrH & Hall).
        exists H'. split; [exact Hrun|]. split; [exact HdH|]. split; [exact HrH|].
        intros k. specialize (Hall k). rewrite pe_cons. destruct (peqb (u, v) k) eqn:Ek; [|exact Hall].
        apply peqb_eq in Ek. subst k. rewrite Hg. cbn [fold_step]. rewrite Eb, Hm. exact Hall.
      * destruct (IH H Hrem) as (H' & Hrun & HdH & HrH & Hall).
        -- intros e He. apply Hnk. right; exact He.
        -- intros k. destruct (peqb (u, v) k) eqn:Ek.
           ++ apply peqb_eq in Ek. subst k. rewrite Hg. exact Hok0.
           ++ specialize (Hok k). rewrite pe_cons, Ek in Hok. exact Hok.
        -- exists H'. split; [exact Hrun|]. split; [exact HdH|]. split; [exact HrH|].
           intros k. specialize (Hall k). rewrite pe_cons. destruct (peqb (u, v) k) eqn:Ek; [|exact Hall].
           apply peqb_eq in Ek. subst k. rewrite Hg in *. cbn [fold_step]. rewrite Eb. exact Hall.
Qed.

(** ** 2c. the keys of the log are adjacency keys, hence normalised *)
Lemma event_key_norm g e : InvAdj g -> InvLog g -> In e (g_events g) ->
  nk (g_dir g) (fst (snd (fst e))) (snd (snd (fst e))) = snd (fst e).
Proof.
  intros (_ & _ & _ & Hnorm) (H1 & H2 & _) Hin. destruct e as [[t [a b]] op]. simpl.
  assert (Hne : aget peqb (a, b) (g_edges g) <> None).
  { apply has_event_In in Hin. destruct op.
    - rewrite H1 in Hin. unfold runs_of in Hin. destruct (aget peqb (a, b) (g_edges g)); [discriminate|discriminate Hin].
    - apply H2 in Hin. unfold runs_of in Hin. destruct (aget peqb (a, b) (g_edges g)); [discriminate|discriminate Hin]. }
  unfold nk. destruct (g_dir g) eqn:Hd; [reflexivity|].
  destruct (aget peqb (a, b) (g_edges g)) as [tl|] eqn:Hg; [|congruence].
  apply aget_Some_in in Hg.
  assert (Hk : In (a, b) (akeys (g_edges g))) by (unfold akeys; apply in_map_iff; exists ((a, b), tl); auto).
  pose proof (Hnorm eq_refl a b Hk) as Hle. destruct (a <=? b) eqn:E; [reflexivity|lia].
Qed.

(** ** 2d. the round trip *)
(** the graph read back has, for every pair, exactly the presence of the original *)
Theorem interactions_roundtrip_runs g : GoodG g -> InvLog g -> all_closed g ->
  exists H, parse_interactions (g_dir g) (gen_interactions g) = RdOk H /\ g_dir H = g_dir g /\ g_rem H = true /\
            forall k, ocanon (aget peqb k (g_edges H)) /\
                      forall tau, omem tau (aget peqb k (g_edges H)) = mem tau (runs_of g k).
Proof.
  intros (Hrem & Hcan & HA) HL Hcl.
  assert (Hfold : forall k, exists T, fold_step None (pair_events g k) = Some T /\ ocanon T /\
                                      forall tau, omem tau T = mem tau (runs_of g k)).
  { intros k. pose proof (pair_events_shape g k (Hcan k) HL Hcl) as Hsh.
    destruct (fold_shape _ _ Hsh (canon_rev _ (runs_of_canon g k (Hcan k))) None I) as (T & HT & HcT & HmT).
    - intros x _. exact I.
    - exists T. split; [exact HT|]. split; [exact HcT|]. intros tau. rewrite HmT. simpl. apply mem_rev. }
  destruct (read_events (stream g) (empty_graph (g_dir g) true)) as (H & Hrun & Hd & Hr & Hall).
  - reflexivity.
  - intros e He. simpl. apply event_key_norm; [exact HA|exact HL|]. apply stream_In. exact He.
  - intros k. simpl. destruct (Hfold k) as (T & E & _). change (pe (stream g) k) with (pair_events g k).
    rewrite E. discriminate.
  - exists H. split; [exact Hrun|]. split; [exact Hd|]. split; [exact Hr|].
    intros k. destruct (Hfold k) as (T & E & HcT & HmT). specialize (Hall k). simpl in Hall.
    change (pe (stream g) k) with (pair_events g k) in Hall. rewrite E in Hall. injection Hall as HT. subst T.
    split; assumption.
Qed.

Theorem interactions_roundtrip g : GoodG g -> InvLog g -> all_closed g ->
  exists H, parse_interactions (g_dir g) (gen_interactions g) = RdOk H /\
            forall u v tau, has_interaction H u v (Some tau) = has_interaction g u v (Some tau).
Proof.
  intros HG HL Hcl. destruct (interactions_roundtrip_runs g HG HL Hcl) as (H & Hrun & Hd & Hr & Hall).
  destruct HG as (Hrem & Hcan & HA).
  exists H. split; [exact Hrun|]. intros u v tau.
  destruct (Hall (nk (g_dir H) u v)) as (HcH & HmH).
  rewrite (io_hi_omem H u v tau Hr HcH), HmH, Hd.
  rewrite (io_hi_omem g u v tau Hrem (Hcan _)). unfold runs_of.
  destruct (aget peqb (nk (g_dir g) u v) (g_edges g)); reflexivity.
Qed.

(** the read-back graph's presence, stated through the replay of the written stream *)
Corollary interactions_roundtrip_replay g : GoodG g -> InvLog g -> all_closed g ->
  exists H, parse_interactions (g_dir g) (gen_interactions g) = RdOk H /\
            forall u v tau, has_interaction H u v (Some tau) = replay (pair_events g (nk (g_dir g) u v)) None tau.
Proof.
  intros HG HL Hcl. destruct (interactions_roundtrip g HG HL Hcl) as (H & Hrun & Hp).
  exists H. split; [exact Hrun|]. intros u v tau. rewrite Hp.
  destruct HG as (Hrem & Hcan & HA).
  rewrite (replay_presence g _ tau Hrem Hcan HL Hcl).
  rewrite (io_hi_omem g u v tau Hrem (Hcan _)). unfold runs_of.
  destruct (aget peqb (nk (g_dir g) u v) (g_edges g)); reflexivity.
Qed.

(** * 3. [all_closed] is needed: the unclosed two-instant run (two point adds at consecutive instants)
    logs a single '+', so the replay and the read-back graph only know the first instant *)
Definition g_unclosed : graph :=
  run_calls (empty_graph false true) [mkCall 1 2 1 None; mkCall 1 2 2 None].

Example replay_unclosed :
  replay (pair_events g_unclosed (1, 2)) None 2 = false /\ mem 2 (runs_of g_unclosed (1, 2)) = true.
Proof. vm_compute. split; reflexivity. Qed.

Example roundtrip_unclosed :
  exists H, parse_interactions false (gen_interactions g_unclosed) = RdOk H /\
            has_interaction H 1 2 (Some 2) = false /\ has_interaction g_unclosed 1 2 (Some 2) = true.
Proof. eexists. split; [vm_compute; reflexivity|]. split; vm_compute; reflexivity. Qed.
