(** RenameConf: the conformity model of Conformity.v (delta_conformity, sliding_delta_conformity, over Q) is
    invariant under the renaming of node ids along a strictly increasing map [f] ([mono f]).

    Every intermediate rational is preserved SYNTACTICALLY (Leibniz equality of the Q terms): the renaming only
    touches node keys, never a numerator or a denominator; Qred / Qeq are not needed anywhere.

    One statement of the task is false as given: [last_node], [group_by_last] and [t_distances] commute with
    the renaming only on NON-EMPTY paths (the model answers node 0 for the last node of the empty path, and
    [f 0] need not be 0).  Counterexamples: [last_node_empty_counterexample], [t_distances_counterexample];
    true variants: [ren_last_node_alt], [ren_group_by_last_alt], [ren_t_distances_alt].  The paths produced by
    all_time_respecting_paths are never empty ([all_trp_nonempty]), so the main theorems hold unconditionally. *)
From Coq Require Import QArith.
From DynVerif Require Import Base Graph Derived Annotate Paths Conformity Rename.
From DynVerif.proofs Require Import AnnotateFacts RenameCore RenamePaths.
#[local] Open Scope Z_scope.

(** * Association lists under a key map and a value map *)
Section KVMap.
  Context {K K' V V' : Type} (eqk : K -> K -> bool) (eqk' : K' -> K' -> bool) (h : K -> K') (hv : V -> V').
  Context (Heq : forall a b, eqk' (h a) (h b) = eqk a b).

  Lemma aget_kvmap (k : K) (l : list (K * V)) :
    aget eqk' (h k) (map (fun kv => (h (fst kv), hv (snd kv))) l) = option_map hv (aget eqk k l).
  Proof.
    induction l as [|[k0 v0] r IH]; simpl; [reflexivity|].
    rewrite Heq, IH. destruct (eqk k k0); reflexivity.
  Qed.

  Lemma aset_kvmap (k : K) (v : V) (l : list (K * V)) :
    aset eqk' (h k) (hv v) (map (fun kv => (h (fst kv), hv (snd kv))) l)
    = map (fun kv => (h (fst kv), hv (snd kv))) (aset eqk k v l).
  Proof.
    induction l as [|[k0 v0] r IH]; simpl; [reflexivity|].
    rewrite Heq. destruct (eqk k k0); simpl; [reflexivity|]. rewrite IH. reflexivity.
  Qed.
End KVMap.

Lemma aget_Some_In {V : Type} (k : Z) (v : V) (l : list (Z * V)) :
  aget Z.eqb k l = Some v -> exists k', In (k', v) l.
Proof.
  induction l as [|[k0 v0] r IH]; simpl; [discriminate|].
  destruct (k =? k0).
  - intros E. inversion E. subst. exists k0. left. reflexivity.
  - intros E. destruct (IH E) as [k' Hk']. exists k'. right. exact Hk'.
Qed.

(** * combinations and profiles act on the list of tables *)
Lemma combos_map {A B : Type} (h : A -> B) (l : list A) :
  forall k, combos k (map h l) = map (map h) (combos k l).
Proof.
  induction l as [|x r IH]; intros k.
  - destruct k; reflexivity.
  - destruct k as [|k']; [reflexivity|].
    cbn [map combos]. rewrite map_app, (IH k'), (IH (S k')), !map_map. reflexivity.
Qed.

Lemma profiles_map {A B : Type} (h : A -> B) (l : list A) (n : nat) :
  profiles (map h l) n = map (map h) (profiles l n).
Proof.
  unfold profiles. generalize (seq 1 n). intros idx.
  induction idx as [|i r IH]; simpl; [reflexivity|].
  rewrite map_app, combos_map, IH. reflexivity.
Qed.

(** * the paths of the path queries are never empty *)
Lemma keep_path_nonempty (p : path) : keep_path p = true -> p <> [].
Proof. intros Hk E. subst p. discriminate Hk. Qed.

Lemma all_paths_dag_nonempty u d p : In p (all_paths_dag u d) -> p <> [].
Proof.
  unfold all_paths_dag. intros Hin. apply dedup_In in Hin. destruct Hin as [Hin _].
  apply filter_In in Hin. destruct Hin as [_ Hk]. apply keep_path_nonempty. exact Hk.
Qed.

Lemma trp_nonempty g u v s e l p :
  time_respecting_paths g u v s e = PathsOk l -> In p l -> p <> [].
Proof.
  unfold time_respecting_paths. destruct (negb (has_node g u s)).
  - intros E. inversion E. subst l. intros [].
  - destruct (temporal_dag g u v s e) as [d|]; [|discriminate].
    intros E. inversion E. subst l. apply all_paths_dag_nonempty.
Qed.

Lemma all_trp_nonempty g s e us : forall sp u l p,
  all_trp g s e us = Some sp -> In (u, l) sp -> In p l -> p <> [].
Proof.
  induction us as [|u0 r IH]; intros sp u l p; cbn [all_trp].
  - intros E. inversion E. subst sp. intros [].
  - destruct (time_respecting_paths g u0 None s e) as [l0|] eqn:Et; [|discriminate].
    destruct (all_trp g s e r) as [rest|] eqn:Er; [|discriminate].
    intros E. inversion E. subst sp. intros [Hin|Hin] Hp.
    + inversion Hin. subst u0 l0. apply (trp_nonempty g u None s e l p Et Hp).
    + apply (IH rest u l p eq_refl Hin Hp).
Qed.

Lemma atrp_nonempty g s e m sp u l p :
  all_time_respecting_paths g s e m = Some sp -> In (u, l) sp -> In p l -> p <> [].
Proof. unfold all_time_respecting_paths. apply all_trp_nonempty. Qed.

(** * counterexamples: the empty path *)
Lemma mono_succ : mono Z.succ.
Proof. intros x y Hxy. lia. Qed.

Example last_node_empty_counterexample :
  last_node (ren_path Z.succ []) <> Z.succ (last_node []).
Proof. vm_compute. discriminate. Qed.

Example group_by_last_counterexample :
  group_by_last (map (ren_path Z.succ) [[]]) (map (ren_keyed Z.succ) [])
  <> map (ren_keyed Z.succ) (group_by_last [[]] []).
Proof. vm_compute. discriminate. Qed.

Example t_distances_counterexample :
  t_distances 0 (Z.succ 1) (map (ren_path Z.succ) [[]])
  <> map (fun wd => (Z.succ (fst wd), snd wd)) (t_distances 0 1 [[]]).
Proof. vm_compute. discriminate. Qed.

Section RenameConf.
  Variable f : Z -> Z.
  Context (Hf : mono f).

  (** * 1. labels, last node, grouping, picking, hop distances *)
  Theorem ren_lab t n : lab (ren_tab f t) (f n) = lab t n.
  Proof. unfold lab, ren_tab. rewrite (zget_ren f Hf). reflexivity. Qed.

  Lemma ren_last_hop (p : path) : forall d d', p <> [] -> last (ren_path f p) d = ren_hop f (last p d').
  Proof.
    induction p as [|a r IH]; intros d d' Hne; [congruence|].
    destruct r as [|b r']; [reflexivity|].
    change (last (ren_path f (a :: b :: r')) d) with (last (ren_path f (b :: r')) d).
    change (last (a :: b :: r') d') with (last (b :: r') d').
    apply IH. discriminate.
  Qed.

  Theorem ren_last_node_alt p : p <> [] -> last_node (ren_path f p) = f (last_node p).
  Proof.
    intros Hne. unfold last_node. rewrite (ren_last_hop p (0, 0, 0) (0, 0, 0) Hne).
    destruct (last p (0, 0, 0)) as [[a b] t]. reflexivity.
  Qed.

  Theorem ren_group_by_last_alt ps : (forall p, In p ps -> p <> []) -> forall acc,
    group_by_last (map (ren_path f) ps) (map (ren_keyed f) acc) = map (ren_keyed f) (group_by_last ps acc).
  Proof.
    induction ps as [|p r IH]; intros Hne acc; [reflexivity|].
    cbn [map group_by_last].
    rewrite (ren_last_node_alt p) by (apply Hne; left; reflexivity).
    unfold ren_keyed at 1 2.
    rewrite (aget_kvmap Z.eqb Z.eqb f (map (ren_path f)) (mono_eqb f Hf)).
    set (old := match aget Z.eqb (last_node p) acc with Some l => l | None => [] end).
    replace (match option_map (map (ren_path f)) (aget Z.eqb (last_node p) acc) with Some l => l | None => [] end
             ++ [ren_path f p])
      with (map (ren_path f) (old ++ [p]))
      by (unfold old; rewrite map_app; destruct (aget Z.eqb (last_node p) acc); reflexivity).
    rewrite (aset_kvmap Z.eqb Z.eqb f (map (ren_path f)) (mono_eqb f Hf)).
    apply (IH (fun q Hq => Hne q (or_intror Hq))).
  Qed.

  Theorem ren_pick pt a : pick pt (ren_annotated f a) = map (ren_path f) (pick pt a).
  Proof.
    unfold pick, ren_annotated.
    destruct (pt =? 0); [reflexivity|]. destruct (pt =? 1); [reflexivity|].
    destruct (pt =? 2); [reflexivity|]. destruct (pt =? 3); reflexivity.
  Qed.

  Lemma ren_lengths (l : list path) : map path_length (map (ren_path f) l) = map path_length l.
  Proof. rewrite map_map. apply map_ext. intros p. apply ren_path_length. Qed.

  Theorem ren_t_distances_alt pt u ps : (forall p, In p ps -> p <> []) ->
    t_distances pt (f u) (map (ren_path f) ps)
    = map (fun wd => (f (fst wd), snd wd)) (t_distances pt u ps).
  Proof.
    intros Hne. unfold t_distances.
    change (@nil (Z * list path)) with (map (ren_keyed f) []) at 1.
    rewrite (ren_group_by_last_alt ps Hne []).
    apply flat_map_map_comm. intros [w l]. unfold ren_keyed. cbn [fst snd].
    rewrite (mono_eqb f Hf). destruct (w =? u); [reflexivity|].
    rewrite (ren_annotate_paths f Hf), ren_pick, ren_lengths.
    destruct (map path_length (pick pt (annotate_paths l))) as [|x r]; reflexivity.
  Qed.

  (** * 2. remap / by_rank: the values are untouched, the node keys are mapped *)
  Theorem ren_remap td :
    remap (map (fun wd => (f (fst wd), snd wd)) td) = map (fun wd => (f (fst wd), snd wd)) (remap td).
  Proof.
    unfold remap. cbv zeta.
    assert (Hs : map snd (map (fun wd : Z * Z => (f (fst wd), snd wd)) td) = map snd td).
    { rewrite map_map. apply map_ext. intros wd. reflexivity. }
    rewrite Hs, !map_map. apply map_ext. intros wd. reflexivity.
  Qed.

  Definition ren_rank (dl : Z * list Z) : Z * list Z := (fst dl, map f (snd dl)).

  Lemma aget_rank d acc : aget Z.eqb d (map ren_rank acc) = option_map (map f) (aget Z.eqb d acc).
  Proof. exact (aget_kvmap Z.eqb Z.eqb (fun x => x) (map f) (fun a b => eq_refl) d acc). Qed.

  Lemma aset_rank d ns acc : aset Z.eqb d (map f ns) (map ren_rank acc) = map ren_rank (aset Z.eqb d ns acc).
  Proof. exact (aset_kvmap Z.eqb Z.eqb (fun x => x) (map f) (fun a b => eq_refl) d ns acc). Qed.

  Theorem ren_by_rank sp : forall acc,
    by_rank (map (fun wd => (f (fst wd), snd wd)) sp) (map ren_rank acc) = map ren_rank (by_rank sp acc).
  Proof.
    induction sp as [|[n d] r IH]; intros acc; [reflexivity|].
    cbn [map by_rank fst snd]. rewrite aget_rank.
    set (old := match aget Z.eqb d acc with Some l => l | None => [] end).
    replace (match option_map (map f) (aget Z.eqb d acc) with Some l => l | None => [] end ++ [f n])
      with (map f (old ++ [n]))
      by (unfold old; rewrite map_app; destruct (aget Z.eqb d acc); reflexivity).
    rewrite aset_rank. apply IH.
  Qed.

  Lemma ren_by_rank_nil sp :
    by_rank (map (fun wd => (f (fst wd), snd wd)) sp) [] = map ren_rank (by_rank sp []).
  Proof. apply (ren_by_rank sp []). Qed.

  (** * 3. label_factor, label_frequency, node_score: syntactic equality of the rationals *)
  Theorem ren_label_factor g tab u nodes td :
    label_factor (ren f g) (ren_tab f tab) (f u) (map f nodes) (map (fun wd => (f (fst wd), snd wd)) td)
    = label_factor g tab u nodes td.
  Proof.
    unfold label_factor. cbv zeta.
    rewrite map_length, map_map, ren_lab.
    f_equal. f_equal. apply map_ext. intros v.
    rewrite ren_lab, (zget_ren f Hf), (ren_neighbors f Hf).
    destruct (neighbors g v (Some match aget Z.eqb v td with Some x => x | None => 0 end)) as [nb|];
      cbn [option_map]; [|reflexivity].
    rewrite (filter_map_comm f (fun x => lab tab x =? lab tab v)) by (intros x; rewrite ren_lab; reflexivity).
    rewrite !map_length. reflexivity.
  Qed.

  Theorem ren_label_frequency g tabs u nodes td :
    label_frequency (ren f g) (map (ren_tab f) tabs) (f u) (map f nodes) (map (fun wd => (f (fst wd), snd wd)) td)
    = label_frequency g tabs u nodes td.
  Proof.
    unfold label_frequency. generalize 1%Q. induction tabs as [|tab r IH]; intros acc; [reflexivity|].
    cbn [map fold_left]. rewrite ren_label_factor. apply IH.
  Qed.

  Lemma ren_raw g tabs alpha u td ranks : forall acc,
    fold_left (fun acc dn => let '(d, nodes) := dn in
                 if d =? 0 then acc
                 else (acc + label_frequency (ren f g) (map (ren_tab f) tabs) (f u) nodes
                               (map (fun wd => (f (fst wd), snd wd)) td) * weight alpha d)%Q)
              (map ren_rank ranks) acc
    = fold_left (fun acc dn => let '(d, nodes) := dn in
                 if d =? 0 then acc else (acc + label_frequency g tabs u nodes td * weight alpha d)%Q)
              ranks acc.
  Proof.
    induction ranks as [|[d nodes] r IH]; intros acc; [reflexivity|].
    cbn [map fold_left ren_rank fst snd]. rewrite ren_label_frequency. apply IH.
  Qed.

  Theorem ren_node_score g tabs alpha u td :
    node_score (ren f g) (map (ren_tab f) tabs) alpha (f u) (map (fun wd => (f (fst wd), snd wd)) td)
    = node_score g tabs alpha u td.
  Proof.
    unfold node_score. cbv zeta.
    rewrite ren_remap, ren_by_rank_nil, ren_raw.
    assert (Hk : map fst (map ren_rank (by_rank (remap td) [])) = map fst (by_rank (remap td) [])).
    { rewrite map_map. apply map_ext. intros dl. reflexivity. }
    rewrite Hk.
    destruct (by_rank (remap td) []) as [|r0 rr]; reflexivity.
  Qed.

  (** * 4. delta_conformity *)
  Theorem ren_delta_conformity g start delta alphas tabs psize ptype :
    delta_conformity (ren f g) start delta alphas (map (ren_tab f) tabs) psize ptype
    = ren_conf f (delta_conformity g start delta alphas tabs psize ptype).
  Proof.
    unfold delta_conformity. cbv zeta. rewrite map_length.
    destruct ((length tabs <? psize)%nat || (length alphas =? 0)%nat || (length tabs =? 0)%nat); [reflexivity|].
    rewrite (ren_time_slice f Hf).
    destruct (time_slice g start (Some (start + delta))) as [[gs|] tsr]; cbn [fst snd option_map]; [|reflexivity].
    rewrite ren_snapshot_ids.
    destruct (snapshot_ids gs) as [|i0 ids]; [reflexivity|].
    rewrite (ren_all_time_respecting_paths f Hf).
    destruct (all_time_respecting_paths gs (Some (Z.max start i0))
                (Some (Z.min (last (i0 :: ids) i0) (start + delta))) None) as [sp|] eqn:Esp;
      cbn [option_map]; [|reflexivity].
    cbn [ren_conf]. f_equal. rewrite map_map. apply map_ext. intros alpha. cbn [fst snd]. f_equal.
    rewrite profiles_map, !map_map. apply map_ext. intros prof.
    rewrite (ren_nodes_at f Hf), !map_map. apply map_ext. intros u. cbn [fst snd].
    rewrite (aget_kvmap Z.eqb Z.eqb f (map (ren_path f)) (mono_eqb f Hf)).
    destruct (aget Z.eqb u sp) as [ps|] eqn:Eu; cbn [option_map].
    - destruct (aget_Some_In u ps sp Eu) as [k Hk].
      rewrite (ren_t_distances_alt ptype u ps)
        by (intros p Hp; apply (atrp_nonempty _ _ _ _ _ _ _ _ Esp Hk Hp)).
      rewrite ren_node_score. reflexivity.
    - change (t_distances ptype (f u) [])
        with (map (fun wd : Z * Z => (f (fst wd), snd wd)) (t_distances ptype u [])).
      rewrite ren_node_score. reflexivity.
  Qed.

  (** * 5. sliding_delta_conformity *)
  Theorem ren_sliding_delta_conformity g delta alphas tabs psize ptype :
    sliding_delta_conformity (ren f g) delta alphas (map (ren_tab f) tabs) psize ptype
    = map (fun tr => (fst tr, ren_conf f (snd tr))) (sliding_delta_conformity g delta alphas tabs psize ptype).
  Proof.
    unfold sliding_delta_conformity. cbv zeta. rewrite ren_snapshot_ids.
    generalize (last (snapshot_ids g) 0). intros lastid.
    induction (snapshot_ids g) as [|t r IH]; [reflexivity|].
    cbn [flat_map]. rewrite map_app, IH. f_equal.
    destruct (t + delta <? lastid); [|reflexivity].
    cbn [map fst snd]. rewrite ren_delta_conformity. reflexivity.
  Qed.

End RenameConf.

Print Assumptions combos_map.
Print Assumptions profiles_map.
Print Assumptions atrp_nonempty.
Print Assumptions ren_lab.
Print Assumptions ren_last_node_alt.
Print Assumptions ren_group_by_last_alt.
Print Assumptions ren_pick.
Print Assumptions ren_t_distances_alt.
Print Assumptions ren_remap.
Print Assumptions ren_by_rank.
Print Assumptions ren_label_factor.
Print Assumptions ren_label_frequency.
Print Assumptions ren_node_score.
Print Assumptions ren_delta_conformity.
Print Assumptions ren_sliding_delta_conformity.
