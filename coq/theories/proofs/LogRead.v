(** LogRead: the interaction-list reader on ARBITRARY logs, pair by pair (PART 1), and the text-level round trip of
    one interaction row (PART 2). *)
From DynVerif Require Import Base Graph Derived Spec Annotate IO.
From DynVerif.proofs Require Import AListFacts CoreInv C01Facts C03Facts QueryFacts SliceFacts LogInv IOFacts ReplayFacts.
From Coq Require Import Sorting.Sorted Sorting.Permutation.

(** * PART 1: what a log means, per pair *)

(* presence of pair k described by a chronological log: '+' at t makes the pair present at t; '-' at s makes it present from
   the start of its latest run through s-1 (when that run ended before s). [runs] is the pair's timeline so far, newest first. *)
Definition log_step (runs : option tline) (op : bool) (s : Z) : option (option tline) :=
  if op then merge_tl runs s s
  else match runs with
       | None => None                                  (* '-' before any '+': KeyError *)
       | Some ((a, b), _) => if b <? s then merge_tl runs a (s - 1) else Some runs
       end.
(* the rows of pair k, in order *)
Definition rows_of_pair (dir : bool) (k : Z * Z) (rows : list irow) : list (bool * Z) :=
  map (fun r => match r with (_, _, op, t) => (op, t) end)
      (filter (fun r => match r with (u, v, _, _) => peqb (nk dir u v) k end) rows).
Fixpoint log_fold (runs : option tline) (evs : list (bool * Z)) : option (option tline) :=
  match evs with
  | [] => Some runs
  | (op, s) :: r => match log_step runs op s with Some runs' => log_fold runs' r | None => None end
  end.

(** ** one step: canonicity and the presence it adds *)
Theorem log_step_mem runs op s runs' tau : ocanon runs -> log_step runs op s = Some runs' ->
  ocanon runs' /\
  omem tau runs' = omem tau runs ||
    (if op then (tau =? s)
     else match runs with Some ((a, b), _) => (b <? s) && (a <=? tau) && (tau <=? s - 1) | None => false end).
Proof.
  intros Hc. unfold log_step. destruct op.
  - intros Hm. split; [eapply merge_canon; eauto|].
    rewrite (merge_mem _ _ _ _ tau Hc Hm). destruct (omem tau runs); lia.
  - destruct runs as [[[a b] older]|]; [|discriminate].
    destruct (b <? s) eqn:Eb.
    + intros Hm. split; [eapply merge_canon; eauto|].
      rewrite (merge_mem _ _ _ _ tau Hc Hm). reflexivity.
    + intros H. inversion H; subst. split; [exact Hc|]. simpl. rewrite orb_false_r. reflexivity.
Qed.

(** ** a chronological log in which every '-' follows a '+' never fails *)
Definition pair_log_ok (evs : list (bool * Z)) : Prop :=
  StronglySorted (fun x y => snd x <= snd y) evs /\ match evs with (false, _) :: _ => False | _ => True end.

(* the start of the latest run is not after [s] *)
Definition lstart_le (runs : option tline) (s : Z) : Prop :=
  match runs with Some ((a, _), _) => a <= s | None => True end.

Lemma log_step_ok runs op s : ocanon runs -> lstart_le runs s -> (runs = None -> op = true) ->
  exists runs', log_step runs op s = Some runs' /\ ocanon runs' /\ runs' <> None /\
                forall s', s <= s' -> lstart_le runs' s'.
Proof.
  intros Hc Hs Hn.
  assert (Hex : exists r', log_step runs op s = Some r' /\ r' <> None /\ forall s', s <= s' -> lstart_le r' s').
  { destruct runs as [[[a b] older]|].
    - simpl in Hs. destruct op.
      + unfold log_step, merge_tl.
        destruct (s <? a) eqn:E1; [lia|]. destruct (s <? s) eqn:E2; [lia|].
        destruct (b + 1 <? s) eqn:E3; [|destruct (b <? s) eqn:E4];
          (eexists; split; [reflexivity|]; split; [discriminate|]; intros s' Hs'; simpl; lia).
      + unfold log_step. destruct (b <? s) eqn:Eb.
        * unfold merge_tl. destruct (a <? a) eqn:E1; [lia|].
          destruct (s - 1 <? a) eqn:E2; [|destruct (b + 1 <? a) eqn:E3; [|destruct (b <? s - 1) eqn:E4]];
            (eexists; split; [reflexivity|]; split; [discriminate|]; intros s' Hs'; simpl; lia).
        * eexists; split; [reflexivity|]; split; [discriminate|]; intros s' Hs'; simpl; lia.
    - rewrite (Hn eq_refl). unfold log_step, merge_tl. destruct (s <? s) eqn:E; [lia|].
      eexists; split; [reflexivity|]; split; [discriminate|]; intros s' Hs'; simpl; lia. }
  destruct Hex as (r' & E & Hne & Hl). exists r'. split; [exact E|]. split; [|split; assumption].
  apply (proj1 (log_step_mem runs op s r' 0 Hc E)).
Qed.

Lemma log_fold_gen evs : forall runs, ocanon runs ->
  StronglySorted (fun x y : bool * Z => snd x <= snd y) evs ->
  (forall x, In x evs -> lstart_le runs (snd x)) ->
  (runs = None -> match evs with (false, _) :: _ => False | _ => True end) ->
  exists r, log_fold runs evs = Some r /\ ocanon r.
Proof.
  induction evs as [|[op s] evs IH]; intros runs Hc Hs Hl Hn.
  - exists runs. split; [reflexivity|exact Hc].
  - apply StronglySorted_inv in Hs. destruct Hs as (Hs & Hall). rewrite Forall_forall in Hall.
    destruct (log_step_ok runs op s Hc) as (runs' & E & Hc' & Hne & Hl').
    + apply (Hl (op, s)). left; reflexivity.
    + intros En. specialize (Hn En). destruct op; [reflexivity|destruct Hn].
    + cbn [log_fold]. rewrite E. apply IH.
      * exact Hc'.
      * exact Hs.
      * intros x Hx. apply Hl'. apply (Hall x Hx).
      * intros En. congruence.
Qed.

Theorem log_fold_ok evs : pair_log_ok evs -> exists r, log_fold None evs = Some r /\ ocanon r.
Proof.
  intros (Hs & Hh). apply log_fold_gen.
  - exact I.
  - exact Hs.
  - intros x _. exact I.
  - intros _. exact Hh.
Qed.

(** ** the reader, row by row: one [log_step] on the row's own pair, every other entry untouched *)
Lemma rows_of_pair_cons dir k u v op s rows :
  rows_of_pair dir k ((u, v, op, s) :: rows) =
  if peqb (nk dir u v) k then (op, s) :: rows_of_pair dir k rows else rows_of_pair dir k rows.
Proof. unfold rows_of_pair. simpl. destruct (peqb (nk dir u v) k); reflexivity. Qed.

Lemma reader_step g u v op s : g_rem g = true ->
  match log_step (aget peqb (nk (g_dir g) u v) (g_edges g)) op s with
  | None => exists o, forall r, parse_interactions_from g ((u, v, op, s) :: r) = RdErr o
  | Some new =>
      exists g', (forall r, parse_interactions_from g ((u, v, op, s) :: r) = parse_interactions_from g' r) /\
                 g_dir g' = g_dir g /\ g_rem g' = true /\
                 forall k', aget peqb k' (g_edges g') =
                            if peqb k' (nk (g_dir g) u v) then new else aget peqb k' (g_edges g)
  end.
Proof.
  intros Hrem. set (k0 := nk (g_dir g) u v). unfold log_step. destruct op.
  - destruct (add_interaction g u v (Some s) None) as [g1 o] eqn:Hs.
    pose proof (step_edges _ _ _ _ _ _ _ Hs) as Hst. cbv zeta in Hst. destruct Hst as (Hd & Hr & Hst).
    fold k0 in Hst. unfold call_end in Hst.
    destruct (merge_tl (aget peqb k0 (g_edges g)) s s) as [new|] eqn:Hm.
    + destruct Hst as (-> & Hget). exists g1. split; [|split; [exact Hd|split; [congruence|exact Hget]]].
      intros r. cbn [parse_interactions_from]. rewrite Hs. reflexivity.
    + destruct Hst as (-> & ->). exists EValue. intros r. cbn [parse_interactions_from]. rewrite Hs. reflexivity.
  - destruct (aget peqb k0 (g_edges g)) as [[[a b] older]|] eqn:Hg.
    + destruct (b <? s) eqn:Eb.
      * destruct (add_interaction g u v (Some a) (Some s)) as [g1 o] eqn:Hs.
        pose proof (step_edges _ _ _ _ _ _ _ Hs) as Hst. cbv zeta in Hst. destruct Hst as (Hd & Hr & Hst).
        fold k0 in Hst. rewrite Hg, Hrem in Hst. unfold call_end in Hst.
        destruct (merge_tl _ a (s - 1)) as [new|] eqn:Hm.
        -- destruct Hst as (-> & Hget). exists g1. split; [|split; [exact Hd|split; [congruence|exact Hget]]].
           intros r. cbn [parse_interactions_from]. fold k0. rewrite Hg, Eb, Hs. reflexivity.
        -- destruct Hst as (-> & ->). exists EValue. intros r. cbn [parse_interactions_from].
           fold k0. rewrite Hg, Eb, Hs. reflexivity.
      * exists g. split; [|split; [reflexivity|split; [exact Hrem|]]].
        -- intros r. cbn [parse_interactions_from]. fold k0. rewrite Hg, Eb. reflexivity.
        -- intros k'. destruct (peqb k' k0) eqn:Ek; [|reflexivity]. apply peqb_eq in Ek. subst k'. exact Hg.
    + exists EKey. intros r. cbn [parse_interactions_from]. fold k0. rewrite Hg. reflexivity.
Qed.

(* the reader succeeds exactly when every pair's own log folds without error, and then each pair's timeline is the fold of
   its own rows: rows of one pair never affect another pair (frame) *)
Theorem reader_per_pair rows : forall g H, g_rem g = true ->
  parse_interactions_from g rows = RdOk H ->
  g_dir H = g_dir g /\ forall k, log_fold (aget peqb k (g_edges g)) (rows_of_pair (g_dir g) k rows) = Some (aget peqb k (g_edges H)).
Proof.
  induction rows as [|[[[u v] op] s] rows IH]; intros g H Hrem Hrun.
  - simpl in Hrun. inversion Hrun; subst. split; [reflexivity|]. intros k. reflexivity.
  - pose proof (reader_step g u v op s Hrem) as Hst.
    destruct (log_step (aget peqb (nk (g_dir g) u v) (g_edges g)) op s) as [new|] eqn:El.
    + destruct Hst as (g' & Hp & Hd & Hr & Hget). rewrite Hp in Hrun.
      destruct (IH g' H Hr Hrun) as (HdH & Hall). split; [congruence|].
      intros k. rewrite rows_of_pair_cons. specialize (Hall k). rewrite Hd, Hget in Hall.
      rewrite (peqb_sym k) in Hall.
      destruct (peqb (nk (g_dir g) u v) k) eqn:Ek; [|exact Hall].
      apply peqb_eq in Ek. subst k. cbn [log_fold]. rewrite El. exact Hall.
    + destruct Hst as (o & Hp). rewrite Hp in Hrun. discriminate.
Qed.

Theorem reader_error rows : forall g o, g_rem g = true -> parse_interactions_from g rows = RdErr o ->
  exists k, log_fold (aget peqb k (g_edges g)) (rows_of_pair (g_dir g) k rows) = None.
Proof.
  induction rows as [|[[[u v] op] s] rows IH]; intros g o Hrem Hrun.
  - simpl in Hrun. discriminate.
  - pose proof (reader_step g u v op s Hrem) as Hst.
    destruct (log_step (aget peqb (nk (g_dir g) u v) (g_edges g)) op s) as [new|] eqn:El.
    + destruct Hst as (g' & Hp & Hd & Hr & Hget). rewrite Hp in Hrun.
      destruct (IH g' o Hr Hrun) as (k & Hk). exists k.
      rewrite rows_of_pair_cons. rewrite Hd, Hget in Hk. rewrite (peqb_sym k) in Hk.
      destruct (peqb (nk (g_dir g) u v) k) eqn:Ek; [|exact Hk].
      apply peqb_eq in Ek. subst k. cbn [log_fold]. rewrite El. exact Hk.
    + exists (nk (g_dir g) u v). rewrite rows_of_pair_cons, peqb_refl. cbn [log_fold]. rewrite El. reflexivity.
Qed.

(** the converse directions, so that "exactly when" is literal *)
Theorem reader_ok_iff rows g : g_rem g = true ->
  (exists H, parse_interactions_from g rows = RdOk H) <->
  (forall k, log_fold (aget peqb k (g_edges g)) (rows_of_pair (g_dir g) k rows) <> None).
Proof.
  intros Hrem. split.
  - intros (H & Hrun) k. destruct (reader_per_pair rows g H Hrem Hrun) as (_ & Hall). rewrite Hall. discriminate.
  - intros Hall. destruct (parse_interactions_from g rows) as [H|o] eqn:Hrun; [exists H; reflexivity|].
    exfalso. destruct (reader_error rows g o Hrem Hrun) as (k & Hk). apply (Hall k). exact Hk.
Qed.

(** a file whose per-pair logs are all chronological with every '-' after a '+' is read without error, into canonical timelines *)
Corollary reader_total dir rows : (forall k, pair_log_ok (rows_of_pair dir k rows)) ->
  exists H, parse_interactions dir rows = RdOk H /\ g_dir H = dir /\ forall k, ocanon (aget peqb k (g_edges H)).
Proof.
  intros Hok. unfold parse_interactions.
  destruct (proj2 (reader_ok_iff rows (empty_graph dir true) eq_refl)) as (H & Hrun).
  - intros k. simpl. destruct (log_fold_ok _ (Hok k)) as (r & E & _). rewrite E. discriminate.
  - exists H. split; [exact Hrun|]. destruct (reader_per_pair rows (empty_graph dir true) H eq_refl Hrun) as (Hd & Hall).
    split; [exact Hd|]. intros k. specialize (Hall k). simpl in Hall.
    destruct (log_fold_ok _ (Hok k)) as (r & E & Hc). rewrite E in Hall. inversion Hall; subst. exact Hc.
Qed.

(** * PART 2: text level, one interaction row *)
Theorem int_line_render m d u v op t : ~ rchar m -> ~ rchar d -> m <> d -> is_ws d = false ->
  m <> 43 -> m <> 45 -> d <> 43 -> d <> 45 ->
  int_line m (Some d) (render_int_row d (u, v, op, t)) = LRow (u, v, op, t).
Proof.
  intros Hm Hd Hmd Hws Hm43 Hm45 Hd43 Hd45. unfold render_int_row, join.
  assert (Hrw : forall z, Forall (fun c => is_ws c = false) (render_int z)).
  { intros z. eapply Forall_impl; [|apply render_int_chars]. intros c Hc. apply dchar_not_ws. exact Hc. }
  set (c := if op then 43 else 45).
  assert (Hc : c = 43 \/ c = 45) by (unfold c; destruct op; auto).
  assert (Hdc : ~ In d [c]) by (intros [E|[]]; lia).
  assert (Hmc : ~ In m [c]) by (intros [E|[]]; lia).
  assert (Hwc : is_ws c = false) by (destruct Hc as [-> | ->]; reflexivity).
  unfold int_line. rewrite fields_clean.
  - unfold split. rewrite split_on_app by (apply render_int_notin; assumption).
    rewrite split_on_app by (apply render_int_notin; assumption).
    rewrite split_on_app by exact Hdc.
    rewrite split_on_last by (apply render_int_notin; assumption). simpl.
    rewrite !parse_int_render. unfold c. destruct op; reflexivity.
  - intros E. apply app_eq_nil in E. destruct E as (_ & E). discriminate.
  - intros Hin.
    apply in_app_or in Hin; destruct Hin as [Hin|Hin]; [revert Hin; apply render_int_notin; assumption|].
    destruct Hin as [Hin|Hin]; [congruence|].
    apply in_app_or in Hin; destruct Hin as [Hin|Hin]; [revert Hin; apply render_int_notin; assumption|].
    destruct Hin as [Hin|Hin]; [congruence|].
    apply in_app_or in Hin; destruct Hin as [Hin|Hin]; [exact (Hmc Hin)|].
    destruct Hin as [Hin|Hin]; [congruence|].
    revert Hin. apply render_int_notin; assumption.
  - apply Forall_app; split; [apply Hrw|]. constructor; [assumption|].
    apply Forall_app; split; [apply Hrw|]. constructor; [assumption|].
    apply Forall_app; split; [constructor; [exact Hwc|constructor]|]. constructor; [assumption|].
    apply Hrw.
Qed.
