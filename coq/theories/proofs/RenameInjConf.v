(** RenameInjConf: the conformity model of Conformity.v (delta_conformity, sliding_delta_conformity, over Q) is
    invariant under the renaming [renI f] of node ids along an ARBITRARY INJECTIVE map [f], on graphs whose stored
    keys are in normal form ([keys_norm], true of every reachable graph).  Lifts RenameConf.v (strictly increasing
    maps); the facts of RenameConf.v that need nothing of [f] (ren_last_node_alt, ren_pick, ren_lengths, ren_remap,
    ren_by_rank, combos_map, profiles_map, atrp_nonempty, aget_kvmap, aset_kvmap) are used as is.

    As in RenameConf.v every intermediate rational is preserved syntactically, and [group_by_last] / [t_distances]
    commute only on non-empty paths (which is all the path queries produce).

    [renI_run_calls] says that the renamed graph IS the graph built by the renamed calls. *)
From Coq Require Import QArith.
From DynVerif Require Import Base Graph Derived Annotate Paths Conformity Spec Rename.
From DynVerif.proofs Require Import C01Facts AnnotateFacts RenameCore RenameInjCore RenamePaths RenameInjPaths RenameConf.
#[local] Open Scope Z_scope.

(** renaming of the two endpoints of a call *)
Definition ren_call (f : Z -> Z) (c : call) : call := mkCall (f (c_u c)) (f (c_v c)) (c_t c) (c_e c).

Section RenameInjConf.
  Variable f : Z -> Z.
  Context (Hf : inj f).

  (** * 0. the renamed graph is the graph of the renamed calls *)
  Lemma renI_do_call g c : keys_norm g ->
    do_call (renI f g) (ren_call f c) = (renI f (fst (do_call g c)), snd (do_call g c)).
  Proof.
    intros Hg. unfold do_call, ren_call. cbn [c_u c_v c_t c_e].
    apply (renI_add_interaction f Hf). exact Hg.
  Qed.

  Theorem renI_run_calls cs : forall g, keys_norm g ->
    renI f (run_calls g cs) = run_calls (renI f g) (map (ren_call f) cs).
  Proof.
    induction cs as [|c r IH]; intros g Hg; [reflexivity|].
    cbn [map run_calls]. rewrite (renI_do_call g c Hg). cbn [fst].
    apply IH. unfold do_call. apply keys_norm_add. exact Hg.
  Qed.

  (** * 1. labels, grouping, hop distances *)
  Theorem renI_lab t n : lab (ren_tab f t) (f n) = lab t n.
  Proof. unfold lab, ren_tab. rewrite (zgetI f Hf). reflexivity. Qed.

  Theorem renI_group_by_last_alt ps : (forall p, In p ps -> p <> []) -> forall acc,
    group_by_last (map (ren_path f) ps) (map (ren_keyed f) acc) = map (ren_keyed f) (group_by_last ps acc).
  Proof.
    induction ps as [|p r IH]; intros Hne acc; [reflexivity|].
    cbn [map group_by_last].
    rewrite (ren_last_node_alt f p) by (apply Hne; left; reflexivity).
    unfold ren_keyed at 1 2.
    rewrite (aget_kvmap Z.eqb Z.eqb f (map (ren_path f)) (inj_eqb f Hf)).
    set (old := match aget Z.eqb (last_node p) acc with Some l => l | None => [] end).
    replace (match option_map (map (ren_path f)) (aget Z.eqb (last_node p) acc) with Some l => l | None => [] end
             ++ [ren_path f p])
      with (map (ren_path f) (old ++ [p]))
      by (unfold old; rewrite map_app; destruct (aget Z.eqb (last_node p) acc); reflexivity).
    rewrite (aset_kvmap Z.eqb Z.eqb f (map (ren_path f)) (inj_eqb f Hf)).
    apply (IH (fun q Hq => Hne q (or_intror Hq))).
  Qed.

  Theorem renI_t_distances_alt pt u ps : (forall p, In p ps -> p <> []) ->
    t_distances pt (f u) (map (ren_path f) ps)
    = map (fun wd => (f (fst wd), snd wd)) (t_distances pt u ps).
  Proof.
    intros Hne. unfold t_distances.
    change (@nil (Z * list path)) with (map (ren_keyed f) []) at 1.
    rewrite (renI_group_by_last_alt ps Hne []).
    apply flat_map_map_comm. intros [w l]. unfold ren_keyed. cbn [fst snd].
    rewrite (inj_eqb f Hf). destruct (w =? u); [reflexivity|].
    rewrite (renI_annotate_paths f Hf), ren_pick, ren_lengths.
    destruct (map path_length (pick pt (annotate_paths l))) as [|x r]; reflexivity.
  Qed.

  (** * 2. label_factor, label_frequency, node_score: syntactic equality of the rationals *)
  Theorem renI_label_factor g tab u nodes td : keys_norm g ->
    label_factor (renI f g) (ren_tab f tab) (f u) (map f nodes) (map (fun wd => (f (fst wd), snd wd)) td)
    = label_factor g tab u nodes td.
  Proof.
    intros Hg. unfold label_factor. cbv zeta.
    rewrite map_length, map_map, renI_lab.
    f_equal. f_equal. apply map_ext. intros v.
    rewrite renI_lab, (zgetI f Hf), (renI_neighbors f Hf) by exact Hg.
    destruct (neighbors g v (Some match aget Z.eqb v td with Some x => x | None => 0 end)) as [nb|];
      cbn [option_map]; [|reflexivity].
    rewrite (filter_map_comm f (fun x => lab tab x =? lab tab v)) by (intros x; rewrite renI_lab; reflexivity).
    rewrite !map_length. reflexivity.
  Qed.

  Theorem renI_label_frequency g tabs u nodes td : keys_norm g ->
    label_frequency (renI f g) (map (ren_tab f) tabs) (f u) (map f nodes) (map (fun wd => (f (fst wd), snd wd)) td)
    = label_frequency g tabs u nodes td.
  Proof.
    intros Hg. unfold label_frequency. generalize 1%Q.
    induction tabs as [|tab r IH]; intros acc; [reflexivity|].
    cbn [map fold_left]. rewrite (renI_label_factor g tab u nodes td Hg). apply IH.
  Qed.

  Lemma renI_raw g tabs alpha u td ranks : keys_norm g -> forall acc,
    fold_left (fun acc dn => let '(d, nodes) := dn in
                 if d =? 0 then acc
                 else (acc + label_frequency (renI f g) (map (ren_tab f) tabs) (f u) nodes
                               (map (fun wd => (f (fst wd), snd wd)) td) * weight alpha d)%Q)
              (map (ren_rank f) ranks) acc
    = fold_left (fun acc dn => let '(d, nodes) := dn in
                 if d =? 0 then acc else (acc + label_frequency g tabs u nodes td * weight alpha d)%Q)
              ranks acc.
  Proof.
    intros Hg. induction ranks as [|[d nodes] r IH]; intros acc; [reflexivity|].
    cbn [map fold_left ren_rank fst snd]. rewrite (renI_label_frequency g tabs u nodes td Hg). apply IH.
  Qed.

  Theorem renI_node_score g tabs alpha u td : keys_norm g ->
    node_score (renI f g) (map (ren_tab f) tabs) alpha (f u) (map (fun wd => (f (fst wd), snd wd)) td)
    = node_score g tabs alpha u td.
  Proof.
    intros Hg. unfold node_score. cbv zeta.
    rewrite ren_remap, ren_by_rank_nil, (renI_raw g tabs alpha u td _ Hg).
    assert (Hk : map fst (map (ren_rank f) (by_rank (remap td) [])) = map fst (by_rank (remap td) [])).
    { rewrite map_map. apply map_ext. intros dl. reflexivity. }
    rewrite Hk.
    destruct (by_rank (remap td) []) as [|r0 rr]; reflexivity.
  Qed.

  (** * 3. delta_conformity *)
  Theorem renI_delta_conformity g : keys_norm g -> forall start delta alphas tabs psize ptype,
    delta_conformity (renI f g) start delta alphas (map (ren_tab f) tabs) psize ptype
    = ren_conf f (delta_conformity g start delta alphas tabs psize ptype).
  Proof.
    intros Hg start delta alphas tabs psize ptype.
    unfold delta_conformity. cbv zeta. rewrite map_length.
    destruct ((length tabs <? psize)%nat || (length alphas =? 0)%nat || (length tabs =? 0)%nat); [reflexivity|].
    rewrite (renI_time_slice f Hf) by exact Hg.
    destruct (time_slice g start (Some (start + delta))) as [[gs|] tsr] eqn:Ets; cbn [fst snd option_map];
      [|reflexivity].
    pose proof (keys_norm_time_slice g start (Some (start + delta)) gs tsr Ets) as Hgs.
    rewrite (renI_snapshot_ids f gs Hgs).
    destruct (snapshot_ids gs) as [|i0 ids]; [reflexivity|].
    rewrite (renI_all_time_respecting_paths f Hf) by exact Hgs.
    destruct (all_time_respecting_paths gs (Some (Z.max start i0))
                (Some (Z.min (last (i0 :: ids) i0) (start + delta))) None) as [sp|] eqn:Esp;
      cbn [option_map]; [|reflexivity].
    cbn [ren_conf]. f_equal. rewrite map_map. apply map_ext. intros alpha. cbn [fst snd]. f_equal.
    rewrite profiles_map, !map_map. apply map_ext. intros prof.
    rewrite (renI_nodes_at f Hf) by exact Hgs. rewrite !map_map. apply map_ext. intros u. cbn [fst snd].
    rewrite (aget_kvmap Z.eqb Z.eqb f (map (ren_path f)) (inj_eqb f Hf)).
    destruct (aget Z.eqb u sp) as [ps|] eqn:Eu; cbn [option_map].
    - destruct (aget_Some_In u ps sp Eu) as [k Hk].
      rewrite (renI_t_distances_alt ptype u ps)
        by (intros p Hp; apply (atrp_nonempty _ _ _ _ _ _ _ _ Esp Hk Hp)).
      rewrite (renI_node_score gs prof alpha u _ Hgs). reflexivity.
    - change (t_distances ptype (f u) [])
        with (map (fun wd : Z * Z => (f (fst wd), snd wd)) (t_distances ptype u [])).
      rewrite (renI_node_score gs prof alpha u _ Hgs). reflexivity.
  Qed.

  (** * 4. sliding_delta_conformity *)
  Theorem renI_sliding_delta_conformity g : keys_norm g -> forall delta alphas tabs psize ptype,
    sliding_delta_conformity (renI f g) delta alphas (map (ren_tab f) tabs) psize ptype
    = map (fun tr => (fst tr, ren_conf f (snd tr))) (sliding_delta_conformity g delta alphas tabs psize ptype).
  Proof.
    intros Hg delta alphas tabs psize ptype.
    unfold sliding_delta_conformity. cbv zeta. rewrite (renI_snapshot_ids f g Hg).
    generalize (last (snapshot_ids g) 0). intros lastid.
    induction (snapshot_ids g) as [|t r IH]; [reflexivity|].
    cbn [flat_map]. rewrite map_app, IH. f_equal.
    destruct (t + delta <? lastid); [|reflexivity].
    cbn [map fst snd]. rewrite (renI_delta_conformity g Hg). reflexivity.
  Qed.

  (** * 5. on reachable graphs *)
  Corollary renI_delta_conformity_reach dir cs start delta alphas tabs psize ptype :
    let g := run_calls (G0 dir) cs in
    delta_conformity (renI f g) start delta alphas (map (ren_tab f) tabs) psize ptype
    = ren_conf f (delta_conformity g start delta alphas tabs psize ptype).
  Proof. intros g. apply renI_delta_conformity. apply keys_norm_reach. Qed.

  Corollary renI_sliding_delta_conformity_reach dir cs delta alphas tabs psize ptype :
    let g := run_calls (G0 dir) cs in
    sliding_delta_conformity (renI f g) delta alphas (map (ren_tab f) tabs) psize ptype
    = map (fun tr => (fst tr, ren_conf f (snd tr))) (sliding_delta_conformity g delta alphas tabs psize ptype).
  Proof. intros g. apply renI_sliding_delta_conformity. apply keys_norm_reach. Qed.

  (** the renamed reachable graph is the graph reached by the renamed calls *)
  Corollary renI_reach dir cs : renI f (run_calls (G0 dir) cs) = run_calls (G0 dir) (map (ren_call f) cs).
  Proof.
    rewrite (renI_run_calls cs (G0 dir) (keys_norm_empty dir true)).
    unfold G0. rewrite renI_empty. reflexivity.
  Qed.

  (** delta_conformity of the graph built by the renamed calls = the renamed result *)
  Corollary delta_conformity_renamed_calls dir cs start delta alphas tabs psize ptype :
    delta_conformity (run_calls (G0 dir) (map (ren_call f) cs)) start delta alphas (map (ren_tab f) tabs) psize ptype
    = ren_conf f (delta_conformity (run_calls (G0 dir) cs) start delta alphas tabs psize ptype).
  Proof. rewrite <- renI_reach. apply renI_delta_conformity_reach. Qed.

End RenameInjConf.

Print Assumptions renI_run_calls.
Print Assumptions renI_reach.
Print Assumptions renI_lab.
Print Assumptions renI_group_by_last_alt.
Print Assumptions renI_t_distances_alt.
Print Assumptions renI_label_factor.
Print Assumptions renI_label_frequency.
Print Assumptions renI_node_score.
Print Assumptions renI_delta_conformity.
Print Assumptions renI_sliding_delta_conformity.
Print Assumptions renI_delta_conformity_reach.
Print Assumptions renI_sliding_delta_conformity_reach.
Print Assumptions delta_conformity_renamed_calls.
