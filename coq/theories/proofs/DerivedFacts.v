(** DerivedFacts: presence theorems for the derived graphs (time_slice, to_undirected, to_directed). *)
From DynVerif Require Import Base Graph Derived Spec.
From DynVerif.proofs Require Import AListFacts CoreInv C01Facts C03Facts QueryFacts SliceFacts.
From Coq Require Import Sorting.Sorted Sorting.Permutation.

(** A source graph is "good" when it is removal-enabled, its timelines are canonical and its adjacency
    is well formed. *)
Definition Good (g : graph) : Prop :=
  g_rem g = true /\ (forall k, ocanon (aget peqb k (g_edges g))) /\ InvAdj g.

(** * 0. presence at an instant, as has_interaction computes it *)
Lemma hi_omem g u v tau : g_rem g = true -> ocanon (aget peqb (nk (g_dir g) u v) (g_edges g)) ->
  has_interaction g u v (Some tau) = omem tau (aget peqb (nk (g_dir g) u v) (g_edges g)).
Proof.
  intros Hr Hc. unfold has_interaction, key_present.
  destruct (aget peqb (nk (g_dir g) u v) (g_edges g)) as [tl|]; simpl; [|reflexivity].
  unfold presence_test. rewrite Hr. apply presence_mem. exact Hc.
Qed.

Lemma good_hi g u v tau : Good g -> has_interaction g u v (Some tau) = mem tau (timeline_of g u v).
Proof.
  intros (Hr & Hc & _). rewrite hi_omem by auto. unfold timeline_of.
  destruct (aget peqb (nk (g_dir g) u v) (g_edges g)) as [tl|]; simpl; [|reflexivity].
  unfold tl_chrono. symmetry. apply mem_rev.
Qed.

Lemma good_cc g u v : Good g -> canon_chrono (timeline_of g u v).
Proof.
  intros (_ & Hc & _). unfold timeline_of. specialize (Hc (nk (g_dir g) u v)).
  destruct (aget peqb (nk (g_dir g) u v) (g_edges g)) as [tl|]; simpl; [|exact I].
  unfold tl_chrono. apply canon_rev. exact Hc.
Qed.

Lemma hi_some_none g u v tau : has_interaction g u v (Some tau) = true -> has_interaction g u v None = true.
Proof. unfold has_interaction, key_present. destruct (aget peqb _ _); auto. Qed.

Lemma hi_key g u v u' v' t : nk (g_dir g) u v = nk (g_dir g) u' v' ->
  has_interaction g u v t = has_interaction g u' v' t.
Proof. unfold has_interaction. intros ->. reflexivity. Qed.

Lemma timeline_key g u v u' v' : nk (g_dir g) u v = nk (g_dir g) u' v' -> timeline_of g u v = timeline_of g u' v'.
Proof. unfold timeline_of. intros ->. reflexivity. Qed.

Lemma nk_false_inj u v u' v' : nk false u v = nk false u' v' -> (u, v) = (u', v') \/ (u, v) = (v', u').
Proof. unfold nk. destruct (u <=? v), (u' <=? v'); intros H; inversion H; auto. Qed.

(** * 1. the enumerated pairs *)
Definition epairs (g : graph) : list (Z * Z) :=
  if g_dir g then out_interactions g None None else interactions g None None.

Lemma flat_epairs g : flat_interactions g = map (fun p => (p, timeline_of g (fst p) (snd p))) (epairs g).
Proof. reflexivity. Qed.

Lemma epairs_sound g p : InvAdj g -> In p (epairs g) -> has_interaction g (fst p) (snd p) None = true.
Proof.
  intros HI. unfold epairs. destruct p as [x y]. simpl. destruct (g_dir g) eqn:Hd.
  - apply out_interactions_spec; assumption.
  - apply interactions_sound; assumption.
Qed.

Lemma epairs_complete g u v : InvAdj g -> has_interaction g u v None = true ->
  In (u, v) (epairs g) \/ (g_dir g = false /\ In (v, u) (epairs g)).
Proof.
  intros HI H. unfold epairs. destruct (g_dir g) eqn:Hd.
  - left. apply out_interactions_spec; assumption.
  - destruct (interactions_undirected_complete g u v None HI Hd H); auto.
Qed.

Lemma NoDup_map_inj_in {A B} (f : A -> B) (l : list A) :
  (forall x y, In x l -> In y l -> f x = f y -> x = y) -> NoDup l -> NoDup (map f l).
Proof.
  induction l as [|a r IH]; simpl; intros Hinj Hnd; [constructor|].
  inversion Hnd as [|? ? Hni Hr]; subst. constructor.
  - intros H. apply in_map_iff in H. destruct H as (x & Hx & Hin).
    apply Hinj in Hx; auto. subst. auto.
  - apply IH; auto.
Qed.

Lemma epairs_NoDup g : InvAdj g -> NoDup (map (fun p => nk (g_dir g) (fst p) (snd p)) (epairs g)).
Proof.
  intros HI. unfold epairs. destruct (g_dir g) eqn:Hd.
  - rewrite (map_ext _ (fun p => p)) by (intros [x y]; reflexivity). rewrite map_id.
    apply out_interactions_NoDup; assumption.
  - apply NoDup_map_inj_in; [|apply interactions_NoDup; assumption].
    intros [x y] [x' y'] Hx Hy E. simpl in E. apply nk_false_inj in E. destruct E as [E|E]; [assumption|].
    inversion E; subst. destruct (Z.eq_dec x' y') as [->|Hne]; [reflexivity|]. exfalso.
    apply (interactions_undirected_once g y' x' None HI Hd); auto.
Qed.

Lemma find_map {A B} (f : B -> bool) (f' : A -> bool) (g : A -> B) l :
  (forall x, f (g x) = f' x) -> find f (map g l) = option_map g (find f' l).
Proof.
  intros H. induction l as [|a r IH]; simpl; [reflexivity|]. rewrite H. destruct (f' a); auto.
Qed.

(** looking a query pair up among the enumerated pairs, by source key *)
Lemma epairs_lookup g (F : Z * Z -> list (Z * Z)) u v tau : InvAdj g ->
  (forall p q, nk (g_dir g) (fst p) (snd p) = nk (g_dir g) (fst q) (snd q) -> F p = F q) ->
  match find (fun e => peqb (nk (g_dir g) (fst (fst e)) (snd (fst e))) (nk (g_dir g) u v))
             (map (fun p => (p, F p)) (epairs g)) with
  | Some e => mem tau (snd e) | None => false end
  = has_interaction g u v None && mem tau (F (u, v)).
Proof.
  intros HI HF.
  rewrite (find_map _ (fun p => peqb (nk (g_dir g) (fst p) (snd p)) (nk (g_dir g) u v))) by reflexivity.
  destruct (find _ (epairs g)) as [p|] eqn:Hf; simpl.
  - apply find_some in Hf. destruct Hf as (Hin & Hk). apply peqb_eq in Hk.
    rewrite (HF p (u, v)) by exact Hk.
    rewrite <- (hi_key g (fst p) (snd p) u v None Hk). rewrite (epairs_sound g p HI Hin). reflexivity.
  - destruct (has_interaction g u v None) eqn:Hh; [|reflexivity]. exfalso.
    destruct (epairs_complete g u v HI Hh) as [Hin|(Hd & Hin)];
      apply (find_none _ _ Hf) in Hin; simpl in Hin; apply peqb_neq in Hin; apply Hin; [reflexivity|].
    rewrite Hd. apply nk_sym.
Qed.

(** * 2. nodes and adjacency through the folds *)
Lemma step_nodes g u v s e g' : add_interaction g u v (Some s) e = (g', Done) ->
  g_nodes g' = ensure_node v (ensure_node u (g_nodes g)).
Proof.
  unfold add_interaction. cbv zeta.
  set (k := nk (g_dir g) u v).
  set (f := match e with Some e' => if g_rem g then e' - 1 else s | None => s end).
  destruct (aget peqb k (g_edges g)) as [[[a b] older]|] eqn:Hget.
  - destruct (s <? a) eqn:E1; [intros H; inversion H|].
    destruct (f <? s) eqn:E2; [intros H; inversion H; subst; reflexivity|].
    destruct (b + 1 <? s) eqn:E3; [intros H; inversion H; subst; reflexivity|].
    destruct (b <? f) eqn:E4; intros H; inversion H; subst; reflexivity.
  - destruct (f <? s) eqn:E2; intros H; inversion H; subst; reflexivity.
Qed.

Lemma ensure_node_In_iff n x l : In n (map fst (ensure_node x l)) <-> In n (map fst l) \/ n = x.
Proof.
  rewrite ensure_node_keys. destruct (amem Z.eqb x l) eqn:E.
  - split; [auto|]. intros [H| ->]; [assumption|]. apply zamem_In. assumption.
  - rewrite in_app_iff. simpl. split; intros [H|H]; auto. destruct H as [H|[]]; auto.
Qed.

Lemma add_runs_nodes runs : forall h u v h', add_runs h u v runs = (h', Done) ->
  forall n, In n (node_ids h') <-> In n (node_ids h) \/ (runs <> [] /\ (n = u \/ n = v)).
Proof.
  induction runs as [|[s f] r IH]; intros h u v h' Hrun n; cbn [add_runs] in Hrun.
  - inversion Hrun; subst. split; [auto|]. intros [H|(H & _)]; [assumption|congruence].
  - destruct (add_interaction h u v (Some s) (Some (f + 1))) as [h1 o] eqn:Hs.
    destruct o; try discriminate.
    apply step_nodes in Hs. rewrite (IH _ _ _ _ Hrun n). unfold node_ids at 1. rewrite Hs.
    rewrite !ensure_node_In_iff. fold (node_ids h). split.
    + intros [[[H|H]|H]|(_ & H)]; auto; right; (split; [discriminate|]); tauto.
    + intros [H|(_ & [H|H])]; auto.
Qed.

Lemma add_all_nodes l : forall h h', add_all_runs h l = (h', Done) ->
  forall n, In n (node_ids h') <->
    In n (node_ids h) \/ exists e, In e l /\ snd e <> [] /\ (n = fst (fst e) \/ n = snd (fst e)).
Proof.
  induction l as [|[[u v] runs] rest IH]; intros h h' Hall n; cbn [add_all_runs] in Hall.
  - inversion Hall; subst. split; [auto|]. intros [H|(e & [] & _)]. assumption.
  - destruct (add_runs h u v runs) as [h1 o] eqn:Hr. destruct o; try discriminate.
    rewrite (IH _ _ Hall n). rewrite (add_runs_nodes _ _ _ _ _ Hr n). split.
    + intros [[H|(Hne & H)]|(e & He & Hne & H)]; auto.
      * right. exists ((u, v), runs). simpl. auto.
      * right. exists e. simpl. auto.
    + intros [H|(e & [<-|He] & Hne & H)]; auto.
      right. exists e. auto.
Qed.

Lemma InvAdj_add_runs runs : forall h u v h' o, InvAdj h -> add_runs h u v runs = (h', o) -> InvAdj h'.
Proof.
  induction runs as [|[s f] r IH]; intros h u v h' o HI Hrun; cbn [add_runs] in Hrun.
  - inversion Hrun; subst; assumption.
  - destruct (add_interaction h u v (Some s) (Some (f + 1))) as [h1 o1] eqn:Hs.
    pose proof (InvAdj_step _ _ _ _ _ _ _ HI Hs) as HI1.
    destruct o1; try (inversion Hrun; subst; assumption). eapply IH; eassumption.
Qed.

Lemma InvAdj_add_all l : forall h h' o, InvAdj h -> add_all_runs h l = (h', o) -> InvAdj h'.
Proof.
  induction l as [|[[u v] runs] rest IH]; intros h h' o HI Hall; cbn [add_all_runs] in Hall.
  - inversion Hall; subst; assumption.
  - destruct (add_runs h u v runs) as [h1 o1] eqn:Hr.
    pose proof (InvAdj_add_runs _ _ _ _ _ _ HI Hr) as HI1.
    destruct o1; try (inversion Hall; subst; assumption). eapply IH; eassumption.
Qed.

Lemma nonempty_mem l : l <> [] -> (forall r, In r l -> fst r <= snd r) -> exists tau, mem tau l = true.
Proof.
  destruct l as [|[s f] r]; [congruence|]. intros _ H. exists s.
  specialize (H (s, f) (or_introl eq_refl)). simpl in H. simpl. unfold in_itv; simpl.
  apply orb_true_iff. left. lia.
Qed.

Lemma mem_nonempty tau l : mem tau l = true -> l <> [].
Proof. destruct l; [discriminate|discriminate]. Qed.
