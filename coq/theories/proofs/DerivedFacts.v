(** DerivedFacts: presence theorems for the derived graphs (time_slice, to_undirected, to_directed). *)
From DynVerif Require Import Base Graph Derived Spec.
From DynVerif.proofs Require Import AListFacts CoreInv C01Facts C03Facts QueryFacts SliceFacts.
From Coq Require Import Sorting.Sorted Sorting.Permutation.

(** A source graph is "good" when it is removal-enabled, its timelines are canonical and its adjacency
    is well formed. *)
Definition Good (g : graph) : Prop :=
  g_rem g = true /\ (forall k, ocanon (aget peqb k (g_edges g))) /\ InvAdj g.

(** * 0. presence at an instant, as has_interaction computes it *)
Lemma hi_omem g u v tau : g_rem g = true -> ocanon (aget peqb (nk (g_dir g) u v) (g_edges g)) ->
  has_interaction g u v (Some tau) = omem tau (aget peqb (nk (g_dir g) u v) (g_edges g)).
Proof.
  intros Hr Hc. unfold has_interaction, key_present.
  destruct (aget peqb (nk (g_dir g) u v) (g_edges g)) as [tl|]; simpl; [|reflexivity].
  unfold presence_test. rewrite Hr. apply presence_mem. exact Hc.
Qed.

Lemma good_hi g u v tau : Good g -> has_interaction g u v (Some tau) = mem tau (timeline_of g u v).
Proof.
  intros (Hr & Hc & _). rewrite hi_omem by auto. unfold timeline_of.
  destruct (aget peqb (nk (g_dir g) u v) (g_edges g)) as [tl|]; simpl; [|reflexivity].
  unfold tl_chrono. symmetry. apply mem_rev.
Qed.

Lemma good_cc g u v : Good g -> canon_chrono (timeline_of g u v).
Proof.
  intros (_ & Hc & _). unfold timeline_of. specialize (Hc (nk (g_dir g) u v)).
  destruct (aget peqb (nk (g_dir g) u v) (g_edges g)) as [tl|]; simpl; [|exact I].
  unfold tl_chrono. apply canon_rev. exact Hc.
Qed.

Lemma hi_some_none g u v tau : has_interaction g u v (Some tau) = true -> has_interaction g u v None = true.
Proof. unfold has_interaction, key_present. destruct (aget peqb _ _); auto. Qed.

Lemma hi_key g u v u' v' t : nk (g_dir g) u v = nk (g_dir g) u' v' ->
  has_interaction g u v t = has_interaction g u' v' t.
Proof. unfold has_interaction. intros ->. reflexivity. Qed.

Lemma timeline_key g u v u' v' : nk (g_dir g) u v = nk (g_dir g) u' v' -> timeline_of g u v = timeline_of g u' v'.
Proof. unfold timeline_of. intros ->. reflexivity. Qed.

Lemma nk_false_inj u v u' v' : nk false u v = nk false u' v' -> (u, v) = (u', v') \/ (u, v) = (v', u').
Proof. unfold nk. destruct (u <=? v), (u' <=? v'); intros H; inversion H; auto. Qed.

(** * 1. the enumerated pairs *)
Definition epairs (g : graph) : list (Z * Z) :=
  if g_dir g then out_interactions g None None else interactions g None None.

Lemma flat_epairs g : flat_interactions g = map (fun p => (p, timeline_of g (fst p) (snd p))) (epairs g).
Proof. reflexivity. Qed.

Lemma epairs_sound g p : InvAdj g -> In p (epairs g) -> has_interaction g (fst p) (snd p) None = true.
Proof.
  intros HI. unfold epairs. destruct p as [x y]. simpl. destruct (g_dir g) eqn:Hd.
  - apply out_interactions_spec; assumption.
  - apply interactions_sound; assumption.
Qed.

Lemma epairs_complete g u v : InvAdj g -> has_interaction g u v None = true ->
  In (u, v) (epairs g) \/ (g_dir g = false /\ In (v, u) (epairs g)).
Proof.
  intros HI H. unfold epairs. destruct (g_dir g) eqn:Hd.
  - left. apply out_interactions_spec; assumption.
  - destruct (interactions_undirected_complete g u v None HI Hd H); auto.
Qed.

Lemma NoDup_map_inj_in {A B} (f : A -> B) (l : list A) :
  (forall x y, In x l -> In y l -> f x = f y -> x = y) -> NoDup l -> NoDup (map f l).
Proof.
  induction l as [|a r IH]; simpl; intros Hinj Hnd; [constructor|].
  inversion Hnd as [|? ? Hni Hr]; subst. constructor.
  - intros H. apply in_map_iff in H. destruct H as (x & Hx & Hin).
    apply Hinj in Hx; auto. subst. auto.
  - apply IH; auto.
Qed.

Lemma epairs_NoDup g : InvAdj g -> NoDup (map (fun p => nk (g_dir g) (fst p) (snd p)) (epairs g)).
Proof.
  intros HI. unfold epairs. destruct (g_dir g) eqn:Hd.
  - rewrite (map_ext _ (fun p => p)) by (intros [x y]; reflexivity). rewrite map_id.
    apply out_interactions_NoDup; assumption.
  - apply NoDup_map_inj_in; [|apply interactions_NoDup; assumption].
    intros [x y] [x' y'] Hx Hy E. simpl in E. apply nk_false_inj in E. destruct E as [E|E]; [assumption|].
    inversion E; subst. destruct (Z.eq_dec x' y') as [->|Hne]; [reflexivity|]. exfalso.
    apply (interactions_undirected_once g y' x' None HI Hd); auto.
Qed.

Lemma find_map {A B} (f : B -> bool) (f' : A -> bool) (g : A -> B) l :
  (forall x, f (g x) = f' x) -> find f (map g l) = option_map g (find f' l).
Proof.
  intros H. induction l as [|a r IH]; simpl; [reflexivity|]. rewrite H. destruct (f' a); auto.
Qed.

(** looking a query pair up among the enumerated pairs, by source key *)
Lemma epairs_lookup g (F : Z * Z -> list (Z * Z)) u v tau : InvAdj g ->
  (forall p q, nk (g_dir g) (fst p) (snd p) = nk (g_dir g) (fst q) (snd q) -> F p = F q) ->
  match find (fun e => peqb (nk (g_dir g) (fst (fst e)) (snd (fst e))) (nk (g_dir g) u v))
             (map (fun p => (p, F p)) (epairs g)) with
  | Some e => mem tau (snd e) | None => false end
  = has_interaction g u v None && mem tau (F (u, v)).
Proof.
  intros HI HF.
  rewrite (find_map _ (fun p => peqb (nk (g_dir g) (fst p) (snd p)) (nk (g_dir g) u v))) by reflexivity.
  destruct (find _ (epairs g)) as [p|] eqn:Hf; simpl.
  - apply find_some in Hf. destruct Hf as (Hin & Hk). apply peqb_eq in Hk.
    rewrite (HF p (u, v)) by exact Hk.
    rewrite <- (hi_key g (fst p) (snd p) u v None Hk). rewrite (epairs_sound g p HI Hin). reflexivity.
  - destruct (has_interaction g u v None) eqn:Hh; [|reflexivity]. exfalso.
    destruct (epairs_complete g u v HI Hh) as [Hin|(Hd & Hin)];
      apply (find_none _ _ Hf) in Hin; simpl in Hin; apply peqb_neq in Hin; apply Hin; [reflexivity|].
    rewrite Hd. apply nk_sym.
Qed.

(** * 2. nodes and adjacency through the folds *)
Lemma step_nodes g u v s e g' : add_interaction g u v (Some s) e = (g', Done) ->
  g_nodes g' = ensure_node v (ensure_node u (g_nodes g)).
Proof.
  unfold add_interaction. cbv zeta.
  set (k := nk (g_dir g) u v).
  set (f := match e with Some e' => if g_rem g then e' - 1 else s | None => s end).
  destruct (aget peqb k (g_edges g)) as [[[a b] older]|] eqn:Hget.
  - destruct (s <? a) eqn:E1; [intros H; inversion H|].
    destruct (f <? s) eqn:E2; [intros H; inversion H; subst; reflexivity|].
    destruct (b + 1 <? s) eqn:E3; [intros H; inversion H; subst; reflexivity|].
    destruct (b <? f) eqn:E4; intros H; inversion H; subst; reflexivity.
  - destruct (f <? s) eqn:E2; intros H; inversion H; subst; reflexivity.
Qed.

Lemma ensure_node_In_iff n x l : In n (map fst (ensure_node x l)) <-> In n (map fst l) \/ n = x.
Proof.
  rewrite ensure_node_keys. destruct (amem Z.eqb x l) eqn:E.
  - split; [auto|]. intros [H| ->]; [assumption|]. apply zamem_In. assumption.
  - rewrite in_app_iff. simpl. split; intros [H|H]; auto. destruct H as [H|[]]; auto.
Qed.

Lemma add_runs_nodes runs : forall h u v h', add_runs h u v runs = (h', Done) ->
  forall n, In n (node_ids h') <-> In n (node_ids h) \/ (runs <> [] /\ (n = u \/ n = v)).
Proof.
  induction runs as [|[s f] r IH]; intros h u v h' Hrun n; cbn [add_runs] in Hrun.
  - inversion Hrun; subst. split; [auto|]. intros [H|(H & _)]; [assumption|congruence].
  - destruct (add_interaction h u v (Some s) (Some (f + 1))) as [h1 o] eqn:Hs.
    destruct o; try discriminate.
    apply step_nodes in Hs. rewrite (IH _ _ _ _ Hrun n). unfold node_ids at 1. rewrite Hs.
    rewrite !ensure_node_In_iff. fold (node_ids h). split.
    + intros [[[H|H]|H]|(_ & H)]; auto; right; (split; [discriminate|]); tauto.
    + intros [H|(_ & [H|H])]; auto.
Qed.

Lemma add_all_nodes l : forall h h', add_all_runs h l = (h', Done) ->
  forall n, In n (node_ids h') <->
    In n (node_ids h) \/ exists e, In e l /\ snd e <> [] /\ (n = fst (fst e) \/ n = snd (fst e)).
Proof.
  induction l as [|[[u v] runs] rest IH]; intros h h' Hall n; cbn [add_all_runs] in Hall.
  - inversion Hall; subst. split; [auto|]. intros [H|(e & [] & _)]. assumption.
  - destruct (add_runs h u v runs) as [h1 o] eqn:Hr. destruct o; try discriminate.
    rewrite (IH _ _ Hall n). rewrite (add_runs_nodes _ _ _ _ _ Hr n). split.
    + intros [[H|(Hne & H)]|(e & He & Hne & H)]; auto.
      * right. exists ((u, v), runs). simpl. auto.
      * right. exists e. simpl. auto.
    + intros [H|(e & [<-|He] & Hne & H)]; auto.
      right. exists e. auto.
Qed.

Lemma InvAdj_add_runs runs : forall h u v h' o, InvAdj h -> add_runs h u v runs = (h', o) -> InvAdj h'.
Proof.
  induction runs as [|[s f] r IH]; intros h u v h' o HI Hrun; cbn [add_runs] in Hrun.
  - inversion Hrun; subst; assumption.
  - destruct (add_interaction h u v (Some s) (Some (f + 1))) as [h1 o1] eqn:Hs.
    pose proof (InvAdj_step _ _ _ _ _ _ _ HI Hs) as HI1.
    destruct o1; try (inversion Hrun; subst; assumption). eapply IH; eassumption.
Qed.

Lemma InvAdj_add_all l : forall h h' o, InvAdj h -> add_all_runs h l = (h', o) -> InvAdj h'.
Proof.
  induction l as [|[[u v] runs] rest IH]; intros h h' o HI Hall; cbn [add_all_runs] in Hall.
  - inversion Hall; subst; assumption.
  - destruct (add_runs h u v runs) as [h1 o1] eqn:Hr.
    pose proof (InvAdj_add_runs _ _ _ _ _ _ HI Hr) as HI1.
    destruct o1; try (inversion Hall; subst; assumption). eapply IH; eassumption.
Qed.

Lemma nonempty_mem l : l <> [] -> (forall r, In r l -> fst r <= snd r) -> exists tau, mem tau l = true.
Proof.
  destruct l as [|[s f] r]; [congruence|]. intros _ H. exists s.
  specialize (H (s, f) (or_introl eq_refl)). simpl in H. simpl. unfold in_itv; simpl.
  apply orb_true_iff. left. lia.
Qed.

Lemma mem_nonempty tau l : mem tau l = true -> l <> [].
Proof. destruct l; [discriminate|discriminate]. Qed.

(** * 3. time_slice (C06) *)
Definition sliceL (g : graph) (a b : Z) : list ((Z * Z) * list (Z * Z)) :=
  map (fun pr => (fst pr, filter_map (clip a b) (snd pr))) (flat_interactions g).
Definition sliceF (g : graph) (a b : Z) (p : Z * Z) : list (Z * Z) :=
  filter_map (clip a b) (timeline_of g (fst p) (snd p)).

Lemma sliceL_eq g a b : sliceL g a b = map (fun p => (p, sliceF g a b p)) (epairs g).
Proof. unfold sliceL. rewrite flat_epairs, map_map. reflexivity. Qed.

Lemma time_slice_eq g a b : a <= b -> time_slice g a (Some b) =
  match add_all_runs (empty_graph (g_dir g) true) (sliceL g a b) with
  | (h, Done) => (Some (copy_attrs g h), Done)
  | (h, o) => (None, o)
  end.
Proof. intros H. unfold time_slice. destruct (b <? a) eqn:E; [lia|]. reflexivity. Qed.

Lemma sliceF_mem g a b u v tau : Good g -> a <= b ->
  mem tau (sliceF g a b (u, v)) = (a <=? tau) && (tau <=? b) && has_interaction g u v (Some tau).
Proof.
  intros HG Hab. unfold sliceF. simpl. rewrite clip_list_mem by (auto using good_cc).
  rewrite good_hi by assumption. reflexivity.
Qed.

Lemma sliceF_cc g a b p : Good g -> a <= b -> canon_chrono (sliceF g a b p).
Proof. intros HG Hab. unfold sliceF. apply clip_list_canon; [assumption|]. apply good_cc. assumption. Qed.

Lemma slice_core g a b : Good g -> a <= b ->
  exists h, add_all_runs (empty_graph (g_dir g) true) (sliceL g a b) = (h, Done) /\
    g_dir h = g_dir g /\ g_rem h = true /\
    (forall k, ocanon (aget peqb k (g_edges h))) /\
    (forall u v tau, omem tau (aget peqb (nk (g_dir g) u v) (g_edges h)) =
                     (a <=? tau) && (tau <=? b) && has_interaction g u v (Some tau)) /\
    InvAdj h /\
    (forall n, In n (node_ids h) <->
       exists v tau, a <= tau <= b /\
         (has_interaction g n v (Some tau) = true \/ has_interaction g v n (Some tau) = true)).
Proof.
  intros HG Hab. pose proof HG as (Hr & Hc & HI).
  destruct (add_all_runs_fresh (sliceL g a b) (empty_graph (g_dir g) true))
    as (h & Hall & Hd & Hrem & Hcan & Hmem).
  - reflexivity.
  - rewrite sliceL_eq, map_map. exact (epairs_NoDup g HI).
  - intros e He. rewrite sliceL_eq in He. apply in_map_iff in He. destruct He as (p & <- & Hp). simpl.
    apply canon_chrono_sorted. apply sliceF_cc; assumption.
  - intros e _. reflexivity.
  - exists h. split; [exact Hall|]. split; [exact Hd|]. split; [exact Hrem|].
    split; [|split; [|split]].
    + intros k. apply Hcan. exact I.
    + intros u v tau. rewrite Hmem.
      change (g_dir (empty_graph (g_dir g) true)) with (g_dir g).
      change (omem tau (aget peqb (nk (g_dir g) u v) (g_edges (empty_graph (g_dir g) true)))) with false.
      rewrite sliceL_eq. rewrite (epairs_lookup g (sliceF g a b) u v tau HI).
      * rewrite sliceF_mem by assumption.
        destruct (has_interaction g u v (Some tau)) eqn:Hh.
        -- rewrite (hi_some_none _ _ _ _ Hh). reflexivity.
        -- rewrite !andb_false_r. reflexivity.
      * intros p q E. unfold sliceF. rewrite (timeline_key g _ _ _ _ E). reflexivity.
    + eapply InvAdj_add_all; [apply InvAdj_init|exact Hall].
    + intros n. rewrite (add_all_nodes _ _ _ Hall n). split.
      * intros [[]|(e & He & Hne & Hn)]. rewrite sliceL_eq in He. apply in_map_iff in He.
        destruct He as ([x y] & <- & Hp). simpl in Hne, Hn.
        destruct (nonempty_mem _ Hne) as (tau & Ht).
        { apply cc_nonempty. apply sliceF_cc; assumption. }
        rewrite sliceF_mem in Ht by assumption.
        apply andb_true_iff in Ht. destruct Ht as (Hw & Hh).
        destruct Hn as [-> | ->]; [exists y, tau|exists x, tau]; (split; [lia|auto]).
      * intros (v & tau & Hw & Hh). right.
        assert (Hex : exists p, In p (epairs g) /\ has_interaction g (fst p) (snd p) (Some tau) = true /\
                                (n = fst p \/ n = snd p)).
        { destruct Hh as [Hh|Hh];
            destruct (epairs_complete g _ _ HI (hi_some_none _ _ _ _ Hh)) as [Hin|(Hd0 & Hin)].
          - exists (n, v). simpl. auto.
          - exists (v, n). simpl. split; [assumption|]. split; [|auto].
            rewrite has_interaction_sym; assumption.
          - exists (v, n). simpl. auto.
          - exists (n, v). simpl. split; [assumption|]. split; [|auto].
            rewrite has_interaction_sym; assumption. }
        destruct Hex as ([x y] & Hp & Hhp & Hn). exists ((x, y), sliceF g a b (x, y)).
        split; [rewrite sliceL_eq; apply in_map_iff; exists (x, y); auto|].
        split; [|exact Hn]. simpl. apply (mem_nonempty tau).
        rewrite sliceF_mem by assumption. simpl in Hhp. rewrite Hhp. lia.
Qed.

Lemma slice_inv g a b H : Good g -> a <= b -> time_slice g a (Some b) = (Some H, Done) ->
  exists h, H = copy_attrs g h /\
    g_dir h = g_dir g /\ g_rem h = true /\
    (forall k, ocanon (aget peqb k (g_edges h))) /\
    (forall u v tau, omem tau (aget peqb (nk (g_dir g) u v) (g_edges h)) =
                     (a <=? tau) && (tau <=? b) && has_interaction g u v (Some tau)) /\
    InvAdj h /\
    (forall n, In n (node_ids h) <->
       exists v tau, a <= tau <= b /\
         (has_interaction g n v (Some tau) = true \/ has_interaction g v n (Some tau) = true)).
Proof.
  intros HG Hab E. destruct (slice_core g a b HG Hab) as (h & Hall & Hrest).
  rewrite time_slice_eq, Hall in E by assumption. inversion E; subst. exists h. split; [reflexivity|exact Hrest].
Qed.

Theorem slice_invalid g a b : b < a -> time_slice g a (Some b) = (None, EValue).
Proof. intros H. unfold time_slice. destruct (b <? a) eqn:E; [reflexivity|lia]. Qed.

Theorem slice_default g a : time_slice g a None = time_slice g a (Some a).
Proof. reflexivity. Qed.

Theorem slice_ok g a b : Good g -> a <= b -> exists H, time_slice g a (Some b) = (Some H, Done).
Proof.
  intros HG Hab. destruct (slice_core g a b HG Hab) as (h & Hall & _).
  rewrite time_slice_eq, Hall by assumption. eexists. reflexivity.
Qed.

Theorem slice_presence g a b H u v tau : Good g -> a <= b -> time_slice g a (Some b) = (Some H, Done) ->
  g_dir H = g_dir g /\ g_rem H = true /\
  has_interaction H u v (Some tau) = (a <=? tau) && (tau <=? b) && has_interaction g u v (Some tau).
Proof.
  intros HG Hab E. destruct (slice_inv g a b H HG Hab E) as (h & -> & Hd & Hr & Hc & Hm & _).
  split; [exact Hd|]. split; [exact Hr|].
  rewrite hi_omem; [|exact Hr|apply Hc].
  change (g_edges (copy_attrs g h)) with (g_edges h). change (g_dir (copy_attrs g h)) with (g_dir h).
  rewrite Hd. apply Hm.
Qed.

Lemma copy_attrs_ids g h : node_ids (copy_attrs g h) = node_ids h.
Proof. unfold node_ids, copy_attrs. simpl. rewrite map_map. reflexivity. Qed.

(** the slice is again a good graph, so slices compose at the level of presence *)
Theorem slice_good g a b H : Good g -> a <= b -> time_slice g a (Some b) = (Some H, Done) -> Good H.
Proof.
  intros HG Hab E. destruct (slice_inv g a b H HG Hab E) as (h & -> & Hd & Hr & Hc & _ & HI & _).
  split; [exact Hr|]. split; [exact Hc|].
  destruct HI as (H1 & H2 & H3 & H4). unfold InvAdj. rewrite copy_attrs_ids.
  repeat split; auto; apply H3 in H; tauto.
Qed.

Corollary slice_compose g a b c d H1 H2 H3 u v tau : Good g -> a <= b -> c <= d -> Z.max a c <= Z.min b d ->
  time_slice g a (Some b) = (Some H1, Done) -> time_slice H1 c (Some d) = (Some H2, Done) ->
  time_slice g (Z.max a c) (Some (Z.min b d)) = (Some H3, Done) ->
  has_interaction H2 u v (Some tau) = has_interaction H3 u v (Some tau).
Proof.
  intros HG Hab Hcd Hm E1 E2 E3.
  destruct (slice_presence g a b H1 u v tau HG Hab E1) as (_ & _ & P1).
  pose proof (slice_good g a b H1 HG Hab E1) as HG1.
  destruct (slice_presence H1 c d H2 u v tau HG1 Hcd E2) as (_ & _ & P2).
  destruct (slice_presence g _ _ H3 u v tau HG Hm E3) as (_ & _ & P3).
  rewrite P2, P1, P3. destruct (has_interaction g u v (Some tau)); lia.
Qed.

Lemma aget_map_attr (F : Z -> Z) n (l : list (Z * Z)) :
  aget Z.eqb n (map (fun na => (fst na, F (fst na))) l) = if amem Z.eqb n l then Some (F n) else None.
Proof.
  unfold amem. induction l as [|[k x] r IH]; simpl; [reflexivity|].
  destruct (n =? k) eqn:E; [|exact IH]. assert (n = k) by lia. subst. reflexivity.
Qed.

(** nodes of the slice: exactly the endpoints of the pairs present somewhere in the window, with the
    source's attributes *)
Theorem slice_nodes g a b H n : Good g -> a <= b -> time_slice g a (Some b) = (Some H, Done) ->
  (In n (node_ids H) <-> exists v tau, a <= tau <= b /\ (has_interaction g n v (Some tau) = true \/ has_interaction g v n (Some tau) = true)) /\
  (forall x, aget Z.eqb n (g_nodes H) = Some x -> aget Z.eqb n (g_nodes g) = Some x).
Proof.
  intros HG Hab E. destruct (slice_inv g a b H HG Hab E) as (h & -> & _ & _ & _ & _ & _ & Hn).
  split; [rewrite copy_attrs_ids; apply Hn|].
  intros x Hx. unfold copy_attrs in Hx. simpl in Hx.
  rewrite (aget_map_attr (fun i => match aget Z.eqb i (g_nodes g) with Some a0 => a0 | None => 0 end)) in Hx.
  destruct (amem Z.eqb n (g_nodes h)) eqn:Em; [|discriminate].
  apply zamem_In in Em. apply (Hn n) in Em. destruct Em as (v & tau & _ & Hh).
  assert (Hin : In n (node_ids g)).
  { destruct HG as (_ & _ & HI). destruct Hh as [Hh|Hh]; apply (has_interaction_nodes _ _ _ _ HI) in Hh; tauto. }
  apply zamem_In in Hin. unfold amem in Hin.
  destruct (aget Z.eqb n (g_nodes g)) as [y|]; [|discriminate]. exact Hx.
Qed.

(** * 4. to_directed (C16) *)
Definition h0_of (dir : bool) (g : graph) : graph :=
  with_nodes (empty_graph dir true) (map (fun na => (fst na, 0)) (g_nodes g)).

Lemma epairs_NoDup_raw g : InvAdj g -> NoDup (epairs g).
Proof.
  intros HI. unfold epairs. destruct (g_dir g).
  - apply out_interactions_NoDup; assumption.
  - apply interactions_NoDup; assumption.
Qed.

Lemma flat_sorted g e : Good g -> In e (flat_interactions g) ->
  starts_sorted (snd e) /\ (forall r, In r (snd e) -> fst r <= snd r).
Proof.
  intros HG He. rewrite flat_epairs in He. apply in_map_iff in He. destruct He as (p & <- & _). simpl.
  apply canon_chrono_sorted. apply good_cc. assumption.
Qed.

Lemma directed_core g : Good g -> g_dir g = false ->
  exists h, add_all_runs (h0_of true g) (flat_interactions g) = (h, Done) /\
    g_dir h = true /\ g_rem h = true /\
    (forall k, ocanon (aget peqb k (g_edges h))) /\
    (forall u v tau, omem tau (aget peqb (u, v) (g_edges h)) =
       match find (fun p => peqb p (u, v)) (epairs g) with
       | Some _ => has_interaction g u v (Some tau)
       | None => false
       end).
Proof.
  intros HG Hdir. pose proof HG as (Hr & Hc & HI).
  destruct (add_all_runs_fresh (flat_interactions g) (h0_of true g))
    as (h & Hall & Hd & Hrem & Hcan & Hmem).
  - reflexivity.
  - rewrite flat_epairs, map_map.
    rewrite (map_ext _ (fun p => p)) by (intros [x y]; reflexivity). rewrite map_id.
    apply epairs_NoDup_raw. assumption.
  - intros e He. apply (flat_sorted g); assumption.
  - intros e _. reflexivity.
  - exists h. split; [exact Hall|]. split; [exact Hd|]. split; [exact Hrem|]. split.
    + intros k. apply Hcan. exact I.
    + intros u v tau. rewrite Hmem.
      change (omem tau (aget peqb (u, v) (g_edges (h0_of true g)))) with false.
      rewrite flat_epairs.
      rewrite (find_map _ (fun p => peqb p (u, v))) by (intros [x y]; reflexivity).
      destruct (find (fun p => peqb p (u, v)) (epairs g)) as [p|] eqn:Hf; simpl; [|reflexivity].
      apply find_some in Hf. destruct Hf as (_ & Hk). apply peqb_eq in Hk. subst p. simpl.
      symmetry. apply good_hi. assumption.
Qed.

Theorem directed_ok g : Good g -> g_dir g = false -> exists H, to_directed g = (Some H, Done).
Proof.
  intros HG Hd. destruct (directed_core g HG Hd) as (h & Hall & _).
  unfold to_directed. fold (h0_of true g). rewrite Hall. eexists. reflexivity.
Qed.

Lemma find_in_some (l : list (Z * Z)) p : In p l -> find (fun q => peqb q p) l <> None.
Proof.
  intros Hin Hf. apply (find_none _ _ Hf) in Hin. simpl in Hin. rewrite peqb_refl in Hin. discriminate.
Qed.

Theorem directed_presence_partial g H u v tau : Good g -> g_dir g = false -> to_directed g = (Some H, Done) ->
  g_dir H = true /\ g_nodes H = g_nodes g /\ g_attr H = g_attr g /\
  (has_interaction H u v (Some tau) = true -> has_interaction g u v (Some tau) = true) /\
  (has_interaction g u v (Some tau) = true -> has_interaction H u v (Some tau) = true \/ has_interaction H v u (Some tau) = true).
Proof.
  intros HG Hdir E. destruct (directed_core g HG Hdir) as (h & Hall & Hd & Hr & Hc & Hm).
  unfold to_directed in E. fold (h0_of true g) in E. rewrite Hall in E. inversion E; subst H. clear E.
  assert (Hhi : forall x y, has_interaction (with_all_nodes h g) x y (Some tau) =
                            omem tau (aget peqb (x, y) (g_edges h))).
  { intros x y. rewrite hi_omem; [|exact Hr|apply Hc].
    change (g_dir (with_all_nodes h g)) with (g_dir h). rewrite Hd. reflexivity. }
  split; [exact Hd|]. split; [reflexivity|]. split; [reflexivity|]. split.
  - rewrite Hhi, Hm. destruct (find _ (epairs g)); [auto|discriminate].
  - intros Hg. destruct HG as (_ & _ & HI).
    destruct (epairs_complete g u v HI (hi_some_none _ _ _ _ Hg)) as [Hin|(_ & Hin)].
    + left. rewrite Hhi, Hm. pose proof (find_in_some _ _ Hin) as Hf.
      destruct (find _ (epairs g)); [assumption|congruence].
    + right. rewrite Hhi, Hm. pose proof (find_in_some _ _ Hin) as Hf.
      destruct (find _ (epairs g)); [|congruence]. rewrite has_interaction_sym; assumption.
Qed.

(** * 5. to_undirected, non-reciprocal (C16) *)
Definition nkk (k : Z * Z) : Z * Z := nk false (fst k) (snd k).
Definition KD {V} (acc : list ((Z * Z) * V)) : Prop := NoDup (map nkk (akeys acc)).
Definition lookS (acc : list ((Z * Z) * list (Z * Z))) (k : Z * Z) (tau : Z) : bool :=
  match find (fun e => peqb (nkk (fst e)) k) acc with Some e => mem tau (snd e) | None => false end.
Definition NE (l : list ((Z * Z) * list (Z * Z))) : Prop :=
  forall e, In e l -> forall r, In r (snd e) -> fst r <= snd r.

Lemma mem_app tau l1 l2 : mem tau (l1 ++ l2) = mem tau l1 || mem tau l2.
Proof. unfold mem. apply existsb_app. Qed.

Lemma find_KD {V} (acc : list ((Z * Z) * V)) k e : KD acc -> In e acc -> nkk (fst e) = k ->
  find (fun e => peqb (nkk (fst e)) k) acc = Some e.
Proof.
  unfold KD. induction acc as [|x rest IH]; simpl; intros Hnd Hin Hk; [destruct Hin|].
  inversion Hnd as [|? ? Hni Hr]; subst.
  destruct Hin as [->|Hin]; [rewrite peqb_refl; reflexivity|].
  destruct (peqb (nkk (fst x)) (nkk (fst e))) eqn:E; [|apply IH; auto].
  apply peqb_eq in E. exfalso. apply Hni. rewrite E. apply in_map. unfold akeys. apply in_map. assumption.
Qed.

Lemma find_aset_other {V} k0 k (new : V) acc : peqb (nkk k0) k = false ->
  find (fun e => peqb (nkk (fst e)) k) (aset peqb k0 new acc) = find (fun e => peqb (nkk (fst e)) k) acc.
Proof.
  intros H. induction acc as [|[k' v'] rest IH]; simpl.
  - rewrite H. reflexivity.
  - destruct (peqb k0 k') eqn:E; simpl.
    + apply peqb_eq in E. subst k'. rewrite H. reflexivity.
    + rewrite IH. reflexivity.
Qed.

Lemma aset_absent {V} k0 (new : V) acc : aget peqb k0 acc = None -> aset peqb k0 new acc = acc ++ [(k0, new)].
Proof.
  induction acc as [|[k' v'] rest IH]; simpl; [reflexivity|].
  destruct (peqb k0 k'); [discriminate|]. intros H. rewrite IH by assumption. reflexivity.
Qed.

Lemma aset_In {V} k0 (new : V) acc : In (k0, new) (aset peqb k0 new acc).
Proof.
  induction acc as [|[k' v'] rest IH]; simpl; [auto|].
  destruct (peqb k0 k') eqn:E; simpl; [|auto]. apply peqb_eq in E. subst. auto.
Qed.

Lemma aset_In_inv {V} k0 (new : V) acc e : In e (aset peqb k0 new acc) -> In e acc \/ snd e = new.
Proof.
  induction acc as [|[k' v'] rest IH]; simpl.
  - intros [<-|[]]. auto.
  - destruct (peqb k0 k'); simpl.
    + intros [<-|H]; auto.
    + intros [<-|H]; auto. destruct (IH H); auto.
Qed.

(** one step of collect_spans *)
Lemma collect_step acc k0 runs :
  KD acc -> (aget peqb k0 acc = None -> ~ In (nkk k0) (map nkk (akeys acc))) ->
  let old := match aget peqb k0 acc with Some x => x | None => [] end in
  let acc' := aset peqb k0 (old ++ runs) acc in
  KD acc' /\ forall k tau, lookS acc' k tau = lookS acc k tau || (peqb (nkk k0) k && mem tau runs).
Proof.
  intros HK Hfresh old acc'.
  assert (HK' : KD acc').
  { unfold acc', KD. destruct (aget peqb k0 acc) as [x|] eqn:Hg.
    - rewrite akeys_aset_in by congruence. exact HK.
    - rewrite aset_absent by assumption. unfold akeys. rewrite map_app, map_app. simpl.
      apply NoDup_snoc; [exact HK|]. apply Hfresh. reflexivity. }
  split; [exact HK'|]. intros k tau. unfold lookS.
  destruct (peqb (nkk k0) k) eqn:E.
  - apply peqb_eq in E. subst k.
    rewrite (find_KD acc' (nkk k0) (k0, old ++ runs) HK' (aset_In _ _ _) eq_refl). simpl.
    rewrite mem_app. f_equal. unfold old. destruct (aget peqb k0 acc) as [x|] eqn:Hg.
    + rewrite (find_KD acc (nkk k0) (k0, x) HK (aget_Some_in _ _ _ Hg) eq_refl). reflexivity.
    + rewrite (find_key_none (fun e : (Z * Z) * list (Z * Z) => nkk (fst e)) (nkk k0) acc); [reflexivity|].
      specialize (Hfresh eq_refl). unfold akeys in Hfresh. rewrite map_map in Hfresh. exact Hfresh.
  - unfold acc'. rewrite find_aset_other by assumption. rewrite orb_false_r. reflexivity.
Qed.

Lemma collect_inv l : forall acc, KD acc ->
  KD (collect_spans l acc) /\
  forall k tau, lookS (collect_spans l acc) k tau =
    lookS acc k tau || existsb (fun e => peqb (nkk (fst e)) k && mem tau (snd e)) l.
Proof.
  induction l as [|[[u v] runs] rest IH]; intros acc HK; cbn [collect_spans].
  - split; [exact HK|]. intros k tau. simpl. rewrite orb_false_r. reflexivity.
  - set (k0 := if amem peqb (v, u) acc then (v, u) else (u, v)).
    assert (Hk0 : nkk k0 = nk false u v).
    { unfold k0. destruct (amem peqb (v, u) acc); unfold nkk; simpl; [apply nk_sym|reflexivity]. }
    destruct (collect_step acc k0 runs HK) as (HK' & Hl).
    { intros Hnone Hin. apply in_map_iff in Hin. destruct Hin as ([x y] & Hxy & Hin).
      rewrite Hk0 in Hxy. unfold nkk in Hxy. simpl in Hxy.
      unfold k0 in Hnone. unfold amem in Hnone.
      destruct (aget peqb (v, u) acc) eqn:Hvu; simpl in Hnone; [congruence|].
      apply nk_false_inj in Hxy. destruct Hxy as [Hxy|Hxy]; inversion Hxy; subst.
      - apply aget_None_notin in Hnone. contradiction.
      - apply aget_None_notin in Hvu. contradiction. }
    destruct (IH _ HK') as (HK'' & Hl'). split; [exact HK''|].
    intros k tau. rewrite Hl', Hl. simpl. rewrite Hk0. unfold nkk at 3. simpl. rewrite orb_assoc. reflexivity.
Qed.

Lemma collect_ne l : forall acc, NE acc -> NE l -> NE (collect_spans l acc).
Proof.
  induction l as [|[[u v] runs] rest IH]; intros acc Ha Hl; cbn [collect_spans]; [exact Ha|].
  apply IH; [|intros e He; apply Hl; right; assumption].
  set (k0 := if amem peqb (v, u) acc then (v, u) else (u, v)).
  intros e He r Hr. apply aset_In_inv in He. destruct He as [He|He]; [apply (Ha e He r Hr)|].
  rewrite He in Hr. apply in_app_or in Hr. destruct Hr as [Hr|Hr].
  - destruct (aget peqb k0 acc) as [x|] eqn:Hg; [|destruct Hr].
    apply aget_Some_in in Hg. apply (Ha _ Hg r Hr).
  - apply (Hl ((u, v), runs) (or_introl eq_refl) r Hr).
Qed.

Lemma flat_NE g : Good g -> NE (flat_interactions g).
Proof. intros HG e He. apply (flat_sorted g e HG He). Qed.

(** the union over the enumerated directed pairs with the given unordered key *)
Lemma flat_union g u v tau : Good g -> g_dir g = true ->
  existsb (fun e => peqb (nkk (fst e)) (nk false u v) && mem tau (snd e)) (flat_interactions g)
  = has_interaction g u v (Some tau) || has_interaction g v u (Some tau).
Proof.
  intros HG Hdir. pose proof HG as (_ & _ & HI). apply eq_iff_eq_true.
  rewrite existsb_exists, orb_true_iff. split.
  - intros (e & He & Hp). rewrite flat_epairs in He. apply in_map_iff in He.
    destruct He as ([x y] & <- & Hin). simpl in Hp. apply andb_true_iff in Hp. destruct Hp as (Hk & Hm).
    apply peqb_eq in Hk. unfold nkk in Hk. simpl in Hk. rewrite <- good_hi in Hm by assumption.
    apply nk_false_inj in Hk. destruct Hk as [Hk|Hk]; inversion Hk; subst; auto.
  - assert (Hone : forall x y, has_interaction g x y (Some tau) = true -> nk false x y = nk false u v ->
              exists e, In e (flat_interactions g) /\
                        peqb (nkk (fst e)) (nk false u v) && mem tau (snd e) = true).
    { intros x y Hh Hk. exists ((x, y), timeline_of g x y). split.
      - rewrite flat_epairs. apply in_map_iff. exists (x, y). split; [reflexivity|].
        unfold epairs. rewrite Hdir. apply out_interactions_spec; [assumption|].
        eapply hi_some_none; eassumption.
      - cbn [fst snd]. unfold nkk. cbn [fst snd]. rewrite Hk, peqb_refl. rewrite <- good_hi by assumption. rewrite Hh. reflexivity. }
    intros [Hh|Hh]; [apply (Hone u v Hh eq_refl)|apply (Hone v u Hh (nk_sym v u))].
Qed.

Lemma undirected_core g : Good g -> g_dir g = true ->
  exists h, add_all_runs (h0_of false g)
              (map (fun kr => (fst kr, sort_runs (snd kr))) (collect_spans (flat_interactions g) [])) = (h, Done) /\
    g_dir h = false /\ g_rem h = true /\
    (forall k, ocanon (aget peqb k (g_edges h))) /\
    (forall u v tau, omem tau (aget peqb (nk false u v) (g_edges h)) =
       has_interaction g u v (Some tau) || has_interaction g v u (Some tau)).
Proof.
  intros HG Hdir.
  set (R := collect_spans (flat_interactions g) []).
  assert (HK0 : KD (@nil ((Z * Z) * list (Z * Z)))) by constructor.
  destruct (collect_inv (flat_interactions g) [] HK0) as (HKR & HlR). fold R in HKR, HlR.
  assert (HNE : NE R).
  { apply collect_ne; [intros e []|apply flat_NE; assumption]. }
  destruct (add_all_runs_fresh (map (fun kr => (fst kr, sort_runs (snd kr))) R) (h0_of false g))
    as (h & Hall & Hd & Hrem & Hcan & Hmem).
  - reflexivity.
  - rewrite map_map. unfold KD, akeys in HKR. rewrite map_map in HKR. exact HKR.
  - intros e He. apply in_map_iff in He. destruct He as (kr & <- & Hkr). simpl.
    split; [apply sort_runs_sorted|]. intros r Hr.
    apply (Permutation_in _ (sort_runs_perm (snd kr))) in Hr. apply (HNE kr Hkr r Hr).
  - intros e _. reflexivity.
  - exists h. split; [exact Hall|]. split; [exact Hd|]. split; [exact Hrem|]. split.
    + intros k. apply Hcan. exact I.
    + intros u v tau. rewrite Hmem.
      change (omem tau (aget peqb (nk false u v) (g_edges (h0_of false g)))) with false.
      rewrite (find_map _ (fun e : (Z * Z) * list (Z * Z) => peqb (nkk (fst e)) (nk false u v)))
        by (intros [[x y] rr]; reflexivity).
      transitivity (lookS R (nk false u v) tau).
      * unfold lookS. destruct (find _ R) as [e|]; simpl; [|reflexivity].
        apply mem_perm. apply sort_runs_perm.
      * rewrite HlR. unfold lookS at 1. simpl. apply flat_union; assumption.
Qed.

Theorem undirected_ok g : Good g -> g_dir g = true -> exists H, to_undirected g false = (Some H, Done).
Proof.
  intros HG Hd. destruct (undirected_core g HG Hd) as (h & Hall & _).
  unfold to_undirected. fold (h0_of false g). rewrite Hall. eexists. reflexivity.
Qed.

Theorem undirected_presence g H u v tau : Good g -> g_dir g = true -> to_undirected g false = (Some H, Done) ->
  g_dir H = false /\ g_nodes H = g_nodes g /\ g_attr H = g_attr g /\
  has_interaction H u v (Some tau) = has_interaction g u v (Some tau) || has_interaction g v u (Some tau).
Proof.
  intros HG Hdir E. destruct (undirected_core g HG Hdir) as (h & Hall & Hd & Hr & Hc & Hm).
  unfold to_undirected in E. fold (h0_of false g) in E. rewrite Hall in E. inversion E; subst H. clear E.
  split; [exact Hd|]. split; [reflexivity|]. split; [reflexivity|].
  rewrite hi_omem; [|exact Hr|apply Hc].
  change (g_dir (with_all_nodes h g)) with (g_dir h). change (g_edges (with_all_nodes h g)) with (g_edges h).
  rewrite Hd. apply Hm.
Qed.

(** * 6. every graph reachable from the empty removal-enabled graph is good (the theorems are not vacuous) *)
Lemma Good_reach dir cs : Good (run_calls (G0 dir) cs).
Proof.
  destruct (reach_flags dir cs) as (_ & Hr). split; [exact Hr|]. split.
  - intros k. apply (Inv_reach dir cs k).
  - apply InvAdj_run. apply InvAdj_init.
Qed.
