(** StreamRoundTrip: the interaction-format write / read round trip gives back THE SAME STREAM (C10), as a list:
    the reader, fed the rows of [stream g] in order, logs exactly one new event per row, the very event the row
    was written from, at the end of its log; so the log of the graph read back is [stream g] itself, and the
    stream of a chronologically sorted log is that log.

    Route: the per-pair description [Shape] of ReplayFacts (each run contributes its '+', and its '-' when it is
    closed) is turned into a per-pair predicate [RGood] that says, row by row, in which state the reader finds the
    pair's entry and that the event it is about to log is new; the reader is then followed along the whole stream
    (the rows of the other pairs leave a pair's entry and a pair's events alone). *)
From DynVerif Require Import Base Graph Derived Spec Annotate IO.
From DynVerif.proofs Require Import AListFacts CoreInv C01Facts C03Facts QueryFacts SliceFacts LogInv IOFacts ReplayFacts.
From Coq Require Import Sorting.Sorted Sorting.Permutation.

(** * 0. the stream of a chronologically sorted log is the log itself *)
Definition tle (x y : event) : Prop := ev_time x <= ev_time y.

Lemma ins_ev_last x l : (forall y, In y l -> ev_time y <= ev_time x) -> ins_ev x l = l ++ [x].
Proof.
  induction l as [|y r IH]; intros Hall; simpl; [reflexivity|].
  assert (Hy : ev_time y <= ev_time x) by (apply Hall; left; reflexivity).
  destruct (ev_time x <? ev_time y) eqn:E; [lia|].
  rewrite IH; [reflexivity|]. intros z Hz. apply Hall. right; exact Hz.
Qed.

Lemma SS_app_mid (acc : list event) x L : StronglySorted tle (acc ++ x :: L) -> forall y, In y acc -> tle y x.
Proof.
  induction acc as [|z acc IH]; intros Hs y Hy; [destruct Hy|].
  simpl in Hs. apply StronglySorted_inv in Hs. destruct Hs as (Hs & Hall). rewrite Forall_forall in Hall.
  destruct Hy as [->|Hy].
  - apply Hall. apply in_or_app. right. left. reflexivity.
  - apply IH; assumption.
Qed.

Lemma fold_ins_sorted_id L : forall acc, StronglySorted tle (acc ++ L) ->
  fold_left (fun a e => ins_ev e a) L acc = acc ++ L.
Proof.
  induction L as [|x L IH]; intros acc Hs; simpl; [rewrite app_nil_r; reflexivity|].
  rewrite (ins_ev_last x acc) by (intros y Hy; apply (SS_app_mid acc x L Hs y Hy)).
  rewrite IH; rewrite <- app_assoc; [reflexivity | exact Hs].
Qed.

Lemma stream_SS g : StronglySorted tle (stream g).
Proof.
  apply Sorted_StronglySorted; [|apply stream_sorted].
  unfold Relations_1.Transitive, tle. intros x y z. lia.
Qed.

(** a graph whose log is some graph's stream streams that very list *)
Lemma stream_of_stream H g : g_events H = stream g -> stream H = stream g.
Proof.
  intros E. unfold stream at 1. rewrite E.
  apply (fold_ins_sorted_id (stream g) []). simpl. apply stream_SS.
Qed.

(** * 1. small facts on the log *)
Lemma add_event_new t k op evs : ~ In (t, k, op) evs -> add_event t k op evs = evs ++ [(t, k, op)].
Proof.
  intros Hni. unfold add_event. destruct (existsb (ev_same t k op) evs) eqn:E; [|reflexivity].
  exfalso. apply Hni. apply has_event_In. exact E.
Qed.

Lemma del_event_absent t k op evs : ~ In (t, k, op) evs -> del_event t k op evs = evs.
Proof.
  unfold del_event. induction evs as [|x r IH]; intros Hni; simpl; [reflexivity|].
  destruct (ev_same t k op x) eqn:E.
  - exfalso. apply Hni. left. apply ev_same_eq in E. exact E.
  - simpl. rewrite IH; [reflexivity|]. intros Hin. apply Hni. right; exact Hin.
Qed.

Lemma pe_app S1 S2 k : pe (S1 ++ S2) k = pe S1 k ++ pe S2 k.
Proof. unfold pe. rewrite filter_app, map_app. reflexivity. Qed.

Lemma In_pe S k t op : In (t, op) (pe S k) <-> In (t, k, op) S.
Proof.
  unfold pe. rewrite in_map_iff. split.
  - intros ([[t' k'] op'] & E & Hin). apply filter_In in Hin. destruct Hin as (Hin & Hk).
    simpl in Hk. apply peqb_eq in Hk. subst k'. unfold ev_time in E. simpl in E. inversion E; subst. exact Hin.
  - intros Hin. exists (t, k, op). split; [reflexivity|]. apply filter_In.
    split; [exact Hin | simpl; apply peqb_refl].
Qed.

(** * 2. what the reader needs, pair by pair *)
(** the latest run is non-empty and ends at least two instants before [a] (or the pair is fresh) *)
Definition below2 (old : option tline) (a : Z) : Prop :=
  match old with Some ((a0, b0), _) => a0 <= b0 /\ b0 + 1 < a | None => True end.

(** [RGood old E evs]: the pair's entry is [old], the events it has logged so far are [E], its remaining rows are
    [evs]; every '+' opens a fresh one-instant run and logs a new event; every '-' finds the one-instant run its
    '+' has just opened, closes it at its own instant and logs a new event, with no stale '-' to delete *)
Inductive RGood : option tline -> list (Z * bool) -> list (Z * bool) -> Prop :=
| RG_nil old E : RGood old E []
| RG_plus old E a evs :
    below2 old a -> ~ In (a, true) E ->
    RGood (Some ((a, a), olist old)) (E ++ [(a, true)]) evs ->
    RGood old E ((a, true) :: evs)
| RG_minus a l E s evs :
    a < s -> ~ In (s, false) E -> ~ In (a + 1, false) E ->
    RGood (Some ((a, s - 1), l)) (E ++ [(s, false)]) evs ->
    RGood (Some ((a, a), l)) E ((s, false) :: evs).

Lemma RGood_plus_inv old E a evs : RGood old E ((a, true) :: evs) ->
  below2 old a /\ ~ In (a, true) E /\ RGood (Some ((a, a), olist old)) (E ++ [(a, true)]) evs.
Proof. intros HG. inversion HG; subst. auto. Qed.

Lemma RGood_minus_inv old E s evs : RGood old E ((s, false) :: evs) ->
  exists a l, old = Some ((a, a), l) /\ a < s /\ ~ In (s, false) E /\ ~ In (a + 1, false) E /\
              RGood (Some ((a, s - 1), l)) (E ++ [(s, false)]) evs.
Proof. intros HG. inversion HG; subst. eexists; eexists. repeat split; eauto. Qed.

(** the shape of a pair's events (ReplayFacts) is good for the reader, starting from any entry that lies below
    every run and any logged events that are earlier than every run *)
Lemma shape_good R evs : Shape R evs -> canon_chrono R -> forall old E,
  (forall x, In x R -> below2 old (fst x)) ->
  (forall x y, In x R -> In y E -> fst y < fst x) ->
  RGood old E evs.
Proof.
  induction 1 as [|a b R evs Hsh IH|a R evs Hsh IH]; intros Hc old E Hb HE.
  - constructor.
  - assert (Hab : a <= b) by (simpl in Hc; tauto).
    pose proof (cc_all_gt _ _ _ Hc) as Hgt.
    assert (HEa : forall y, In y E -> fst y < a).
    { intros y Hy. apply (HE (a, b) y); [left; reflexivity|exact Hy]. }
    apply RG_plus.
    + apply (Hb (a, b)). left; reflexivity.
    + intros Hin. apply HEa in Hin. simpl in Hin. lia.
    + apply RG_minus.
      * lia.
      * intros Hin. apply in_app_or in Hin. destruct Hin as [Hin|[Hin|[]]]; [|discriminate Hin].
        apply HEa in Hin. simpl in Hin. lia.
      * intros Hin. apply in_app_or in Hin. destruct Hin as [Hin|[Hin|[]]]; [|discriminate Hin].
        apply HEa in Hin. simpl in Hin. lia.
      * replace (b + 1 - 1) with b by lia. apply IH.
        -- exact (cc_tail _ _ Hc).
        -- intros x Hx. simpl. split; [exact Hab|]. apply Hgt. exact Hx.
        -- intros x y Hx Hy. pose proof (Hgt x Hx) as Hx'.
           apply in_app_or in Hy. destruct Hy as [Hy|[Hy|[]]].
           ++ apply in_app_or in Hy. destruct Hy as [Hy|[Hy|[]]].
              ** apply HEa in Hy. lia.
              ** subst y. simpl. lia.
           ++ subst y. simpl. lia.
  - pose proof (cc_all_gt _ _ _ Hc) as Hgt.
    assert (HEa : forall y, In y E -> fst y < a).
    { intros y Hy. apply (HE (a, a) y); [left; reflexivity|exact Hy]. }
    apply RG_plus.
    + apply (Hb (a, a)). left; reflexivity.
    + intros Hin. apply HEa in Hin. simpl in Hin. lia.
    + apply IH.
      * exact (cc_tail _ _ Hc).
      * intros x Hx. simpl. split; [lia|]. apply Hgt. exact Hx.
      * intros x y Hx Hy. pose proof (Hgt x Hx) as Hx'.
        apply in_app_or in Hy. destruct Hy as [Hy|[Hy|[]]].
        -- apply HEa in Hy. lia.
        -- subst y. simpl. lia.
Qed.

(** * 3. one row of the reader: the entry afterwards, and the log afterwards *)
Lemma merge_plus_below old a : below2 old a -> merge_tl old a a = Some (Some ((a, a), olist old)).
Proof.
  destruct old as [[[a0 b0] older]|]; simpl.
  - intros (H0 & Hlt). unfold merge_tl.
    destruct (a <? a0) eqn:E1; [lia|]. destruct (a <? a) eqn:E2; [lia|].
    destruct (b0 + 1 <? a) eqn:E3; [reflexivity|lia].
  - intros _. unfold merge_tl. destruct (a <? a) eqn:E; [lia|reflexivity].
Qed.

(** a '+' row beyond the latest run (or on a fresh pair): a point add that opens (a, a) and logs '+a' last *)
Lemma rd_plus H u v a : g_rem H = true -> nk (g_dir H) u v = (u, v) ->
  below2 (aget peqb (u, v) (g_edges H)) a -> ~ In (a, (u, v), true) (g_events H) ->
  exists H1, add_interaction H u v (Some a) None = (H1, Done) /\ g_dir H1 = g_dir H /\ g_rem H1 = true /\
    g_events H1 = g_events H ++ [(a, (u, v), true)] /\
    forall k', aget peqb k' (g_edges H1) =
               if peqb k' (u, v) then Some ((a, a), olist (aget peqb (u, v) (g_edges H))) else aget peqb k' (g_edges H).
Proof.
  intros Hrem Hk Hb Hni.
  destruct (add_interaction H u v (Some a) None) as [H1 o] eqn:Hs.
  pose proof (step_edges _ _ _ _ _ _ _ Hs) as Hst. cbv zeta in Hst. destruct Hst as (Hd & Hr & Hst).
  rewrite Hk in Hst. unfold call_end in Hst. rewrite (merge_plus_below _ a Hb) in Hst.
  destruct Hst as (-> & Hget).
  exists H1. split; [reflexivity|]. split; [exact Hd|]. split; [congruence|]. split; [|exact Hget].
  revert Hs. unfold add_interaction. rewrite Hrem, Hk. cbv beta iota zeta.
  change (g_events (ensure_ends H u v)) with (g_events H).
  destruct (aget peqb (u, v) (g_edges H)) as [[[a0 b0] older]|] eqn:Hg.
  - simpl in Hb. destruct Hb as (H0 & Hlt).
    destruct (a <? a0) eqn:E1; [lia|]. destruct (a <? a) eqn:E2; [lia|].
    destruct (b0 + 1 <? a) eqn:E3; [|lia].
    intros Hx. injection Hx as Hx. rewrite <- Hx. cbn [g_events with_snaps with_events].
    apply add_event_new. exact Hni.
  - destruct (a <? a) eqn:E2; [lia|].
    intros Hx. injection Hx as Hx. rewrite <- Hx. cbn [g_events with_snaps with_events].
    apply add_event_new. exact Hni.
Qed.

(** a '-' row at s on the just opened run (a, a): one interval add that makes it (a, s-1) and logs '-s' last *)
Lemma rd_minus H u v a l s : g_rem H = true -> nk (g_dir H) u v = (u, v) ->
  aget peqb (u, v) (g_edges H) = Some ((a, a), l) -> a < s ->
  ~ In (s, (u, v), false) (g_events H) -> ~ In (a + 1, (u, v), false) (g_events H) ->
  exists H1, add_interaction H u v (Some a) (Some s) = (H1, Done) /\ g_dir H1 = g_dir H /\ g_rem H1 = true /\
    g_events H1 = g_events H ++ [(s, (u, v), false)] /\
    forall k', aget peqb k' (g_edges H1) =
               if peqb k' (u, v) then Some ((a, s - 1), l) else aget peqb k' (g_edges H).
Proof.
  intros Hrem Hk Hg Hlt Hns Hna.
  destruct (add_interaction H u v (Some a) (Some s)) as [H1 o] eqn:Hs.
  pose proof (step_edges _ _ _ _ _ _ _ Hs) as Hst. cbv zeta in Hst. destruct Hst as (Hd & Hr & Hst).
  rewrite Hk, Hg, Hrem in Hst. unfold call_end, merge_tl in Hst.
  destruct (a <? a) eqn:E1; [lia|]. destruct (s - 1 <? a) eqn:E2; [lia|].
  destruct (a + 1 <? a) eqn:E3; [lia|].
  assert (Hget : o = Done /\ forall k', aget peqb k' (g_edges H1) =
               if peqb k' (u, v) then Some ((a, s - 1), l) else aget peqb k' (g_edges H)).
  { destruct (a <? s - 1) eqn:E4; [exact Hst|].
    assert (Es : s - 1 = a) by lia. rewrite Es. exact Hst. }
  clear Hst. destruct Hget as (-> & Hget).
  exists H1. split; [reflexivity|]. split; [exact Hd|]. split; [congruence|]. split; [|exact Hget].
  revert Hs. unfold add_interaction. rewrite Hrem, Hk. cbv beta iota zeta.
  change (g_events (ensure_ends H u v)) with (g_events H).
  change (g_edges (ensure_ends H u v)) with (g_edges H).
  rewrite Hg. rewrite E1, E2, E3.
  destruct (a <? s - 1) eqn:E4.
  - rewrite (del_event_absent _ _ _ _ Hna). rewrite !andb_false_r. cbn [andb negb].
    intros Hx. injection Hx as Hx. rewrite <- Hx. cbn [g_events with_snaps with_events].
    replace (s - 1 + 1) with s by lia. apply add_event_new. exact Hns.
  - assert (Es : (s - 1 =? a) = true) by lia. rewrite Es. cbn [andb].
    intros Hx. injection Hx as Hx. rewrite <- Hx. cbn [g_events with_snaps with_events].
    replace (s - 1 + 1) with s by lia. apply add_event_new. exact Hns.
Qed.

(** * 4. the reader along a whole list of rows: the log grows by exactly that list *)
Lemma read_log S : forall H,
  g_rem H = true ->
  (forall e, In e S -> nk (g_dir H) (fst (snd (fst e))) (snd (snd (fst e))) = snd (fst e)) ->
  (forall k, RGood (aget peqb k (g_edges H)) (pe (g_events H) k) (pe S k)) ->
  exists H', parse_interactions_from H (rows S) = RdOk H' /\ g_dir H' = g_dir H /\ g_rem H' = true /\
             g_events H' = g_events H ++ S.
Proof.
  induction S as [|[[t [u v]] op] S' IH]; intros H Hrem Hnk HG.
  - exists H. simpl. rewrite app_nil_r. auto.
  - assert (Hk0 : nk (g_dir H) u v = (u, v)) by (apply (Hnk (t, (u, v), op)); left; reflexivity).
    change (rows ((t, (u, v), op) :: S')) with ((u, v, op, t) :: rows S').
    pose proof (HG (u, v)) as HG0. rewrite pe_cons, peqb_refl in HG0.
    (* the common continuation after a row that rewrites the entry of (u, v) to [new] and logs its own event last *)
    assert (Hcont : forall H1 new,
      g_dir H1 = g_dir H -> g_rem H1 = true ->
      g_events H1 = g_events H ++ [(t, (u, v), op)] ->
      (forall k', aget peqb k' (g_edges H1) = if peqb k' (u, v) then new else aget peqb k' (g_edges H)) ->
      RGood new (pe (g_events H) (u, v) ++ [(t, op)]) (pe S' (u, v)) ->
      exists H', parse_interactions_from H1 (rows S') = RdOk H' /\ g_dir H' = g_dir H /\ g_rem H' = true /\
                 g_events H' = g_events H ++ (t, (u, v), op) :: S').
    { intros H1 new Hd Hr Hev Hget Hnew.
      destruct (IH H1) as (H' & Hrun & HdH & HrH & HevH).
      - exact Hr.
      - intros e He. rewrite Hd. apply Hnk. right; exact He.
      - intros k. rewrite Hget, Hev, pe_app, pe_cons. rewrite (peqb_sym k (u, v)).
        destruct (peqb (u, v) k) eqn:Ek.
        + apply peqb_eq in Ek. subst k. exact Hnew.
        + change (pe [] k) with (@nil (Z * bool)). rewrite app_nil_r.
          specialize (HG k). rewrite pe_cons, Ek in HG. exact HG.
      - exists H'. split; [exact Hrun|]. split; [congruence|]. split; [exact HrH|].
        rewrite HevH, Hev, <- app_assoc. reflexivity. }
    cbn [parse_interactions_from]. destruct op.
    + apply RGood_plus_inv in HG0. destruct HG0 as (Hb & Hni & HG1).
      destruct (rd_plus H u v t Hrem Hk0 Hb) as (H1 & Hs & Hd & Hr & Hev & Hget).
      { intros Hin. apply Hni. apply In_pe. exact Hin. }
      rewrite Hs. exact (Hcont H1 _ Hd Hr Hev Hget HG1).
    + apply RGood_minus_inv in HG0. destruct HG0 as (a & l & Hold & Hlt & Hn1 & Hn2 & HG1).
      rewrite Hk0, Hold. assert (Eb : a <? t = true) by lia. rewrite Eb.
      destruct (rd_minus H u v a l t Hrem Hk0 Hold Hlt) as (H1 & Hs & Hd & Hr & Hev & Hget).
      { intros Hin. apply Hn1. apply In_pe. exact Hin. }
      { intros Hin. apply Hn2. apply In_pe. exact Hin. }
      rewrite Hs. exact (Hcont H1 _ Hd Hr Hev Hget HG1).
Qed.

(** * 5. the round trip *)
(** the log of the graph read back is the written stream, event for event, in order *)
Theorem roundtrip_log g : GoodG g -> InvLog g -> all_closed g ->
  exists H, parse_interactions (g_dir g) (gen_interactions g) = RdOk H /\ g_dir H = g_dir g /\ g_rem H = true /\
            g_events H = stream g.
Proof.
  intros (Hrem & Hcan & HA) HL Hcl.
  destruct (read_log (stream g) (empty_graph (g_dir g) true)) as (H & Hrun & Hd & Hr & Hev).
  - reflexivity.
  - intros e He. simpl. apply event_key_norm; [exact HA|exact HL|]. apply stream_In. exact He.
  - intros k. simpl. change (pe [] k) with (@nil (Z * bool)).
    change (pe (stream g) k) with (pair_events g k).
    apply (shape_good (rev (runs_of g k))).
    + apply pair_events_shape; [apply Hcan|exact HL|exact Hcl].
    + apply canon_rev. apply runs_of_canon. apply Hcan.
    + intros x _. exact I.
    + intros x y _ [].
  - exists H. split; [exact Hrun|]. split; [exact Hd|]. split; [exact Hr|]. exact Hev.
Qed.

Theorem stream_roundtrip : forall g, GoodG g -> InvLog g -> all_closed g ->
  exists H, parse_interactions (g_dir g) (gen_interactions g) = RdOk H /\ stream H = stream g.
Proof.
  intros g HG HL Hcl. destruct (roundtrip_log g HG HL Hcl) as (H & Hrun & _ & _ & Hev).
  exists H. split; [exact Hrun|]. apply stream_of_stream. exact Hev.
Qed.

(** the same graph [H] has both the stream and the presence of [g] (the reader is a function: the witness of
    [interactions_roundtrip] is this one) *)
Theorem stream_presence_roundtrip : forall g, GoodG g -> InvLog g -> all_closed g ->
  exists H, parse_interactions (g_dir g) (gen_interactions g) = RdOk H /\ stream H = stream g /\
            forall u v tau, has_interaction H u v (Some tau) = has_interaction g u v (Some tau).
Proof.
  intros g HG HL Hcl.
  destruct (stream_roundtrip g HG HL Hcl) as (H & Hrun & Hst).
  destruct (interactions_roundtrip g HG HL Hcl) as (H2 & Hrun2 & Hp).
  rewrite Hrun in Hrun2. injection Hrun2 as E. subst H2.
  exists H. split; [exact Hrun|]. split; [exact Hst|exact Hp].
Qed.

(** reachable instances (the cases listed for C10), checked by computation: a point add; an interval add; two pairs
    interleaved; a run extended twice; a one-instant run closed by an interval add of length one; an undirected pair
    given in both orientations; several events at the same instant; calls issued out of chronological order *)
Fixpoint evl_eqb (l1 l2 : list event) : bool :=
  match l1, l2 with
  | [], [] => true
  | (t, k, o) :: r1, y :: r2 => ev_same t k o y && evl_eqb r1 r2
  | _, _ => false
  end.
Definition srt (dir : bool) (cs : list call) : bool :=
  let g := run_calls (G0 dir) cs in
  match parse_interactions (g_dir g) (gen_interactions g) with
  | RdOk H => evl_eqb (stream H) (stream g)
  | RdErr _ => false
  end.

Example srt_instances :
  forallb (fun dc => srt (fst dc) (snd dc))
    [ (false, [mkCall 1 2 3 None]);
      (false, [mkCall 1 2 3 (Some 6)]);
      (false, [mkCall 1 2 3 (Some 6); mkCall 3 4 4 (Some 5); mkCall 1 2 8 None; mkCall 4 3 5 (Some 9)]);
      (false, [mkCall 1 2 3 (Some 6); mkCall 1 2 6 (Some 8); mkCall 2 1 8 (Some 12)]);
      (false, [mkCall 1 2 3 None; mkCall 1 2 3 (Some 4)]);
      (false, [mkCall 1 2 3 (Some 4)]);
      (false, [mkCall 2 1 3 (Some 5); mkCall 1 2 7 (Some 9); mkCall 2 1 11 None]);
      (true, [mkCall 2 1 3 (Some 5); mkCall 1 2 3 (Some 5); mkCall 5 6 3 (Some 5); mkCall 1 2 5 (Some 7);
              mkCall 7 8 5 None; mkCall 5 6 7 None]);
      (true, [mkCall 5 6 10 (Some 12); mkCall 1 2 3 (Some 10); mkCall 7 8 10 None; mkCall 3 4 1 (Some 12);
              mkCall 1 2 12 None]);
      (false, [mkCall 1 2 1 None; mkCall 1 2 2 None; mkCall 1 2 3 None]) ] = true.
Proof. vm_compute. reflexivity. Qed.

(** without [all_closed] (two point adds at consecutive instants: the known unclosed two-instant run) the stream
    still comes back identical -- it is the presence that is lost (ReplayFacts.roundtrip_unclosed) *)
Example srt_unclosed : srt false [mkCall 1 2 1 None; mkCall 1 2 2 None] = true.
Proof. vm_compute. reflexivity. Qed.

Print Assumptions roundtrip_log.
Print Assumptions stream_roundtrip.
Print Assumptions stream_presence_roundtrip.

(** * 6. the same without [all_closed]
    A run of two instants whose '-' is missing (the known finding) is written as its '+' alone; the reader then holds
    the one-instant run (a, a) where the original holds (a, a+1): the presence differs, but the next run of the pair
    still starts beyond it, so every later row is handled as before and the LOG read back is still the stream.
    [Shape2] is [Shape] with an unclosed run of any length; the description of a pair's events no longer says that
    runs of two instants are closed. *)
Inductive Shape2 : list (Z * Z) -> list (Z * bool) -> Prop :=
| Sh2_nil : Shape2 [] []
| Sh2_closed a b R evs : Shape2 R evs -> Shape2 ((a, b) :: R) ((a, true) :: (b + 1, false) :: evs)
| Sh2_open a b R evs : Shape2 R evs -> Shape2 ((a, b) :: R) ((a, true) :: evs).

Definition EvOK2 (R : list (Z * Z)) (evs : list (Z * bool)) : Prop :=
  StronglySorted (fun x y => fst x < fst y) evs /\
  (forall t, In (t, true) evs <-> is_start t R = true) /\
  (forall t, In (t, false) evs -> is_end (t - 1) R = true).

Lemma shape2_of R : canon_chrono R -> forall evs, EvOK2 R evs -> Shape2 R evs.
Proof.
  induction R as [|[a b] R' IH]; intros Hc evs (Hs & Hp & Hm1).
  - destruct evs as [|[t [|]] r]; [constructor| |].
    + exfalso. assert (H : is_start t [] = true) by (apply Hp; left; reflexivity). discriminate.
    + exfalso. assert (H : is_end (t - 1) [] = true) by (apply Hm1; left; reflexivity). discriminate.
  - assert (Hab : a <= b) by (simpl in Hc; tauto).
    pose proof (cc_all_gt _ _ _ Hc) as Hgt.
    pose proof (cc_tail _ _ Hc) as Hc'.
    pose proof (cc_nonempty _ Hc') as Hne'.
    assert (HstR : forall t, is_start t R' = true -> b + 1 < t).
    { intros t Ht. apply is_start_In in Ht. destruct Ht as (y & Hy). apply Hgt in Hy. simpl in Hy. exact Hy. }
    assert (HenR : forall t, is_end t R' = true -> b + 1 < t).
    { intros t Ht. apply is_end_In in Ht. destruct Ht as (x & Hx).
      pose proof (Hgt _ Hx) as G1. pose proof (Hne' _ Hx) as G2. simpl in G1, G2. lia. }
    assert (Hina : In (a, true) evs) by (apply Hp; rewrite is_start_cons, Z.eqb_refl; reflexivity).
    destruct evs as [|h evs1]; [destruct Hina|].
    apply StronglySorted_inv in Hs. destruct Hs as (Hs1 & Hall1). rewrite Forall_forall in Hall1.
    assert (Hh : h = (a, true)).
    { destruct Hina as [E|Hin]; [exact E|]. exfalso. specialize (Hall1 _ Hin). simpl in Hall1.
      destruct h as [t [|]]; simpl in Hall1.
      - assert (Hst : is_start t ((a, b) :: R') = true) by (apply Hp; left; reflexivity).
        rewrite is_start_cons in Hst. apply orb_true_iff in Hst. destruct Hst as [Hst|Hst]; [lia|].
        apply HstR in Hst. lia.
      - assert (Hen : is_end (t - 1) ((a, b) :: R') = true) by (apply Hm1; left; reflexivity).
        rewrite is_end_cons in Hen. apply orb_true_iff in Hen. destruct Hen as [Hen|Hen]; [lia|].
        apply HenR in Hen. lia. }
    subst h. simpl in Hall1.
    assert (Hdec : {In (b + 1, false) evs1} + {~ In (b + 1, false) evs1}).
    { apply in_dec. intros x y. decide equality; [apply bool_dec | apply Z.eq_dec]. }
    destruct Hdec as [Hinb|Hnin].
    + destruct evs1 as [|h2 evs2]; [destruct Hinb|].
      apply StronglySorted_inv in Hs1. destruct Hs1 as (Hs2 & Hall2). rewrite Forall_forall in Hall2.
      assert (Hh2 : h2 = (b + 1, false)).
      { destruct Hinb as [E|Hin]; [exact E|]. exfalso. specialize (Hall2 _ Hin). simpl in Hall2.
        assert (Ha2 : a < fst h2) by (apply (Hall1 h2); left; reflexivity).
        destruct h2 as [t [|]]; simpl in Hall2, Ha2.
        - assert (Hst : is_start t ((a, b) :: R') = true) by (apply Hp; right; left; reflexivity).
          rewrite is_start_cons in Hst. apply orb_true_iff in Hst. destruct Hst as [Hst|Hst]; [lia|].
          apply HstR in Hst. lia.
        - assert (Hen : is_end (t - 1) ((a, b) :: R') = true) by (apply Hm1; right; left; reflexivity).
          rewrite is_end_cons in Hen. apply orb_true_iff in Hen. destruct Hen as [Hen|Hen]; [lia|].
          apply HenR in Hen. lia. }
      subst h2. simpl in Hall2. apply Sh2_closed. apply IH; [exact Hc'|].
      split; [exact Hs2|]. split.
      * intros t. split.
        -- intros Hin. pose proof (Hall2 _ Hin) as Hlt. simpl in Hlt.
           assert (Hst : is_start t ((a, b) :: R') = true) by (apply Hp; right; right; exact Hin).
           rewrite is_start_cons in Hst. apply orb_true_iff in Hst. destruct Hst as [Hst|Hst]; [lia|exact Hst].
        -- intros Hst. pose proof (HstR _ Hst) as Hlt.
           assert (Hin : In (t, true) ((a, true) :: (b + 1, false) :: evs2))
             by (apply Hp; rewrite is_start_cons, Hst; apply orb_true_r).
           destruct Hin as [E|[E|Hin]]; [inversion E; lia | discriminate E | exact Hin].
      * intros t Hin. pose proof (Hall2 _ Hin) as Hlt. simpl in Hlt.
        assert (Hen : is_end (t - 1) ((a, b) :: R') = true) by (apply Hm1; right; right; exact Hin).
        rewrite is_end_cons in Hen. apply orb_true_iff in Hen. destruct Hen as [Hen|Hen]; [lia|exact Hen].
    + apply Sh2_open. apply IH; [exact Hc'|].
      split; [exact Hs1|]. split.
      * intros t. split.
        -- intros Hin. pose proof (Hall1 _ Hin) as Hlt. simpl in Hlt.
           assert (Hst : is_start t ((a, b) :: R') = true) by (apply Hp; right; exact Hin).
           rewrite is_start_cons in Hst. apply orb_true_iff in Hst. destruct Hst as [Hst|Hst]; [lia|exact Hst].
        -- intros Hst. pose proof (HstR _ Hst) as Hlt.
           assert (Hin : In (t, true) ((a, true) :: evs1))
             by (apply Hp; rewrite is_start_cons, Hst; apply orb_true_r).
           destruct Hin as [E|Hin]; [inversion E; lia | exact Hin].
      * intros t Hin. pose proof (Hall1 _ Hin) as Hlt. simpl in Hlt.
        assert (Hen : is_end (t - 1) ((a, b) :: R') = true) by (apply Hm1; right; exact Hin).
        rewrite is_end_cons in Hen. apply orb_true_iff in Hen. destruct Hen as [Hen|Hen]; [|exact Hen].
        exfalso. apply Hnin. replace (b + 1) with t by lia. exact Hin.
Qed.

(** the first three parts of [ReplayFacts.pair_events_ok] do not use [all_closed] *)
Lemma pair_events_ok2 g k : ocanon (aget peqb k (g_edges g)) -> InvLog g ->
  EvOK2 (rev (runs_of g k)) (pair_events g k).
Proof.
  intros Hoc (H1 & H2 & _ & Hnd). pose proof (runs_of_canon g k Hoc) as Hc.
  split; [|split].
  - apply SS_strict; [apply pair_events_sorted | apply pair_events_NoDup; exact Hnd |].
    intros t Hp Hm. apply In_pair_events in Hp. apply In_pair_events in Hm.
    apply has_event_In in Hp. apply has_event_In in Hm.
    rewrite H1 in Hp. apply H2 in Hm.
    rewrite is_start_mem in Hp by exact Hc. rewrite is_end_mem in Hm by exact Hc.
    replace (t - 1 + 1) with t in Hm by lia.
    destruct (mem t (runs_of g k)), (mem (t - 1) (runs_of g k)); discriminate.
  - intros t. rewrite In_pair_events, <- has_event_In, H1. unfold is_start. rewrite existsb_rev. tauto.
  - intros t Hin. apply In_pair_events in Hin. apply has_event_In in Hin. apply H2 in Hin.
    unfold is_end. rewrite existsb_rev. exact Hin.
Qed.

Lemma shape2_good R evs : Shape2 R evs -> canon_chrono R -> forall old E,
  (forall x, In x R -> below2 old (fst x)) ->
  (forall x y, In x R -> In y E -> fst y < fst x) ->
  RGood old E evs.
Proof.
  induction 1 as [|a b R evs Hsh IH|a b R evs Hsh IH]; intros Hc old E Hb HE.
  - constructor.
  - assert (Hab : a <= b) by (simpl in Hc; tauto).
    pose proof (cc_all_gt _ _ _ Hc) as Hgt.
    assert (HEa : forall y, In y E -> fst y < a).
    { intros y Hy. apply (HE (a, b) y); [left; reflexivity|exact Hy]. }
    apply RG_plus.
    + apply (Hb (a, b)). left; reflexivity.
    + intros Hin. apply HEa in Hin. simpl in Hin. lia.
    + apply RG_minus.
      * lia.
      * intros Hin. apply in_app_or in Hin. destruct Hin as [Hin|[Hin|[]]]; [|discriminate Hin].
        apply HEa in Hin. simpl in Hin. lia.
      * intros Hin. apply in_app_or in Hin. destruct Hin as [Hin|[Hin|[]]]; [|discriminate Hin].
        apply HEa in Hin. simpl in Hin. lia.
      * replace (b + 1 - 1) with b by lia. apply IH.
        -- exact (cc_tail _ _ Hc).
        -- intros x Hx. simpl. split; [exact Hab|]. apply Hgt. exact Hx.
        -- intros x y Hx Hy. pose proof (Hgt x Hx) as Hx'.
           apply in_app_or in Hy. destruct Hy as [Hy|[Hy|[]]].
           ++ apply in_app_or in Hy. destruct Hy as [Hy|[Hy|[]]].
              ** apply HEa in Hy. lia.
              ** subst y. simpl. lia.
           ++ subst y. simpl. lia.
  - assert (Hab : a <= b) by (simpl in Hc; tauto).
    pose proof (cc_all_gt _ _ _ Hc) as Hgt.
    assert (HEa : forall y, In y E -> fst y < a).
    { intros y Hy. apply (HE (a, b) y); [left; reflexivity|exact Hy]. }
    apply RG_plus.
    + apply (Hb (a, b)). left; reflexivity.
    + intros Hin. apply HEa in Hin. simpl in Hin. lia.
    + apply IH.
      * exact (cc_tail _ _ Hc).
      * intros x Hx. pose proof (Hgt x Hx) as Hx'. simpl. split; lia.
      * intros x y Hx Hy. pose proof (Hgt x Hx) as Hx'.
        apply in_app_or in Hy. destruct Hy as [Hy|[Hy|[]]].
        -- apply HEa in Hy. lia.
        -- subst y. simpl. lia.
Qed.

Theorem roundtrip_log_all g : GoodG g -> InvLog g ->
  exists H, parse_interactions (g_dir g) (gen_interactions g) = RdOk H /\ g_dir H = g_dir g /\ g_rem H = true /\
            g_events H = stream g.
Proof.
  intros (Hrem & Hcan & HA) HL.
  destruct (read_log (stream g) (empty_graph (g_dir g) true)) as (H & Hrun & Hd & Hr & Hev).
  - reflexivity.
  - intros e He. simpl. apply event_key_norm; [exact HA|exact HL|]. apply stream_In. exact He.
  - intros k. simpl. change (pe [] k) with (@nil (Z * bool)).
    change (pe (stream g) k) with (pair_events g k).
    assert (Hcc : canon_chrono (rev (runs_of g k))) by (apply canon_rev; apply runs_of_canon; apply Hcan).
    apply (shape2_good (rev (runs_of g k))).
    + apply shape2_of; [exact Hcc|]. apply pair_events_ok2; [apply Hcan|exact HL].
    + exact Hcc.
    + intros x _. exact I.
    + intros x y _ [].
  - exists H. split; [exact Hrun|]. split; [exact Hd|]. split; [exact Hr|]. exact Hev.
Qed.

Theorem stream_roundtrip_all : forall g, GoodG g -> InvLog g ->
  exists H, parse_interactions (g_dir g) (gen_interactions g) = RdOk H /\ stream H = stream g.
Proof.
  intros g HG HL. destruct (roundtrip_log_all g HG HL) as (H & Hrun & _ & _ & Hev).
  exists H. split; [exact Hrun|]. apply stream_of_stream. exact Hev.
Qed.

(** instances with unclosed two-instant runs, interleaved with other pairs and followed by further runs *)
Example srt_instances_unclosed :
  forallb (fun dc => srt (fst dc) (snd dc))
    [ (false, [mkCall 1 2 1 None; mkCall 1 2 2 None; mkCall 1 2 5 (Some 8); mkCall 3 4 2 None; mkCall 3 4 3 None;
               mkCall 1 2 10 None; mkCall 1 2 11 None]);
      (true, [mkCall 1 2 1 None; mkCall 2 1 1 None; mkCall 1 2 2 None; mkCall 2 1 2 None; mkCall 2 1 3 None;
              mkCall 1 2 4 None; mkCall 1 2 5 None]);
      (false, [mkCall 1 2 1 None; mkCall 1 2 2 None; mkCall 1 2 2 (Some 3); mkCall 1 2 5 None; mkCall 1 2 6 None]) ] = true.
Proof. vm_compute. reflexivity. Qed.

Print Assumptions roundtrip_log_all.
Print Assumptions stream_roundtrip_all.
