(** PathValid: soundness of the waiting ("alive") condition of the temporal DAG built by [temporal_dag]: an
    edge out of an occurrence reached earlier exists only if that occurrence had a neighbour at every window
    instant strictly in between (the frontier drops an occurrence at the first instant without neighbours and
    never re-adds it).  Hence every returned path is a valid hop sequence in the sense of PathComplete, and for
    a strictly increasing window the result of [all_paths_dag] is exactly the set of valid, filter-surviving hop
    sequences ending in the target -- up to the known defect on a first hop that is a root self-loop.
    C12, soundness of the waiting condition + exactness. *)
From DynVerif Require Import Base Graph Annotate Paths.
From DynVerif.proofs Require Import AnnotateFacts SnapInv PathFacts PathComplete.
From Coq Require Import Sorting.Sorted Sorting.Permutation.

(** * one instant: every visited occurrence without a neighbour ends up in [l_remove] *)

Section OneInstantR.
Variables (g : graph) (u : Z) (v : option Z) (tid : Z).

Lemma visit_remove_incl st an : incl (l_remove st) (l_remove (visit g u v tid st an)).
Proof.
  destruct (nbrs_t g (occ_node u an) tid) as [|n0 r0] eqn:EN.
  - rewrite visit_nil by exact EN. simpl. destruct an; [apply incl_refl|].
    intros o Ho. apply in_or_app. left. exact Ho.
  - rewrite visit_cons by (rewrite EN; discriminate). simpl. apply incl_refl.
Qed.

Lemma visit_remove_self st x s :
  nbrs_t g x tid = [] -> In (Occ x s) (l_remove (visit g u v tid st (Occ x s))).
Proof.
  intros H. rewrite visit_nil by exact H. simpl. apply in_or_app. right. left. reflexivity.
Qed.

Lemma visit_fold_rm act : forall st,
  incl (l_remove st) (l_remove (fold_left (visit g u v tid) act st)) /\
  (forall x s, In (Occ x s) act -> nbrs_t g x tid = [] ->
     In (Occ x s) (l_remove (fold_left (visit g u v tid) act st))).
Proof.
  induction act as [|a act IH]; intros st; cbn [fold_left].
  - split; [apply incl_refl|]. intros x s [].
  - destruct (IH (visit g u v tid st a)) as [H1 H2]. split.
    + eapply incl_tran; [apply visit_remove_incl|exact H1].
    + intros x s [->|Hin] Hn; [|apply H2; assumption].
      apply H1. apply visit_remove_self. exact Hn.
Qed.

End OneInstantR.

(** * the waiting invariant after the instants [P] have been processed *)

Section Alive.
Variables (g : graph) (u : Z) (v : option Z).

Definition K (P : list Z) (d : dag) (active : list occ) : Prop :=
  (forall x s, In (Occ x s) active -> forall i, In i P -> s < i -> nbrs_t g x i <> []) /\
  (forall x s y t, In (Occ x s, Occ y t) (d_edges d) -> s < t -> alive g P x s t).

Lemma K_init : K [] (mkDag [] [] []) [Root].
Proof.
  unfold K; simpl. split.
  - intros x s [H|[]]. discriminate.
  - intros x s y t [].
Qed.

Lemma dag_step_K P d active tid :
  Inv g u Z.lt v P d active -> K P d active -> (forall s, In s P -> s < tid) ->
  K (P ++ [tid]) (fst (dag_step g u v (d, active) tid)) (snd (dag_step g u v (d, active) tid)).
Proof.
  intros (Ia & _ & _ & Id & _) (Ka & Kb) HP.
  set (st0 := mkLoop (d_edges d) (d_sources d) (d_targets d) [] []).
  pose proof (visit_fold_LC g u v tid (d_edges d) (d_targets d) active [] st0
                (LC_init g u v tid _ _ _)) as HL.
  cbn [app] in HL.
  pose proof (visit_fold_rm g u v tid active st0) as [_ Hrm].
  set (l := fold_left (visit g u v tid) active st0) in *.
  change (dag_step g u v (d, active) tid) with
    (mkDag (l_edges l) (l_sources l) (l_targets l),
     filter (fun a => negb (omemb a (l_remove l))) (fold_left (fun acc n => oadd n acc) (l_add l) active)).
  cbn [fst snd]. destruct HL as (Le & La & _ & _ & _).
  unfold K; cbn [d_edges].
  split.
  - intros x s Hin i Hi Hlt.
    rewrite filter_In, fold_oadd_In, negb_true_iff, omemb_nIn in Hin. destruct Hin as [Hin Hnr].
    destruct Hin as [Hin|Hin].
    + apply La in Hin. destruct Hin as (a & n & _ & Heq). inversion Heq; subst.
      apply in_app_or in Hi. destruct Hi as [Hi|[<-|[]]]; [apply HP in Hi|]; lia.
    + apply in_app_or in Hi. destruct Hi as [Hi|[<-|[]]].
      * exact (Ka x s Hin i Hi Hlt).
      * intros H0. apply Hnr. apply Hrm; assumption.
  - intros x s y t He Hlt i Hi Hbt.
    apply Le in He. destruct He as [He|(an & n & [Hact Hn] & Heq)].
    + pose proof (Ia _ He) as Hok. simpl in Hok. destruct Hok as (Ht & _).
      apply in_app_or in Hi. destruct Hi as [Hi|[<-|[]]].
      * exact (Kb x s y t He Hlt i Hi Hbt).
      * apply HP in Ht. lia.
    + destruct an as [|x' s']; simpl in Heq; inversion Heq; subst; [lia|].
      apply in_app_or in Hi. destruct Hi as [Hi|[<-|[]]]; [|lia].
      apply (Ka x' s' Hact i Hi). lia.
Qed.

Lemma dag_fold_K : forall ids, StronglySorted Z.lt ids ->
  K ids (fst (fold_left (dag_step g u v) ids (mkDag [] [] [], [Root])))
        (snd (fold_left (dag_step g u v) ids (mkDag [] [] [], [Root]))).
Proof.
  induction ids as [|tid P IH] using rev_ind; intros Hs.
  - simpl. apply K_init.
  - apply ssorted_snoc in Hs. destruct Hs as [Hs HP].
    rewrite fold_left_app. cbn [fold_left].
    destruct (fold_left (dag_step g u v) P (mkDag [] [] [], [Root])) as [d active] eqn:Hf.
    apply dag_step_K; [|exact (IH Hs)|exact HP].
    apply dag_Inv_lt; assumption.
Qed.

End Alive.

(** * 1. edges out of an occurrence reached earlier respect the waiting condition *)

Theorem dag_edges_alive g u v ids : StronglySorted Z.lt ids ->
  forall x s y t, In (Occ x s, Occ y t) (d_edges (dag_of' g u v ids)) -> s < t -> alive g ids x s t.
Proof. intros Hs. destruct (dag_fold_K g u v ids Hs) as (_ & H). exact H. Qed.

(** the frontier, soundly: an active occurrence has had a neighbour at every later instant of the window
    (converse of [dag_active_complete]) *)
Theorem dag_active_sound g u v ids : StronglySorted Z.lt ids ->
  forall x s, In (Occ x s) (snd (fold_left (dag_step g u v) ids (mkDag [] [] [], [Root]))) ->
    forall i, In i ids -> s < i -> nbrs_t g x i <> [].
Proof. intros Hs. destruct (dag_fold_K g u v ids Hs) as (H & _). exact H. Qed.

(** * returned paths, decomposed *)

Section ValidHops.
Variables (g : graph) (u : Z) (v : option Z) (ids : list Z).
Hypothesis Hs : StronglySorted Z.lt ids.

Lemma dag_of'_edge_ok :
  forall e, In e (d_edges (dag_of' g u v ids)) -> edge_ok g u ids (d_sources (dag_of' g u v ids)) e.
Proof.
  unfold dag_of'.
  destruct (fold_left (dag_step g u v) ids (mkDag [] [] [], [Root])) as [d active] eqn:Hf. cbn [fst].
  eapply dag_edges_sound; eauto.
Qed.

(** hops after the first: strict times (from [chained], i.e. from the filter) + the waiting condition *)
Lemma epath_valid_from : forall q w a ta,
  epath (d_edges (dag_of' g u v ids)) (Occ a ta :: q) ->
  chained ((w, a, ta) :: hops_of u (Occ a ta :: q)) ->
  valid_from g ids a ta (hops_of u (Occ a ta :: q)).
Proof.
  induction q as [|o q IH]; intros w a ta Hep Hch; [simpl; exact I|].
  rewrite epath_cons2 in Hep. destruct Hep as [He Hep].
  pose proof (dag_of'_edge_ok _ He) as Hok. destruct o as [|y t]; simpl in Hok; [contradiction|].
  destruct Hok as (Ht & Hy & _).
  rewrite hops_of_cons2 in *. cbn [occ_node otime] in *.
  rewrite chained_cons2 in Hch. destruct Hch as (_ & Hlt & Hch).
  cbn [valid_from]. split; [reflexivity|]. split; [exact Hlt|]. split; [exact Ht|]. split; [exact Hy|].
  split.
  - eapply dag_edges_alive; eauto.
  - eapply IH; eauto.
Qed.

(** a returned path survives the filter and is the decoding of a chain of edges from a source to a target *)
Lemma paths_decompose p : In p (all_paths_dag u (dag_of' g u v ids)) ->
  keep_path p = true /\
  exists t0 q, p = hops_of u (Occ u t0 :: q) /\
               epath (d_edges (dag_of' g u v ids)) (Occ u t0 :: q) /\
               In (last (Occ u t0 :: q) Root) (d_targets (dag_of' g u v ids)).
Proof.
  intros Hin. unfold all_paths_dag in Hin. apply dedup_In in Hin. destruct Hin as [Hin _].
  apply filter_In in Hin. destruct Hin as [Hin Hk]. split; [exact Hk|].
  apply in_flat_map in Hin. destruct Hin as (x & Hx & Hin).
  apply in_flat_map in Hin. destruct Hin as (y & Hy & Hin).
  apply in_map_iff in Hin. destruct Hin as (q & <- & Hq).
  apply dfs_sound in Hq. destruct Hq as (Hwk & _ & _).
  apply walk_epath in Hwk. destruct Hwk as (Hep & (q' & Eq) & Hlast).
  assert (Hsrc : exists t0, x = Occ u t0).
  { revert Hx. unfold dag_of'.
    destruct (fold_left (dag_step g u v) ids (mkDag [] [] [], [Root])) as [d active] eqn:Hf. cbn [fst].
    intros Hx. apply (dag_sources_exact g u v ids d active Hs Hf) in Hx.
    destruct Hx as (t0 & -> & _). eauto. }
  destruct Hsrc as (t0 & ->). subst q. exists t0, q'.
  split; [reflexivity|]. split; [exact Hep|]. rewrite Hlast. exact Hy.
Qed.

Lemma paths_valid_sec p : In p (all_paths_dag u (dag_of' g u v ids)) -> valid_path g ids u p.
Proof.
  intros Hin. apply paths_decompose in Hin. destruct Hin as (Hk & t0 & q & -> & Hep & _).
  pose proof (hops_chained g u ids _ _ dag_of'_edge_ok _ Hep Hk) as Hch.
  destruct q as [|o q]; [simpl in Hk; discriminate|].
  rewrite epath_cons2 in Hep. destruct Hep as [He Hep].
  pose proof (dag_of'_edge_ok _ He) as Hok. destruct o as [|y t]; simpl in Hok; [contradiction|].
  destruct Hok as (Ht & Hy & _).
  rewrite hops_of_cons2 in *. cbn [occ_node otime] in *.
  cbn [valid_path]. split; [reflexivity|]. split; [exact Ht|]. split; [exact Hy|].
  eapply epath_valid_from; eauto.
Qed.

Lemma paths_last_sec p : In p (all_paths_dag u (dag_of' g u v ids)) ->
  forall v', v = Some v' -> exists a t, last p (0,0,0) = (a, v', t).
Proof.
  intros Hin v' Ev. apply paths_decompose in Hin. destruct Hin as (Hk & t0 & q & -> & _ & Htg).
  assert (Hne : hops_of u (Occ u t0 :: q) <> []). { intros E0; rewrite E0 in Hk; discriminate. }
  destruct (hops_last u _ Hne) as (a & Hl). rewrite Hl.
  revert Htg. unfold dag_of'.
  destruct (fold_left (dag_step g u v) ids (mkDag [] [] [], [Root])) as [d active] eqn:Hf. cbn [fst].
  intros Htg. destruct (dag_targets_sound g u v ids d active Hf _ Htg) as (yy & ty & -> & _ & Hv & _).
  simpl. rewrite (Hv v' Ev). eauto.
Qed.

End ValidHops.

(** * 2. every returned path is a valid hop sequence in the sense of the completeness theorem *)

Theorem paths_valid g u v ids p : StronglySorted Z.lt ids ->
  In p (all_paths_dag u (dag_of' g u v ids)) -> valid_path g ids u p.
Proof. intros Hs. apply paths_valid_sec. exact Hs. Qed.

(** membership implies survival of the ping-pong / same-instant filter *)
Theorem paths_keep g u v ids p : In p (all_paths_dag u (dag_of' g u v ids)) -> keep_path p = true.
Proof.
  intros Hin. unfold all_paths_dag in Hin. apply dedup_In in Hin. destruct Hin as [Hin _].
  apply filter_In in Hin. tauto.
Qed.

(** * 3. for a proper window, the result is EXACTLY the set of valid, ping-pong-free hop sequences ending in v
      whose first hop is not a root self-loop -- up to that known defect *)

Theorem paths_exact g u v ids p : StronglySorted Z.lt ids ->
  (match p with (_, y, _) :: _ => y <> u | [] => True end) ->
  (In p (all_paths_dag u (dag_of' g u v ids)) <->
   valid_path g ids u p /\ keep_path p = true /\ (forall v', v = Some v' -> exists a t, last p (0,0,0) = (a, v', t))).
Proof.
  intros Hs Hne. split.
  - intros Hin. split; [apply (paths_valid g u v); assumption|]. split.
    + eapply paths_keep; eauto.
    + apply (paths_last_sec g u v ids Hs); exact Hin.
  - intros (Hvp & Hk & Hv). apply paths_complete; assumption.
Qed.
