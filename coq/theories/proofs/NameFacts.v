(** NameFacts: the textual encoding of DAG occurrences  "<node>_<tid>"  (Names.v) is injective and both decoders
    used by the path algorithms (rsplit at the last '_'; split on every '_' and re-join all fields but the last)
    invert it, for ARBITRARY node ids (they may contain '_', be empty, ...).  The decoder used before the fix
    (text before the FIRST '_') is right exactly for ids without '_'. *)
From DynVerif Require Import Base IO Names.
From DynVerif.proofs Require Import IOFacts.

(** * 1. a rendered integer has no underscore *)
Lemma render_int_no_us : forall t, ~ In 95 (render_int t).
Proof. intros t. apply render_int_notin. unfold rchar, dchar. lia. Qed.

(** * 2. rsplit at the last delimiter *)
Lemma rsplit1_none d : forall r, ~ In d r -> rsplit1 d r = None.
Proof.
  induction r as [|c r IH]; intros Hni; simpl; [reflexivity|].
  rewrite IH by (intros Hin; apply Hni; right; exact Hin).
  destruct (c =? d) eqn:E; [exfalso; apply Hni; left; lia|reflexivity].
Qed.

Lemma rsplit1_app_gen d : forall n r, ~ In d r -> rsplit1 d (n ++ d :: r) = Some (n, r).
Proof.
  induction n as [|c n IH]; intros r Hni; simpl.
  - rewrite (rsplit1_none d r Hni), Z.eqb_refl. reflexivity.
  - rewrite (IH r Hni). reflexivity.
Qed.

Lemma rsplit1_app : forall n r, ~ In 95 r -> rsplit1 95 (n ++ 95 :: r) = Some (n, r).
Proof. exact (rsplit1_app_gen 95). Qed.

(** * 3. temporal_dag's decoder (after the fix) *)
Theorem name_node_occ : forall n t, name_node (occ_name n t) = Some n.
Proof.
  intros n t. unfold name_node, occ_name, us.
  rewrite (rsplit1_app n (render_int t) (render_int_no_us t)). reflexivity.
Qed.

(** * 4. time_respecting_paths' decoder *)
Lemma split_on_snoc d : forall n r cur, ~ In d r ->
  split_on d (n ++ d :: r) cur = split_on d n cur ++ [r].
Proof.
  induction n as [|c n IH]; intros r cur Hni; simpl.
  - rewrite Z.eqb_refl. rewrite (split_on_last d r Hni []). reflexivity.
  - destruct (c =? d) eqn:E.
    + rewrite (IH r [] Hni). reflexivity.
    + apply IH. exact Hni.
Qed.

Lemma split_on_nonempty d : forall l cur, split_on d l cur <> [].
Proof.
  induction l as [|c l IH]; intros cur; simpl; [discriminate|].
  destruct (c =? d); [discriminate|apply IH].
Qed.

Lemma join_cons d f fs : fs <> [] -> join d (f :: fs) = f ++ d :: join d fs.
Proof. destruct fs as [|x fs]; [congruence|reflexivity]. Qed.

Lemma join_split_on d : forall n cur, join d (split_on d n cur) = rev cur ++ n.
Proof.
  induction n as [|c n IH]; intros cur; simpl.
  - rewrite app_nil_r. reflexivity.
  - destruct (c =? d) eqn:E.
    + rewrite join_cons by apply split_on_nonempty. rewrite IH. simpl.
      assert (Hcd : c = d) by lia. subst c. reflexivity.
    + rewrite IH. simpl. rewrite <- app_assoc. reflexivity.
Qed.

Lemma join_split_on_id d n : join d (split_on d n []) = n.
Proof. apply (join_split_on d n []). Qed.

Lemma decode_app : forall n r t, ~ In 95 r -> parse_int r = Some t -> decode_name (n ++ 95 :: r) = Some (n, t).
Proof.
  intros n r t Hni Hp. unfold decode_name, us.
  rewrite (split_on_snoc 95 n r [] Hni).
  rewrite last_last, removelast_last, Hp, join_split_on_id. reflexivity.
Qed.

Theorem decode_occ : forall n t, decode_name (occ_name n t) = Some (n, t).
Proof.
  intros n t. unfold occ_name, us. apply decode_app; [apply render_int_no_us|apply parse_int_render].
Qed.

(** * 5. the encoding is injective *)
Theorem occ_name_inj : forall n t n' t', occ_name n t = occ_name n' t' -> n = n' /\ t = t'.
Proof.
  intros n t n' t' Heq.
  pose proof (decode_occ n t) as H1. rewrite Heq, decode_occ in H1.
  inversion H1. split; reflexivity.
Qed.

(** * 6. the decoder before the fix: right exactly for ids without '_' *)
Theorem name_node_first_ok : forall n t, ~ In 95 n -> name_node_first (occ_name n t) = n.
Proof.
  intros n t Hni. unfold name_node_first, occ_name, us.
  rewrite (split_on_app 95 n (render_int t) Hni []). reflexivity.
Qed.

Example name_node_first_a_n : name_node_first (occ_name [97; 95; 110] 3) = [97].
Proof. vm_compute. reflexivity. Qed.

Theorem name_node_first_refuted : exists n t, name_node_first (occ_name n t) <> n.
Proof. exists [97; 95; 110], 3. vm_compute. discriminate. Qed.

(** stronger: it is wrong for EVERY id with an underscore (the result never contains one) *)
Lemma split_on_hd_no_d d : forall l cur, ~ In d cur -> ~ In d (hd [] (split_on d l cur)).
Proof.
  induction l as [|c l IH]; intros cur Hni; simpl.
  - rewrite <- in_rev. exact Hni.
  - destruct (c =? d) eqn:E; simpl.
    + rewrite <- in_rev. exact Hni.
    + apply IH. intros [Hc|Hin]; [lia|exact (Hni Hin)].
Qed.

Theorem name_node_first_wrong : forall n t, In 95 n -> name_node_first (occ_name n t) <> n.
Proof.
  intros n t Hin Heq. unfold name_node_first, us in Heq.
  apply (split_on_hd_no_d 95 (occ_name n t) []); [intros H; exact H|]. rewrite Heq. exact Hin.
Qed.

(** * 7. a plain id (no underscore) is never an occurrence name *)
Theorem occ_name_not_plain : forall n t u, ~ In 95 u -> occ_name n t <> u.
Proof.
  intros n t u Hni Heq. apply Hni. rewrite <- Heq. unfold occ_name, us.
  apply in_or_app. right. left. reflexivity.
Qed.

Print Assumptions render_int_no_us.
Print Assumptions rsplit1_app.
Print Assumptions name_node_occ.
Print Assumptions decode_occ.
Print Assumptions occ_name_inj.
Print Assumptions name_node_first_ok.
Print Assumptions name_node_first_refuted.
Print Assumptions name_node_first_wrong.
Print Assumptions occ_name_not_plain.
