(** PathFacts: the fuelled DFS enumerates exactly the simple paths to one target; the temporal DAG built by
    [temporal_dag] has sound edges / exact sources / sound targets and no loops; the paths returned by
    [time_respecting_paths] are genuine time-respecting paths (C12 soundness part, C15). *)
From DynVerif Require Import Base Graph Annotate Paths.
From DynVerif.proofs Require Import AnnotateFacts SnapInv.
From Coq Require Import Sorting.Sorted Sorting.Permutation.

(** * occurrences: decidable equality, membership, insertion *)

Lemma occ_eqb_eq a b : occ_eqb a b = true <-> a = b.
Proof.
  destruct a as [|n t], b as [|n' t']; simpl; split; intros H; try congruence; try discriminate.
  - f_equal; lia.
  - inversion H; subst. lia.
Qed.

Lemma omemb_In x l : omemb x l = true <-> In x l.
Proof.
  unfold omemb. rewrite existsb_exists. split.
  - intros (y & Hy & E). apply occ_eqb_eq in E. subst; auto.
  - intros H. exists x. split; auto. apply occ_eqb_eq; auto.
Qed.

Lemma omemb_nIn x l : omemb x l = false <-> ~ In x l.
Proof. rewrite <- omemb_In. destruct (omemb x l); split; congruence. Qed.

Lemma osuccs_In E x y : In y (osuccs E x) <-> In (x, y) E.
Proof.
  unfold osuccs. rewrite in_map_iff. split.
  - intros ((a, b) & Hb & Hin). simpl in Hb; subst. apply filter_In in Hin. destruct Hin as (Hin & Ha).
    simpl in Ha. apply occ_eqb_eq in Ha. subst; auto.
  - intros H. exists (x, y). split; auto. apply filter_In. split; auto. simpl. apply occ_eqb_eq; auto.
Qed.

(** * DFS = all simple paths to one target *)

Inductive walk (E : list (occ * occ)) : occ -> occ -> list occ -> Prop :=
| w_one x : walk E x x [x]
| w_step x y t p : In (x, y) E -> x <> t -> walk E y t p -> walk E x t (x :: p).

Lemma dfs_sound E fuel : forall visited x tgt p, In p (dfs E fuel visited x tgt) ->
  walk E x tgt p /\ NoDup p /\ (forall z, In z p -> ~ In z visited \/ z = x).
Proof.
  induction fuel as [|f IH]; intros visited x tgt p H; [destruct H|]. cbn [dfs] in H.
  destruct (occ_eqb x tgt) eqn:Ex.
  - apply occ_eqb_eq in Ex. subst. destruct H as [<-|[]].
    split; [constructor|]. split; [constructor; [simpl; tauto|constructor]|].
    intros z [<-|[]]; auto.
  - apply in_flat_map in H. destruct H as (y & Hy & Hp).
    destruct (omemb y (x :: visited)) eqn:Em; [destruct Hp|].
    apply in_map_iff in Hp. destruct Hp as (q & <- & Hq).
    apply IH in Hq. destruct Hq as (Hw & Hnd & Hav).
    apply omemb_nIn in Em.
    assert (x <> tgt).
    { intro; subst. assert (occ_eqb tgt tgt = true) by (apply occ_eqb_eq; auto). congruence. }
    split; [|split].
    + econstructor; eauto. apply osuccs_In; auto.
    + constructor; auto. intro Hin. destruct (Hav _ Hin) as [Hn|Heq];
        [apply Hn; left; auto|subst; apply Em; left; auto].
    + intros z [<-|Hz]; auto. destruct (Hav _ Hz) as [Hn|Heq].
      * left. intro. apply Hn. right; auto.
      * subst. left. intro. apply Em. right; auto.
Qed.

Lemma dfs_complete E : forall p x tgt, walk E x tgt p -> NoDup p -> forall visited fuel,
  (forall z, In z p -> ~ In z visited) -> (length p <= fuel)%nat -> In p (dfs E fuel visited x tgt).
Proof.
  induction 1 as [x | x y t p Hxy Hne Hw IH]; intros Hnd visited fuel Hav Hlen.
  - destruct fuel; [simpl in Hlen; lia|]. cbn [dfs].
    assert (occ_eqb x x = true) as -> by (apply occ_eqb_eq; auto). left; auto.
  - destruct fuel; [simpl in Hlen; lia|]. cbn [dfs]. simpl in Hlen.
    destruct (occ_eqb x t) eqn:Ex. { apply occ_eqb_eq in Ex. contradiction. }
    apply in_flat_map. exists y. split; [apply osuccs_In; auto|].
    inversion Hnd as [|? ? Hnx Hndp]; subst.
    assert (In y p) by (inversion Hw; subst; left; auto).
    assert (omemb y (x :: visited) = false) as ->.
    { apply omemb_nIn. intros [Heq|Hv]; [subst; contradiction|].
      apply (Hav y); [right; assumption|assumption]. }
    apply in_map. apply IH; auto; [|lia].
    intros z Hz [Heq|Hv]; [subst; contradiction|]. apply (Hav z); [right; assumption|assumption].
Qed.

(** * insertion helpers *)

Lemma oadd_In x l y : In y (oadd x l) <-> y = x \/ In y l.
Proof.
  unfold oadd. destruct (omemb x l) eqn:E.
  - apply omemb_In in E. split; [auto|]. intros [->|H]; auto.
  - rewrite in_app_iff. simpl. split.
    + intros [H|[<-|[]]]; auto.
    + intros [->|H]; auto.
Qed.

Lemma edge_eqb_eq a b : edge_eqb a b = true <-> a = b.
Proof.
  destruct a as [a1 a2], b as [b1 b2]. unfold edge_eqb. simpl.
  rewrite andb_true_iff, !occ_eqb_eq. split.
  - intros [-> ->]. reflexivity.
  - intros H. inversion H. auto.
Qed.

Lemma eadd_In e l e' : In e' (eadd e l) <-> e' = e \/ In e' l.
Proof.
  unfold eadd. destruct (existsb (edge_eqb e) l) eqn:E.
  - apply existsb_exists in E. destruct E as (z & Hz & Ez). apply edge_eqb_eq in Ez. subst z.
    split; [auto|]. intros [->|H]; auto.
  - rewrite in_app_iff. simpl. split.
    + intros [H|[<-|[]]]; auto.
    + intros [->|H]; auto.
Qed.

Lemma fold_oadd_In ks : forall l y, In y (fold_left (fun acc k => oadd k acc) ks l) <-> In y ks \/ In y l.
Proof.
  induction ks as [|k ks IH]; intros l y; simpl.
  - tauto.
  - rewrite IH, oadd_In. split.
    + intros [H|[->|H]]; auto.
    + intros [[<-|H]|H]; auto.
Qed.

Lemma fold_eadd_In a ns : forall l e,
  In e (fold_left (fun acc n => eadd (a, n) acc) ns l) <-> (exists n, In n ns /\ e = (a, n)) \/ In e l.
Proof.
  induction ns as [|n ns IH]; intros l e; simpl.
  - split; [auto|]. intros [(n & [] & _)|H]; auto.
  - rewrite IH, eadd_In. split.
    + intros [(m & Hm & ->)|[->|H]]; [left; exists m; auto|left; exists n; auto|auto].
    + intros [(m & [<-|Hm] & ->)|H]; [right; left; reflexivity|left; exists m; auto|right; right; auto].
Qed.

Definition otime (o : occ) : Z := match o with Occ _ t => t | Root => 0 end.

(** * the loop body [visit], in its two cases *)

Definition nb (g : graph) (u tid : Z) (an : occ) : list occ :=
  map (fun n => Occ n tid) (nbrs_t g (occ_node u an) tid).
Definition ren (u tid : Z) (an : occ) : occ := match an with Root => Occ u tid | _ => an end.

Lemma in_nb g u tid an o :
  In o (nb g u tid an) <-> exists n, o = Occ n tid /\ In n (nbrs_t g (occ_node u an) tid).
Proof. unfold nb. rewrite in_map_iff. split; intros (n & A & B); exists n; auto. Qed.

Lemma visit_nil g u v tid st an : nbrs_t g (occ_node u an) tid = [] ->
  visit g u v tid st an =
  mkLoop (l_edges st) (l_sources st) (l_targets st) (l_add st)
         (match an with Occ _ _ => l_remove st ++ [an] | Root => l_remove st end).
Proof. intros H. unfold visit. rewrite H. simpl. destruct v, an; reflexivity. Qed.

Lemma visit_cons g u v tid st an : nbrs_t g (occ_node u an) tid <> [] ->
  visit g u v tid st an =
  mkLoop (fold_left (fun acc n => eadd (ren u tid an, n) acc) (nb g u tid an) (l_edges st))
         (match an with Root => oadd (ren u tid an) (l_sources st) | _ => l_sources st end)
         (match v with
          | Some v' => if omemb (Occ v' tid) (nb g u tid an) then oadd (Occ v' tid) (l_targets st) else l_targets st
          | None => fold_left (fun acc k => oadd k acc) (nb g u tid an) (l_targets st)
          end)
         (l_add st ++ nb g u tid an) (l_remove st).
Proof.
  intros H. unfold visit, nb, ren.
  destruct (nbrs_t g (occ_node u an) tid) as [|a r] eqn:E; [congruence|].
  destruct an; reflexivity.
Qed.

(** * the DAG invariant, generic in the order [R] on instants ([Z.lt] for the edge facts, the full relation
      for the facts that do not need a sorted window) *)

Section DagInv.
Variables (g : graph) (u : Z) (R : Z -> Z -> Prop).

Definition edge_okR (ids : list Z) (srcs : list occ) (e : occ * occ) : Prop :=
  match e with
  | (Occ x s, Occ y t) => In t ids /\ In y (nbrs_t g x t) /\ (R s t \/ (s = t /\ x = u /\ In (Occ u t) srcs))
  | _ => False
  end.

Lemma edge_okR_mono ids ids' srcs srcs' e :
  incl ids ids' -> incl srcs srcs' -> edge_okR ids srcs e -> edge_okR ids' srcs' e.
Proof.
  destruct e as [[|x s] [|y t]]; simpl; try tauto. intros Hi Hs (H1 & H2 & H3).
  split; [auto|split; auto]. destruct H3 as [H3|(A & B & C)]; [left; auto|right; auto].
Qed.

Definition src_ok (ids : list Z) (o : occ) : Prop :=
  exists t, o = Occ u t /\ In t ids /\ nbrs_t g u t <> [].
Definition tgt_ok (v : option Z) (ids : list Z) (E : list (occ * occ)) (o : occ) : Prop :=
  exists y t, o = Occ y t /\ In t ids /\ (forall v', v = Some v' -> y = v') /\ exists x, In (x, Occ y t) E.

Lemma src_ok_mono ids ids' o : incl ids ids' -> src_ok ids o -> src_ok ids' o.
Proof. intros Hi (t & A & B & C). exists t. auto. Qed.
Lemma tgt_ok_mono v ids ids' E E' o : incl ids ids' -> incl E E' -> tgt_ok v ids E o -> tgt_ok v ids' E' o.
Proof. intros Hi He (y & t & A & B & C & x & D). exists y, t. repeat (split; auto). exists x. auto. Qed.

Section OneInstant.
Variables (v : option Z) (tid : Z) (Q : list Z).
Hypothesis HQ : In tid Q.

Definition okact (an : occ) : Prop := an = Root \/ exists x s, an = Occ x s /\ R s tid.

Definition LInv (st : loopst) : Prop :=
  (forall e, In e (l_edges st) -> edge_okR Q (l_sources st) e) /\
  (forall o, In o (l_sources st) -> src_ok Q o) /\
  (forall o, In o (l_targets st) -> tgt_ok v Q (l_edges st) o) /\
  (forall o, In o (l_add st) -> exists n, o = Occ n tid) /\
  ~ In Root (l_remove st).

Lemma visit_edges_incl st an : incl (l_edges st) (l_edges (visit g u v tid st an)).
Proof.
  destruct (nbrs_t g (occ_node u an) tid) as [|n0 r0] eqn:EN.
  - rewrite visit_nil by exact EN. simpl. apply incl_refl.
  - rewrite visit_cons by (rewrite EN; discriminate). simpl. intros e He. apply fold_eadd_In. auto.
Qed.

Lemma visit_sources_incl st an : incl (l_sources st) (l_sources (visit g u v tid st an)).
Proof.
  destruct (nbrs_t g (occ_node u an) tid) as [|n0 r0] eqn:EN.
  - rewrite visit_nil by exact EN. simpl. apply incl_refl.
  - rewrite visit_cons by (rewrite EN; discriminate). simpl.
    destruct an; [|apply incl_refl]. intros o Ho. apply oadd_In. auto.
Qed.

Lemma visit_root_src st : nbrs_t g u tid <> [] -> In (Occ u tid) (l_sources (visit g u v tid st Root)).
Proof.
  intros H. rewrite visit_cons by exact H. simpl. apply oadd_In. left. reflexivity.
Qed.

Lemma visit_LInv st an : okact an -> LInv st -> LInv (visit g u v tid st an).
Proof.
  intros Hact (Ha & Hb & Hc & Hd & He).
  destruct (nbrs_t g (occ_node u an) tid) as [|n0 r0] eqn:EN.
  - rewrite visit_nil by exact EN. unfold LInv; simpl.
    split; [exact Ha|]. split; [exact Hb|]. split; [exact Hc|]. split; [exact Hd|].
    destruct an; [exact He|]. rewrite in_app_iff. intros [H|[H|[]]]; [auto|discriminate].
  - assert (HN : nbrs_t g (occ_node u an) tid <> []) by (rewrite EN; discriminate).
    clear EN. rewrite visit_cons by exact HN.
    unfold LInv; cbn [l_edges l_sources l_targets l_add l_remove].
    set (E' := fold_left (fun acc n => eadd (ren u tid an, n) acc) (nb g u tid an) (l_edges st)).
    assert (HE' : forall e, In e E' <-> (exists n, In n (nb g u tid an) /\ e = (ren u tid an, n)) \/ In e (l_edges st))
      by (intros e; apply fold_eadd_In).
    assert (Hnew : forall m, In m (nbrs_t g (occ_node u an) tid) -> In (ren u tid an, Occ m tid) E').
    { intros m Hm. apply HE'. left. exists (Occ m tid). split; [|reflexivity]. apply in_nb. eauto. }
    assert (Hold : forall o, tgt_ok v Q (l_edges st) o -> tgt_ok v Q E' o).
    { intros o. apply tgt_ok_mono; [apply incl_refl|]. intros e He'. apply HE'. auto. }
    split; [|split; [|split; [|split]]].
    + assert (Hincl : incl (l_sources st)
                (match an with Root => oadd (ren u tid an) (l_sources st) | _ => l_sources st end)).
      { destruct an; [|apply incl_refl]. intros o Ho. apply oadd_In. auto. }
      intros e Hin. apply HE' in Hin. destruct Hin as [(n & Hn & ->)|Hin].
      * apply in_nb in Hn. destruct Hn as (m & -> & Hm).
        destruct Hact as [->|(x & s & -> & HR)]; simpl.
        -- split; [exact HQ|]. split; [exact Hm|]. right. split; [reflexivity|]. split; [reflexivity|].
           apply oadd_In. left. reflexivity.
        -- split; [exact HQ|]. split; [exact Hm|]. left. exact HR.
      * eapply edge_okR_mono; [apply incl_refl|exact Hincl|apply Ha; exact Hin].
    + destruct an as [|x s]; [|exact Hb]. intros o Ho. apply oadd_In in Ho.
      destruct Ho as [->|Ho]; [|auto]. exists tid. split; [reflexivity|]. split; [exact HQ|exact HN].
    + destruct v as [v'|].
      * intros o Ho. destruct (omemb (Occ v' tid) (nb g u tid an)) eqn:Em; [|apply Hold, Hc, Ho].
        apply oadd_In in Ho. destruct Ho as [->|Ho]; [|apply Hold, Hc, Ho].
        apply omemb_In in Em. apply in_nb in Em. destruct Em as (m & Hm & Hin). inversion Hm; subst m.
        exists v', tid. split; [reflexivity|]. split; [exact HQ|]. split.
        -- intros w Hw. inversion Hw. reflexivity.
        -- exists (ren u tid an). apply Hnew. exact Hin.
      * intros o Ho. apply fold_oadd_In in Ho. destruct Ho as [Ho|Ho]; [|apply Hold, Hc, Ho].
        apply in_nb in Ho. destruct Ho as (m & -> & Hm).
        exists m, tid. split; [reflexivity|]. split; [exact HQ|]. split.
        -- intros w Hw. discriminate.
        -- exists (ren u tid an). apply Hnew. exact Hm.
    + intros o Ho. apply in_app_iff in Ho. destruct Ho as [Ho|Ho]; [auto|].
      apply in_nb in Ho. destruct Ho as (m & -> & _). eauto.
    + exact He.
Qed.

Lemma visit_fold act : forall st, (forall an, In an act -> okact an) -> LInv st ->
  LInv (fold_left (visit g u v tid) act st) /\
  incl (l_edges st) (l_edges (fold_left (visit g u v tid) act st)) /\
  incl (l_sources st) (l_sources (fold_left (visit g u v tid) act st)) /\
  (In Root act -> nbrs_t g u tid <> [] -> In (Occ u tid) (l_sources (fold_left (visit g u v tid) act st))).
Proof.
  induction act as [|a act IH]; intros st Hact HL; cbn [fold_left].
  - split; [exact HL|]. split; [apply incl_refl|]. split; [apply incl_refl|]. intros [].
  - destruct (IH (visit g u v tid st a)) as (H1 & H2 & H3 & H4).
    { intros an Han. apply Hact. right. exact Han. }
    { apply visit_LInv; [apply Hact; left; reflexivity|exact HL]. }
    split; [exact H1|]. split; [|split].
    + eapply incl_tran; [apply visit_edges_incl|exact H2].
    + eapply incl_tran; [apply visit_sources_incl|exact H3].
    + intros [->|Hr] Hn; [|auto]. apply H3. apply visit_root_src. exact Hn.
Qed.

End OneInstant.

(** the invariant after the instants [P] have been processed *)
Definition Inv (v : option Z) (P : list Z) (d : dag) (active : list occ) : Prop :=
  (forall e, In e (d_edges d) -> edge_okR P (d_sources d) e) /\
  (forall o, In o (d_sources d) <-> src_ok P o) /\
  (forall o, In o (d_targets d) -> tgt_ok v P (d_edges d) o) /\
  (forall o, In o active -> o = Root \/ exists x s, o = Occ x s /\ In s P) /\
  In Root active.

Lemma Inv_init v : Inv v [] (mkDag [] [] []) [Root].
Proof.
  unfold Inv; simpl. split; [tauto|]. split.
  - intros o. split; [tauto|]. intros (t & _ & [] & _).
  - split; [tauto|]. split; [|auto]. intros o [<-|[]]. auto.
Qed.

Lemma dag_step_Inv v P d active tid :
  Inv v P d active -> (forall s, In s P -> R s tid) ->
  Inv v (P ++ [tid]) (fst (dag_step g u v (d, active) tid)) (snd (dag_step g u v (d, active) tid)).
Proof.
  intros (Ha & Hb & Hc & Hd & He) HR.
  set (Q := P ++ [tid]).
  assert (HQ : In tid Q) by (apply in_or_app; right; left; reflexivity).
  assert (HPQ : incl P Q) by (intros x Hx; apply in_or_app; left; exact Hx).
  set (st0 := mkLoop (d_edges d) (d_sources d) (d_targets d) [] []).
  assert (H0 : LInv v tid Q st0).
  { unfold LInv, st0; simpl. split; [|split; [|split; [|split]]].
    - intros e Hin. eapply edge_okR_mono; [exact HPQ|apply incl_refl|apply Ha; exact Hin].
    - intros o Ho. eapply src_ok_mono; [exact HPQ|apply Hb; exact Ho].
    - intros o Ho. eapply tgt_ok_mono; [exact HPQ|apply incl_refl|apply Hc; exact Ho].
    - intros o [].
    - intros []. }
  assert (Hact : forall an, In an active -> okact tid an).
  { intros an Han. destruct (Hd an Han) as [->|(x & s & -> & Hs)]; [left; reflexivity|].
    right. exists x, s. split; [reflexivity|apply HR; exact Hs]. }
  destruct (visit_fold v tid Q HQ active st0 Hact H0) as ((La & Lb & Lc & Ld & Le) & Ie & Is & Ir).
  set (l := fold_left (visit g u v tid) active st0) in *.
  change (dag_step g u v (d, active) tid) with
    (mkDag (l_edges l) (l_sources l) (l_targets l),
     filter (fun a => negb (omemb a (l_remove l))) (fold_left (fun acc n => oadd n acc) (l_add l) active)).
  cbn [fst snd]. unfold Inv. cbn [d_edges d_sources d_targets].
  split; [exact La|]. split; [|split; [exact Lc|split]].
  - intros o. split; [apply Lb|]. intros (t & -> & Ht & Hn).
    apply in_app_or in Ht. destruct Ht as [Ht|[<-|[]]].
    + apply Is. simpl. apply Hb. exists t. auto.
    + apply Ir; assumption.
  - intros o Ho. apply filter_In in Ho. destruct Ho as [Ho _]. apply fold_oadd_In in Ho.
    destruct Ho as [Ho|Ho].
    + destruct (Ld o Ho) as (n & ->). right. exists n, tid. auto.
    + destruct (Hd o Ho) as [->|(x & s & -> & Hs)]; [left; reflexivity|].
      right. exists x, s. split; [reflexivity|apply HPQ; exact Hs].
  - apply filter_In. split; [apply fold_oadd_In; right; exact He|].
    apply negb_true_iff. apply omemb_nIn. exact Le.
Qed.

Lemma dag_fold_Inv v : forall rest P d active,
  Inv v P d active -> (forall s t, In s P -> In t rest -> R s t) -> StronglySorted R rest ->
  forall d' active', fold_left (dag_step g u v) rest (d, active) = (d', active') ->
  Inv v (P ++ rest) d' active'.
Proof.
  induction rest as [|tid rest IH]; intros P d active HI HP Hs d' active' Hf.
  - simpl in Hf. inversion Hf; subst. rewrite app_nil_r. exact HI.
  - cbn [fold_left] in Hf. inversion Hs as [|? ? Hs' Hall]; subst.
    pose proof (dag_step_Inv v P d active tid HI (fun s Hin => HP s tid Hin (or_introl eq_refl))) as H1.
    destruct (dag_step g u v (d, active) tid) as [d1 a1]. cbn [fst snd] in H1.
    replace (P ++ tid :: rest) with ((P ++ [tid]) ++ rest) by (rewrite <- app_assoc; reflexivity).
    apply (IH (P ++ [tid]) d1 a1); auto.
    intros s t Hin Ht. apply in_app_or in Hin. destruct Hin as [Hin|[<-|[]]].
    + apply HP; [exact Hin|right; exact Ht].
    + rewrite Forall_forall in Hall. apply Hall. exact Ht.
Qed.

End DagInv.

(** * the DAG: soundness of edges, sources, targets (C15) *)

Definition edge_ok (g : graph) (u : Z) (ids : list Z) (srcs : list occ) (e : occ * occ) : Prop :=
  match e with
  | (Occ x s, Occ y t) => In t ids /\ In y (nbrs_t g x t) /\ (s < t \/ (s = t /\ x = u /\ In (Occ u t) srcs))
  | _ => False
  end.

Lemma dag_Inv_lt g u v ids d active :
  StronglySorted Z.lt ids ->
  fold_left (dag_step g u v) ids (mkDag [] [] [], [Root]) = (d, active) ->
  Inv g u Z.lt v ids d active.
Proof.
  intros Hs Hf.
  apply (dag_fold_Inv g u Z.lt v ids [] (mkDag [] [] []) [Root]); auto.
  - apply Inv_init.
  - intros s t [].
Qed.

Lemma ssorted_top (l : list Z) : StronglySorted (fun _ _ => True) l.
Proof. induction l; constructor; auto. apply Forall_forall. auto. Qed.

Lemma dag_Inv_top g u v ids d active :
  fold_left (dag_step g u v) ids (mkDag [] [] [], [Root]) = (d, active) ->
  Inv g u (fun _ _ => True) v ids d active.
Proof.
  intros Hf.
  apply (dag_fold_Inv g u (fun _ _ => True) v ids [] (mkDag [] [] []) [Root]); auto.
  - apply Inv_init.
  - apply ssorted_top.
Qed.

Theorem dag_edges_sound g u v ids d active :
  StronglySorted Z.lt ids ->
  fold_left (dag_step g u v) ids (mkDag [] [] [], [Root]) = (d, active) ->
  forall e, In e (d_edges d) -> edge_ok g u ids (d_sources d) e.
Proof.
  intros Hs Hf. destruct (dag_Inv_lt g u v ids d active Hs Hf) as (Ha & _).
  intros e He. exact (Ha e He).
Qed.

Theorem dag_sources_exact g u v ids d active :
  StronglySorted Z.lt ids ->
  fold_left (dag_step g u v) ids (mkDag [] [] [], [Root]) = (d, active) ->
  forall o, In o (d_sources d) <-> exists t, o = Occ u t /\ In t ids /\ nbrs_t g u t <> [].
Proof.
  intros Hs Hf. destruct (dag_Inv_lt g u v ids d active Hs Hf) as (_ & Hb & _).
  intros o. exact (Hb o).
Qed.

Theorem dag_targets_sound g u v ids d active :
  fold_left (dag_step g u v) ids (mkDag [] [] [], [Root]) = (d, active) ->
  forall o, In o (d_targets d) -> exists y t, o = Occ y t /\ In t ids /\ (forall v', v = Some v' -> y = v') /\
                                   exists x, In (x, Occ y t) (d_edges d).
Proof.
  intros Hf. destruct (dag_Inv_top g u v ids d active Hf) as (_ & _ & Hc & _).
  intros o Ho. exact (Hc o Ho).
Qed.

Theorem dag_no_loop g u v ids d active :
  StronglySorted Z.lt ids ->
  fold_left (dag_step g u v) ids (mkDag [] [] [], [Root]) = (d, active) ->
  (forall t, In t ids -> ~ In u (nbrs_t g u t)) ->
  forall x y, In (x, y) (d_edges d) -> x <> y.
Proof.
  intros Hs Hf Hnl x y Hin. pose proof (dag_edges_sound g u v ids d active Hs Hf _ Hin) as Hok.
  destruct x as [|x s], y as [|y t]; simpl in Hok; try contradiction.
  destruct Hok as (Ht & Hn & Hc). intros Heq. inversion Heq; subst.
  destruct Hc as [Hlt|(_ & -> & _)]; [lia|]. exact (Hnl t Ht Hn).
Qed.

Lemma ssorted_filter (f : Z -> bool) (l : list Z) : StronglySorted Z.lt l -> StronglySorted Z.lt (filter f l).
Proof.
  induction 1 as [|a l Hs IH Hall]; simpl; [constructor|].
  destruct (f a); [|exact IH]. constructor; [exact IH|].
  rewrite Forall_forall in *. intros x Hx. apply filter_In in Hx. apply Hall. tauto.
Qed.

Lemma window_ids_sorted g s e ids :
  NoDup (map fst (g_snaps g)) -> window_ids g s e = Some ids -> StronglySorted Z.lt ids.
Proof.
  intros Hnd. pose proof (sortZ_strict _ Hnd) as Hs.
  change (sortZ (map fst (g_snaps g))) with (snapshot_ids g) in Hs.
  unfold window_ids. destruct (snapshot_ids g) as [|i0 r].
  - intros H. inversion H. constructor.
  - cbv zeta.
    match goal with |- (if ?c then _ else _) = _ -> _ => destruct c end; [discriminate|].
    match goal with |- Some ?x = _ -> _ => set (F := x) end.
    intros H. assert (HF : F = ids) by congruence. rewrite <- HF. apply ssorted_filter. exact Hs.
Qed.

(** * decoding node paths into hops *)

Lemma hops_of_cons2 u a b r :
  hops_of u (a :: b :: r) = (occ_node u a, occ_node u b, otime b) :: hops_of u (b :: r).
Proof. reflexivity. Qed.

Lemma last_cons2 {A} (a b : A) r d : last (a :: b :: r) d = last (b :: r) d.
Proof. reflexivity. Qed.

(** consecutive elements are edges *)
Fixpoint epath (E : list (occ * occ)) (q : list occ) : Prop :=
  match q with
  | a :: ((b :: _) as r) => In (a, b) E /\ epath E r
  | _ => True
  end.

Lemma epath_cons2 E a b r : epath E (a :: b :: r) = (In (a, b) E /\ epath E (b :: r)).
Proof. reflexivity. Qed.

Lemma walk_epath E x t q : walk E x t q -> epath E q /\ (exists q', q = x :: q') /\ last q Root = t.
Proof.
  induction 1 as [x|x y t p Hxy Hne Hw IH].
  - simpl. split; [exact I|]. split; [exists []; reflexivity|reflexivity].
  - destruct IH as (Hep & (q' & ->) & Hl). split; [|split].
    + rewrite epath_cons2. auto.
    + eexists; reflexivity.
    + rewrite last_cons2. exact Hl.
Qed.

Fixpoint chained (p : path) : Prop :=
  match p with
  | (a, b, t) :: (((a', b', t') :: _) as r) => b = a' /\ t < t' /\ chained r
  | _ => True
  end.

Lemma chained_cons2 a b t a' b' t' r :
  chained ((a, b, t) :: (a', b', t') :: r) = (b = a' /\ t < t' /\ chained ((a', b', t') :: r)).
Proof. reflexivity. Qed.

Section Hops.
Variables (g : graph) (u : Z) (ids : list Z) (srcs : list occ) (E : list (occ * occ)).
Hypothesis Hok : forall e, In e E -> edge_ok g u ids srcs e.

Lemma hops_ok q : epath E q ->
  forall a b t, In (a, b, t) (hops_of u q) -> In b (nbrs_t g a t) /\ In t ids.
Proof.
  induction q as [|o1 q IH]; [simpl; intros _ a b t []|].
  destruct q as [|o2 q]; [simpl; intros _ a b t []|].
  rewrite epath_cons2, hops_of_cons2. intros [He Hp] a b t [Heq|Hin]; [|eapply IH; eauto].
  apply Hok in He. destruct o1 as [|x s], o2 as [|y t']; simpl in He; try contradiction.
  simpl in Heq. inversion Heq; subst. tauto.
Qed.

Lemma hops_chained q : epath E q -> keep_path (hops_of u q) = true -> chained (hops_of u q).
Proof.
  induction q as [|o1 q IH]; [simpl; auto|].
  destruct q as [|o2 q]; [simpl; auto|].
  destruct q as [|o3 q]; [simpl; auto|].
  rewrite epath_cons2. intros [He1 Hp] Hk.
  rewrite (hops_of_cons2 u o1 o2) in *. rewrite (hops_of_cons2 u o2 o3) in *.
  pose proof Hp as Hp'. rewrite epath_cons2 in Hp'. destruct Hp' as [He2 _].
  apply Hok in He2. destruct o2 as [|y2 t2], o3 as [|y3 t3]; simpl in He2; try contradiction.
  destruct He2 as (_ & _ & Hlt).
  cbn [keep_path pp_ok otime occ_node] in Hk.
  match type of Hk with (if ?c then _ else _) = _ => destruct c eqn:Ec end; [discriminate|].
  apply orb_false_iff in Ec. destruct Ec as [_ Ec].
  cbn [otime occ_node]. rewrite chained_cons2.
  split; [reflexivity|]. split.
  - destruct Hlt as [?|(? & _)]; lia.
  - apply IH; [exact Hp|exact Hk].
Qed.

Lemma hops_last q : hops_of u q <> [] ->
  exists a, last (hops_of u q) (0, 0, 0) = (a, occ_node u (last q Root), otime (last q Root)).
Proof.
  induction q as [|o1 q IH]; [simpl; congruence|].
  destruct q as [|o2 q]; [simpl; congruence|].
  destruct q as [|o3 q].
  - intros _. simpl. eauto.
  - intros _. rewrite (hops_of_cons2 u o1 o2), last_cons2.
    rewrite (hops_of_cons2 u o2 o3) in *. rewrite last_cons2. apply IH. discriminate.
Qed.

End Hops.

(** * returned paths are genuine (C12, soundness part) *)

Theorem paths_sound g u v start end_ l p :
  NoDup (map fst (g_snaps g)) ->
  time_respecting_paths g u v start end_ = PathsOk l -> In p l ->
  p <> [] /\ (exists b t, hd (0,0,0) p = (u, b, t)) /\ chained p /\
  (forall a b t, In (a, b, t) p -> In b (nbrs_t g a t) /\ exists ids, window_ids g start end_ = Some ids /\ In t ids) /\
  (forall v', v = Some v' -> exists a t, last p (0,0,0) = (a, v', t)).
Proof.
  intros Hnd. unfold time_respecting_paths, temporal_dag.
  destruct (negb (has_node g u start)).
  { intros H; inversion H; subst. intros []. }
  destruct (window_ids g start end_) as [ids|] eqn:Hw; [|discriminate].
  destruct (fold_left (dag_step g u v) ids (mkDag [] [] [], [Root])) as [d active] eqn:Hf.
  cbn [fst]. intros Htr Hin. inversion Htr; subst l. clear Htr.
  pose proof (window_ids_sorted _ _ _ _ Hnd Hw) as Hs.
  pose proof (dag_edges_sound _ _ _ _ _ _ Hs Hf) as HE.
  pose proof (dag_sources_exact _ _ _ _ _ _ Hs Hf) as HS.
  pose proof (dag_targets_sound _ _ _ _ _ _ Hf) as HT.
  unfold all_paths_dag in Hin. apply dedup_In in Hin. destruct Hin as [Hin _].
  apply filter_In in Hin. destruct Hin as [Hin Hk].
  apply in_flat_map in Hin. destruct Hin as (x & Hx & Hin).
  apply in_flat_map in Hin. destruct Hin as (y & Hy & Hin).
  apply in_map_iff in Hin. destruct Hin as (q & <- & Hq).
  apply dfs_sound in Hq. destruct Hq as (Hwk & _ & _).
  apply walk_epath in Hwk. destruct Hwk as (Hep & (q' & Eq) & Hlast).
  apply HS in Hx. destruct Hx as (t0 & -> & _ & _).
  destruct (HT y Hy) as (yy & ty & -> & _ & Hv & _).
  assert (Hne : hops_of u q <> []). { intros E0; rewrite E0 in Hk; discriminate. }
  split; [exact Hne|]. split; [|split; [|split]].
  - subst q. destruct q' as [|b q']; [simpl in Hne; congruence|].
    rewrite hops_of_cons2. simpl. eauto.
  - eapply hops_chained; eauto.
  - intros a b t Hh. destruct (hops_ok _ _ _ _ _ HE q Hep a b t Hh) as [H1 H2].
    split; [exact H1|]. exists ids. split; [reflexivity|exact H2].
  - intros v' Ev. destruct (hops_last u q Hne) as (a & Hl). rewrite Hl, Hlast. simpl.
    rewrite (Hv v' Ev). eauto.
Qed.

Theorem paths_nodup g u v start end_ l : time_respecting_paths g u v start end_ = PathsOk l -> NoDup l.
Proof.
  unfold time_respecting_paths. destruct (negb (has_node g u start)).
  - intros H; inversion H; constructor.
  - destruct (temporal_dag g u v start end_); [|discriminate].
    intros H; inversion H. unfold all_paths_dag. apply dedup_NoDup.
Qed.
