(** QueryFacts2: the aggregate queries (degree sums / handshake, size, density, degree histogram,
    non-neighbours, non-interactions, node snapshots, is_empty) characterised through
    [has_interaction] and the static edge set [static_edges]. *)
From DynVerif Require Import Base Graph Spec.
From DynVerif.proofs Require Import AListFacts CoreInv QueryFacts.
From Coq Require Import Sorting.Permutation.

(** ** summation helpers *)
Lemma sumZ_map_add {A} (f h : A -> Z) (l : list A) :
  sumZ (map (fun x => f x + h x) l) = sumZ (map f l) + sumZ (map h l).
Proof. unfold sumZ. induction l as [|a r IH]; simpl; [reflexivity|]. rewrite IH. lia. Qed.

Lemma sumZ_len_flat_map {A B} (h : A -> list B) (l : list A) :
  sumZ (map (fun n => Z.of_nat (length (h n))) l) = Z.of_nat (length (flat_map h l)).
Proof. unfold sumZ. induction l as [|a r IH]; simpl; [reflexivity|]. rewrite IH, app_length. lia. Qed.

Lemma degree_dict_0 g nb t : degree_dict g 0 nb t = map (fun n => (n, deg1 g t n)) (nbunch_nodes g nb).
Proof. reflexivity. Qed.
Lemma degree_dict_1 g nb t : degree_dict g 1 nb t = map (fun n => (n, in_deg1 g t n)) (nbunch_nodes g nb).
Proof. reflexivity. Qed.
Lemma degree_dict_2 g nb t : degree_dict g 2 nb t = map (fun n => (n, out_deg1 g t n)) (nbunch_nodes g nb).
Proof. reflexivity. Qed.

Lemma sum_dict (f : Z -> Z) (l : list Z) : sumZ (map snd (map (fun n => (n, f n)) l)) = sumZ (map f l).
Proof. rewrite map_map. reflexivity. Qed.

Lemma out_sum_len g t :
  sumZ (map (fun n => Z.of_nat (length (nbrs_at g n t))) (node_ids g)) = Z.of_nat (length (out_interactions g None t)).
Proof.
  unfold out_interactions, nbunch_nodes. rewrite <- sumZ_len_flat_map. f_equal.
  apply map_ext. intros n. rewrite map_length. reflexivity.
Qed.
Lemma in_sum_len g t :
  sumZ (map (fun n => Z.of_nat (length (preds_at g n t))) (node_ids g)) = Z.of_nat (length (in_interactions g None t)).
Proof.
  unfold in_interactions, nbunch_nodes. rewrite <- sumZ_len_flat_map. f_equal.
  apply map_ext. intros n. rewrite map_length. reflexivity.
Qed.

(** ** the interaction listings against the static edge set *)
Lemma out_len_directed g t : InvAdj g -> g_dir g = true ->
  length (out_interactions g None t) = length (static_edges g t).
Proof.
  intros HI Hd. apply Permutation_length, NoDup_Permutation.
  - apply out_interactions_NoDup; assumption.
  - apply static_edges_NoDup; assumption.
  - intros [u v]. rewrite out_interactions_spec by assumption. rewrite <- static_edges_spec.
    rewrite Hd. reflexivity.
Qed.
Lemma in_len_directed g t : InvAdj g -> g_dir g = true ->
  length (in_interactions g None t) = length (static_edges g t).
Proof.
  intros HI Hd. apply Permutation_length, NoDup_Permutation.
  - apply in_interactions_NoDup; assumption.
  - apply static_edges_NoDup; assumption.
  - intros [u v]. rewrite in_interactions_spec by assumption. rewrite <- static_edges_spec.
    rewrite Hd. reflexivity.
Qed.

Definition no_selfloop (g : graph) (t : option Z) : Prop := forall n, has_interaction g n n t = false.

(* an undirected key and its two orientations *)
Definition both (k : Z * Z) : list (Z * Z) := [(fst k, snd k); (snd k, fst k)].

Lemma both_length (l : list (Z * Z)) : length (flat_map both l) = (2 * length l)%nat.
Proof. induction l as [|a r IH]; simpl; [reflexivity|]. rewrite IH. lia. Qed.

Lemma static_edges_lt g t a b : InvAdj g -> g_dir g = false -> no_selfloop g t ->
  In (a, b) (static_edges g t) -> a < b.
Proof.
  intros (_ & _ & _ & Hle) Hd Hns H. specialize (Hle Hd).
  apply filter_In in H. destruct H as (Hin & Hp).
  pose proof (Hle _ _ Hin) as Hab. destruct (Z.eq_dec a b) as [->|Hne]; [|lia].
  specialize (Hns b). unfold has_interaction in Hns. rewrite Hd in Hns. unfold nk in Hns.
  rewrite Z.leb_refl in Hns. congruence.
Qed.

Lemma out_len_undirected g t : InvAdj g -> g_dir g = false -> no_selfloop g t ->
  length (out_interactions g None t) = length (flat_map both (static_edges g t)).
Proof.
  intros HI Hd Hns.
  assert (Hlt : forall a b, In (a, b) (static_edges g t) -> a < b)
    by (intros a b; apply static_edges_lt; assumption).
  apply Permutation_length, NoDup_Permutation.
  - apply out_interactions_NoDup; assumption.
  - apply NoDup_flat_map_intro.
    + apply static_edges_NoDup; assumption.
    + intros [a b] H. apply Hlt in H. unfold both; simpl.
      constructor; [|constructor; [intros []|constructor]].
      intros [E|[]]. inversion E. lia.
    + intros [a b] [a' b'] [z1 z2] Hx Hy. apply Hlt in Hx. apply Hlt in Hy. unfold both; simpl.
      intros [E|[E|[]]] [E'|[E'|[]]]; inversion E; inversion E'; subst; f_equal; lia.
  - intros [u v]. rewrite out_interactions_spec by assumption. rewrite in_flat_map. split.
    + intros H. exists (nk (g_dir g) u v). split; [apply static_edges_spec; assumption|].
      rewrite Hd. unfold nk, both. destruct (u <=? v); simpl; auto.
    + intros ([a b] & Hin & Hb). pose proof (Hlt _ _ Hin) as Hab.
      apply filter_In in Hin. destruct Hin as (_ & Hp).
      unfold has_interaction. rewrite Hd. unfold both in Hb; simpl in Hb.
      destruct Hb as [E|[E|[]]]; inversion E; subst; unfold nk;
        destruct (_ <=? _) eqn:E1; first [assumption | lia].
Qed.

(** ** degree sums, size *)
Lemma sum_deg0 g t : sumZ (map snd (degree_dict g 0 None t)) = sumZ (map (deg1 g t) (node_ids g)).
Proof. rewrite degree_dict_0. simpl nbunch_nodes. apply sum_dict. Qed.

Theorem out_degree_sum g t : InvAdj g -> g_dir g = true ->
  sumZ (map snd (degree_dict g 2 None t)) = Z.of_nat (length (static_edges g t)).
Proof.
  intros HI Hd. rewrite degree_dict_2. simpl nbunch_nodes. rewrite sum_dict.
  unfold out_deg1. rewrite out_sum_len, out_len_directed by assumption. reflexivity.
Qed.

Theorem in_degree_sum g t : InvAdj g -> g_dir g = true ->
  sumZ (map snd (degree_dict g 1 None t)) = Z.of_nat (length (static_edges g t)).
Proof.
  intros HI Hd. rewrite degree_dict_1. simpl nbunch_nodes. rewrite sum_dict.
  unfold in_deg1. rewrite in_sum_len, in_len_directed by assumption. reflexivity.
Qed.

Theorem degree_sum_directed g t : InvAdj g -> g_dir g = true ->
  sumZ (map snd (degree_dict g 0 None t)) = 2 * Z.of_nat (length (static_edges g t)).
Proof.
  intros HI Hd. rewrite sum_deg0.
  rewrite (map_ext (deg1 g t)
             (fun n => Z.of_nat (length (nbrs_at g n t)) + Z.of_nat (length (preds_at g n t))))
    by (intros n; apply deg_directed; assumption).
  rewrite (sumZ_map_add (fun n => Z.of_nat (length (nbrs_at g n t)))
                        (fun n => Z.of_nat (length (preds_at g n t)))).
  rewrite out_sum_len, in_sum_len, out_len_directed, in_len_directed by assumption. lia.
Qed.

Theorem degree_sum_undirected g t : InvAdj g -> g_dir g = false -> no_selfloop g t ->
  sumZ (map snd (degree_dict g 0 None t)) = 2 * Z.of_nat (length (static_edges g t)).
Proof.
  intros HI Hd Hns. rewrite sum_deg0.
  rewrite (map_ext (deg1 g t) (fun n => Z.of_nat (length (nbrs_at g n t))))
    by (intros n; apply deg_undirected; assumption).
  rewrite out_sum_len, out_len_undirected, both_length by assumption. lia.
Qed.

Theorem size_directed g t : InvAdj g -> g_dir g = true -> size g t = Z.of_nat (length (static_edges g t)).
Proof.
  intros HI Hd. unfold size. rewrite degree_sum_directed by assumption.
  rewrite Z.mul_comm. apply Z.div_mul. lia.
Qed.

Theorem size_undirected g t : InvAdj g -> g_dir g = false -> no_selfloop g t ->
  size g t = Z.of_nat (length (static_edges g t)).
Proof.
  intros HI Hd Hns. unfold size. rewrite degree_sum_undirected by assumption.
  rewrite Z.mul_comm. apply Z.div_mul. lia.
Qed.

(* number_of_interactions(t) is size *)
Corollary number_of_interactions_directed g t : InvAdj g -> g_dir g = true ->
  number_of_interactions g None t = Some (Z.of_nat (length (static_edges g t))).
Proof. intros HI Hd. unfold number_of_interactions. rewrite size_directed by assumption. reflexivity. Qed.
Corollary number_of_interactions_undirected g t : InvAdj g -> g_dir g = false -> no_selfloop g t ->
  number_of_interactions g None t = Some (Z.of_nat (length (static_edges g t))).
Proof. intros HI Hd Hns. unfold number_of_interactions. rewrite size_undirected by assumption. reflexivity. Qed.

(** ** degree dict and nbunch *)
Theorem degree_dict_nbunch g kind nb t n d :
  In (n, d) (degree_dict g kind (Some nb) t) -> In n nb /\ has_node_flat g n = true.
Proof.
  unfold degree_dict, nbunch_nodes. intros H. apply in_map_iff in H. destruct H as (x & E & Hx).
  inversion E; subst. apply filter_In in Hx. exact Hx.
Qed.

Theorem degree_dict_all g kind t : map fst (degree_dict g kind None t) = node_ids g.
Proof. unfold degree_dict, nbunch_nodes. rewrite map_map. simpl. apply map_id. Qed.

(** ** density *)
Theorem density_flat g : density g None =
  (let n := Z.of_nat (length (g_nodes g)) in let m := size g None in
   if (m =? 0) || (n <=? 1) then (0, 1) else ((if g_dir g then m else 2 * m), n * (n - 1))).
Proof. reflexivity. Qed.

(** ** degree histogram *)
Lemma nth_map_zrange (f : Z -> Z) (d : Z) (n : nat) : forall a k, (k < n)%nat ->
  nth k (map f (zrange a n)) d = f (a + Z.of_nat k).
Proof.
  induction n as [|n IH]; intros a k H; [lia|]. destruct k as [|k]; cbn [zrange map nth].
  - f_equal. lia.
  - rewrite IH by lia. f_equal. lia.
Qed.

Lemma count_eq_filter i (l : list (Z * Z)) :
  count_eq i (map snd l) = Z.of_nat (length (filter (fun nd => snd nd =? i) l)).
Proof.
  induction l as [|[n d] r IH]; [reflexivity|]. cbn [map snd count_eq filter]. rewrite IH.
  rewrite (Z.eqb_sym d i). destruct (i =? d); cbn [length]; lia.
Qed.

Theorem degree_histogram_spec g t i : 0 <= i <= maxZ 0 (map snd (degree_dict g 0 None t)) ->
  nth (Z.to_nat i) (degree_histogram g t) (-1) = Z.of_nat (length (filter (fun nd => snd nd =? i) (degree_dict g 0 None t))).
Proof.
  intros Hi. unfold degree_histogram. cbv zeta.
  rewrite (nth_map_zrange (fun j => count_eq j (map snd (degree_dict g 0 None t)))) by lia.
  replace (0 + Z.of_nat (Z.to_nat i)) with i by lia. apply count_eq_filter.
Qed.

(** ** non_neighbors *)
Theorem non_neighbors_spec g n t x : InvAdj g -> has_node_flat g n = true ->
  forall l, non_neighbors g n t = Some l ->
  (In x l <-> In x (node_ids g) /\ x <> n /\ has_interaction g n x t = false /\ has_interaction g x n t = false).
Proof.
  intros HI Hn l. unfold non_neighbors, all_neighbors. rewrite Hn. intros E. inversion E; subst l; clear E.
  rewrite filter_In, negb_true_iff.
  assert (Hm : forall l', memZ x l' = false <-> ~ In x l').
  { intros l'. rewrite <- memZ_In. destruct (memZ x l'); split; congruence. }
  rewrite orb_false_iff, Z.eqb_neq, Hm.
  destruct (g_dir g) eqn:Hd.
  - rewrite in_app_iff, preds_at_spec, nbrs_at_spec by assumption.
    destruct (has_interaction g n x t), (has_interaction g x n t); intuition congruence.
  - rewrite nbrs_at_spec by assumption. rewrite (has_interaction_sym g x n) by assumption.
    destruct (has_interaction g n x t); intuition congruence.
Qed.

(* unknown node: the digraph raises; the undirected graph raises without t and, with t given, answers every node but n *)
Lemma non_neighbors_unknown g n t : has_node_flat g n = false ->
  non_neighbors g n t =
  (if g_dir g then None else match t with None => None | Some _ => Some (filter (fun x => negb (x =? n)) (node_ids g)) end).
Proof.
  intros Hn. unfold non_neighbors, all_neighbors. rewrite Hn. destruct (g_dir g); [reflexivity|].
  destruct t; [|reflexivity]. f_equal. apply filter_ext. intros x. simpl. rewrite orb_false_r. reflexivity.
Qed.

(** ** non_interactions *)
Lemma pairs_after_In l : forall a b, In (a, b) (pairs_after l) -> In a l /\ In b l.
Proof.
  induction l as [|x r IH]; intros a b; simpl; [tauto|]. rewrite in_app_iff, in_map_iff.
  intros [(y & E & Hy)|H].
  - inversion E; subst. auto.
  - apply IH in H. tauto.
Qed.

Lemma pairs_after_neq l : NoDup l -> forall a b, In (a, b) (pairs_after l) -> a <> b.
Proof.
  induction l as [|x r IH]; intros Hnd a b; simpl; [tauto|].
  inversion Hnd as [|? ? Hni Hr]; subst. rewrite in_app_iff, in_map_iff.
  intros [(y & E & Hy)|H].
  - inversion E; subst. intros ->. contradiction.
  - apply IH; assumption.
Qed.

Lemma pairs_after_complete l : forall a b, In a l -> In b l -> a <> b ->
  In (a, b) (pairs_after l) \/ In (b, a) (pairs_after l).
Proof.
  induction l as [|x r IH]; intros a b; simpl; [tauto|]. rewrite !in_app_iff.
  intros [Ha|Ha] [Hb|Hb] Hne.
  - congruence.
  - subst. left. left. apply in_map. assumption.
  - subst. right. left. apply in_map. assumption.
  - destruct (IH a b Ha Hb Hne); auto.
Qed.

Lemma pairs_after_NoDup l : NoDup l -> NoDup (pairs_after l).
Proof.
  induction l as [|x r IH]; intros Hnd; simpl; [constructor|].
  inversion Hnd as [|? ? Hni Hr]; subst. apply NoDup_app_intro.
  - apply NoDup_map_inj; [intros y z E; inversion E; reflexivity|assumption].
  - apply IH; assumption.
  - intros [a b] H1 H2. apply in_map_iff in H1. destruct H1 as (y & E & _). inversion E; subst.
    apply pairs_after_In in H2. tauto.
Qed.

(* the listed pairs: distinct nodes not adjacent at t (holds on both classes) *)
Lemma non_interactions_sound g t a b : InvAdj g ->
  In (a, b) (non_interactions g t) -> In a (node_ids g) /\ In b (node_ids g) /\ a <> b /\ has_interaction g a b t = false.
Proof.
  intros (_ & Hn & _) H. unfold non_interactions in H. apply filter_In in H. destruct H as (H & Hf).
  simpl in Hf. apply negb_true_iff in Hf.
  destruct (pairs_after_In _ _ _ H). pose proof (pairs_after_neq _ Hn _ _ H). auto.
Qed.

(* [non_interactions_spec] as stated (no class hypothesis) fails on the digraph: with the single
   interaction 1 -> 2, the pair (2, 1) is not adjacent, but the only candidate listed is (1, 2), which is. *)
Definition cex_dir : graph := fst (add_interaction (empty_graph true false) 1 2 (Some 0) None).
Eval vm_compute in (node_ids cex_dir, has_interaction cex_dir 2 1 None, has_interaction cex_dir 1 2 None,
                    non_interactions cex_dir None).

Lemma cex_dir_InvAdj : InvAdj cex_dir.
Proof.
  unfold cex_dir. destruct (add_interaction (empty_graph true false) 1 2 (Some 0) None) as [g' o] eqn:E.
  simpl. eapply InvAdj_step; [apply InvAdj_init|exact E].
Qed.

Theorem non_interactions_spec_false :
  ~ (forall g t a b, InvAdj g ->
     (In (a, b) (non_interactions g t) -> In a (node_ids g) /\ In b (node_ids g) /\ a <> b /\ has_interaction g a b t = false) /\
     (In a (node_ids g) -> In b (node_ids g) -> a <> b -> has_interaction g a b t = false ->
        In (a, b) (non_interactions g t) \/ In (b, a) (non_interactions g t))).
Proof.
  intros H. destruct (H cex_dir None 2 1 cex_dir_InvAdj) as (_ & H2).
  assert (X : In (2, 1) (non_interactions cex_dir None) \/ In (1, 2) (non_interactions cex_dir None)).
  { apply H2.
    - vm_compute. auto.
    - vm_compute. auto.
    - discriminate.
    - vm_compute. reflexivity. }
  vm_compute in X. tauto.
Qed.

Theorem non_interactions_spec_alt g t a b : InvAdj g -> g_dir g = false ->
  (In (a, b) (non_interactions g t) -> In a (node_ids g) /\ In b (node_ids g) /\ a <> b /\ has_interaction g a b t = false) /\
  (In a (node_ids g) -> In b (node_ids g) -> a <> b -> has_interaction g a b t = false ->
     In (a, b) (non_interactions g t) \/ In (b, a) (non_interactions g t)).
Proof.
  intros HI Hd. split; [apply non_interactions_sound; assumption|].
  intros Ha Hb Hne Hf. unfold non_interactions.
  destruct (pairs_after_complete _ _ _ Ha Hb Hne) as [H|H]; [left|right]; apply filter_In; split; auto; simpl.
  - rewrite Hf. reflexivity.
  - rewrite has_interaction_sym, Hf by assumption. reflexivity.
Qed.

(* each unordered pair at most once *)
Lemma non_interactions_once g t a b : InvAdj g ->
  In (a, b) (non_interactions g t) -> ~ In (b, a) (non_interactions g t).
Proof.
  intros (_ & Hn & _) H1 H2. unfold non_interactions in *.
  apply filter_In in H1. apply filter_In in H2. destruct H1 as (H1 & _). destruct H2 as (H2 & _).
  revert H1 H2. generalize (node_ids g) Hn. clear. intros l. induction l as [|x r IH]; intros Hnd; simpl; [tauto|].
  inversion Hnd as [|? ? Hni Hr]; subst. rewrite !in_app_iff, !in_map_iff.
  intros [(y & E & Hy)|H1] [(z & E' & Hz)|H2].
  - inversion E; inversion E'; subst. contradiction.
  - inversion E; subst. apply pairs_after_In in H2. tauto.
  - inversion E'; subst. apply pairs_after_In in H1. tauto.
  - apply IH; assumption.
Qed.

Theorem non_interactions_NoDup g t : InvAdj g -> NoDup (non_interactions g t).
Proof.
  intros (_ & Hn & _). unfold non_interactions. apply NoDup_filter. apply pairs_after_NoDup. assumption.
Qed.

(** ** node snapshots *)
Theorem node_snapshots_spec g n t : In t (node_snapshots g n) <-> In t (snapshot_ids g) /\ has_node g n (Some t) = true.
Proof. unfold node_snapshots. apply filter_In. Qed.

(** ** is_empty *)
(* [is_empty_spec] as stated (no invariant) fails on an undirected state whose key is not (min,max):
   no query pair ever normalises to it.  Such a state is not reachable; under [InvAdj] the statement holds. *)
Definition cex_empty : graph := mkG false false [(1, 0); (2, 0)] [((2, 1), ((0, 0), []))] [] [] 0 false.
Eval vm_compute in (is_empty cex_empty, has_interaction cex_empty 1 2 None, has_interaction cex_empty 2 1 None).

Theorem is_empty_spec_false :
  ~ (forall g, is_empty g = true <-> forall u v, has_interaction g u v None = false).
Proof.
  intros H. destruct (H cex_empty) as (_ & H2).
  assert (X : is_empty cex_empty = true); [apply H2|discriminate X].
  intros u v. unfold has_interaction, key_present, cex_empty. cbn [g_edges g_dir aget].
  destruct (peqb (nk false u v) (2, 1)) eqn:P; [|reflexivity].
  apply peqb_eq in P. unfold nk in P. destruct (u <=? v) eqn:E; inversion P; lia.
Qed.

Theorem is_empty_spec_alt g : InvAdj g ->
  (is_empty g = true <-> forall u v, has_interaction g u v None = false).
Proof.
  intros (_ & _ & _ & Hle). unfold is_empty, has_interaction, key_present.
  destruct (g_edges g) as [|[[a b] tl] r] eqn:E.
  - split; [intros _ u v; reflexivity|reflexivity].
  - split; [discriminate|]. intros H. exfalso. specialize (H a b).
    assert (Hk : nk (g_dir g) a b = (a, b)).
    { unfold nk. destruct (g_dir g) eqn:Hd; [reflexivity|].
      assert (a <= b) by (apply Hle; [reflexivity|try rewrite E; left; reflexivity]).
      destruct (a <=? b) eqn:E1; [reflexivity|lia]. }
    rewrite Hk in H. cbn [aget] in H. rewrite peqb_refl in H. discriminate.
Qed.

(* on the digraph no invariant is needed *)
Lemma is_empty_spec_directed g : g_dir g = true ->
  (is_empty g = true <-> forall u v, has_interaction g u v None = false).
Proof.
  intros Hd. unfold is_empty, has_interaction, key_present. rewrite Hd.
  destruct (g_edges g) as [|[[a b] tl] r].
  - split; [intros _ u v; reflexivity|reflexivity].
  - split; [discriminate|]. intros H. exfalso. specialize (H a b).
    unfold nk in H. cbn [aget] in H. rewrite peqb_refl in H. discriminate.
Qed.
