From DynVerif Require Import Base Annotate.
From Coq Require Import Sorting.Sorted Sorting.Permutation.

(** AnnotateFacts: the selection passes of annotate_paths return exactly the minimisers (with the
    multiplicity/order of a filter for the running-minimum pass, without duplicates for the
    dictionary-based pass), and compact_timeslot is the rank among the sorted distinct values. *)

(** * select: running minimum with a tie list *)

Lemma filter_none {A} (f : A -> bool) (l : list A) :
  (forall x, In x l -> f x = false) -> filter f l = [].
Proof.
  induction l as [|a l IH]; simpl; intros H; auto.
  rewrite (H a) by auto. apply IH. intros x Hx. apply H. auto.
Qed.

Lemma sel_inv (m : path -> Z) (l : list path) :
  (l = [] /\ fold_left (sel_step m) l (None, []) = (None, [])) \/
  (exists mv, fold_left (sel_step m) l (None, []) = (Some mv, filter (fun p => m p =? mv) l) /\
              (forall y, In y l -> mv <= m y) /\ (exists y, In y l /\ m y = mv)).
Proof.
  induction l as [|p l IH] using rev_ind.
  - left. auto.
  - right. rewrite fold_left_app. simpl.
    destruct IH as [[-> E] | (mv & E & Hlb & (z & Hz & Hmz))].
    + simpl. exists (m p). unfold sel_step. simpl.
      rewrite Z.eqb_refl. split; [reflexivity|]. split.
      * intros y [<-|[]]. lia.
      * exists p. split; auto.
    + rewrite E. unfold sel_step. cbn [fst snd].
      destruct (m p <? mv) eqn:Hlt; [|destruct (m p =? mv) eqn:Heq].
      * exists (m p). rewrite filter_app. simpl. rewrite Z.eqb_refl.
        rewrite filter_none.
        2:{ intros x Hx. specialize (Hlb x Hx). lia. }
        split; [reflexivity|]. split.
        -- intros y Hy. apply in_app_or in Hy. destruct Hy as [Hy|[<-|[]]]; [|lia].
           specialize (Hlb y Hy). lia.
        -- exists p. split; auto. apply in_or_app. right. simpl. auto.
      * exists mv. rewrite filter_app. simpl. rewrite Heq.
        split; [reflexivity|]. split.
        -- intros y Hy. apply in_app_or in Hy. destruct Hy as [Hy|[<-|[]]]; [|lia].
           apply Hlb; auto.
        -- exists z. split; auto. apply in_or_app. auto.
      * exists mv. rewrite filter_app. simpl. rewrite Heq. rewrite app_nil_r.
        split; [reflexivity|]. split.
        -- intros y Hy. apply in_app_or in Hy. destruct Hy as [Hy|[<-|[]]]; [|lia].
           apply Hlb; auto.
        -- exists z. split; auto. apply in_or_app. auto.
Qed.

(* ... and keeps multiplicity/order: it is the filter of the input by "is a minimiser" *)
Lemma select_filter (m : path -> Z) (l : list path) :
  l <> [] -> exists mv, (forall y, In y l -> mv <= m y) /\ (exists y, In y l /\ m y = mv) /\
                       select m l = filter (fun p => m p =? mv) l.
Proof.
  intros Hne. unfold select.
  destruct (sel_inv m l) as [[-> _] | (mv & E & Hlb & Hat)]; [congruence|].
  exists mv. rewrite E. simpl. auto.
Qed.

(* the single pass with a running minimum and a tie list returns exactly the minimisers *)
Lemma select_spec (m : path -> Z) (l : list path) (x : path) :
  In x (select m l) <-> In x l /\ forall y, In y l -> m x <= m y.
Proof.
  destruct l as [|p l].
  - unfold select. simpl. split; [intros [] | intros [[] _]].
  - destruct (select_filter m (p :: l)) as (mv & Hlb & (z & Hz & Hmz) & E); [discriminate|].
    rewrite E, filter_In. split.
    + intros [Hx Hm]. split; auto. intros y Hy. specialize (Hlb y Hy). lia.
    + intros [Hx Hm]. split; auto. specialize (Hm z Hz). specialize (Hlb x Hx). lia.
Qed.

Lemma select_nonempty (m : path -> Z) (l : list path) : l <> [] -> select m l <> [].
Proof.
  intros Hne. destruct (select_filter m l Hne) as (mv & Hlb & (z & Hz & Hmz) & E).
  intros Hnil. assert (Hin : In z (select m l)).
  { rewrite E, filter_In. split; auto. lia. }
  rewrite Hnil in Hin. destruct Hin.
Qed.

(** * path equality *)

Lemma hop_eqb_eq (a b : hop) : hop_eqb a b = true <-> a = b.
Proof.
  destruct a as [[a1 a2] a3], b as [[b1 b2] b3]. unfold hop_eqb. simpl. split.
  - intros H. assert (a1 = b1) by lia. assert (a2 = b2) by lia. assert (a3 = b3) by lia.
    subst. reflexivity.
  - intros H. inversion H. subst. lia.
Qed.

Lemma path_eqb_eq (p q : path) : path_eqb p q = true <-> p = q.
Proof.
  revert q. induction p as [|a p IH]; intros [|b q]; simpl.
  - split; auto.
  - split; discriminate.
  - split; discriminate.
  - rewrite andb_true_iff, hop_eqb_eq, IH. split.
    + intros [-> ->]. reflexivity.
    + intros H. inversion H. auto.
Qed.

Lemma path_mem_In (p : path) (seen : list path) :
  existsb (path_eqb p) seen = true <-> In p seen.
Proof.
  rewrite existsb_exists. split.
  - intros (y & Hy & E). apply path_eqb_eq in E. subst. auto.
  - intros H. exists p. split; auto. apply path_eqb_eq. reflexivity.
Qed.

(** * dedup / min_among *)

Lemma dedup_In (l seen : list path) (x : path) :
  In x (dedup l seen) <-> In x l /\ ~ In x seen.
Proof.
  revert seen. induction l as [|p r IH]; intros seen; simpl.
  - tauto.
  - destruct (existsb (path_eqb p) seen) eqn:E.
    + apply path_mem_In in E. rewrite IH. split.
      * intros [H1 H2]. auto.
      * intros [[<-|H1] H2]; [contradiction|auto].
    + assert (Hn : ~ In p seen).
      { intros H. apply path_mem_In in H. congruence. }
      simpl. rewrite IH. simpl. split.
      * intros [<-|[H1 H2]]; [auto|]. split; auto.
      * intros [[<-|H1] H2]; [auto|].
        destruct (path_eqb p x) eqn:Epx.
        -- apply path_eqb_eq in Epx. auto.
        -- right. split; auto. intros [->|H]; [|contradiction].
           assert (path_eqb x x = true) by (apply path_eqb_eq; reflexivity). congruence.
Qed.

Lemma dedup_NoDup (l seen : list path) : NoDup (dedup l seen).
Proof.
  revert seen. induction l as [|p r IH]; intros seen; simpl.
  - constructor.
  - destruct (existsb (path_eqb p) seen); [apply IH|].
    constructor; [|apply IH].
    rewrite dedup_In. simpl. intros [_ H]. apply H. auto.
Qed.

Lemma minZ_list_le (d : Z) (l : list Z) (x : Z) : In x l -> minZ_list d l <= x.
Proof.
  revert d. induction l as [|a l IH]; simpl; intros d H; [destruct H|].
  destruct H as [->|H]; [lia|]. specialize (IH a H). lia.
Qed.

Lemma minZ_list_in (d : Z) (l : list Z) : In (minZ_list d l) (d :: l).
Proof.
  revert d. induction l as [|a l IH]; intros d; simpl.
  - auto.
  - right. specialize (IH a).
    destruct (Z.min_spec a (minZ_list a l)) as [[_ ->]|[_ ->]]; [auto|].
    exact IH.
Qed.

(* the dictionary-based secondary selection: exactly the minimisers, without duplicates *)
Lemma min_among_spec (m : path -> Z) (l : list path) (x : path) :
  In x (min_among m l) <-> In x l /\ forall y, In y l -> m x <= m y.
Proof.
  assert (HIn : forall z, In z (dedup l []) <-> In z l).
  { intros z. rewrite dedup_In. simpl. tauto. }
  unfold min_among. destruct (dedup l []) as [|p0 r] eqn:E.
  - split; [intros []|]. intros [H _]. apply HIn in H. exact H.
  - set (ks := p0 :: r) in *. set (mv := minZ_list (m p0) (map m ks)).
    assert (Hlb : forall y, In y ks -> mv <= m y).
    { intros y Hy. apply minZ_list_le. apply in_map. exact Hy. }
    assert (Hat : exists z, In z ks /\ m z = mv).
    { destruct (minZ_list_in (m p0) (map m ks)) as [H|H].
      - exists p0. split; [left; reflexivity|exact H].
      - apply in_map_iff in H. destruct H as (z & Hz1 & Hz2). exists z. auto. }
    rewrite filter_In. split.
    + intros [Hx Hm]. split; [apply HIn; exact Hx|].
      intros y Hy. apply HIn in Hy. specialize (Hlb y Hy). lia.
    + intros [Hx Hm]. apply HIn in Hx. split; auto.
      destruct Hat as (z & Hz & Hmz). apply HIn in Hz.
      specialize (Hm z Hz). specialize (Hlb x Hx). lia.
Qed.

Lemma min_among_NoDup (m : path -> Z) (l : list path) : NoDup (min_among m l).
Proof.
  unfold min_among. pose proof (dedup_NoDup l []) as H.
  destruct (dedup l []) as [|p0 r]; [constructor|].
  apply NoDup_filter. exact H.
Qed.

(** * sortZ is a sort *)

Lemma insZ_perm (x : Z) (l : list Z) : Permutation (insZ x l) (x :: l).
Proof.
  induction l as [|y r IH]; simpl; auto.
  destruct (x <=? y); auto.
  eapply perm_trans; [apply perm_skip; exact IH|apply perm_swap].
Qed.

Lemma sortZ_perm (l : list Z) : Permutation (sortZ l) l.
Proof.
  induction l as [|x l IH]; simpl; auto.
  eapply perm_trans; [apply insZ_perm|]. apply perm_skip. exact IH.
Qed.

Lemma sortZ_In (l : list Z) (x : Z) : In x (sortZ l) <-> In x l.
Proof.
  split; apply Permutation_in; [|apply Permutation_sym]; apply sortZ_perm.
Qed.

Lemma sortZ_length (l : list Z) : length (sortZ l) = length l.
Proof. apply Permutation_length, sortZ_perm. Qed.

Lemma insZ_In (x z : Z) (l : list Z) : In z (insZ x l) <-> z = x \/ In z l.
Proof.
  split.
  - intros H. apply (Permutation_in _ (insZ_perm x l)) in H. simpl in H. destruct H; auto.
  - intros H. apply (Permutation_in _ (Permutation_sym (insZ_perm x l))). simpl.
    destruct H; auto.
Qed.

Lemma insZ_ssorted_le (x : Z) (l : list Z) :
  StronglySorted Z.le l -> StronglySorted Z.le (insZ x l).
Proof.
  induction l as [|y r IH]; simpl; intros H.
  - constructor; constructor.
  - inversion H as [|? ? Hr Hy]; subst.
    destruct (x <=? y) eqn:E.
    + constructor; auto. constructor; [lia|].
      eapply Forall_impl; [|exact Hy]. simpl. intros; lia.
    + constructor; auto. apply Forall_forall. intros z Hz.
      apply insZ_In in Hz. destruct Hz as [->|Hz]; [lia|].
      rewrite Forall_forall in Hy. apply Hy; auto.
Qed.

Lemma sortZ_ssorted_le (l : list Z) : StronglySorted Z.le (sortZ l).
Proof.
  induction l as [|x l IH]; simpl; [constructor|]. apply insZ_ssorted_le, IH.
Qed.

Lemma sortZ_sorted (l : list Z) : Sorted Z.le (sortZ l).
Proof. apply StronglySorted_Sorted, sortZ_ssorted_le. Qed.

Lemma ssorted_le_NoDup_lt (s : list Z) :
  StronglySorted Z.le s -> NoDup s -> StronglySorted Z.lt s.
Proof.
  induction s as [|y r IH]; intros Hs Hn; [constructor|].
  inversion Hs as [|? ? Hr Hy]; subst. inversion Hn as [|? ? Hnin Hnr]; subst.
  constructor; auto. apply Forall_forall. intros z Hz.
  rewrite Forall_forall in Hy. specialize (Hy z Hz).
  assert (z <> y) by (intros ->; contradiction). lia.
Qed.

Lemma sortZ_NoDup (l : list Z) : NoDup l -> NoDup (sortZ l).
Proof. apply Permutation_NoDup, Permutation_sym, sortZ_perm. Qed.

Lemma sortZ_ssorted_lt (l : list Z) : NoDup l -> StronglySorted Z.lt (sortZ l).
Proof.
  intros H. apply ssorted_le_NoDup_lt; [apply sortZ_ssorted_le|apply sortZ_NoDup, H].
Qed.

(** * position in a list, and lookup in [combine s (zrange a n)] *)

Lemma index_of_In (x : Z) (s : list Z) : index_of x s <> None <-> In x s.
Proof.
  induction s as [|z r IH]; simpl.
  - split; [congruence|tauto].
  - destruct (x =? z) eqn:E.
    + split; [intros _; left; lia|congruence].
    + split.
      * intros H. right. apply IH. intros H0. rewrite H0 in H. simpl in H. congruence.
      * intros [H|H]; [lia|]. apply IH in H.
        destruct (index_of x r); simpl; congruence.
Qed.

Lemma index_of_Some_In (x : Z) (s : list Z) (k : nat) : index_of x s = Some k -> In x s.
Proof. intros H. apply index_of_In. congruence. Qed.

Lemma index_of_lt (x : Z) (s : list Z) (k : nat) :
  index_of x s = Some k -> (k < length s)%nat.
Proof.
  revert k. induction s as [|z r IH]; simpl; intros k H; [discriminate|].
  destruct (x =? z).
  - inversion H. lia.
  - destruct (index_of x r) as [k'|]; simpl in H; [|discriminate].
    inversion H. specialize (IH k' eq_refl). lia.
Qed.

Lemma index_of_mono (s : list Z) (x y : Z) (i j : nat) :
  StronglySorted Z.lt s -> index_of x s = Some i -> index_of y s = Some j ->
  (x < y <-> (i < j)%nat).
Proof.
  revert i j. induction s as [|z r IH]; simpl; intros i j Hs Hi Hj; [discriminate|].
  inversion Hs as [|? ? Hr Hz]; subst. rewrite Forall_forall in Hz.
  destruct (x =? z) eqn:Ex; destruct (y =? z) eqn:Ey.
  - inversion Hi; inversion Hj; subst. lia.
  - inversion Hi; subst.
    destruct (index_of y r) as [j'|] eqn:Ej; simpl in Hj; [|discriminate].
    inversion Hj; subst. apply index_of_Some_In in Ej. specialize (Hz y Ej). lia.
  - inversion Hj; subst.
    destruct (index_of x r) as [i'|] eqn:Ei; simpl in Hi; [|discriminate].
    inversion Hi; subst. apply index_of_Some_In in Ei. specialize (Hz x Ei). lia.
  - destruct (index_of x r) as [i'|] eqn:Ei; simpl in Hi; [|discriminate].
    destruct (index_of y r) as [j'|] eqn:Ej; simpl in Hj; [|discriminate].
    inversion Hi; inversion Hj; subst.
    rewrite (IH i' j' Hr eq_refl eq_refl). lia.
Qed.

Lemma index_of_nth (s : list Z) (k : nat) :
  NoDup s -> (k < length s)%nat -> index_of (nth k s 0) s = Some k.
Proof.
  revert k. induction s as [|z r IH]; simpl; intros k Hn Hk; [lia|].
  inversion Hn as [|? ? Hnin Hnr]; subst.
  destruct k as [|k].
  - rewrite Z.eqb_refl. reflexivity.
  - assert (Hin : In (nth k r 0) r) by (apply nth_In; lia).
    destruct (nth k r 0 =? z) eqn:E.
    + assert (nth k r 0 = z) by lia. subst z. contradiction.
    + rewrite IH by (auto; lia). reflexivity.
Qed.

Lemma aget_combine_index (s : list Z) (a x : Z) :
  aget Z.eqb x (combine s (zrange a (length s))) =
  option_map (fun k => a + Z.of_nat k) (index_of x s).
Proof.
  revert a. induction s as [|z r IH]; intros a; simpl; [reflexivity|].
  destruct (x =? z).
  - simpl. f_equal. lia.
  - rewrite IH. destruct (index_of x r); simpl; [|reflexivity]. f_equal. lia.
Qed.

Lemma rank_of_index (l : list Z) (x : Z) :
  rank_of l x = option_map Z.of_nat (index_of x (sortZ l)).
Proof.
  unfold rank_of, compact_timeslot. rewrite <- (sortZ_length l).
  rewrite aget_combine_index. destruct (index_of x (sortZ l)); reflexivity.
Qed.

(** * compact_timeslot: rank among the sorted distinct values *)

Lemma rank_dom (l : list Z) (x : Z) : rank_of l x <> None <-> In x l.
Proof.
  rewrite rank_of_index, <- sortZ_In, <- index_of_In.
  destruct (index_of x (sortZ l)); simpl; split; congruence.
Qed.

Lemma rank_range (l : list Z) (x i : Z) : rank_of l x = Some i -> 0 <= i < Z.of_nat (length l).
Proof.
  rewrite rank_of_index. destruct (index_of x (sortZ l)) as [k|] eqn:E; simpl; [|discriminate].
  intros H. inversion H; subst. apply index_of_lt in E. rewrite sortZ_length in E. lia.
Qed.

Lemma rank_mono (l : list Z) (x y i j : Z) :
  NoDup l -> rank_of l x = Some i -> rank_of l y = Some j -> (x < y <-> i < j).
Proof.
  intros Hn. rewrite !rank_of_index.
  destruct (index_of x (sortZ l)) as [ki|] eqn:Ei; simpl; [|discriminate].
  destruct (index_of y (sortZ l)) as [kj|] eqn:Ej; simpl; [|discriminate].
  intros Hi Hj. inversion Hi; inversion Hj; subst.
  rewrite (index_of_mono (sortZ l) x y ki kj (sortZ_ssorted_lt l Hn) Ei Ej). lia.
Qed.

Lemma rank_surj (l : list Z) (i : Z) :
  NoDup l -> 0 <= i < Z.of_nat (length l) -> exists x, In x l /\ rank_of l x = Some i.
Proof.
  intros Hn Hi. set (k := Z.to_nat i).
  assert (Hk : (k < length (sortZ l))%nat) by (rewrite sortZ_length; lia).
  exists (nth k (sortZ l) 0). split.
  - apply sortZ_In. apply nth_In. exact Hk.
  - rewrite rank_of_index, index_of_nth by (auto using sortZ_NoDup).
    simpl. f_equal. lia.
Qed.

Lemma CoreInvAux_last_default {A} (l : list A) (d d' : A) : l <> [] -> last l d = last l d'.
Proof.
  induction l as [|x r IH]; intros H; [congruence|]. destruct r as [|y r']; [reflexivity|].
  simpl in *. apply IH. discriminate.
Qed.
