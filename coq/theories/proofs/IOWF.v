(** Every graph the readers build is reachable by accepted add_interaction / add_node calls only, hence satisfies all
    the invariants ([WFG]) -- in particular its timelines are canonical (C03 for read_snapshots, read_interactions,
    node_link_graph, at row and at text level). *)
From DynVerif Require Import Base Graph Derived Spec Api Annotate IO.
From DynVerif.proofs Require Import CoreInv C03Facts QueryFacts SnapInv LogInv ApiFacts.

Lemma WFG_parse_snapshots rows : forall g H, WFG g -> parse_snapshots_from g rows = RdOk H -> WFG H.
Proof.
  induction rows as [|[[[u v] t] e] r IH]; intros g H Hw E; cbn [parse_snapshots_from] in E.
  - inversion E; subst; exact Hw.
  - pose proof (WFG_add g u v (Some t) e Hw) as Hw'. destruct (add_interaction g u v (Some t) e) as [g' o].
    simpl in Hw'. destruct o; try discriminate. eapply IH; eauto.
Qed.

Lemma WFG_parse_interactions rows : forall g H, WFG g -> parse_interactions_from g rows = RdOk H -> WFG H.
Proof.
  induction rows as [|[[[u v] op] s] r IH]; intros g H Hw E; cbn [parse_interactions_from] in E.
  - inversion E; subst; exact Hw.
  - destruct op.
    + pose proof (WFG_add g u v (Some s) None Hw) as Hw'. destruct (add_interaction g u v (Some s) None) as [g' o].
      simpl in Hw'. destruct o; try discriminate. eapply IH; eauto.
    + destruct (aget peqb (nk (g_dir g) u v) (g_edges g)) as [[[a b] older]|]; [|discriminate].
      destruct (b <? s).
      * pose proof (WFG_add g u v (Some a) (Some s) Hw) as Hw'. destruct (add_interaction g u v (Some a) (Some s)) as [g' o].
        simpl in Hw'. destruct o; try discriminate. eapply IH; eauto.
      * eapply IH; eauto.
Qed.

Lemma WFG_add_links l : forall g H, WFG g -> add_links g l = RdOk H -> WFG H.
Proof.
  induction l as [|[[u v] t] r IH]; intros g H Hw E; cbn [add_links] in E.
  - inversion E; subst; exact Hw.
  - pose proof (WFG_add g u v (Some t) None Hw) as Hw'. destruct (add_interaction g u v (Some t) None) as [g' o].
    simpl in Hw'. destruct o; try discriminate. eapply IH; eauto.
Qed.

Lemma WFG_fold_nodes l : forall g0, WFG g0 -> WFG (fold_left (fun g na => add_node g (fst na) (snd na)) l g0).
Proof. induction l as [|na r IH]; intros g0 Hw; simpl; [exact Hw|]. apply IH. apply WFG_add_node. exact Hw. Qed.

Lemma WFG_node_link_graph d arg H : node_link_graph d arg = RdOk H -> WFG H.
Proof.
  unfold node_link_graph. intros E. eapply WFG_add_links; [|exact E].
  apply WFG_fold_nodes. apply WFG_with_attr. apply WFG_empty.
Qed.

Lemma WFG_read_snap_lines m d keys ls : forall g H, WFG g -> read_snap_lines m d keys g ls = TxOk H -> WFG H.
Proof.
  induction ls as [|l r IH]; intros g H Hw E; cbn [read_snap_lines] in E.
  - inversion E; subst; exact Hw.
  - destruct (snap_line m d l) as [|[[[u v] t] e]|]; try discriminate; [eapply IH; eauto|].
    destruct (match keys with Some ks => rank_of ks t | None => Some t end) as [t'|]; [|discriminate].
    destruct (match e with Some e' => option_map Some (match keys with Some ks => rank_of ks e' | None => Some e' end) | None => Some None end) as [e'|]; [|discriminate].
    pose proof (WFG_add g u v (Some t') e' Hw) as Hw'. destruct (add_interaction g u v (Some t') e') as [g' o].
    simpl in Hw'. destruct o; try discriminate. eapply IH; eauto.
Qed.
