(** IOFacts: the edge-list readers / writers and the JSON node-link round trip.
    Part A: text level (comments, skipped lines, TypeError, decimal rendering).
    Part B: row level (writers' listings, round trips through the readers). *)
From DynVerif Require Import Base Graph Derived Spec Annotate IO.
From DynVerif.proofs Require Import AListFacts CoreInv C03Facts QueryFacts SliceFacts LogInv.
From Coq Require Import Sorting.Sorted Sorting.Permutation.

Definition GoodG (g : graph) : Prop :=
  g_rem g = true /\ (forall k, ocanon (aget peqb k (g_edges g))) /\ InvAdj g.

(** * Part A: text level *)

(** ** comment / noise handling *)
Lemma cut_comment_app m l rest : ~ In m l -> cut_comment m (l ++ m :: rest) = l.
Proof.
  induction l as [|c r IH]; simpl; intros H.
  - rewrite Z.eqb_refl. reflexivity.
  - destruct (c =? m) eqn:E; [exfalso; apply H; left; lia|].
    rewrite IH; [reflexivity|]. intros Hin. apply H. right; assumption.
Qed.

Lemma cut_comment_none m l : ~ In m l -> cut_comment m l = l.
Proof.
  induction l as [|c r IH]; simpl; intros H; [reflexivity|].
  destruct (c =? m) eqn:E; [exfalso; apply H; left; lia|].
  rewrite IH; [reflexivity|]. intros Hin. apply H. right; assumption.
Qed.

Lemma fields_trailing_comment m d l rest : ~ In m l -> fields m d (l ++ m :: rest) = fields m d l.
Proof. intros H. unfold fields. rewrite cut_comment_app, cut_comment_none by assumption. reflexivity. Qed.

Lemma snap_line_trailing_comment m d l rest : ~ In m l -> l <> [] ->
  snap_line m d (l ++ m :: rest) = snap_line m d l.
Proof. intros H _. unfold snap_line. rewrite fields_trailing_comment by assumption. reflexivity. Qed.

Lemma int_line_trailing_comment m d l rest : ~ In m l -> l <> [] ->
  int_line m d (l ++ m :: rest) = int_line m d l.
Proof. intros H _. unfold int_line. rewrite fields_trailing_comment by assumption. reflexivity. Qed.

Lemma snap_line_comment_only m d rest : snap_line m d (m :: rest) = LSkip.
Proof. unfold snap_line, fields. simpl. rewrite Z.eqb_refl. reflexivity. Qed.

Lemma int_line_comment_only m d rest : int_line m d (m :: rest) = LSkip.
Proof. unfold int_line, fields. simpl. rewrite Z.eqb_refl. reflexivity. Qed.

Lemma snap_line_empty m d : snap_line m d [] = LSkip.
Proof. reflexivity. Qed.

Lemma int_line_empty m d : int_line m d [] = LSkip.
Proof. reflexivity. Qed.

(** ** the readers produce the same result as on the non-skipped lines alone *)
Definition snap_skipped (m : Z) (d : option Z) (l : line) : bool :=
  match snap_line m d l with LSkip => true | _ => false end.
Definition int_skipped (m : Z) (d : option Z) (l : line) : bool :=
  match int_line m d l with LSkip => true | _ => false end.

Lemma read_snap_skip m d keys ls : forall g,
  read_snap_lines m d keys g ls =
  read_snap_lines m d keys g (filter (fun l => negb (snap_skipped m d l)) ls).
Proof.
  induction ls as [|l r IH]; intros g; [reflexivity|].
  cbn [filter]. unfold snap_skipped at 1.
  destruct (snap_line m d l) as [|[[[u v] t] e]|] eqn:E; cbn [negb].
  - cbn [read_snap_lines]. rewrite E. apply IH.
  - cbn [read_snap_lines]. rewrite E.
    destruct (match keys with None => Some t | Some ks => rank_of ks t end) as [t'|]; [|reflexivity].
    destruct (match e with None => Some None | Some e' =>
                option_map Some (match keys with None => Some e' | Some ks => rank_of ks e' end) end)
      as [e'|]; [|reflexivity].
    destruct (add_interaction g u v (Some t') e') as [g' o]. destruct o; try reflexivity. apply IH.
  - cbn [read_snap_lines]. rewrite E. reflexivity.
Qed.

Lemma read_int_skip m d keys ls : forall g,
  read_int_lines m d keys g ls =
  read_int_lines m d keys g (filter (fun l => negb (int_skipped m d l)) ls).
Proof.
  induction ls as [|l r IH]; intros g; [reflexivity|].
  cbn [filter]. unfold int_skipped at 1.
  destruct (int_line m d l) as [|[[[u v] op] s0]|] eqn:E; cbn [negb].
  - cbn [read_int_lines]. rewrite E. apply IH.
  - cbn [read_int_lines]. rewrite E.
    destruct (match keys with None => Some s0 | Some ks => rank_of ks s0 end) as [s|]; [|reflexivity].
    destruct (parse_interactions_from g [(u, v, op, s)]) as [g'|o]; [apply IH|reflexivity].
  - cbn [read_int_lines]. rewrite E. reflexivity.
Qed.

(** ** an unconvertible field raises TypeError when reached *)
Lemma read_snap_type_error m d keys g l ls :
  snap_line m d l = LTypeError -> read_snap_lines m d keys g (l :: ls) = TxTypeError.
Proof. intros H. cbn [read_snap_lines]. rewrite H. reflexivity. Qed.

Lemma read_int_type_error m d keys g l ls :
  int_line m d l = LTypeError -> read_int_lines m d keys g (l :: ls) = TxTypeError.
Proof. intros H. cbn [read_int_lines]. rewrite H. reflexivity. Qed.

(** ** decimal rendering and reading are inverse *)
Definition dchar (c : Z) : Prop := 48 <= c <= 57.

Lemma dchar_digit c : dchar c -> is_digit c = true.
Proof. unfold dchar, is_digit. lia. Qed.

Lemma dchar_not_ws c : dchar c \/ c = 45 -> is_ws c = false.
Proof. unfold dchar, is_ws. lia. Qed.

Lemma lstrip_id l : Forall (fun c => is_ws c = false) l -> lstrip l = l.
Proof. intros H. destruct l as [|c r]; [reflexivity|]. inversion H; subst. simpl. rewrite H2. reflexivity. Qed.

Lemma strip_id l : Forall (fun c => is_ws c = false) l -> strip l = l.
Proof.
  intros H. unfold strip. rewrite (lstrip_id l H).
  rewrite lstrip_id; [apply rev_involutive|].
  apply Forall_forall. intros x Hx. apply in_rev in Hx. rewrite Forall_forall in H. auto.
Qed.

Lemma pos_digits_val fuel : forall n acc,
  0 <= n < 2 ^ Z.of_nat fuel -> digits_val (pos_digits fuel n acc) 0 = digits_val acc n.
Proof.
  induction fuel as [|f IH]; intros n acc Hn.
  - simpl in *. assert (n = 0) by lia. subst. reflexivity.
  - cbn [pos_digits]. destruct (n <? 10) eqn:E.
    + cbn [digits_val]. rewrite dchar_digit by (unfold dchar; lia). f_equal. lia.
    + assert (Hp : 2 ^ Z.of_nat (S f) = 2 * 2 ^ Z.of_nat f).
      { rewrite Nat2Z.inj_succ, Z.pow_succ_r by lia. reflexivity. }
      rewrite IH.
      * cbn [digits_val]. rewrite dchar_digit.
        -- f_equal. pose proof (Z.div_mod n 10). lia.
        -- unfold dchar. pose proof (Z.mod_pos_bound n 10). lia.
      * rewrite Hp in Hn. split; [apply Z.div_pos; lia|].
        apply Z.div_lt_upper_bound; lia.
Qed.

Lemma pos_digits_chars fuel : forall n acc,
  0 <= n -> Forall dchar acc -> Forall dchar (pos_digits fuel n acc).
Proof.
  induction fuel as [|f IH]; intros n acc Hn Hacc; [exact Hacc|].
  cbn [pos_digits]. destruct (n <? 10) eqn:E.
  - constructor; [unfold dchar; lia|assumption].
  - apply IH; [apply Z.div_pos; lia|]. constructor; [|assumption].
    unfold dchar. pose proof (Z.mod_pos_bound n 10). lia.
Qed.

Lemma pos_digits_nonempty fuel : forall n acc, (fuel <> O \/ acc <> []) -> pos_digits fuel n acc <> [].
Proof.
  induction fuel as [|f IH]; intros n acc H.
  - simpl. destruct H; congruence.
  - cbn [pos_digits]. destruct (n <? 10); [discriminate|]. apply IH. right. discriminate.
Qed.

Lemma log2_fuel n : 0 <= n -> 0 <= n < 2 ^ Z.of_nat (S (Z.to_nat (Z.log2 n))).
Proof.
  intros Hn. split; [assumption|].
  rewrite Nat2Z.inj_succ, Z2Nat.id by apply Z.log2_nonneg.
  destruct (Z.eq_dec n 0) as [->|Hne]; [reflexivity|].
  apply Z.log2_spec. lia.
Qed.

Lemma dchars_not_ws l : Forall dchar l -> Forall (fun c => is_ws c = false) l.
Proof. intros H. eapply Forall_impl; [|exact H]. intros c Hc. apply dchar_not_ws; auto. Qed.

(** the sign / digit dispatch of [parse_int] on fields made of digits *)
Lemma parse_int_digits l : l <> [] -> Forall dchar l -> parse_int l = digits_val l 0.
Proof.
  intros Hne H. unfold parse_int. rewrite strip_id by (apply dchars_not_ws; assumption).
  destruct l as [|c r]; [congruence|]. inversion H as [|? ? Hc Hr]; subst. unfold dchar in Hc.
  destruct c as [|p|p]; try lia.
  do 7 (try (destruct p as [p|p|]; try reflexivity; try lia)).
Qed.

Lemma parse_int_neg r : r <> [] -> Forall dchar r -> parse_int (45 :: r) = option_map Z.opp (digits_val r 0).
Proof.
  intros Hne H. unfold parse_int.
  rewrite strip_id by (constructor; [apply dchar_not_ws; auto|apply dchars_not_ws; assumption]).
  destruct r as [|c r]; [congruence|]. reflexivity.
Qed.

Lemma parse_int_render z : parse_int (render_int z) = Some z.
Proof.
  unfold render_int. destruct (z <? 0) eqn:E.
  - assert (Hn : 0 <= - z) by lia.
    rewrite parse_int_neg.
    + rewrite pos_digits_val by (apply log2_fuel; assumption). simpl. f_equal. lia.
    + apply pos_digits_nonempty; left; discriminate.
    + apply pos_digits_chars; [assumption|constructor].
  - assert (Hn : 0 <= z) by lia.
    rewrite parse_int_digits.
    + rewrite pos_digits_val by (apply log2_fuel; assumption). reflexivity.
    + apply pos_digits_nonempty; left; discriminate.
    + apply pos_digits_chars; [assumption|constructor].
Qed.

(** * Part B: row level *)

(** ** the interaction writer: the stream, in order *)
Lemma gen_interactions_spec g :
  gen_interactions g = map (fun e => match e with (t, (u, v), op) => (u, v, op, t) end) (stream g).
Proof. reflexivity. Qed.

Lemma Sorted_map {A B} (R : A -> A -> Prop) (R' : B -> B -> Prop) (f : A -> B) l :
  (forall x y, R x y -> R' (f x) (f y)) -> Sorted R l -> Sorted R' (map f l).
Proof.
  intros HR. induction 1 as [|a l Hs IH Hh]; simpl; constructor; auto.
  destruct Hh; simpl; constructor; auto.
Qed.

Lemma gen_interactions_chrono g : Sorted (fun x y => snd x <= snd y) (gen_interactions g).
Proof.
  unfold gen_interactions. eapply Sorted_map; [|apply stream_sorted].
  intros [[t [a b]] op] [[t' [a' b']] op']. unfold ev_time; simpl. auto.
Qed.

(** ** generic list facts *)
Lemma In_zrange n : forall a t, In t (zrange a n) <-> a <= t < a + Z.of_nat n.
Proof.
  induction n as [|n IH]; intros a t; simpl zrange.
  - simpl. lia.
  - simpl In. rewrite IH. lia.
Qed.

Lemma In_zrange_incl a b t : In t (zrange_incl a b) <-> a <= t <= b.
Proof. unfold zrange_incl. rewrite In_zrange. lia. Qed.

Lemma zrange_sorted n : forall a, StronglySorted Z.lt (zrange a n).
Proof.
  induction n as [|n IH]; intros a; simpl; constructor; [apply IH|].
  apply Forall_forall. intros t Ht. apply In_zrange in Ht. lia.
Qed.

Lemma zrange_incl_sorted a b : StronglySorted Z.lt (zrange_incl a b).
Proof. apply zrange_sorted. Qed.

Lemma SS_app {A} (R : A -> A -> Prop) l1 l2 :
  StronglySorted R l1 -> StronglySorted R l2 -> (forall x y, In x l1 -> In y l2 -> R x y) ->
  StronglySorted R (l1 ++ l2).
Proof.
  induction l1 as [|a r IH]; simpl; intros H1 H2 H; [assumption|].
  apply StronglySorted_inv in H1. destruct H1 as (Hr & Ha). rewrite Forall_forall in Ha.
  constructor; [apply IH; auto|].
  apply Forall_forall. intros y Hy. apply in_app_or in Hy. destruct Hy; auto.
Qed.

Lemma SS_map {A B} (R : A -> A -> Prop) (R' : B -> B -> Prop) (f : A -> B) l :
  (forall x y, R x y -> R' (f x) (f y)) -> StronglySorted R l -> StronglySorted R' (map f l).
Proof.
  intros HR. induction 1 as [|a l Hs IH Ha]; simpl; constructor; auto.
  rewrite Forall_forall in *. intros y Hy. apply in_map_iff in Hy. destruct Hy as (x & <- & Hx). auto.
Qed.

Lemma SS_flat_map {A B K} (R : B -> B -> Prop) (key : A -> K) (h : A -> list B) l :
  NoDup (map key l) ->
  (forall e, In e l -> StronglySorted R (h e)) ->
  (forall e e' x y, In e l -> In e' l -> key e <> key e' -> In x (h e) -> In y (h e') -> R x y) ->
  StronglySorted R (flat_map h l).
Proof.
  induction l as [|e r IH]; simpl; intros Hnd Hs Hx; [constructor|].
  apply NoDup_cons_iff in Hnd. destruct Hnd as (Hni & Hnd).
  apply SS_app; auto.
  - apply IH; auto. intros e1 e2 x y H1 H2. apply Hx; auto.
  - intros x y Hxe Hy. apply in_flat_map in Hy. destruct Hy as (e' & He' & Hy).
    apply (Hx e e'); auto. intros E. apply Hni. rewrite E. apply in_map. assumption.
Qed.

Lemma SS_NoDup {A} (R : A -> A -> Prop) l : (forall x, R x x -> False) -> StronglySorted R l -> NoDup l.
Proof.
  intros Hirr. induction 1 as [|a l Hs IH Ha]; constructor; auto.
  intros Hin. rewrite Forall_forall in Ha. apply (Hirr a). auto.
Qed.

Lemma map_flat_map {A B C} (f : B -> C) (h : A -> list B) l :
  flat_map (fun x => map f (h x)) l = map f (flat_map h l).
Proof. induction l as [|a r IH]; simpl; [reflexivity|]. rewrite map_app, IH. reflexivity. Qed.

(** ** presence at an instant on good graphs; the enumerated pairs *)
Lemma io_hi_omem g u v tau : g_rem g = true -> ocanon (aget peqb (nk (g_dir g) u v) (g_edges g)) ->
  has_interaction g u v (Some tau) = omem tau (aget peqb (nk (g_dir g) u v) (g_edges g)).
Proof.
  intros Hr Hc. unfold has_interaction, key_present.
  destruct (aget peqb (nk (g_dir g) u v) (g_edges g)) as [tl|]; simpl; [|reflexivity].
  unfold presence_test. rewrite Hr. apply presence_mem. exact Hc.
Qed.

Lemma io_good_hi g u v tau : GoodG g -> has_interaction g u v (Some tau) = mem tau (timeline_of g u v).
Proof.
  intros (Hr & Hc & _). rewrite io_hi_omem by auto. unfold timeline_of.
  destruct (aget peqb (nk (g_dir g) u v) (g_edges g)) as [tl|]; simpl; [|reflexivity].
  unfold tl_chrono. symmetry. apply mem_rev.
Qed.

Lemma io_good_cc g u v : GoodG g -> canon_chrono (timeline_of g u v).
Proof.
  intros (_ & Hc & _). unfold timeline_of. specialize (Hc (nk (g_dir g) u v)).
  destruct (aget peqb (nk (g_dir g) u v) (g_edges g)) as [tl|]; simpl; [|exact I].
  unfold tl_chrono. apply canon_rev. exact Hc.
Qed.

Lemma io_hi_some_none g u v tau : has_interaction g u v (Some tau) = true -> has_interaction g u v None = true.
Proof. unfold has_interaction, key_present. destruct (aget peqb _ _); auto. Qed.

Lemma io_hi_key g u v u' v' t : nk (g_dir g) u v = nk (g_dir g) u' v' ->
  has_interaction g u v t = has_interaction g u' v' t.
Proof. unfold has_interaction. intros ->. reflexivity. Qed.

Lemma io_nk_false_inj u v u' v' : nk false u v = nk false u' v' -> (u, v) = (u', v') \/ (u, v) = (v', u').
Proof. unfold nk. destruct (u <=? v), (u' <=? v'); intros H; inversion H; auto. Qed.

Definition io_pairs (g : graph) : list (Z * Z) :=
  if g_dir g then out_interactions g None None else interactions g None None.

Lemma io_pairs_sound g p : InvAdj g -> In p (io_pairs g) -> has_interaction g (fst p) (snd p) None = true.
Proof.
  intros HI. unfold io_pairs. destruct p as [x y]. simpl. destruct (g_dir g) eqn:Hd.
  - apply out_interactions_spec; assumption.
  - apply interactions_sound; assumption.
Qed.

Lemma io_pairs_complete g u v : InvAdj g -> has_interaction g u v None = true ->
  In (u, v) (io_pairs g) \/ (g_dir g = false /\ In (v, u) (io_pairs g)).
Proof.
  intros HI H. unfold io_pairs. destruct (g_dir g) eqn:Hd.
  - left. apply out_interactions_spec; assumption.
  - destruct (interactions_undirected_complete g u v None HI Hd H); auto.
Qed.

Lemma io_NoDup_map_inj_in {A B} (f : A -> B) (l : list A) :
  (forall x y, In x l -> In y l -> f x = f y -> x = y) -> NoDup l -> NoDup (map f l).
Proof.
  induction l as [|a r IH]; simpl; intros Hinj Hnd; [constructor|].
  inversion Hnd as [|? ? Hni Hr]; subst. constructor.
  - intros H. apply in_map_iff in H. destruct H as (x & Hx & Hin).
    apply Hinj in Hx; auto. subst. auto.
  - apply IH; auto.
Qed.

Lemma io_pairs_NoDup g : InvAdj g -> NoDup (map (fun p => nk (g_dir g) (fst p) (snd p)) (io_pairs g)).
Proof.
  intros HI. unfold io_pairs. destruct (g_dir g) eqn:Hd.
  - rewrite (map_ext _ (fun p => p)) by (intros [x y]; reflexivity). rewrite map_id.
    apply out_interactions_NoDup; assumption.
  - apply io_NoDup_map_inj_in; [|apply interactions_NoDup; assumption].
    intros [x y] [x' y'] Hx Hy E. simpl in E. apply io_nk_false_inj in E. destruct E as [E|E]; [assumption|].
    inversion E; subst. destruct (Z.eq_dec x' y') as [->|Hne]; [reflexivity|]. exfalso.
    apply (interactions_undirected_once g y' x' None HI Hd); auto.
Qed.

(** ** the snapshot writer: per pair, the instants of each run, increasing *)
Definition instants (tl : list (Z * Z)) : list Z := flat_map (fun r => zrange_incl (fst r) (snd r)) tl.
Definition rows_of (pr : (Z * Z) * list (Z * Z)) : list (Z * Z * Z) :=
  map (fun t => (fst (fst pr), snd (fst pr), t)) (instants (snd pr)).

Lemma gen_snapshots_rows g : gen_snapshots g = flat_map rows_of (flat_interactions g).
Proof.
  unfold gen_snapshots. apply flat_map_ext. intros [[u v] tl]. unfold rows_of, instants. simpl.
  apply map_flat_map.
Qed.

Lemma In_instants t tl : In t (instants tl) <-> mem t tl = true.
Proof.
  unfold instants, mem. rewrite in_flat_map, existsb_exists.
  split; intros (r & Hr & H); exists r; (split; [assumption|]).
  - apply In_zrange_incl in H. unfold in_itv. lia.
  - apply In_zrange_incl. unfold in_itv in H. lia.
Qed.

Lemma instants_sorted tl : canon_chrono tl -> StronglySorted Z.lt (instants tl).
Proof.
  induction tl as [|[a b] r IH]; intros Hc; [constructor|].
  change (instants ((a, b) :: r)) with (zrange_incl a b ++ instants r).
  apply SS_app; [apply zrange_incl_sorted|apply IH; eapply cc_tail; eassumption|].
  intros x y Hx Hy. apply In_zrange_incl in Hx. unfold instants in Hy. apply in_flat_map in Hy.
  destruct Hy as (r0 & Hr0 & Hy). apply In_zrange_incl in Hy.
  pose proof (cc_all_gt a b r Hc r0 Hr0). lia.
Qed.

Lemma gen_snapshots_spec g u v t : GoodG g ->
  (In (u, v, t) (gen_snapshots g) <->
   In (u, v) (if g_dir g then out_interactions g None None else interactions g None None) /\
   has_interaction g u v (Some t) = true).
Proof.
  intros HG. rewrite gen_snapshots_rows, in_flat_map. unfold flat_interactions. fold (io_pairs g). split.
  - intros (pr & Hpr & Hin). apply in_map_iff in Hpr. destruct Hpr as ([a b] & <- & Hp).
    unfold rows_of in Hin. simpl in Hin. apply in_map_iff in Hin. destruct Hin as (t' & E & Ht).
    inversion E; subst. split; [assumption|]. rewrite io_good_hi by assumption. apply In_instants. assumption.
  - intros (Hp & Hh). exists ((u, v), timeline_of g u v). split.
    + apply in_map_iff. exists (u, v). auto.
    + unfold rows_of. simpl. apply in_map_iff. exists t. split; [reflexivity|].
      apply In_instants. rewrite <- io_good_hi by assumption. assumption.
Qed.

(** rows of one pair come at strictly increasing instants; rows of different pairs have different keys *)
Definition rkey (dir : bool) (x : Z * Z * Z) : Z * Z := nk dir (fst (fst x)) (snd (fst x)).
Definition rlt (dir : bool) (x y : Z * Z * Z) : Prop := rkey dir x = rkey dir y -> snd x < snd y.

Lemma gen_snapshots_sorted g : GoodG g -> StronglySorted (rlt (g_dir g)) (gen_snapshots g).
Proof.
  intros HG. rewrite gen_snapshots_rows.
  apply (SS_flat_map _ (fun e => nk (g_dir g) (fst (fst e)) (snd (fst e)))).
  - unfold flat_interactions. fold (io_pairs g). rewrite map_map. simpl.
    apply io_pairs_NoDup. apply HG.
  - intros e He. unfold flat_interactions in He. apply in_map_iff in He. destruct He as (p & <- & _).
    unfold rows_of. simpl. eapply SS_map; [|apply instants_sorted, io_good_cc; assumption].
    intros x y Hxy _. simpl. assumption.
  - intros e e' x y _ _ Hne Hx Hy E. exfalso. apply Hne.
    unfold rows_of in Hx, Hy. apply in_map_iff in Hx. apply in_map_iff in Hy.
    destruct Hx as (? & <- & _). destruct Hy as (? & <- & _). exact E.
Qed.

Lemma gen_snapshots_NoDup g : GoodG g -> NoDup (gen_snapshots g).
Proof.
  intros HG. apply (SS_NoDup (rlt (g_dir g))); [|apply gen_snapshots_sorted; assumption].
  intros x H. specialize (H eq_refl). lia.
Qed.
