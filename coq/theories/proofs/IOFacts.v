(** IOFacts: the edge-list readers / writers and the JSON node-link round trip.
    Part A: text level (comments, skipped lines, TypeError, decimal rendering).
    Part B: row level (writers' listings, round trips through the readers). *)
From DynVerif Require Import Base Graph Derived Spec Annotate IO.
From DynVerif.proofs Require Import AListFacts CoreInv C03Facts QueryFacts SliceFacts LogInv.
From Coq Require Import Sorting.Sorted Sorting.Permutation.

Definition GoodG (g : graph) : Prop :=
  g_rem g = true /\ (forall k, ocanon (aget peqb k (g_edges g))) /\ InvAdj g.

(** * Part A: text level *)

(** ** comment / noise handling *)
Lemma cut_comment_app m l rest : ~ In m l -> cut_comment m (l ++ m :: rest) = l.
Proof.
  induction l as [|c r IH]; simpl; intros H.
  - rewrite Z.eqb_refl. reflexivity.
  - destruct (c =? m) eqn:E; [exfalso; apply H; left; lia|].
    rewrite IH; [reflexivity|]. intros Hin. apply H. right; assumption.
Qed.

Lemma cut_comment_none m l : ~ In m l -> cut_comment m l = l.
Proof.
  induction l as [|c r IH]; simpl; intros H; [reflexivity|].
  destruct (c =? m) eqn:E; [exfalso; apply H; left; lia|].
  rewrite IH; [reflexivity|]. intros Hin. apply H. right; assumption.
Qed.

Lemma fields_trailing_comment m d l rest : ~ In m l -> fields m d (l ++ m :: rest) = fields m d l.
Proof. intros H. unfold fields. rewrite cut_comment_app, cut_comment_none by assumption. reflexivity. Qed.

Lemma snap_line_trailing_comment m d l rest : ~ In m l -> l <> [] ->
  snap_line m d (l ++ m :: rest) = snap_line m d l.
Proof. intros H _. unfold snap_line. rewrite fields_trailing_comment by assumption. reflexivity. Qed.

Lemma int_line_trailing_comment m d l rest : ~ In m l -> l <> [] ->
  int_line m d (l ++ m :: rest) = int_line m d l.
Proof. intros H _. unfold int_line. rewrite fields_trailing_comment by assumption. reflexivity. Qed.

Lemma snap_line_comment_only m d rest : snap_line m d (m :: rest) = LSkip.
Proof. unfold snap_line, fields. simpl. rewrite Z.eqb_refl. reflexivity. Qed.

Lemma int_line_comment_only m d rest : int_line m d (m :: rest) = LSkip.
Proof. unfold int_line, fields. simpl. rewrite Z.eqb_refl. reflexivity. Qed.

Lemma snap_line_empty m d : snap_line m d [] = LSkip.
Proof. reflexivity. Qed.

Lemma int_line_empty m d : int_line m d [] = LSkip.
Proof. reflexivity. Qed.

(** ** the readers produce the same result as on the non-skipped lines alone *)
Definition snap_skipped (m : Z) (d : option Z) (l : line) : bool :=
  match snap_line m d l with LSkip => true | _ => false end.
Definition int_skipped (m : Z) (d : option Z) (l : line) : bool :=
  match int_line m d l with LSkip => true | _ => false end.

Lemma read_snap_skip m d keys ls : forall g,
  read_snap_lines m d keys g ls =
  read_snap_lines m d keys g (filter (fun l => negb (snap_skipped m d l)) ls).
Proof.
  induction ls as [|l r IH]; intros g; [reflexivity|].
  cbn [filter]. unfold snap_skipped at 1.
  destruct (snap_line m d l) as [|[[[u v] t] e]|] eqn:E; cbn [negb].
  - cbn [read_snap_lines]. rewrite E. apply IH.
  - cbn [read_snap_lines]. rewrite E.
    destruct (match keys with None => Some t | Some ks => rank_of ks t end) as [t'|]; [|reflexivity].
    destruct (match e with None => Some None | Some e' =>
                option_map Some (match keys with None => Some e' | Some ks => rank_of ks e' end) end)
      as [e'|]; [|reflexivity].
    destruct (add_interaction g u v (Some t') e') as [g' o]. destruct o; try reflexivity. apply IH.
  - cbn [read_snap_lines]. rewrite E. reflexivity.
Qed.

Lemma read_int_skip m d keys ls : forall g,
  read_int_lines m d keys g ls =
  read_int_lines m d keys g (filter (fun l => negb (int_skipped m d l)) ls).
Proof.
  induction ls as [|l r IH]; intros g; [reflexivity|].
  cbn [filter]. unfold int_skipped at 1.
  destruct (int_line m d l) as [|[[[u v] op] s0]|] eqn:E; cbn [negb].
  - cbn [read_int_lines]. rewrite E. apply IH.
  - cbn [read_int_lines]. rewrite E.
    destruct (match keys with None => Some s0 | Some ks => rank_of ks s0 end) as [s|]; [|reflexivity].
    destruct (parse_interactions_from g [(u, v, op, s)]) as [g'|o]; [apply IH|reflexivity].
  - cbn [read_int_lines]. rewrite E. reflexivity.
Qed.

(** ** an unconvertible field raises TypeError when reached *)
Lemma read_snap_type_error m d keys g l ls :
  snap_line m d l = LTypeError -> read_snap_lines m d keys g (l :: ls) = TxTypeError.
Proof. intros H. cbn [read_snap_lines]. rewrite H. reflexivity. Qed.

Lemma read_int_type_error m d keys g l ls :
  int_line m d l = LTypeError -> read_int_lines m d keys g (l :: ls) = TxTypeError.
Proof. intros H. cbn [read_int_lines]. rewrite H. reflexivity. Qed.

(** ** decimal rendering and reading are inverse *)
Definition dchar (c : Z) : Prop := 48 <= c <= 57.

Lemma dchar_digit c : dchar c -> is_digit c = true.
Proof. unfold dchar, is_digit. lia. Qed.

Lemma dchar_not_ws c : dchar c \/ c = 45 -> is_ws c = false.
Proof. unfold dchar, is_ws. lia. Qed.

Lemma lstrip_id l : Forall (fun c => is_ws c = false) l -> lstrip l = l.
Proof. intros H. destruct l as [|c r]; [reflexivity|]. inversion H; subst. simpl. rewrite H2. reflexivity. Qed.

Lemma strip_id l : Forall (fun c => is_ws c = false) l -> strip l = l.
Proof.
  intros H. unfold strip. rewrite (lstrip_id l H).
  rewrite lstrip_id; [apply rev_involutive|].
  apply Forall_forall. intros x Hx. apply in_rev in Hx. rewrite Forall_forall in H. auto.
Qed.

Lemma pos_digits_val fuel : forall n acc,
  0 <= n < 2 ^ Z.of_nat fuel -> digits_val (pos_digits fuel n acc) 0 = digits_val acc n.
Proof.
  induction fuel as [|f IH]; intros n acc Hn.
  - simpl in *. assert (n = 0) by lia. subst. reflexivity.
  - cbn [pos_digits]. destruct (n <? 10) eqn:E.
    + cbn [digits_val]. rewrite dchar_digit by (unfold dchar; lia). f_equal. lia.
    + assert (Hp : 2 ^ Z.of_nat (S f) = 2 * 2 ^ Z.of_nat f).
      { rewrite Nat2Z.inj_succ, Z.pow_succ_r by lia. reflexivity. }
      rewrite IH.
      * cbn [digits_val]. rewrite dchar_digit.
        -- f_equal. pose proof (Z.div_mod n 10). lia.
        -- unfold dchar. pose proof (Z.mod_pos_bound n 10). lia.
      * rewrite Hp in Hn. split; [apply Z.div_pos; lia|].
        apply Z.div_lt_upper_bound; lia.
Qed.

Lemma pos_digits_chars fuel : forall n acc,
  0 <= n -> Forall dchar acc -> Forall dchar (pos_digits fuel n acc).
Proof.
  induction fuel as [|f IH]; intros n acc Hn Hacc; [exact Hacc|].
  cbn [pos_digits]. destruct (n <? 10) eqn:E.
  - constructor; [unfold dchar; lia|assumption].
  - apply IH; [apply Z.div_pos; lia|]. constructor; [|assumption].
    unfold dchar. pose proof (Z.mod_pos_bound n 10). lia.
Qed.

Lemma pos_digits_nonempty fuel : forall n acc, (fuel <> O \/ acc <> []) -> pos_digits fuel n acc <> [].
Proof.
  induction fuel as [|f IH]; intros n acc H.
  - simpl. destruct H; congruence.
  - cbn [pos_digits]. destruct (n <? 10); [discriminate|]. apply IH. right. discriminate.
Qed.

Lemma log2_fuel n : 0 <= n -> 0 <= n < 2 ^ Z.of_nat (S (Z.to_nat (Z.log2 n))).
Proof.
  intros Hn. split; [assumption|].
  rewrite Nat2Z.inj_succ, Z2Nat.id by apply Z.log2_nonneg.
  destruct (Z.eq_dec n 0) as [->|Hne]; [reflexivity|].
  apply Z.log2_spec. lia.
Qed.

Lemma dchars_not_ws l : Forall dchar l -> Forall (fun c => is_ws c = false) l.
Proof. intros H. eapply Forall_impl; [|exact H]. intros c Hc. apply dchar_not_ws; auto. Qed.

(** the sign / digit dispatch of [parse_int] on fields made of digits *)
Lemma parse_int_digits l : l <> [] -> Forall dchar l -> parse_int l = digits_val l 0.
Proof.
  intros Hne H. unfold parse_int. rewrite strip_id by (apply dchars_not_ws; assumption).
  destruct l as [|c r]; [congruence|]. inversion H as [|? ? Hc Hr]; subst. unfold dchar in Hc.
  destruct c as [|p|p]; try lia.
  do 7 (try (destruct p as [p|p|]; try reflexivity; try lia)).
Qed.

Lemma parse_int_neg r : r <> [] -> Forall dchar r -> parse_int (45 :: r) = option_map Z.opp (digits_val r 0).
Proof.
  intros Hne H. unfold parse_int.
  rewrite strip_id by (constructor; [apply dchar_not_ws; auto|apply dchars_not_ws; assumption]).
  destruct r as [|c r]; [congruence|]. reflexivity.
Qed.

Lemma parse_int_render z : parse_int (render_int z) = Some z.
Proof.
  unfold render_int. destruct (z <? 0) eqn:E.
  - assert (Hn : 0 <= - z) by lia.
    rewrite parse_int_neg.
    + rewrite pos_digits_val by (apply log2_fuel; assumption). simpl. f_equal. lia.
    + apply pos_digits_nonempty; left; discriminate.
    + apply pos_digits_chars; [assumption|constructor].
  - assert (Hn : 0 <= z) by lia.
    rewrite parse_int_digits.
    + rewrite pos_digits_val by (apply log2_fuel; assumption). reflexivity.
    + apply pos_digits_nonempty; left; discriminate.
    + apply pos_digits_chars; [assumption|constructor].
Qed.

(** * Part B: row level *)

(** ** the interaction writer: the stream, in order *)
Lemma gen_interactions_spec g :
  gen_interactions g = map (fun e => match e with (t, (u, v), op) => (u, v, op, t) end) (stream g).
Proof. reflexivity. Qed.

Lemma Sorted_map {A B} (R : A -> A -> Prop) (R' : B -> B -> Prop) (f : A -> B) l :
  (forall x y, R x y -> R' (f x) (f y)) -> Sorted R l -> Sorted R' (map f l).
Proof.
  intros HR. induction 1 as [|a l Hs IH Hh]; simpl; constructor; auto.
  destruct Hh; simpl; constructor; auto.
Qed.

Lemma gen_interactions_chrono g : Sorted (fun x y => snd x <= snd y) (gen_interactions g).
Proof.
  unfold gen_interactions. eapply Sorted_map; [|apply stream_sorted].
  intros [[t [a b]] op] [[t' [a' b']] op']. unfold ev_time; simpl. auto.
Qed.

(** ** generic list facts *)
Lemma In_zrange n : forall a t, In t (zrange a n) <-> a <= t < a + Z.of_nat n.
Proof.
  induction n as [|n IH]; intros a t; simpl zrange.
  - simpl. lia.
  - simpl In. rewrite IH. lia.
Qed.

Lemma In_zrange_incl a b t : In t (zrange_incl a b) <-> a <= t <= b.
Proof. unfold zrange_incl. rewrite In_zrange. lia. Qed.

Lemma zrange_sorted n : forall a, StronglySorted Z.lt (zrange a n).
Proof.
  induction n as [|n IH]; intros a; simpl; constructor; [apply IH|].
  apply Forall_forall. intros t Ht. apply In_zrange in Ht. lia.
Qed.

Lemma zrange_incl_sorted a b : StronglySorted Z.lt (zrange_incl a b).
Proof. apply zrange_sorted. Qed.

Lemma SS_app {A} (R : A -> A -> Prop) l1 l2 :
  StronglySorted R l1 -> StronglySorted R l2 -> (forall x y, In x l1 -> In y l2 -> R x y) ->
  StronglySorted R (l1 ++ l2).
Proof.
  induction l1 as [|a r IH]; simpl; intros H1 H2 H; [assumption|].
  apply StronglySorted_inv in H1. destruct H1 as (Hr & Ha). rewrite Forall_forall in Ha.
  constructor; [apply IH; auto|].
  apply Forall_forall. intros y Hy. apply in_app_or in Hy. destruct Hy; auto.
Qed.

Lemma SS_map {A B} (R : A -> A -> Prop) (R' : B -> B -> Prop) (f : A -> B) l :
  (forall x y, R x y -> R' (f x) (f y)) -> StronglySorted R l -> StronglySorted R' (map f l).
Proof.
  intros HR. induction 1 as [|a l Hs IH Ha]; simpl; constructor; auto.
  rewrite Forall_forall in *. intros y Hy. apply in_map_iff in Hy. destruct Hy as (x & <- & Hx). auto.
Qed.

Lemma SS_flat_map {A B K} (R : B -> B -> Prop) (key : A -> K) (h : A -> list B) l :
  NoDup (map key l) ->
  (forall e, In e l -> StronglySorted R (h e)) ->
  (forall e e' x y, In e l -> In e' l -> key e <> key e' -> In x (h e) -> In y (h e') -> R x y) ->
  StronglySorted R (flat_map h l).
Proof.
  induction l as [|e r IH]; simpl; intros Hnd Hs Hx; [constructor|].
  apply NoDup_cons_iff in Hnd. destruct Hnd as (Hni & Hnd).
  apply SS_app; auto.
  - apply IH; auto. intros e1 e2 x y H1 H2. apply Hx; auto.
  - intros x y Hxe Hy. apply in_flat_map in Hy. destruct Hy as (e' & He' & Hy).
    apply (Hx e e'); auto. intros E. apply Hni. rewrite E. apply in_map. assumption.
Qed.

Lemma SS_NoDup {A} (R : A -> A -> Prop) l : (forall x, R x x -> False) -> StronglySorted R l -> NoDup l.
Proof.
  intros Hirr. induction 1 as [|a l Hs IH Ha]; constructor; auto.
  intros Hin. rewrite Forall_forall in Ha. apply (Hirr a). auto.
Qed.

Lemma map_flat_map {A B C} (f : B -> C) (h : A -> list B) l :
  flat_map (fun x => map f (h x)) l = map f (flat_map h l).
Proof. induction l as [|a r IH]; simpl; [reflexivity|]. rewrite map_app, IH. reflexivity. Qed.

(** ** presence at an instant on good graphs; the enumerated pairs *)
Lemma io_hi_omem g u v tau : g_rem g = true -> ocanon (aget peqb (nk (g_dir g) u v) (g_edges g)) ->
  has_interaction g u v (Some tau) = omem tau (aget peqb (nk (g_dir g) u v) (g_edges g)).
Proof.
  intros Hr Hc. unfold has_interaction, key_present.
  destruct (aget peqb (nk (g_dir g) u v) (g_edges g)) as [tl|]; simpl; [|reflexivity].
  unfold presence_test. rewrite Hr. apply presence_mem. exact Hc.
Qed.

Lemma io_good_hi g u v tau : GoodG g -> has_interaction g u v (Some tau) = mem tau (timeline_of g u v).
Proof.
  intros (Hr & Hc & _). rewrite io_hi_omem by auto. unfold timeline_of.
  destruct (aget peqb (nk (g_dir g) u v) (g_edges g)) as [tl|]; simpl; [|reflexivity].
  unfold tl_chrono. symmetry. apply mem_rev.
Qed.

Lemma io_good_cc g u v : GoodG g -> canon_chrono (timeline_of g u v).
Proof.
  intros (_ & Hc & _). unfold timeline_of. specialize (Hc (nk (g_dir g) u v)).
  destruct (aget peqb (nk (g_dir g) u v) (g_edges g)) as [tl|]; simpl; [|exact I].
  unfold tl_chrono. apply canon_rev. exact Hc.
Qed.

Lemma io_hi_some_none g u v tau : has_interaction g u v (Some tau) = true -> has_interaction g u v None = true.
Proof. unfold has_interaction, key_present. destruct (aget peqb _ _); auto. Qed.

Lemma io_hi_key g u v u' v' t : nk (g_dir g) u v = nk (g_dir g) u' v' ->
  has_interaction g u v t = has_interaction g u' v' t.
Proof. unfold has_interaction. intros ->. reflexivity. Qed.

Lemma io_nk_false_inj u v u' v' : nk false u v = nk false u' v' -> (u, v) = (u', v') \/ (u, v) = (v', u').
Proof. unfold nk. destruct (u <=? v), (u' <=? v'); intros H; inversion H; auto. Qed.

Definition io_pairs (g : graph) : list (Z * Z) :=
  if g_dir g then out_interactions g None None else interactions g None None.

Lemma io_pairs_sound g p : InvAdj g -> In p (io_pairs g) -> has_interaction g (fst p) (snd p) None = true.
Proof.
  intros HI. unfold io_pairs. destruct p as [x y]. simpl. destruct (g_dir g) eqn:Hd.
  - apply out_interactions_spec; assumption.
  - apply interactions_sound; assumption.
Qed.

Lemma io_pairs_complete g u v : InvAdj g -> has_interaction g u v None = true ->
  In (u, v) (io_pairs g) \/ (g_dir g = false /\ In (v, u) (io_pairs g)).
Proof.
  intros HI H. unfold io_pairs. destruct (g_dir g) eqn:Hd.
  - left. apply out_interactions_spec; assumption.
  - destruct (interactions_undirected_complete g u v None HI Hd H); auto.
Qed.

Lemma io_NoDup_map_inj_in {A B} (f : A -> B) (l : list A) :
  (forall x y, In x l -> In y l -> f x = f y -> x = y) -> NoDup l -> NoDup (map f l).
Proof.
  induction l as [|a r IH]; simpl; intros Hinj Hnd; [constructor|].
  inversion Hnd as [|? ? Hni Hr]; subst. constructor.
  - intros H. apply in_map_iff in H. destruct H as (x & Hx & Hin).
    apply Hinj in Hx; auto. subst. auto.
  - apply IH; auto.
Qed.

Lemma io_pairs_NoDup g : InvAdj g -> NoDup (map (fun p => nk (g_dir g) (fst p) (snd p)) (io_pairs g)).
Proof.
  intros HI. unfold io_pairs. destruct (g_dir g) eqn:Hd.
  - rewrite (map_ext _ (fun p => p)) by (intros [x y]; reflexivity). rewrite map_id.
    apply out_interactions_NoDup; assumption.
  - apply io_NoDup_map_inj_in; [|apply interactions_NoDup; assumption].
    intros [x y] [x' y'] Hx Hy E. simpl in E. apply io_nk_false_inj in E. destruct E as [E|E]; [assumption|].
    inversion E; subst. destruct (Z.eq_dec x' y') as [->|Hne]; [reflexivity|]. exfalso.
    apply (interactions_undirected_once g y' x' None HI Hd); auto.
Qed.

(** ** the snapshot writer: per pair, the instants of each run, increasing *)
Definition instants (tl : list (Z * Z)) : list Z := flat_map (fun r => zrange_incl (fst r) (snd r)) tl.
Definition rows_of (pr : (Z * Z) * list (Z * Z)) : list (Z * Z * Z) :=
  map (fun t => (fst (fst pr), snd (fst pr), t)) (instants (snd pr)).

Lemma gen_snapshots_rows g : gen_snapshots g = flat_map rows_of (flat_interactions g).
Proof.
  unfold gen_snapshots. apply flat_map_ext. intros [[u v] tl]. unfold rows_of, instants. simpl.
  apply map_flat_map.
Qed.

Lemma In_instants t tl : In t (instants tl) <-> mem t tl = true.
Proof.
  unfold instants, mem. rewrite in_flat_map, existsb_exists.
  split; intros (r & Hr & H); exists r; (split; [assumption|]).
  - apply In_zrange_incl in H. unfold in_itv. lia.
  - apply In_zrange_incl. unfold in_itv in H. lia.
Qed.

Lemma instants_sorted tl : canon_chrono tl -> StronglySorted Z.lt (instants tl).
Proof.
  induction tl as [|[a b] r IH]; intros Hc; [constructor|].
  change (instants ((a, b) :: r)) with (zrange_incl a b ++ instants r).
  apply SS_app; [apply zrange_incl_sorted|apply IH; eapply cc_tail; eassumption|].
  intros x y Hx Hy. apply In_zrange_incl in Hx. unfold instants in Hy. apply in_flat_map in Hy.
  destruct Hy as (r0 & Hr0 & Hy). apply In_zrange_incl in Hy.
  pose proof (cc_all_gt a b r Hc r0 Hr0). lia.
Qed.

Lemma gen_snapshots_spec g u v t : GoodG g ->
  (In (u, v, t) (gen_snapshots g) <->
   In (u, v) (if g_dir g then out_interactions g None None else interactions g None None) /\
   has_interaction g u v (Some t) = true).
Proof.
  intros HG. rewrite gen_snapshots_rows, in_flat_map. unfold flat_interactions. fold (io_pairs g). split.
  - intros (pr & Hpr & Hin). apply in_map_iff in Hpr. destruct Hpr as ([a b] & <- & Hp).
    unfold rows_of in Hin. simpl in Hin. apply in_map_iff in Hin. destruct Hin as (t' & E & Ht).
    inversion E; subst. split; [assumption|]. rewrite io_good_hi by assumption. apply In_instants. assumption.
  - intros (Hp & Hh). exists ((u, v), timeline_of g u v). split.
    + apply in_map_iff. exists (u, v). auto.
    + unfold rows_of. simpl. apply in_map_iff. exists t. split; [reflexivity|].
      apply In_instants. rewrite <- io_good_hi by assumption. assumption.
Qed.

(** rows of one pair come at strictly increasing instants; rows of different pairs have different keys *)
Definition rkey (dir : bool) (x : Z * Z * Z) : Z * Z := nk dir (fst (fst x)) (snd (fst x)).
Definition rlt (dir : bool) (x y : Z * Z * Z) : Prop := rkey dir x = rkey dir y -> snd x < snd y.

Lemma gen_snapshots_sorted g : GoodG g -> StronglySorted (rlt (g_dir g)) (gen_snapshots g).
Proof.
  intros HG. rewrite gen_snapshots_rows.
  apply (SS_flat_map _ (fun e => nk (g_dir g) (fst (fst e)) (snd (fst e)))).
  - unfold flat_interactions. fold (io_pairs g). rewrite map_map. simpl.
    apply io_pairs_NoDup. apply HG.
  - intros e He. unfold flat_interactions in He. apply in_map_iff in He. destruct He as (p & <- & _).
    unfold rows_of. simpl. eapply SS_map; [|apply instants_sorted, io_good_cc; assumption].
    intros x y Hxy _. simpl. assumption.
  - intros e e' x y _ _ Hne Hx Hy E. exfalso. apply Hne.
    unfold rows_of in Hx, Hy. apply in_map_iff in Hx. apply in_map_iff in Hy.
    destruct Hx as (? & <- & _). destruct Hy as (? & <- & _). exact E.
Qed.

Lemma gen_snapshots_NoDup g : GoodG g -> NoDup (gen_snapshots g).
Proof.
  intros HG. apply (SS_NoDup (rlt (g_dir g))); [|apply gen_snapshots_sorted; assumption].
  intros x H. specialize (H eq_refl). lia.
Qed.

(** ** reading rows back: a fold of point adds *)
Lemma parse_snapshots_links l : forall g,
  parse_snapshots_from g (map (fun x => (fst (fst x), snd (fst x), snd x, None)) l) = add_links g l.
Proof.
  induction l as [|[[u v] t] r IH]; intros g; simpl; [reflexivity|].
  destruct (add_interaction g u v (Some t) None) as [g' o]. destruct o; auto.
Qed.

Lemma io_step_nodes g u v s e g' : add_interaction g u v (Some s) e = (g', Done) ->
  g_nodes g' = ensure_node v (ensure_node u (g_nodes g)) /\ g_attr g' = g_attr g.
Proof.
  unfold add_interaction. cbv zeta.
  set (k := nk (g_dir g) u v).
  set (f := match e with Some e' => if g_rem g then e' - 1 else s | None => s end).
  destruct (aget peqb k (g_edges g)) as [[[a b] older]|] eqn:Hget.
  - destruct (s <? a) eqn:E1; [intros H; inversion H|].
    destruct (f <? s) eqn:E2; [intros H; inversion H; subst; split; reflexivity|].
    destruct (b + 1 <? s) eqn:E3; [intros H; inversion H; subst; split; reflexivity|].
    destruct (b <? f) eqn:E4; intros H; inversion H; subst; split; reflexivity.
  - destruct (f <? s) eqn:E2; intros H; inversion H; subst; split; reflexivity.
Qed.

Lemma ensure_node_id n l : In n (map fst l) -> ensure_node n l = l.
Proof. intros H. unfold ensure_node. apply zamem_In in H. rewrite H. reflexivity. Qed.

Lemma add_links_nodes l : forall g H, add_links g l = RdOk H ->
  (forall x, In x l -> In (fst (fst x)) (node_ids g) /\ In (snd (fst x)) (node_ids g)) ->
  g_nodes H = g_nodes g /\ g_attr H = g_attr g.
Proof.
  induction l as [|[[u v] t] r IH]; intros g H Hrun Hin; cbn [add_links] in Hrun.
  - inversion Hrun; subst. auto.
  - destruct (add_interaction g u v (Some t) None) as [g' o] eqn:Hs. destruct o; try discriminate.
    apply io_step_nodes in Hs. destruct Hs as (Hn & Ha).
    destruct (Hin (u, v, t) (or_introl eq_refl)) as (Hu & Hv). simpl in Hu, Hv. unfold node_ids in Hu, Hv.
    rewrite (ensure_node_id u) in Hn by assumption. rewrite (ensure_node_id v) in Hn by assumption.
    destruct (IH g' H Hrun) as (Hn' & Ha').
    + intros x Hx. unfold node_ids. rewrite Hn. apply Hin. right; assumption.
    + split; congruence.
Qed.

Definition call_of (x : Z * Z * Z) : call := mkCall (fst (fst x)) (snd (fst x)) (snd x) None.

(** point adds whose instants never go back on a pair are all accepted *)
Lemma add_links_ok l : forall g h,
  g_rem g = true -> Inv g h -> (forall c, In c h -> c_e c = None) ->
  StronglySorted (rlt (g_dir g)) l ->
  (forall c x, In c h -> In x l -> ckey (g_dir g) c = rkey (g_dir g) x -> c_t c <= snd x) ->
  exists H, add_links g l = RdOk H /\ g_dir H = g_dir g /\ g_rem H = true /\ Inv H (h ++ map call_of l).
Proof.
  induction l as [|[[u v] t] r IH]; intros g h Hrem HI Hpt Hss Hle.
  - exists g. simpl. rewrite app_nil_r. auto.
  - cbn [add_links]. destruct (add_interaction g u v (Some t) None) as [g' o] eqn:Hs.
    pose proof (step_edges _ _ _ _ _ _ _ Hs) as Hst. cbv zeta in Hst. destruct Hst as (Hd & Hr & Hst).
    apply StronglySorted_inv in Hss. destruct Hss as (Hss & Hall). rewrite Forall_forall in Hall.
    assert (Ho : o = Done).
    { unfold call_end in Hst. set (k := nk (g_dir g) u v) in *.
      destruct (HI k) as (Hc & Hm & _).
      destruct (aget peqb k (g_edges g)) as [[[a b] older]|] eqn:Hg.
      - assert (Hat : a <= t).
        { specialize (Hm a). simpl in Hc. destruct Hc as (Hab & _).
          assert (Hpa : pres (g_dir g) (g_rem g) h k a = true).
          { rewrite <- Hm. simpl. unfold in_itv. simpl. apply orb_true_iff. left. lia. }
          unfold pres in Hpa. apply existsb_exists in Hpa. destruct Hpa as (c & Hcin & Hcc).
          apply andb_true_iff in Hcc. destruct Hcc as (Hk & Hsp). apply peqb_eq in Hk.
          unfold in_span, span_end in Hsp. rewrite (Hpt c Hcin) in Hsp.
          assert (c_t c <= t) by (apply (Hle c (u, v, t)); [assumption|left; reflexivity|exact Hk]).
          lia. }
        unfold merge_tl in Hst. destruct (t <? a) eqn:E; [lia|].
        destruct (t <? t); [apply Hst|]. destruct (b + 1 <? t); [apply Hst|]. destruct (b <? t); apply Hst.
      - unfold merge_tl in Hst. destruct (t <? t); apply Hst. }
    subst o.
    destruct (Inv_step' g h (mkCall u v t None) g' Done HI Hs) as (HI' & _). specialize (HI' eq_refl).
    destruct (IH g' (h ++ [mkCall u v t None])) as (H & Hrun & HdH & HrH & HIH).
    + congruence.
    + exact HI'.
    + intros c Hc. apply in_app_or in Hc. destruct Hc as [Hc|[<-|[]]]; auto.
    + rewrite Hd. exact Hss.
    + rewrite Hd. intros c x Hc Hx Hk. apply in_app_or in Hc. destruct Hc as [Hc|[<-|[]]].
      * apply Hle; auto. right; assumption.
      * simpl. specialize (Hall x Hx Hk). simpl in Hall. lia.
    + exists H. split; [exact Hrun|]. split; [congruence|]. split; [exact HrH|].
      rewrite <- app_assoc in HIH. exact HIH.
Qed.

Lemma Inv_no_edges g : g_edges g = [] -> Inv g [].
Proof.
  intros E k. rewrite E. simpl. split; [exact I|]. split; [reflexivity|].
  split; [intros H; congruence|discriminate].
Qed.

Lemma pres_rows dir l k tau :
  pres dir true (map call_of l) k tau = true <-> exists x, In x l /\ rkey dir x = k /\ snd x = tau.
Proof.
  unfold pres. rewrite existsb_exists. split.
  - intros (c & Hc & H). apply in_map_iff in Hc. destruct Hc as (x & <- & Hx).
    apply andb_true_iff in H. destruct H as (H1 & H2). apply peqb_eq in H1.
    unfold in_span, span_end in H2. simpl in H2. exists x. split; [assumption|]. split; [exact H1|lia].
  - intros (x & Hx & Hk & Ht). exists (call_of x). split; [apply in_map; assumption|].
    apply andb_true_iff. split; [apply peqb_eq; exact Hk|]. unfold in_span, span_end. simpl. lia.
Qed.

(** the rows the snapshot writer lists, read back into a graph without interactions *)
Lemma links_roundtrip g g0 : GoodG g -> g_edges g0 = [] -> g_rem g0 = true -> g_dir g0 = g_dir g ->
  exists H, add_links g0 (gen_snapshots g) = RdOk H /\ g_dir H = g_dir g /\
    forall u v tau, has_interaction H u v (Some tau) = has_interaction g u v (Some tau).
Proof.
  intros HG He Hr Hd.
  destruct (add_links_ok (gen_snapshots g) g0 [] Hr (Inv_no_edges g0 He)) as (H & Hrun & HdH & HrH & HIH).
  - intros c [].
  - rewrite Hd. apply gen_snapshots_sorted; assumption.
  - intros c x [].
  - exists H. split; [exact Hrun|]. split; [congruence|]. intros u v tau.
    simpl in HIH. destruct (HIH (nk (g_dir H) u v)) as (Hc & Hm & _).
    rewrite io_hi_omem by assumption. rewrite Hm, HrH, HdH, Hd.
    apply eq_iff_eq_true. rewrite pres_rows. split.
    + intros ([[a b] t] & Hx & Hk & Ht). simpl in Ht. subst t.
      apply gen_snapshots_spec in Hx; [|assumption]. destruct Hx as (_ & Hh). rewrite <- Hh.
      symmetry. apply io_hi_key. exact Hk.
    + intros Hh. pose proof (io_hi_some_none _ _ _ _ Hh) as Hn.
      destruct (io_pairs_complete g u v (proj2 (proj2 HG)) Hn) as [Hin|(Hdf & Hin)].
      * exists (u, v, tau). split; [apply gen_snapshots_spec; auto|]. split; reflexivity.
      * exists (v, u, tau). split; [|split; [|reflexivity]].
        -- apply gen_snapshots_spec; [assumption|]. split; [exact Hin|].
           rewrite has_interaction_sym; assumption.
        -- unfold rkey. simpl. rewrite Hdf. apply nk_sym.
Qed.

Theorem snapshots_roundtrip g : GoodG g ->
  exists H, parse_snapshots (g_dir g) (map (fun x => (fst (fst x), snd (fst x), snd x, None)) (gen_snapshots g)) = RdOk H /\
            g_dir H = g_dir g /\
            forall u v tau, has_interaction H u v (Some tau) = has_interaction g u v (Some tau).
Proof.
  intros HG. unfold parse_snapshots. rewrite parse_snapshots_links.
  apply links_roundtrip; auto.
Qed.

(** ** JSON node-link data *)
Lemma fold_add_nodes l : forall g0, NoDup (map fst (g_nodes g0 ++ l)) ->
  fold_left (fun g na => add_node g (fst na) (snd na)) l g0 = with_nodes g0 (g_nodes g0 ++ l).
Proof.
  induction l as [|[n a] r IH]; intros g0 Hnd; simpl.
  - rewrite app_nil_r. destruct g0; reflexivity.
  - assert (Em : amem Z.eqb n (g_nodes g0) = false).
    { destruct (amem Z.eqb n (g_nodes g0)) eqn:E; [|reflexivity]. exfalso.
      apply zamem_In in E. rewrite map_app in Hnd. simpl in Hnd. apply NoDup_remove_2 in Hnd.
      apply Hnd. apply in_or_app. left; assumption. }
    unfold add_node at 2. rewrite Em. rewrite IH.
    + unfold with_nodes. simpl. rewrite <- app_assoc. reflexivity.
    + simpl. rewrite <- app_assoc. exact Hnd.
Qed.

Theorem node_link_roundtrip g arg : GoodG g ->
  exists H, node_link_graph (node_link_data g) arg = RdOk H /\ g_dir H = g_dir g /\ g_nodes H = g_nodes g /\
            g_attr H = g_attr g /\
            forall u v tau, has_interaction H u v (Some tau) = has_interaction g u v (Some tau).
Proof.
  intros HG. pose proof HG as (_ & _ & HI). pose proof HI as (_ & Hnn & _).
  unfold node_link_graph, node_link_data. cbn [nl_directed nl_graph nl_nodes nl_links].
  rewrite fold_add_nodes by (simpl; exact Hnn). cbn [g_nodes with_attr empty_graph app].
  set (g1 := with_nodes _ _).
  destruct (links_roundtrip g g1 HG) as (H & Hrun & HdH & Hpres); try reflexivity.
  destruct (add_links_nodes _ _ _ Hrun) as (Hn & Ha).
  { intros [[u v] t] Hx. simpl. apply gen_snapshots_spec in Hx; [|assumption]. destruct Hx as (_ & Hh).
    apply (has_interaction_nodes g u v _ HI Hh). }
  exists H. repeat split; auto.
Qed.

(** ** single rows: by definition the reader's step is add_interaction *)
Lemma parse_snapshot_row g u v t e : parse_snapshots_from g [(u, v, t, e)] =
  match add_interaction g u v (Some t) e with (g', Done) => RdOk g' | (_, o) => RdErr o end.
Proof. simpl. destruct (add_interaction g u v (Some t) e) as [g' o]. destruct o; reflexivity. Qed.

Lemma parse_interactions_plus g u v s : parse_interactions_from g [(u, v, true, s)] =
  match add_interaction g u v (Some s) None with (g', Done) => RdOk g' | (_, o) => RdErr o end.
Proof. simpl. destruct (add_interaction g u v (Some s) None) as [g' o]. destruct o; reflexivity. Qed.

(** * Text-level round trip of one snapshot row (extra): the line the writer renders for (u, v, t) with a
    one-character delimiter that is neither a digit, a minus sign nor whitespace is read back as that row *)
Definition rchar (c : Z) : Prop := dchar c \/ c = 45.

Lemma render_int_chars z : Forall rchar (render_int z).
Proof.
  unfold render_int. destruct (z <? 0) eqn:E.
  - constructor; [right; reflexivity|].
    eapply Forall_impl; [|apply pos_digits_chars; [lia|constructor]]. intros c Hc. left; assumption.
  - eapply Forall_impl; [|apply pos_digits_chars; [lia|constructor]]. intros c Hc. left; assumption.
Qed.

Lemma render_int_notin z c : ~ rchar c -> ~ In c (render_int z).
Proof. intros Hc Hin. pose proof (render_int_chars z) as H. rewrite Forall_forall in H. auto. Qed.

Lemma split_on_app d a rest : ~ In d a -> forall cur,
  split_on d (a ++ d :: rest) cur = (rev cur ++ a) :: split_on d rest [].
Proof.
  induction a as [|c r IH]; intros Hni cur; simpl.
  - rewrite Z.eqb_refl, app_nil_r. reflexivity.
  - destruct (c =? d) eqn:E; [exfalso; apply Hni; left; lia|].
    rewrite IH by (intros H; apply Hni; right; assumption). simpl. rewrite <- app_assoc. reflexivity.
Qed.

Lemma split_on_last d a : ~ In d a -> forall cur, split_on d a cur = [rev cur ++ a].
Proof.
  induction a as [|c r IH]; intros Hni cur; simpl.
  - rewrite app_nil_r. reflexivity.
  - destruct (c =? d) eqn:E; [exfalso; apply Hni; left; lia|].
    rewrite IH by (intros H; apply Hni; right; assumption). simpl. rewrite <- app_assoc. reflexivity.
Qed.

Lemma fields_clean m d l : l <> [] -> ~ In m l -> Forall (fun c => is_ws c = false) l ->
  fields m d l = Some (split d l).
Proof.
  intros Hne Hm Hws. unfold fields. rewrite cut_comment_none by assumption. rewrite strip_id by assumption.
  destruct l; [congruence|reflexivity].
Qed.

Theorem snap_line_render m d u v t : ~ rchar m -> ~ rchar d -> m <> d -> is_ws d = false ->
  snap_line m (Some d) (render_snap_row d (u, v, t)) = LRow (u, v, t, None).
Proof.
  intros Hm Hd Hmd Hws. unfold render_snap_row, join. cbn [fst snd].
  assert (Hrw : forall z, Forall (fun c => is_ws c = false) (render_int z)).
  { intros z. eapply Forall_impl; [|apply render_int_chars]. intros c Hc. apply dchar_not_ws. exact Hc. }
  unfold snap_line. rewrite fields_clean.
  - unfold split. rewrite split_on_app by (apply render_int_notin; assumption).
    rewrite split_on_app by (apply render_int_notin; assumption).
    rewrite split_on_last by (apply render_int_notin; assumption). simpl.
    rewrite !parse_int_render. reflexivity.
  - intros E. apply app_eq_nil in E. destruct E as (_ & E). discriminate.
  - intros Hin. repeat (apply in_app_or in Hin; destruct Hin as [Hin|Hin];
      [revert Hin; apply render_int_notin; assumption|]; destruct Hin as [Hin|Hin]; [congruence|]).
    revert Hin. apply render_int_notin; assumption.
  - repeat (apply Forall_app; split; [apply Hrw|]; constructor; [assumption|]). apply Hrw.
Qed.
