(** CoreInv: the step lemma for timelines and the invariant I-canon + I-pres, lifted to every history. *)
From DynVerif Require Import Base Graph Spec.
From DynVerif.proofs Require Import AListFacts.

(** ** single-timeline facts *)
Lemma canon_tail a b r : canon ((a, b) :: r) -> canon r.
Proof. simpl. tauto. Qed.

Lemma canon_older_below a b r : canon ((a, b) :: r) -> forall t, mem t r = true -> t + 1 < a.
Proof.
  revert a b. induction r as [|[a' b'] r IH]; intros a b Hc t Hm; [discriminate|].
  simpl in Hc. destruct Hc as (Hab & Hlt & Hab' & Hr & Hc').
  simpl in Hm. apply orb_true_iff in Hm. destruct Hm as [Hm|Hm].
  - unfold in_itv in Hm; simpl in Hm. lia.
  - assert (t + 1 < a') by (apply (IH a' b'); [simpl; auto|assumption]). lia.
Qed.

Lemma canon_in_lt a b r : canon ((a, b) :: r) -> forall x, In x r -> fst x <= snd x /\ snd x + 1 < a.
Proof.
  revert a b. induction r as [|[a' b'] r IH]; intros a b Hc x Hx; [destruct Hx|].
  simpl in Hc. destruct Hc as (Hab & Hlt & Hab' & Hr & Hc').
  destruct Hx as [<-|Hx]; simpl; [lia|].
  assert (fst x <= snd x /\ snd x + 1 < a') by (apply (IH a' b'); [simpl; auto|assumption]). lia.
Qed.

Lemma last_change_default {A} (l : list A) (d d' : A) : l <> [] -> last l d = last l d'.
Proof.
  induction l as [|x r IH]; intros H; [congruence|]. destruct r as [|y r']; [reflexivity|].
  simpl in *. apply IH. discriminate.
Qed.

Lemma last_cons_ne {A} (x : A) (l : list A) (d d' : A) : last (x :: l) d = last l x.
Proof. destruct l as [|y r]; [reflexivity|]. change (last (x :: y :: r) d) with (last (y :: r) d). apply last_change_default. discriminate. Qed.

Lemma canon_last_min a b r : canon ((a, b) :: r) -> forall x, In x ((a, b) :: r) -> fst (last r (a, b)) <= fst x.
Proof.
  revert a b. induction r as [|[a' b'] r IH]; intros a b Hc x Hx.
  - destruct Hx as [<-|[]]. simpl. lia.
  - rewrite (last_cons_ne (a', b') r (a, b) (a, b)).
    assert (Hc' : canon ((a', b') :: r)) by (simpl in Hc; simpl; tauto).
    destruct Hx as [<-|Hx].
    + specialize (IH a' b' Hc' (a', b') (or_introl eq_refl)). simpl in *. lia.
    + apply (IH a' b' Hc' x Hx).
Qed.

Lemma mem_ge_first a b r t : canon ((a, b) :: r) -> mem t ((a, b) :: r) = true -> fst (last r (a, b)) <= t <= b.
Proof.
  intros Hc Hm. unfold mem in Hm. apply existsb_exists in Hm. destruct Hm as (x & Hx & Hin).
  unfold in_itv in Hin. pose proof (canon_last_min _ _ _ Hc x Hx) as Hl.
  destruct Hx as [<-|Hx]; simpl in *; [lia|].
  pose proof (canon_in_lt _ _ _ Hc x Hx). simpl in Hc. lia.
Qed.

(** the code's presence test (envelope, then scan) is plain membership on canonical timelines *)
Lemma presence_mem (tl : tline) t : canon (tl_list tl) ->
  (first_start tl <=? t) && (t <=? snd (fst tl)) && mem t (tl_list tl) = mem t (tl_list tl).
Proof.
  destruct tl as [[a b] r]. unfold tl_list, first_start; simpl fst; simpl snd. intros Hc.
  destruct (mem t ((a, b) :: r)) eqn:Hm; [|apply andb_false_r].
  pose proof (mem_ge_first _ _ _ _ Hc Hm). lia.
Qed.

(** ** the merge a call performs on the pair's entry *)
(** [None] = rejected; [Some x] = the entry afterwards ([x = None]: still no entry) *)
Definition merge_tl (old : option tline) (s f : Z) : option (option tline) :=
  match old with
  | None => if f <? s then Some None else Some (Some ((s, f), []))
  | Some ((a, b), older) =>
      if s <? a then None
      else if f <? s then Some old
      else if b + 1 <? s then Some (Some ((s, f), (a, b) :: older))
      else if b <? f then Some (Some ((a, f), older))
      else Some old
  end.

Definition ocanon (o : option tline) : Prop := match o with None => True | Some tl => canon (tl_list tl) end.
Definition omem (t : Z) (o : option tline) : bool := match o with None => false | Some tl => mem t (tl_list tl) end.

Lemma merge_canon old s f new : ocanon old -> merge_tl old s f = Some new -> ocanon new.
Proof.
  unfold merge_tl. destruct old as [[[a b] older]|]; simpl.
  - intros (Hab & Ho & Hc).
    destruct (s <? a) eqn:E1; [discriminate|].
    destruct (f <? s) eqn:E2; [intros H; inversion H; subst; simpl; auto|].
    destruct (b + 1 <? s) eqn:E3; [intros H; inversion H; subst; simpl; repeat split; auto; lia|].
    destruct (b <? f) eqn:E4; intros H; inversion H; subst; simpl; auto.
    repeat split; auto; try lia.
  - intros _. destruct (f <? s) eqn:E; intros H; inversion H; subst; simpl; auto. repeat split; auto; lia.
Qed.

Lemma merge_mem old s f new t : ocanon old -> merge_tl old s f = Some new ->
  omem t new = omem t old || ((s <=? t) && (t <=? f)).
Proof.
  unfold merge_tl. destruct old as [[[a b] older]|]; simpl.
  - intros (Hab & Ho & Hc).
    destruct (s <? a) eqn:E1; [discriminate|].
    destruct (f <? s) eqn:E2;
      [|destruct (b + 1 <? s) eqn:E3; [|destruct (b <? f) eqn:E4]];
      intros H; inversion H; subst; simpl; unfold in_itv; simpl;
      destruct (mem t older); lia.
  - intros _. destruct (f <? s) eqn:E; intros H; inversion H; subst; simpl; unfold in_itv; simpl; lia.
Qed.

(** ** what add_interaction does to the adjacency (both modes) *)
Definition call_end (rem : bool) (s : Z) (e : option Z) : Z :=
  match e with Some e' => if rem then e' - 1 else s | None => s end.

Definition edges_wf (g : graph) : Prop := NoDup (akeys (g_edges g)).

Lemma step_edges g u v s e g' o :
  add_interaction g u v (Some s) e = (g', o) ->
  let k := nk (g_dir g) u v in
  let f := call_end (g_rem g) s e in
  g_dir g' = g_dir g /\ g_rem g' = g_rem g /\
  match merge_tl (aget peqb k (g_edges g)) s f with
  | None => o = EValue /\ g' = g
  | Some new => o = Done /\ forall k', aget peqb k' (g_edges g') = if peqb k' k then new else aget peqb k' (g_edges g)
  end.
Proof.
  unfold add_interaction, call_end. cbv zeta.
  set (k := nk (g_dir g) u v).
  set (f := match e with Some e' => if g_rem g then e' - 1 else s | None => s end).
  destruct (aget peqb k (g_edges g)) as [[[a b] older]|] eqn:Hget; unfold merge_tl.
  - destruct (s <? a) eqn:E1; [intros H; inversion H; subst; auto|].
    destruct (f <? s) eqn:E2.
    { intros H; inversion H; subst; simpl. repeat split; auto. intros k'.
      destruct (peqb k' k) eqn:Ek; auto. apply peqb_eq in Ek. subst. auto. }
    destruct (b + 1 <? s) eqn:E3.
    { intros H; inversion H; subst; simpl. repeat split; auto. intros k'.
      destruct (peqb k' k) eqn:Ek.
      - apply peqb_eq in Ek. subst. apply aget_aset_eq. congruence.
      - apply aget_aset_neq; auto. }
    destruct (b <? f) eqn:E4.
    { intros H; inversion H; subst; simpl. repeat split; auto. intros k'.
      destruct (peqb k' k) eqn:Ek.
      - apply peqb_eq in Ek. subst. apply aget_aset_eq. congruence.
      - apply aget_aset_neq; auto. }
    intros H; inversion H; subst; simpl. repeat split; auto. intros k'.
    destruct (peqb k' k) eqn:Ek; auto. apply peqb_eq in Ek. subst. auto.
  - destruct (f <? s) eqn:E2.
    { intros H; inversion H; subst; simpl. repeat split; auto. intros k'.
      destruct (peqb k' k) eqn:Ek; auto. apply peqb_eq in Ek. subst. auto. }
    intros H; inversion H; subst; simpl. repeat split; auto. intros k'.
    destruct (peqb k' k) eqn:Ek.
    + apply peqb_eq in Ek. subst. rewrite aget_app_notin by assumption. simpl. rewrite peqb_refl. reflexivity.
    + rewrite aget_app_other by (simpl; assumption). reflexivity.
Qed.

(** ** the invariant and its lift to every history *)
Definition Inv (g : graph) (h : list call) : Prop :=
  forall k, ocanon (aget peqb k (g_edges g)) /\
            (forall t, omem t (aget peqb k (g_edges g)) = pres (g_dir g) (g_rem g) h k t) /\
            ((aget peqb k (g_edges g) <> None) <-> named (g_dir g) (g_rem g) h k = true).

Lemma pres_snoc dir rem h c k t :
  pres dir rem (h ++ [c]) k t = pres dir rem h k t || (peqb (ckey dir c) k && in_span rem t c).
Proof. unfold pres. rewrite existsb_app. simpl. rewrite orb_false_r. reflexivity. Qed.

Lemma named_snoc dir rem h c k :
  named dir rem (h ++ [c]) k = named dir rem h k || (peqb (ckey dir c) k && nonempty rem c).
Proof. unfold named. rewrite existsb_app. simpl. rewrite orb_false_r. reflexivity. Qed.

Lemma Inv_init dir rem : Inv (empty_graph dir rem) [].
Proof. intros k. simpl. split; [exact I|]. split; [reflexivity|]. split; [intros H; congruence|discriminate]. Qed.

Lemma Inv_step g h c : Inv g h ->
  let '(g', o) := do_call g c in
  match o with Done => Inv g' (h ++ [c]) | _ => g' = g end.
Proof.
  intros HI. unfold do_call. destruct (add_interaction g (c_u c) (c_v c) (Some (c_t c)) (c_e c)) as [g' o] eqn:Hs.
  pose proof (step_edges _ _ _ _ _ _ _ Hs) as Hst. cbv zeta in Hst. destruct Hst as (Hd & Hr & Hst).
  set (k0 := nk (g_dir g) (c_u c) (c_v c)) in *.
  destruct (merge_tl (aget peqb k0 (g_edges g)) (c_t c) (call_end (g_rem g) (c_t c) (c_e c))) as [new|] eqn:Hm.
  - destruct Hst as (-> & Hget). intros k. rewrite Hd, Hr. rewrite (Hget k).
    destruct (HI k0) as (Hc0 & Hm0 & Hn0). destruct (HI k) as (Hck & Hmk & Hnk).
    assert (Hend : call_end (g_rem g) (c_t c) (c_e c) = span_end (g_rem g) c)
      by (unfold call_end, span_end; reflexivity).
    destruct (peqb k k0) eqn:Ek.
    + apply peqb_eq in Ek. subst k. split; [eapply merge_canon; eauto|]. split.
      * intros t. rewrite (merge_mem _ _ _ _ t Hc0 Hm). rewrite pres_snoc, Hm0.
        unfold ckey. fold k0. rewrite peqb_refl. unfold in_span. rewrite Hend. reflexivity.
      * rewrite named_snoc. unfold ckey. fold k0. rewrite peqb_refl. simpl. unfold nonempty. rewrite <- Hend.
        unfold merge_tl in Hm. destruct (aget peqb k0 (g_edges g)) as [[[a b] older]|] eqn:Hg.
        -- assert (named (g_dir g) (g_rem g) h k0 = true) as -> by (apply Hn0; congruence).
           simpl. split; auto. intros _.
           destruct (c_t c <? a); [discriminate|]. destruct (_ <? c_t c); [inversion Hm; congruence|].
           destruct (b + 1 <? c_t c); [inversion Hm; congruence|]. destruct (b <? _); inversion Hm; congruence.
        -- assert (named (g_dir g) (g_rem g) h k0 = false) as ->.
           { destruct (named (g_dir g) (g_rem g) h k0) eqn:En; auto. exfalso. apply (proj2 Hn0 eq_refl). reflexivity. }
           simpl. destruct (_ <? c_t c) eqn:E; inversion Hm; subst; split; intros H; try congruence; try lia.
    + split; [assumption|]. split.
      * intros t. rewrite pres_snoc, Hmk. unfold ckey. fold k0. rewrite (peqb_sym k0 k), Ek. simpl. rewrite orb_false_r. reflexivity.
      * rewrite named_snoc. unfold ckey. fold k0. rewrite (peqb_sym k0 k), Ek. simpl. rewrite orb_false_r. assumption.
  - destruct Hst as (-> & ->). reflexivity.
Qed.

Lemma Inv_step' g h c g' o : Inv g h -> do_call g c = (g', o) ->
  (o = Done -> Inv g' (h ++ [c])) /\ (o <> Done -> g' = g).
Proof.
  intros HI Hd. pose proof (Inv_step g h c HI) as Hs. rewrite Hd in Hs.
  destruct o; split; intros; try congruence; auto.
Qed.

Lemma do_call_outcome g c : snd (do_call g c) = Done \/ snd (do_call g c) = EValue.
Proof.
  unfold do_call. destruct (add_interaction g (c_u c) (c_v c) (Some (c_t c)) (c_e c)) as [g' o] eqn:Hs.
  pose proof (step_edges _ _ _ _ _ _ _ Hs) as Hst. cbv zeta in Hst. destruct Hst as (_ & _ & Hst).
  destruct (merge_tl _ _ _); simpl; tauto.
Qed.

Theorem Inv_run cs : forall g h, Inv g h -> Inv (run_calls g cs) (h ++ accepted g cs).
Proof.
  induction cs as [|c r IH]; intros g h HI; simpl.
  - rewrite app_nil_r. assumption.
  - pose proof (Inv_step g h c HI) as Hs. destruct (do_call g c) as [g' o] eqn:Hd. simpl.
    destruct o; try (subst g'; apply IH; assumption).
    replace (h ++ c :: accepted g' r) with ((h ++ [c]) ++ accepted g' r) by (rewrite <- app_assoc; reflexivity).
    apply IH. assumption.
Qed.

Lemma run_calls_flags cs : forall g, g_dir (run_calls g cs) = g_dir g /\ g_rem (run_calls g cs) = g_rem g.
Proof.
  induction cs as [|c r IH]; intros g; simpl; auto.
  unfold do_call. destruct (add_interaction g (c_u c) (c_v c) (Some (c_t c)) (c_e c)) as [g' o] eqn:Hs.
  pose proof (step_edges _ _ _ _ _ _ _ Hs) as Hst. cbv zeta in Hst. destruct Hst as (Hd & Hr & _).
  simpl. destruct (IH g') as (H1 & H2). split; congruence.
Qed.
