(** PyGenCoreEq: the definitions GENERATED from the Python source by tools/py2gallina_core.py (gen/PyGenCore.v: the
    private presence test and the public has_interaction of DynGraph and DynDiGraph) are equal to the hand-written model
    functions [presence_test] / [key_present] / [has_interaction] of Graph.v - for EVERY graph state, no invariant needed.

    Shape: the scan loop with its early return is [existsb] ([scan_eq], generic in the loop body's test); the stored list is
    the model's timeline reversed ([hd_rev], [last_rev_cons], [existsb_rev]); [t in range(a, b + 1)] is [a <= t <= b];
    [max(self.temporal_snapshots_ids())] is the maximum of the snapshot keys whatever their order ([max_of_perm]).
    The text of the generated definitions is never quoted: the proofs unfold them and rewrite with these lemmas. *)
From DynVerif Require Import Base Graph PySupportCore.
From DynVerif.gen Require Import PyGenCore.
From DynVerif.proofs Require Import AnnotateFacts.
From Coq Require Import Sorting.Permutation.

Lemma scan_eq (f : Z * Z -> bool) (l : list (Z * Z)) : forall a,
  fold_left (fun acc_ s => ret_seq acc_ (if f s then Some true else None)) l a =
  match a with Some r => Some r | None => if existsb f l then Some true else None end.
Proof.
  induction l as [|x r IH]; intros a; simpl.
  - destruct a; reflexivity.
  - rewrite IH. destruct a as [b|]; simpl; [reflexivity|]. destruct (f x); reflexivity.
Qed.

Lemma hd_rev {A} (l : list A) (d : A) : hd d (rev l) = last l d.
Proof.
  induction l as [|a l IH]; [reflexivity|]. simpl rev.
  destruct l as [|b l]; [reflexivity|].
  change (last (a :: b :: l) d) with (last (b :: l) d). rewrite <- IH.
  destruct (rev (b :: l)) eqn:E; [|reflexivity].
  apply (f_equal (@length A)) in E. rewrite rev_length in E. discriminate.
Qed.

Lemma last_rev_cons {A} (a : A) (l : list A) (d : A) : last (rev (a :: l)) d = a.
Proof. simpl. apply last_last. Qed.

Lemma existsb_rev' {A} (f : A -> bool) (l : list A) : existsb f (rev l) = existsb f l.
Proof.
  induction l as [|a l IH]; [reflexivity|]. simpl. rewrite existsb_app, IH. simpl.
  rewrite orb_false_r. apply orb_comm.
Qed.

Lemma last_any {A} (l : list A) (a d d' : A) : last (a :: l) d = last (a :: l) d'.
Proof. revert a. induction l as [|b l IH]; intros a; [reflexivity|]. change (last (b :: l) d = last (b :: l) d'). apply IH. Qed.

Lemma existsb_ext' {A} (f h : A -> bool) (l : list A) : (forall x, f x = h x) -> existsb f l = existsb h l.
Proof. intros H. induction l as [|a l IH]; [reflexivity|]. simpl. rewrite H, IH. reflexivity. Qed.

Lemma ltb_succ a b : (a <? b + 1) = (a <=? b).
Proof. destruct (Z.ltb_spec a (b + 1)), (Z.leb_spec a b); lia. Qed.

(** ** max over a list does not depend on its order *)
Lemma fold_max_spec r : forall x, let m := fold_left Z.max r x in
  (m = x \/ In m r) /\ x <= m /\ forall y, In y r -> y <= m.
Proof.
  induction r as [|a r IH]; intros x; simpl.
  - split; [left; reflexivity|]. split; [lia|]. intros y [].
  - destruct (IH (Z.max x a)) as (H1 & H2 & H3). set (m := fold_left Z.max r (Z.max x a)) in *. clearbody m. split; [|split].
    + destruct H1 as [H1|H1]; [|right; right; exact H1].
      destruct (Z.max_spec x a) as [[_ E]|[_ E]]; rewrite E in H1; [right; left; symmetry; exact H1|left; exact H1].
    + lia.
    + intros y [<-|Hy]; [lia|apply H3; exact Hy].
Qed.

Lemma max_of_spec l : l <> [] -> In (max_of l) l /\ forall y, In y l -> y <= max_of l.
Proof.
  destruct l as [|x r]; [congruence|]. intros _. unfold max_of.
  destruct (fold_max_spec r x) as (H1 & H2 & H3). split.
  - destruct H1 as [->|H1]; [left; reflexivity|right; exact H1].
  - intros y [<-|Hy]; [exact H2|apply H3; exact Hy].
Qed.

Lemma max_of_perm l l' : Permutation l l' -> max_of l = max_of l'.
Proof.
  intros HP. destruct l as [|x r].
  - apply Permutation_nil in HP. subst. reflexivity.
  - assert (Hn : x :: r <> []) by discriminate.
    assert (Hn' : l' <> []). { intros ->. apply Permutation_sym, Permutation_nil in HP. discriminate. }
    destruct (max_of_spec _ Hn) as (I1 & M1). destruct (max_of_spec _ Hn') as (I2 & M2).
    apply Z.le_antisymm.
    + apply M2. eapply Permutation_in; [exact HP|exact I1].
    + apply M1. eapply Permutation_in; [apply Permutation_sym; exact HP|exact I2].
Qed.

Lemma max_ids_eq g : max_of (snapshot_ids g) = max_id g.
Proof. unfold snapshot_ids, max_id. rewrite (max_of_perm _ _ (sortZ_perm _)). reflexivity. Qed.

(** ** the presence test as the stored list sees it *)
Lemma chrono_facts (tl : tline) t :
  fst (hd (0, 0) (tl_chrono tl)) = first_start tl /\
  snd (last (tl_chrono tl) (0, 0)) = snd (fst tl) /\
  forall f : Z * Z -> bool, (forall s, f s = in_itv t s) -> existsb f (tl_chrono tl) = mem t (tl_list tl).
Proof.
  destruct tl as [a older]. unfold tl_chrono, tl_list, first_start. cbn [fst snd]. split; [|split].
  - rewrite hd_rev. f_equal. destruct older as [|b l]; [reflexivity|]. change (last (a :: b :: l) (0, 0)) with (last (b :: l) (0, 0)). apply last_any.
  - rewrite last_rev_cons. reflexivity.
  - intros f Hf. rewrite existsb_rev'. unfold mem. apply existsb_ext'. exact Hf.
Qed.

Ltac py_core_body tl t :=
  destruct (chrono_facts tl t) as (F1 & F2 & F3);
  cbv beta iota zeta;
  match goal with |- context [fold_left (fun acc_ s => ret_seq acc_ (if @?f s then Some true else None)) ?l ?a] =>
    rewrite (scan_eq f l a), (F3 f) by (intros s; unfold in_itv; cbv beta; rewrite ?ltb_succ; reflexivity) end;
  rewrite ?F1, ?F2, ?max_ids_eq;
  unfold presence_test;
  destruct (g_rem _);
  [ destruct ((first_start tl <=? t) && (t <=? snd (fst tl))) eqn:Env; cbn [ret_seq ret_val andb];
    [ destruct (mem t (tl_list tl)); reflexivity | reflexivity ]
  | destruct ((first_start tl <=? t) && (t <=? max_id _)); reflexivity ].

Lemma py_presence_test_graph_eq g u v t tl : adj_entry g u v = Some tl ->
  py_presence_test_graph g u v t = presence_test g tl t.
Proof.
  intros E. unfold py_presence_test_graph, adj_spans. rewrite E. py_core_body tl t.
Qed.
Print Assumptions py_presence_test_graph_eq.

Lemma py_presence_test_digraph_eq g u v t :
  py_presence_test_digraph g u v t = key_present g (nk (g_dir g) u v) (Some t).
Proof.
  unfold py_presence_test_digraph, key_present, in_adj, adj_spans.
  change (aget peqb (nk (g_dir g) u v) (g_edges g)) with (adj_entry g u v).
  destruct (adj_entry g u v) as [tl|]; [|reflexivity].
  cbn [negb ret_seq]. py_core_body tl t.
Qed.
Print Assumptions py_presence_test_digraph_eq.

Lemma py_has_interaction_graph_eq g u v t : py_has_interaction_graph g u v t = has_interaction g u v t.
Proof.
  unfold py_has_interaction_graph, has_interaction, key_present, in_adj.
  change (aget peqb (nk (g_dir g) u v) (g_edges g)) with (adj_entry g u v).
  destruct t as [t|]; cbn [ret_val].
  - destruct (adj_entry g u v) as [tl|] eqn:E; [|reflexivity]. rewrite (py_presence_test_graph_eq g u v t tl E). reflexivity.
  - destruct (adj_entry g u v); reflexivity.
Qed.
Print Assumptions py_has_interaction_graph_eq.

Lemma py_has_interaction_digraph_eq g u v t : py_has_interaction_digraph g u v t = has_interaction g u v t.
Proof.
  unfold py_has_interaction_digraph, has_interaction. destruct t as [t|]; cbn [ret_val].
  - rewrite py_presence_test_digraph_eq. unfold key_present, in_adj.
    change (aget peqb (nk (g_dir g) u v) (g_edges g)) with (adj_entry g u v).
    destruct (adj_entry g u v); reflexivity.
  - unfold key_present, in_adj. change (aget peqb (nk (g_dir g) u v) (g_edges g)) with (adj_entry g u v).
    destruct (adj_entry g u v); reflexivity.
Qed.
Print Assumptions py_has_interaction_digraph_eq.
