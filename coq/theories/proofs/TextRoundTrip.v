(** TextRoundTrip: the text-level readers on rendered rows are the row-level readers; hence the FILE round
    trips (write the text with the renderers, read the text with the text readers). *)
From DynVerif Require Import Base Graph Derived Spec Annotate IO.
From DynVerif.proofs Require Import AListFacts CoreInv C01Facts C03Facts QueryFacts SliceFacts LogInv IOFacts ReplayFacts LogRead.

Definition rd_txt (r : rd) : txt := match r with RdOk g => TxOk g | RdErr o => TxErr o end.

(** one step of the multi-row interaction fold is a one-row call *)
Lemma parse_interactions_cons g r rs :
  parse_interactions_from g (r :: rs) =
  match parse_interactions_from g [r] with RdOk g' => parse_interactions_from g' rs | RdErr o => RdErr o end.
Proof.
  destruct r as [[[u v] op] s]. cbn [parse_interactions_from]. destruct op.
  - destruct (add_interaction g u v (Some s) None) as [g' o]. destruct o; reflexivity.
  - destruct (aget peqb (nk (g_dir g) u v) (g_edges g)) as [[[a b] x]|]; [|reflexivity].
    destruct (b <? s); [|reflexivity].
    destruct (add_interaction g u v (Some a) (Some s)) as [g' o]. destruct o; reflexivity.
Qed.

Lemma parse_interactions_cons_eq g r rs q : parse_interactions_from g [r] = q ->
  parse_interactions_from g (r :: rs) =
  match q with RdOk g' => parse_interactions_from g' rs | RdErr o => RdErr o end.
Proof. intros <-. apply parse_interactions_cons. Qed.

Theorem read_rendered_snapshots m d rows : ~ rchar m -> ~ rchar d -> m <> d -> is_ws d = false ->
  forall g, read_snap_lines m (Some d) None g (map (render_snap_row d) rows)
            = rd_txt (parse_snapshots_from g (map (fun x => (fst (fst x), snd (fst x), snd x, None)) rows)).
Proof.
  intros Hm Hd Hmd Hws. induction rows as [|[[u v] t] r IH]; intros g.
  - reflexivity.
  - cbn [map read_snap_lines parse_snapshots_from fst snd].
    rewrite (snap_line_render m d u v t Hm Hd Hmd Hws).
    destruct (add_interaction g u v (Some t) None) as [g' o].
    destruct o; try reflexivity. apply IH.
Qed.

Theorem read_rendered_interactions m d rows : ~ rchar m -> ~ rchar d -> m <> d -> is_ws d = false ->
  m <> 43 -> m <> 45 -> d <> 43 -> d <> 45 ->
  forall g, read_int_lines m (Some d) None g (map (render_int_row d) rows) = rd_txt (parse_interactions_from g rows).
Proof.
  intros Hm Hd Hmd Hws Hm43 Hm45 Hd43 Hd45. induction rows as [|[[[u v] op] s] r IH]; intros g.
  - reflexivity.
  - cbn [map read_int_lines].
    rewrite (int_line_render m d u v op s Hm Hd Hmd Hws Hm43 Hm45 Hd43 Hd45).
    destruct (parse_interactions_from g [(u, v, op, s)]) as [g'|o] eqn:E;
      rewrite (parse_interactions_cons_eq _ _ r _ E).
    + apply IH.
    + reflexivity.
Qed.

Theorem snapshot_file_roundtrip g m d : GoodG g -> ~ rchar m -> ~ rchar d -> m <> d -> is_ws d = false ->
  exists H, read_snapshots_text (g_dir g) m (Some d) false (map (render_snap_row d) (gen_snapshots g)) = TxOk H /\
            g_dir H = g_dir g /\ forall u v tau, has_interaction H u v (Some tau) = has_interaction g u v (Some tau).
Proof.
  intros HG Hm Hd Hmd Hws. destruct (snapshots_roundtrip g HG) as (H & Hrun & HdH & Hp).
  exists H. split; [|split; assumption].
  unfold read_snapshots_text. cbn [andb].
  rewrite (read_rendered_snapshots m d _ Hm Hd Hmd Hws).
  unfold parse_snapshots in Hrun. rewrite Hrun. reflexivity.
Qed.

Theorem interaction_file_roundtrip g m d : GoodG g -> InvLog g -> all_closed g ->
  ~ rchar m -> ~ rchar d -> m <> d -> is_ws d = false -> m <> 43 -> m <> 45 -> d <> 43 -> d <> 45 ->
  exists H, read_interactions_text (g_dir g) m (Some d) false (map (render_int_row d) (gen_interactions g)) = TxOk H /\
            forall u v tau, has_interaction H u v (Some tau) = has_interaction g u v (Some tau).
Proof.
  intros HG HL Hcl Hm Hd Hmd Hws Hm43 Hm45 Hd43 Hd45.
  destruct (interactions_roundtrip g HG HL Hcl) as (H & Hrun & Hp).
  exists H. split; [|assumption].
  unfold read_interactions_text. cbn [andb].
  rewrite (read_rendered_interactions m d _ Hm Hd Hmd Hws Hm43 Hm45 Hd43 Hd45).
  unfold parse_interactions in Hrun. rewrite Hrun. reflexivity.
Qed.
