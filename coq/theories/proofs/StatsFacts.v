(** StatsFacts: the stream-graph statistics of Stats.v.  Every ratio is a (numerator, denominator) pair with
    0 <= numerator <= denominator; node_presence / edge_contribution characterised through the presence
    relation; mass and weighted-sum laws of the inter-event time histograms. *)
From DynVerif Require Import Base Graph Derived Spec Stats.
From DynVerif.proofs Require Import AListFacts CoreInv C03Facts QueryFacts SnapInv SliceFacts DerivedFacts.

(** * generic counting facts *)
Lemma bz1_bounds b : 0 <= bz1 b <= 1.
Proof. destruct b; simpl; lia. Qed.

Lemma count_if_nil {A} (f : A -> bool) : count_if f [] = 0.
Proof. reflexivity. Qed.

Lemma count_if_cons {A} (f : A -> bool) x l : count_if f (x :: l) = bz1 (f x) + count_if f l.
Proof. reflexivity. Qed.

Lemma count_if_le {A} (f g : A -> bool) l :
  (forall x, In x l -> f x = true -> g x = true) -> count_if f l <= count_if g l.
Proof.
  induction l as [|a r IH]; intros H; [rewrite !count_if_nil; lia|].
  rewrite !count_if_cons.
  assert (Hr : count_if f r <= count_if g r) by (apply IH; intros x Hx; apply H; right; assumption).
  assert (Ha : f a = true -> g a = true) by (apply H; left; reflexivity).
  destruct (f a), (g a); cbn [bz1]; lia.
Qed.

Lemma count_if_bounds {A} (f : A -> bool) l : 0 <= count_if f l <= Z.of_nat (length l).
Proof.
  induction l as [|a r IH]; [rewrite count_if_nil; simpl; lia|].
  rewrite count_if_cons. pose proof (bz1_bounds (f a)). cbn [length]. lia.
Qed.

Lemma count_if_length {A} (f : A -> bool) l : count_if f l = Z.of_nat (length (filter f l)).
Proof.
  induction l as [|a r IH]; [reflexivity|].
  rewrite count_if_cons, IH. cbn [filter]. destruct (f a); cbn [length bz1]; lia.
Qed.

Lemma count_if_ext {A} (f g : A -> bool) l :
  (forall x, In x l -> f x = g x) -> count_if f l = count_if g l.
Proof.
  induction l as [|a r IH]; intros H; [reflexivity|].
  rewrite !count_if_cons, (H a (or_introl eq_refl)), IH; [reflexivity|].
  intros x Hx. apply H. right. assumption.
Qed.

Lemma count_if_add {A} (h f g : A -> bool) l :
  (forall x, In x l -> bz1 (h x) = bz1 (f x) + bz1 (g x)) -> count_if h l = count_if f l + count_if g l.
Proof.
  induction l as [|a r IH]; intros H; [reflexivity|].
  rewrite !count_if_cons, (H a (or_introl eq_refl)), IH; [lia|].
  intros x Hx. apply H. right. assumption.
Qed.

Lemma count_if_false {A} (f : A -> bool) l : (forall x, In x l -> f x = false) -> count_if f l = 0.
Proof.
  induction l as [|a r IH]; intros H; [reflexivity|].
  rewrite count_if_cons, (H a (or_introl eq_refl)), IH; [reflexivity|].
  intros x Hx. apply H. right. assumption.
Qed.

Lemma sumZ_cons x l : sumZ (x :: l) = x + sumZ l.
Proof. reflexivity. Qed.

Lemma sumZ_app l1 l2 : sumZ (l1 ++ l2) = sumZ l1 + sumZ l2.
Proof. induction l1 as [|a r IH]; simpl; [reflexivity|]. fold (sumZ (r ++ l2)). fold (sumZ r). lia. Qed.

(** term-wise comparison of two sums over the same index list *)
Lemma sumZ_map_le {A} (F G : A -> Z) l :
  (forall x, In x l -> 0 <= F x <= G x) -> 0 <= sumZ (map F l) <= sumZ (map G l).
Proof.
  induction l as [|a r IH]; intros H; [simpl; lia|].
  cbn [map]. rewrite !sumZ_cons.
  assert (0 <= sumZ (map F r) <= sumZ (map G r)) by (apply IH; intros x Hx; apply H; right; assumption).
  pose proof (H a (or_introl eq_refl)). lia.
Qed.

Lemma sumZ_map_bound {A} (F : A -> Z) N l :
  (forall x, In x l -> 0 <= F x <= N) -> 0 <= sumZ (map F l) <= Z.of_nat (length l) * N.
Proof.
  induction l as [|a r IH]; intros H; [simpl; lia|].
  cbn [map length]. rewrite sumZ_cons.
  assert (0 <= sumZ (map F r) <= Z.of_nat (length r) * N) by (apply IH; intros x Hx; apply H; right; assumption).
  pose proof (H a (or_introl eq_refl)). rewrite Nat2Z.inj_succ, Z.mul_succ_l. lia.
Qed.

Lemma filter_length_le' {A} (f : A -> bool) l : (length (filter f l) <= length l)%nat.
Proof. induction l as [|a r IH]; simpl; [lia|]. destruct (f a); simpl; lia. Qed.

Lemma snap_keys_length g : length (snap_keys g) = length (g_snaps g).
Proof. unfold snap_keys. apply map_length. Qed.

(** * the ratios lie in [0,1] *)
Lemma number_of_nodes_le g t : 0 <= number_of_nodes g (Some t) <= number_of_nodes g None.
Proof.
  unfold number_of_nodes. rewrite nodes_at_filter.
  pose proof (filter_length_le' (fun n => 0 <? deg1 g (Some t) n) (node_ids g)) as H.
  unfold node_ids in H at 2. rewrite map_length in H. lia.
Qed.

Theorem coverage_unit g : InvAdj g -> 0 <= fst (coverage g) <= snd (coverage g).
Proof.
  intros _. unfold coverage. cbn [fst snd]. rewrite <- snap_keys_length.
  apply sumZ_map_bound. intros t _. apply number_of_nodes_le.
Qed.

Theorem node_contribution_unit g u : 0 <= fst (node_contribution g u) <= snd (node_contribution g u).
Proof.
  unfold node_contribution. cbn [fst snd]. rewrite <- snap_keys_length. apply count_if_bounds.
Qed.

Lemma both_either g u v t : both_at g u v t = true -> either_at g u v t = true.
Proof. unfold both_at, either_at. destruct (has_node g u (Some t)), (has_node g v (Some t)); auto. Qed.

Theorem node_pair_uniformity_unit g u v :
  0 <= fst (node_pair_uniformity g u v) <= snd (node_pair_uniformity g u v).
Proof.
  unfold node_pair_uniformity. cbn [fst snd]. split; [apply count_if_bounds|].
  apply count_if_le. intros t _. apply both_either.
Qed.

Theorem uniformity_unit g : 0 <= fst (uniformity g) <= snd (uniformity g).
Proof.
  unfold uniformity. cbn [fst snd]. apply sumZ_map_le. intros p _. split; [apply count_if_bounds|].
  apply count_if_le. intros t _. apply both_either.
Qed.

(** an interaction present at t makes both endpoints present at t *)
Lemma interaction_both g u v t : InvAdj g -> has_interaction g u v (Some t) = true -> both_at g u v t = true.
Proof.
  intros HI H. unfold both_at. apply andb_true_iff. split; apply has_node_spec; auto; apply nodes_at_spec; auto.
  - exists v. left. assumption.
  - exists u. right. assumption.
Qed.

Theorem pair_density_unit g u v : InvAdj g -> 0 <= fst (pair_density g u v) <= snd (pair_density g u v).
Proof.
  intros HI. unfold pair_density. cbv zeta.
  destruct (count_if (both_at g u v) (snap_keys g) =? 0) eqn:E; cbn [fst snd]; [lia|].
  split; [apply count_if_bounds|]. apply count_if_le. intros t _. apply interaction_both. assumption.
Qed.

Theorem density_unit g : InvAdj g -> 0 <= fst (st_density g) <= snd (st_density g).
Proof.
  intros HI. unfold st_density. cbn [fst snd]. apply sumZ_map_le. intros p _. split; [apply count_if_bounds|].
  apply count_if_le. intros t _. apply interaction_both. assumption.
Qed.

(** * node_presence *)
Lemma node_presence_spec g u t : In t (node_presence g u) <-> In t (snap_keys g) /\ has_node g u (Some t) = true.
Proof. unfold node_presence. apply filter_In. Qed.

(** * edge_contribution *)
Lemma count_if_eq_one (b : Z) K : NoDup K -> In b K -> count_if (Z.eqb b) K = 1.
Proof.
  induction K as [|x r IH]; intros Hnd Hin; [destruct Hin|].
  inversion Hnd as [|? ? Hni Hr]; subst. rewrite count_if_cons.
  destruct Hin as [->|Hin].
  - rewrite Z.eqb_refl. rewrite count_if_false; [reflexivity|].
    intros y Hy. destruct (b =? y) eqn:E; [|reflexivity]. assert (b = y) by lia. subst. contradiction.
  - rewrite IH by assumption. destruct (b =? x) eqn:E; [|reflexivity].
    assert (b = x) by lia. subst. contradiction.
Qed.

(** a NoDup list containing a..b has exactly b-a+1 members in [a,b] *)
Lemma count_itv_nat K a : NoDup K -> forall n b, b - a + 1 = Z.of_nat n ->
  (forall t, a <= t <= b -> In t K) -> count_if (fun t => in_itv t (a, b)) K = b - a + 1.
Proof.
  intros Hnd. induction n as [|n IH]; intros b Hb Hin.
  - rewrite count_if_false; [lia|]. intros t _. unfold in_itv; simpl. lia.
  - rewrite (count_if_add _ (fun t => in_itv t (a, b - 1)) (Z.eqb b)).
    + rewrite (IH (b - 1)); [|lia|intros t Ht; apply Hin; lia].
      rewrite count_if_eq_one; [lia|assumption|apply Hin; lia].
    + intros t _. unfold in_itv; simpl.
      destruct ((a <=? t) && (t <=? b)) eqn:E1, ((a <=? t) && (t <=? b - 1)) eqn:E2, (b =? t) eqn:E3;
        simpl; lia.
Qed.

Lemma count_itv K a b : NoDup K -> a <= b -> (forall t, a <= t <= b -> In t K) ->
  count_if (fun t => in_itv t (a, b)) K = b - a + 1.
Proof.
  intros Hnd Hab Hin. apply (count_itv_nat K a Hnd (Z.to_nat (b - a + 1))); [lia|assumption].
Qed.

(** the sum of the run lengths of a canonical timeline counts its member instants *)
Lemma canon_runs_count K : NoDup K -> forall l, canon l -> (forall t, mem t l = true -> In t K) ->
  sumZ (map (fun r => snd r - fst r + 1) l) = count_if (fun t => mem t l) K.
Proof.
  intros Hnd. induction l as [|[a b] r IH]; intros Hc Hin.
  - rewrite count_if_false; [reflexivity|]. intros; reflexivity.
  - cbn [map]. rewrite sumZ_cons. cbn [fst snd].
    assert (Hab : a <= b) by (simpl in Hc; tauto).
    rewrite (count_if_add _ (fun t => in_itv t (a, b)) (fun t => mem t r)).
    + rewrite count_itv; auto.
      * rewrite IH; [reflexivity|eapply canon_tail; eauto|].
        intros t Ht. apply Hin. simpl. rewrite Ht. apply orb_true_r.
      * intros t Ht. apply Hin. simpl. unfold in_itv; simpl.
        replace ((a <=? t) && (t <=? b)) with true by lia. reflexivity.
    + intros t _. simpl. destruct (mem t r) eqn:Hm.
      * pose proof (canon_older_below _ _ _ Hc t Hm). unfold in_itv; simpl.
        replace ((a <=? t) && (t <=? b)) with false by lia. reflexivity.
      * rewrite orb_false_r. destruct (in_itv t (a, b)); reflexivity.
Qed.

Lemma snap_key_of_member g k tl t : InvSnap g -> aget peqb k (g_edges g) = Some tl ->
  mem t (tl_list tl) = true -> In t (snap_keys g).
Proof.
  intros HS Hg Hm. unfold snap_keys. apply (sortZ_In t (map fst (g_snaps g))).
  apply (ids_spec g HS t). unfold count_present.
  apply length_pos_ex. exists (k, tl). apply filter_In. split; [apply aget_Some_in; assumption|assumption].
Qed.

Theorem edge_contribution_spec g u v : Good g -> InvSnap g ->
  match edge_contribution g u v with
  | None => has_interaction g u v None = false
  | Some (n, d) => n = count_if (fun t => has_interaction g u v (Some t)) (snap_keys g) /\ d = Z.of_nat (length (g_snaps g))
  end.
Proof.
  intros HG HS. pose proof HG as (Hr & Hc & HI). unfold edge_contribution.
  destruct (aget peqb (nk (g_dir g) u v) (g_edges g)) as [tl|] eqn:Hg.
  - split; [|reflexivity].
    pose proof (Hc (nk (g_dir g) u v)) as Hck. rewrite Hg in Hck. simpl in Hck.
    rewrite (count_if_ext _ (fun t => mem t (tl_list tl))).
    + apply canon_runs_count; [apply HS|assumption|].
      intros t Hm. eapply snap_key_of_member; eauto.
    + intros t _. rewrite hi_omem; [rewrite Hg; reflexivity|assumption|apply Hc].
  - unfold has_interaction, key_present. rewrite Hg. reflexivity.
Qed.

(** * inter-event time histograms *)
Lemma gaps_length l : length (gaps l) = (length l - 1)%nat.
Proof.
  induction l as [|a r IH]; [reflexivity|]. destruct r as [|b r']; [reflexivity|].
  change (gaps (a :: b :: r')) with ((b - a) :: gaps (b :: r')). cbn [length] in *. lia.
Qed.

Lemma gaps_sum l : sumZ (gaps l) = last l 0 - hd 0 l.
Proof.
  induction l as [|a r IH]; [reflexivity|]. destruct r as [|b r']; [simpl; lia|].
  change (gaps (a :: b :: r')) with ((b - a) :: gaps (b :: r')). rewrite sumZ_cons, IH.
  change (last (a :: b :: r') 0) with (last (b :: r') 0). cbn [hd]. lia.
Qed.

Definition hmass (h : list (Z * Z)) : Z := sumZ (map snd h).
Definition hweight (h : list (Z * Z)) : Z := sumZ (map (fun kc => fst kc * snd kc) h).

Lemma hist_add_mass x h : hmass (hist_add x h) = hmass h + 1.
Proof.
  unfold hmass. induction h as [|[k c] r IH]; simpl; [lia|].
  destruct (x =? k); cbn [map snd]; rewrite !sumZ_cons; [lia|]. rewrite IH. lia.
Qed.

Lemma hist_add_weight x h : hweight (hist_add x h) = hweight h + x.
Proof.
  unfold hweight. induction h as [|[k c] r IH]; simpl; [lia|].
  destruct (x =? k) eqn:E; cbn [map fst snd]; rewrite !sumZ_cons; cbn [fst snd]; [rewrite Z.mul_add_distr_l; lia|]. rewrite IH. lia.
Qed.

Lemma hist_add_keys x h k : In k (map fst (hist_add x h)) <-> k = x \/ In k (map fst h).
Proof.
  induction h as [|[k' c] r IH]; simpl; [intuition|].
  destruct (x =? k') eqn:E; simpl.
  - assert (x = k') by lia. subst. intuition.
  - rewrite IH. intuition.
Qed.

Lemma hist_add_bump x h : hist_add x h = bump x 1 h.
Proof. induction h as [|[k c] r IH]; simpl; [reflexivity|]. rewrite IH. reflexivity. Qed.

Definition hfold (l : list Z) (h : list (Z * Z)) : list (Z * Z) := fold_left (fun h x => hist_add x h) l h.

Lemma hfold_mass l : forall h, hmass (hfold l h) = hmass h + Z.of_nat (length l).
Proof.
  induction l as [|x r IH]; intros h; [simpl; lia|].
  unfold hfold in *. cbn [fold_left length]. rewrite IH, hist_add_mass. lia.
Qed.

Lemma hfold_weight l : forall h, hweight (hfold l h) = hweight h + sumZ l.
Proof.
  induction l as [|x r IH]; intros h; [simpl; lia|].
  unfold hfold in *. cbn [fold_left]. rewrite IH, hist_add_weight, sumZ_cons. lia.
Qed.

Lemma hfold_keys l : forall h k, In k (map fst (hfold l h)) <-> In k l \/ In k (map fst h).
Proof.
  induction l as [|x r IH]; intros h k; [simpl; tauto|].
  unfold hfold in *. cbn [fold_left]. rewrite IH, hist_add_keys. simpl. intuition.
Qed.

Lemma hfold_nodup l : forall h, NoDup (map fst h) -> NoDup (map fst (hfold l h)).
Proof.
  induction l as [|x r IH]; intros h H; [assumption|].
  unfold hfold in *. cbn [fold_left]. apply IH. rewrite hist_add_bump. apply bump_nodup. assumption.
Qed.

Lemma hfold_zget l : forall h k, zget (hfold l h) k = zget h k + Z.of_nat (length (filter (Z.eqb k) l)).
Proof.
  induction l as [|x r IH]; intros h k; [simpl; lia|].
  unfold hfold in *. cbn [fold_left filter]. rewrite IH, hist_add_bump, zget_bump.
  destruct (x =? k) eqn:E1, (k =? x) eqn:E2; cbn [length]; lia.
Qed.

Lemma histogram_mass l : sumZ (map snd (histogram l)) = Z.of_nat (length l).
Proof. exact (hfold_mass l []). Qed.

Lemma histogram_weighted l : sumZ (map (fun kc => fst kc * snd kc) (histogram l)) = sumZ l.
Proof. exact (hfold_weight l []). Qed.

Lemma histogram_keys l k : In k (map fst (histogram l)) <-> In k l.
Proof. unfold histogram. fold (hfold l []). rewrite hfold_keys. simpl. tauto. Qed.

Lemma histogram_NoDup l : NoDup (map fst (histogram l)).
Proof. apply (hfold_nodup l []). constructor. Qed.

Lemma histogram_count l k c : In (k, c) (histogram l) -> c = Z.of_nat (length (filter (Z.eqb k) l)).
Proof.
  intros H. apply (zin_aget_nodup k c _ (histogram_NoDup l)) in H.
  pose proof (hfold_zget l [] k) as Hz. unfold zget in Hz. fold (histogram l) in Hz.
  unfold hfold in Hz. fold (histogram l) in Hz. rewrite H in Hz. simpl in Hz. lia.
Qed.

Theorem iet_laws g sel u :
  let ts := iet_times g sel u in
  sumZ (map snd (inter_event_time_distribution g sel u)) = Z.of_nat (length ts - 1) /\
  sumZ (map (fun kc => fst kc * snd kc) (inter_event_time_distribution g sel u)) = last ts 0 - hd 0 ts.
Proof.
  intros ts. unfold inter_event_time_distribution. fold ts. split.
  - rewrite histogram_mass, gaps_length. reflexivity.
  - rewrite histogram_weighted. apply gaps_sum.
Qed.
