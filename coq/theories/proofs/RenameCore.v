(** RenameCore: the graph operations and the queries of Graph.v commute with the renaming [ren f]
    of node ids along a strictly increasing map [f] ([mono f]). *)
From DynVerif Require Import Base Graph Derived Rename.

(** * Generic list helpers *)
Section ListHelpers.
  Context {A B C D : Type}.

  Lemma filter_map_comm (h : A -> B) (p : A -> bool) (p' : B -> bool) (l : list A) :
    (forall x, p' (h x) = p x) -> filter p' (map h l) = map h (filter p l).
  Proof.
    intros Hp. induction l as [|x r IH]; simpl; [reflexivity|].
    rewrite Hp. destruct (p x); simpl; rewrite IH; reflexivity.
  Qed.

  Lemma existsb_map_comm (h : A -> B) (p : A -> bool) (p' : B -> bool) (l : list A) :
    (forall x, p' (h x) = p x) -> existsb p' (map h l) = existsb p l.
  Proof.
    intros Hp. induction l as [|x r IH]; simpl; [reflexivity|].
    rewrite Hp, IH. reflexivity.
  Qed.

  Lemma flat_map_map_comm (h : A -> B) (h' : C -> D) (q : A -> list C) (q' : B -> list D) (l : list A) :
    (forall x, q' (h x) = map h' (q x)) -> flat_map q' (map h l) = map h' (flat_map q l).
  Proof.
    intros Hq. induction l as [|x r IH]; simpl; [reflexivity|].
    rewrite Hq, IH, map_app. reflexivity.
  Qed.
End ListHelpers.

(** * Association lists under a key map that reflects the key equality *)
Section KeyMap.
  Context {K K' V : Type} (eqk : K -> K -> bool) (eqk' : K' -> K' -> bool) (h : K -> K').
  Context (Heq : forall a b, eqk' (h a) (h b) = eqk a b).

  Lemma aget_kmap (k : K) (l : list (K * V)) :
    aget eqk' (h k) (map (fun kv => (h (fst kv), snd kv)) l) = aget eqk k l.
  Proof.
    induction l as [|[k0 v0] r IH]; simpl; [reflexivity|].
    rewrite Heq, IH. reflexivity.
  Qed.

  Lemma amem_kmap (k : K) (l : list (K * V)) :
    amem eqk' (h k) (map (fun kv => (h (fst kv), snd kv)) l) = amem eqk k l.
  Proof. unfold amem. rewrite aget_kmap. reflexivity. Qed.

  Lemma aset_kmap (k : K) (v : V) (l : list (K * V)) :
    aset eqk' (h k) v (map (fun kv => (h (fst kv), snd kv)) l)
    = map (fun kv => (h (fst kv), snd kv)) (aset eqk k v l).
  Proof.
    induction l as [|[k0 v0] r IH]; simpl; [reflexivity|].
    rewrite Heq. destruct (eqk k k0); simpl; [reflexivity|]. rewrite IH. reflexivity.
  Qed.

  Lemma akeys_kmap (l : list (K * V)) :
    akeys (map (fun kv => (h (fst kv), snd kv)) l) = map h (akeys l).
  Proof. unfold akeys. rewrite !map_map. reflexivity. Qed.

  Lemma kmap_app (l1 l2 : list (K * V)) :
    map (fun kv => (h (fst kv), snd kv)) (l1 ++ l2)
    = map (fun kv => (h (fst kv), snd kv)) l1 ++ map (fun kv => (h (fst kv), snd kv)) l2.
  Proof. apply map_app. Qed.
End KeyMap.

Section Rename.
  Variable f : Z -> Z.
  Context (Hf : mono f).

  (** * 1. basic facts *)
  Lemma mono_inj x y : f x = f y -> x = y.
  Proof.
    intros E. destruct (Z.lt_trichotomy x y) as [H|[H|H]]; [|assumption|].
    - apply Hf in H. lia.
    - apply Hf in H. lia.
  Qed.

  Lemma mono_le x y : (f x <=? f y) = (x <=? y).
  Proof.
    destruct (Z.leb_spec x y) as [H|H]; destruct (Z.leb_spec (f x) (f y)) as [H'|H']; try reflexivity; exfalso.
    - assert (Hc : x = y \/ x < y) by lia. destruct Hc as [Hc|Hc].
      + subst. lia.
      + apply Hf in Hc. lia.
    - apply Hf in H. lia.
  Qed.

  Lemma mono_lt x y : (f x <? f y) = (x <? y).
  Proof.
    destruct (Z.ltb_spec x y) as [H|H]; destruct (Z.ltb_spec (f x) (f y)) as [H'|H']; try reflexivity; exfalso.
    - apply Hf in H. lia.
    - assert (Hc : x = y \/ y < x) by lia. destruct Hc as [Hc|Hc].
      + subst. lia.
      + apply Hf in Hc. lia.
  Qed.

  Lemma mono_eqb x y : (f x =? f y) = (x =? y).
  Proof.
    destruct (Z.eqb_spec x y) as [H|H]; destruct (Z.eqb_spec (f x) (f y)) as [H'|H']; try reflexivity; exfalso.
    - subst. congruence.
    - apply mono_inj in H'. congruence.
  Qed.

  Lemma rp_nk d u v : nk d (f u) (f v) = rp f (nk d u v).
  Proof.
    unfold nk, rp. destruct d; simpl; [reflexivity|].
    rewrite mono_le. destruct (u <=? v); reflexivity.
  Qed.

  Lemma peqb_rp a b : peqb (rp f a) (rp f b) = peqb a b.
  Proof. unfold peqb, rp. simpl. rewrite !mono_eqb. reflexivity. Qed.

  Lemma rp_inj a b : rp f a = rp f b -> a = b.
  Proof. intros E. apply peqb_eq. rewrite <- peqb_rp. apply peqb_eq. assumption. Qed.

  Lemma memZ_map x l : memZ (f x) (map f l) = memZ x l.
  Proof. unfold memZ. apply existsb_map_comm. intros y. apply mono_eqb. Qed.

  (** * 2. the instances of the association-list lemmas used below *)
  Lemma zget_ren {V : Type} (n : Z) (l : list (Z * V)) :
    aget Z.eqb (f n) (map (fun na => (f (fst na), snd na)) l) = aget Z.eqb n l.
  Proof. apply (aget_kmap Z.eqb Z.eqb f mono_eqb). Qed.

  Lemma zmem_ren {V : Type} (n : Z) (l : list (Z * V)) :
    amem Z.eqb (f n) (map (fun na => (f (fst na), snd na)) l) = amem Z.eqb n l.
  Proof. apply (amem_kmap Z.eqb Z.eqb f mono_eqb). Qed.

  Lemma zset_ren {V : Type} (n : Z) (a : V) (l : list (Z * V)) :
    aset Z.eqb (f n) a (map (fun na => (f (fst na), snd na)) l)
    = map (fun na => (f (fst na), snd na)) (aset Z.eqb n a l).
  Proof. apply (aset_kmap Z.eqb Z.eqb f mono_eqb). Qed.

  Lemma pget_ren {V : Type} (k : Z * Z) (l : list ((Z * Z) * V)) :
    aget peqb (rp f k) (map (fun kt => (rp f (fst kt), snd kt)) l) = aget peqb k l.
  Proof. apply (aget_kmap peqb peqb (rp f) peqb_rp). Qed.

  Lemma pmem_ren {V : Type} (k : Z * Z) (l : list ((Z * Z) * V)) :
    amem peqb (rp f k) (map (fun kt => (rp f (fst kt), snd kt)) l) = amem peqb k l.
  Proof. apply (amem_kmap peqb peqb (rp f) peqb_rp). Qed.

  Lemma pset_ren {V : Type} (k : Z * Z) (a : V) (l : list ((Z * Z) * V)) :
    aset peqb (rp f k) a (map (fun kt => (rp f (fst kt), snd kt)) l)
    = map (fun kt => (rp f (fst kt), snd kt)) (aset peqb k a l).
  Proof. apply (aset_kmap peqb peqb (rp f) peqb_rp). Qed.

  (** * projections of a renamed graph (all by computation) *)
  Lemma ren_g_dir g : g_dir (ren f g) = g_dir g. Proof. reflexivity. Qed.
  Lemma ren_g_rem g : g_rem (ren f g) = g_rem g. Proof. reflexivity. Qed.
  Lemma ren_g_nodes g : g_nodes (ren f g) = map (fun na => (f (fst na), snd na)) (g_nodes g). Proof. reflexivity. Qed.
  Lemma ren_g_edges g : g_edges (ren f g) = map (fun kt => (rp f (fst kt), snd kt)) (g_edges g). Proof. reflexivity. Qed.
  Lemma ren_g_events g : g_events (ren f g) = map (ren_event f) (g_events g). Proof. reflexivity. Qed.
  Lemma ren_g_snaps g : g_snaps (ren f g) = g_snaps g. Proof. reflexivity. Qed.
  Lemma ren_g_attr g : g_attr (ren f g) = g_attr g. Proof. reflexivity. Qed.
  Lemma ren_g_frozen g : g_frozen (ren f g) = g_frozen g. Proof. reflexivity. Qed.

  Lemma ren_with_nodes g x :
    ren f (with_nodes g x) = with_nodes (ren f g) (map (fun na => (f (fst na), snd na)) x).
  Proof. reflexivity. Qed.
  Lemma ren_with_edges g x :
    ren f (with_edges g x) = with_edges (ren f g) (map (fun kt => (rp f (fst kt), snd kt)) x).
  Proof. reflexivity. Qed.
  Lemma ren_with_events g x : ren f (with_events g x) = with_events (ren f g) (map (ren_event f) x).
  Proof. reflexivity. Qed.
  Lemma ren_with_snaps g x : ren f (with_snaps g x) = with_snaps (ren f g) x.
  Proof. reflexivity. Qed.
  Lemma ren_with_attr g x : ren f (with_attr g x) = with_attr (ren f g) x.
  Proof. reflexivity. Qed.
  Lemma ren_with_frozen g x : ren f (with_frozen g x) = with_frozen (ren f g) x.
  Proof. reflexivity. Qed.

  (** * the event log *)
  Lemma ren_ev_same t k op e : ev_same t (rp f k) op (ren_event f e) = ev_same t k op e.
  Proof. destruct e as [[t' k'] op']. simpl. rewrite peqb_rp. reflexivity. Qed.

  Lemma ren_has_event t k op evs :
    has_event t (rp f k) op (map (ren_event f) evs) = has_event t k op evs.
  Proof. unfold has_event. apply existsb_map_comm. intros e. apply ren_ev_same. Qed.

  Lemma ren_add_event t k op evs :
    add_event t (rp f k) op (map (ren_event f) evs) = map (ren_event f) (add_event t k op evs).
  Proof.
    unfold add_event. fold (has_event t (rp f k) op (map (ren_event f) evs)). fold (has_event t k op evs).
    rewrite ren_has_event. destruct (has_event t k op evs); [reflexivity|].
    rewrite map_app. reflexivity.
  Qed.

  Lemma ren_del_event t k op evs :
    del_event t (rp f k) op (map (ren_event f) evs) = map (ren_event f) (del_event t k op evs).
  Proof.
    unfold del_event. apply filter_map_comm. intros e. rewrite ren_ev_same. reflexivity.
  Qed.

  Lemma ren_ev_time e : ev_time (ren_event f e) = ev_time e.
  Proof. destruct e as [[t k] op]. reflexivity. Qed.

  (** * nodes *)
  Lemma ren_ensure_node n l :
    ensure_node (f n) (map (fun na => (f (fst na), snd na)) l)
    = map (fun na => (f (fst na), snd na)) (ensure_node n l).
  Proof.
    unfold ensure_node. rewrite zmem_ren. destruct (amem Z.eqb n l); [reflexivity|].
    rewrite map_app. reflexivity.
  Qed.

  Lemma ren_ensure_ends g u v : ensure_ends (ren f g) (f u) (f v) = ren f (ensure_ends g u v).
  Proof.
    unfold ensure_ends. rewrite ren_with_nodes, <- !ren_ensure_node. reflexivity.
  Qed.

  (** * 3. add_interaction *)
  Lemma ren_add_interaction g u v t e :
    add_interaction (ren f g) (f u) (f v) t e
    = (ren f (fst (add_interaction g u v t e)), snd (add_interaction g u v t e)).
  Proof.
    unfold add_interaction. destruct t as [s|]; [|reflexivity].
    cbv zeta.
    rewrite ren_g_rem, ren_g_dir, rp_nk, ren_g_edges, pget_ren, ren_ensure_ends.
    set (k := nk (g_dir g) u v).
    set (g1 := ensure_ends g u v).
    set (ff := match e with Some e' => if g_rem g then e' - 1 else s | None => s end).
    set (closing := match e with Some _ => g_rem g | None => false end).
    destruct (aget peqb k (g_edges g)) as [[[a b] older]|].
    - destruct (s <? a); [reflexivity|].
      destruct (ff <? s); [reflexivity|].
      destruct (b + 1 <? s).
      { cbn [fst snd]. f_equal.
        rewrite ren_with_snaps, ren_with_events, ren_with_edges, ren_g_snaps, ren_g_events, ren_g_edges.
        rewrite pset_ren. f_equal. f_equal.
        destruct (g_rem g); destruct closing; rewrite ?ren_add_event; reflexivity. }
      destruct (b <? ff).
      { cbn [fst snd]. f_equal.
        rewrite ren_with_snaps, ren_with_events, ren_with_edges, ren_g_snaps, ren_g_events, ren_g_edges.
        rewrite pset_ren, ren_has_event. f_equal. f_equal.
        destruct (g_rem g && negb _); rewrite ren_del_event, ?ren_add_event; reflexivity. }
      cbn [fst snd]. f_equal.
      rewrite ren_with_snaps, ren_with_events, ren_g_snaps, ren_g_events.
      f_equal. f_equal.
      destruct (closing && (ff =? b)); rewrite ?ren_add_event; reflexivity.
    - destruct (ff <? s); [reflexivity|].
      cbn [fst snd]. f_equal.
      rewrite ren_with_snaps, ren_with_events, ren_with_edges, ren_g_snaps, ren_g_events, ren_g_edges.
      rewrite map_app. f_equal. f_equal.
      destruct closing; rewrite ?ren_add_event; reflexivity.
  Qed.
  (** * 4. add_node, empty_graph *)
  Lemma ren_add_node g n a : add_node (ren f g) (f n) a = ren f (add_node g n a).
  Proof.
    unfold add_node. rewrite ren_g_nodes, zmem_ren.
    destruct (amem Z.eqb n (g_nodes g)).
    - destruct (a =? 0); [reflexivity|]. rewrite ren_with_nodes, zset_ren. reflexivity.
    - rewrite ren_with_nodes, map_app. reflexivity.
  Qed.

  Lemma ren_empty d r : ren f (empty_graph d r) = empty_graph d r.
  Proof. reflexivity. Qed.

  (** bulk helpers *)
  Lemma ren_add_from es : forall g t e,
    add_from (ren f g) (map (rp f) es) t e
    = (ren f (fst (add_from g es t e)), snd (add_from g es t e)).
  Proof.
    induction es as [|[u v] r IH]; intros g t e; simpl; [reflexivity|].
    rewrite ren_add_interaction.
    destruct (add_interaction g u v t e) as [g' o]. cbn [fst snd].
    destruct o; try reflexivity. apply IH.
  Qed.

  Lemma ren_add_interactions_from g es t e :
    add_interactions_from (ren f g) (map (rp f) es) t e
    = (ren f (fst (add_interactions_from g es t e)), snd (add_interactions_from g es t e)).
  Proof. unfold add_interactions_from. destruct t; [apply ren_add_from|reflexivity]. Qed.

  (** * 5. queries *)
  Lemma ren_has_node_flat g n : has_node_flat (ren f g) (f n) = has_node_flat g n.
  Proof. unfold has_node_flat. rewrite ren_g_nodes. apply zmem_ren. Qed.

  Lemma ren_node_ids g : node_ids (ren f g) = map f (node_ids g).
  Proof. unfold node_ids. rewrite ren_g_nodes, !map_map. reflexivity. Qed.

  (** the attribute token of a node *)
  Lemma ren_node_attr g n : aget Z.eqb (f n) (g_nodes (ren f g)) = aget Z.eqb n (g_nodes g).
  Proof. rewrite ren_g_nodes. apply zget_ren. Qed.

  Lemma ren_snapshot_ids g : snapshot_ids (ren f g) = snapshot_ids g.
  Proof. reflexivity. Qed.

  Lemma ren_max_id g : max_id (ren f g) = max_id g.
  Proof. reflexivity. Qed.

  Lemma ren_presence_test g tl t : presence_test (ren f g) tl t = presence_test g tl t.
  Proof. reflexivity. Qed.

  Lemma ren_edge_get g k : aget peqb (rp f k) (g_edges (ren f g)) = aget peqb k (g_edges g).
  Proof. rewrite ren_g_edges. apply pget_ren. Qed.

  Lemma ren_key_present g k t : key_present (ren f g) (rp f k) t = key_present g k t.
  Proof.
    unfold key_present. rewrite ren_edge_get.
    destruct (aget peqb k (g_edges g)) as [tl|]; [|reflexivity].
    destruct t; [apply ren_presence_test|reflexivity].
  Qed.

  Lemma ren_has_interaction g u v t : has_interaction (ren f g) (f u) (f v) t = has_interaction g u v t.
  Proof. unfold has_interaction. rewrite ren_g_dir, rp_nk. apply ren_key_present. Qed.

  Lemma ren_timeline_of g u v : timeline_of (ren f g) (f u) (f v) = timeline_of g u v.
  Proof. unfold timeline_of. rewrite ren_g_dir, rp_nk, ren_edge_get. reflexivity. Qed.

  Lemma ren_out_nbrs g n : out_nbrs (ren f g) (f n) = map f (out_nbrs g n).
  Proof.
    unfold out_nbrs. rewrite ren_g_dir, ren_g_edges.
    apply flat_map_map_comm. intros [[a b] tl]. unfold rp. cbn [fst snd].
    rewrite !mono_eqb.
    destruct (g_dir g); destruct (a =? n); destruct (b =? n); reflexivity.
  Qed.

  Lemma ren_in_nbrs g n : in_nbrs (ren f g) (f n) = map f (in_nbrs g n).
  Proof.
    unfold in_nbrs. rewrite ren_g_dir, ren_g_edges.
    apply flat_map_map_comm. intros [[a b] tl]. unfold rp. cbn [fst snd].
    rewrite !mono_eqb.
    destruct (g_dir g); destruct (a =? n); destruct (b =? n); reflexivity.
  Qed.

  Lemma ren_nbrs_at g n t : nbrs_at (ren f g) (f n) t = map f (nbrs_at g n t).
  Proof.
    unfold nbrs_at. rewrite ren_out_nbrs. apply filter_map_comm.
    intros v. apply ren_has_interaction.
  Qed.

  Lemma ren_preds_at g n t : preds_at (ren f g) (f n) t = map f (preds_at g n t).
  Proof.
    unfold preds_at. rewrite ren_in_nbrs. apply filter_map_comm.
    intros v. apply ren_has_interaction.
  Qed.

  Lemma ren_neighbors g n t : neighbors (ren f g) (f n) t = option_map (map f) (neighbors g n t).
  Proof.
    unfold neighbors. rewrite ren_has_node_flat, ren_g_dir, ren_nbrs_at.
    destruct (has_node_flat g n); [reflexivity|].
    destruct (g_dir g); [reflexivity|]. destruct t; reflexivity.
  Qed.

  Lemma ren_predecessors g n t : predecessors (ren f g) (f n) t = option_map (map f) (predecessors g n t).
  Proof.
    unfold predecessors. rewrite ren_has_node_flat, ren_preds_at.
    destruct (has_node_flat g n); reflexivity.
  Qed.

  Lemma ren_deg1 g t n : deg1 (ren f g) t (f n) = deg1 g t n.
  Proof. unfold deg1. rewrite ren_g_dir, ren_nbrs_at, ren_preds_at, !map_length. reflexivity. Qed.

  Lemma ren_in_deg1 g t n : in_deg1 (ren f g) t (f n) = in_deg1 g t n.
  Proof. unfold in_deg1. rewrite ren_preds_at, map_length. reflexivity. Qed.

  Lemma ren_out_deg1 g t n : out_deg1 (ren f g) t (f n) = out_deg1 g t n.
  Proof. unfold out_deg1. rewrite ren_nbrs_at, map_length. reflexivity. Qed.

  Lemma ren_nbunch_nodes g nb :
    nbunch_nodes (ren f g) (option_map (map f) nb) = map f (nbunch_nodes g nb).
  Proof.
    destruct nb as [l|]; simpl.
    - apply filter_map_comm. intros n. apply ren_has_node_flat.
    - apply ren_node_ids.
  Qed.

  Lemma ren_degree_dict g kind nb t :
    degree_dict (ren f g) kind (option_map (map f) nb) t
    = map (fun nd => (f (fst nd), snd nd)) (degree_dict g kind nb t).
  Proof.
    unfold degree_dict. rewrite ren_nbunch_nodes, !map_map. apply map_ext.
    intros n. cbn [fst snd]. rewrite ren_deg1, ren_in_deg1, ren_out_deg1. reflexivity.
  Qed.

  Lemma ren_degree_dict_all g kind t :
    degree_dict (ren f g) kind None t = map (fun nd => (f (fst nd), snd nd)) (degree_dict g kind None t).
  Proof. apply (ren_degree_dict g kind None t). Qed.

  Lemma ren_size g t : size (ren f g) t = size g t.
  Proof. unfold size. rewrite ren_degree_dict_all, map_map. reflexivity. Qed.

  Lemma ren_nodes_at g t : nodes_at (ren f g) t = map f (nodes_at g t).
  Proof.
    unfold nodes_at. rewrite ren_degree_dict_all.
    rewrite (filter_map_comm (fun nd : Z * Z => (f (fst nd), snd nd)) (fun nd => 0 <? snd nd)) by reflexivity.
    rewrite !map_map. reflexivity.
  Qed.

  Lemma ren_number_of_nodes g t : number_of_nodes (ren f g) t = number_of_nodes g t.
  Proof.
    unfold number_of_nodes. destruct t as [x|].
    - rewrite ren_nodes_at, map_length. reflexivity.
    - rewrite ren_g_nodes, map_length. reflexivity.
  Qed.

  Lemma ren_has_node g n t : has_node (ren f g) (f n) t = has_node g n t.
  Proof.
    unfold has_node. rewrite ren_has_node_flat. destruct t as [x|]; [|reflexivity].
    rewrite ren_deg1. reflexivity.
  Qed.

  Lemma ren_node_snapshots g n : node_snapshots (ren f g) (f n) = node_snapshots g n.
  Proof.
    unfold node_snapshots. rewrite ren_snapshot_ids. apply filter_ext.
    intros t. apply ren_has_node.
  Qed.

  (** interactions *)
  Lemma ren_inter_loop g t todo : forall seen,
    inter_loop (ren f g) t (map f todo) (map f seen) = map (rp f) (inter_loop g t todo seen).
  Proof.
    induction todo as [|n r IH]; intros seen; simpl; [reflexivity|].
    rewrite map_app. f_equal.
    - rewrite ren_nbrs_at.
      rewrite (filter_map_comm f (fun v => negb (memZ v seen))) by (intros v; rewrite memZ_map; reflexivity).
      rewrite !map_map. reflexivity.
    - apply (IH (n :: seen)).
  Qed.

  Lemma ren_interactions g nb t :
    interactions (ren f g) (option_map (map f) nb) t = map (rp f) (interactions g nb t).
  Proof. unfold interactions. rewrite ren_nbunch_nodes. apply (ren_inter_loop g t _ []). Qed.

  Lemma ren_interactions_all g t : interactions (ren f g) None t = map (rp f) (interactions g None t).
  Proof. apply (ren_interactions g None t). Qed.

  Lemma ren_out_interactions g nb t :
    out_interactions (ren f g) (option_map (map f) nb) t = map (rp f) (out_interactions g nb t).
  Proof.
    unfold out_interactions. rewrite ren_nbunch_nodes. apply flat_map_map_comm.
    intros n. rewrite ren_nbrs_at, !map_map. reflexivity.
  Qed.

  Lemma ren_out_interactions_all g t :
    out_interactions (ren f g) None t = map (rp f) (out_interactions g None t).
  Proof. apply (ren_out_interactions g None t). Qed.

  Lemma ren_in_interactions g nb t :
    in_interactions (ren f g) (option_map (map f) nb) t = map (rp f) (in_interactions g nb t).
  Proof.
    unfold in_interactions. rewrite ren_nbunch_nodes. apply flat_map_map_comm.
    intros n. rewrite ren_preds_at, !map_map. reflexivity.
  Qed.

  Lemma ren_in_interactions_all g t :
    in_interactions (ren f g) None t = map (rp f) (in_interactions g None t).
  Proof. apply (ren_in_interactions g None t). Qed.

  (** Derived.flat_interactions: the pairs are renamed, the timelines are unchanged *)
  Lemma ren_flat_interactions g :
    flat_interactions (ren f g) = map (fun pr => (rp f (fst pr), snd pr)) (flat_interactions g).
  Proof.
    unfold flat_interactions. rewrite ren_g_dir.
    destruct (g_dir g).
    - rewrite ren_out_interactions_all, !map_map. apply map_ext.
      intros [u v]. cbn [fst snd rp]. rewrite ren_timeline_of. reflexivity.
    - rewrite ren_interactions_all, !map_map. apply map_ext.
      intros [u v]. cbn [fst snd rp]. rewrite ren_timeline_of. reflexivity.
  Qed.

  (** stream *)
  Lemma ren_ins_ev e l : ins_ev (ren_event f e) (map (ren_event f) l) = map (ren_event f) (ins_ev e l).
  Proof.
    induction l as [|y r IH]; simpl; [reflexivity|].
    rewrite !ren_ev_time. destruct (ev_time e <? ev_time y); simpl; [reflexivity|].
    rewrite IH. reflexivity.
  Qed.

  Lemma ren_stream_fold l : forall acc,
    fold_left (fun acc e => ins_ev e acc) (map (ren_event f) l) (map (ren_event f) acc)
    = map (ren_event f) (fold_left (fun acc e => ins_ev e acc) l acc).
  Proof.
    induction l as [|e r IH]; intros acc; simpl; [reflexivity|].
    rewrite ren_ins_ev. apply IH.
  Qed.

  Lemma ren_stream g : stream (ren f g) = map (ren_event f) (stream g).
  Proof. unfold stream. rewrite ren_g_events. apply (ren_stream_fold (g_events g) []). Qed.

  Lemma ren_interactions_per_snapshot g t : interactions_per_snapshot (ren f g) t = interactions_per_snapshot g t.
  Proof. reflexivity. Qed.

  (** the remaining queries of Graph.v *)
  Lemma ren_number_of_interactions g uv t :
    number_of_interactions (ren f g) (option_map (rp f) uv) t = number_of_interactions g uv t.
  Proof.
    unfold number_of_interactions. destruct uv as [[u v]|]; simpl.
    - rewrite ren_has_interaction. reflexivity.
    - rewrite ren_size. reflexivity.
  Qed.

  Lemma ren_density g t : density (ren f g) t = density g t.
  Proof.
    unfold density. destruct t; [reflexivity|].
    rewrite ren_number_of_nodes, ren_size, ren_g_dir. reflexivity.
  Qed.

  Lemma ren_degree_histogram g t : degree_histogram (ren f g) t = degree_histogram g t.
  Proof. unfold degree_histogram. rewrite ren_degree_dict_all, map_map. reflexivity. Qed.

  Lemma ren_is_empty g : is_empty (ren f g) = is_empty g.
  Proof. unfold is_empty. rewrite ren_g_edges. destruct (g_edges g); reflexivity. Qed.

  Lemma ren_all_neighbors g n t :
    all_neighbors (ren f g) (f n) t = option_map (map f) (all_neighbors g n t).
  Proof.
    unfold all_neighbors. rewrite ren_has_node_flat, ren_g_dir, ren_nbrs_at, ren_preds_at.
    destruct (has_node_flat g n).
    - destruct (g_dir g); simpl; [rewrite map_app|]; reflexivity.
    - destruct (g_dir g); [reflexivity|]. destruct t; reflexivity.
  Qed.

  Lemma ren_non_neighbors g n t :
    non_neighbors (ren f g) (f n) t = option_map (map f) (non_neighbors g n t).
  Proof.
    unfold non_neighbors. rewrite ren_all_neighbors.
    destruct (all_neighbors g n t) as [nb|]; cbn [option_map]; [|reflexivity].
    rewrite ren_node_ids. f_equal.
    apply filter_map_comm. intros x. change (f n :: map f nb) with (map f (n :: nb)). rewrite memZ_map. reflexivity.
  Qed.

  Lemma ren_pairs_after l : pairs_after (map f l) = map (rp f) (pairs_after l).
  Proof.
    induction l as [|x r IH]; simpl; [reflexivity|].
    rewrite map_app, IH, !map_map. reflexivity.
  Qed.

  Lemma ren_non_interactions g t : non_interactions (ren f g) t = map (rp f) (non_interactions g t).
  Proof.
    unfold non_interactions. rewrite ren_node_ids, ren_pairs_after.
    apply filter_map_comm. intros [u v]. cbn [fst snd rp]. rewrite ren_has_interaction. reflexivity.
  Qed.

  Lemma ren_avg_number_of_nodes g : avg_number_of_nodes (ren f g) = avg_number_of_nodes g.
  Proof.
    unfold avg_number_of_nodes. rewrite ren_snapshot_ids, ren_g_snaps. f_equal. f_equal.
    apply map_ext. intros t. apply ren_number_of_nodes.
  Qed.

  Lemma ren_clear g : clear (ren f g) = ren f (clear g).
  Proof. reflexivity. Qed.

  Lemma ren_clear_edges g : clear_edges (ren f g) = ren f (clear_edges g).
  Proof. reflexivity. Qed.

  (** renaming preserves the shape of the pair lists used by the bulk helpers *)
  Lemma ren_zip_next l : zip_next (map f l) = map (rp f) (zip_next l).
  Proof.
    induction l as [|a r IH]; [reflexivity|].
    destruct r as [|b r']; [reflexivity|].
    change (zip_next (map f (a :: b :: r'))) with ((f a, f b) :: zip_next (map f (b :: r'))).
    rewrite IH. reflexivity.
  Qed.

  Lemma ren_path_pairs l : path_pairs (map f l) = map (rp f) (path_pairs l).
  Proof. apply ren_zip_next. Qed.

  Lemma ren_star_pairs l : star_pairs (map f l) = map (rp f) (star_pairs l).
  Proof. destruct l as [|c r]; simpl; [reflexivity|]. rewrite !map_map. reflexivity. Qed.

  Lemma ren_cycle_pairs l : cycle_pairs (map f l) = map (rp f) (cycle_pairs l).
  Proof.
    destruct l as [|c r]; [reflexivity|]. unfold cycle_pairs.
    change (map f (c :: r)) with (f c :: map f r). cbv iota beta.
    rewrite <- (ren_zip_next ((c :: r) ++ [c])), map_app. reflexivity.
  Qed.

  (** * Derived.time_slice (a consequence of the above, kept here for the files downstream) *)
  Lemma ren_add_runs runs : forall h u v,
    add_runs (ren f h) (f u) (f v) runs = (ren f (fst (add_runs h u v runs)), snd (add_runs h u v runs)).
  Proof.
    induction runs as [|[s e] r IH]; intros h u v; simpl; [reflexivity|].
    rewrite ren_add_interaction.
    destruct (add_interaction h u v (Some s) (Some (e + 1))) as [h' o]. cbn [fst snd].
    destruct o; try reflexivity. apply IH.
  Qed.

  Lemma ren_add_all_runs l : forall h,
    add_all_runs (ren f h) (map (fun pr => (rp f (fst pr), snd pr)) l)
    = (ren f (fst (add_all_runs h l)), snd (add_all_runs h l)).
  Proof.
    induction l as [|[[u v] runs] r IH]; intros h; simpl; [reflexivity|].
    rewrite ren_add_runs.
    destruct (add_runs h u v runs) as [h' o]. cbn [fst snd].
    destruct o; try reflexivity. apply IH.
  Qed.

  Lemma ren_copy_attrs src h : copy_attrs (ren f src) (ren f h) = ren f (copy_attrs src h).
  Proof.
    unfold copy_attrs. rewrite ren_with_nodes. f_equal.
    rewrite (ren_g_nodes h), !map_map. apply map_ext.
    intros [n a]. cbn [fst snd]. rewrite ren_node_attr. reflexivity.
  Qed.

  Lemma ren_time_slice g a b :
    time_slice (ren f g) a b = (option_map (ren f) (fst (time_slice g a b)), snd (time_slice g a b)).
  Proof.
    unfold time_slice. cbv zeta.
    set (tt := match b with Some x => x | None => a end).
    destruct (tt <? a); [reflexivity|].
    rewrite ren_flat_interactions, ren_g_dir, map_map.
    rewrite <- (ren_empty (g_dir g) true) at 1.
    set (h0 := empty_graph (g_dir g) true).
    set (l := map (fun pr : (Z * Z) * list (Z * Z) => (fst pr, filter_map (clip a tt) (snd pr))) (flat_interactions g)).
    replace (map (fun x : (Z * Z) * list (Z * Z) =>
                    (fst (rp f (fst x), snd x), filter_map (clip a tt) (snd (rp f (fst x), snd x))))
                 (flat_interactions g))
      with (map (fun pr : (Z * Z) * list (Z * Z) => (rp f (fst pr), snd pr)) l)
      by (unfold l; rewrite map_map; reflexivity).
    rewrite ren_add_all_runs.
    destruct (add_all_runs h0 l) as [h o]. cbn [fst snd].
    destruct o; try reflexivity.
    cbn [fst snd option_map]. rewrite ren_copy_attrs. reflexivity.
  Qed.

End Rename.

Print Assumptions mono_inj.
Print Assumptions mono_le.
Print Assumptions mono_eqb.
Print Assumptions rp_nk.
Print Assumptions peqb_rp.
Print Assumptions aget_kmap.
Print Assumptions aset_kmap.
Print Assumptions amem_kmap.
Print Assumptions akeys_kmap.
Print Assumptions ren_add_interaction.
Print Assumptions ren_add_node.
Print Assumptions ren_empty.
Print Assumptions ren_add_interactions_from.
Print Assumptions ren_has_node_flat.
Print Assumptions ren_has_node.
Print Assumptions ren_node_ids.
Print Assumptions ren_node_attr.
Print Assumptions ren_key_present.
Print Assumptions ren_has_interaction.
Print Assumptions ren_timeline_of.
Print Assumptions ren_nbrs_at.
Print Assumptions ren_preds_at.
Print Assumptions ren_neighbors.
Print Assumptions ren_predecessors.
Print Assumptions ren_deg1.
Print Assumptions ren_degree_dict.
Print Assumptions ren_size.
Print Assumptions ren_nodes_at.
Print Assumptions ren_number_of_nodes.
Print Assumptions ren_node_snapshots.
Print Assumptions ren_snapshot_ids.
Print Assumptions ren_max_id.
Print Assumptions ren_interactions.
Print Assumptions ren_out_interactions.
Print Assumptions ren_in_interactions.
Print Assumptions ren_flat_interactions.
Print Assumptions ren_stream.
Print Assumptions ren_interactions_per_snapshot.
Print Assumptions ren_number_of_interactions.
Print Assumptions ren_density.
Print Assumptions ren_degree_histogram.
Print Assumptions ren_all_neighbors.
Print Assumptions ren_non_neighbors.
Print Assumptions ren_non_interactions.
Print Assumptions ren_avg_number_of_nodes.
Print Assumptions ren_cycle_pairs.
Print Assumptions ren_add_all_runs.
Print Assumptions ren_copy_attrs.
Print Assumptions ren_time_slice.
