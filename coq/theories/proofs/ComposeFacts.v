(** ComposeFacts: slicing a slice is slicing by the intersection of the windows -- not only for presence
    ([slice_compose] in DerivedFacts) but for everything observable about the result: snapshot ids,
    per-snapshot counts, node set and node attributes.  Disjoint windows give the empty graph. *)
From DynVerif Require Import Base Graph Derived Spec Api.
From DynVerif.proofs Require Import AListFacts CoreInv C01Facts C03Facts QueryFacts SnapInv LogInv SliceFacts
  DerivedFacts ApiFacts.
From Coq Require Import Sorting.Sorted Sorting.Permutation.

(** * 1. generic helpers *)

(** two strictly sorted lists with the same members are equal *)
Lemma sorted_lt_ext (l1 : list Z) : forall l2,
  StronglySorted Z.lt l1 -> StronglySorted Z.lt l2 -> (forall x, In x l1 <-> In x l2) -> l1 = l2.
Proof.
  induction l1 as [|x r1 IH]; intros l2 Hs1 Hs2 Hio.
  - destruct l2 as [|y r2]; [reflexivity|]. exfalso. apply (Hio y). left; reflexivity.
  - destruct l2 as [|y r2]; [exfalso; apply (Hio x); left; reflexivity|].
    apply StronglySorted_inv in Hs1. destruct Hs1 as (Hr1 & Hf1).
    apply StronglySorted_inv in Hs2. destruct Hs2 as (Hr2 & Hf2).
    rewrite Forall_forall in Hf1, Hf2.
    assert (Hxy : x = y).
    { assert (Hx : In x (y :: r2)) by (apply Hio; left; reflexivity).
      assert (Hy : In y (x :: r1)) by (apply Hio; left; reflexivity).
      destruct Hx as [Hx|Hx]; [congruence|]. destruct Hy as [Hy|Hy]; [congruence|].
      specialize (Hf1 y Hy). specialize (Hf2 x Hx). lia. }
    subst y. f_equal. apply IH; [assumption|assumption|].
    intros z. split; intros Hz.
    + assert (Hz' : In z (x :: r2)) by (apply Hio; right; assumption).
      destruct Hz' as [Hz'|Hz']; [|assumption]. specialize (Hf1 z Hz). lia.
    + assert (Hz' : In z (x :: r1)) by (apply Hio; right; assumption).
      destruct Hz' as [Hz'|Hz']; [|assumption]. specialize (Hf2 z Hz). lia.
Qed.

Lemma no_members_nil {A} (l : list A) : (forall x, ~ In x l) -> l = [].
Proof. destruct l as [|x r]; [reflexivity|]. intros H. exfalso. apply (H x). left; reflexivity. Qed.

(** * 2. a stored key is its own normal form; presence of a stored key is [has_interaction] *)
Lemma key_norm g k : InvAdj g -> In k (akeys (g_edges g)) -> nk (g_dir g) (fst k) (snd k) = k.
Proof.
  intros (_ & _ & _ & Ho) Hin. destruct k as [x y]. simpl. unfold nk.
  destruct (g_dir g) eqn:Hd; [reflexivity|].
  specialize (Ho eq_refl x y Hin). destruct (x <=? y) eqn:E; [reflexivity|lia].
Qed.

Lemma present_keys_incl G1 G2 t : InvAdj G1 -> InvAdj G2 -> g_dir G1 = g_dir G2 ->
  (forall u v, has_interaction G1 u v (Some t) = has_interaction G2 u v (Some t)) ->
  forall k, In k (filter (fun k => key_present G1 k (Some t)) (akeys (g_edges G1))) ->
            In k (filter (fun k => key_present G2 k (Some t)) (akeys (g_edges G2))).
Proof.
  intros HI1 HI2 Hd Hh k Hin. apply filter_In in Hin. destruct Hin as (Hk & Hp).
  pose proof (key_norm G1 k HI1 Hk) as Hn.
  assert (Hp2 : key_present G2 k (Some t) = true).
  { specialize (Hh (fst k) (snd k)). unfold has_interaction in Hh. rewrite <- Hd in Hh.
    rewrite Hn in Hh. rewrite <- Hh. exact Hp. }
  apply filter_In. split; [|exact Hp2]. apply (key_present_key G2 k (Some t)). exact Hp2.
Qed.

(** the number of present pairs is determined by presence *)
Lemma count_present_ext G1 G2 t : Good G1 -> Good G2 -> g_dir G1 = g_dir G2 ->
  (forall u v, has_interaction G1 u v (Some t) = has_interaction G2 u v (Some t)) ->
  count_present G1 t = count_present G2 t.
Proof.
  intros (Hr1 & Hc1 & HI1) (Hr2 & Hc2 & HI2) Hd Hh.
  rewrite (count_present_spec G1 t) by (try apply HI1; assumption).
  rewrite (count_present_spec G2 t) by (try apply HI2; assumption).
  f_equal. apply Permutation_length. apply NoDup_Permutation.
  - apply NoDup_filter. apply HI1.
  - apply NoDup_filter. apply HI2.
  - intros k. split.
    + apply present_keys_incl; assumption.
    + apply present_keys_incl; [assumption|assumption|symmetry; assumption|].
      intros u v. symmetry. apply Hh.
Qed.

(** * 3. what the three slices of the statement have in common *)
Lemma slice_InvSnap g a b H : Good g -> a <= b -> time_slice g a (Some b) = (Some H, Done) -> InvSnap H.
Proof.
  intros HG Hab E. destruct (WFG_time_slice g a (Some b) H Done E) as (_ & _ & Hr).
  destruct (slice_good g a b H HG Hab E) as (Hrem & _). apply (Hr Hrem).
Qed.

Lemma compose_setup g a b c d H1 H2 H3 : Good g -> a <= b -> c <= d -> Z.max a c <= Z.min b d ->
  time_slice g a (Some b) = (Some H1, Done) -> time_slice H1 c (Some d) = (Some H2, Done) ->
  time_slice g (Z.max a c) (Some (Z.min b d)) = (Some H3, Done) ->
  Good H1 /\ Good H2 /\ Good H3 /\ g_dir H2 = g_dir H3 /\ InvSnap H2 /\ InvSnap H3 /\
  (forall u v tau, has_interaction H2 u v (Some tau) = has_interaction H3 u v (Some tau)).
Proof.
  intros HG Hab Hcd Hm E1 E2 E3.
  pose proof (slice_good g a b H1 HG Hab E1) as HG1.
  pose proof (slice_good H1 c d H2 HG1 Hcd E2) as HG2.
  pose proof (slice_good g _ _ H3 HG Hm E3) as HG3.
  split; [exact HG1|]. split; [exact HG2|]. split; [exact HG3|]. split.
  - destruct (slice_presence g a b H1 0 0 0 HG Hab E1) as (D1 & _).
    destruct (slice_presence H1 c d H2 0 0 0 HG1 Hcd E2) as (D2 & _).
    destruct (slice_presence g _ _ H3 0 0 0 HG Hm E3) as (D3 & _). congruence.
  - split; [exact (slice_InvSnap H1 c d H2 HG1 Hcd E2)|].
    split; [exact (slice_InvSnap g _ _ H3 HG Hm E3)|].
    intros u v tau. exact (slice_compose g a b c d H1 H2 H3 u v tau HG Hab Hcd Hm E1 E2 E3).
Qed.

Lemma compose_count g a b c d H1 H2 H3 : Good g -> a <= b -> c <= d -> Z.max a c <= Z.min b d ->
  time_slice g a (Some b) = (Some H1, Done) -> time_slice H1 c (Some d) = (Some H2, Done) ->
  time_slice g (Z.max a c) (Some (Z.min b d)) = (Some H3, Done) ->
  forall t, count_present H2 t = count_present H3 t.
Proof.
  intros HG Hab Hcd Hm E1 E2 E3 t.
  destruct (compose_setup g a b c d H1 H2 H3 HG Hab Hcd Hm E1 E2 E3) as (_ & HG2 & HG3 & Hd & _ & _ & Hh).
  apply count_present_ext; try assumption. intros u v. apply Hh.
Qed.

(** * 4. snapshot ids and per-snapshot counts *)
Theorem slice_compose_ids : forall g a b c d H1 H2 H3, Good g -> a <= b -> c <= d -> Z.max a c <= Z.min b d ->
  time_slice g a (Some b) = (Some H1, Done) -> time_slice H1 c (Some d) = (Some H2, Done) ->
  time_slice g (Z.max a c) (Some (Z.min b d)) = (Some H3, Done) ->
  snapshot_ids H2 = snapshot_ids H3.
Proof.
  intros g a b c d H1 H2 H3 HG Hab Hcd Hm E1 E2 E3.
  destruct (compose_setup g a b c d H1 H2 H3 HG Hab Hcd Hm E1 E2 E3) as (_ & _ & _ & _ & HS2 & HS3 & _).
  apply sorted_lt_ext; [apply ids_sorted; exact HS2|apply ids_sorted; exact HS3|].
  intros t. rewrite (ids_spec H2 HS2 t), (ids_spec H3 HS3 t).
  rewrite (compose_count g a b c d H1 H2 H3 HG Hab Hcd Hm E1 E2 E3 t). tauto.
Qed.

Theorem slice_compose_counts : forall g a b c d H1 H2 H3, Good g -> a <= b -> c <= d -> Z.max a c <= Z.min b d ->
  time_slice g a (Some b) = (Some H1, Done) -> time_slice H1 c (Some d) = (Some H2, Done) ->
  time_slice g (Z.max a c) (Some (Z.min b d)) = (Some H3, Done) ->
  forall t, interactions_per_snapshot H2 t = interactions_per_snapshot H3 t.
Proof.
  intros g a b c d H1 H2 H3 HG Hab Hcd Hm E1 E2 E3 t.
  destruct (compose_setup g a b c d H1 H2 H3 HG Hab Hcd Hm E1 E2 E3) as (_ & _ & _ & _ & HS2 & HS3 & _).
  destruct (ips_spec H2 HS2 t) as (F2 & S2). destruct (ips_spec H3 HS3 t) as (F3 & S3).
  pose proof (compose_count g a b c d H1 H2 H3 HG Hab Hcd Hm E1 E2 E3 t) as Hc.
  destruct (interactions_per_snapshot H2 t) as [n2 d2]. destruct (interactions_per_snapshot H3 t) as [n3 d3].
  cbn [fst snd] in F2, S2, F3, S3. f_equal; lia.
Qed.

(** * 5. nodes *)
(** the node characterisation of [slice_nodes], taken through two windows *)
Lemma nodes_char_compose g H1 a b c d n :
  (forall u v tau, has_interaction H1 u v (Some tau) = (a <=? tau) && (tau <=? b) && has_interaction g u v (Some tau)) ->
  ((exists v tau, c <= tau <= d /\
      (has_interaction H1 n v (Some tau) = true \/ has_interaction H1 v n (Some tau) = true)) <->
   (exists v tau, Z.max a c <= tau <= Z.min b d /\
      (has_interaction g n v (Some tau) = true \/ has_interaction g v n (Some tau) = true))).
Proof.
  intros P1. split; intros (v & tau & Hw & Hh); exists v, tau.
  - rewrite !P1 in Hh. rewrite !andb_true_iff in Hh. split; [lia|]. tauto.
  - rewrite !P1. rewrite !andb_true_iff. split; [lia|]. destruct Hh as [Hh|Hh]; [left|right]; (split; [lia|exact Hh]).
Qed.

Lemma slice_hi g a b H : Good g -> a <= b -> time_slice g a (Some b) = (Some H, Done) ->
  forall u v tau, has_interaction H u v (Some tau) = (a <=? tau) && (tau <=? b) && has_interaction g u v (Some tau).
Proof. intros HG Hab E u v tau. apply (slice_presence g a b H u v tau HG Hab E). Qed.

Theorem slice_compose_nodes : forall g a b c d H1 H2 H3, Good g -> a <= b -> c <= d -> Z.max a c <= Z.min b d ->
  time_slice g a (Some b) = (Some H1, Done) -> time_slice H1 c (Some d) = (Some H2, Done) ->
  time_slice g (Z.max a c) (Some (Z.min b d)) = (Some H3, Done) ->
  forall n, In n (node_ids H2) <-> In n (node_ids H3).
Proof.
  intros g a b c d H1 H2 H3 HG Hab Hcd Hm E1 E2 E3 n.
  pose proof (slice_good g a b H1 HG Hab E1) as HG1.
  destruct (slice_nodes H1 c d H2 n HG1 Hcd E2) as (N2 & _).
  destruct (slice_nodes g _ _ H3 n HG Hm E3) as (N3 & _).
  rewrite N2, N3. apply nodes_char_compose. apply slice_hi; assumption.
Qed.

(** every node of a slice of a slice is a node of the first slice *)
Lemma slice_node_mono g a b H n c d : Good g -> a <= b -> time_slice g a (Some b) = (Some H, Done) ->
  (exists v tau, c <= tau <= d /\
     (has_interaction H n v (Some tau) = true \/ has_interaction H v n (Some tau) = true)) ->
  In n (node_ids H).
Proof.
  intros HG Hab E (v & tau & _ & Hh).
  destruct (slice_nodes g a b H n HG Hab E) as (N & _). apply N.
  rewrite !(slice_hi g a b H HG Hab E) in Hh. rewrite !andb_true_iff in Hh.
  exists v, tau. split; [lia|]. tauto.
Qed.

Lemma copy_attrs_aget src h n :
  aget Z.eqb n (g_nodes (copy_attrs src h)) =
  if amem Z.eqb n (g_nodes h)
  then Some (match aget Z.eqb n (g_nodes src) with Some x => x | None => 0 end) else None.
Proof.
  unfold copy_attrs. cbn [with_nodes g_nodes].
  apply (aget_map_attr (fun i => match aget Z.eqb i (g_nodes src) with Some x => x | None => 0 end)).
Qed.

Lemma amem_ext (n : Z) (l1 l2 : list (Z * Z)) :
  (In n (map fst l1) <-> In n (map fst l2)) -> amem Z.eqb n l1 = amem Z.eqb n l2.
Proof.
  intros H. destruct (amem Z.eqb n l1) eqn:E1, (amem Z.eqb n l2) eqn:E2; try reflexivity.
  - apply zamem_In in E1. apply H in E1. apply zamem_In in E1. congruence.
  - apply zamem_In in E2. apply H in E2. apply zamem_In in E2. congruence.
Qed.

Theorem slice_compose_attrs : forall g a b c d H1 H2 H3, Good g -> a <= b -> c <= d -> Z.max a c <= Z.min b d ->
  time_slice g a (Some b) = (Some H1, Done) -> time_slice H1 c (Some d) = (Some H2, Done) ->
  time_slice g (Z.max a c) (Some (Z.min b d)) = (Some H3, Done) ->
  forall n, aget Z.eqb n (g_nodes H2) = aget Z.eqb n (g_nodes H3).
Proof.
  intros g a b c d H1 H2 H3 HG Hab Hcd Hm E1 E2 E3 n.
  pose proof (slice_good g a b H1 HG Hab E1) as HG1.
  pose proof (slice_compose_nodes g a b c d H1 H2 H3 HG Hab Hcd Hm E1 E2 E3 n) as Hio.
  destruct (slice_nodes H1 c d H2 n HG1 Hcd E2) as (N2 & _).
  destruct (slice_inv g a b H1 HG Hab E1) as (h1 & EH1 & _).
  destruct (slice_inv H1 c d H2 HG1 Hcd E2) as (h2 & EH2 & _).
  destruct (slice_inv g _ _ H3 HG Hm E3) as (h3 & EH3 & _).
  assert (Hmem : amem Z.eqb n (g_nodes h2) = amem Z.eqb n (g_nodes h3)).
  { apply amem_ext. rewrite EH2, EH3 in Hio. rewrite !copy_attrs_ids in Hio. exact Hio. }
  rewrite EH2 at 1. rewrite EH3. rewrite !copy_attrs_aget. rewrite <- Hmem.
  destruct (amem Z.eqb n (g_nodes h2)) eqn:Em; [|reflexivity].
  (* n is a node of H2, hence of H1: its H1 attribute is the source's *)
  assert (Hn2 : In n (node_ids H2)).
  { rewrite EH2, copy_attrs_ids. apply zamem_In. exact Em. }
  assert (Hn1 : In n (node_ids H1)).
  { apply (slice_node_mono g a b H1 n c d HG Hab E1). apply N2. exact Hn2. }
  rewrite EH1. rewrite copy_attrs_aget.
  rewrite EH1, copy_attrs_ids in Hn1. apply zamem_In in Hn1. rewrite Hn1. reflexivity.
Qed.

(** * 6. disjoint windows: the second slice is empty *)
Theorem slice_compose_disjoint : forall g a b c d H1 H2, Good g -> a <= b -> c <= d -> Z.min b d < Z.max a c ->
  time_slice g a (Some b) = (Some H1, Done) -> time_slice H1 c (Some d) = (Some H2, Done) ->
  snapshot_ids H2 = [] /\ (forall u v tau, has_interaction H2 u v (Some tau) = false) /\ node_ids H2 = [].
Proof.
  intros g a b c d H1 H2 HG Hab Hcd Hdis E1 E2.
  pose proof (slice_good g a b H1 HG Hab E1) as HG1.
  pose proof (slice_good H1 c d H2 HG1 Hcd E2) as HG2.
  pose proof (slice_InvSnap H1 c d H2 HG1 Hcd E2) as HS2.
  assert (Hhi : forall u v tau, has_interaction H2 u v (Some tau) = false).
  { intros u v tau. rewrite (slice_hi H1 c d H2 HG1 Hcd E2), (slice_hi g a b H1 HG Hab E1).
    destruct (has_interaction g u v (Some tau)); lia. }
  assert (Hnodes : node_ids H2 = []).
  { apply no_members_nil. intros n Hn.
    destruct (slice_nodes H1 c d H2 n HG1 Hcd E2) as (N2 & _). apply N2 in Hn.
    destruct Hn as (v & tau & Hw & Hh). rewrite !(slice_hi g a b H1 HG Hab E1) in Hh.
    rewrite !andb_true_iff in Hh. lia. }
  split; [|split; [exact Hhi|exact Hnodes]].
  apply no_members_nil. intros t Ht. apply (ids_spec H2 HS2 t) in Ht.
  destruct HG2 as (_ & _ & (_ & _ & Hend & _)).
  assert (Hed : g_edges H2 = []).
  { remember (g_edges H2) as ed eqn:Eg. destruct ed as [|[[x y] tl] r]; [reflexivity|]. exfalso.
    destruct (Hend x y) as (Hx & _); [left; reflexivity|]. rewrite Hnodes in Hx. exact Hx. }
  unfold count_present in Ht. rewrite Hed in Ht. simpl in Ht. lia.
Qed.

Print Assumptions slice_compose_ids.
Print Assumptions slice_compose_counts.
Print Assumptions slice_compose_nodes.
Print Assumptions slice_compose_attrs.
Print Assumptions slice_compose_disjoint.
