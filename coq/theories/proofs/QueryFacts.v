(** QueryFacts: adjacency well-formedness [InvAdj] and the queries read off the adjacency
    (neighbours, predecessors, live nodes, interaction listings, degree) characterised through
    [has_interaction]. *)
From DynVerif Require Import Base Graph Spec.
From DynVerif.proofs Require Import AListFacts CoreInv.

(* adjacency well-formedness: distinct keys, distinct nodes, every endpoint is a node, undirected keys are (min,max) *)
Definition InvAdj (g : graph) : Prop :=
  NoDup (akeys (g_edges g)) /\ NoDup (node_ids g) /\
  (forall a b, In (a, b) (akeys (g_edges g)) -> In a (node_ids g) /\ In b (node_ids g)) /\
  (g_dir g = false -> forall a b, In (a, b) (akeys (g_edges g)) -> a <= b).
(* the edge set of the static graph at t (t = None: flattened) *)
Definition static_edges (g : graph) (t : option Z) : list (Z * Z) :=
  filter (fun k => key_present g k t) (akeys (g_edges g)).

(** ** list helpers *)
Lemma NoDup_app_intro {A} (l1 l2 : list A) :
  NoDup l1 -> NoDup l2 -> (forall x, In x l1 -> In x l2 -> False) -> NoDup (l1 ++ l2).
Proof.
  induction l1 as [|a r IH]; simpl; intros H1 H2 Hd; [assumption|].
  inversion H1 as [|? ? Hni Hr]; subst. constructor.
  - rewrite in_app_iff. intros [H|H]; [auto|]. apply (Hd a); auto.
  - apply IH; auto. intros x Hx1 Hx2. apply (Hd x); auto.
Qed.

Lemma NoDup_snoc {A} (l : list A) (x : A) : NoDup l -> ~ In x l -> NoDup (l ++ [x]).
Proof.
  intros Hl Hx. apply NoDup_app_intro; auto.
  - constructor; [intros []|constructor].
  - intros y Hy [<-|[]]. auto.
Qed.

Lemma NoDup_flat_map_intro {A B} (h : A -> list B) (l : list A) :
  NoDup l -> (forall x, In x l -> NoDup (h x)) ->
  (forall x y z, In x l -> In y l -> In z (h x) -> In z (h y) -> x = y) ->
  NoDup (flat_map h l).
Proof.
  induction l as [|a r IH]; simpl; intros Hnd Hh Hinj; [constructor|].
  inversion Hnd as [|? ? Hni Hr]; subst.
  apply NoDup_app_intro.
  - apply Hh; auto.
  - apply IH; auto. intros x y z Hx Hy. apply Hinj; auto.
  - intros z Hz1 Hz2. apply in_flat_map in Hz2. destruct Hz2 as (y & Hy & Hzy).
    assert (a = y) by (apply (Hinj a y z); auto). subst. auto.
Qed.

Lemma NoDup_map_inj {A B} (f : A -> B) (l : list A) :
  (forall x y, f x = f y -> x = y) -> NoDup l -> NoDup (map f l).
Proof.
  intros Hinj. induction l as [|a r IH]; simpl; intros Hnd; [constructor|].
  inversion Hnd as [|? ? Hni Hr]; subst. constructor; auto.
  intros H. apply in_map_iff in H. destruct H as (x & Hx & Hin). apply Hinj in Hx. subst. auto.
Qed.

Lemma flat_map_keys {V B} (h : Z * Z -> list B) (l : list ((Z * Z) * V)) :
  flat_map (fun e => h (fst e)) l = flat_map h (akeys l).
Proof. induction l as [|[k v] r IH]; simpl; [reflexivity|]. rewrite IH. reflexivity. Qed.

Lemma split_unique {A} (u v : A) (l1 l2 m1 m2 : list A) :
  l1 ++ u :: l2 = m1 ++ v :: m2 -> ~ In v l1 -> ~ In u m1 -> u = v.
Proof.
  revert m1. induction l1 as [|a r IH]; intros [|b m1]; simpl; intros E Hv Hu.
  - inversion E; auto.
  - inversion E; subst. exfalso; auto.
  - inversion E; subst. exfalso; auto.
  - inversion E; subst. apply (IH m1); auto.
Qed.

(** ** Z-keyed alists: node table *)
Lemma zamem_In {V} (n : Z) (l : list (Z * V)) : amem Z.eqb n l = true <-> In n (map fst l).
Proof.
  unfold amem. induction l as [|[k v] r IH]; simpl; [split; [discriminate|tauto]|].
  destruct (n =? k) eqn:E.
  - split; auto. intros _. left. lia.
  - rewrite IH. split; auto. intros [H|H]; auto. lia.
Qed.

Lemma zkeys_aset_in {V} (n : Z) (v : V) (l : list (Z * V)) :
  In n (map fst l) -> map fst (aset Z.eqb n v l) = map fst l.
Proof.
  induction l as [|[k v'] r IH]; simpl; [tauto|].
  destruct (n =? k) eqn:E; simpl; [reflexivity|].
  intros [H|H]; [lia|]. rewrite IH; auto.
Qed.

Lemma has_node_flat_In g n : has_node_flat g n = true <-> In n (node_ids g).
Proof. unfold has_node_flat, node_ids. apply zamem_In. Qed.

Lemma ensure_node_keys n l :
  map fst (ensure_node n l) = if amem Z.eqb n l then map fst l else map fst l ++ [n].
Proof. unfold ensure_node. destruct (amem Z.eqb n l); [reflexivity|]. rewrite map_app. reflexivity. Qed.

Lemma ensure_node_NoDup n l : NoDup (map fst l) -> NoDup (map fst (ensure_node n l)).
Proof.
  intros H. rewrite ensure_node_keys. destruct (amem Z.eqb n l) eqn:E; [assumption|].
  apply NoDup_snoc; auto. intros Hin. apply zamem_In in Hin. congruence.
Qed.

Lemma ensure_node_In n l : In n (map fst (ensure_node n l)).
Proof.
  rewrite ensure_node_keys. destruct (amem Z.eqb n l) eqn:E.
  - apply zamem_In; assumption.
  - apply in_or_app. right. left. reflexivity.
Qed.

Lemma ensure_node_incl n l x : In x (map fst l) -> In x (map fst (ensure_node n l)).
Proof.
  rewrite ensure_node_keys. destruct (amem Z.eqb n l); auto. intros H. apply in_or_app. auto.
Qed.

(** ** InvAdj is an invariant *)
Lemma InvAdj_init dir rem : InvAdj (empty_graph dir rem).
Proof.
  unfold InvAdj, node_ids; simpl. repeat split; try constructor; intros; contradiction.
Qed.

Lemma nk_cases dir u v : nk dir u v = (u, v) \/ nk dir u v = (v, u).
Proof. unfold nk. destruct dir; auto. destruct (u <=? v); auto. Qed.

Lemma nk_le u v a b : nk false u v = (a, b) -> a <= b.
Proof. unfold nk. destruct (u <=? v) eqn:E; intros H; inversion H; subst; lia. Qed.

(** how [add_interaction] changes nodes and the key list *)
Lemma step_shape g u v t e g' o :
  add_interaction g u v t e = (g', o) ->
  g_dir g' = g_dir g /\
  (g' = g \/
   (g_nodes g' = ensure_node v (ensure_node u (g_nodes g)) /\
    (akeys (g_edges g') = akeys (g_edges g) \/
     (~ In (nk (g_dir g) u v) (akeys (g_edges g)) /\
      akeys (g_edges g') = akeys (g_edges g) ++ [nk (g_dir g) u v])))).
Proof.
  unfold add_interaction. destruct t as [s|]; [|intros H; inversion H; subst; auto].
  cbv zeta.
  set (k := nk (g_dir g) u v).
  set (f := match e with Some e' => if g_rem g then e' - 1 else s | None => s end).
  destruct (aget peqb k (g_edges g)) as [[[a b] older]|] eqn:Hget.
  - destruct (s <? a) eqn:E1; [intros H; inversion H; subst; auto|].
    destruct (f <? s) eqn:E2.
    { intros H; inversion H; subst; simpl. split; auto. }
    destruct (b + 1 <? s) eqn:E3.
    { intros H; inversion H; subst; simpl. split; auto. right. split; auto. left.
      apply akeys_aset_in. congruence. }
    destruct (b <? f) eqn:E4.
    { intros H; inversion H; subst; simpl. split; auto. right. split; auto. left.
      apply akeys_aset_in. congruence. }
    intros H; inversion H; subst; simpl. split; auto.
  - destruct (f <? s) eqn:E2.
    { intros H; inversion H; subst; simpl. split; auto. }
    intros H; inversion H; subst; simpl. split; auto. right. split; auto. right.
    split; [apply aget_None_notin; assumption|].
    unfold akeys. rewrite map_app. reflexivity.
Qed.

Lemma InvAdj_step g u v t e g' o : InvAdj g -> add_interaction g u v t e = (g', o) -> InvAdj g'.
Proof.
  intros (Hk & Hn & He & Hle) Hs. apply step_shape in Hs. destruct Hs as (Hd & [->|(Hnodes & Hkeys)]).
  { repeat split; auto; apply He in H; tauto. }
  assert (Hids : node_ids g' = map fst (ensure_node v (ensure_node u (g_nodes g))))
    by (unfold node_ids; rewrite Hnodes; reflexivity).
  assert (Hu : In u (node_ids g')).
  { rewrite Hids. apply ensure_node_incl, ensure_node_In. }
  assert (Hv : In v (node_ids g')).
  { rewrite Hids. apply ensure_node_In. }
  assert (Hinc : forall x, In x (node_ids g) -> In x (node_ids g')).
  { intros x Hx. rewrite Hids. apply ensure_node_incl, ensure_node_incl. exact Hx. }
  assert (Hnd' : NoDup (node_ids g')).
  { rewrite Hids. apply ensure_node_NoDup, ensure_node_NoDup. exact Hn. }
  unfold InvAdj. rewrite Hd.
  destruct Hkeys as [Hkeys|(Hni & Hkeys)]; rewrite Hkeys.
  - repeat split; auto; apply He in H; destruct H; auto.
  - split; [apply NoDup_snoc; auto|]. split; [assumption|]. split.
    + intros a b Hab. apply in_app_or in Hab. destruct Hab as [Hab|[Hab|[]]].
      * apply He in Hab. destruct Hab; auto.
      * destruct (nk_cases (g_dir g) u v) as [E|E]; rewrite E in Hab; inversion Hab; subst; auto.
    + intros Hdir a b Hab. apply in_app_or in Hab. destruct Hab as [Hab|[Hab|[]]].
      * apply Hle; auto.
      * rewrite Hdir in Hab. apply nk_le in Hab. assumption.
Qed.

Lemma InvAdj_add_node g n a : InvAdj g -> InvAdj (add_node g n a).
Proof.
  intros (Hk & Hn & He & Hle). unfold add_node.
  destruct (amem Z.eqb n (g_nodes g)) eqn:Em.
  - destruct (a =? 0); [repeat split; auto; apply He in H; tauto|].
    assert (Hids : node_ids (with_nodes g (aset Z.eqb n a (g_nodes g))) = node_ids g).
    { unfold node_ids; simpl. apply zkeys_aset_in. apply zamem_In. assumption. }
    unfold InvAdj. rewrite Hids. simpl. repeat split; auto; apply He in H; tauto.
  - assert (Hids : node_ids (with_nodes g (g_nodes g ++ [(n, a)])) = node_ids g ++ [n]).
    { unfold node_ids; simpl. rewrite map_app. reflexivity. }
    unfold InvAdj. rewrite Hids. simpl. split; [assumption|]. split.
    + apply NoDup_snoc; auto. intros Hin. apply zamem_In in Hin. congruence.
    + split; [|assumption]. intros x y Hxy. apply He in Hxy. destruct Hxy. split; apply in_or_app; auto.
Qed.

Theorem InvAdj_run cs : forall g, InvAdj g -> InvAdj (run_calls g cs).
Proof.
  induction cs as [|c r IH]; intros g HI; simpl; [assumption|].
  apply IH. unfold do_call.
  destruct (add_interaction g (c_u c) (c_v c) (Some (c_t c)) (c_e c)) as [g' o] eqn:Hs.
  simpl. eapply InvAdj_step; eauto.
Qed.

(** ** has_interaction *)
Lemma nk_sym u v : nk false u v = nk false v u.
Proof. unfold nk. destruct (u <=? v) eqn:E1, (v <=? u) eqn:E2; try reflexivity; try lia. f_equal; lia. Qed.

Lemma has_interaction_sym g u v t : g_dir g = false -> has_interaction g u v t = has_interaction g v u t.
Proof. intros Hd. unfold has_interaction. rewrite Hd, nk_sym. reflexivity. Qed.

Lemma key_present_key g k t : key_present g k t = true -> In k (akeys (g_edges g)).
Proof.
  unfold key_present. destruct (aget peqb k (g_edges g)) as [tl|] eqn:E; [|discriminate].
  intros _. apply aget_Some_in in E. unfold akeys. apply in_map_iff. exists (k, tl). auto.
Qed.

Lemma has_interaction_key g u v t : has_interaction g u v t = true -> In (nk (g_dir g) u v) (akeys (g_edges g)).
Proof. unfold has_interaction. apply key_present_key. Qed.

Lemma has_interaction_nodes g u v t : InvAdj g -> has_interaction g u v t = true ->
  In u (node_ids g) /\ In v (node_ids g).
Proof.
  intros (_ & _ & He & _) H. apply has_interaction_key in H.
  destruct (nk_cases (g_dir g) u v) as [E|E]; rewrite E in H; apply He in H; tauto.
Qed.

(** ** adjacency views as enumerations of the key list *)
Definition out_of (dir : bool) (n : Z) (k : Z * Z) : list Z :=
  let '(a, b) := k in
  if dir then (if a =? n then [b] else [])
  else (if a =? n then [b] else if b =? n then [a] else []).
Definition in_of (dir : bool) (n : Z) (k : Z * Z) : list Z :=
  let '(a, b) := k in
  if dir then (if b =? n then [a] else [])
  else (if a =? n then [b] else if b =? n then [a] else []).

Lemma out_nbrs_keys g n : out_nbrs g n = flat_map (out_of (g_dir g) n) (akeys (g_edges g)).
Proof.
  unfold out_nbrs. rewrite <- flat_map_keys. apply flat_map_ext. intros [[a b] tl]. reflexivity.
Qed.
Lemma in_nbrs_keys g n : in_nbrs g n = flat_map (in_of (g_dir g) n) (akeys (g_edges g)).
Proof.
  unfold in_nbrs. rewrite <- flat_map_keys. apply flat_map_ext. intros [[a b] tl]. reflexivity.
Qed.

Lemma out_of_nk dir n v : In v (out_of dir n (nk dir n v)).
Proof.
  unfold nk, out_of. destruct dir.
  - rewrite Z.eqb_refl. simpl; auto.
  - destruct (n <=? v) eqn:E.
    + rewrite Z.eqb_refl. simpl; auto.
    + destruct (v =? n) eqn:E1; [lia|]. rewrite Z.eqb_refl. simpl; auto.
Qed.

Lemma in_of_nk dir n v : In v (in_of dir n (nk dir v n)).
Proof.
  unfold nk, in_of. destruct dir.
  - rewrite Z.eqb_refl. simpl; auto.
  - destruct (v <=? n) eqn:E.
    + destruct (v =? n) eqn:E1; [left; lia|]. rewrite Z.eqb_refl. simpl; auto.
    + rewrite Z.eqb_refl. simpl; auto.
Qed.

Lemma out_of_NoDup dir n k : NoDup (out_of dir n k).
Proof.
  destruct k as [a b]. unfold out_of.
  destruct dir, (a =? n), (b =? n); repeat constructor; intros [].
Qed.
Lemma in_of_NoDup dir n k : NoDup (in_of dir n k).
Proof.
  destruct k as [a b]. unfold in_of.
  destruct dir, (a =? n), (b =? n); repeat constructor; intros [].
Qed.

Lemma out_nbrs_NoDup g n : InvAdj g -> NoDup (out_nbrs g n).
Proof.
  intros (Hk & _ & _ & Hle). rewrite out_nbrs_keys.
  apply NoDup_flat_map_intro; auto.
  - intros x _. apply out_of_NoDup.
  - intros [a b] [a' b'] z Hx Hy. unfold out_of. destruct (g_dir g) eqn:Hd.
    + destruct (a =? n) eqn:E1; [|intros []]. destruct (a' =? n) eqn:E2; [|intros _ []].
      simpl. intros [<-|[]] [H|[]]. f_equal; lia.
    + specialize (Hle eq_refl). apply Hle in Hx. apply Hle in Hy.
      destruct (a =? n) eqn:E1; [|destruct (b =? n) eqn:E1'; [|intros []]];
      (destruct (a' =? n) eqn:E2; [|destruct (b' =? n) eqn:E2'; [|intros _ []]]);
      simpl; intros [<-|[]] [H|[]]; f_equal; lia.
Qed.

Lemma in_nbrs_NoDup g n : InvAdj g -> NoDup (in_nbrs g n).
Proof.
  intros (Hk & _ & _ & Hle). rewrite in_nbrs_keys.
  apply NoDup_flat_map_intro; auto.
  - intros x _. apply in_of_NoDup.
  - intros [a b] [a' b'] z Hx Hy. unfold in_of. destruct (g_dir g) eqn:Hd.
    + destruct (b =? n) eqn:E1; [|intros []]. destruct (b' =? n) eqn:E2; [|intros _ []].
      simpl. intros [<-|[]] [H|[]]. f_equal; lia.
    + specialize (Hle eq_refl). apply Hle in Hx. apply Hle in Hy.
      destruct (a =? n) eqn:E1; [|destruct (b =? n) eqn:E1'; [|intros []]];
      (destruct (a' =? n) eqn:E2; [|destruct (b' =? n) eqn:E2'; [|intros _ []]]);
      simpl; intros [<-|[]] [H|[]]; f_equal; lia.
Qed.

(* neighbours / successors / predecessors are exactly the static graph's *)
Lemma nbrs_at_spec g n v t : InvAdj g -> (In v (nbrs_at g n t) <-> has_interaction g n v t = true).
Proof.
  intros _. unfold nbrs_at. rewrite filter_In. split; [tauto|]. intros H. split; auto.
  rewrite out_nbrs_keys. apply in_flat_map. exists (nk (g_dir g) n v). split.
  - apply has_interaction_key in H. assumption.
  - apply out_of_nk.
Qed.
Lemma nbrs_at_NoDup g n t : InvAdj g -> NoDup (nbrs_at g n t).
Proof. intros H. unfold nbrs_at. apply NoDup_filter. apply out_nbrs_NoDup. assumption. Qed.
Lemma preds_at_spec g n v t : InvAdj g -> (In v (preds_at g n t) <-> has_interaction g v n t = true).
Proof.
  intros _. unfold preds_at. rewrite filter_In. split; [tauto|]. intros H. split; auto.
  rewrite in_nbrs_keys. apply in_flat_map. exists (nk (g_dir g) v n). split.
  - apply has_interaction_key in H. assumption.
  - apply in_of_nk.
Qed.
Lemma preds_at_NoDup g n t : InvAdj g -> NoDup (preds_at g n t).
Proof. intros H. unfold preds_at. apply NoDup_filter. apply in_nbrs_NoDup. assumption. Qed.
Lemma neighbors_known g n t : has_node_flat g n = true -> neighbors g n t = Some (nbrs_at g n t).
Proof. intros H. unfold neighbors. rewrite H. reflexivity. Qed.
Lemma predecessors_known g n t : has_node_flat g n = true -> predecessors g n t = Some (preds_at g n t).
Proof. intros H. unfold predecessors. rewrite H. reflexivity. Qed.

(** ** live nodes at t *)
Lemma nodes_at_filter g t : nodes_at g t = filter (fun n => 0 <? deg1 g (Some t) n) (node_ids g).
Proof.
  unfold nodes_at, degree_dict, nbunch_nodes. simpl.
  induction (node_ids g) as [|a r IH]; simpl; [reflexivity|].
  destruct (0 <? deg1 g (Some t) a); simpl; rewrite IH; reflexivity.
Qed.

Lemma length_pos_ex {A} (l : list A) : 0 < Z.of_nat (length l) <-> exists x, In x l.
Proof.
  destruct l as [|a r]; simpl.
  - split; [lia|intros (x & [])].
  - split; [intros _; exists a; auto|lia].
Qed.

Lemma deg1_pos g t n : InvAdj g ->
  (0 < deg1 g t n <-> exists v, has_interaction g n v t = true \/ has_interaction g v n t = true).
Proof.
  intros HI. unfold deg1. destruct (g_dir g) eqn:Hd.
  - split.
    + intros H.
      assert (H' : 0 < Z.of_nat (length (nbrs_at g n t)) \/ 0 < Z.of_nat (length (preds_at g n t))) by lia.
      destruct H' as [H'|H']; apply length_pos_ex in H'; destruct H' as (v & Hv); exists v.
      * left. apply nbrs_at_spec in Hv; assumption.
      * right. apply preds_at_spec in Hv; assumption.
    + intros (v & [Hv|Hv]).
      * apply (nbrs_at_spec g n v t HI) in Hv.
        assert (0 < Z.of_nat (length (nbrs_at g n t))) by (apply length_pos_ex; eauto). lia.
      * apply (preds_at_spec g n v t HI) in Hv.
        assert (0 < Z.of_nat (length (preds_at g n t))) by (apply length_pos_ex; eauto). lia.
  - rewrite length_pos_ex. split.
    + intros (v & Hv). exists v. left. apply nbrs_at_spec in Hv; assumption.
    + intros (v & [Hv|Hv]); exists v; apply nbrs_at_spec; auto.
      rewrite has_interaction_sym; assumption.
Qed.

Lemma nodes_at_spec g n t : InvAdj g ->
  (In n (nodes_at g t) <-> exists v, has_interaction g n v (Some t) = true \/ has_interaction g v n (Some t) = true).
Proof.
  intros HI. rewrite nodes_at_filter, filter_In. rewrite <- (deg1_pos g (Some t) n HI). split.
  - intros (_ & H). lia.
  - intros H. split; [|lia]. apply (deg1_pos g (Some t) n HI) in H. destruct H as (v & [H|H]).
    + apply (has_interaction_nodes g n v _ HI H).
    + apply (has_interaction_nodes g v n _ HI H).
Qed.
Lemma nodes_at_NoDup g t : InvAdj g -> NoDup (nodes_at g t).
Proof. intros (_ & Hn & _). rewrite nodes_at_filter. apply NoDup_filter. assumption. Qed.
Lemma has_node_spec g n t : InvAdj g -> (has_node g n (Some t) = true <-> In n (nodes_at g t)).
Proof.
  intros _. rewrite nodes_at_filter, filter_In, <- has_node_flat_In. unfold has_node.
  destruct (has_node_flat g n); split; intros H; try tauto; try discriminate;
    try (destruct H; discriminate).
Qed.
Lemma number_of_nodes_spec g t : number_of_nodes g (Some t) = Z.of_nat (length (nodes_at g t)).
Proof. reflexivity. Qed.

(** ** out / in interactions *)
Lemma out_interactions_spec g u v t : InvAdj g ->
  (In (u, v) (out_interactions g None t) <-> has_interaction g u v t = true).
Proof.
  intros HI. unfold out_interactions, nbunch_nodes. rewrite in_flat_map. split.
  - intros (n & Hn & H). apply in_map_iff in H. destruct H as (x & E & Hx). inversion E; subst.
    apply nbrs_at_spec in Hx; assumption.
  - intros H. exists u. split; [apply (has_interaction_nodes g u v t HI H)|].
    apply in_map. apply nbrs_at_spec; assumption.
Qed.
Lemma out_interactions_NoDup g t : InvAdj g -> NoDup (out_interactions g None t).
Proof.
  intros HI. unfold out_interactions, nbunch_nodes. apply NoDup_flat_map_intro.
  - apply HI.
  - intros n _. apply NoDup_map_inj; [intros x y E; inversion E; auto|]. apply nbrs_at_NoDup; assumption.
  - intros x y [a b] _ _ H1 H2. apply in_map_iff in H1. apply in_map_iff in H2.
    destruct H1 as (? & E1 & _). destruct H2 as (? & E2 & _). congruence.
Qed.
Lemma in_interactions_spec g u v t : InvAdj g ->
  (In (u, v) (in_interactions g None t) <-> has_interaction g u v t = true).
Proof.
  intros HI. unfold in_interactions, nbunch_nodes. rewrite in_flat_map. split.
  - intros (n & Hn & H). apply in_map_iff in H. destruct H as (x & E & Hx). inversion E; subst.
    apply preds_at_spec in Hx; assumption.
  - intros H. exists v. split; [apply (has_interaction_nodes g u v t HI H)|].
    apply (in_map (fun x => (x, v))). apply preds_at_spec; assumption.
Qed.
Lemma in_interactions_NoDup g t : InvAdj g -> NoDup (in_interactions g None t).
Proof.
  intros HI. unfold in_interactions, nbunch_nodes. apply NoDup_flat_map_intro.
  - apply HI.
  - intros n _. apply NoDup_map_inj; [intros x y E; inversion E; auto|]. apply preds_at_NoDup; assumption.
  - intros x y [a b] _ _ H1 H2. apply in_map_iff in H1. apply in_map_iff in H2.
    destruct H1 as (? & E1 & _). destruct H2 as (? & E2 & _). congruence.
Qed.

(** ** interactions() with its [seen] filter *)
Lemma inter_loop_In g t todo : forall seen n v,
  In (n, v) (inter_loop g t todo seen) <->
  exists l1 l2, todo = l1 ++ n :: l2 /\ In v (nbrs_at g n t) /\ ~ In v seen /\ ~ In v l1.
Proof.
  induction todo as [|a r IH]; intros seen n v; simpl.
  - split; [tauto|]. intros (l1 & l2 & E & _). destruct l1; discriminate.
  - rewrite in_app_iff, in_map_iff. split.
    + intros [(x & E & Hx)|H].
      * inversion E; subst. apply filter_In in Hx. destruct Hx as (Hx & Hm).
        exists [], r. repeat split; auto.
        intros Hin. apply memZ_In in Hin. rewrite Hin in Hm. discriminate.
      * apply IH in H. destruct H as (l1 & l2 & E & Hv & Hs & Hl). exists (a :: l1), l2. subst.
        repeat split; auto; simpl in *; tauto.
    + intros (l1 & l2 & E & Hv & Hs & Hl). destruct l1 as [|b l1]; simpl in E; inversion E; subst.
      * left. exists v. split; auto. apply filter_In. split; auto.
        destruct (memZ v seen) eqn:Em; auto. apply memZ_In in Em. contradiction.
      * right. apply IH. exists l1, l2. repeat split; auto; simpl in *; tauto.
Qed.

Lemma interactions_sound g nb u v t : InvAdj g -> In (u, v) (interactions g nb t) -> has_interaction g u v t = true.
Proof.
  intros HI H. unfold interactions in H. apply inter_loop_In in H. destruct H as (l1 & l2 & _ & Hv & _).
  apply nbrs_at_spec in Hv; assumption.
Qed.

Lemma interactions_undirected_complete g u v t : InvAdj g -> g_dir g = false ->
  has_interaction g u v t = true -> In (u, v) (interactions g None t) \/ In (v, u) (interactions g None t).
Proof.
  intros HI Hd H. pose proof HI as (_ & Hnd & _).
  destruct (has_interaction_nodes g u v t HI H) as (Hu & Hv).
  unfold interactions, nbunch_nodes.
  destruct (in_split _ _ Hu) as (l1 & l2 & E).
  destruct (in_dec Z.eq_dec v l1) as [Hin|Hni].
  - right. destruct (in_split _ _ Hin) as (m1 & m2 & E').
    apply inter_loop_In. exists m1, (m2 ++ u :: l2). split; [|split; [|split]].
    + rewrite E, E', <- app_assoc. reflexivity.
    + apply nbrs_at_spec; auto. rewrite has_interaction_sym; assumption.
    + intros [].
    + intros Hum. rewrite E in Hnd. apply NoDup_remove_2 in Hnd. apply Hnd.
      apply in_or_app. left. rewrite E'. apply in_or_app. auto.
  - left. apply inter_loop_In. exists l1, l2. split; [assumption|]. split; [|split; auto].
    apply nbrs_at_spec; auto.
Qed.

Lemma interactions_undirected_once g u v t : InvAdj g -> g_dir g = false -> u <> v ->
  In (u, v) (interactions g None t) -> ~ In (v, u) (interactions g None t).
Proof.
  intros _ _ Hne H1 H2. unfold interactions in *. apply inter_loop_In in H1. apply inter_loop_In in H2.
  destruct H1 as (l1 & l2 & E1 & _ & _ & Hv). destruct H2 as (m1 & m2 & E2 & _ & _ & Hu).
  apply Hne. apply (split_unique u v l1 l2 m1 m2); auto. congruence.
Qed.

Lemma inter_loop_NoDup g t todo : InvAdj g -> forall seen, NoDup todo -> NoDup (inter_loop g t todo seen).
Proof.
  intros HI. induction todo as [|a r IH]; intros seen Hnd; simpl; [constructor|].
  inversion Hnd as [|? ? Hni Hr]; subst. apply NoDup_app_intro.
  - apply NoDup_map_inj; [intros x y E; inversion E; auto|]. apply NoDup_filter, nbrs_at_NoDup. assumption.
  - apply IH; assumption.
  - intros [x y] H1 H2. apply in_map_iff in H1. destruct H1 as (z & E & _). inversion E; subst.
    apply inter_loop_In in H2. destruct H2 as (l1 & l2 & E' & _). apply Hni. rewrite E'.
    apply in_or_app. right. left. reflexivity.
Qed.

Lemma interactions_NoDup g t : InvAdj g -> NoDup (interactions g None t).
Proof. intros HI. unfold interactions, nbunch_nodes. apply inter_loop_NoDup; auto. apply HI. Qed.

(* nbunch restricts to the listed nodes that are in the graph; unknown nodes are ignored *)
Lemma out_interactions_nbunch g nb u v t : InvAdj g ->
  (In (u, v) (out_interactions g (Some nb) t) <-> In u nb /\ has_node_flat g u = true /\ has_interaction g u v t = true).
Proof.
  intros HI. unfold out_interactions, nbunch_nodes. rewrite in_flat_map. split.
  - intros (n & Hn & H). apply in_map_iff in H. destruct H as (x & E & Hx). inversion E; subst.
    apply filter_In in Hn. destruct Hn. apply nbrs_at_spec in Hx; auto.
  - intros (H1 & H2 & H3). exists u. split; [apply filter_In; auto|].
    apply in_map. apply nbrs_at_spec; assumption.
Qed.

(** ** degree *)
Lemma deg_directed g n t : g_dir g = true -> deg1 g t n = Z.of_nat (length (nbrs_at g n t)) + Z.of_nat (length (preds_at g n t)).
Proof. intros H. unfold deg1. rewrite H. reflexivity. Qed.
Lemma deg_undirected g n t : g_dir g = false -> deg1 g t n = Z.of_nat (length (nbrs_at g n t)).
Proof. intros H. unfold deg1. rewrite H. reflexivity. Qed.

(** ** the static edge set is the presence relation on keys *)
Lemma static_edges_spec g u v t :
  In (nk (g_dir g) u v) (static_edges g t) <-> has_interaction g u v t = true.
Proof.
  unfold static_edges, has_interaction. rewrite filter_In. split; [tauto|].
  intros H. split; auto. apply key_present_key in H. assumption.
Qed.
Lemma static_edges_NoDup g t : InvAdj g -> NoDup (static_edges g t).
Proof. intros (Hk & _). unfold static_edges. apply NoDup_filter. assumption. Qed.
