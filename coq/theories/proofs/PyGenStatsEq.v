(** PyGenStatsEq: the definitions GENERATED from the Python source by tools/py2gallina_stats.py
    (gen/PyGenStats.v) are equal to the hand-written model functions of Stats.v / Graph.v / Annotate.v.

    Shape of every proof: unfold, reduce the [let]s ([py_red]), replace each [fold_left] by its closed form with
    a GENERIC lemma whose only hypothesis is a pointwise description of the loop body ([fold_sum1], [fold_sum2],
    [fold_filter1], [fold_filter2]; the hypothesis is discharged by case analysis + [lia], tactic [py_side]),
    finish with [reflexivity] / [lia].  The text of the generated loop bodies is never quoted here, so cosmetic
    differences of the generated text (order of the state variables, [x + 1] / [1 + x], extra [let]s) do not
    break the proofs, while a change of what a loop computes does.

    [InvSnap g] is assumed only where Python builds a [set] out of the snapshot ids (its second component,
    [NoDup (snap_keys g)], makes [dedupZ] the identity); [NoDup l] for [compact_timeslot] (see the end). *)
From DynVerif Require Import Base Graph Derived Stats Annotate PySupportStats.
From DynVerif.gen Require Import PyGenStats.
From DynVerif.proofs Require Import SnapInv StatsFacts AnnotateFacts.

(** * tactics *)
Ltac py_red := cbv beta iota zeta.
(** pointwise description of a loop body *)
Ltac py_side :=
  intros; py_red; unfold bz1, both_at, either_at; py_red;
  repeat match goal with |- context [if ?c then _ else _] => destruct c end;
  py_red; try reflexivity; try lia; repeat (f_equal; try lia).

(** * generic closed forms of accumulator loops *)
Lemma fold_sum1 {A} (step : Z -> A -> Z) (f : A -> Z) :
  (forall a x, step a x = a + f x) ->
  forall l a0, fold_left step l a0 = a0 + sumZ (map f l).
Proof.
  intros H l. induction l as [|x r IH]; intros a0; simpl fold_left; simpl map.
  - simpl. lia.
  - rewrite sumZ_cons, IH, H. lia.
Qed.

Lemma fold_sum2 {A} (step : Z * Z -> A -> Z * Z) (f1 f2 : A -> Z) :
  (forall a b x, step (a, b) x = (a + f1 x, b + f2 x)) ->
  forall l a b, fold_left step l (a, b) = (a + sumZ (map f1 l), b + sumZ (map f2 l)).
Proof.
  intros H l. induction l as [|x r IH]; intros a b; simpl fold_left; simpl map.
  - simpl. f_equal; lia.
  - rewrite !sumZ_cons, H, IH. f_equal; lia.
Qed.

Lemma fold_filter1 {A} (step : list A -> A -> list A) (p : A -> bool) :
  (forall acc x, step acc x = if p x then acc ++ [x] else acc) ->
  forall l acc, fold_left step l acc = acc ++ filter p l.
Proof.
  intros H l. induction l as [|x r IH]; intros acc; simpl.
  - rewrite app_nil_r. reflexivity.
  - rewrite IH, H. destruct (p x); [rewrite <- app_assoc|]; reflexivity.
Qed.

Lemma fold_filter2 {A} (step : list A * list A -> A -> list A * list A) (p q : A -> bool) :
  (forall a b x, step (a, b) x = (if p x then a ++ [x] else a, if q x then b ++ [x] else b)) ->
  forall l a b, fold_left step l (a, b) = (a ++ filter p l, b ++ filter q l).
Proof.
  intros H l. induction l as [|x r IH]; intros a b; simpl.
  - rewrite !app_nil_r. reflexivity.
  - rewrite H, IH. destruct (p x), (q x); rewrite <- ?app_assoc; reflexivity.
Qed.

(** replace SOME loop of the goal (whichever the pointwise description fits) by its closed form; for the loops
    with two state variables both orders of the state tuple are tried (the order is the order of first assignment
    in the Python text, a cosmetic matter) *)
Ltac use_sum1 f :=
  match goal with |- context [fold_left ?s ?l ?a] => rewrite (fold_sum1 s f) by py_side end.
Ltac use_sum2_by f1 f2 tac :=
  match goal with |- context [fold_left ?s ?l (?a, ?b)] =>
    first [rewrite (fold_sum2 s f1 f2) by tac | rewrite (fold_sum2 s f2 f1) by tac] end.
Ltac use_sum2 f1 f2 := use_sum2_by f1 f2 py_side.
Ltac use_filter1 p :=
  match goal with |- context [fold_left ?s ?l ?a] => rewrite (fold_filter1 s p) by py_side end.
Ltac use_filter2 p q :=
  match goal with |- context [fold_left ?s ?l (?a, ?b)] =>
    first [rewrite (fold_filter2 s p q) by py_side | rewrite (fold_filter2 s q p) by py_side] end.

Lemma count_if_sum {A} (f : A -> bool) l : count_if f l = sumZ (map (fun x => if f x then 1 else 0) l).
Proof. reflexivity. Qed.

(** * sets as duplicate-free lists *)
Lemma dedup_from_id l : forall seen, (forall x, In x l -> ~ In x seen) -> NoDup l -> dedup_from seen l = l.
Proof.
  induction l as [|x r IH]; intros seen Hd Hn; simpl; [reflexivity|].
  inversion Hn as [|? ? Hx Hr]; subst.
  destruct (memZ x seen) eqn:E.
  - apply memZ_In in E. exfalso. apply (Hd x); [left; reflexivity|assumption].
  - f_equal. apply IH; [|assumption].
    intros y Hy [H|H]; [subst; contradiction|]. apply (Hd y); [right; assumption|assumption].
Qed.

Lemma dedupZ_id l : NoDup l -> dedupZ l = l.
Proof. intros H. apply dedup_from_id; [intros x _ []|assumption]. Qed.

Lemma filter_filter' {A} (f p : A -> bool) l : filter f (filter p l) = filter (fun x => p x && f x) l.
Proof.
  induction l as [|x r IH]; simpl; [reflexivity|].
  destruct (p x); simpl; [destruct (f x)|]; rewrite IH; reflexivity.
Qed.

Lemma memZ_filter (q : Z -> bool) K x : In x K -> memZ x (filter q K) = q x.
Proof.
  intros Hx. destruct (q x) eqn:E.
  - apply memZ_In, filter_In. split; assumption.
  - destruct (memZ x (filter q K)) eqn:E'; [|reflexivity].
    apply memZ_In, filter_In in E'. destruct E' as [_ E']. congruence.
Qed.

Lemma set_inter_filter (p q : Z -> bool) K :
  set_inter (filter p K) (filter q K) = filter (fun x => p x && q x) K.
Proof.
  unfold set_inter. rewrite filter_filter'. apply filter_ext_in.
  intros x Hx. rewrite memZ_filter by assumption. reflexivity.
Qed.

Lemma set_union_filter (p q : Z -> bool) K :
  set_union (filter p K) (filter q K) = filter p K ++ filter (fun x => q x && negb (p x)) K.
Proof.
  unfold set_union. f_equal. rewrite filter_filter'. apply filter_ext_in.
  intros x Hx. rewrite memZ_filter by assumption. reflexivity.
Qed.

Lemma union_count {A} (p q : A -> bool) K :
  Z.of_nat (length (filter p K ++ filter (fun x => q x && negb (p x)) K)) = count_if (fun x => p x || q x) K.
Proof.
  rewrite app_length, Nat2Z.inj_add, <- !count_if_length.
  symmetry. apply count_if_add. intros x _. destruct (p x), (q x); reflexivity.
Qed.

Lemma inv_snap_nodup g : InvSnap g -> NoDup (snap_keys g).
Proof. intros H. apply H. Qed.

(** * the twelve equalities *)

Lemma py_temporal_snapshots_ids_eq g : py_temporal_snapshots_ids g = snapshot_ids g.
Proof. reflexivity. Qed.
Print Assumptions py_temporal_snapshots_ids_eq.

(** without the invariant: set(pres) of the filtered ids *)
Lemma py_node_presence_raw g u : py_node_presence g u = dedupZ (node_presence g u).
Proof.
  unfold py_node_presence, node_presence. py_red.
  use_filter1 (fun t => has_node g u (Some t)).
  reflexivity.
Qed.

Lemma py_node_presence_eq g u : InvSnap g -> py_node_presence g u = node_presence g u.
Proof.
  intros H. rewrite py_node_presence_raw. apply dedupZ_id.
  unfold node_presence. apply NoDup_filter, inv_snap_nodup, H.
Qed.
Print Assumptions py_node_presence_eq.

Lemma py_avg_number_of_nodes_eq g : py_avg_number_of_nodes g = avg_number_of_nodes g.
Proof. reflexivity. Qed.
Print Assumptions py_avg_number_of_nodes_eq.

Lemma py_coverage_eq g : py_coverage g = coverage g.
Proof.
  unfold py_coverage, coverage. py_red.
  use_sum1 (fun t => number_of_nodes g (Some t)).
  f_equal; lia.
Qed.
Print Assumptions py_coverage_eq.

Lemma py_node_contribution_eq g u : py_node_contribution g u = node_contribution g u.
Proof.
  unfold py_node_contribution, node_contribution. py_red.
  use_sum1 (fun t => bz1 (has_node g u (Some t))).
  unfold count_if. f_equal; lia.
Qed.
Print Assumptions py_node_contribution_eq.

Lemma py_edge_contribution_eq g u v : py_edge_contribution g u v = edge_contribution g u v.
Proof.
  unfold py_edge_contribution, edge_contribution.
  destruct (aget peqb (nk (g_dir g) u v) (g_edges g)) as [tl|]; [|reflexivity]. py_red.
  use_sum1 (fun r : Z * Z => snd r - fst r + 1).
  do 2 f_equal; lia.
Qed.
Print Assumptions py_edge_contribution_eq.

Lemma py_node_pair_uniformity_eq g u v :
  InvSnap g -> py_node_pair_uniformity g u v = node_pair_uniformity g u v.
Proof.
  intros H. pose proof (inv_snap_nodup g H) as Hk.
  unfold py_node_pair_uniformity, node_pair_uniformity. py_red.
  use_filter2 (fun t => has_node g u (Some t)) (fun t => has_node g v (Some t)).
  py_red. rewrite !app_nil_l.
  rewrite !dedupZ_id by (apply NoDup_filter; assumption).
  rewrite set_inter_filter, set_union_filter, union_count, <- count_if_length.
  f_equal; apply count_if_ext; intros t _; unfold both_at, either_at;
    destruct (has_node g u (Some t)), (has_node g v (Some t)); reflexivity.
Qed.
Print Assumptions py_node_pair_uniformity_eq.

(** nested loops: the closed form of the inner loop is the pointwise description of the outer one *)
Lemma py_uniformity_eq g : py_uniformity g = uniformity g.
Proof.
  unfold py_uniformity, uniformity, node_pairs. py_red.
  use_sum2_by (fun p => count_if (both_at g (fst p) (snd p)) (snap_keys g))
              (fun p => count_if (either_at g (fst p) (snd p)) (snap_keys g))
              ltac:(intros ? ? [x y]; py_red;
                    use_sum2 (fun t => bz1 (both_at g x y t)) (fun t => bz1 (either_at g x y t)); reflexivity).
  py_red. f_equal; lia.
Qed.
Print Assumptions py_uniformity_eq.

Lemma py_density_eq g : py_density g = st_density g.
Proof.
  unfold py_density, st_density, node_pairs. py_red.
  use_sum2_by (fun p => count_if (fun t => has_interaction g (fst p) (snd p) (Some t)) (snap_keys g))
              (fun p => count_if (both_at g (fst p) (snd p)) (snap_keys g))
              ltac:(intros ? ? [x y]; py_red;
                    use_sum2 (fun t => bz1 (has_interaction g x y (Some t))) (fun t => bz1 (both_at g x y t));
                    reflexivity).
  py_red. f_equal; lia.
Qed.
Print Assumptions py_density_eq.

Lemma py_pair_density_eq g u v : py_pair_density g u v = pair_density g u v.
Proof.
  unfold py_pair_density, pair_density. py_red.
  use_sum2 (fun t => bz1 (both_at g u v t)) (fun t => bz1 (has_interaction g u v (Some t))).
  py_red. rewrite !Z.add_0_l. reflexivity.
Qed.
Print Assumptions py_pair_density_eq.

(** Python intersects the two presence sets; the model filters one by membership in the other: the same list *)
Lemma py_node_density_eq g u : InvSnap g -> py_node_density g u = node_density g u.
Proof.
  intros H. unfold py_node_density, node_density. py_red.
  use_sum1 (fun t => if has_node g u (Some t) then deg1 g (Some t) u else 0).
  use_sum1 (fun w => Z.of_nat (length (set_inter (py_node_presence g w) (py_node_presence g u)))).
  rewrite (map_ext _ (fun w => Z.of_nat (length (filter (fun t => memZ t (node_presence g u)) (node_presence g w)))))
    by (intros w; rewrite !py_node_presence_eq by assumption; reflexivity).
  rewrite !Z.add_0_l. reflexivity.
Qed.
Print Assumptions py_node_density_eq.

(** * compact_timeslot *)
Lemma aset_fresh (k v : Z) (d : list (Z * Z)) : ~ In k (map fst d) -> aset Z.eqb k v d = d ++ [(k, v)].
Proof.
  induction d as [|[k' v'] r IH]; simpl; intros Hn; [reflexivity|].
  destruct (k =? k') eqn:E.
  - exfalso. apply Hn. left. lia.
  - rewrite IH; [reflexivity|]. intros Hi. apply Hn. right. assumption.
Qed.

Lemma dict_of_enumerate (step : list (Z * Z) -> Z * Z -> list (Z * Z)) :
  (forall d i x, step d (i, x) = aset Z.eqb x i d) ->
  forall s a d, NoDup s -> (forall x, In x s -> ~ In x (map fst d)) ->
    fold_left step (combine (zrange a (length s)) s) d = d ++ combine s (zrange a (length s)).
Proof.
  intros H s. induction s as [|x r IH]; intros a d Hn Hd; simpl.
  - rewrite app_nil_r. reflexivity.
  - inversion Hn as [|? ? Hx Hr]; subst.
    rewrite H, aset_fresh by (apply Hd; left; reflexivity).
    rewrite IH; [rewrite <- app_assoc; reflexivity|assumption|].
    intros y Hy. rewrite map_app, in_app_iff. simpl. intros [Hi|[Hi|[]]].
    + apply (Hd y); [right; assumption|assumption].
    + subst. contradiction.
Qed.

(** The dict comprehension keeps ONE entry per value (the last index wins) while the model's association list
    keeps one entry per position: exact equality holds for duplicate-free inputs only (every caller passes the
    snapshot ids of a graph), and fails otherwise: *)
Lemma py_compact_timeslot_eq l : NoDup l -> py_compact_timeslot l = Annotate.compact_timeslot l.
Proof.
  intros H. unfold py_compact_timeslot, Annotate.compact_timeslot, enumerateZ. py_red.
  rewrite (dict_of_enumerate _);
    [ rewrite sortZ_length; reflexivity | intros; reflexivity | apply sortZ_NoDup; assumption | intros ? ? [] ].
Qed.
Print Assumptions py_compact_timeslot_eq.

Example py_compact_timeslot_dup : py_compact_timeslot [1; 1] <> Annotate.compact_timeslot [1; 1].
Proof. vm_compute. discriminate. Qed.
Print Assumptions py_compact_timeslot_dup.
