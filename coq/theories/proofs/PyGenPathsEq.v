(** PyGenPathsEq: the definitions GENERATED from the Python source by tools/py2gallina_paths.py
    (gen/PyGenPaths.v) are equal to the hand-written model functions of Annotate.v.

    Shape of the proof of [py_annotate_paths_eq]:
      1. the single pass: the generated loop state (three running minima of type [option Z], three dict entries
         of type [option (list path)]) is an ENCODING [enc6] of the three states of the model's [sel_step]
         ((None, _) <-> (None, None); (Some b, l) <-> (Some b, Some l)).  The generic lemma [fold_enc] needs only
         the pointwise fact "one turn of the generated body on an encoded state = the encoding of one [sel_step]
         per metric", discharged by case analysis ([py_step]); the text of the loop body is never quoted.  The six
         orders in which the three (minimum, entry) pairs may appear in the state tuple are tried (the order is
         the order of first assignment in the Python text, a cosmetic matter);
      2. the two dictionary-based selections: the generic lemma [py_min_among] whose only hypothesis is
         "the comprehension stores [m p] under key [p]" gives
         [filter (d[x] == min(d.values())) (keys d) = min_among m l] for EVERY l - duplicates included: the value
         is a function of the key, so "last value wins" and "first value wins" agree, and the keys are the first
         occurrences ([dedup]);
      3. [l <> []] makes every running minimum [Some _] ([sel_inv]), hence every entry [Some _].
    On [[]] Python raises TypeError (iteration over None); the generated function returns
    [mkPyAnn None None None (Some []) (Some [])] ([py_annotate_paths_nil]), outside the property. *)
From DynVerif Require Import Base Annotate.
From DynVerif Require Import PySupportPaths.
From DynVerif Require Import PyGenPaths.
From DynVerif.proofs Require Import AnnotateFacts.

Ltac py_red := cbv beta iota zeta.

(** * path_length, path_duration *)

Lemma py_path_length_eq p : py_path_length p = path_length p.
Proof. reflexivity. Qed.
Print Assumptions py_path_length_eq.

Lemma py_path_duration_eq p : py_path_duration p = path_duration p.
Proof. unfold py_path_duration, path_duration, path_last, path_first. py_red. first [reflexivity | lia]. Qed.
Print Assumptions py_path_duration_eq.

(** * the single pass *)

Definition selst := (option Z * list path)%type.

(** Python side of one model state: the running minimum, and the entry (None until the first path) *)
Definition enc_entry (st : selst) : option (list path) :=
  match fst st with None => None | Some _ => Some (snd st) end.
Definition enc_of (a b c : selst) :=
  (fst a, enc_entry a, fst b, enc_entry b, fst c, enc_entry c).
Definition enc_abc (t : selst * selst * selst) := let '(a, b, c) := t in enc_of a b c.
Definition enc_acb (t : selst * selst * selst) := let '(a, b, c) := t in enc_of a c b.
Definition enc_bac (t : selst * selst * selst) := let '(a, b, c) := t in enc_of b a c.
Definition enc_bca (t : selst * selst * selst) := let '(a, b, c) := t in enc_of b c a.
Definition enc_cab (t : selst * selst * selst) := let '(a, b, c) := t in enc_of c a b.
Definition enc_cba (t : selst * selst * selst) := let '(a, b, c) := t in enc_of c b a.

Definition step3 (m1 m2 m3 : path -> Z) (t : selst * selst * selst) (p : path) : selst * selst * selst :=
  let '(a, b, c) := t in (sel_step m1 a p, sel_step m2 b p, sel_step m3 c p).

Lemma fold_enc {S T A} (enc : T -> S) (step : S -> A -> S) (step' : T -> A -> T) :
  (forall t x, step (enc t) x = enc (step' t x)) ->
  forall l t s, s = enc t -> fold_left step l s = enc (fold_left step' l t).
Proof.
  intros H l. induction l as [|x r IH]; intros t s ->; simpl; [reflexivity|].
  apply IH. apply H.
Qed.

Lemma fold_step3 m1 m2 m3 l : forall a b c,
  fold_left (step3 m1 m2 m3) l (a, b, c) =
  (fold_left (sel_step m1) l a, fold_left (sel_step m2) l b, fold_left (sel_step m3) l c).
Proof. induction l as [|x r IH]; intros a b c; simpl; [reflexivity|apply IH]. Qed.

Lemma sel_some m l : l <> [] -> exists mv, fold_left (sel_step m) l (None, []) = (Some mv, select m l).
Proof.
  intros Hne. destruct (sel_inv m l) as [[-> _]|(mv & E & _)]; [congruence|].
  exists mv. unfold select. rewrite E. reflexivity.
Qed.

(** one turn of the generated loop body on an encoded state = the encoding of one [sel_step] per metric *)
Ltac py_step :=
  intros [[[o1 l1] [o2 l2]] [o3 l3]] x;
  unfold enc_abc, enc_acb, enc_bac, enc_bca, enc_cab, enc_cba, enc_of, enc_entry, step3, sel_step;
  destruct o1, o2, o3; cbn [fst snd]; py_red;
  rewrite ?py_path_length_eq, ?py_path_duration_eq;
  change (hop_time (last x (0, 0, 0))) with (path_last x);
  change (Z.of_nat (length x)) with (path_length x);
  cbn [opt_append];
  repeat match goal with |- context [if ?c then _ else _] =>
           match type of c with bool => destruct c end end;
  reflexivity.

Definition sel0 : selst * selst * selst := ((None, []), (None, []), (None, [])).

(** replace the loop of the goal by the encoding of the three model passes *)
Ltac use_enc e :=
  match goal with |- context [fold_left ?s ?l ?i] =>
    rewrite (fold_enc e s (step3 path_length path_duration path_last) ltac:(py_step) l sel0 i eq_refl)
  end.
Ltac use_sel3 :=
  first [use_enc enc_abc | use_enc enc_acb | use_enc enc_bac | use_enc enc_bca | use_enc enc_cab | use_enc enc_cba].

(** * the dictionary-based selections *)

Lemma path_eqb_refl p : path_eqb p p = true.
Proof. apply path_eqb_eq. reflexivity. Qed.

Definition kv (m : path -> Z) (p : path) : path * Z := (p, m p).

Lemma aset_present m p ks : In p ks -> aset path_eqb p (m p) (map (kv m) ks) = map (kv m) ks.
Proof.
  induction ks as [|a ks IH]; simpl; intros Hin; [destruct Hin|].
  destruct (path_eqb p a) eqn:E.
  - apply path_eqb_eq in E. subst. reflexivity.
  - destruct Hin as [->|Hin]; [rewrite path_eqb_refl in E; discriminate|].
    rewrite IH by assumption. reflexivity.
Qed.

Lemma aset_absent m p v ks : ~ In p ks -> aset path_eqb p v (map (kv m) ks) = map (kv m) ks ++ [(p, v)].
Proof.
  induction ks as [|a ks IH]; simpl; intros Hn; [reflexivity|].
  destruct (path_eqb p a) eqn:E.
  - apply path_eqb_eq in E. subst. exfalso. apply Hn. left. reflexivity.
  - rewrite IH; [reflexivity|]. intros Hin. apply Hn. right. assumption.
Qed.

(** [dedup] depends on [seen] through membership only *)
Lemma dedup_seen_ext l : forall s s', (forall x, In x s <-> In x s') -> dedup l s = dedup l s'.
Proof.
  induction l as [|a l IH]; intros s s' H; simpl; [reflexivity|].
  assert (E : existsb (path_eqb a) s = existsb (path_eqb a) s').
  { destruct (existsb (path_eqb a) s) eqn:E1, (existsb (path_eqb a) s') eqn:E2; try reflexivity.
    - apply path_mem_In, H, path_mem_In in E1. congruence.
    - apply path_mem_In, H, path_mem_In in E2. congruence. }
  rewrite E. destruct (existsb (path_eqb a) s').
  - apply IH. assumption.
  - f_equal. apply IH. intros x. simpl. rewrite H. tauto.
Qed.

(** {tuple(p): m p for p in l}: the first occurrences, in order, each with its metric (the value stored for a key
    is a function of the key, so re-storing it changes nothing) *)
Lemma dict_comp_gen (step : pdict -> path -> pdict) (m : path -> Z) :
  (forall d p, step d p = pdict_set d p (m p)) ->
  forall l ks, fold_left step l (map (kv m) ks) = map (kv m) (ks ++ dedup l ks).
Proof.
  intros H l. induction l as [|a l IH]; intros ks; simpl.
  - rewrite app_nil_r. reflexivity.
  - rewrite H. unfold pdict_set. destruct (existsb (path_eqb a) ks) eqn:E.
    + apply path_mem_In in E. rewrite aset_present by assumption. apply IH.
    + assert (Hn : ~ In a ks) by (intros Hin; apply path_mem_In in Hin; congruence).
      rewrite aset_absent by assumption.
      change [(a, m a)] with (map (kv m) [a]). rewrite <- map_app, IH, <- app_assoc. simpl.
      rewrite (dedup_seen_ext l (ks ++ [a]) (a :: ks)); [reflexivity|].
      intros x. rewrite in_app_iff. simpl. tauto.
Qed.

Lemma dict_comp (step : pdict -> path -> pdict) (m : path -> Z) :
  (forall d p, step d p = pdict_set d p (m p)) ->
  forall l, fold_left step l pdict_empty = map (kv m) (dedup l []).
Proof. intros H l. apply (dict_comp_gen step m H l []). Qed.

Lemma pdict_keys_kv m ks : pdict_keys (map (kv m) ks) = ks.
Proof. unfold pdict_keys. rewrite map_map. simpl. apply map_id. Qed.

Lemma pdict_values_kv m ks : pdict_values (map (kv m) ks) = map m ks.
Proof. unfold pdict_values. rewrite map_map. reflexivity. Qed.

Lemma pdict_get_kv m ks x : In x ks -> pdict_get (map (kv m) ks) x = m x.
Proof.
  unfold pdict_get. induction ks as [|a ks IH]; simpl; intros Hin; [destruct Hin|].
  destruct (path_eqb x a) eqn:E.
  - apply path_eqb_eq in E. subst. reflexivity.
  - destruct Hin as [->|Hin]; [rewrite path_eqb_refl in E; discriminate|]. apply IH. assumption.
Qed.

(** Python's min of a non-empty list = the model's [minZ_list] *)
Lemma fold_min_assoc r : forall a b, fold_left Z.min r (Z.min a b) = Z.min a (fold_left Z.min r b).
Proof.
  induction r as [|y r IH]; intros a b; simpl; [reflexivity|].
  rewrite <- Z.min_assoc. apply IH.
Qed.

Lemma minZ_list_fold r : forall x, Z.min x (minZ_list x r) = fold_left Z.min r x.
Proof.
  induction r as [|y r IH]; intros x; simpl; [apply Z.min_id|].
  rewrite IH, fold_min_assoc. reflexivity.
Qed.

(** d = {tuple(p): m p for p in l};  [x for x in d if d[x] == min(d.values())]  =  min_among m l,
    for every l (duplicates included; both sides are [] on []) *)
Lemma py_min_among (step : pdict -> path -> pdict) (m : path -> Z) l :
  (forall d p, step d p = pdict_set d p (m p)) ->
  filter (fun x => pdict_get (fold_left step l pdict_empty) x
                   =? minZ_of (pdict_values (fold_left step l pdict_empty)))
         (pdict_keys (fold_left step l pdict_empty))
  = min_among m l.
Proof.
  intros H. rewrite (dict_comp step m H l). unfold min_among.
  rewrite pdict_keys_kv, pdict_values_kv.
  destruct (dedup l []) as [|p0 r]; [reflexivity|].
  apply filter_ext_in. intros x Hx. rewrite pdict_get_kv by assumption.
  f_equal. cbn [map minZ_of minZ_list]. symmetry. apply minZ_list_fold.
Qed.

Ltac use_min_among m :=
  match goal with |- context [fold_left ?s ?l pdict_empty] =>
    rewrite (py_min_among s m l) by (intros; py_red; rewrite ?py_path_length_eq, ?py_path_duration_eq; reflexivity)
  end.

(** * annotate_paths *)

Definition ann_of_model (a : annotated) : py_annotated :=
  mkPyAnn (Some (a_shortest a)) (Some (a_fastest a)) (Some (a_foremost a))
          (Some (a_fastest_shortest a)) (Some (a_shortest_fastest a)).

Lemma py_annotate_paths_record l : l <> [] -> py_annotate_paths l = ann_of_model (annotate_paths l).
Proof.
  intros Hne. unfold py_annotate_paths, annotate_paths, ann_of_model. py_red.
  use_sel3. unfold sel0. rewrite fold_step3.
  destruct (sel_some path_length l Hne) as (m1 & ->).
  destruct (sel_some path_duration l Hne) as (m2 & ->).
  destruct (sel_some path_last l Hne) as (m3 & ->).
  cbv beta iota zeta delta [enc_abc enc_acb enc_bac enc_bca enc_cab enc_cba enc_of enc_entry fst snd iter_opt].
  use_min_among path_duration. use_min_among path_length.
  reflexivity.
Qed.

(** the five entries of the returned dict are the five lists of the model *)
Lemma py_annotate_paths_eq l : l <> [] ->
  py_shortest (py_annotate_paths l) = Some (a_shortest (annotate_paths l)) /\
  py_fastest (py_annotate_paths l) = Some (a_fastest (annotate_paths l)) /\
  py_foremost (py_annotate_paths l) = Some (a_foremost (annotate_paths l)) /\
  py_fastest_shortest (py_annotate_paths l) = Some (a_fastest_shortest (annotate_paths l)) /\
  py_shortest_fastest (py_annotate_paths l) = Some (a_shortest_fastest (annotate_paths l)).
Proof. intros Hne. rewrite (py_annotate_paths_record l Hne). repeat split. Qed.
Print Assumptions py_annotate_paths_eq.

(** outside the property: Python raises TypeError on [], the generated function answers *)
Example py_annotate_paths_nil : py_annotate_paths [] = mkPyAnn None None None (Some []) (Some []).
Proof. vm_compute. reflexivity. Qed.

(** duplicates among the paths: exact equality still holds (first pass keeps them, the dict passes drop them) *)
Example py_annotate_paths_dup :
  let p := [(1, 2, 3); (2, 3, 5)] in let q := [(1, 4, 4); (4, 3, 5)] in
  py_annotate_paths [p; q; p] = ann_of_model (annotate_paths [p; q; p]) /\
  py_shortest (py_annotate_paths [p; q; p]) = Some [p; q; p] /\
  py_fastest_shortest (py_annotate_paths [p; q; p]) = Some [q].
Proof. vm_compute. repeat split. Qed.
