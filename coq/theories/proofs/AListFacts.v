(** Facts about the association lists of Base (keys: pairs with [peqb], or Z with [Z.eqb]). *)
From DynVerif Require Import Base.

Section PairKeys.
  Context {V : Type}.
  Implicit Types (l : list ((Z * Z) * V)) (k : Z * Z).

  Lemma aget_app_notin k l x : aget peqb k l = None -> aget peqb k (l ++ [x]) = (if peqb k (fst x) then Some (snd x) else None).
  Proof.
    induction l as [|[k' v'] r IH]; simpl; intros H.
    - destruct x as [kx vx]; simpl. reflexivity.
    - destruct (peqb k k'); [discriminate|]. auto.
  Qed.

  Lemma aget_app_other k l x : peqb k (fst x) = false -> aget peqb k (l ++ [x]) = aget peqb k l.
  Proof.
    intros Hk. induction l as [|[k' v'] r IH]; simpl.
    - destruct x as [kx vx]; simpl in *. rewrite Hk. reflexivity.
    - destruct (peqb k k'); auto.
  Qed.

  Lemma aget_aset_eq k v l : aget peqb k l <> None -> aget peqb k (aset peqb k v l) = Some v.
  Proof.
    induction l as [|[k' v'] r IH]; simpl; intros H; [congruence|].
    destruct (peqb k k') eqn:E; simpl; rewrite E; auto.
  Qed.

  Lemma aget_aset_neq k k0 v l : peqb k k0 = false -> aget peqb k (aset peqb k0 v l) = aget peqb k l.
  Proof.
    intros Hk. induction l as [|[k' v'] r IH]; simpl.
    - rewrite Hk. reflexivity.
    - destruct (peqb k0 k') eqn:E; simpl.
      + apply peqb_eq in E. subst. rewrite Hk. reflexivity.
      + rewrite IH. reflexivity.
  Qed.

  Lemma akeys_aset_in k v l : aget peqb k l <> None -> akeys (aset peqb k v l) = akeys l.
  Proof.
    induction l as [|[k' v'] r IH]; simpl; intros H; [congruence|].
    destruct (peqb k k') eqn:E; simpl; auto. unfold akeys in *. simpl. f_equal. auto.
  Qed.

  Lemma aget_None_notin k l : aget peqb k l = None <-> ~ In k (akeys l).
  Proof.
    induction l as [|[k' v'] r IH]; simpl; [tauto|].
    destruct (peqb k k') eqn:E.
    - apply peqb_eq in E. subst. split; [discriminate|intros H; exfalso; apply H; auto].
    - apply peqb_neq in E. rewrite IH. split; [intros H [H1|H1]; auto; congruence | intros H H1; apply H; auto].
  Qed.

  Lemma aget_Some_in k v l : aget peqb k l = Some v -> In (k, v) l.
  Proof.
    induction l as [|[k' v'] r IH]; simpl; [discriminate|].
    destruct (peqb k k') eqn:E.
    - apply peqb_eq in E. subst. intros H; inversion H; auto.
    - auto.
  Qed.

  Lemma in_aget_nodup k v l : NoDup (akeys l) -> In (k, v) l -> aget peqb k l = Some v.
  Proof.
    induction l as [|[k' v'] r IH]; simpl; [tauto|]. intros Hnd [H|H].
    - inversion H; subst. rewrite peqb_refl. reflexivity.
    - inversion Hnd as [|? ? Hni Hnd']; subst. destruct (peqb k k') eqn:E.
      + apply peqb_eq in E. subst. exfalso. apply Hni. unfold akeys. apply in_map_iff. exists (k', v); auto.
      + auto.
  Qed.
End PairKeys.

Section ZKeys.
  Context {V : Type}.
  Implicit Types (l : list (Z * V)) (k : Z).

  Lemma zget_aset_eq k v l : aget Z.eqb k (aset Z.eqb k v l) = Some v.
  Proof.
    induction l as [|[k' v'] r IH]; simpl.
    - rewrite Z.eqb_refl. reflexivity.
    - destruct (k =? k') eqn:E; simpl; rewrite E; auto.
  Qed.

  Lemma zget_aset_neq k k0 v l : k <> k0 -> aget Z.eqb k (aset Z.eqb k0 v l) = aget Z.eqb k l.
  Proof.
    intros Hk. induction l as [|[k' v'] r IH]; simpl.
    - destruct (k =? k0) eqn:E; [lia|reflexivity].
    - destruct (k0 =? k') eqn:E; simpl.
      + assert (k0 = k') by lia. subst. destruct (k =? k') eqn:E2; [lia|reflexivity].
      + rewrite IH. reflexivity.
  Qed.
End ZKeys.

Lemma zin_aget_nodup {V : Type} (k : Z) (v : V) (l : list (Z * V)) :
  NoDup (map fst l) -> In (k, v) l -> aget Z.eqb k l = Some v.
Proof.
  induction l as [|[k' v'] r IH]; simpl; [tauto|]. intros Hnd [H|H].
  - inversion H; subst. rewrite Z.eqb_refl. reflexivity.
  - inversion Hnd as [|? ? Hni Hnd']; subst. destruct (k =? k') eqn:E.
    + assert (k = k') by lia. subst. exfalso. apply Hni. apply in_map_iff. exists (k', v); auto.
    + auto.
Qed.
