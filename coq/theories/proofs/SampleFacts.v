(** SampleFacts: time_respecting_paths with sample < 1 (an arbitrary selection of source/target pairs). *)
From Coq Require Import List ZArith Bool Lia.
Import ListNotations.
From DynVerif Require Import Base Graph Derived Annotate Paths.
From DynVerif.proofs Require Import AnnotateFacts.

Lemma flat_map_pairs {A B C} (f : A -> B -> list C) (xs : list A) (ys : list B) :
  flat_map (fun xy => f (fst xy) (snd xy)) (flat_map (fun x => map (fun y => (x, y)) ys) xs)
  = flat_map (fun x => flat_map (fun y => f x y) ys) xs.
Proof.
  induction xs as [|x xs IH]; simpl; [reflexivity|].
  rewrite flat_map_app, IH. f_equal. clear IH.
  induction ys as [|y ys IHy]; simpl; [reflexivity|]. now rewrite IHy.
Qed.

(** the identity selection is the unsampled function, path for path and in the same order *)
Lemma all_paths_dag_sel_id root d : all_paths_dag_sel (fun l => l) root d = all_paths_dag root d.
Proof.
  unfold all_paths_dag_sel, all_paths_dag, dag_pairs. f_equal. f_equal.
  apply (flat_map_pairs (fun x y => map (hops_of root) (dfs (d_edges d) (S (length (dag_nodes (d_edges d)))) [] x y))).
Qed.

Lemma trp_sel_id g u v s e : time_respecting_paths_sel (fun l => l) g u v s e = time_respecting_paths g u v s e.
Proof.
  unfold time_respecting_paths_sel, time_respecting_paths.
  destruct (negb (has_node g u s)); [reflexivity|].
  destruct (temporal_dag g u v s e); [|reflexivity]. now rewrite all_paths_dag_sel_id.
Qed.

(** a smaller selection gives a sub-collection of the paths; none is repeated *)
Lemma all_paths_dag_sel_mono sel1 sel2 root d :
  incl (sel1 (dag_pairs d)) (sel2 (dag_pairs d)) ->
  incl (all_paths_dag_sel sel1 root d) (all_paths_dag_sel sel2 root d).
Proof.
  intros Hi p. unfold all_paths_dag_sel. rewrite !dedup_In, !filter_In, !in_flat_map.
  intros [[[xy [Hxy Hp]] Hk] Hn]. split; [|exact Hn]. split; [|exact Hk].
  exists xy. split; [apply Hi, Hxy|exact Hp].
Qed.

Theorem sample_subset sel g u v s e l :
  (forall ps, incl (sel ps) ps) ->
  time_respecting_paths_sel sel g u v s e = PathsOk l ->
  exists full, time_respecting_paths g u v s e = PathsOk full /\ incl l full /\ NoDup l.
Proof.
  intros Hsel. rewrite <- trp_sel_id. unfold time_respecting_paths_sel.
  destruct (negb (has_node g u s)).
  - intros H; inversion H; subst. exists []. repeat split; [apply incl_refl|constructor].
  - destruct (temporal_dag g u v s e) as [d|]; [|discriminate].
    intros H; inversion H; subst. exists (all_paths_dag_sel (fun l => l) u d). repeat split.
    + apply all_paths_dag_sel_mono. apply Hsel.
    + apply dedup_NoDup.
Qed.

(** the error behaviour does not depend on the draw *)
Lemma sample_error sel g u v s e :
  time_respecting_paths_sel sel g u v s e = PathsValueError <-> time_respecting_paths g u v s e = PathsValueError.
Proof.
  unfold time_respecting_paths_sel, time_respecting_paths.
  destruct (negb (has_node g u s)); [split; discriminate|].
  destruct (temporal_dag g u v s e); split; try discriminate; auto.
Qed.
