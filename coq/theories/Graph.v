(** Graph: executable model of dynetx's DynGraph / DynDiGraph state and of add_interaction,
    the bulk helpers and every query.  Mirrors /repo/dynetx/classes/{dyngraph,dyndigraph,function}.py.
    No proofs here (they live in proofs/), so the model still runs when a proof breaks. *)
From DynVerif Require Import Base.

(** * State *)

(** A timeline is never empty once an adjacency entry exists: [(latest, older)], older newest-first. *)
Notation itv := (Z * Z)%type (only parsing).
Definition tline := ((Z * Z) * list (Z * Z))%type.
Definition tl_list (t : tline) : list (Z * Z) := fst t :: snd t.      (* newest first *)
Definition tl_chrono (t : tline) : list (Z * Z) := rev (tl_list t).   (* as the code stores it *)

(** An event of the stream: instant, pair (normalised on undirected graphs), '+' (true) / '-' (false). *)
Definition event := (Z * (Z * Z) * bool)%type.

Record graph := mkG {
  g_dir : bool;                       (* DynDiGraph? *)
  g_rem : bool;                       (* edge_removal *)
  g_nodes : list (Z * Z);             (* node id -> attribute token, insertion order *)
  g_edges : list ((Z * Z) * tline);   (* pair key -> timeline, insertion order *)
  g_events : list event;              (* time_to_edge, global insertion order *)
  g_snaps : list (Z * Z);             (* snapshots: instant -> counter *)
  g_attr : Z;                         (* graph attribute token *)
  g_frozen : bool
}.

Definition empty_graph (dir rem : bool) : graph := mkG dir rem [] [] [] [] 0 false.

Inductive outcome := Done | EValue | ENetworkX | ENotImplemented | EKey | EFrozen.

(** pair key: ordered on the digraph, unordered (min,max) on the graph *)
Definition nk (dir : bool) (u v : Z) : Z * Z :=
  if dir then (u, v) else if u <=? v then (u, v) else (v, u).

Definition with_nodes g n := mkG (g_dir g) (g_rem g) n (g_edges g) (g_events g) (g_snaps g) (g_attr g) (g_frozen g).
Definition with_edges g x := mkG (g_dir g) (g_rem g) (g_nodes g) x (g_events g) (g_snaps g) (g_attr g) (g_frozen g).
Definition with_events g x := mkG (g_dir g) (g_rem g) (g_nodes g) (g_edges g) x (g_snaps g) (g_attr g) (g_frozen g).
Definition with_snaps g x := mkG (g_dir g) (g_rem g) (g_nodes g) (g_edges g) (g_events g) x (g_attr g) (g_frozen g).
Definition with_attr g x := mkG (g_dir g) (g_rem g) (g_nodes g) (g_edges g) (g_events g) (g_snaps g) x (g_frozen g).
Definition with_frozen g x := mkG (g_dir g) (g_rem g) (g_nodes g) (g_edges g) (g_events g) (g_snaps g) (g_attr g) x.

(** * Nodes *)
Definition has_node_flat (g : graph) (n : Z) : bool := amem Z.eqb n (g_nodes g).
Definition ensure_node (n : Z) (l : list (Z * Z)) : list (Z * Z) :=
  if amem Z.eqb n l then l else l ++ [(n, 0)].
(** nx add_node(n, **attr): new node gets the attrs, an existing node's dict is updated (token replaced
    when a non-empty attr is given: the harness only ever passes one key) *)
Definition add_node (g : graph) (n attr : Z) : graph :=
  if amem Z.eqb n (g_nodes g)
  then (if attr =? 0 then g else with_nodes g (aset Z.eqb n attr (g_nodes g)))
  else with_nodes g (g_nodes g ++ [(n, attr)]).
Definition node_ids (g : graph) : list Z := map fst (g_nodes g).

(** * Event log *)
Definition ev_same (t : Z) (k : Z * Z) (op : bool) (e : event) : bool :=
  match e with (t', k', op') => (t =? t') && peqb k k' && Bool.eqb op op' end.
Definition add_event (t : Z) (k : Z * Z) (op : bool) (evs : list event) : list event :=
  if existsb (ev_same t k op) evs then evs else evs ++ [(t, k, op)].
Definition has_event (t : Z) (k : Z * Z) (op : bool) (evs : list event) : bool :=
  existsb (ev_same t k op) evs.
Definition del_event (t : Z) (k : Z * Z) (op : bool) (evs : list event) : list event :=
  filter (fun e => negb (ev_same t k op e)) evs.

(** stream_interactions: buckets in increasing instant, insertion order inside a bucket
    = stable insertion sort of the global insertion order by instant *)
Definition ev_time (e : event) : Z := fst (fst e).
Fixpoint ins_ev (x : event) (l : list event) : list event :=
  match l with
  | [] => [x]
  | y :: r => if ev_time x <? ev_time y then x :: l else y :: ins_ev x r
  end.
(* fold_left keeps insertion order among equal instants: later elements go after earlier ones *)
Definition stream (g : graph) : list event := fold_left (fun acc e => ins_ev e acc) (g_events g) [].

(** * Snapshot counters *)
Fixpoint bump (t d : Z) (l : list (Z * Z)) : list (Z * Z) :=
  match l with
  | [] => [(t, d)]
  | (t', c) :: r => if t =? t' then (t', c + d) :: r else (t', c) :: bump t d r
  end.
Fixpoint bump_range (a : Z) (n : nat) (l : list (Z * Z)) : list (Z * Z) :=
  match n with O => l | S m => bump_range (a + 1) m (bump a 2 l) end.
Definition bump_incl (a b : Z) (l : list (Z * Z)) : list (Z * Z) := bump_range a (Z.to_nat (b - a + 1)) l.

Definition snapshot_ids (g : graph) : list Z := sortZ (map fst (g_snaps g)).

(** * add_interaction (the repaired step; see DESIGN 5.0) *)
Definition ensure_ends (g : graph) (u v : Z) : graph :=
  with_nodes g (ensure_node v (ensure_node u (g_nodes g))).

Definition add_interaction (g : graph) (u v : Z) (t e : option Z) : graph * outcome :=
  match t with
  | None => (g, ENetworkX)
  | Some s =>
    let rem := g_rem g in
    let closing := match e with Some _ => rem | None => false end in
    let f := match e with Some e' => if rem then e' - 1 else s | None => s end in
    let k := nk (g_dir g) u v in
    match aget peqb k (g_edges g) with
    | None =>
        let g1 := ensure_ends g u v in
        if f <? s then (g1, Done) else
        let ev1 := add_event s k true (g_events g1) in
        let ev2 := if closing then add_event (f + 1) k false ev1 else ev1 in
        let sn := if rem then bump_incl s f (g_snaps g1) else bump s 2 (g_snaps g1) in
        (with_snaps (with_events (with_edges g1 (g_edges g1 ++ [(k, ((s, f), []))])) ev2) sn, Done)
    | Some ((a, b), older) =>
        if s <? a then (g, EValue) else
        let g1 := ensure_ends g u v in
        if f <? s then (g1, Done) else
        if b + 1 <? s then
          (* gap: a new run *)
          let ev1 := if rem then add_event s k true (g_events g1) else g_events g1 in
          let ev2 := if closing then add_event (f + 1) k false ev1 else ev1 in
          let sn := if rem then bump_incl s f (g_snaps g1) else bump s 2 (g_snaps g1) in
          (with_snaps (with_events (with_edges g1 (aset peqb k ((s, f), (a, b) :: older) (g_edges g1))) ev2) sn, Done)
        else if b <? f then
          (* the span reaches beyond the latest run: extend it *)
          let closed := has_event (b + 1) k false (g_events g1) in
          let ev1 := del_event (b + 1) k false (g_events g1) in
          let single := (a =? b) && (s =? b + 1) && (match e with None => true | Some _ => false end) && negb closed in
          let ev2 := if rem && negb single then add_event (f + 1) k false ev1 else ev1 in
          let sn := if rem then bump_incl (b + 1) f (g_snaps g1) else bump s 2 (g_snaps g1) in
          (with_snaps (with_events (with_edges g1 (aset peqb k ((a, f), older) (g_edges g1))) ev2) sn, Done)
        else
          (* contained in the latest run *)
          let ev2 := if closing && (f =? b) then add_event (f + 1) k false (g_events g1) else g_events g1 in
          let sn := if rem then g_snaps g1 else bump s 2 (g_snaps g1) in
          (with_snaps (with_events g1 ev2) sn, Done)
    end
  end.

(** bulk helpers: add_interactions_from raises NetworkXError up front when t is None, otherwise adds
    element by element and stops at the first failing element (state = after the preceding elements). *)
Fixpoint add_from (g : graph) (es : list (Z * Z)) (t e : option Z) : graph * outcome :=
  match es with
  | [] => (g, Done)
  | (u, v) :: r =>
      match add_interaction g u v t e with
      | (g', Done) => add_from g' r t e
      | (g', o) => (g', o)
      end
  end.
Definition add_interactions_from (g : graph) (es : list (Z * Z)) (t e : option Z) : graph * outcome :=
  match t with None => (g, ENetworkX) | Some _ => add_from g es t e end.

Fixpoint zip_next (l : list Z) : list (Z * Z) :=
  match l with
  | a :: ((b :: _) as r) => (a, b) :: zip_next r
  | _ => []
  end.
Definition path_pairs (l : list Z) : list (Z * Z) := zip_next l.
Definition star_pairs (l : list Z) : list (Z * Z) :=
  match l with [] => [] | c :: r => map (fun n => (c, n)) r end.
Definition cycle_pairs (l : list Z) : list (Z * Z) :=
  match l with [] => [] | c :: _ => zip_next (l ++ [c]) end.

(** * Presence test (mirrors __presence_test: envelope, then scan; accumulative: start..max id) *)
Definition in_itv (t : Z) (i : Z * Z) : bool := (fst i <=? t) && (t <=? snd i).
Definition mem (t : Z) (l : list (Z * Z)) : bool := existsb (in_itv t) l.
Definition first_start (tl : tline) : Z := fst (last (snd tl) (fst tl)).
(* max(self.temporal_snapshots_ids()): Python raises ValueError on an empty list; an adjacency entry never
   exists without a snapshot id, the model answers 0 there *)
Definition max_id (g : graph) : Z :=
  match map fst (g_snaps g) with [] => 0 | x :: r => fold_left Z.max r x end.

Definition presence_test (g : graph) (tl : tline) (t : Z) : bool :=
  if g_rem g
  then (first_start tl <=? t) && (t <=? snd (fst tl)) && mem t (tl_list tl)
  else (first_start tl <=? t) && (t <=? max_id g).

(** presence of the pair [k] (already a key) at [t]; [None] = flattened *)
Definition key_present (g : graph) (k : Z * Z) (t : option Z) : bool :=
  match aget peqb k (g_edges g) with
  | None => false
  | Some tl => match t with None => true | Some x => presence_test g tl x end
  end.
Definition has_interaction (g : graph) (u v : Z) (t : option Z) : bool :=
  key_present g (nk (g_dir g) u v) t.

(** * Adjacency views *)
(** successors of n (digraph) / neighbours (graph): every v with an entry (n,v) [or (v,n) when undirected] *)
Definition out_nbrs (g : graph) (n : Z) : list Z :=
  flat_map (fun e => let '((a, b), _) := e in
     if g_dir g then (if a =? n then [b] else [])
     else (if a =? n then [b] else if b =? n then [a] else [])) (g_edges g).
Definition in_nbrs (g : graph) (n : Z) : list Z :=
  flat_map (fun e => let '((a, b), _) := e in
     if g_dir g then (if b =? n then [a] else [])
     else (if a =? n then [b] else if b =? n then [a] else [])) (g_edges g).

Definition nbrs_at (g : graph) (n : Z) (t : option Z) : list Z :=
  filter (fun v => has_interaction g n v t) (out_nbrs g n).
Definition preds_at (g : graph) (n : Z) (t : option Z) : list Z :=
  filter (fun v => has_interaction g v n t) (in_nbrs g n).

(** neighbors / successors / predecessors: unknown node -> NetworkXError, except DynGraph.neighbors(n, t)
    with t given, which answers [] *)
Definition neighbors (g : graph) (n : Z) (t : option Z) : option (list Z) :=
  if has_node_flat g n then Some (nbrs_at g n t)
  else if g_dir g then None else match t with None => None | Some _ => Some [] end.
Definition predecessors (g : graph) (n : Z) (t : option Z) : option (list Z) :=
  if has_node_flat g n then Some (preds_at g n t) else None.

(** degree: DynGraph counts a self-loop once (pinned), DynDiGraph = out + in *)
Definition deg1 (g : graph) (t : option Z) (n : Z) : Z :=
  if g_dir g then Z.of_nat (length (nbrs_at g n t)) + Z.of_nat (length (preds_at g n t))
  else Z.of_nat (length (nbrs_at g n t)).
Definition in_deg1 (g : graph) (t : option Z) (n : Z) : Z := Z.of_nat (length (preds_at g n t)).
Definition out_deg1 (g : graph) (t : option Z) (n : Z) : Z := Z.of_nat (length (nbrs_at g n t)).

(** nbunch_iter: the listed nodes that are in the graph, in the listed order; None = all nodes *)
Definition nbunch_nodes (g : graph) (nb : option (list Z)) : list Z :=
  match nb with None => node_ids g | Some l => filter (has_node_flat g) l end.

Definition degree_dict (g : graph) (kind : Z) (nb : option (list Z)) (t : option Z) : list (Z * Z) :=
  map (fun n => (n, if kind =? 0 then deg1 g t n else if kind =? 1 then in_deg1 g t n else out_deg1 g t n))
      (nbunch_nodes g nb).

Definition sumZ (l : list Z) : Z := fold_right Z.add 0 l.
Definition size (g : graph) (t : option Z) : Z :=
  sumZ (map snd (degree_dict g 0 None t)) / 2.
Definition nodes_at (g : graph) (t : Z) : list Z :=
  map fst (filter (fun nd => 0 <? snd nd) (degree_dict g 0 None (Some t))).
Definition number_of_nodes (g : graph) (t : option Z) : Z :=
  match t with None => Z.of_nat (length (g_nodes g)) | Some x => Z.of_nat (length (nodes_at g x)) end.
Definition has_node (g : graph) (n : Z) (t : option Z) : bool :=
  match t with
  | None => has_node_flat g n
  | Some x => if has_node_flat g n then 0 <? deg1 g (Some x) n else false
  end.
Definition node_snapshots (g : graph) (n : Z) : list Z :=
  filter (fun t => has_node g n (Some t)) (snapshot_ids g).

(** interactions_iter with its [seen] filter.  Nodes are processed in nbunch order (all nodes: insertion
    order); (n, nbr) is yielded unless nbr was processed before n.  On the digraph this drops u->v when v
    precedes u (pinned by test_functions_directed). Result: (u, v, timeline-or-[t]). *)
Fixpoint inter_loop (g : graph) (t : option Z) (todo seen : list Z) : list (Z * Z) :=
  match todo with
  | [] => []
  | n :: r =>
      map (fun v => (n, v)) (filter (fun v => negb (memZ v seen)) (nbrs_at g n t))
      ++ inter_loop g t r (n :: seen)
  end.
Definition interactions (g : graph) (nb : option (list Z)) (t : option Z) : list (Z * Z) :=
  inter_loop g t (nbunch_nodes g nb) [].
Definition out_interactions (g : graph) (nb : option (list Z)) (t : option Z) : list (Z * Z) :=
  flat_map (fun n => map (fun v => (n, v)) (nbrs_at g n t)) (nbunch_nodes g nb).
Definition in_interactions (g : graph) (nb : option (list Z)) (t : option Z) : list (Z * Z) :=
  flat_map (fun n => map (fun v => (v, n)) (preds_at g n t)) (nbunch_nodes g nb).

Definition timeline_of (g : graph) (u v : Z) : list (Z * Z) :=
  match aget peqb (nk (g_dir g) u v) (g_edges g) with None => [] | Some tl => tl_chrono tl end.

(** number_of_interactions(u, v, t): [None] models Python's None (single node given, or non-adjacent pair
    with t given -- the latter repaired to 0, see fix commit) *)
Definition number_of_interactions (g : graph) (uv : option (Z * Z)) (t : option Z) : option Z :=
  match uv with
  | None => Some (size g t)
  | Some (u, v) => Some (if has_interaction g u v t then 1 else 0)
  end.

Definition interactions_per_snapshot (g : graph) (t : Z) : Z * Z :=   (* numerator, denominator 2 *)
  (match aget Z.eqb t (g_snaps g) with Some c => c | None => 0 end, 2).

(** dn.density(G, t): m / (n (n-1)), doubled when undirected; with t given the wrapper passes t as u
    and always answers 0 (pinned by the tests). Result as a fraction. *)
Definition density (g : graph) (t : option Z) : Z * Z :=
  match t with
  | Some _ => (0, 1)
  | None =>
      let n := number_of_nodes g None in
      let m := size g None in
      if (m =? 0) || (n <=? 1) then (0, 1)
      else ((if g_dir g then m else 2 * m), n * (n - 1))
  end.

Fixpoint count_eq (x : Z) (l : list Z) : Z :=
  match l with [] => 0 | y :: r => (if x =? y then 1 else 0) + count_eq x r end.
Definition degree_histogram (g : graph) (t : option Z) : list Z :=
  let ds := map snd (degree_dict g 0 None t) in
  map (fun i => count_eq i ds) (zrange 0 (Z.to_nat (maxZ 0 ds + 1))).

Definition is_empty (g : graph) : bool := match g_edges g with [] => true | _ => false end.

Definition all_neighbors (g : graph) (n : Z) (t : option Z) : option (list Z) :=
  if has_node_flat g n then
    Some (if g_dir g then preds_at g n t ++ nbrs_at g n t else nbrs_at g n t)
  else if g_dir g then None else match t with None => None | Some _ => Some [] end.
Definition non_neighbors (g : graph) (n : Z) (t : option Z) : option (list Z) :=
  match all_neighbors g n t with
  | None => None
  | Some nb => Some (filter (fun x => negb (memZ x (n :: nb))) (node_ids g))
  end.
(** non_interactions on the undirected graph: unordered pairs of distinct nodes not adjacent at t *)
Fixpoint pairs_after (l : list Z) : list (Z * Z) :=
  match l with [] => [] | x :: r => map (fun y => (x, y)) r ++ pairs_after r end.
Definition non_interactions (g : graph) (t : option Z) : list (Z * Z) :=
  filter (fun p => negb (has_interaction g (fst p) (snd p) t)) (pairs_after (node_ids g)).

Definition avg_number_of_nodes (g : graph) : Z * Z :=
  (sumZ (map (fun t => number_of_nodes g (Some t)) (snapshot_ids g)), Z.of_nat (length (g_snaps g))).

(** * clear / clear_edges / freeze *)
Definition clear (g : graph) : graph := mkG (g_dir g) (g_rem g) [] [] [] [] 0 (g_frozen g).
Definition clear_edges (g : graph) : graph := with_snaps (with_events (with_edges g []) []) [].

(* keep [simpl] from unfolding the big step function inside proofs *)
Arguments add_interaction : simpl never.
