(** PySupportPaths: the few primitives the GENERATED file gen/PyGenPaths.v (output of tools/py2gallina_paths.py)
    needs besides the vocabulary of Annotate.v.  Definitions only: every fact about them is proved in
    proofs/PyGenPathsEq.v.

    Conventions of the translation (see the header of the tool):
      * a Python variable initialised to [None] that later receives ints is an [option Z];
      * the dict literal [annotated = {'k1': None, ...}] with constant string keys is ONE VARIABLE PER KEY
        ([annotated_k1], ...), each an [option (list path)]: [None] until a list is stored under the key;
      * a dict {tuple(path): int} is an association list in insertion order keyed by [path_eqb]
        ([pdict_set]: a key that is already present keeps its position and takes the NEW value, otherwise the
        pair is appended - Python dict semantics);
      * a path (list of hops), its [tuple(...)], its [list(...)] and its [copy.copy(...)] are the same value.

    Where Python raises, the primitives below answer a default; every such place is OUTSIDE the equalities of
    PyGenPathsEq.v or unreachable in the generated text:
      * [opt_append None p]  : [None.append(p)] is an AttributeError; answers [None];
      * [iter_opt None]      : iterating [None] is a TypeError (annotate_paths([])); answers [[]];
      * [minZ_of []]         : [min([])] is a ValueError; answers 0;
      * [pdict_get d k] with [k] absent : KeyError; answers 0 (the generated text only reads keys of [d]). *)
From DynVerif Require Import Base Annotate.

(** annotated[k].append(p) on an entry that holds a list *)
Definition opt_append (o : option (list path)) (p : path) : option (list path) :=
  match o with Some l => Some (l ++ [p]) | None => None end.

(** for p in annotated[k] *)
Definition iter_opt (o : option (list path)) : list path :=
  match o with Some l => l | None => [] end.

(** {tuple(path): int} *)
Definition pdict := list (path * Z).
Definition pdict_empty : pdict := [].
Definition pdict_set (d : pdict) (k : path) (v : Z) : pdict := aset path_eqb k v d.
(** iteration over the dict = its keys, insertion order *)
Definition pdict_keys (d : pdict) : list path := map fst d.
Definition pdict_values (d : pdict) : list Z := map snd d.
Definition pdict_get (d : pdict) (k : path) : Z :=
  match aget path_eqb k d with Some v => v | None => 0 end.

(** min(l) on a list of ints *)
Definition minZ_of (l : list Z) : Z :=
  match l with [] => 0 | x :: r => fold_left Z.min r x end.

(** the value of [return annotated]: the five entries, in this fixed order (NOT the order of the dict literal) *)
Record py_annotated := mkPyAnn {
  py_shortest : option (list path); py_fastest : option (list path); py_foremost : option (list path);
  py_fastest_shortest : option (list path); py_shortest_fastest : option (list path) }.
