(** C07 - A rejected update leaves no trace.  The model state is the whole record (nodes, timelines,
    event log, snapshot counters, attributes): equality of states is equality of every observable. *)
From DynVerif Require Import Base Graph Spec.
From DynVerif.proofs Require Import CoreInv C03Facts C07Facts.

(** both classes, both modes, any reachable or unreachable state, any arguments *)
Theorem C07_atomic : forall g u v t e g' o,
  add_interaction g u v t e = (g', o) -> o <> Done -> g' = g.
Proof. exact C03Facts.add_reject. Qed.
Print Assumptions C07_atomic.

(** later calls behave as if the rejected call had never been made *)
Theorem C07_continuation : forall g l1 bad l2,
  snd (do_raw (run_raw g l1) bad) <> Done -> run_raw g (l1 ++ bad :: l2) = run_raw g (l1 ++ l2).
Proof. exact C07Facts.continuation. Qed.
Print Assumptions C07_continuation.

(** bulk helpers: on failure the state is exactly the state after the elements preceding the failing one *)
Theorem C07_bulk : forall t e es g g' o, add_from g es t e = (g', o) ->
  (o = Done /\ g' = run_raw g (elems es t e)) \/
  (o <> Done /\ exists pre bad post, es = pre ++ bad :: post /\ g' = run_raw g (elems pre t e) /\
                  snd (add_interaction g' (fst bad) (snd bad) t e) = o).
Proof. exact C07Facts.add_from_spec. Qed.
Print Assumptions C07_bulk.

Theorem C07_bulk_missing_t : forall g es e, add_interactions_from g es None e = (g, ENetworkX).
Proof. reflexivity. Qed.
Print Assumptions C07_bulk_missing_t.

(** non-vacuity: a state in which a call is rejected, on both modes *)
Example C07_example :
  snd (add_interaction (fst (add_interaction (empty_graph false true) 1 2 (Some 5) (Some 8))) 3 1 None None) = ENetworkX /\
  snd (add_interaction (fst (add_interaction (empty_graph true false) 1 2 (Some 5) (Some 8))) 1 2 (Some 3) (Some 9)) = EValue.
Proof. vm_compute. split; reflexivity. Qed.
Print Assumptions C07_example.
