(** C03 - Timelines are canonical: sorted, disjoint, non-adjacent closed intervals, whose union is the
    pair's presence; both directions of an undirected pair expose the same timeline; this also holds for
    every graph the library derives through add_interaction (time_slice, to_directed, to_undirected). *)
From DynVerif Require Import Base Graph Derived Spec.
From DynVerif Require Import Api Annotate IO.
From DynVerif.proofs Require Import CoreInv C01Facts C03Facts QueryFacts ApiFacts DerivedFacts2 IOWF.

(** [timeline_of g u v] is the list interactions()/in_/out_interactions() expose (oldest run first).
    [canon_chrono]: start <= end for each run, and end + 1 < next start (an absent instant in between). *)
Theorem C03_canon : forall (dir : bool) (cs : list call) (u v : Z),
  canon_chrono (timeline_of (run_calls (G0 dir) cs) u v).
Proof. intros. eapply timeline_canon. apply Inv_reach. Qed.
Print Assumptions C03_canon.

Theorem C03_union : forall (dir : bool) (cs : list call) (u v tau : Z),
  mem tau (timeline_of (run_calls (G0 dir) cs) u v) = pres dir true (accepted (G0 dir) cs) (nk dir u v) tau.
Proof.
  intros. rewrite (timeline_union _ _ u v tau (Inv_reach dir cs)).
  destruct (reach_flags dir cs) as (-> & ->). reflexivity.
Qed.
Print Assumptions C03_union.

Theorem C03_symmetric : forall (cs : list call) (u v : Z),
  timeline_of (run_calls (G0 false) cs) u v = timeline_of (run_calls (G0 false) cs) v u.
Proof. intros. apply timeline_sym. apply (reach_flags false cs). Qed.
Print Assumptions C03_symmetric.

(** derived graphs: whatever the source graph, the result of the library's own constructors is a state
    reachable by accepted add_interaction calls only, hence canonical (and its timelines are the union of
    those calls: [WF] = the invariant of C01 holds for some history) *)
Theorem C03_derived_wf : forall g,
  (forall a b H o, time_slice g a b = (Some H, o) -> WF H) /\
  (forall H o, to_directed g = (Some H, o) -> WF H) /\
  (forall r H o, to_undirected g r = (Some H, o) -> WF H).
Proof. intros g. split; [|split]; intros; eauto using WF_time_slice, WF_to_directed, WF_to_undirected. Qed.
Print Assumptions C03_derived_wf.

Theorem C03_wf_canon : forall g u v, WF g -> canon_chrono (timeline_of g u v).
Proof. intros g u v (h & HI). eapply timeline_canon; eauto. Qed.
Print Assumptions C03_wf_canon.

(** the readers: whatever rows / lines / node-link data they are fed, a graph they return satisfies every invariant
    ([WFG] includes [WF]), so the timelines exposed by read_snapshots, read_interactions and node_link_graph results
    are canonical too *)
Theorem C03_readers_wf : 
  (forall dir rows H, parse_snapshots dir rows = RdOk H -> WFG H) /\
  (forall dir rows H, parse_interactions dir rows = RdOk H -> WFG H) /\
  (forall d arg H, node_link_graph d arg = RdOk H -> WFG H) /\
  (forall dir m d keys ls H, read_snap_lines m d keys (empty_graph dir true) ls = TxOk H -> WFG H).
Proof.
  split; [|split; [|split]].
  - intros dir rows H E. eapply WFG_parse_snapshots; [apply WFG_empty|exact E].
  - intros dir rows H E. eapply WFG_parse_interactions; [apply WFG_empty|exact E].
  - intros d arg H E. eapply WFG_node_link_graph; eauto.
  - intros dir m d keys ls H E. eapply WFG_read_snap_lines; [apply WFG_empty|exact E].
Qed.
Print Assumptions C03_readers_wf.

Theorem C03_wfg_canon : forall g u v, WFG g -> canon_chrono (timeline_of g u v).
Proof. intros g u v (Hw & _). apply C03_wf_canon. exact Hw. Qed.
Print Assumptions C03_wfg_canon.

Example C03_example :
  timeline_of (run_calls (G0 false) [mkCall 1 2 0 (Some 3); mkCall 2 1 2 (Some 6); mkCall 1 2 6 None; mkCall 1 2 9 (Some 11)]) 2 1
  = [(0, 6); (9, 10)].
Proof. vm_compute. reflexivity. Qed.
Print Assumptions C03_example.
