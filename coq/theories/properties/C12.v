(** C12 - Every returned time-respecting path is a genuine one. *)
From DynVerif Require Import Base Graph Annotate Paths.
From DynVerif.proofs Require Import SnapInv PathFacts PathComplete PathValid.
From Coq Require Import Sorting.Sorted.

(** For every graph whose snapshot table has distinct keys (true of every reachable graph: C04), every path of
    time_respecting_paths(G,u,v,start,end): is non-empty, its first hop leaves u, consecutive hops chain and their
    times strictly increase ([chained]), every hop (a,b,t) is an interaction present at t (b a neighbour of a at
    t; a -> b when G is directed) with t a snapshot id inside the window, and the last hop reaches v when given. *)
Theorem C12_sound : forall g u v start end_ l p,
  NoDup (map fst (g_snaps g)) ->
  time_respecting_paths g u v start end_ = PathsOk l -> In p l ->
  p <> [] /\ (exists b t, hd (0,0,0) p = (u, b, t)) /\ chained p /\
  (forall a b t, In (a, b, t) p -> In b (nbrs_t g a t) /\ exists ids, window_ids g start end_ = Some ids /\ In t ids) /\
  (forall v', v = Some v' -> exists a t, last p (0,0,0) = (a, v', t)).
Proof. exact paths_sound. Qed.
Print Assumptions C12_sound.

(** no immediate reversal: the ping-pong filter is part of [keep_path]; stated on the filter itself *)
Theorem C12_no_pingpong : forall s a b t r, pp_ok s ((a, b, t) :: r) = true ->
  ~ (a = snd (fst s) /\ b = fst (fst s)) /\ t <> snd s.
Proof.
  intros [[su sv] st] a b t r H. simpl in H. simpl.
  destruct ((a =? sv) && (b =? su) || (t =? st)) eqn:E; [discriminate|]. lia.
Qed.
Print Assumptions C12_no_pingpong.

(** the result has no duplicates (paths are grouped by (first node, last node) on the Python side: checked by the
    harness, the grouping is not modelled) *)
Theorem C12_nodup : forall g u v start end_ l, time_respecting_paths g u v start end_ = PathsOk l -> NoDup l.
Proof. exact paths_nodup. Qed.
Print Assumptions C12_nodup.

(** the window defaults to the first / last snapshot id, an improper window raises ValueError *)
Theorem C12_window_error : forall g u v s e, has_node g u s = true -> window_ids g s e = None ->
  time_respecting_paths g u v s e = PathsValueError.
Proof. intros g u v s e Hn Hw. unfold time_respecting_paths, temporal_dag. rewrite Hn, Hw. reflexivity. Qed.
Print Assumptions C12_window_error.

(** every intermediate node has an interaction (outgoing, on directed graphs) at each snapshot id strictly between
    its arrival and its departure: for a proper window [ids], every returned path is a [valid_path] -- the very
    notion the completeness theorem of C13 is stated with ([valid_from] carries the [alive] condition) *)
Theorem C12_valid : forall g u v ids p, StronglySorted Z.lt ids ->
  In p (all_paths_dag u (dag_of' g u v ids)) -> valid_path g ids u p.
Proof. exact paths_valid. Qed.
Print Assumptions C12_valid.

(** END TO END: every path in the list returned by time_respecting_paths is a valid path over the ids of the window *)
Theorem C12_valid_end_to_end : forall g u v s e l p, NoDup (map fst (g_snaps g)) ->
  time_respecting_paths g u v s e = PathsOk l -> In p l ->
  exists ids, window_ids g s e = Some ids /\ StronglySorted Z.lt ids /\ valid_path g ids u p /\ keep_path p = true.
Proof.
  intros g u v s e l p Hn H Hin. unfold time_respecting_paths in H.
  destruct (negb (has_node g u s)); [inversion H; subst; contradiction|].
  unfold temporal_dag in H. destruct (window_ids g s e) as [ids|] eqn:Hw; [|discriminate].
  inversion H; subst. exists ids. assert (Hs : StronglySorted Z.lt ids) by (eapply window_ids_sorted; eauto).
  split; [reflexivity|]. split; [exact Hs|]. split.
  - apply (C12_valid g u v ids p Hs). exact Hin.
  - unfold all_paths_dag in Hin. apply AnnotateFacts.dedup_In in Hin. destruct Hin as [Hin _].
    apply filter_In in Hin. apply Hin.
Qed.
Print Assumptions C12_valid_end_to_end.

(** the frontier is sound: an edge X@s -> Y@t with s < t exists only if X had a neighbour at every window id in between *)
Theorem C12_edges_alive : forall g u v ids, StronglySorted Z.lt ids ->
  forall x s y t, In (Occ x s, Occ y t) (d_edges (dag_of' g u v ids)) -> s < t -> alive g ids x s t.
Proof. exact dag_edges_alive. Qed.
Print Assumptions C12_edges_alive.

Example C12_example :
  let g := fst (add_interaction (fst (add_interaction (fst (add_interaction (empty_graph false true) 1 2 (Some 0) None)) 2 3 (Some 1) None)) 1 3 (Some 2) None) in
  time_respecting_paths g 1 (Some 3) None None = PathsOk [[(1, 2, 0); (2, 3, 1)]; [(1, 3, 2)]].
Proof. vm_compute. reflexivity. Qed.
Print Assumptions C12_example.
