(** C09 - Snapshot edge-list files round-trip the presence relation.
    [GoodG g]: removal-enabled, canonical timelines, well-formed adjacency (every reachable graph: C09_good). *)
From DynVerif Require Import Base Graph Derived Spec Annotate IO.
From DynVerif.proofs Require Import CoreInv C01Facts QueryFacts LogInv DerivedFacts IOFacts ReplayFacts LogRead TextRoundTrip.

Theorem C09_good : forall dir cs, GoodG (run_calls (G0 dir) cs).
Proof. intros. destruct (Good_reach dir cs) as (H1 & H2 & H3). split; [exact H1|split; [exact H2|exact H3]]. Qed.
Print Assumptions C09_good.

(** exactly one row (u,v,t) per interaction and per instant at which it is present; oriented when directed,
    under the orientation interactions() lists it when undirected; no row twice *)
Theorem C09_rows : forall g u v t, GoodG g ->
  (In (u, v, t) (gen_snapshots g) <->
   In (u, v) (if g_dir g then out_interactions g None None else interactions g None None) /\ has_interaction g u v (Some t) = true) /\
  NoDup (gen_snapshots g).
Proof. intros. split; [apply gen_snapshots_spec|apply gen_snapshots_NoDup]; assumption. Qed.
Print Assumptions C09_rows.

(** reading back the written rows gives a graph of the same class with the same presence relation *)
Theorem C09_roundtrip : forall g, GoodG g ->
  exists H, parse_snapshots (g_dir g) (map (fun x => (fst (fst x), snd (fst x), snd x, None)) (gen_snapshots g)) = RdOk H /\
            g_dir H = g_dir g /\
            forall u v tau, has_interaction H u v (Some tau) = has_interaction g u v (Some tau).
Proof. exact snapshots_roundtrip. Qed.
Print Assumptions C09_roundtrip.

(** a four-column row 'u v t e' is add_interaction(u, v, t, e), i.e. (C01) the span t..e-1 *)
Theorem C09_four_columns : forall g u v t e, parse_snapshots_from g [(u, v, t, e)] =
  match add_interaction g u v (Some t) e with (g', Done) => RdOk g' | (_, o) => RdErr o end.
Proof. exact parse_snapshot_row. Qed.
Print Assumptions C09_four_columns.

(** text level: a rendered row u<d>v<d>t is read back as that row, for any single-character delimiter d and
    comment marker m that are not digit / '-' characters, d not whitespace; decimal rendering and reading are inverse *)
Theorem C09_text : forall m d u v t, ~ rchar m -> ~ rchar d -> m <> d -> is_ws d = false ->
  snap_line m (Some d) (render_snap_row d (u, v, t)) = LRow (u, v, t, None).
Proof. exact snap_line_render. Qed.
Print Assumptions C09_text.
Theorem C09_decimal : forall z, parse_int (render_int z) = Some z.
Proof. exact parse_int_render. Qed.
Print Assumptions C09_decimal.

(** FILE round trip at text level: the lines write_snapshots emits (one rendered row per line, delimiter d), read by
    the text reader (comment marker m), give a graph of the same class with the same presence relation *)
Theorem C09_file_roundtrip : forall g m d, GoodG g -> ~ rchar m -> ~ rchar d -> m <> d -> is_ws d = false ->
  exists H, read_snapshots_text (g_dir g) m (Some d) false (map (render_snap_row d) (gen_snapshots g)) = TxOk H /\
            g_dir H = g_dir g /\ forall u v tau, has_interaction H u v (Some tau) = has_interaction g u v (Some tau).
Proof. exact snapshot_file_roundtrip. Qed.
Print Assumptions C09_file_roundtrip.

Example C09_example :
  gen_snapshots (run_calls (G0 true) [mkCall 1 2 0 (Some 2); mkCall 2 1 1 None; mkCall 1 2 4 None])
  = [(1, 2, 0); (1, 2, 1); (1, 2, 4); (2, 1, 1)] /\
  render_snap_row 44 (12, -3, 40) = [49; 50; 44; 45; 51; 44; 52; 48].
Proof. vm_compute. auto. Qed.
Print Assumptions C09_example.
