(** C08 - Accumulative mode (edge_removal=False): an interaction first added at t0 is present from t0 to the
    largest snapshot id of the graph, whatever vanishing times or repeated adds are supplied. *)
From DynVerif Require Import Base Graph Spec.
From DynVerif.proofs Require Import CoreInv QueryFacts AccFacts.
From Coq Require Import Sorting.Sorted.
From DynVerif Require Import PySupportCore.
From DynVerif.gen Require Import PyGenCore.
From DynVerif.proofs Require Import PyGenCoreEq.

(** [first_add dir h k]: instant of the first accepted call on pair k; [max_t h]: largest accepted instant *)
Theorem C08_presence : forall (dir : bool) (cs : list call) (u v tau : Z),
  let g := run_calls (GA dir) cs in let h := accepted (GA dir) cs in
  has_interaction g u v (Some tau) =
  match first_add dir h (nk dir u v) with None => false | Some t0 => (t0 <=? tau) && (tau <=? max_t h) end.
Proof. exact acc_presence. Qed.
Print Assumptions C08_presence.

Theorem C08_flat : forall (dir : bool) (cs : list call) (u v : Z),
  let g := run_calls (GA dir) cs in let h := accepted (GA dir) cs in
  has_interaction g u v None = match first_add dir h (nk dir u v) with None => false | Some _ => true end.
Proof. exact acc_flat. Qed.
Print Assumptions C08_flat.

(** snapshot ids = the instants at which some add was accepted (vanishing times ignored); max_t h is the last id *)
Theorem C08_ids : forall (dir : bool) (cs : list call),
  let g := run_calls (GA dir) cs in let h := accepted (GA dir) cs in
  StronglySorted Z.lt (snapshot_ids g) /\ forall t, In t (snapshot_ids g) <-> In t (map c_t h).
Proof. exact acc_ids. Qed.
Print Assumptions C08_ids.

(** exactly one '+' per pair, at its first appearance; no '-'; chronological; no repeats *)
Theorem C08_stream : forall (dir : bool) (cs : list call),
  let g := run_calls (GA dir) cs in let h := accepted (GA dir) cs in
  (forall t k op, In (t, k, op) (stream g) <-> op = true /\ first_add dir h k = Some t) /\
  NoDup (stream g) /\ Sorted (fun x y => ev_time x <= ev_time y) (stream g).
Proof. exact acc_stream. Qed.
Print Assumptions C08_stream.

(** the snapshot queries of C02 follow that presence: the query theorems of C02 are stated for any state
    satisfying InvAdj, which every accumulative state does *)
Theorem C08_queries : forall dir cs, InvAdj (run_calls (GA dir) cs).
Proof. intros. apply InvAdj_run, InvAdj_init. Qed.
Print Assumptions C08_queries.

(** source-level tie: the accumulative branch of the presence test is part of the GENERATED text of `has_interaction` /
    `__presence_test` (tools/py2gallina_core.py); on accumulative graphs too it is the model's [has_interaction] *)
Theorem C08_source_text : forall (dir : bool) (cs : list call) (u v : Z) (t : option Z),
  let g := run_calls (GA dir) cs in
  py_has_interaction_graph g u v t = has_interaction g u v t /\ py_has_interaction_digraph g u v t = has_interaction g u v t.
Proof. intros. split; [apply py_has_interaction_graph_eq|apply py_has_interaction_digraph_eq]. Qed.
Print Assumptions C08_source_text.

Example C08_example :
  let cs := [mkCall 1 2 5 (Some 9); mkCall 1 2 3 None; mkCall 3 4 2 None; mkCall 1 2 7 (Some 8); mkCall 3 4 20 None] in
  let g := run_calls (GA false) cs in
  map (fun t => has_interaction g 2 1 (Some t)) [4; 5; 9; 20; 21] = [false; true; true; true; false] /\
  snapshot_ids g = [2; 5; 7; 20].
Proof. vm_compute. auto. Qed.
Print Assumptions C08_example.
