(** C05 - The interaction stream is a chronological, faithful event log of presence (removal-enabled graphs). *)
From DynVerif Require Import Base Graph Spec.
From DynVerif.proofs Require Import CoreInv C01Facts LogInv ReplayFacts.
From Coq Require Import Sorting.Sorted Sorting.Permutation.

Lemma reach_InvLog dir cs : InvLog (run_calls (G0 dir) cs).
Proof. apply (InvLog_run cs (G0 dir) []); [reflexivity|apply Inv_init|apply InvLog_init]. Qed.

Lemma reach_canon dir cs k : canon (runs_of (run_calls (G0 dir) cs) k).
Proof.
  destruct (Inv_reach dir cs k) as (Hc & _). unfold runs_of.
  destruct (aget peqb k (g_edges (run_calls (G0 dir) cs))); [exact Hc|exact I].
Qed.

(** presence of pair k at t, as has_interaction computes it (C01_presence ties it to the added spans) *)
Definition present (g : graph) (k : Z * Z) (t : Z) : bool := mem t (runs_of g k).

(** non-decreasing instants, and no (pair, op, t) is repeated; the stream is a permutation of the event log *)
Theorem C05_sorted_nodup : forall (dir : bool) (cs : list call),
  let g := run_calls (G0 dir) cs in
  Sorted (fun x y => ev_time x <= ev_time y) (stream g) /\ NoDup (stream g).
Proof. intros. split; [apply stream_sorted|apply stream_NoDup, reach_InvLog]. Qed.
Print Assumptions C05_sorted_nodup.

(** a '+' for pair k at t exists exactly when k is present at t and absent at t-1 *)
Theorem C05_plus : forall (dir : bool) (cs : list call) (k : Z * Z) (t : Z),
  let g := run_calls (G0 dir) cs in
  In (t, k, true) (stream g) <-> present g k t = true /\ present g k (t - 1) = false.
Proof.
  intros. rewrite stream_In, <- has_event_In. destruct (reach_InvLog dir cs) as (Hp & _).
  fold g in Hp. rewrite Hp, (is_start_mem _ _ (reach_canon dir cs k)). fold g. unfold present.
  destruct (mem t (runs_of g k)), (mem (t - 1) (runs_of g k)); simpl; intuition congruence.
Qed.
Print Assumptions C05_plus.

(** every '-' at t has the pair present at t-1 and absent at t *)
Theorem C05_minus_sound : forall (dir : bool) (cs : list call) (k : Z * Z) (t : Z),
  let g := run_calls (G0 dir) cs in
  In (t, k, false) (stream g) -> present g k (t - 1) = true /\ present g k t = false.
Proof.
  intros dir cs k t g Hin. apply stream_In, has_event_In in Hin. destruct (reach_InvLog dir cs) as (_ & Hm & _).
  fold g in Hm. apply Hm in Hin. rewrite (is_end_mem _ _ (reach_canon dir cs k)) in Hin. fold g in Hin.
  unfold present. replace (t - 1 + 1) with t in Hin by lia.
  destruct (mem (t - 1) (runs_of g k)), (mem t (runs_of g k)); simpl in Hin; split; congruence.
Qed.
Print Assumptions C05_minus_sound.

(** PARTIAL (known finding K-C05-1): every presence run of at least THREE instants is closed by a '-' at end+1.
    The full statement (every run longer than one instant) is refuted below for two-instant runs. *)
Theorem C05_closed_partial : forall (dir : bool) (cs : list call) (k : Z * Z) (a b : Z),
  let g := run_calls (G0 dir) cs in
  In (a, b) (runs_of g k) -> a + 1 < b -> In (b + 1, k, false) (stream g).
Proof.
  intros dir cs k a b g Hin Hlt. apply stream_In, has_event_In. destruct (reach_InvLog dir cs) as (_ & _ & Hc & _).
  eapply Hc; eauto.
Qed.
Print Assumptions C05_closed_partial.

Theorem C05_closed_refuted : exists (dir : bool) (cs : list call) (k : Z * Z) (a b : Z),
  let g := run_calls (G0 dir) cs in
  In (a, b) (runs_of g k) /\ a < b /\ ~ In (b + 1, k, false) (stream g).
Proof.
  exists false, [mkCall 1 2 18 None; mkCall 1 2 19 None], (1, 2), 18, 19. cbv zeta.
  split; [vm_compute; auto|]. split; [lia|]. vm_compute. intros [H|[]]. discriminate.
Qed.
Print Assumptions C05_closed_refuted.

(** REPLAY: replaying the pair's events ('+' = appears, following '-' = vanishes, unclosed '+' = that single instant)
    reconstructs the presence relation -- PARTIAL: for graphs all of whose runs of two or more instants are closed
    ([all_closed]; false exactly in the presence of the unclosed two-instant run of K-C05-1, where replay loses the
    second instant: ReplayFacts.replay_unclosed) *)
Theorem C05_replay_partial : forall (dir : bool) (cs : list call) (k : Z * Z) (tau : Z),
  let g := run_calls (G0 dir) cs in
  all_closed g -> replay (pair_events g k) None tau = present g k tau.
Proof.
  intros dir cs k tau g Hc. unfold present. apply replay_presence; auto.
  - apply (reach_flags dir cs).
  - intros k'. apply (Inv_reach dir cs k').
  - apply reach_InvLog.
Qed.
Print Assumptions C05_replay_partial.
Theorem C05_replay_refuted : exists g k tau, replay (pair_events g k) None tau <> mem tau (runs_of g k).
Proof. exists g_unclosed, (1, 2), 2. vm_compute. discriminate. Qed.
Print Assumptions C05_replay_refuted.

Example C05_example :
  map (fun e => (ev_time e, snd e))
      (stream (run_calls (G0 false) [mkCall 1 2 2 None; mkCall 1 2 2 (Some 6); mkCall 1 2 7 (Some 11); mkCall 2 1 8 (Some 15); mkCall 1 3 2 (Some 3)]))
  = [(2, true); (2, true); (3, false); (6, false); (7, true); (15, false)].
Proof. vm_compute. reflexivity. Qed.
Print Assumptions C05_example.
