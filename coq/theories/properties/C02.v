(** C02 - Every snapshot and flattened query projects the one presence relation.
    [has_interaction g u v t] is that relation (C01 ties it to the added spans; t = None: flattened).
    The theorems hold in every state reachable by add_interaction / add_node calls, on both classes and in
    both removal modes ([reach_adj]).  Three facets are FALSE of the code because baseline tests pin the
    defective values; they are stated, refuted with a witness and proved in the weaker form that does hold. *)
From DynVerif Require Import Base Graph Spec.
From DynVerif.proofs Require Import CoreInv QueryFacts QueryFacts2.
From DynVerif Require Import StatsSpec.
From DynVerif.proofs Require Import HistSpecFacts.
From DynVerif Require Import PySupportCore.
From DynVerif.gen Require Import PyGenCore.
From DynVerif.proofs Require Import PyGenCoreEq.

Theorem C02_reach : forall dir rem cs, InvAdj (run_calls (empty_graph dir rem) cs).
Proof. intros. apply InvAdj_run, InvAdj_init. Qed.
Print Assumptions C02_reach.

(** neighbors / successors / predecessors *)
Theorem C02_neighbors : forall g n v t, InvAdj g ->
  (In v (nbrs_at g n t) <-> has_interaction g n v t = true) /\ NoDup (nbrs_at g n t) /\
  (In v (preds_at g n t) <-> has_interaction g v n t = true) /\ NoDup (preds_at g n t) /\
  (has_node_flat g n = true -> neighbors g n t = Some (nbrs_at g n t) /\ predecessors g n t = Some (preds_at g n t)).
Proof.
  intros g n v t HI.
  split; [apply nbrs_at_spec; assumption|]. split; [apply nbrs_at_NoDup; assumption|].
  split; [apply preds_at_spec; assumption|]. split; [apply preds_at_NoDup; assumption|].
  intros Hn. split; [apply neighbors_known|apply predecessors_known]; assumption.
Qed.
Print Assumptions C02_neighbors.

(** nodes(t), has_node(n,t), number_of_nodes(t): the endpoints of the interactions present at t *)
Theorem C02_nodes : forall g n t, InvAdj g ->
  (In n (nodes_at g t) <-> exists v, has_interaction g n v (Some t) = true \/ has_interaction g v n (Some t) = true) /\
  NoDup (nodes_at g t) /\ (has_node g n (Some t) = true <-> In n (nodes_at g t)) /\
  number_of_nodes g (Some t) = Z.of_nat (length (nodes_at g t)).
Proof.
  intros g n t HI.
  split; [apply nodes_at_spec; assumption|]. split; [apply nodes_at_NoDup; assumption|].
  split; [apply has_node_spec; assumption|apply number_of_nodes_spec].
Qed.
Print Assumptions C02_nodes.

(** in_interactions / out_interactions: each directed interaction exactly once, with its orientation; nbunch
    restricts to the listed nodes of the graph, unknown nodes are ignored *)
Theorem C02_in_out_interactions : forall g u v t, InvAdj g ->
  (In (u, v) (out_interactions g None t) <-> has_interaction g u v t = true) /\ NoDup (out_interactions g None t) /\
  (In (u, v) (in_interactions g None t) <-> has_interaction g u v t = true) /\ NoDup (in_interactions g None t) /\
  (forall nb, In (u, v) (out_interactions g (Some nb) t) <-> In u nb /\ has_node_flat g u = true /\ has_interaction g u v t = true).
Proof.
  intros g u v t HI.
  split; [apply out_interactions_spec; assumption|]. split; [apply out_interactions_NoDup; assumption|].
  split; [apply in_interactions_spec; assumption|]. split; [apply in_interactions_NoDup; assumption|].
  intros nb. apply out_interactions_nbunch; assumption.
Qed.
Print Assumptions C02_in_out_interactions.

(** interactions(): on DynGraph every present pair exactly once (under one orientation); sound on both classes *)
Theorem C02_interactions_undirected : forall g u v t, InvAdj g -> g_dir g = false ->
  (In (u, v) (interactions g None t) -> has_interaction g u v t = true) /\
  (has_interaction g u v t = true -> In (u, v) (interactions g None t) \/ In (v, u) (interactions g None t)) /\
  (u <> v -> In (u, v) (interactions g None t) -> ~ In (v, u) (interactions g None t)) /\
  NoDup (interactions g None t).
Proof.
  intros g u v t HI Hd.
  split; [intros H; eapply interactions_sound; eauto|].
  split; [intros H; apply interactions_undirected_complete; assumption|].
  split; [intros Hne H; eapply interactions_undirected_once; eauto|apply interactions_NoDup; assumption].
Qed.
Print Assumptions C02_interactions_undirected.

(** PARTIAL (finding K-C02-1): on DynDiGraph interactions() is only sound ... *)
Theorem C02_interactions_partial : forall g nb u v t, InvAdj g ->
  In (u, v) (interactions g nb t) -> has_interaction g u v t = true.
Proof. intros. eapply interactions_sound; eauto. Qed.
Print Assumptions C02_interactions_partial.
(** ... the full statement "lists every directed interaction" is refuted: 1->2 then 2->1, the second is omitted *)
Theorem C02_digraph_interactions_refuted : exists g u v,
  InvAdj g /\ g_dir g = true /\ has_interaction g u v (Some 0) = true /\ ~ In (u, v) (interactions g None (Some 0)).
Proof.
  exists (run_calls (empty_graph true true) [mkCall 1 2 0 None; mkCall 2 1 0 None]), 2, 1.
  split; [apply C02_reach|]. split; [reflexivity|]. split; [vm_compute; reflexivity|].
  vm_compute. intros [H|[]]. discriminate.
Qed.
Print Assumptions C02_digraph_interactions_refuted.

(** degree: number of neighbours (DynGraph) / successors + predecessors (DynDiGraph) *)
Theorem C02_degree : forall g n t,
  (g_dir g = true -> deg1 g t n = Z.of_nat (length (nbrs_at g n t)) + Z.of_nat (length (preds_at g n t))) /\
  (g_dir g = false -> deg1 g t n = Z.of_nat (length (nbrs_at g n t))).
Proof. intros. split; intros; [apply deg_directed|apply deg_undirected]; assumption. Qed.
Print Assumptions C02_degree.
(** finding K-C02-2: with the networkx convention a self-loop contributes 2 to the degree; the code says 1 and
    halves it in size() *)
Theorem C02_selfloop_refuted : exists g, InvAdj g /\ g_dir g = false /\
  has_interaction g 1 1 (Some 0) = true /\ deg1 g (Some 0) 1 = 1 /\ size g (Some 0) = 0.
Proof. exists (run_calls (empty_graph false true) [mkCall 1 1 0 None]). split; [apply C02_reach|]. vm_compute. auto. Qed.
Print Assumptions C02_selfloop_refuted.

(** finding K-C02-3: dn.density(G, t) is 0 whatever the graph *)
Theorem C02_density_t_refuted : forall g t, density g (Some t) = (0, 1).
Proof. reflexivity. Qed.
Print Assumptions C02_density_t_refuted.

(** size / number_of_interactions(t): the number of edges of the static graph -- always on DynDiGraph, and on DynGraph
    when no self-loop is present at t (finding K-C02-2); the handshake lemma behind it *)
Theorem C02_size : forall g t, InvAdj g ->
  (g_dir g = true -> size g t = Z.of_nat (length (static_edges g t)) /\
                     sumZ (map snd (degree_dict g 0 None t)) = 2 * Z.of_nat (length (static_edges g t)) /\
                     sumZ (map snd (degree_dict g 1 None t)) = Z.of_nat (length (static_edges g t)) /\
                     sumZ (map snd (degree_dict g 2 None t)) = Z.of_nat (length (static_edges g t))) /\
  (g_dir g = false -> no_selfloop g t -> size g t = Z.of_nat (length (static_edges g t)) /\
                     sumZ (map snd (degree_dict g 0 None t)) = 2 * Z.of_nat (length (static_edges g t))).
Proof.
  intros g t HI. split.
  - intros Hd. split; [apply size_directed; assumption|]. split; [apply degree_sum_directed; assumption|].
    split; [apply in_degree_sum; assumption|apply out_degree_sum; assumption].
  - intros Hd Hn. split; [apply size_undirected; assumption|apply degree_sum_undirected; assumption].
Qed.
Print Assumptions C02_size.

(** degree dicts: all nodes without nbunch; with nbunch only listed nodes of the graph (unknown ones ignored) *)
Theorem C02_degree_dict : forall g kind t,
  map fst (degree_dict g kind None t) = node_ids g /\
  forall nb n d, In (n, d) (degree_dict g kind (Some nb) t) -> In n nb /\ has_node_flat g n = true.
Proof. intros. split; [apply degree_dict_all|intros; eapply degree_dict_nbunch; eauto]. Qed.
Print Assumptions C02_degree_dict.

(** dn.density on the flattened graph, dn.degree_histogram, dn.non_neighbors, dn.non_interactions (undirected),
    get_node_snapshots, dn.is_empty *)
Theorem C02_density_flat : forall g, density g None =
  (let n := Z.of_nat (length (g_nodes g)) in let m := size g None in
   if (m =? 0) || (n <=? 1) then (0, 1) else ((if g_dir g then m else 2 * m), n * (n - 1))).
Proof. exact density_flat. Qed.
Print Assumptions C02_density_flat.
Theorem C02_degree_histogram : forall g t i, 0 <= i <= maxZ 0 (map snd (degree_dict g 0 None t)) ->
  nth (Z.to_nat i) (degree_histogram g t) (-1) = Z.of_nat (length (filter (fun nd => snd nd =? i) (degree_dict g 0 None t))).
Proof. exact degree_histogram_spec. Qed.
Print Assumptions C02_degree_histogram.
Theorem C02_non_neighbors : forall g n t x, InvAdj g -> has_node_flat g n = true ->
  forall l, non_neighbors g n t = Some l ->
  (In x l <-> In x (node_ids g) /\ x <> n /\ has_interaction g n x t = false /\ has_interaction g x n t = false).
Proof. exact non_neighbors_spec. Qed.
Print Assumptions C02_non_neighbors.
Theorem C02_non_interactions : forall g t a b, InvAdj g -> g_dir g = false ->
  (In (a, b) (non_interactions g t) -> In a (node_ids g) /\ In b (node_ids g) /\ a <> b /\ has_interaction g a b t = false) /\
  (In a (node_ids g) -> In b (node_ids g) -> a <> b -> has_interaction g a b t = false ->
     In (a, b) (non_interactions g t) \/ In (b, a) (non_interactions g t)) /\
  NoDup (non_interactions g t).
Proof.
  intros g t a b HI Hd. destruct (non_interactions_spec_alt g t a b HI Hd) as (H1 & H2).
  split; [exact H1|]. split; [exact H2|apply non_interactions_NoDup; assumption].
Qed.
Print Assumptions C02_non_interactions.
Theorem C02_node_snapshots : forall g n t, In t (node_snapshots g n) <-> In t (snapshot_ids g) /\ has_node g n (Some t) = true.
Proof. exact node_snapshots_spec. Qed.
Print Assumptions C02_node_snapshots.
Theorem C02_is_empty : forall g, InvAdj g -> (is_empty g = true <-> forall u v, has_interaction g u v None = false).
Proof. exact is_empty_spec_alt. Qed.
Print Assumptions C02_is_empty.

(** number_of_interactions(u, v, t) *)
Theorem C02_number_of_interactions_pair : forall g u v t,
  number_of_interactions g (Some (u, v)) t = Some (if has_interaction g u v t then 1 else 0).
Proof. reflexivity. Qed.
Print Assumptions C02_number_of_interactions_pair.

(** ** The same queries stated over the HISTORY of accepted calls (no graph state on the right-hand sides): for every call sequence on
    either class, [g] the removal-enabled graph reached and [h] the accepted calls.  [hs_pair] = presence of u->v / {u,v} by the spans
    ([pres]), [hs_node h u t] = some accepted call with endpoint u has t in its span, [hs_is_node] = some accepted call names u. *)
Theorem C02_history : forall dir cs,
  let g := run_calls (C01Facts.G0 dir) cs in let h := accepted (C01Facts.G0 dir) cs in
  (forall u v t, has_interaction g u v (Some t) = hs_pair dir h u v t) /\
  (forall u v, has_interaction g u v None = hs_named dir h u v) /\
  (forall u t, has_node g u (Some t) = hs_node h u t) /\
  enumerates (node_ids g) (hs_is_node h) /\
  (forall t, enumerates (nodes_at g t) (fun u => hs_node h u t = true)) /\
  (forall t, number_of_nodes g (Some t) = card (fun u => hs_node h u t) (node_ids g) /\
             number_of_nodes g None = Z.of_nat (length (node_ids g))) /\
  (forall u t, enumerates (nbrs_at g u (Some t)) (fun v => hs_pair dir h u v t = true) /\
               enumerates (preds_at g u (Some t)) (fun v => hs_pair dir h v u t = true)) /\
  (forall u t, deg1 g (Some t) u =
     if dir then card (fun v => hs_pair dir h u v t) (node_ids g) + card (fun v => hs_pair dir h v u t) (node_ids g)
     else card (fun v => hs_pair dir h u v t) (node_ids g)).
Proof.
  intros dir cs. split; [exact (hist_pair dir cs)|]. split; [exact (hist_pair_flat dir cs)|]. split; [exact (hist_node dir cs)|].
  split; [exact (hist_nodes dir cs)|]. split; [exact (hist_nodes_at dir cs)|]. split; [exact (hist_number_of_nodes dir cs)|].
  split; [exact (hist_neighbors dir cs)|exact (hist_degree dir cs)].
Qed.
Print Assumptions C02_history.
(** size(t) on DynDiGraph = the number of distinct ordered pairs of the history present at t *)
Theorem C02_history_size : forall cs t ks,
  let g := run_calls (C01Facts.G0 true) cs in let h := accepted (C01Facts.G0 true) cs in
  NoDup ks -> (forall c, In c h -> In (ckey true c) ks) ->
  size g (Some t) = Z.of_nat (length (filter (fun k => pres true true h k t) ks)).
Proof. intros cs t ks g h Hn Hc. exact (hist_size_directed true cs eq_refl t ks Hn Hc). Qed.
Print Assumptions C02_history_size.

(** source-level tie: the private presence test every query of this file filters the adjacency with - the Gallina text
    GENERATED from `__presence_test` of both classes (tools/py2gallina_core.py, regenerated from /repo on every run) - is the
    model's [presence_test] on the stored timeline (DynGraph: for an existing entry, as its callers guarantee; DynDiGraph: the
    method checks the entry itself) *)
Theorem C02_source_text : forall (g : graph) (u v t : Z),
  (forall tl, adj_entry g u v = Some tl -> py_presence_test_graph g u v t = presence_test g tl t) /\
  py_presence_test_digraph g u v t = key_present g (nk (g_dir g) u v) (Some t).
Proof. intros. split; [intros tl E; apply py_presence_test_graph_eq; exact E|apply py_presence_test_digraph_eq]. Qed.
Print Assumptions C02_source_text.

Example C02_example :
  let g := run_calls (empty_graph true true) [mkCall 1 2 0 (Some 3); mkCall 3 1 1 None; mkCall 1 1 2 None] in
  nbrs_at g 1 (Some 2) = [2; 1] /\ preds_at g 1 (Some 1) = [3] /\ nodes_at g 1 = [1; 2; 3] /\ deg1 g (Some 2) 1 = 3.
Proof. vm_compute. auto. Qed.
Print Assumptions C02_example.
