(** C01 - Interaction presence is exactly the union of the spans that were added.
    Statements only; every proof is a one-line appeal to a lemma of proofs/. *)
From DynVerif Require Import Base Graph Spec.
From DynVerif.proofs Require Import CoreInv C01Facts.
From DynVerif Require Import Rename.
From DynVerif.proofs Require Import RenameCore RenameInjCore RenameInjConf.
From DynVerif Require Import PySupportCore.
From DynVerif.gen Require Import PyGenCore.
From DynVerif.proofs Require Import PyGenCoreEq.

(** For every finite sequence of add_interaction calls [cs] on an empty removal-enabled graph of
    either class, with [h] the accepted calls: presence at every instant is the union of the spans. *)
Theorem C01_presence : forall (dir : bool) (cs : list call) (u v tau : Z),
  has_interaction (run_calls (G0 dir) cs) u v (Some tau)
  = pres dir true (accepted (G0 dir) cs) (nk dir u v) tau.
Proof. exact C01Facts.presence_thm. Qed.
Print Assumptions C01_presence.

(** without t: true iff the pair was ever added (with a non-empty span) *)
Theorem C01_flat : forall (dir : bool) (cs : list call) (u v : Z),
  has_interaction (run_calls (G0 dir) cs) u v None = named dir true (accepted (G0 dir) cs) (nk dir u v).
Proof. exact C01Facts.flat_thm. Qed.
Print Assumptions C01_flat.

(** a call is either accepted or rejected by the documented rule, nothing else:
    missing t -> NetworkXError with the state untouched; otherwise Done or ValueError, and ValueError exactly
    when the span starts before the start of the latest run of the pair's presence *)
Theorem C01_outcome_missing_t : forall g u v e, add_interaction g u v None e = (g, ENetworkX).
Proof. reflexivity. Qed.
Print Assumptions C01_outcome_missing_t.

Theorem C01_outcome_rule : forall (dir : bool) (cs : list call) (c : call),
  let g := run_calls (G0 dir) cs in
  let h := accepted (G0 dir) cs in
  (snd (do_call g c) = Done \/ snd (do_call g c) = EValue) /\
  (snd (do_call g c) = EValue <->
   exists a b, latest_run (pres dir true h (ckey dir c)) a b /\ c_t c < a).
Proof. exact C01Facts.outcome_thm. Qed.
Print Assumptions C01_outcome_rule.

(** later accepted calls never remove presence, and a call on one pair never changes another pair *)
Theorem C01_monotone_frame : forall dir rem h c k tau,
  pres dir rem (h ++ [c]) k tau = pres dir rem h k tau || (peqb (ckey dir c) k && in_span rem tau c).
Proof. exact CoreInv.pres_snoc. Qed.
Print Assumptions C01_monotone_frame.

(** non-vacuity: a 6-call history with overlap, adjacency, a gap, a contained span, a reversed endpoint
    order and a rejected call; the accepted part is non-trivial and presence is as the spans say *)
(** source-level tie: the Gallina text GENERATED from the Python methods `has_interaction` and `__presence_test` of BOTH classes
    (regenerated from /repo on every run by tools/py2gallina_core.py: early returns, the scan loop, the envelope test) is the
    model's [has_interaction], for every graph state, every pair and every t (None included) *)
Theorem C01_source_text : forall (g : graph) (u v : Z) (t : option Z),
  py_has_interaction_graph g u v t = has_interaction g u v t /\
  py_has_interaction_digraph g u v t = has_interaction g u v t.
Proof. intros. split; [apply py_has_interaction_graph_eq|apply py_has_interaction_digraph_eq]. Qed.
Print Assumptions C01_source_text.

(** hence the generated text itself computes the union of the added spans (each class's text on its own class) *)
Theorem C01_source_to_spec : forall (cs : list call) (u v tau : Z),
  py_has_interaction_graph (run_calls (G0 false) cs) u v (Some tau) = pres false true (accepted (G0 false) cs) (nk false u v) tau /\
  py_has_interaction_digraph (run_calls (G0 true) cs) u v (Some tau) = pres true true (accepted (G0 true) cs) (nk true u v) tau.
Proof.
  intros. split; [rewrite py_has_interaction_graph_eq|rewrite py_has_interaction_digraph_eq]; apply C01Facts.presence_thm.
Qed.
Print Assumptions C01_source_to_spec.

Example C01_example :
  let cs := [mkCall 1 2 0 (Some 3); mkCall 2 1 2 (Some 6); mkCall 1 2 6 None; mkCall 1 2 9 (Some 11);
             mkCall 1 2 3 None; mkCall 2 1 9 (Some 10)] in
  length (accepted (G0 false) cs) = 5%nat /\
  map (fun t => has_interaction (run_calls (G0 false) cs) 2 1 (Some t)) [0;5;6;7;8;9;10;11]
  = [true;true;true;false;false;true;true;false].
Proof. vm_compute. split; reflexivity. Qed.
Print Assumptions C01_example.

(** "any hashable node ids": the model codes node ids as integers; nothing depends on WHICH integers.  For every
    injective re-coding f of the ids, the graph built by the re-coded calls answers has_interaction (and, by
    [RenameInjCore], every other query) as the original does; outcomes of the calls are the same. *)
Theorem C01_id_coding : forall f, inj f -> forall dir cs u v t,
  has_interaction (run_calls (G0 dir) (map (ren_call f) cs)) (f u) (f v) t = has_interaction (run_calls (G0 dir) cs) u v t.
Proof.
  intros f Hf dir cs u v t. rewrite <- (renI_reach f Hf dir cs).
  apply renI_has_interaction; [exact Hf|apply keys_norm_reach].
Qed.
Print Assumptions C01_id_coding.
