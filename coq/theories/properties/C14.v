(** C14 - annotate_paths selects exactly the optimal paths for each criterion. *)
From DynVerif Require Import Base Annotate.
From DynVerif Require Import PySupportPaths.
From DynVerif.gen Require Import PyGenPaths.
From DynVerif.proofs Require Import AnnotateFacts PyGenPathsEq.

Definition minimal (m : path -> Z) (l : list path) (x : path) : Prop := In x l /\ forall y, In y l -> m x <= m y.

(** 'shortest' / 'fastest' / 'foremost': exactly the minimisers of hop count / duration / arrival time *)
Theorem C14_primary : forall (l : list path) (x : path),
  (In x (a_shortest (annotate_paths l)) <-> minimal path_length l x) /\
  (In x (a_fastest (annotate_paths l)) <-> minimal path_duration l x) /\
  (In x (a_foremost (annotate_paths l)) <-> minimal path_last l x).
Proof. intros. unfold minimal. simpl. split; [apply select_spec|split; apply select_spec]. Qed.
Print Assumptions C14_primary.

(** 'fastest_shortest' = minimal-duration members of 'shortest'; 'shortest_fastest' = fewest-hop members of 'fastest' *)
Theorem C14_secondary : forall (l : list path) (x : path),
  (In x (a_fastest_shortest (annotate_paths l)) <-> minimal path_duration (a_shortest (annotate_paths l)) x) /\
  (In x (a_shortest_fastest (annotate_paths l)) <-> minimal path_length (a_fastest (annotate_paths l)) x).
Proof. intros. unfold minimal. simpl. split; apply min_among_spec. Qed.
Print Assumptions C14_secondary.

(** every returned path is an element of the input; for a non-empty input no class is empty *)
Theorem C14_subset : forall (l : list path) (x : path),
  In x (a_shortest (annotate_paths l) ++ a_fastest (annotate_paths l) ++ a_foremost (annotate_paths l)
        ++ a_fastest_shortest (annotate_paths l) ++ a_shortest_fastest (annotate_paths l)) -> In x l.
Proof.
  intros l x H. repeat (apply in_app_or in H; destruct H as [H|H]); simpl in H;
    try (apply select_spec in H; tauto).
  - apply min_among_spec in H. destruct H as (H & _). apply select_spec in H. tauto.
  - apply min_among_spec in H. destruct H as (H & _). apply select_spec in H. tauto.
Qed.
Print Assumptions C14_subset.

Theorem C14_nonempty : forall l, l <> [] ->
  a_shortest (annotate_paths l) <> [] /\ a_fastest (annotate_paths l) <> [] /\ a_foremost (annotate_paths l) <> [].
Proof. intros l H. simpl. repeat split; apply select_nonempty; assumption. Qed.
Print Assumptions C14_nonempty.

(** the primary classes keep multiplicity and order: they are the input filtered by "is a minimiser" *)
Theorem C14_primary_filter : forall (m : path -> Z) (l : list path), l <> [] ->
  exists mv, (forall y, In y l -> mv <= m y) /\ (exists y, In y l /\ m y = mv) /\ select m l = filter (fun p => m p =? mv) l.
Proof. exact select_filter. Qed.
Print Assumptions C14_primary_filter.

(** path_length / path_duration are the hop count and last-minus-first time *)
Theorem C14_metrics : forall (h : hop) (p : path),
  path_length (h :: p) = Z.of_nat (S (length p)) /\
  path_duration (h :: p) = hop_time (last (h :: p) h) - hop_time h.
Proof.
  intros h p. split; [reflexivity|]. unfold path_duration, path_first, path_last. simpl hd.
  f_equal. f_equal. destruct p; [reflexivity|]. apply (CoreInvAux_last_default (h :: h0 :: p)). discriminate.
Qed.
Print Assumptions C14_metrics.

(** source-level tie: the Gallina text GENERATED from dynetx/algorithms/paths.py (path_length, path_duration, annotate_paths;
    regenerated from /repo on every run by tools/py2gallina_paths.py) is the model: on every non-empty list of paths the five
    entries of the returned dict hold exactly the five lists of [annotate_paths] (order and multiplicity included); on []
    Python raises TypeError and the property does not speak *)
Theorem C14_source_text : forall (p : path) (l : list path),
  py_path_length p = path_length p /\ py_path_duration p = path_duration p /\
  (l <> [] ->
   py_shortest (py_annotate_paths l) = Some (a_shortest (annotate_paths l)) /\
   py_fastest (py_annotate_paths l) = Some (a_fastest (annotate_paths l)) /\
   py_foremost (py_annotate_paths l) = Some (a_foremost (annotate_paths l)) /\
   py_fastest_shortest (py_annotate_paths l) = Some (a_fastest_shortest (annotate_paths l)) /\
   py_shortest_fastest (py_annotate_paths l) = Some (a_shortest_fastest (annotate_paths l))).
Proof. intros p l. split; [apply py_path_length_eq|split; [apply py_path_duration_eq|apply py_annotate_paths_eq]]. Qed.
Print Assumptions C14_source_text.

(** hence the generated text itself selects exactly the minimisers *)
Theorem C14_source_to_spec : forall (l : list path) (x : path), l <> [] ->
  exists sh fa fo, py_shortest (py_annotate_paths l) = Some sh /\ py_fastest (py_annotate_paths l) = Some fa /\
    py_foremost (py_annotate_paths l) = Some fo /\
    (In x sh <-> minimal path_length l x) /\ (In x fa <-> minimal path_duration l x) /\ (In x fo <-> minimal path_last l x).
Proof.
  intros l x Hne. destruct (py_annotate_paths_eq l Hne) as (E1 & E2 & E3 & _).
  exists (a_shortest (annotate_paths l)), (a_fastest (annotate_paths l)), (a_foremost (annotate_paths l)).
  destruct (C14_primary l x) as (P1 & P2 & P3).
  split; [exact E1|]. split; [exact E2|]. split; [exact E3|]. split; [exact P1|]. split; [exact P2|exact P3].
Qed.
Print Assumptions C14_source_to_spec.

Example C14_example :
  let p1 := [(1, 2, 1); (2, 3, 4)] in let p2 := [(1, 3, 5)] in let p3 := [(1, 4, 2); (4, 3, 3)] in
  a_shortest (annotate_paths [p1; p2; p3]) = [p2] /\ a_fastest (annotate_paths [p1; p2; p3]) = [p2] /\
  a_foremost (annotate_paths [p1; p2; p3]) = [p3] /\ a_shortest_fastest (annotate_paths [p1; p2; p3]) = [p2].
Proof. vm_compute. repeat split; reflexivity. Qed.
Print Assumptions C14_example.
