(** C04 - Snapshot ids are the inhabited instants; per-snapshot counts are exact. *)
From DynVerif Require Import Base Graph Spec.
From DynVerif.proofs Require Import CoreInv C01Facts SnapInv.
From Coq Require Import Sorting.Sorted.
From DynVerif Require Import Derived Stats PySupportStats.
From DynVerif.gen Require Import PyGenStats.
From DynVerif.proofs Require Import PyGenStatsEq.
From DynVerif Require Import StatsSpec.
From DynVerif.proofs Require Import HistSpecFacts.

Lemma reach_InvSnap dir cs : InvSnap (run_calls (G0 dir) cs).
Proof. apply (InvSnap_run cs (G0 dir) []); [reflexivity|apply Inv_init|apply InvSnap_init]. Qed.

(** [count_present g t] = number of adjacency entries whose timeline contains t; by [C04_count_is_presence] it
    is the number of distinct pairs k with has_interaction true at t (C01 ties that to the added spans). *)
Theorem C04_ids : forall (dir : bool) (cs : list call),
  let g := run_calls (G0 dir) cs in
  StronglySorted Z.lt (snapshot_ids g) /\
  forall t, In t (snapshot_ids g) <-> 0 < count_present g t.
Proof. intros. split; [apply ids_sorted|apply ids_spec]; apply reach_InvSnap. Qed.
Print Assumptions C04_ids.

Theorem C04_count : forall (dir : bool) (cs : list call) (t : Z),
  let g := run_calls (G0 dir) cs in
  fst (interactions_per_snapshot g t) = 2 * count_present g t /\ snd (interactions_per_snapshot g t) = 2.
Proof. intros. apply ips_spec. apply reach_InvSnap. Qed.
Print Assumptions C04_count.

Theorem C04_count_is_presence : forall (dir : bool) (cs : list call) (t : Z),
  let g := run_calls (G0 dir) cs in
  NoDup (akeys (g_edges g)) /\
  count_present g t = Z.of_nat (length (filter (fun k => key_present g k (Some t)) (akeys (g_edges g)))).
Proof.
  intros. pose proof (reach_InvSnap dir cs) as HI. split; [apply HI|].
  apply count_present_spec; [apply HI|apply (reach_flags dir cs)|].
  eapply all_canon_of_Inv. apply Inv_reach.
Qed.
Print Assumptions C04_count_is_presence.

(** the dict form lists exactly the snapshot ids, each with its (doubled) count *)
Theorem C04_all : forall (dir : bool) (cs : list call) (t c : Z),
  let g := run_calls (G0 dir) cs in
  In (t, c) (g_snaps g) -> c = 2 * count_present g t /\ In t (snapshot_ids g).
Proof.
  intros dir cs t c g Hin. pose proof (reach_InvSnap dir cs) as HI. fold g in HI.
  destruct HI as (Hk & Hs & Hget & Hpos). split.
  - rewrite <- Hget. unfold snap_get. rewrite (AListFacts.zin_aget_nodup t c (g_snaps g) Hs Hin). reflexivity.
  - unfold snapshot_ids. apply sortZ_In. apply in_map_iff. exists (t, c). auto.
Qed.
Print Assumptions C04_all.

(** avg_number_of_nodes: sum of number_of_nodes(t) over the snapshot ids, divided by their number *)
Theorem C04_avg : forall g,
  fst (avg_number_of_nodes g) = sumZ (map (fun t => number_of_nodes g (Some t)) (snapshot_ids g)) /\
  snd (avg_number_of_nodes g) = Z.of_nat (length (snapshot_ids g)).
Proof.
  intros g. split; [reflexivity|]. unfold avg_number_of_nodes, snapshot_ids. simpl.
  rewrite sortZ_length, map_length. reflexivity.
Qed.
Print Assumptions C04_avg.

(** source-level tie: the Gallina text GENERATED from DynGraph.temporal_snapshots_ids / avg_number_of_nodes (tools/py2gallina_stats.py,
    regenerated from /repo on every run) is the model function, for every graph state *)
Theorem C04_source_text : forall g,
  py_temporal_snapshots_ids g = snapshot_ids g /\ py_avg_number_of_nodes g = avg_number_of_nodes g.
Proof. intros g. split; [apply py_temporal_snapshots_ids_eq|apply py_avg_number_of_nodes_eq]. Qed.
Print Assumptions C04_source_text.

(** over the HISTORY: the snapshot ids enumerate (ascending, no repetition) exactly the instants covered by the span of some accepted
    call, and the count at t is the number of DISTINCT pairs of the history present at t -- counted over any duplicate-free list of keys
    that covers the history *)
Theorem C04_history : forall dir cs,
  let g := run_calls (G0 dir) cs in let h := accepted (G0 dir) cs in
  enumerates (snapshot_ids g) (fun t => hs_inhabited h t = true) /\ StronglySorted Z.lt (snapshot_ids g) /\
  forall t ks, NoDup ks -> (forall c, In c h -> In (ckey dir c) ks) ->
    interactions_per_snapshot g t = (2 * Z.of_nat (length (filter (fun k => pres dir true h k t) ks)), 2).
Proof.
  intros dir cs. destruct (hist_ids dir cs) as (H1 & H2). split; [exact H1|]. split; [exact H2|exact (hist_count dir cs)].
Qed.
Print Assumptions C04_history.

Example C04_example :
  let g := run_calls (G0 false) [mkCall 1 2 0 (Some 3); mkCall 2 1 2 (Some 5); mkCall 1 3 1 None; mkCall 1 3 1 None] in
  snapshot_ids g = [0; 1; 2; 3; 4] /\ map (fun t => fst (interactions_per_snapshot g t)) [0; 1; 2; 3; 4; 5] = [2; 4; 2; 2; 2; 0].
Proof. vm_compute. split; reflexivity. Qed.
Print Assumptions C04_example.
